(* Extraction of the executable model.  ExtrOcamlBasic only: Z, positive and
   nat stay the extracted inductive types; no Extract Constant of our own. *)
From Coq Require Extraction ExtrOcamlBasic.
From RM Require Import Model.Drv13.
Extraction Language OCaml.
Set Extraction KeepSingleton.
Extraction "Extract/model.ml" run_c13.

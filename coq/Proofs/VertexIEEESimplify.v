(* VertexIEEESimplify: C17, the osu!-mode simplification of Catmull paths AS
   COMPUTED (binary32 distance, widened to binary64, compared with 6.0).

   1. [far_false_dist]: for points with finite coordinates |c| <= 2^20, if the
      computed test `f64::from(a.distance(b)) > 6.0` is false then the real
      distance is at most 6 + 2^-19 (AdjustIEEE.plen_rel: the computed length
      has relative error 3.01 * 2^-24 once the real squared distance is
      >= 2^-20; below that the distance is tiny anyway).
   2. [spec_HD_emb]: the loop simplify_loop_g over ANY point type with an
      embedding into the real plane and a "far" test that only lets embedded
      distances <= delta pass: kept and full polyline (embedded) within delta of
      each other, both ways (HausdorffSimplify's argument; the decisions are
      the loop's own, only the geometry is read over the reals).
   3. [catmull_simplify_hausdorff_ieee]: the model's catmull_simplify. *)
From RM Require Import Model.ControlPoints Model.Curve Gen.Generated Proofs.AdjustIEEEBase Proofs.AdjustIEEE
  Proofs.BezierIEEE Proofs.ArcExact Proofs.HausdorffPlane Proofs.HausdorffSimplify Proofs.HausdorffCatmull
  Proofs.VertexIEEECatmullPath.
From Flocq Require Import Core BinarySingleNaN.
From Coq Require Import Reals Lra Lia Psatz.
Require Import ZifyBool.
Open Scope R_scope.

Local Notation fin x := (is_finite x = true).
Local Notation bp := (bpow radix2).

(* ---------- 1. the computed test ---------- *)

Lemma six_sf : B2SF catmull_simplify_dist = SpecFloat.S754_finite false 6755399441055744 (-50).
Proof. vm_compute. reflexivity. Qed.
Lemma six_R : B2R catmull_simplify_dist = 6.
Proof. rewrite <- SF2R_B2SF, six_sf. unfold SF2R, F2R. cbn. lra. Qed.
Lemma six_fin : fin catmull_simplify_dist.
Proof. rewrite <- is_finite_SF_B2SF, six_sf. reflexivity. Qed.

Lemma far_false_dist (s c : Pos) : point_ok 20 s -> point_ok 20 c ->
  D.gt (f64_of_f32 (pdist s c)) catmull_simplify_dist = false ->
  dist2 (posR s) (posR c) <= 6 + bp (-19).
Proof.
  intros [[Fsx Bsx] [Fsy Bsy]] [[Fcx Bcx] [Fcy Bcy]] Hgt.
  pose proof (bpow_gt_0 radix2 (-19)) as P19.
  set (Dx := B2R (px s) - B2R (px c)). set (Dy := B2R (py s) - B2R (py c)).
  assert (Ed : dist2 (posR s) (posR c) = sqrt (Dx * Dx + Dy * Dy)).
  { unfold dist2, sqd2, sqd, posR. cbn [fst snd]. f_equal. unfold Dx, Dy. ring. }
  rewrite Ed.
  assert (B20 : bp 20 = 1048576) by (cbn; lra).
  assert (HDx : Rabs Dx <= bp 21).
  { unfold Dx. replace (bp 21) with (2 * bp 20) by (cbn; lra). unfold Rminus.
    eapply Rle_trans; [apply Rabs_triang|]. rewrite Rabs_Ropp. lra. }
  assert (HDy : Rabs Dy <= bp 21).
  { unfold Dy. replace (bp 21) with (2 * bp 20) by (cbn; lra). unfold Rminus.
    eapply Rle_trans; [apply Rabs_triang|]. rewrite Rabs_Ropp. lra. }
  destruct (Rlt_or_le (Dx * Dx + Dy * Dy) (bp (-20))) as [Hs|Hl].
  - (* tiny *)
    assert (sqrt (Dx * Dx + Dy * Dy) <= 1); [|lra].
    rewrite <- sqrt_1. apply sqrt_le_1_alt.
    assert (bp (-20) <= 1) by (replace 1 with (bp 0) by reflexivity; apply bpow_le; lia). lra.
  - destruct (S_sub_spec (px s) (px c) 21 Fsx Fcx ltac:(lia) HDx) as (Fdx & Mdx & Rdx).
    destruct (S_sub_spec (py s) (py c) 21 Fsy Fcy ltac:(lia) HDy) as (Fdy & Mdy & Rdy).
    assert (Hup : Dx * Dx + Dy * Dy <= bp 44).
    { replace (bp 44) with (4 * (bp 21 * bp 21)) by (rewrite <- bpow_plus; cbn; lra).
      pose proof (bpow_gt_0 radix2 21) as P21.
      pose proof (Rabs_pos Dx). pose proof (Rabs_pos Dy).
      assert (Dx * Dx <= bp 21 * bp 21) by (rewrite <- (Rabs_mult_self Dx) || idtac; apply Rabs_le_inv in HDx; nra).
      assert (Dy * Dy <= bp 21 * bp 21) by (apply Rabs_le_inv in HDy; nra). nra. }
    destruct (plen_rel (S.sub (px s) (px c)) (S.sub (py s) (py c)) Dx Dy Fdx Fdy Mdx Mdy Rdx Rdy (conj Hl Hup))
      as (Fpl & _ & Rpl).
    change (plen (mkPos (S.sub (px s) (px c)) (S.sub (py s) (py c)))) with (pdist s c) in Fpl, Rpl.
    destruct (f64_of_f32_exact (pdist s c) Fpl) as [F64 R64].
    unfold D.gt, fgt in Hgt. rewrite (Bltb_correct 53 1024 _ _ six_fin F64) in Hgt.
    rewrite six_R, R64 in Hgt.
    assert (Hle : B2R (pdist s c) <= 6).
    { destruct (Rlt_bool_spec 6 (B2R (pdist s c))) as [H|H]; [discriminate Hgt|exact H]. }
    destruct Rpl as (d & Epl & Bd).
    set (L := sqrt (Dx * Dx + Dy * Dy)) in *.
    assert (HL0 : 0 <= L) by apply sqrt_pos.
    assert (Hu : 3.01 * u32 <= / 5000000) by (unfold u32; lra).
    apply Rabs_le_inv in Bd.
    assert (HL8 : L <= 8) by nra.
    assert (bp (-19) = / 524288) by (cbn; lra). nra.
Qed.

(* ---------- 2. the loop over an embedded point type ---------- *)

Section Emb.
  Context {P T : Type}.
  Variables (emb : P -> P2) (ok : P -> Prop).
  Variables (dist_g : P -> P -> T) (add_g sub_g : T -> T -> T) (zero_g : T) (far_g : T -> bool).
  Variable delta : R.
  Hypothesis Hdelta : 0 <= delta.
  Hypothesis Hfar : forall s c, ok s -> ok c -> far_g (dist_g s c) = false -> dist2 (emb s) (emb c) <= delta.

  Notation loop := (simplify_loop_g dist_g add_g sub_g zero_g far_g).

  Fixpoint specP (l : list P) (i n : Z) (ls : option P) : list P :=
    match l with
    | [] => []
    | curr :: t =>
        match ls with
        | None => curr :: specP t (i + 1) n (Some curr)
        | Some s =>
            if far_g (dist_g s curr) || ((i + 1) mod catmull_segment_len =? 0)%Z || (i =? n - 1)%Z
            then curr :: specP t (i + 1) n None
            else specP t (i + 1) n (Some s)
        end
    end.

  Lemma loop_specP l : forall i n prev ls removed acc opt,
    fst (loop l i n prev ls removed acc opt) = acc ++ specP l i n ls.
  Proof.
    induction l as [|curr t IH]; intros i n prev ls removed acc opt.
    - cbn [simplify_loop_g specP fst]. rewrite app_nil_r. reflexivity.
    - cbn [simplify_loop_g specP]. destruct ls as [s|].
      + destruct (far_g (dist_g s curr) || ((i + 1) mod catmull_segment_len =? 0)%Z || (i =? n - 1)%Z)%bool.
        * rewrite IH, <- app_assoc. reflexivity.
        * apply IH.
      + rewrite IH, <- app_assoc. reflexivity.
  Qed.

  Lemma spec_HD_emb n l : forall i ls, (i + Z.of_nat (length l) = n)%Z -> Forall ok l ->
    match ls with
    | None => forall c, ok c -> HD delta (emb c :: map emb l) (emb c :: map emb (specP l i n None))
    | Some s => forall x, ok s -> ok x -> dist2 (emb s) (emb x) <= delta -> (l = [] -> x = s) ->
                HD delta (emb x :: map emb l) (emb s :: map emb (specP l i n (Some s)))
    end.
  Proof.
    induction l as [|curr t IH]; intros i ls Hn Hok.
    - destruct ls as [s|].
      + intros x _ _ _ Hx. rewrite (Hx eq_refl). apply HD_single. exact Hdelta.
      + intros c _. apply HD_single. exact Hdelta.
    - cbn [length] in Hn. pose proof (Forall_inv Hok) as Oc. pose proof (Forall_inv_tail Hok) as Ot. destruct ls as [s|].
      + intros x Os Ox Hsx _. cbn [specP map].
        destruct (far_g (dist_g s curr) || ((i + 1) mod catmull_segment_len =? 0)%Z || (i =? n - 1)%Z)%bool eqn:Ec.
        * cbn [map]. apply HD_close; [exact Hdelta|exact Hsx|]. exact (IH (i + 1)%Z None ltac:(lia) Ot curr Oc).
        * apply Bool.orb_false_elim in Ec. destruct Ec as [Ec Elast].
          apply Bool.orb_false_elim in Ec. destruct Ec as [Efar _].
          pose proof (Hfar s curr Os Oc Efar) as Hsc.
          apply HD_drop; [exact Hdelta|exact Hsx|exact Hsc|].
          apply (IH (i + 1)%Z (Some s) ltac:(lia) Ot curr Os Oc Hsc).
          intros ->. cbn [length] in Hn. lia.
      + intros c Occ. cbn [specP map]. apply HD_cons_same; [exact Hdelta|].
        apply (IH (i + 1)%Z (Some curr) ltac:(lia) Ot curr Oc Oc); [rewrite dist2_refl; exact Hdelta|reflexivity].
  Qed.

  Theorem simplify_hausdorff_emb sub_path opt dummy : Forall ok sub_path ->
    let kept := fst (loop sub_path 0%Z (Z.of_nat (length sub_path)) dummy None zero_g [] opt) in
    HD delta (map emb sub_path) (map emb kept).
  Proof.
    intros Hok kept. subst kept. rewrite loop_specP. cbn [app].
    destruct sub_path as [|c0 t]; [split; intros q []|].
    pose proof (Forall_inv Hok) as O0. pose proof (Forall_inv_tail Hok) as Ot.
    cbn [specP map].
    apply (spec_HD_emb (Z.of_nat (length (c0 :: t))) t (0 + 1)%Z (Some c0)).
    - cbn [length]. lia.
    - exact Ot.
    - exact O0.
    - exact O0.
    - rewrite dist2_refl. exact Hdelta.
    - reflexivity.
  Qed.
End Emb.

(* ---------- 3. the model's catmull_simplify ---------- *)

Theorem catmull_simplify_hausdorff_ieee (cat : list Pos) (opt : F64) :
  Forall (point_ok 20) cat ->
  HD (6 + bp (-19)) (map posR cat) (map posR (fst (catmull_simplify cat opt))).
Proof.
  intros Hok. unfold catmull_simplify, simplify_loop.
  apply (simplify_hausdorff_emb posR (point_ok 20) (fun a b => f64_of_f32 (pdist a b)) D.add D.sub D.zero
           (fun x => D.gt x catmull_simplify_dist) (6 + bp (-19))).
  - pose proof (bpow_gt_0 radix2 (-19)). lra.
  - intros s c Os Oc H. apply far_false_dist; assumption.
  - exact Hok.
Qed.

Lemma point_ok_mono E E' p : (E <= E')%Z -> point_ok E p -> point_ok E' p.
Proof.
  intros H [[F1 B1] [F2 B2]]. assert (bp E <= bp E') by (apply bpow_le; exact H).
  split; split; try assumption; lra.
Qed.

(* osu! mode, the whole Catmull branch of calculate_subpath: control points
   within 2^16 -- the computed Catmull vertices are then within 2^20 *)
Theorem catmull_then_simplify_ieee E points cat opt :
  (0 <= E <= 16)%Z -> Forall (point_ok E) points -> approximate_catmull points = Done cat ->
  HD (6 + bp (-19)) (map posR cat) (map posR (fst (catmull_simplify cat opt))).
Proof.
  intros HE Hok Hrun. apply catmull_simplify_hausdorff_ieee.
  eapply Forall_impl; [|exact (approximate_catmull_ok E points cat ltac:(lia) Hok Hrun)].
  intros p. apply point_ok_mono. lia.
Qed.

(* CatmullSurplusCheck: a boolean test of the hypotheses of
   Proofs/CatmullSurplus.v ([catmull_hyp], [path_small]) on concrete control
   points, sound by proof -- so that concrete decoded sliders can be shown to
   meet them by computation on booleans (never on binary32 values).

   A finite binary32 value is an integer multiple of 2^-149: the test scales
   every coordinate to that integer and compares integers:
       |c| <= 2^20                    <=>  |C| <= 2^169
       equal, or 2^-60 apart (exact)  <=>  equal, or dX^2 + dY^2 >= 2^178. *)
From RM Require Import Model.Encode Model.CurveDist.
From RM Require Model.DrvEnc Model.Curve.
From RM Require Import Proofs.LengthBound Proofs.AdjustExact Proofs.AdjustIEEEBase Proofs.AdjustIEEE Proofs.AdjustIEEESum
     Proofs.DecodedObjects Proofs.EncodeTotal
     Proofs.CatmullSurplusSeg Proofs.CatmullSurplusLoop Proofs.CatmullSurplus Proofs.CatmullSurplusEncode.
From Flocq Require Import Core BinarySingleNaN.
From Coq Require Import Reals Lra Lia ZArith List Bool.
Import ListNotations.

Local Notation fin x := (is_finite x = true).
Local Notation pw k := (bpow radix2 k).

(* ---------- a coordinate as an integer multiple of 2^-149 ---------- *)

Definition scaled (x : F32) : option Z :=
  match x with
  | B754_zero _ => Some 0%Z
  | B754_finite s m e _ => if (-149 <=? e)%Z then Some (cond_Zopp s (Zpos m) * 2 ^ (e + 149))%Z else None
  | _ => None
  end.

Lemma scaled_sound x X : scaled x = Some X -> fin x /\ B2R x = (IZR X * pw (-149))%R.
Proof.
  destruct x as [s|s| |s m e Hm]; cbn [scaled]; try discriminate.
  - intros [= <-]. split; [reflexivity|]. cbn [B2R]. lra.
  - destruct (Z.leb_spec (-149) e) as [He|He]; [|discriminate]. intros [= <-]. split; [reflexivity|].
    cbn [B2R]. unfold F2R. cbn [Fnum Fexp]. rewrite mult_IZR.
    change (2 ^ (e + 149))%Z with (radix2 ^ (e + 149))%Z.
    rewrite (IZR_Zpower radix2 (e + 149)) by lia. rewrite Rmult_assoc, <- bpow_plus.
    replace (e + 149 + -149)%Z with e by lia. reflexivity.
Qed.

Definition spos (p : Curve.Pos) : option (Z * Z) :=
  match scaled (Curve.px p), scaled (Curve.py p) with
  | Some x, Some y => Some (x, y)
  | _, _ => None
  end.

Definition coordb (q : Z * Z) : bool := ((Z.abs (fst q) <=? 2 ^ 169) && (Z.abs (snd q) <=? 2 ^ 169))%Z.

Definition segb (a b : Z * Z) : bool :=
  (((fst a =? fst b) && (snd a =? snd b)) || (2 ^ 178 <=? (fst b - fst a) ^ 2 + (snd b - snd a) ^ 2))%Z.

Lemma scaled_bnd x X : scaled x = Some X -> (Z.abs X <= 2 ^ 169)%Z -> bnd32 x 20.
Proof.
  intros Hs Hb. destruct (scaled_sound x X Hs) as (F & E). split; [exact F|]. rewrite E.
  rewrite Rabs_mult, (Rabs_pos_eq (pw (-149))) by (left; apply bpow_gt_0). rewrite <- abs_IZR.
  replace (pw 20) with (IZR (2 ^ 169) * pw (-149))%R.
  - apply Rmult_le_compat_r; [left; apply bpow_gt_0|]. apply IZR_le. exact Hb.
  - change (2 ^ 169)%Z with (radix2 ^ 169)%Z. rewrite (IZR_Zpower radix2 169) by lia.
    rewrite <- bpow_plus. reflexivity.
Qed.

Lemma coordb_sound p q : spos p = Some q -> coordb q = true -> coord_le p 20.
Proof.
  unfold spos, coordb. destruct (scaled (Curve.px p)) as [x|] eqn:Ex; [|discriminate].
  destruct (scaled (Curve.py p)) as [y|] eqn:Ey; [|discriminate]. intros [= <-]. cbn [fst snd].
  intros H. apply andb_true_iff in H. destruct H as (Hx & Hy).
  apply Z.leb_le in Hx. apply Z.leb_le in Hy.
  split; [exact (scaled_bnd _ _ Ex Hx)|exact (scaled_bnd _ _ Ey Hy)].
Qed.

Lemma segb_sound a b qa qb : spos a = Some qa -> spos b = Some qb -> segb qa qb = true -> cseg_ok a b.
Proof.
  unfold spos, segb.
  destruct (scaled (Curve.px a)) as [xa|] eqn:Exa; [|discriminate].
  destruct (scaled (Curve.py a)) as [ya|] eqn:Eya; [|discriminate].
  destruct (scaled (Curve.px b)) as [xb|] eqn:Exb; [|discriminate].
  destruct (scaled (Curve.py b)) as [yb|] eqn:Eyb; [|discriminate].
  intros [= <-] [= <-]. cbn [fst snd]. intros H.
  destruct (scaled_sound _ _ Exa) as (_ & Rxa). destruct (scaled_sound _ _ Eya) as (_ & Rya).
  destruct (scaled_sound _ _ Exb) as (_ & Rxb). destruct (scaled_sound _ _ Eyb) as (_ & Ryb).
  apply orb_true_iff in H. destruct H as [H|H].
  - apply andb_true_iff in H. destruct H as (Hx & Hy). apply Z.eqb_eq in Hx. apply Z.eqb_eq in Hy. subst.
    left. unfold R2. rewrite Rxa, Rya, Rxb, Ryb. reflexivity.
  - apply Z.leb_le in H. right.
    assert (P : (pw (-60) = sqrt (pw (-120)))%R).
    { change (-120)%Z with (-60 + -60)%Z. rewrite bpow_plus, sqrt_square; [reflexivity|left; apply bpow_gt_0]. }
    rewrite P. unfold edist. apply sqrt_le_1_alt. cbn [R2 fst snd]. rewrite Rxa, Rya, Rxb, Ryb.
    replace ((IZR xb * pw (-149) - IZR xa * pw (-149)) ^ 2 + (IZR yb * pw (-149) - IZR ya * pw (-149)) ^ 2)%R
      with (IZR ((xb - xa) ^ 2 + (yb - ya) ^ 2) * (pw (-149) * pw (-149)))%R.
    2:{ rewrite plus_IZR. change 2%Z with (Z.of_nat 2). rewrite <- !pow_IZR, !minus_IZR. ring. }
    rewrite <- bpow_plus. change (-149 + -149)%Z with (-298)%Z.
    replace (pw (-120)) with (IZR (2 ^ 178) * pw (-298))%R.
    + apply Rmult_le_compat_r; [left; apply bpow_gt_0|]. apply IZR_le. exact H.
    + change (2 ^ 178)%Z with (radix2 ^ 178)%Z. rewrite (IZR_Zpower radix2 178) by lia.
      rewrite <- bpow_plus. reflexivity.
Qed.

(* ---------- one Catmull sub-path ---------- *)

Fixpoint cat_coordb (cat : list Curve.Pos) : bool :=
  match cat with
  | [] => true
  | p :: t => match spos p with Some q => coordb q && cat_coordb t | None => false end
  end.

Fixpoint cat_segsb (cat : list Curve.Pos) : bool :=
  match cat with
  | a :: ((b :: _) as t) =>
      match spos a, spos b with Some qa, Some qb => segb qa qb && cat_segsb t | _, _ => false end
  | _ => true
  end.

Definition cat_okb (cat : list Curve.Pos) : bool := cat_coordb cat && cat_segsb cat.

Lemma cat_coordb_sound cat : cat_coordb cat = true -> Forall (fun p => coord_le p 20) cat.
Proof.
  induction cat as [|p t IH]; [constructor|]. cbn [cat_coordb].
  destruct (spos p) as [q|] eqn:E; [|discriminate]. intros H. apply andb_true_iff in H. destruct H as (H1 & H2).
  constructor; [exact (coordb_sound p q E H1)|exact (IH H2)].
Qed.

Lemma cat_segsb_sound cat : cat_segsb cat = true -> csegs_ok cat.
Proof.
  induction cat as [|a [|b t] IH]; try (intros; exact I).
  change (cat_segsb (a :: b :: t)) with
    (match spos a, spos b with Some qa, Some qb => segb qa qb && cat_segsb (b :: t) | _, _ => false end).
  destruct (spos a) as [qa|] eqn:Ea; [|discriminate]. destruct (spos b) as [qb|] eqn:Eb; [|discriminate].
  intros H. apply andb_true_iff in H. destruct H as (H1 & H2).
  split; [exact (segb_sound a b qa qb Ea Eb H1)|exact (IH H2)].
Qed.

Lemma cat_okb_sound cat : cat_okb cat = true -> cat_ok cat.
Proof.
  unfold cat_okb. intros H. apply andb_true_iff in H. destruct H as (H1 & H2).
  split; [exact (cat_coordb_sound cat H1)|exact (cat_segsb_sound cat H2)].
Qed.

(* ---------- a control-point list, a slider, a hit object ---------- *)

Lemma INR_le_cmax n : (Z.of_nat n <= 2 ^ 30)%Z -> (INR n <= cmax)%R.
Proof. intros H. rewrite INR_IZR_INZ. unfold cmax. apply IZR_le. exact H. Qed.

Definition catmull_hypb (mode : Z) (pts : list Curve.PathControlPoint) : bool :=
  forallb cat_okb (catmull_subpaths mode pts) &&
  (Z.of_nat (length (concat (catmull_subpaths mode pts))) <=? 2 ^ 30)%Z.

Lemma catmull_hypb_sound mode pts : catmull_hypb mode pts = true -> catmull_hyp mode pts.
Proof.
  unfold catmull_hypb. intros H. apply andb_true_iff in H. destruct H as (H1 & H2). split.
  - apply Forall_forall. intros cat Hin. apply cat_okb_sound. rewrite forallb_forall in H1. exact (H1 cat Hin).
  - apply INR_le_cmax. apply Z.leb_le. exact H2.
Qed.

Definition path_smallb (lm : Curve.Libm) (fuel : positive) (mode : Z) (pts : list Curve.PathControlPoint) : bool :=
  match Curve.calculate_path_L1 lm fuel mode pts with
  | Done (path, _) => (Z.of_nat (length path) <=? 2 ^ 30)%Z
  | _ => true
  end.

Lemma path_smallb_sound lm fuel mode pts : path_smallb lm fuel mode pts = true -> path_small lm fuel mode pts.
Proof.
  unfold path_smallb, path_small. intros H path opt E. rewrite E in H.
  apply INR_le_cmax. apply Z.leb_le. exact H.
Qed.

Definition slider_boundedb (lm : Curve.Libm) (s : Slider) : bool :=
  catmull_hypb (sl_mode s) (map CurveDist.conv_pcp (sl_control_points s)) &&
  path_smallb lm Curve.bezier_fuel (sl_mode s) (map CurveDist.conv_pcp (sl_control_points s)).

Definition obj_boundedb (lm : Curve.Libm) (h : HitObject) : bool :=
  match h_kind h with
  | KSlider s => if osu_catmull s then slider_boundedb lm s else true
  | _ => true
  end.

Lemma obj_boundedb_sound lm h : obj_boundedb lm h = true -> obj_bounded lm h.
Proof.
  unfold obj_boundedb, obj_bounded. destruct (h_kind h) as [ci|s|sp|hd]; try (intros; exact I).
  intros H Eo. rewrite Eo in H. unfold slider_boundedb in H. apply andb_true_iff in H. destruct H as (H1 & H2).
  split; [exact (catmull_hypb_sound _ _ H1)|exact (path_smallb_sound _ _ _ _ H2)].
Qed.

(* a decoded map: every osu!-mode Catmull slider passes the test *)
Definition map_boundedb (lm : Curve.Libm) (lines : list str) : bool :=
  match decode_beatmap (dist_of_curve lm) lines with
  | Done bv => forallb (obj_boundedb lm) (hov_hit_objects (bmv_ho bv))
  | _ => false
  end.

Theorem map_boundedb_sound lm lines : map_boundedb lm lines = true ->
  exists bv, decode_beatmap (dist_of_curve lm) lines = Done bv /\
             Forall (obj_bounded lm) (hov_hit_objects (bmv_ho bv)).
Proof.
  unfold map_boundedb. destruct (decode_beatmap (dist_of_curve lm) lines) as [bv| |]; try discriminate.
  intros H. exists bv. split; [reflexivity|]. apply Forall_forall. intros h Hin.
  apply obj_boundedb_sound. rewrite forallb_forall in H. exact (H h Hin).
Qed.

(* BezierEqualPoints: an IEEE class for T01g -- a Bezier segment all of whose
   control points are the same point p (osu! files contain them: `B|1:1|1:1`)
   is flat at once, provided each coordinate of p is finite and can be
   doubled without overflow (|x| < 2^127; the decoder's are <= 2^18):
   x - x * 2 + x is computed exactly, it is a zero. *)
From RM Require Import Model.ControlPoints Model.Curve Proofs.BezierTermination.
From Flocq Require Import Core BinarySingleNaN Mult_error.
From Coq Require Import Reals Lra Lia.
Open Scope R_scope.

Local Notation fin x := (is_finite x = true).
Local Notation fexp32 := (SpecFloat.fexp 24 128).
Local Notation RN := (round radix2 fexp32 (round_mode mode_NE)).
Local Instance Hp32i : Prec_gt_0 24 := Hp32.
Local Instance He32i : Prec_lt_emax 24 128 := He32.

Lemma s2_sf : B2SF s2 = SpecFloat.S754_finite false 8388608 (-22).
Proof. vm_compute. reflexivity. Qed.
Lemma s2_R : B2R s2 = 2.
Proof. rewrite <- SF2R_B2SF, s2_sf. unfold SF2R, F2R. cbn. lra. Qed.
Lemma s2_fin : fin s2.
Proof. rewrite <- is_finite_SF_B2SF, s2_sf. reflexivity. Qed.

Lemma limit_sf : B2SF bezier_limit = SpecFloat.S754_finite false 8388608 (-25).
Proof. vm_compute. reflexivity. Qed.
Lemma limit_R : B2R bezier_limit = 1 / 4.
Proof. rewrite <- SF2R_B2SF, limit_sf. unfold SF2R, F2R. cbn. lra. Qed.
Lemma limit_fin : fin bezier_limit.
Proof. rewrite <- is_finite_SF_B2SF, limit_sf. reflexivity. Qed.

Lemma overflow_not_finite32 (x : F32) s :
  B2SF x = binary_overflow 24 128 mode_NE s -> is_finite x = false.
Proof. intros H. rewrite <- is_finite_SF_B2SF, H. reflexivity. Qed.

Lemma format_double (x : F32) : generic_format radix2 fexp32 (B2R x * 2).
Proof.
  replace 2 with (bpow radix2 1) by (cbn; lra).
  apply (mult_bpow_pos_exact_FLT radix2 (3 - 128 - 24) 24); [apply generic_format_B2R|lia].
Qed.

(* prev - curr * 2.0 + next with prev = curr = next = x *)
Definition dd32 (x : F32) : F32 := S.add (S.sub x (S.mul x s2)) x.

Lemma dd32_zero x : fin x -> fin (S.mul x s2) -> fin (dd32 x) /\ B2R (dd32 x) = 0.
Proof.
  intros Fx Fm. unfold dd32.
  assert (Hm : B2R (S.mul x s2) = B2R x * 2).
  { pose proof (Bmult_correct 24 128 Hp32 He32 mode_NE x s2) as H.
    destruct (Rlt_bool _ _).
    - destruct H as (HR & _). unfold S.mul, fmul. rewrite HR, s2_R.
      apply round_generic; [apply valid_rnd_N|apply format_double].
    - exfalso. apply overflow_not_finite32 in H. unfold S.mul, fmul in Fm. congruence. }
  assert (Hs : fin (S.sub x (S.mul x s2)) /\ B2R (S.sub x (S.mul x s2)) = - B2R x).
  { pose proof (Bminus_correct 24 128 Hp32 He32 mode_NE x (S.mul x s2) Fx Fm) as H.
    replace (B2R x - B2R (S.mul x s2)) with (- B2R x) in H by (rewrite Hm; ring).
    rewrite round_generic in H
      by (try apply valid_rnd_N; apply generic_format_opp, generic_format_B2R).
    rewrite Rlt_bool_true in H by (rewrite Rabs_Ropp; apply abs_B2R_lt_emax).
    destruct H as (HR & HF & _). unfold S.sub, fsub. split; assumption. }
  destruct Hs as [Fs Rs].
  pose proof (Bplus_correct 24 128 Hp32 He32 mode_NE (S.sub x (S.mul x s2)) x Fs Fx) as H.
  replace (B2R (S.sub x (S.mul x s2)) + B2R x) with 0 in H by (rewrite Rs; ring).
  rewrite round_0 in H by apply valid_rnd_N.
  rewrite Rlt_bool_true in H by (rewrite Rabs_R0; apply bpow_gt_0).
  destruct H as (HR & HF & _). unfold S.add, fadd. split; assumption.
Qed.

Lemma finite_zero (z : F32) : fin z -> B2R z = 0 -> exists s, z = B754_zero s.
Proof.
  destruct z as [s|s| |s m e H]; try discriminate; [eauto|].
  intros _ HR. exfalso. cbn [B2R] in HR. apply eq_0_F2R in HR. cbn in HR. destruct s; discriminate.
Qed.

Definition doubles (x : F32) : Prop := fin x /\ fin (S.mul x s2).

Lemma far32_same p : doubles (px p) -> doubles (py p) -> far32 p p p = false.
Proof.
  intros [Fx Fmx] [Fy Fmy]. unfold far32, plen_sq, pdot, padd, psub, pmul. cbn [px py].
  fold (dd32 (px p)). fold (dd32 (py p)).
  destruct (dd32_zero _ Fx Fmx) as [F1 R1]. destruct (dd32_zero _ Fy Fmy) as [F2 R2].
  destruct (finite_zero _ F1 R1) as (s1 & ->). destruct (finite_zero _ F2 R2) as (s2' & ->).
  unfold S.gt, fgt. rewrite Bltb_correct; [|exact limit_fin|destruct s1, s2'; reflexivity].
  apply Rlt_bool_false. rewrite limit_R.
  replace (B2R (S.add (S.mul (B754_zero s1) (B754_zero s1)) (S.mul (B754_zero s2') (B754_zero s2')))) with 0
    by (destruct s1, s2'; reflexivity).
  lra.
Qed.

Lemma flat_repeat p n : far32 p p p = false -> flat_enough (repeat p n) = true.
Proof.
  intros H. rewrite model_flat.
  induction n as [|[|[|n]] IH]; try reflexivity.
  change (repeat p (S (S (S n)))) with (p :: p :: p :: repeat p n).
  change (flat_g far32 (p :: p :: p :: repeat p n))
    with (if far32 p p p then false else flat_g far32 (p :: p :: repeat p n)).
  rewrite H. exact IH.
Qed.

Lemma last_repeat (p : Pos) n : last (repeat p (S n)) pos0 = p.
Proof.
  induction n as [|n IH]; [reflexivity|].
  change (repeat p (S (S n))) with (p :: repeat p (S n)).
  change (last (p :: repeat p (S n)) pos0) with (last (repeat p (S n)) pos0). exact IH.
Qed.

(* all control points equal: the loop returns after two iterations *)
Theorem bezier_equal_points_partial fuel path p n :
  doubles (px p) -> doubles (py p) -> (2 <= Pos.to_nat fuel)%nat ->
  approximate_bezier_L1 fuel path (repeat p (S n)) tt
  = Done (path ++ bezier_approx_pts (repeat p (S n)) ++ [p], tt).
Proof.
  intros Hx Hy Hf.
  rewrite (bezier_flat_partial fuel path (repeat p (S n))); [|discriminate| |exact Hf].
  - rewrite last_repeat. reflexivity.
  - apply flat_repeat. apply far32_same; assumption.
Qed.

(* not vacuous: (1, 1), the point of `B|1:1|1:1` *)
Example doubles_one : doubles (S.of_Z 1).
Proof. split; rewrite <- is_finite_SF_B2SF; vm_compute; reflexivity. Qed.

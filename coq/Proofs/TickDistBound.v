(* TickDistBound: a binary64 LOWER BOUND for the slider tick distance the
   encoder derives from clamped map values.

   Every input is clamped by the decoder: SliderMultiplier to [0.4, 3.6],
   SliderTickRate to [0.5, 8], the beat length to [6, 60000], the slider
   velocity of a difficulty point to [0.1, 10].  Each of these lies between
   two powers of two; powers of two (in range) are binary64 numbers and
   round-to-nearest is monotone, so the bounds can be pushed through every
   multiplication and division without any error analysis:
     2^i <= a <= 2^j, 2^k <= b <= 2^l  ==>  2^(i+k) <= RN(a*b) <= 2^(j+l)
                                            2^(i-l) <= RN(a/b) <= 2^(j-k)
   and the upper bounds give finiteness (no overflow).

   Result ([osu_tick_dist_lower], [catch_tick_dist_lower]): the tick distance
   is finite and at least 2^-25, for every mode and every format version; and
   the slider velocity is finite and positive. *)
From RM Require Import Model.MapLevelGeneric Model.MapLevel Model.Encode
     Proofs.TimingPointsValues Proofs.TPFloatFacts Proofs.SliderEventsMono.
From RM Require Import Gen.Generated.
From Flocq Require Import Core BinarySingleNaN.
From Coq Require Import Reals Lra Lia ZArith.
Open Scope R_scope.

Local Notation fin x := (is_finite x = true).
Local Notation fexp64 := (SpecFloat.fexp 53 1024).
Local Notation RN := (round radix2 fexp64 (round_mode mode_NE)).
Local Notation p2 := (bpow radix2).

Local Instance Hp64j : Prec_gt_0 53 := Hp64.
Local Instance He64j : Prec_lt_emax 53 1024 := He64.

(* ---------- powers of two and rounding ---------- *)

Lemma p2_format (i : Z) : (-1000 <= i <= 1000)%Z -> generic_format radix2 fexp64 (p2 i).
Proof.
  intros Hi. apply generic_format_bpow. unfold SpecFloat.fexp, SpecFloat.emin. lia.
Qed.

Lemma RN_p2 (i : Z) : (-1000 <= i <= 1000)%Z -> RN (p2 i) = p2 i.
Proof. intros Hi. apply round_generic; [apply valid_rnd_N | apply p2_format; exact Hi]. Qed.

Lemma RN_between (x : R) (i j : Z) : (-1000 <= i)%Z -> (j <= 1000)%Z ->
  p2 i <= x <= p2 j ->
  p2 i <= RN x <= p2 j /\ Rlt_bool (Rabs (RN x)) (p2 1024) = true.
Proof.
  intros Hi Hj [H1 H2].
  assert (Hij : (i <= j)%Z).
  { apply (le_bpow radix2). lra. }
  assert (B : p2 i <= RN x <= p2 j).
  { split.
    - rewrite <- (RN_p2 i) by lia. apply RN_le. exact H1.
    - rewrite <- (RN_p2 j) by lia. apply RN_le. exact H2. }
  split; [exact B|].
  apply Rlt_bool_true.
  pose proof (bpow_gt_0 radix2 i) as P.
  rewrite Rabs_pos_eq by lra.
  apply Rle_lt_trans with (p2 j); [apply B|]. apply bpow_lt. lia.
Qed.

(* ---------- values between two powers of two ---------- *)

Definition between (i j : Z) (x : F64) : Prop := fin x /\ p2 i <= B2R x <= p2 j.

Lemma between_weaken (i j i' j' : Z) x : (i' <= i)%Z -> (j <= j')%Z -> between i j x -> between i' j' x.
Proof.
  intros Hi Hj (F & H1 & H2). split; [exact F|]. split.
  - apply Rle_trans with (p2 i); [apply bpow_le; exact Hi | exact H1].
  - apply Rle_trans with (p2 j); [exact H2 | apply bpow_le; exact Hj].
Qed.

Lemma between_pos i j x : between i j x -> 0 < B2R x.
Proof. intros (_ & H & _). pose proof (bpow_gt_0 radix2 i). lra. Qed.

Lemma between_mul (i j k l : Z) (a b : F64) :
  (-1000 <= i + k)%Z -> (j + l <= 1000)%Z ->
  between i j a -> between k l b -> between (i + k) (j + l) (D.mul a b).
Proof.
  intros Hlo Hhi (Fa & A1 & A2) (Fb & B1 & B2).
  pose proof (bpow_gt_0 radix2 i) as Pi. pose proof (bpow_gt_0 radix2 k) as Pk.
  assert (P : p2 (i + k) <= B2R a * B2R b <= p2 (j + l)).
  { rewrite !bpow_plus. split.
    - apply Rmult_le_compat; lra.
    - apply Rmult_le_compat; lra. }
  destruct (RN_between _ _ _ Hlo Hhi P) as (B & Hov).
  pose proof (Bmult_correct 53 1024 Hp64 He64 mode_NE a b) as H.
  rewrite Hov in H. destruct H as (HR & HF & _).
  unfold D.mul, fmul. split.
  - rewrite HF, Fa, Fb. reflexivity.
  - rewrite HR. exact B.
Qed.

Lemma between_div (i j k l : Z) (a b : F64) :
  (-1000 <= i - l)%Z -> (j - k <= 1000)%Z ->
  between i j a -> between k l b -> between (i - l) (j - k) (D.div a b).
Proof.
  intros Hlo Hhi (Fa & A1 & A2) (Fb & B1 & B2).
  pose proof (bpow_gt_0 radix2 i) as Pi. pose proof (bpow_gt_0 radix2 k) as Pk.
  assert (Hb : B2R b <> 0) by lra.
  assert (P : p2 (i - l) <= B2R a / B2R b <= p2 (j - k)).
  { unfold Zminus. rewrite !bpow_plus, !bpow_opp. unfold Rdiv.
    assert (I1 : / p2 l <= / B2R b) by (apply Rinv_le_contravar; lra).
    assert (I2 : / B2R b <= / p2 k) by (apply Rinv_le_contravar; lra).
    assert (I0 : 0 < / p2 l) by (apply Rinv_0_lt_compat; lra).
    split.
    - apply Rmult_le_compat; lra.
    - apply Rmult_le_compat; lra. }
  destruct (RN_between _ _ _ Hlo Hhi P) as (B & Hov).
  pose proof (Bdiv_correct 53 1024 Hp64 He64 mode_NE a b Hb) as H. cbv zeta in H.
  rewrite Hov in H. destruct H as (HR & HF & _).
  unfold D.div, fdiv. split.
  - rewrite HF. exact Fa.
  - rewrite HR. exact B.
Qed.

(* ---------- pinned constants ---------- *)

(* a constant given by its (positive) mantissa and exponent *)
Lemma sf_between (c : F64) (m : positive) (e i j : Z) :
  B2SF c = SpecFloat.S754_finite false m e ->
  (e <= i)%Z -> (e <= j)%Z -> (2 ^ (i - e) <= Zpos m <= 2 ^ (j - e))%Z ->
  between i j c.
Proof.
  intros H Hi Hj [M1 M2].
  destruct c as [s|s| |s m' e' Hb]; try discriminate. cbn in H. inversion H; subst.
  split; [reflexivity|].
  unfold B2R, F2R. cbn [Fnum Fexp SpecFloat.cond_Zopp].
  pose proof (bpow_gt_0 radix2 e) as Pe.
  assert (Ei : p2 i = IZR (2 ^ (i - e)) * p2 e).
  { rewrite (IZR_Zpower radix2) by lia. rewrite <- bpow_plus. f_equal. lia. }
  assert (Ej : p2 j = IZR (2 ^ (j - e)) * p2 e).
  { rewrite (IZR_Zpower radix2) by lia. rewrite <- bpow_plus. f_equal. lia. }
  rewrite Ei, Ej.
  split; (apply Rmult_le_compat_r; [lra | apply IZR_le; assumption]).
Qed.

Ltac pin_between :=
  eapply sf_between; [vm_compute; reflexivity | lia | lia | vm_compute; split; discriminate].

Lemma sm_lo_b : between (-2) (-1) slider_mult_lo. Proof. pin_between. Qed.
Lemma sm_hi_b : between 1 2 slider_mult_hi. Proof. pin_between. Qed.
Lemma tr_lo_b : between (-1) (-1) tick_rate_lo. Proof. pin_between. Qed.
Lemma tr_hi_b : between 3 3 tick_rate_hi. Proof. pin_between. Qed.
Lemma bl_lo_b : between 2 3 bl_lo. Proof. pin_between. Qed.
Lemma bl_hi_b : between 15 16 bl_hi. Proof. pin_between. Qed.
Lemma sv_lo_b : between (-4) (-3) sv_lo. Proof. pin_between. Qed.
Lemma sv_hi_b : between 3 4 sv_hi. Proof. pin_between. Qed.
Lemma one_b : between 0 0 D.one. Proof. pin_between. Qed.
Lemma base_dist_b : between 6 7 (f64_of_f32 (dec32' base_scoring_dist_dec)). Proof. pin_between. Qed.
Lemma default_bl_b : between 9 10 default_beat_len. Proof. pin_between. Qed.

(* the bpm clamps of get_precision_adjusted_beat_len: [10, 10000] / 100 and [10, 1000] / 100 *)
Definition std_lo : F64 := dec64' (fst (fst bpm_clamp_std)).
Definition std_hi : F64 := dec64' (snd (fst bpm_clamp_std)).
Definition std_dv : F64 := dec64' (snd bpm_clamp_std).
Definition tm_lo : F64 := dec64' (fst (fst bpm_clamp_tm)).
Definition tm_hi : F64 := dec64' (snd (fst bpm_clamp_tm)).
Definition tm_dv : F64 := dec64' (snd bpm_clamp_tm).

Lemma std_lo_b : between 3 4 std_lo. Proof. pin_between. Qed.
Lemma std_hi_b : between 13 14 std_hi. Proof. pin_between. Qed.
Lemma std_dv_b : between 6 7 std_dv. Proof. pin_between. Qed.
Lemma tm_lo_b : between 3 4 tm_lo. Proof. pin_between. Qed.
Lemma tm_hi_b : between 9 10 tm_hi. Proof. pin_between. Qed.
Lemma tm_dv_b : between 6 7 tm_dv. Proof. pin_between. Qed.
Lemma std_bounds : D.le std_lo std_hi = true. Proof. vm_compute. reflexivity. Qed.
Lemma tm_bounds : D.le tm_lo tm_hi = true. Proof. vm_compute. reflexivity. Qed.
Lemma neg_100_strict : is_finite_strict (D.neg f64_100) = true. Proof. vm_compute. reflexivity. Qed.

(* ---------- lo <= x <= hi (IEEE) with positive finite bounds ---------- *)

Lemma range_between (lo hi x : F64) (i j i' j' : Z) :
  between i j' lo -> between i' j hi -> in_range lo hi x -> between i j x.
Proof.
  intros (Fl & L1 & _) (Fh & _ & H2) [Hlo Hhi].
  pose proof (bpow_gt_0 radix2 i) as Pi.
  assert (Fx : fin x).
  { destruct x as [s|s| |s m e Hb]; try reflexivity.
    - (* infinity *)
      destruct s.
      + (* lo <= -inf with lo finite: impossible *)
        destruct lo as [sl|sl| |sl ml el Hl]; try discriminate Fl; try destruct sl; discriminate Hlo.
      + destruct hi as [sh|sh| |sh mh eh Hh]; try discriminate Fh; try destruct sh; discriminate Hhi.
    - destruct lo as [sl|sl| |sl ml el Hl]; try discriminate Fl; try destruct sl; discriminate Hlo. }
  split; [exact Fx|].
  unfold D.le, fle in Hlo, Hhi.
  rewrite (Bleb_correct 53 1024 _ _ Fl Fx) in Hlo. rewrite (Bleb_correct 53 1024 _ _ Fx Fh) in Hhi.
  destruct (Rle_bool_spec (B2R lo) (B2R x)) as [R1|R1]; [|discriminate Hlo].
  destruct (Rle_bool_spec (B2R x) (B2R hi)) as [R2|R2]; [|discriminate Hhi]. lra.
Qed.

Lemma between_in_range (lo hi x : F64) (i j k l m n : Z) :
  between i j lo -> between k l hi -> between m n x ->
  (j <= m)%Z -> (n <= k)%Z -> in_range lo hi x.
Proof.
  intros (Fl & _ & L2) (Fh & H1 & _) (Fx & X1 & X2) Hjm Hnk.
  pose proof (bpow_le radix2 _ _ Hjm). pose proof (bpow_le radix2 _ _ Hnk).
  split; apply Fle_le; try assumption; unfold Fle; lra.
Qed.

(* the four clamped inputs *)
Lemma sm_between sm : in_range slider_mult_lo slider_mult_hi sm -> between (-2) 2 sm.
Proof. apply (range_between _ _ _ _ _ _ _ sm_lo_b sm_hi_b). Qed.
Lemma tr_between tr : in_range tick_rate_lo tick_rate_hi tr -> between (-1) 3 tr.
Proof. apply (range_between _ _ _ _ _ _ _ tr_lo_b tr_hi_b). Qed.
Lemma bl_between bl : in_range bl_lo bl_hi bl -> between 2 16 bl.
Proof. apply (range_between _ _ _ _ _ _ _ bl_lo_b bl_hi_b). Qed.
Lemma sv_between sv : in_range sv_lo sv_hi sv -> between (-4) 4 sv.
Proof. apply (range_between _ _ _ _ _ _ _ sv_lo_b sv_hi_b). Qed.

(* the defaults used when there is no control point are in range *)
Lemma default_beat_len_in_range : in_range bl_lo bl_hi default_beat_len.
Proof. apply (between_in_range _ _ _ _ _ _ _ _ _ bl_lo_b bl_hi_b default_bl_b); lia. Qed.
Lemma one_in_sv_range : in_range sv_lo sv_hi D.one.
Proof. apply (between_in_range _ _ _ _ _ _ _ _ _ sv_lo_b sv_hi_b one_b); lia. Qed.

(* ---------- get_precision_adjusted_beat_len ---------- *)

(* the factor applied to the beat length, in both branches and all modes *)
Lemma bpm_mult_between (x : F64) (mode : Z) : D.is_nan x = false ->
  between (-4) 8
    (let '(lo, hi, dv) := if (mode =? 1)%Z || (mode =? 3)%Z then bpm_clamp_tm else bpm_clamp_std in
     D.div (D.clamp x (dec64' lo) (dec64' hi)) (dec64' dv)).
Proof.
  intros Hx. destruct ((mode =? 1)%Z || (mode =? 3)%Z).
  - change (between (-4) 8 (D.div (D.clamp x tm_lo tm_hi) tm_dv)).
    pose proof (clamp_in_range x tm_lo tm_hi tm_bounds Hx) as Hr.
    pose proof (range_between _ _ _ _ _ _ _ tm_lo_b tm_hi_b Hr) as Hc.
    apply (between_weaken (3 - 7) (10 - 6)); [lia | lia |].
    apply between_div; [lia | lia | exact Hc | exact tm_dv_b].
  - change (between (-4) 8 (D.div (D.clamp x std_lo std_hi) std_dv)).
    pose proof (clamp_in_range x std_lo std_hi std_bounds Hx) as Hr.
    pose proof (range_between _ _ _ _ _ _ _ std_lo_b std_hi_b Hr) as Hc.
    apply (between_weaken (3 - 7) (14 - 6)); [lia | lia |].
    apply between_div; [lia | lia | exact Hc | exact std_dv_b].
Qed.

Lemma adjusted_between (sv bl : F64) (mode : Z) :
  between (-4) 4 sv -> between 2 16 bl ->
  between (-2) 24 (precision_adjusted_beat_len sv bl mode).
Proof.
  intros Hsv Hbl. unfold precision_adjusted_beat_len. cbv zeta.
  set (sab := D.div (D.neg f64_100) sv).
  assert (Hn : D.is_nan (D.neg sab) = false).
  { unfold D.neg, fneg, D.is_nan, fis_nan. rewrite is_nan_Bopp.
    unfold sab, D.div, fdiv. apply Bdiv_const_not_nan; [exact neg_100_strict|].
    destruct Hsv as (F & _). destruct sv; try discriminate F; reflexivity. }
  change (-2)%Z with (2 + -4)%Z. change 24%Z with (16 + 8)%Z.
  apply between_mul; [lia | lia | exact Hbl |].
  destruct (D.lt sab D.zero).
  - apply bpm_mult_between. exact Hn.
  - apply (between_weaken 0 0); [lia | lia | exact one_b].
Qed.

(* ---------- the slider velocity ---------- *)

Lemma velocity_between (sm sv bl : F64) (mode : Z) :
  between (-2) 2 sm -> between (-4) 4 sv -> between 2 16 bl ->
  between (-20) 11 (slider_velocity_of sm sv bl mode).
Proof.
  intros Hsm Hsv Hbl. unfold slider_velocity_of.
  change (-20)%Z with ((6 + -2) - 24)%Z. change 11%Z with ((7 + 2) - -2)%Z.
  apply between_div; [lia | lia | | apply adjusted_between; assumption].
  apply between_mul; [lia | lia | exact base_dist_b | exact Hsm].
Qed.

(* ---------- the legacy tick-distance multiplier ---------- *)

Lemma multiplier_between (version : Z) (sv : F64) :
  between (-4) 4 sv -> between (-4) 4 (tick_dist_multiplier version sv).
Proof.
  intros Hsv. unfold tick_dist_multiplier. destruct (version <? format_version_old_ticks)%Z.
  - change (-4)%Z with (0 - 4)%Z at 1. change 4%Z with (0 - -4)%Z at 2.
    apply between_div; [lia | lia | exact one_b | exact Hsv].
  - apply (between_weaken 0 0); [lia | lia | exact one_b].
Qed.

(* ---------- the theorems ---------- *)

Definition K : Z := 25.

(* osu! (fn slider_events): tick_dist = velocity * beat_len / tick_rate * multiplier *)
Theorem osu_tick_dist_between (sm sv bl tr : F64) (mode version : Z) :
  in_range slider_mult_lo slider_mult_hi sm -> in_range sv_lo sv_hi sv -> in_range bl_lo bl_hi bl ->
  in_range tick_rate_lo tick_rate_hi tr ->
  let vel := slider_velocity_of sm sv bl mode in
  let td := D.mul (D.div (D.mul vel bl) tr) (tick_dist_multiplier version sv) in
  between (-25) 32 td /\ between (-20) 11 vel.
Proof.
  intros Hsm Hsv Hbl Htr vel td.
  apply sm_between in Hsm. apply sv_between in Hsv. apply bl_between in Hbl. apply tr_between in Htr.
  assert (Hv : between (-20) 11 vel) by (apply velocity_between; assumption).
  split; [|exact Hv]. unfold td.
  change (-25)%Z with (((-20 + 2) - 3) + -4)%Z. change 32%Z with (((11 + 16) - -1) + 4)%Z.
  apply between_mul; [lia | lia | | apply multiplier_between; exact Hsv].
  apply between_div; [lia | lia | | exact Htr].
  apply between_mul; [lia | lia | exact Hv | exact Hbl].
Qed.

Theorem osu_tick_dist_lower (sm sv bl tr : F64) (mode version : Z) :
  in_range slider_mult_lo slider_mult_hi sm -> in_range sv_lo sv_hi sv -> in_range bl_lo bl_hi bl ->
  in_range tick_rate_lo tick_rate_hi tr ->
  let vel := slider_velocity_of sm sv bl mode in
  let td := D.mul (D.div (D.mul vel bl) tr) (tick_dist_multiplier version sv) in
  is_finite td = true /\ (p2 (- K) <= B2R td)%R /\
  is_finite vel = true /\ (0 < B2R vel)%R.
Proof.
  intros Hsm Hsv Hbl Htr vel td.
  destruct (osu_tick_dist_between sm sv bl tr mode version Hsm Hsv Hbl Htr) as (Ht & Hv).
  fold vel in Ht, Hv. fold td in Ht.
  split; [apply Ht|]. split; [apply Ht|]. split; [apply Hv|]. exact (between_pos _ _ _ Hv).
Qed.

(* catch (fn juicestream_events): tick_dist = 100 * SM / tick_rate * multiplier *)
Theorem catch_tick_dist_between (sm sv tr : F64) (version : Z) :
  in_range slider_mult_lo slider_mult_hi sm -> in_range sv_lo sv_hi sv -> in_range tick_rate_lo tick_rate_hi tr ->
  let td := D.mul (D.div (D.mul (f64_of_f32 (dec32' base_scoring_dist_dec)) sm) tr) (tick_dist_multiplier version sv) in
  between (-3) 14 td.
Proof.
  intros Hsm Hsv Htr td.
  apply sm_between in Hsm. apply sv_between in Hsv. apply tr_between in Htr.
  unfold td.
  change (-3)%Z with (((6 + -2) - 3) + -4)%Z. change 14%Z with (((7 + 2) - -1) + 4)%Z.
  apply between_mul; [lia | lia | | apply multiplier_between; exact Hsv].
  apply between_div; [lia | lia | | exact Htr].
  apply between_mul; [lia | lia | exact base_dist_b | exact Hsm].
Qed.

Theorem catch_tick_dist_lower (sm sv tr : F64) (version : Z) :
  in_range slider_mult_lo slider_mult_hi sm -> in_range sv_lo sv_hi sv -> in_range tick_rate_lo tick_rate_hi tr ->
  let td := D.mul (D.div (D.mul (f64_of_f32 (dec32' base_scoring_dist_dec)) sm) tr) (tick_dist_multiplier version sv) in
  is_finite td = true /\ (p2 (- K) <= B2R td)%R.
Proof.
  intros Hsm Hsv Htr td.
  pose proof (catch_tick_dist_between sm sv tr version Hsm Hsv Htr) as Ht. fold td in Ht.
  apply (between_weaken _ _ (- K) 14) in Ht; [|unfold K; lia|lia].
  split; apply Ht.
Qed.

Print Assumptions osu_tick_dist_lower.
Print Assumptions catch_tick_dist_lower.
Print Assumptions default_beat_len_in_range.
Print Assumptions one_in_sv_range.

(* EncObjects: T04b for hit-object lines of circles, spinners and holds -- the
   line the encoder writes is accepted by parse_hit_objects, in every parser
   state, and adds exactly one object of the same kind, start time and
   position. *)
From RM Require Import Model.EncSpec Proofs.EncText Proofs.EncFmt Proofs.EncFloat Proofs.EncSimple Proofs.FramingFacts Proofs.NumFacts.
From RM Require Import Gen.Generated.
From Flocq Require Import BinarySingleNaN.
From Coq Require Import ZifyBool.
Open Scope Z_scope.

Lemma f32_eqb_eq (x y : F32) : f32_eqb x y = true -> x = y.
Proof. intros H. apply B2SF_inj. apply sf_eqb_eq. exact H. Qed.

(* splitting a text whose leading fields contain no separator *)
Lemma split_on_field d a r : memb d a = false -> split_on d (a ++ d :: r) = a :: split_on d r.
Proof.
  intros H. rewrite split_on_app_sep, (split_on_no_sep d a (memb_false_In d a H)). reflexivity.
Qed.

Lemma has_ss_safe_app a f : forallb safec a = true -> has_ss f = false -> has_ss (a ++ f) = false.
Proof.
  intros Ha Hf. apply has_ss_app; [apply (proj2 (safe_value a Ha))|exact Hf|].
  destruct (rev a) as [|c r] eqn:E; [reflexivity|]. cbn [first_is].
  assert (Hc : In c a) by (apply in_rev; rewrite E; left; reflexivity).
  rewrite forallb_forall in Ha. specialize (Ha c Hc). unfold safec in Ha.
  apply andb_true_iff in Ha. destruct Ha as [_ Ha]. apply negb_true_iff in Ha. rewrite Ha. reflexivity.
Qed.

Lemma last_ws_safe a : forallb safec a = true -> last_ws a = false.
Proof. intros H. exact (tidy_last a (proj1 (safe_value a H))). Qed.

Section Objects.
  Variables (fmt_f64 : F64 -> str) (fmt_f32 : F32 -> str) (fmt_int : Z -> str).
  Hypothesis Hfmt : fmt_ok fmt_f64 fmt_f32 fmt_int.
  Notation rtok := (render_tok fmt_f64 fmt_f32 fmt_int).
  Notation rline := (render fmt_f64 fmt_f32 fmt_int).

  Lemma render_app a b : rline (a ++ b) = rline a ++ rline b.
  Proof. unfold render. apply flat_map_app. Qed.
  Lemma render_cons t r : rline (t :: r) = rtok t ++ rline r.
  Proof. reflexivity. Qed.

  Lemma f64_safe x : forallb safec (fmt_f64 x) = true.
  Proof. exact (forallb_imp _ _ _ plainc_safe (f64_chars _ _ _ Hfmt x)). Qed.
  Lemma f32_safe x : forallb safec (fmt_f32 x) = true.
  Proof. exact (forallb_imp _ _ _ plainc_safe (f32_chars _ _ _ Hfmt x)). Qed.
  Lemma int_safe n : forallb safec (fmt_int n) = true.
  Proof. exact (forallb_imp _ _ _ plainc_safe (int_plain _ _ _ Hfmt n)). Qed.
  Lemma f64_no c x : plainc c = false -> memb c (fmt_f64 x) = false.
  Proof. intros H. exact (plain_no c _ (f64_chars _ _ _ Hfmt x) H). Qed.
  Lemma f32_no c x : plainc c = false -> memb c (fmt_f32 x) = false.
  Proof. intros H. exact (plain_no c _ (f32_chars _ _ _ Hfmt x) H). Qed.
  Lemma int_no c n : plainc c = false -> memb c (fmt_int n) = false.
  Proof. intros H. exact (plain_no c _ (int_plain _ _ _ Hfmt n) H). Qed.

  (* ---------- numbers of the head of a line ---------- *)

  Lemma coord_parse x : coord_ok x = true -> parse_coord (fmt_f32 x) = Some x.
  Proof.
    unfold coord_ok. intros H. apply andb_true_iff in H. destruct H as [Hb He].
    apply f32_eqb_eq in He. set (n := f32_as_i32 x) in *.
    assert (Hn : Z.abs n <= 131072) by (unfold max_coordinate_value in Hb; lia).
    clearbody n. subst x.
    destruct (coord_in_limit n Hn) as (L1 & L2 & L3 & L4).
    unfold parse_coord, pn_f32_lim. rewrite (plain_trim _ (f32_chars _ _ _ Hfmt _)).
    rewrite (f32_parse _ _ _ Hfmt (S.of_Z n) L4).
    change coord_lim32 with (S.of_Z 131072). rewrite L1, L2, L3. cbn [omap]. f_equal.
    unfold trunc32. rewrite f32_as_i32_of_Z by lia. reflexivity.
  Qed.

  (* ---------- the sample extras "nb:ab:custom:volume:file" ---------- *)

  Definition extras_head (nb ab c v : Z) : str :=
    fmt_int nb ++ colon :: fmt_int ab ++ colon :: fmt_int c ++ colon :: fmt_int v ++ [colon].

  Lemma extras_head_safe nb ab c v : forallb safec (extras_head nb ab c v) = true.
  Proof.
    unfold extras_head. repeat (rewrite forallb_app || cbn [forallb]).
    rewrite !int_safe. reflexivity.
  Qed.
  Lemma memb_cons c x r : memb c (x :: r) = (c =? x) || memb c r.
  Proof. reflexivity. Qed.
  Lemma extras_head_no_comma nb ab c v : memb comma (extras_head nb ab c v) = false.
  Proof.
    unfold extras_head. repeat (rewrite memb_app || rewrite memb_cons).
    rewrite !(int_no comma) by reflexivity. reflexivity.
  Qed.

  Definition extras_vals (samples : list HitSampleInfo) (mode : Z) : Z * Z * Z * Z * str :=
    (bank_of_first is_hit_normal samples, bank_of_first is_addition samples,
     (if mode =? mode_mania then match find is_default_name samples with Some s => hs_custom s | None => 0 end else 0),
     (if mode =? mode_mania then match samples with s :: _ => hs_volume s | [] => 100 end else 0),
     match first_file samples with Some f => f | None => [] end).

  Lemma render_extras samples mode :
    let '(nb, ab, c, v, f) := extras_vals samples mode in
    rline (sample_bank_toks samples false mode) = extras_head nb ab c v ++ f.
  Proof.
    unfold extras_vals, sample_bank_toks, extras_head. cbv zeta.
    destruct (first_file samples) as [f|]; unfold render; cbn [app flat_map render_tok t_colon];
      rewrite ?app_nil_r; unfold colon; repeat (progress (rewrite <- ?app_assoc; cbn [app])); reflexivity.
  Qed.

  Lemma split_extras nb ab c v f : memb colon f = false ->
    split_on colon (extras_head nb ab c v ++ f) = [fmt_int nb; fmt_int ab; fmt_int c; fmt_int v; f].
  Proof.
    intros Hf. unfold extras_head. repeat (progress (rewrite <- ?app_assoc; cbn [app])).
    rewrite !split_on_field by (apply int_no; reflexivity).
    rewrite (split_on_no_sep colon f (memb_false_In _ _ Hf)). reflexivity.
  Qed.

  Lemma read_extras_ok nb ab c v f : enum4_ok nb = true -> enum4_ok ab = true -> i32_ok c = true ->
    i32_ok v = true -> memb colon f = false ->
    exists b, read_custom_sample_banks sbi_default (split_on colon (extras_head nb ab c v ++ f)) false = Some b.
  Proof.
    intros Hnb Hab Hc Hv Hf. rewrite (split_extras nb ab c v f Hf).
    assert (Inb : i32_ok nb = true) by (unfold enum4_ok in Hnb; unfold i32_ok, max_parse_value; lia).
    assert (Iab : i32_ok ab = true) by (unfold enum4_ok in Hab; unfold i32_ok, max_parse_value; lia).
    cbn [read_custom_sample_banks].
    destruct (fmt_int nb) as [|x0 r0] eqn:E0; [exfalso; exact (int_nonempty' _ _ _ Hfmt nb E0)|]. rewrite <- E0.
    rewrite (pn_i32_fmt _ _ _ Hfmt nb Inb), (pn_i32_fmt _ _ _ Hfmt ab Iab). cbn [next].
    rewrite (pn_i32_fmt _ _ _ Hfmt c Hc), (pn_i32_fmt _ _ _ Hfmt v Hv). cbn [omap fst]. eexists. reflexivity.
  Qed.

  (* invariants of the sample list carry over to the extras values *)
  Lemma extras_vals_ok samples mode : forallb sample_ok samples = true ->
    let '(nb, ab, c, v, f) := extras_vals samples mode in
    enum4_ok nb = true /\ enum4_ok ab = true /\ i32_ok c = true /\ i32_ok v = true /\
    memb colon f = false /\ memb comma f = false /\ has_ss f = false /\ (f <> [] -> last_ws f = false).
  Proof.
    intros H. unfold extras_vals.
    assert (Hfind : forall p s, find p samples = Some s -> sample_ok s = true).
    { intros p s E. apply find_some in E. rewrite forallb_forall in H. apply H. exact (proj1 E). }
    assert (Hbank : forall p, enum4_ok (bank_of_first p samples) = true).
    { intros p. unfold bank_of_first. destruct (find p samples) as [s|] eqn:E; [|reflexivity].
      specialize (Hfind p s E). unfold sample_ok in Hfind. apply andb_prop_l in Hfind. apply andb_prop_r in Hfind. exact Hfind. }
    assert (Hc : i32_ok (match find is_default_name samples with Some s => hs_custom s | None => 0 end) = true).
    { destruct (find is_default_name samples) as [s|] eqn:E; [|reflexivity].
      specialize (Hfind _ s E). unfold sample_ok in Hfind. do 3 apply andb_prop_l in Hfind. exact Hfind. }
    assert (Hv : i32_ok (match samples with s :: _ => hs_volume s | [] => 100 end) = true).
    { destruct samples as [|s r]; [reflexivity|]. cbn [forallb] in H. apply andb_prop_l in H.
      unfold sample_ok in H. do 2 apply andb_prop_l in H. apply andb_prop_r in H. exact H. }
    assert (Hf : forall f, first_file samples = Some f -> fname_ok f = true /\ f <> []).
    { clear - H. induction samples as [|s r IH]; intros f E; [discriminate|]. cbn [first_file forallb] in *.
      apply andb_true_iff in H. destruct H as [Hs Hr].
      destruct (nonempty_file s) as [g|] eqn:En.
      - inversion E; subst. unfold nonempty_file in En. destruct (hs_name s) as [n|[|ch t]] eqn:Ename; try discriminate.
        inversion En; subst. unfold sample_ok in Hs. apply andb_prop_r in Hs. rewrite Ename in Hs. split; [exact Hs|discriminate].
      - exact (IH Hr f E). }
    destruct (mode =? mode_mania); (repeat split; try apply Hbank; try assumption; try reflexivity);
      destruct (first_file samples) as [f|] eqn:Ef; try reflexivity; try (intros X; congruence);
      destruct (Hf f eq_refl) as [Hok _]; unfold fname_ok in Hok;
      repeat (let X := fresh in apply andb_true_iff in Hok; destruct Hok as [Hok X]; apply negb_true_iff in X);
      apply negb_true_iff in Hok; try assumption; intros _; assumption.
  Qed.

  (* ---------- the head of a hit-object line ---------- *)

  Definition head_text (x y : F32) (t : F64) (K S : Z) : str :=
    fmt_f32 x ++ comma :: fmt_f32 y ++ comma :: fmt_f64 t ++ comma :: fmt_int K ++ comma :: fmt_int S ++ [comma].

  Lemma head_text_safe x y t K S : forallb safec (head_text x y t K S) = true.
  Proof.
    unfold head_text. repeat (rewrite forallb_app || cbn [forallb]).
    rewrite !f32_safe, f64_safe, !int_safe. reflexivity.
  Qed.

  Lemma last_ws_safe_app a f : forallb safec a = true -> a <> [] -> (f <> [] -> last_ws f = false) ->
    last_ws (a ++ f) = false.
  Proof.
    intros Ha Hne Hf. destruct f as [|c r].
    - rewrite app_nil_r. apply last_ws_safe. exact Ha.
    - rewrite last_ws_app by discriminate. apply Hf. discriminate.
  Qed.

  Lemma parse_header_line x y t K S Rs f :
    coord_ok x = true -> coord_ok y = true -> in_lim64 t = true ->
    i32_min <= K <= i32_max -> 0 <= S <= 255 ->
    forallb safec Rs = true -> has_ss f = false -> (f <> [] -> last_ws f = false) ->
    parse_header (head_text x y t K S ++ Rs ++ f) =
    Some (mkHeader (mkPos x y) t
                   (Z.land (Z.land K (Z.lnot hot_combo_offset)) (Z.lnot hot_new_combo))
                   (has_flag (Z.land K (Z.lnot hot_combo_offset)) hot_new_combo)
                   (Z.shiftr (Z.land K hot_combo_offset) 4)
                   S (split_on comma (Rs ++ f))).
  Proof.
    intros Hx Hy Ht HK HS HRs Hf Hfl.
    assert (Hsafe : forallb safec (head_text x y t K S ++ Rs) = true)
      by (rewrite forallb_app, head_text_safe, HRs; reflexivity).
    assert (Hclean : trim_comment (head_text x y t K S ++ Rs ++ f) = head_text x y t K S ++ Rs ++ f).
    { rewrite app_assoc. apply trim_comment_clean.
      - apply has_ss_safe_app; assumption.
      - apply last_ws_safe_app; [exact Hsafe| |exact Hfl].
        unfold head_text. destruct (fmt_f32 x) eqn:E; [exfalso; exact (f32_nonempty _ _ _ Hfmt x E)|discriminate]. }
    unfold parse_header. rewrite Hclean. unfold head_text. change 44 with comma.
    repeat (progress (rewrite <- ?app_assoc; cbn [app])).
    rewrite (split_on_field comma (fmt_f32 x)) by (apply f32_no; reflexivity).
    rewrite (split_on_field comma (fmt_f32 y)) by (apply f32_no; reflexivity).
    rewrite (split_on_field comma (fmt_f64 t)) by (apply f64_no; reflexivity).
    rewrite (split_on_field comma (fmt_int K)) by (apply int_no; reflexivity).
    rewrite (split_on_field comma (fmt_int S)) by (apply int_no; reflexivity).
    rewrite (coord_parse x Hx), (coord_parse y Hy), (pn_f64_fmt _ _ _ Hfmt t Ht).
    rewrite (int_parse _ _ _ Hfmt K HK).
    unfold parse_sound_type. rewrite (int_parse _ _ _ Hfmt S) by (unfold i32_min, i32_max; lia).
    cbn [omap]. replace (Z.land S 255) with S; [reflexivity|].
    change 255 with (Z.ones 8). rewrite Z.land_ones by lia. symmetry. apply Z.mod_small. lia.
  Qed.

  (* ---------- the sound field ---------- *)

  Definition sound_values : list Z := [0; 2; 4; 6; 8; 10; 12; 14].
  Lemma sound_type_in l : In (sound_type_of l) sound_values.
  Proof.
    unfold sound_type_of.
    assert (G : forall l k, In k sound_values -> In (fold_left (fun k s => Z.lor k (sound_bit s)) l k) sound_values).
    { induction l0 as [|s r IH]; intros k Hk; [exact Hk|]. cbn [fold_left]. apply IH.
      assert (Hb : In (sound_bit s) [0; 2; 4; 8]).
      { unfold sound_bit. destruct (hs_name s) as [n|f]; [|left; reflexivity].
        destruct (n =? nm_whistle); [right; left; reflexivity|].
        destruct (n =? nm_finish); [right; right; left; reflexivity|].
        destruct (n =? nm_clap); [right; right; right; left; reflexivity|left; reflexivity]. }
      cbn in Hk, Hb.
      repeat (destruct Hk as [<- | Hk]; [repeat (destruct Hb as [<- | Hb]; [vm_compute; tauto|]); contradiction|]).
      contradiction. }
    apply G. left. reflexivity.
  Qed.
  Lemma sound_type_range l : 0 <= sound_type_of l <= 255.
  Proof.
    pose proof (sound_type_in l) as H. cbn in H.
    repeat (destruct H as [<- | H]; [lia|]). contradiction.
  Qed.

  (* what an accepted line adds to the parser state *)
  Definition adds (st st' : HOState) (start : F64) (tag : Z) (pos : option Pos) : Prop :=
    exists o, ho_objects st' = ho_objects st ++ [o] /\ h_start o = start /\ kind_tag (h_kind o) = tag /\
              match pos, line_pos (h_kind o) with
              | Some p, Some q => px q = px p /\ (tag = 3 \/ py q = py p)
              | _, _ => True
              end.

  Lemma offset_cases n : 0 <= n <= 7 -> n = 0 \/ n = 1 \/ n = 2 \/ n = 3 \/ n = 4 \/ n = 5 \/ n = 6 \/ n = 7.
  Proof. lia. Qed.

  Lemma split_no_comma s : memb comma s = false -> split_on comma s = [s].
  Proof. intros H. apply split_on_no_sep, memb_false_In, H. Qed.

  (* ---------- circles ---------- *)

  Theorem circle_line_accepted dist mode h c l :
    h_kind h = KCircle c -> object_ok h = true -> object_line dist mode h = Done l ->
    forall st, exists st', parse_hit_objects st (rline l) = Done (st', Ok) /\
                           adds st st' (h_start h) 0 (Some (ci_pos c)).
  Proof.
    intros Hk Hok Hl st. unfold object_ok in Hok. rewrite Hk in Hok.
    apply andb_true_iff in Hok. destruct Hok as [Hok Hc]. apply andb_true_iff in Hok. destruct Hok as [Ht Hs].
    apply andb_true_iff in Hc. destruct Hc as [Hc O2]. apply andb_true_iff in Hc. destruct Hc as [Hc O1].
    apply andb_true_iff in Hc. destruct Hc as [Cx Cy].
    unfold object_line in Hl. rewrite Hk in Hl. cbn [obind object_pos app] in Hl. unfold object_pos in Hl.
    rewrite Hk in Hl. inversion Hl; subst l; clear Hl.
    pose proof (extras_vals_ok (h_samples h) mode Hs) as EV. pose proof (render_extras (h_samples h) mode) as RE.
    destruct (extras_vals (h_samples h) mode) as [[[[nb ab] cu] vo] f].
    destruct EV as (E1 & E2 & E3 & E4 & E5 & E6 & E7 & E8).
    set (K := object_type h). set (S := sound_type_of (h_samples h)).
    assert (EL : rline ([TF32 (px (ci_pos c)); t_comma; TF32 (py (ci_pos c)); t_comma; TF64 (h_start h); t_comma;
                         TInt K; t_comma; TInt S; t_comma] ++ sample_bank_toks (h_samples h) false mode)
                 = head_text (px (ci_pos c)) (py (ci_pos c)) (h_start h) K S ++ extras_head nb ab cu vo ++ f).
    { rewrite render_app, RE. f_equal.
      all: try (unfold render, head_text; cbn [flat_map render_tok t_comma];
                rewrite app_nil_r; unfold comma; repeat (progress (rewrite <- ?app_assoc; cbn [app])); reflexivity). }
    cbn [app] in EL. cbn [app]. rewrite EL. clear EL RE.
    assert (HK : i32_min <= K <= i32_max /\
                 has_flag (Z.land (Z.land K (Z.lnot hot_combo_offset)) (Z.lnot hot_new_combo)) hot_circle = true).
    { unfold K, object_type. rewrite Hk.
      assert (Hoff : 0 <= ci_combo_offset c <= 7) by lia.
      destruct (offset_cases (ci_combo_offset c) Hoff) as [E|[E|[E|[E|[E|[E|[E|E]]]]]]];
        rewrite E; destruct (ci_new_combo c); vm_compute; (split; [split; discriminate|reflexivity]). }
    destruct HK as [HK Hflag].
    unfold parse_hit_objects.
    rewrite (parse_header_line _ _ _ K S _ f Cx Cy Ht HK (sound_type_range _) (extras_head_safe nb ab cu vo) E7 E8).
    unfold parse_kind. cbn [hd_type hd_rest hd_pos hd_new_combo hd_combo_offset hd_sound hd_start].
    rewrite Hflag.
    rewrite split_no_comma by (rewrite memb_app, extras_head_no_comma, E6; reflexivity).
    cbn [next fst read_extras]. change 58 with colon.
    destruct (read_extras_ok nb ab cu vo f E1 E2 E3 E4 E5) as [b Eb]. rewrite Eb.
    eexists. split; [reflexivity|]. cbn [ho_objects].
    eexists. split; [reflexivity|]. cbn [h_start h_kind kind_tag line_pos ci_pos px py].
    repeat split; try reflexivity. right. reflexivity.
  Qed.

  (* ---------- spinners ---------- *)

  Theorem spinner_line_accepted dist mode h s l :
    h_kind h = KSpinner s -> object_ok h = true -> object_line dist mode h = Done l ->
    forall st, exists st', parse_hit_objects st (rline l) = Done (st', Ok) /\
                           adds st st' (h_start h) 2 None.
  Proof.
    intros Hk Hok Hl st. unfold object_ok in Hok. rewrite Hk in Hok.
    apply andb_true_iff in Hok. destruct Hok as [Hok Hc]. apply andb_true_iff in Hok. destruct Hok as [Ht Hs].
    apply andb_true_iff in Hc. destruct Hc as [Hc He]. apply andb_true_iff in Hc. destruct Hc as [Cx Cy].
    unfold object_line in Hl. rewrite Hk in Hl. cbn [obind] in Hl. unfold object_pos in Hl.
    rewrite Hk in Hl. inversion Hl; subst l; clear Hl.
    pose proof (extras_vals_ok (h_samples h) mode Hs) as EV. pose proof (render_extras (h_samples h) mode) as RE.
    destruct (extras_vals (h_samples h) mode) as [[[[nb ab] cu] vo] f].
    destruct EV as (E1 & E2 & E3 & E4 & E5 & E6 & E7 & E8).
    set (K := object_type h). set (S := sound_type_of (h_samples h)). set (E := D.add (h_start h) (sp_duration s)) in *.
    assert (EL : rline ([TF32 (px (sp_pos s)); t_comma; TF32 (py (sp_pos s)); t_comma; TF64 (h_start h); t_comma;
                         TInt K; t_comma; TInt S; t_comma] ++ [TF64 E; t_comma] ++
                        sample_bank_toks (h_samples h) false mode)
                 = head_text (px (sp_pos s)) (py (sp_pos s)) (h_start h) K S ++
                   (fmt_f64 E ++ comma :: extras_head nb ab cu vo) ++ f).
    { rewrite !render_app, RE. unfold render, head_text. cbn [flat_map render_tok t_comma].
      rewrite !app_nil_r. unfold comma. repeat (progress (rewrite <- ?app_assoc; cbn [app])). reflexivity. }
    cbn [app] in EL |- *. rewrite EL. clear EL RE.
    assert (HK : i32_min <= K <= i32_max /\
                 let t2 := Z.land (Z.land K (Z.lnot hot_combo_offset)) (Z.lnot hot_new_combo) in
                 has_flag t2 hot_circle = false /\ has_flag t2 hot_slider = false /\ has_flag t2 hot_spinner = true).
    { unfold K, object_type. rewrite Hk. destruct (sp_new_combo s); vm_compute; repeat split; discriminate. }
    destruct HK as [HK (F1 & F2 & F3)].
    assert (Rsafe : forallb safec (fmt_f64 E ++ comma :: extras_head nb ab cu vo) = true).
    { rewrite forallb_app. cbn [forallb]. rewrite f64_safe, extras_head_safe. reflexivity. }
    unfold parse_hit_objects.
    rewrite (parse_header_line _ _ _ K S _ f Cx Cy Ht HK (sound_type_range _) Rsafe E7 E8).
    unfold parse_kind. cbn [hd_type hd_rest hd_pos hd_new_combo hd_combo_offset hd_sound hd_start].
    rewrite F1, F2, F3.
    rewrite <- app_assoc. cbn [app].
    rewrite (split_on_field comma (fmt_f64 E)) by (apply f64_no; reflexivity).
    rewrite split_no_comma by (rewrite memb_app, extras_head_no_comma, E6; reflexivity).
    rewrite (pn_f64_fmt _ _ _ Hfmt E He).
    cbn [next fst read_extras]. change 58 with colon.
    destruct (read_extras_ok nb ab cu vo f E1 E2 E3 E4 E5) as [b Eb]. rewrite Eb.
    eexists. split; [reflexivity|]. cbn [ho_objects].
    eexists. split; [reflexivity|]. cbn [h_start h_kind kind_tag line_pos]. repeat split; reflexivity.
  Qed.

  (* ---------- holds ---------- *)

  Lemma coord_192 : coord_ok f32_192 = true. Proof. vm_compute. reflexivity. Qed.

  Theorem hold_line_accepted dist mode h hd l :
    h_kind h = KHold hd -> object_ok h = true -> object_line dist mode h = Done l ->
    forall st, exists st', parse_hit_objects st (rline l) = Done (st', Ok) /\
                           adds st st' (h_start h) 3 (Some (mkPos (hd_pos_x hd) (hd_pos_x hd))).
  Proof.
    intros Hk Hok Hl st. unfold object_ok in Hok. rewrite Hk in Hok.
    apply andb_true_iff in Hok. destruct Hok as [Hok Hc]. apply andb_true_iff in Hok. destruct Hok as [Ht Hs].
    apply andb_true_iff in Hc. destruct Hc as [Cx He].
    unfold object_line in Hl. rewrite Hk in Hl. cbn [obind] in Hl. unfold object_pos in Hl.
    rewrite Hk in Hl. cbn [px py] in Hl. inversion Hl; subst l; clear Hl.
    pose proof (extras_vals_ok (h_samples h) mode Hs) as EV. pose proof (render_extras (h_samples h) mode) as RE.
    destruct (extras_vals (h_samples h) mode) as [[[[nb ab] cu] vo] f].
    destruct EV as (E1 & E2 & E3 & E4 & E5 & E6 & E7 & E8).
    set (K := object_type h). set (S := sound_type_of (h_samples h)). set (E := D.add (h_start h) (hd_duration hd)) in *.
    assert (EL : rline ([TF32 (hd_pos_x hd); t_comma; TF32 f32_192; t_comma; TF64 (h_start h); t_comma;
                         TInt K; t_comma; TInt S; t_comma] ++ [TF64 E; t_colon] ++
                        sample_bank_toks (h_samples h) false mode)
                 = head_text (hd_pos_x hd) f32_192 (h_start h) K S ++
                   (fmt_f64 E ++ colon :: extras_head nb ab cu vo) ++ f).
    { rewrite !render_app, RE. unfold render, head_text. cbn [flat_map render_tok t_comma t_colon].
      rewrite !app_nil_r. unfold comma, colon. repeat (progress (rewrite <- ?app_assoc; cbn [app])). reflexivity. }
    cbn [app] in EL |- *. rewrite EL. clear EL RE.
    assert (HK : i32_min <= K <= i32_max /\
                 let t2 := Z.land (Z.land K (Z.lnot hot_combo_offset)) (Z.lnot hot_new_combo) in
                 has_flag t2 hot_circle = false /\ has_flag t2 hot_slider = false /\
                 has_flag t2 hot_spinner = false /\ has_flag t2 hot_hold = true).
    { unfold K, object_type. rewrite Hk. vm_compute. repeat split; discriminate. }
    destruct HK as [HK (F1 & F2 & F3 & F4)].
    assert (Rsafe : forallb safec (fmt_f64 E ++ colon :: extras_head nb ab cu vo) = true).
    { rewrite forallb_app. cbn [forallb]. rewrite f64_safe, extras_head_safe. reflexivity. }
    unfold parse_hit_objects.
    rewrite (parse_header_line _ _ _ K S _ f Cx coord_192 Ht HK (sound_type_range _) Rsafe E7 E8).
    unfold parse_kind. cbn [hd_type hd_rest hd_pos hd_new_combo hd_combo_offset hd_sound hd_start].
    rewrite F1, F2, F3, F4.
    rewrite <- app_assoc. cbn [app].
    rewrite split_no_comma.
    2:{ rewrite memb_app, memb_cons, memb_app, extras_head_no_comma, E6, (f64_no comma) by reflexivity. reflexivity. }
    cbn [next fst].
    assert (NE : forall x : str, x <> [] -> nonempty (Some x) = Some x) by (intros [|? ?] ?; [congruence|reflexivity]).
    rewrite NE by (destruct (fmt_f64 E) eqn:EE; [exact (fun _ => f64_nonempty _ _ _ Hfmt E EE)|discriminate]).
    change 58 with colon.
    rewrite (split_on_field colon (fmt_f64 E)) by (apply f64_no; reflexivity).
    rewrite (pn_f64_fmt _ _ _ Hfmt E He).
    destruct (read_extras_ok nb ab cu vo f E1 E2 E3 E4 E5) as [b Eb]. rewrite Eb.
    eexists. split; [reflexivity|]. cbn [ho_objects].
    eexists. split; [reflexivity|]. cbn [h_start h_kind kind_tag line_pos hd_pos_x px py].
    repeat split; try reflexivity. left. reflexivity.
  Qed.
End Objects.

(* TransparencyFacts: T10c -- the lines of a text do not depend on which of
   the four encodings carries it, nor on how the bytes are delivered, for
   every Unicode content (a BOM-less text that itself starts with U+FEFF *is* a
   text with BOM).  What the lines of an arbitrary -- also malformed -- byte
   stream are, per encoding. *)
From RM Require Import Model.Text Model.Encoding Model.Reader.
From RM Require Import Proofs.EncodingFacts Proofs.ReaderFacts Gen.Generated.
Require Import Lia ZArith List ZifyBool.
Import ListNotations.
Open Scope Z_scope.

(* ---------- the lines of a text ---------- *)

(* split after every U+000A; every piece (with its line feed) is trimmed at
   the end; a last piece without line feed counts if it is not empty *)
Fixpoint text_lines (n : nat) (s : str) : list str :=
  match n with
  | O => []
  | S m =>
      let '(l, r) := split_line LF s in
      match l with
      | [] => []
      | _ :: _ => trim_end l :: text_lines m r
      end
  end.
Definition lines_of_text (s : str) : list str := text_lines (S (length s)) s.

Lemma split_line_nolf_app : forall a m, nolf a ->
  split_line LF (a ++ m) = (a ++ fst (split_line LF m), snd (split_line LF m)).
Proof.
  induction a as [|x t IH]; intros m N; cbn [app].
  - destruct (split_line LF m); reflexivity.
  - inversion N as [|x' t' Nx Nt]; subst. cbn [split_line].
    destruct (Z.eqb_spec x LF) as [E|E]; [contradiction|]. rewrite (IH m Nt). reflexivity.
Qed.

Lemma split_line_lf : forall m, split_line LF (LF :: m) = ([LF], m).
Proof. reflexivity. Qed.

Lemma nolf_app : forall a b, nolf a -> nolf b -> nolf (a ++ b).
Proof. intros; apply Forall_app; split; assumption. Qed.

Lemma app_lf_cons : forall (a : list Z) x, exists y t, a ++ [x] = y :: t.
Proof. intros [|y t] x; cbn [app]; eauto. Qed.

Lemma last_opt_app1 : forall (a : list Z) x, last_opt (a ++ [x]) = Some x.
Proof.
  induction a as [|y t IH]; intros x; [reflexivity|]. cbn [app].
  destruct (app_lf_cons t x) as (z & u & E). rewrite E. change (last_opt (y :: z :: u)) with (last_opt (z :: u)).
  rewrite <- E. apply IH.
Qed.

Lemma scalar_app : forall a b, scalar_str (a ++ b) <-> scalar_str a /\ scalar_str b.
Proof. intros; apply Forall_app. Qed.

(* ---------- generic: lines_pure over an encoded text ---------- *)

Section Generic.
Variable e : encoding.
Variable enc_ : str -> bytes.
Variable good : str -> Prop.
Hypothesis good_split : forall s, good s ->
  good (fst (split_line LF s)) /\ good (snd (split_line LF s)).
Hypothesis next_raw_enc : forall s, good s ->
  next_raw e (enc_ s) =
  match fst (split_line LF s) with
  | [] => None
  | _ :: _ => Some (enc_ (fst (split_line LF s)), enc_ (snd (split_line LF s)))
  end.
Hypothesis dec_enc : forall s, good s -> decode e (enc_ s) = Done s.

Lemma lines_pure_enc : forall n m s, good s -> (length s < n)%nat -> (length s < m)%nat ->
  lines_pure n e (enc_ s) = IoDone (text_lines m s).
Proof.
  induction n as [|n IH]; intros m s G Ln Lm; [lia|]. destruct m as [|m]; [lia|].
  cbn [lines_pure text_lines]. rewrite (next_raw_enc s G).
  destruct (good_split s G) as (Gl & Gr). pose proof (split_line_length LF s) as L.
  destruct (split_line LF s) as [l r]. cbn [fst snd] in *.
  destruct l as [|x t]; [reflexivity|]. cbn [io_bind].
  rewrite (dec_enc _ Gl). cbn [io_of_outcome io_bind].
  rewrite (IH m r Gr); [reflexivity| |]; cbn [length] in L; unfold str, char, bytes, byte in *; lia.
Qed.
End Generic.

(* ---------- UTF-8: the line ends with the first byte 0x0A ---------- *)

Section ByteLF.
Variable enc_ : str -> bytes.
Variable good : str -> Prop.
Variable pre : bytes.                       (* bytes of U+000A before its 0x0A *)
Hypothesis enc_app : forall a b, enc_ (a ++ b) = enc_ a ++ enc_ b.
Hypothesis enc_nil : enc_ [] = [].
Hypothesis enc_lf : enc_ [LF] = pre ++ [LF].
Hypothesis pre_nolf : nolf pre.
Hypothesis enc_nolf : forall p, good p -> nolf p -> nolf (enc_ p).
Hypothesis enc_nonnil : forall c t, enc_ (c :: t) <> [].
Hypothesis good_app : forall a b, good (a ++ b) <-> good a /\ good b.

Lemma next_raw_bytelf : forall s, good s ->
  next_raw Utf8 (enc_ s) =
  match fst (split_line LF s) with
  | [] => None
  | _ :: _ => Some (enc_ (fst (split_line LF s)), enc_ (snd (split_line LF s)))
  end.
Proof.
  intros s G. unfold next_raw. cbn [raw_split].
  destruct (split_line_decomp s) as [(N & H)|(p & q & Hs & N & H)]; rewrite H; cbn [fst snd].
  - pose proof (enc_nolf s G N) as Nb.
    pose proof (split_line_nolf_app (enc_ s) [] Nb) as Hb. rewrite app_nil_r in Hb.
    rewrite Hb. cbn [split_line fst snd]. rewrite app_nil_r.
    replace (enc_ (@nil Z)) with (@nil Z) by (symmetry; exact enc_nil).
    destruct s as [|c t]; [rewrite enc_nil; reflexivity|].
    destruct (enc_ (c :: t)) eqn:E; [destruct (enc_nonnil c t E)|]. reflexivity.
  - subst s. apply good_app in G. destruct G as (Gp & Gq).
    change (LF :: q) with ([LF] ++ q). rewrite !enc_app, enc_lf.
    rewrite <- !app_assoc. rewrite (split_line_nolf_app (enc_ p) _ (enc_nolf p Gp N)).
    rewrite (split_line_nolf_app pre _ pre_nolf). cbn [app]. rewrite split_line_lf. cbn [fst snd].
    destruct (app_lf_cons p LF) as (y & t & E). rewrite E.
    destruct (enc_ p ++ pre ++ [LF]) eqn:E2; [|reflexivity].
    apply app_eq_nil in E2. destruct E2 as (_ & E2). apply app_eq_nil in E2. destruct E2 as (_ & E2). discriminate.
Qed.
End ByteLF.

(* ---------- UTF-8 ---------- *)

Lemma utf8_enc_app : forall a b, utf8_enc (a ++ b) = utf8_enc a ++ utf8_enc b.
Proof. intros; unfold utf8_enc; apply flat_map_app. Qed.

Lemma utf8_enc_nolf : forall p, scalar_str p -> nolf p -> nolf (utf8_enc p).
Proof.
  induction p as [|c t IH]; intros S N; [constructor|].
  inversion S; subst. inversion N; subst. cbn [utf8_enc flat_map]. apply nolf_app; [|apply IH; assumption].
  apply Forall_forall. intros x Hin E. subst x. exact (utf8_enc_char_no_lf c H1 H3 Hin).
Qed.

Lemma utf8_enc_char_nonnil : forall c, utf8_enc_char c <> [].
Proof. intros c. unfold utf8_enc_char. destruct (c <? 128), (c <? 2048), (c <? 65536); discriminate. Qed.

Lemma utf8_enc_nonnil : forall c t, utf8_enc (c :: t) <> [].
Proof.
  intros c t E. cbn [utf8_enc flat_map] in E. apply app_eq_nil in E. destruct E as (E & _).
  exact (utf8_enc_char_nonnil c E).
Qed.

Lemma scalar_split : forall s, scalar_str s ->
  scalar_str (fst (split_line LF s)) /\ scalar_str (snd (split_line LF s)).
Proof.
  intros s S. destruct (split_line_decomp s) as [(N & H)|(p & q & Hs & N & H)]; rewrite H; cbn [fst snd].
  - split; [exact S|constructor].
  - subst s. apply scalar_app in S. destruct S as (Sp & Sq). inversion Sq; subst.
    split; [|assumption]. apply scalar_app. split; [assumption|]. constructor; [assumption|constructor].
Qed.

Lemma lines_pure_utf8 : forall n s, scalar_str s -> (length s < n)%nat ->
  lines_pure n Utf8 (utf8_enc s) = IoDone (lines_of_text s).
Proof.
  intros n s S L. unfold lines_of_text.
  apply (lines_pure_enc Utf8 utf8_enc scalar_str scalar_split); try assumption; try lia.
  - intros s0 S0. apply (next_raw_bytelf utf8_enc scalar_str []); try assumption.
    + exact utf8_enc_app.
    + reflexivity.
    + reflexivity.
    + constructor.
    + exact utf8_enc_nolf.
    + exact utf8_enc_nonnil.
    + exact scalar_app.
  - exact utf8_roundtrip.
Qed.

(* ---------- UTF-16: the line ends with the first code unit U+000A ---------- *)

Lemma utf16_units_app : forall a b, utf16_units (a ++ b) = utf16_units a ++ utf16_units b.
Proof. intros; unfold utf16_units; apply flat_map_app. Qed.

Lemma utf16le_enc_app : forall a b, utf16le_enc (a ++ b) = utf16le_enc a ++ utf16le_enc b.
Proof. intros; unfold utf16le_enc. rewrite utf16_units_app. apply flat_map_app. Qed.
Lemma utf16be_enc_app : forall a b, utf16be_enc (a ++ b) = utf16be_enc a ++ utf16be_enc b.
Proof. intros; unfold utf16be_enc. rewrite utf16_units_app. apply flat_map_app. Qed.

Lemma utf16_units_char_nonnil : forall c, utf16_units_char c <> [].
Proof. intros c. unfold utf16_units_char. destruct (c <? 65536); discriminate. Qed.

Lemma utf16be_enc_nonnil : forall c t, utf16be_enc (c :: t) <> [].
Proof.
  intros c t E. unfold utf16be_enc in E. cbn [utf16_units flat_map] in E.
  destruct (utf16_units_char c) as [|u r] eqn:Hu; [exact (utf16_units_char_nonnil c Hu)|].
  cbn [app flat_map be_bytes] in E. discriminate.
Qed.
Lemma utf16le_enc_nonnil : forall c t, utf16le_enc (c :: t) <> [].
Proof.
  intros c t E. unfold utf16le_enc in E. cbn [utf16_units flat_map] in E.
  destruct (utf16_units_char c) as [|u r] eqn:Hu; [exact (utf16_units_char_nonnil c Hu)|].
  cbn [app flat_map le_bytes] in E. discriminate.
Qed.

(* the code units of a scalar value are 16-bit, and U+000A occurs among them
   only for the line feed itself (a surrogate is never U+000A) *)
Lemma units_char_facts : forall c, is_scalar c = true ->
  Forall (fun u => 0 <= u < 65536 /\ (u = LF -> c = LF)) (utf16_units_char c).
Proof.
  intros c Sc. unfold utf16_units_char, is_scalar, LF in *. destruct (c <? 65536) eqn:E.
  - constructor; [split; [lia|auto]|constructor].
  - constructor; [split; [zdm|intros; zdm]|]. constructor; [split; [zdm|intros; zdm]|constructor].
Qed.

(* a code unit is the line terminator iff it IS U+000A: a byte 0x0A in a unit
   such as U+4E0A, U+0A41, U+010A or a surrogate does not count *)
Lemma is_lf_unit_le : forall u, 0 <= u < 65536 -> is_lf_unit true (u mod 256) (u / 256) = (u =? LF).
Proof.
  intros u R. unfold is_lf_unit, LF. destruct (u =? 10) eqn:E.
  - apply Z.eqb_eq in E. subst u. reflexivity.
  - apply Z.eqb_neq in E. apply Bool.andb_false_iff.
    destruct (u mod 256 =? 10) eqn:A; [right|left; reflexivity].
    apply Z.eqb_eq in A. apply Z.eqb_neq. zdm.
Qed.
Lemma is_lf_unit_be : forall u, 0 <= u < 65536 -> is_lf_unit false (u / 256) (u mod 256) = (u =? LF).
Proof.
  intros u R. unfold is_lf_unit, LF. destruct (u =? 10) eqn:E.
  - apply Z.eqb_eq in E. subst u. reflexivity.
  - apply Z.eqb_neq in E. apply Bool.andb_false_iff.
    destruct (u mod 256 =? 10) eqn:A; [left|right; reflexivity].
    apply Z.eqb_eq in A. apply Z.eqb_neq. zdm.
Qed.

Lemma scan16_unit : forall le x y m,
  scan16 le None (x :: y :: m) =
  if is_lf_unit le x y then ([x; y], m)
  else (x :: y :: fst (scan16 le None m), snd (scan16 le None m)).
Proof.
  intros. cbn [scan16]. destruct (is_lf_unit le x y); [reflexivity|].
  destruct (scan16 le None m); reflexivity.
Qed.

Section Scan16.
Variable le : bool.
Variable ub : Z -> bytes.                    (* the two bytes of a code unit *)
Hypothesis ub_two : forall u, exists x y,
  ub u = [x; y] /\ (0 <= u < 65536 -> is_lf_unit le x y = (u =? LF)).

Lemma scan16_units_nolf : forall us m, Forall (fun u => 0 <= u < 65536 /\ u <> LF) us ->
  scan16 le None (flat_map ub us ++ m) =
  (flat_map ub us ++ fst (scan16 le None m), snd (scan16 le None m)).
Proof.
  induction us as [|u us IH]; intros m F; cbn [flat_map app].
  - destruct (scan16 le None m); reflexivity.
  - inversion F as [|u' t' (R & Nu) Ft]; subst. destruct (ub_two u) as (x & y & E & H).
    rewrite E. cbn [app]. rewrite scan16_unit, (H R).
    replace (u =? LF) with false by (symmetry; apply Z.eqb_neq; exact Nu).
    rewrite (IH m Ft). reflexivity.
Qed.

(* the cut of an encoded text is the encoding of the cut of the text, for EVERY
   scalar-value text *)
Lemma scan16_text : forall s, scalar_str s ->
  scan16 le None (flat_map ub (utf16_units s)) =
  (flat_map ub (utf16_units (fst (split_line LF s))), flat_map ub (utf16_units (snd (split_line LF s)))).
Proof.
  induction s as [|c t IH]; intros S; [reflexivity|]. inversion S as [|c' t' Sc St]; subst.
  cbn [split_line]. destruct (Z.eqb_spec c LF) as [Ec|Ec].
  - subst c. cbn [fst snd]. change (utf16_units (LF :: t)) with ([LF] ++ utf16_units t).
    change (utf16_units [LF]) with [LF]. rewrite flat_map_app. cbn [flat_map]. rewrite app_nil_r.
    destruct (ub_two LF) as (x & y & E & H). rewrite E. cbn [app]. rewrite scan16_unit, H by (unfold LF; lia).
    rewrite Z.eqb_refl. reflexivity.
  - assert (F : Forall (fun u => 0 <= u < 65536 /\ u <> LF) (utf16_units_char c)).
    { pose proof (units_char_facts c Sc) as F0. rewrite Forall_forall in *. intros u Hu.
      destruct (F0 u Hu) as (R & Hl). split; [exact R|]. intros E. exact (Ec (Hl E)). }
    change (utf16_units (c :: t)) with (utf16_units_char c ++ utf16_units t).
    rewrite flat_map_app, (scan16_units_nolf _ _ F), (IH St).
    destruct (split_line LF t) as [a b]. cbn [fst snd].
    change (utf16_units (c :: a)) with (utf16_units_char c ++ utf16_units a).
    rewrite flat_map_app. reflexivity.
Qed.
End Scan16.

Lemma le_two : forall u, exists x y,
  le_bytes u = [x; y] /\ (0 <= u < 65536 -> is_lf_unit true x y = (u =? LF)).
Proof. intros u. exists (u mod 256), (u / 256). split; [reflexivity|apply is_lf_unit_le]. Qed.
Lemma be_two : forall u, exists x y,
  be_bytes u = [x; y] /\ (0 <= u < 65536 -> is_lf_unit false x y = (u =? LF)).
Proof. intros u. exists (u / 256), (u mod 256). split; [reflexivity|apply is_lf_unit_be]. Qed.

Lemma next_raw_utf16le : forall s, scalar_str s ->
  next_raw Utf16LE (utf16le_enc s) =
  match fst (split_line LF s) with
  | [] => None
  | _ :: _ => Some (utf16le_enc (fst (split_line LF s)), utf16le_enc (snd (split_line LF s)))
  end.
Proof.
  intros s S. unfold next_raw. cbn [raw_split]. unfold utf16le_enc.
  rewrite (scan16_text true le_bytes le_two s S).
  destruct (fst (split_line LF s)) as [|c t]; [reflexivity|].
  destruct (flat_map le_bytes (utf16_units (c :: t))) eqn:E; [destruct (utf16le_enc_nonnil c t E)|reflexivity].
Qed.

Lemma next_raw_utf16be : forall s, scalar_str s ->
  next_raw Utf16BE (utf16be_enc s) =
  match fst (split_line LF s) with
  | [] => None
  | _ :: _ => Some (utf16be_enc (fst (split_line LF s)), utf16be_enc (snd (split_line LF s)))
  end.
Proof.
  intros s S. unfold next_raw. cbn [raw_split]. unfold utf16be_enc.
  rewrite (scan16_text false be_bytes be_two s S).
  destruct (fst (split_line LF s)) as [|c t]; [reflexivity|].
  destruct (flat_map be_bytes (utf16_units (c :: t))) eqn:E; [destruct (utf16be_enc_nonnil c t E)|reflexivity].
Qed.

Lemma lines_pure_utf16le : forall n s, scalar_str s -> (length s < n)%nat ->
  lines_pure n Utf16LE (utf16le_enc s) = IoDone (lines_of_text s).
Proof.
  intros n s S L. unfold lines_of_text.
  apply (lines_pure_enc Utf16LE utf16le_enc scalar_str scalar_split); try assumption; try lia.
  - exact next_raw_utf16le.
  - exact utf16le_roundtrip.
Qed.

Lemma lines_pure_utf16be : forall n s, scalar_str s -> (length s < n)%nat ->
  lines_pure n Utf16BE (utf16be_enc s) = IoDone (lines_of_text s).
Proof.
  intros n s S L. unfold lines_of_text.
  apply (lines_pure_enc Utf16BE utf16be_enc scalar_str scalar_split); try assumption; try lia.
  - exact next_raw_utf16be.
  - exact utf16be_roundtrip.
Qed.

(* ---------- T10c: the four encodings of a text give the same lines ---------- *)

Definition one_chunk (b : bytes) : io (list str) := read_all_lines (mk_reader b []).

Lemma one_chunk_stream : forall b, one_chunk b = decode_stream b.
Proof.
  intros b. unfold one_chunk.
  apply (read_all_lines_faultless decode_utf8_lossy_spec b [] faultless_nil).
Qed.

Lemma utf8_enc_length : forall s, (length s <= length (utf8_enc s))%nat.
Proof.
  induction s as [|c t IH]; [reflexivity|]. cbn [utf8_enc flat_map length]. rewrite app_length.
  pose proof (utf8_enc_char_nonnil c) as N. destruct (utf8_enc_char c); [contradiction|].
  cbn [length]. unfold utf8_enc in IH. lia.
Qed.

Lemma utf16_units_length : forall s, (length s <= length (utf16_units s))%nat.
Proof.
  induction s as [|c t IH]; [reflexivity|]. cbn [utf16_units flat_map length]. rewrite app_length.
  pose proof (utf16_units_char_nonnil c) as N. destruct (utf16_units_char c); [contradiction|].
  cbn [length]. unfold utf16_units in IH. lia.
Qed.

Lemma flat_le_length : forall us, length (flat_map le_bytes us) = (2 * length us)%nat.
Proof. induction us as [|u t IH]; [reflexivity|]. cbn [flat_map le_bytes app length]. lia. Qed.
Lemma flat_be_length : forall us, length (flat_map be_bytes us) = (2 * length us)%nat.
Proof. induction us as [|u t IH]; [reflexivity|]. cbn [flat_map be_bytes app length]. lia. Qed.

Lemma skipn3 : forall (a b c : Z) x, skipn 3 (a :: b :: c :: x) = x.
Proof. intros. rewrite !skipn_cons, skipn_O. reflexivity. Qed.
Lemma skipn2 : forall (a b : Z) x, skipn 2 (a :: b :: x) = x.
Proof. intros. rewrite !skipn_cons, skipn_O. reflexivity. Qed.

Theorem utf8_bom_lines : forall s, scalar_str s ->
  one_chunk (bom_utf8 ++ utf8_enc s) = IoDone (lines_of_text s).
Proof.
  intros s S. rewrite one_chunk_stream. unfold decode_stream.
  change (bom_utf8 ++ utf8_enc s) with (239 :: 187 :: 191 :: utf8_enc s).
  change (from_bom (239 :: 187 :: 191 :: utf8_enc s)) with (Utf8, 3%nat).
  cbn [length]. rewrite skipn3.
  apply lines_pure_utf8; [exact S|]. pose proof (utf8_enc_length s). lia.
Qed.

Theorem utf16le_bom_lines : forall s, scalar_str s ->
  one_chunk (bom_le ++ utf16le_enc s) = IoDone (lines_of_text s).
Proof.
  intros s S. rewrite one_chunk_stream. unfold decode_stream.
  change (bom_le ++ utf16le_enc s) with (255 :: 254 :: utf16le_enc s).
  change (from_bom (255 :: 254 :: utf16le_enc s)) with (Utf16LE, 2%nat).
  cbv beta iota. rewrite skipn2. apply lines_pure_utf16le; [exact S|].
  pose proof (utf16_units_length s). unfold utf16le_enc. cbn [length].
  rewrite flat_le_length. unfold str, char, bytes, byte in *. lia.
Qed.

Theorem utf16be_bom_lines : forall s, scalar_str s ->
  one_chunk (bom_be ++ utf16be_enc s) = IoDone (lines_of_text s).
Proof.
  intros s S. rewrite one_chunk_stream. unfold decode_stream.
  change (bom_be ++ utf16be_enc s) with (254 :: 255 :: utf16be_enc s).
  change (from_bom (254 :: 255 :: utf16be_enc s)) with (Utf16BE, 2%nat).
  cbv beta iota. rewrite skipn2. apply lines_pure_utf16be; [exact S|].
  pose proof (utf16_units_length s). unfold utf16be_enc. cbn [length].
  rewrite flat_be_length. unfold str, char, bytes, byte in *. lia.
Qed.

(* without a BOM: the stream must not be mistaken for one that has a BOM *)
Theorem utf8_plain_lines : forall s, scalar_str s ->
  from_bom (utf8_enc s) = (Utf8, 0%nat) ->
  one_chunk (utf8_enc s) = IoDone (lines_of_text s).
Proof.
  intros s S B. rewrite one_chunk_stream. unfold decode_stream.
  rewrite B, skipn_O. apply lines_pure_utf8; [exact S|]. pose proof (utf8_enc_length s). lia.
Qed.

(* a text that does not itself begin with U+FEFF is not mistaken for a BOM *)
Lemma from_bom_utf8_enc : forall s, scalar_str s -> hd 0 s <> 65279 ->
  from_bom (utf8_enc s) = (Utf8, 0%nat).
Proof.
  intros s S H. destruct s as [|c t]; [reflexivity|]. cbn [hd] in H. inversion S as [|c' t' Sc St]; subst.
  cbn [utf8_enc flat_map]. unfold utf8_enc_char. unfold is_scalar in Sc.
  unfold from_bom, bom_table. cbn [from_bom_tab].
  destruct (c <? 128) eqn:E1; [|destruct (c <? 2048) eqn:E2; [|destruct (c <? 65536) eqn:E3]];
    cbn [app is_prefix].
  - destruct (239 =? c) eqn:A; [lia|]. destruct (255 =? c) eqn:B; [lia|]. destruct (254 =? c) eqn:C; [lia|].
    reflexivity.
  - destruct (239 =? 192 + c / 64) eqn:A; [zdm|]. destruct (255 =? 192 + c / 64) eqn:B; [zdm|].
    destruct (254 =? 192 + c / 64) eqn:C; [zdm|]. reflexivity.
  - destruct (255 =? 224 + c / 4096) eqn:B; [zdm|]. destruct (254 =? 224 + c / 4096) eqn:C; [zdm|].
    destruct ((239 =? 224 + c / 4096) && ((187 =? 128 + (c / 64) mod 64) && ((191 =? 128 + c mod 64) && true))) eqn:A;
      [exfalso; zdm|]. reflexivity.
  - destruct (239 =? 240 + c / 262144) eqn:A; [zdm|]. destruct (255 =? 240 + c / 262144) eqn:B; [zdm|].
    destruct (254 =? 240 + c / 262144) eqn:C; [zdm|]. reflexivity.
Qed.

(* T10c as one statement, full strength: the four encodings of a text yield the
   same lines -- those of the text -- for EVERY scalar-value text (U+4E0A,
   U+0A41, U+010A, U+1040A, ... included) and EVERY faultless delivery *)
Theorem transparency : forall s, scalar_str s ->
  forall sch, faultless sch ->
  let L := IoDone (lines_of_text s) in
  read_all_lines (mk_reader (bom_utf8 ++ utf8_enc s) sch) = L /\
  read_all_lines (mk_reader (bom_le ++ utf16le_enc s) sch) = L /\
  read_all_lines (mk_reader (bom_be ++ utf16be_enc s) sch) = L /\
  (hd 0 s <> 65279 -> read_all_lines (mk_reader (utf8_enc s) sch) = L).
Proof.
  intros s S sch Fs L. unfold L. repeat split.
  - rewrite (read_all_lines_faultless decode_utf8_lossy_spec _ _ Fs), <- one_chunk_stream.
    apply utf8_bom_lines; exact S.
  - rewrite (read_all_lines_faultless decode_utf8_lossy_spec _ _ Fs), <- one_chunk_stream.
    apply utf16le_bom_lines; assumption.
  - rewrite (read_all_lines_faultless decode_utf8_lossy_spec _ _ Fs), <- one_chunk_stream.
    apply utf16be_bom_lines; assumption.
  - intros Hh. rewrite (read_all_lines_faultless decode_utf8_lossy_spec _ _ Fs), <- one_chunk_stream.
    apply utf8_plain_lines; [exact S|apply from_bom_utf8_enc; assumption].
Qed.

(* in the words of the property: the same result from all four forms *)
Theorem four_encodings_agree : forall s, scalar_str s -> hd 0 s <> 65279 ->
  one_chunk (utf8_enc s) = one_chunk (bom_utf8 ++ utf8_enc s) /\
  one_chunk (utf8_enc s) = one_chunk (bom_le ++ utf16le_enc s) /\
  one_chunk (utf8_enc s) = one_chunk (bom_be ++ utf16be_enc s).
Proof.
  intros s S H. destruct (transparency s S [] faultless_nil) as (A & B & C & D). specialize (D H).
  unfold one_chunk. rewrite A, B, C, D. repeat split.
Qed.

Theorem only_unit_lf_ends_a_line : forall u, 0 <= u < 65536 ->
  is_lf_unit true (u mod 256) (u / 256) = (u =? LF) /\
  is_lf_unit false (u / 256) (u mod 256) = (u =? LF).
Proof. intros u R. split; [apply is_lf_unit_le|apply is_lf_unit_be]; exact R. Qed.

Theorem utf16_cut_is_text_cut : forall s, scalar_str s ->
  scan16 true None (utf16le_enc s) = (utf16le_enc (fst (split_line LF s)), utf16le_enc (snd (split_line LF s))) /\
  scan16 false None (utf16be_enc s) = (utf16be_enc (fst (split_line LF s)), utf16be_enc (snd (split_line LF s))).
Proof.
  intros s S. split; [exact (scan16_text true le_bytes le_two s S)|exact (scan16_text false be_bytes be_two s S)].
Qed.

(* ---------- UTF-8 streams with arbitrary bytes: damage stays on its line ---------- *)

(* the raw lines of a byte stream: cut after every 0x0A *)
Fixpoint chunks (d : Z) (l : bytes) : list bytes :=
  match l with
  | [] => []
  | x :: t =>
      if x =? d then [x] :: chunks d t
      else match chunks d t with
           | [] => [[x]]
           | c :: cs => (x :: c) :: cs
           end
  end.

Lemma chunks_split : forall d l, l <> [] ->
  chunks d l = fst (split_line d l) :: chunks d (snd (split_line d l)).
Proof.
  induction l as [|x t IH]; intros N; [contradiction|].
  cbn [chunks split_line]. destruct (x =? d); [reflexivity|].
  destruct t as [|y u].
  - reflexivity.
  - rewrite IH by discriminate. destruct (split_line d (y :: u)) as [a b]. reflexivity.
Qed.

Lemma lines_pure_utf8_chunks : forall n b, (length b < n)%nat ->
  lines_pure n Utf8 b = IoDone (map (fun l => trim_end (lossy_spec l)) (chunks LF b)).
Proof.
  induction n as [|n IH]; intros b L; [lia|].
  cbn [lines_pure]. unfold next_raw. cbn [raw_split].
  destruct b as [|x t]; [reflexivity|].
  rewrite (chunks_split LF (x :: t)) by discriminate.
  pose proof (split_line_length LF (x :: t)) as Hl.
  pose proof (proj1 (split_line_nil_iff LF (x :: t))) as Hn.
  destruct (split_line LF (x :: t)) as [l r]. cbn [fst snd] in *.
  destruct l as [|y u]; [discriminate (Hn eq_refl)|].
  cbn [io_bind decode]. rewrite decode_utf8_lossy_spec. cbn [io_of_outcome io_bind].
  rewrite IH by (cbn [length] in *; lia). reflexivity.
Qed.

(* every line of a UTF-8 stream is the lossy conversion of its own raw line:
   an invalid byte shows up as U+FFFD on the line it occurs on and nowhere else *)
Theorem utf8_stream_lines : forall b,
  one_chunk (bom_utf8 ++ b) = IoDone (map (fun l => trim_end (lossy_spec l)) (chunks LF b)).
Proof.
  intros b. rewrite one_chunk_stream. unfold decode_stream.
  change (bom_utf8 ++ b) with (239 :: 187 :: 191 :: b).
  change (from_bom (239 :: 187 :: 191 :: b)) with (Utf8, 3%nat).
  cbn [length]. rewrite skipn3.
  apply lines_pure_utf8_chunks. lia.
Qed.

Theorem utf8_plain_stream_lines : forall b,
  from_bom b = (Utf8, 0%nat) ->
  one_chunk b = IoDone (map (fun l => trim_end (lossy_spec l)) (chunks LF b)).
Proof.
  intros b B. rewrite one_chunk_stream. unfold decode_stream.
  rewrite B, skipn_O. apply lines_pure_utf8_chunks. lia.
Qed.

(* ---------- UTF-16 streams with arbitrary bytes ---------- *)

(* the raw lines of a UTF-16 byte stream: cut behind every code unit U+000A
   that starts at an even offset.  A byte 0x0A at an odd offset, or whose
   partner byte is not 0x00, is content; a stream of odd length keeps its lone
   last byte on the last raw line (Encoding::decode then drops it). *)
Definition push1 (y : Z) (cs : list bytes) : list bytes :=
  match cs with [] => [[y]] | c :: cs' => (y :: c) :: cs' end.
Fixpoint chunks16 (le : bool) (st : option Z) (b : bytes) : list bytes :=
  match b with
  | [] => []
  | y :: t =>
      match st with
      | None => push1 y (chunks16 le (Some y) t)
      | Some x => if is_lf_unit le x y then [y] :: chunks16 le None t
                  else push1 y (chunks16 le None t)
      end
  end.

Lemma chunks16_split : forall le b st, b <> [] ->
  chunks16 le st b = fst (scan16 le st b) :: chunks16 le None (snd (scan16 le st b)).
Proof.
  induction b as [|y t IH]; intros st N; [contradiction|]. cbn [chunks16 scan16].
  destruct st as [x|].
  - destruct (is_lf_unit le x y); [reflexivity|]. destruct t as [|z u]; [reflexivity|].
    rewrite (IH None) by discriminate. destruct (scan16 le None (z :: u)); reflexivity.
  - destruct t as [|z u]; [reflexivity|].
    rewrite (IH (Some y)) by discriminate. destruct (scan16 le (Some y) (z :: u)); reflexivity.
Qed.

Lemma lines_pure_utf16le_chunks : forall n b, (length b < n)%nat ->
  lines_pure n Utf16LE b = IoDone (map (fun l => trim_end (decode_utf16 (u16_le l))) (chunks16 true None b)).
Proof.
  induction n as [|n IH]; intros b L; [lia|].
  cbn [lines_pure]. unfold next_raw. cbn [raw_split].
  destruct b as [|x t]; [reflexivity|].
  rewrite (chunks16_split true (x :: t)) by discriminate.
  pose proof (scan16_length true (x :: t) None) as Hl.
  pose proof (proj1 (scan16_nil_iff true None (x :: t))) as Hn.
  destruct (scan16 true None (x :: t)) as [l r]. cbn [fst snd] in *.
  destruct l as [|y u]; [discriminate (Hn eq_refl)|].
  cbn [io_bind decode io_of_outcome map]. rewrite IH by (cbn [length] in *; lia). reflexivity.
Qed.

Lemma lines_pure_utf16be_chunks : forall n b, (length b < n)%nat ->
  lines_pure n Utf16BE b = IoDone (map (fun l => trim_end (decode_utf16 (u16_be l))) (chunks16 false None b)).
Proof.
  induction n as [|n IH]; intros b L; [lia|].
  cbn [lines_pure]. unfold next_raw. cbn [raw_split].
  destruct b as [|x t]; [reflexivity|].
  rewrite (chunks16_split false (x :: t)) by discriminate.
  pose proof (scan16_length false (x :: t) None) as Hl.
  pose proof (proj1 (scan16_nil_iff false None (x :: t))) as Hn.
  destruct (scan16 false None (x :: t)) as [l r]. cbn [fst snd] in *.
  destruct l as [|y u]; [discriminate (Hn eq_refl)|].
  cbn [io_bind decode io_of_outcome map]. rewrite IH by (cbn [length] in *; lia). reflexivity.
Qed.

(* every line of a UTF-16 stream of ARBITRARY bytes -- odd length, lone
   surrogates, misaligned 0x0A included -- is the lossy conversion of its own
   raw line: damage (an unpaired surrogate -> U+FFFD) stays on its line *)
Theorem utf16le_stream_lines : forall b,
  one_chunk (bom_le ++ b) = IoDone (map (fun l => trim_end (decode_utf16 (u16_le l))) (chunks16 true None b)).
Proof.
  intros b. rewrite one_chunk_stream. unfold decode_stream.
  change (bom_le ++ b) with (255 :: 254 :: b).
  change (from_bom (255 :: 254 :: b)) with (Utf16LE, 2%nat).
  cbv beta iota. rewrite skipn2. apply lines_pure_utf16le_chunks. cbn [length]. lia.
Qed.

Theorem utf16be_stream_lines : forall b,
  one_chunk (bom_be ++ b) = IoDone (map (fun l => trim_end (decode_utf16 (u16_be l))) (chunks16 false None b)).
Proof.
  intros b. rewrite one_chunk_stream. unfold decode_stream.
  change (bom_be ++ b) with (254 :: 255 :: b).
  change (from_bom (254 :: 255 :: b)) with (Utf16BE, 2%nat).
  cbv beta iota. rewrite skipn2. apply lines_pure_utf16be_chunks. cbn [length]. lia.
Qed.

(* on well-formed input the automaton is the identity *)
Lemma lossy_spec_valid : forall s, scalar_str s -> lossy_spec (utf8_enc s) = s.
Proof.
  intros s S. pose proof (decode_utf8_lossy_spec (utf8_enc s)) as H.
  pose proof (utf8_roundtrip s S) as R. cbn [decode] in R. congruence.
Qed.

(* ---------- a clean stream never fails (D6 repaired) ---------- *)

(* the schedule-free reference is total: every byte string has lines, in
   every encoding *)
Lemma lines_pure_done : forall n e b, (length b < n)%nat -> exists ls, lines_pure n e b = IoDone ls.
Proof.
  induction n as [|n IH]; intros e b L; [lia|].
  cbn [lines_pure]. destruct (next_raw e b) as [[l r]|] eqn:Hn; [|eexists; reflexivity].
  pose proof (next_raw_length _ _ _ _ Hn) as Lr.
  rewrite (decode_dec decode_utf8_lossy_spec). cbn [io_of_outcome io_bind].
  destruct (IH e r) as (ls & H); [lia|]. rewrite H. cbn [io_bind]. eexists; reflexivity.
Qed.

Theorem decode_stream_done : forall b, exists ls, decode_stream b = IoDone ls.
Proof.
  intros b. unfold decode_stream.
  destruct (from_bom b) as [e c]. apply lines_pure_done. rewrite skipn_length. lia.
Qed.

(* for EVERY faultless delivery (any chunking, any
   placement of Interrupted), every byte string and every encoding the decode
   yields a list of lines: no Err, no panic, no exhausted fuel *)
Theorem clean_stream_never_fails : forall b s,
  faultless s -> exists ls, read_all_lines (mk_reader b s) = IoDone ls.
Proof. intros b s F. apply (read_all_lines_faultless_done decode_utf8_lossy_spec). exact F. Qed.

(* a UTF-16LE stream that ends right after the low byte of a line feed (the
   former class D6): the odd byte forms a last raw line that decodes to the
   empty string -- the lines of the text, then one blank line *)
Lemma next_raw_le_lf_end : next_raw Utf16LE [LF] = Some ([LF], []).
Proof. reflexivity. Qed.

(* ---------- BufReader::with_capacity(c, _), every capacity c >= 1 ---------- *)

Lemma faultless_repeat_chunk : forall c n, faultless (repeat (Chunk c) n).
Proof. intros c n k Hin. apply repeat_spec in Hin. discriminate. Qed.

Theorem bufreader_any_capacity : forall b c n,
  read_all_lines (mk_reader b (repeat (Chunk c) n)) = decode_stream b.
Proof.
  intros b c n. apply (read_all_lines_faultless decode_utf8_lossy_spec). apply faultless_repeat_chunk.
Qed.

(* TransparencyFacts: T10c -- the lines of a text do not depend on which of
   the four encodings carries it, nor on how the bytes are delivered, outside
   the narrow class D5 (a UTF-16 code unit other than U+000A containing the
   byte 0x0A) and a text that itself starts with U+FEFF. *)
From RM Require Import Model.Text Model.Encoding Model.Reader.
From RM Require Import Proofs.EncodingFacts Proofs.ReaderFacts Gen.Generated.
Require Import Lia ZArith List ZifyBool.
Import ListNotations.
Open Scope Z_scope.

(* ---------- the lines of a text ---------- *)

(* split after every U+000A; every piece (with its line feed) is trimmed at
   the end; a last piece without line feed counts if it is not empty *)
Fixpoint text_lines (n : nat) (s : str) : list str :=
  match n with
  | O => []
  | S m =>
      let '(l, r) := split_line LF s in
      match l with
      | [] => []
      | _ :: _ => trim_end l :: text_lines m r
      end
  end.
Definition lines_of_text (s : str) : list str := text_lines (S (length s)) s.

Definition nolf (l : list Z) : Prop := Forall (fun c => c <> LF) l.

Lemma split_line_decomp : forall l : list Z,
  (nolf l /\ split_line LF l = (l, [])) \/
  (exists p q, l = p ++ LF :: q /\ nolf p /\ split_line LF l = (p ++ [LF], q)).
Proof.
  induction l as [|x t IH].
  - left. split; [constructor|reflexivity].
  - cbn [split_line]. destruct (Z.eqb_spec x LF) as [E|E].
    + right. exists [], t. subst x. repeat split. constructor.
    + destruct IH as [(N & H)|(p & q & Ht & N & H)].
      * left. rewrite H. split; [constructor; assumption|reflexivity].
      * right. exists (x :: p), q. rewrite H, Ht. repeat split. constructor; assumption.
Qed.

Lemma split_line_nolf_app : forall a m, nolf a ->
  split_line LF (a ++ m) = (a ++ fst (split_line LF m), snd (split_line LF m)).
Proof.
  induction a as [|x t IH]; intros m N; cbn [app].
  - destruct (split_line LF m); reflexivity.
  - inversion N as [|x' t' Nx Nt]; subst. cbn [split_line].
    destruct (Z.eqb_spec x LF) as [E|E]; [contradiction|]. rewrite (IH m Nt). reflexivity.
Qed.

Lemma split_line_lf : forall m, split_line LF (LF :: m) = ([LF], m).
Proof. reflexivity. Qed.

Lemma nolf_app : forall a b, nolf a -> nolf b -> nolf (a ++ b).
Proof. intros; apply Forall_app; split; assumption. Qed.

Lemma app_lf_cons : forall (a : list Z) x, exists y t, a ++ [x] = y :: t.
Proof. intros [|y t] x; cbn [app]; eauto. Qed.

Lemma last_opt_app1 : forall (a : list Z) x, last_opt (a ++ [x]) = Some x.
Proof.
  induction a as [|y t IH]; intros x; [reflexivity|]. cbn [app].
  destruct (app_lf_cons t x) as (z & u & E). rewrite E. change (last_opt (y :: z :: u)) with (last_opt (z :: u)).
  rewrite <- E. apply IH.
Qed.

Lemma scalar_app : forall a b, scalar_str (a ++ b) <-> scalar_str a /\ scalar_str b.
Proof. intros; apply Forall_app. Qed.

(* ---------- generic: lines_pure over an encoded text ---------- *)

Section Generic.
Variable e : encoding.
Variable enc_ : str -> bytes.
Variable good : str -> Prop.
Hypothesis good_split : forall s, good s ->
  good (fst (split_line LF s)) /\ good (snd (split_line LF s)).
Hypothesis next_raw_enc : forall s, good s ->
  next_raw e (enc_ s) =
  match fst (split_line LF s) with
  | [] => None
  | _ :: _ => Some (enc_ (fst (split_line LF s)), enc_ (snd (split_line LF s)))
  end.
Hypothesis dec_enc : forall s, good s -> decode e (enc_ s) = Done s.

Lemma lines_pure_enc : forall n m s, good s -> (length s < n)%nat -> (length s < m)%nat ->
  lines_pure n e (enc_ s) = IoDone (text_lines m s).
Proof.
  induction n as [|n IH]; intros m s G Ln Lm; [lia|]. destruct m as [|m]; [lia|].
  cbn [lines_pure text_lines]. rewrite (next_raw_enc s G).
  destruct (good_split s G) as (Gl & Gr). pose proof (split_line_length LF s) as L.
  destruct (split_line LF s) as [l r]. cbn [fst snd] in *.
  destruct l as [|x t]; [reflexivity|]. cbn [io_bind].
  rewrite (dec_enc _ Gl). cbn [io_of_outcome io_bind].
  rewrite (IH m r Gr); [reflexivity| |]; cbn [length] in L; unfold str, char, bytes, byte in *; lia.
Qed.
End Generic.

(* ---------- encodings in which a line feed ends with the byte 0x0A ---------- *)

Section NonLE.
Variable e : encoding.
Variable enc_ : str -> bytes.
Variable good : str -> Prop.
Variable pre : bytes.                       (* bytes of U+000A before its 0x0A *)
Hypothesis e_not_le : enc_is_le e = false.
Hypothesis enc_app : forall a b, enc_ (a ++ b) = enc_ a ++ enc_ b.
Hypothesis enc_nil : enc_ [] = [].
Hypothesis enc_lf : enc_ [LF] = pre ++ [LF].
Hypothesis pre_nolf : nolf pre.
Hypothesis enc_nolf : forall p, good p -> nolf p -> nolf (enc_ p).
Hypothesis enc_nonnil : forall c t, enc_ (c :: t) <> [].
Hypothesis good_app : forall a b, good (a ++ b) <-> good a /\ good b.

Lemma next_raw_nonle : forall s, good s ->
  next_raw e (enc_ s) =
  match fst (split_line LF s) with
  | [] => None
  | _ :: _ => Some (enc_ (fst (split_line LF s)), enc_ (snd (split_line LF s)))
  end.
Proof.
  intros s G. unfold next_raw. rewrite e_not_le. cbn [andb].
  destruct (split_line_decomp s) as [(N & H)|(p & q & Hs & N & H)]; rewrite H; cbn [fst snd].
  - pose proof (enc_nolf s G N) as Nb.
    pose proof (split_line_nolf_app (enc_ s) [] Nb) as Hb. rewrite app_nil_r in Hb.
    rewrite Hb. cbn [split_line fst snd]. rewrite app_nil_r.
    replace (enc_ (@nil Z)) with (@nil Z) by (symmetry; exact enc_nil).
    destruct s as [|c t]; [rewrite enc_nil; reflexivity|].
    destruct (enc_ (c :: t)) eqn:E; [destruct (enc_nonnil c t E)|]. reflexivity.
  - subst s. apply good_app in G. destruct G as (Gp & Gq).
    change (LF :: q) with ([LF] ++ q). rewrite !enc_app, enc_lf.
    rewrite <- !app_assoc. rewrite (split_line_nolf_app (enc_ p) _ (enc_nolf p Gp N)).
    rewrite (split_line_nolf_app pre _ pre_nolf). cbn [app]. rewrite split_line_lf. cbn [fst snd].
    destruct (app_lf_cons p LF) as (y & t & E). rewrite E.
    destruct (enc_ p ++ pre ++ [LF]) eqn:E2; [|reflexivity].
    apply app_eq_nil in E2. destruct E2 as (_ & E2). apply app_eq_nil in E2. destruct E2 as (_ & E2). discriminate.
Qed.
End NonLE.

(* ---------- UTF-8 ---------- *)

Lemma utf8_enc_app : forall a b, utf8_enc (a ++ b) = utf8_enc a ++ utf8_enc b.
Proof. intros; unfold utf8_enc; apply flat_map_app. Qed.

Lemma utf8_enc_nolf : forall p, scalar_str p -> nolf p -> nolf (utf8_enc p).
Proof.
  induction p as [|c t IH]; intros S N; [constructor|].
  inversion S; subst. inversion N; subst. cbn [utf8_enc flat_map]. apply nolf_app; [|apply IH; assumption].
  apply Forall_forall. intros x Hin E. subst x. exact (utf8_enc_char_no_lf c H1 H3 Hin).
Qed.

Lemma utf8_enc_char_nonnil : forall c, utf8_enc_char c <> [].
Proof. intros c. unfold utf8_enc_char. destruct (c <? 128), (c <? 2048), (c <? 65536); discriminate. Qed.

Lemma utf8_enc_nonnil : forall c t, utf8_enc (c :: t) <> [].
Proof.
  intros c t E. cbn [utf8_enc flat_map] in E. apply app_eq_nil in E. destruct E as (E & _).
  exact (utf8_enc_char_nonnil c E).
Qed.

Lemma scalar_split : forall s, scalar_str s ->
  scalar_str (fst (split_line LF s)) /\ scalar_str (snd (split_line LF s)).
Proof.
  intros s S. destruct (split_line_decomp s) as [(N & H)|(p & q & Hs & N & H)]; rewrite H; cbn [fst snd].
  - split; [exact S|constructor].
  - subst s. apply scalar_app in S. destruct S as (Sp & Sq). inversion Sq; subst.
    split; [|assumption]. apply scalar_app. split; [assumption|]. constructor; [assumption|constructor].
Qed.

Lemma lines_pure_utf8 : forall n s, scalar_str s -> (length s < n)%nat ->
  lines_pure n Utf8 (utf8_enc s) = IoDone (lines_of_text s).
Proof.
  intros n s S L. unfold lines_of_text.
  apply (lines_pure_enc Utf8 utf8_enc scalar_str scalar_split); try assumption; try lia.
  - intros s0 S0. apply (next_raw_nonle Utf8 utf8_enc scalar_str []); try assumption.
    + reflexivity.
    + exact utf8_enc_app.
    + reflexivity.
    + reflexivity.
    + constructor.
    + exact utf8_enc_nolf.
    + exact utf8_enc_nonnil.
    + exact scalar_app.
  - exact utf8_roundtrip.
Qed.

(* ---------- UTF-16 ---------- *)

(* D5 class, negated: every code unit is U+000A or has no byte 0x0A *)
Definition unit_safe (u : Z) : Prop := u = LF \/ (u mod 256 <> LF /\ u / 256 <> LF).
Definition lf_safe (s : str) : Prop := Forall unit_safe (utf16_units s).
Definition unit_safeb (u : Z) : bool := (u =? LF) || (negb (u mod 256 =? LF) && negb (u / 256 =? LF)).
Definition lf_safeb (s : str) : bool := forallb unit_safeb (utf16_units s).

Lemma lf_safeb_spec : forall s, lf_safeb s = true <-> lf_safe s.
Proof.
  intros s. unfold lf_safeb, lf_safe. rewrite forallb_forall, Forall_forall.
  split; intros H u Hin; specialize (H u Hin); unfold unit_safeb, unit_safe in *; lia.
Qed.

Lemma utf16_units_app : forall a b, utf16_units (a ++ b) = utf16_units a ++ utf16_units b.
Proof. intros; unfold utf16_units; apply flat_map_app. Qed.

Lemma utf16le_enc_app : forall a b, utf16le_enc (a ++ b) = utf16le_enc a ++ utf16le_enc b.
Proof. intros; unfold utf16le_enc. rewrite utf16_units_app. apply flat_map_app. Qed.
Lemma utf16be_enc_app : forall a b, utf16be_enc (a ++ b) = utf16be_enc a ++ utf16be_enc b.
Proof. intros; unfold utf16be_enc. rewrite utf16_units_app. apply flat_map_app. Qed.

Lemma lf_safe_app : forall a b, lf_safe (a ++ b) <-> lf_safe a /\ lf_safe b.
Proof. intros; unfold lf_safe. rewrite utf16_units_app. apply Forall_app. Qed.

Definition good16 (s : str) : Prop := scalar_str s /\ lf_safe s.

Lemma good16_app : forall a b, good16 (a ++ b) <-> good16 a /\ good16 b.
Proof. intros; unfold good16. rewrite scalar_app, lf_safe_app. tauto. Qed.

Lemma good16_split : forall s, good16 s ->
  good16 (fst (split_line LF s)) /\ good16 (snd (split_line LF s)).
Proof.
  intros s G. destruct (split_line_decomp s) as [(N & H)|(p & q & Hs & N & H)]; rewrite H; cbn [fst snd].
  - split; [exact G|]. split; constructor.
  - subst s. apply good16_app in G. destruct G as (Gp & Gq).
    change (LF :: q) with ([LF] ++ q) in Gq. apply good16_app in Gq. destruct Gq as (Gl & Gq).
    split; [|assumption]. apply good16_app. split; assumption.
Qed.

(* the code units of a text without line feed are not 0x000A either *)
Lemma units_nolf : forall p, scalar_str p -> nolf p -> nolf (utf16_units p).
Proof.
  induction p as [|c t IH]; intros S N; [constructor|].
  inversion S as [|c' t' Sc St]; subst. inversion N as [|c' t' Nc Nt]; subst.
  cbn [utf16_units flat_map]. apply nolf_app; [|apply IH; assumption].
  unfold utf16_units_char. unfold is_scalar in Sc. unfold LF in *.
  destruct (c <? 65536) eqn:E.
  - constructor; [exact Nc|constructor].
  - constructor; [cbv beta; unfold LF; zdm|]. constructor; [cbv beta; unfold LF; zdm|constructor].
Qed.

Lemma le_bytes_nolf : forall us, Forall unit_safe us -> nolf us -> nolf (flat_map le_bytes us).
Proof.
  induction us as [|u t IH]; intros S N; [constructor|].
  inversion S as [|u' t' Su St]; subst. inversion N as [|u' t' Nu Nt]; subst.
  cbn [flat_map]. apply nolf_app; [|apply IH; assumption].
  destruct Su as [Su|(S1 & S2)]; [contradiction|]. unfold le_bytes. constructor; [exact S1|constructor; [exact S2|constructor]].
Qed.
Lemma be_bytes_nolf : forall us, Forall unit_safe us -> nolf us -> nolf (flat_map be_bytes us).
Proof.
  induction us as [|u t IH]; intros S N; [constructor|].
  inversion S as [|u' t' Su St]; subst. inversion N as [|u' t' Nu Nt]; subst.
  cbn [flat_map]. apply nolf_app; [|apply IH; assumption].
  destruct Su as [Su|(S1 & S2)]; [contradiction|]. unfold be_bytes. constructor; [exact S2|constructor; [exact S1|constructor]].
Qed.

Lemma utf16le_enc_nolf : forall p, good16 p -> nolf p -> nolf (utf16le_enc p).
Proof. intros p (S & F) N. apply le_bytes_nolf; [exact F|apply units_nolf; assumption]. Qed.
Lemma utf16be_enc_nolf : forall p, good16 p -> nolf p -> nolf (utf16be_enc p).
Proof. intros p (S & F) N. apply be_bytes_nolf; [exact F|apply units_nolf; assumption]. Qed.

Lemma utf16_units_char_nonnil : forall c, utf16_units_char c <> [].
Proof. intros c. unfold utf16_units_char. destruct (c <? 65536); discriminate. Qed.

Lemma utf16be_enc_nonnil : forall c t, utf16be_enc (c :: t) <> [].
Proof.
  intros c t E. unfold utf16be_enc in E. cbn [utf16_units flat_map] in E.
  destruct (utf16_units_char c) as [|u r] eqn:Hu; [exact (utf16_units_char_nonnil c Hu)|].
  cbn [app flat_map be_bytes] in E. discriminate.
Qed.
Lemma utf16le_enc_nonnil : forall c t, utf16le_enc (c :: t) <> [].
Proof.
  intros c t E. unfold utf16le_enc in E. cbn [utf16_units flat_map] in E.
  destruct (utf16_units_char c) as [|u r] eqn:Hu; [exact (utf16_units_char_nonnil c Hu)|].
  cbn [app flat_map le_bytes] in E. discriminate.
Qed.

Lemma lines_pure_utf16be : forall n s, good16 s -> (length s < n)%nat ->
  lines_pure n Utf16BE (utf16be_enc s) = IoDone (lines_of_text s).
Proof.
  intros n s G L. unfold lines_of_text.
  apply (lines_pure_enc Utf16BE utf16be_enc good16 good16_split); try assumption; try lia.
  - intros s0 G0. apply (next_raw_nonle Utf16BE utf16be_enc good16 [0]); try assumption.
    + reflexivity.
    + exact utf16be_enc_app.
    + reflexivity.
    + reflexivity.
    + constructor; [discriminate|constructor].
    + exact utf16be_enc_nolf.
    + exact utf16be_enc_nonnil.
    + exact good16_app.
  - intros s0 (S0 & _). apply utf16be_roundtrip; exact S0.
Qed.

(* UTF-16LE: the byte 0x0A of a line feed comes first, the decoder fetches the 0x00 *)

Lemma ends_with_lf_app1 : forall a x, ends_with_lf (a ++ [x]) = (x =? LF).
Proof. intros. unfold ends_with_lf. rewrite last_opt_app1. reflexivity. Qed.

Lemma last_unit_le : forall us u, flat_map le_bytes (us ++ [u]) = (flat_map le_bytes us ++ [u mod 256]) ++ [u / 256].
Proof. intros. rewrite flat_map_app. cbn [flat_map le_bytes app]. rewrite <- app_assoc. reflexivity. Qed.

Lemma next_raw_le : forall s, good16 s ->
  next_raw Utf16LE (utf16le_enc s) =
  match fst (split_line LF s) with
  | [] => None
  | _ :: _ => Some (utf16le_enc (fst (split_line LF s)), utf16le_enc (snd (split_line LF s)))
  end.
Proof.
  intros s G. unfold next_raw. cbn [enc_is_le andb].
  destruct (split_line_decomp s) as [(N & H)|(p & q & Hs & N & H)]; rewrite H; cbn [fst snd].
  - pose proof (utf16le_enc_nolf s G N) as Nb.
    pose proof (split_line_nolf_app (utf16le_enc s) [] Nb) as Hb. rewrite app_nil_r in Hb.
    rewrite Hb. cbn [split_line fst snd]. rewrite app_nil_r.
    destruct s as [|c t]; [reflexivity|].
    destruct (utf16le_enc (c :: t)) as [|b0 bt] eqn:E; [destruct (utf16le_enc_nonnil c t E)|].
    (* the last byte is the high byte of the last unit, which is not 0x0A *)
    assert (Hl : ends_with_lf (b0 :: bt) = false).
    { rewrite <- E. destruct G as (S & F). pose proof (units_nolf _ S N) as Nu.
      unfold utf16le_enc. unfold lf_safe in F.
      destruct (utf16_units (c :: t)) as [|u0 ut] eqn:Eu.
      - cbn [utf16_units flat_map] in Eu. apply app_eq_nil in Eu. destruct Eu as (Eu & _).
        destruct (utf16_units_char_nonnil c Eu).
      - destruct (@exists_last _ (u0 :: ut)) as (us & u & Hu); [discriminate|]. rewrite Hu in *.
        rewrite last_unit_le, ends_with_lf_app1.
        apply Forall_app in F. destruct F as (_ & Fu). inversion Fu as [|? ? Su _]; subst.
        apply Forall_app in Nu. destruct Nu as (_ & Nu). inversion Nu as [|? ? Nu' _]; subst.
        destruct Su as [Su|(_ & S2)]; [contradiction|]. apply Z.eqb_neq. exact S2. }
    rewrite Hl. reflexivity.
  - subst s. apply good16_app in G. destruct G as (Gp & Gq).
    change (LF :: q) with ([LF] ++ q). rewrite !utf16le_enc_app.
    change (utf16le_enc [LF]) with [LF; 0]. cbn [app].
    rewrite (split_line_nolf_app (utf16le_enc p) _ (utf16le_enc_nolf p Gp N)).
    rewrite split_line_lf. cbn [fst snd].
    destruct (app_lf_cons p LF) as (y & t & E). rewrite E.
    rewrite ends_with_lf_app1. cbn [Z.eqb LF Pos.eqb].
    destruct (utf16le_enc p ++ [LF]) eqn:E2.
    + apply app_eq_nil in E2. destruct E2 as (_ & E2). discriminate.
    + rewrite <- E2, <- app_assoc. reflexivity.
Qed.

Lemma lines_pure_utf16le : forall n s, good16 s -> (length s < n)%nat ->
  lines_pure n Utf16LE (utf16le_enc s) = IoDone (lines_of_text s).
Proof.
  intros n s G L. unfold lines_of_text.
  apply (lines_pure_enc Utf16LE utf16le_enc good16 good16_split); try assumption; try lia.
  - exact next_raw_le.
  - intros s0 (S0 & _). apply utf16le_roundtrip; exact S0.
Qed.

(* ---------- T10c: the four encodings of a text give the same lines ---------- *)

Definition one_chunk (b : bytes) : io (list str) := read_all_lines (mk_reader b []).

Lemma one_chunk_stream : forall b, one_chunk b = decode_stream b.
Proof.
  intros b. unfold one_chunk.
  apply (read_all_lines_faultless decode_utf8_lossy_spec b [] faultless_nil).
Qed.

Lemma utf8_enc_length : forall s, (length s <= length (utf8_enc s))%nat.
Proof.
  induction s as [|c t IH]; [reflexivity|]. cbn [utf8_enc flat_map length]. rewrite app_length.
  pose proof (utf8_enc_char_nonnil c) as N. destruct (utf8_enc_char c); [contradiction|].
  cbn [length]. unfold utf8_enc in IH. lia.
Qed.

Lemma utf16_units_length : forall s, (length s <= length (utf16_units s))%nat.
Proof.
  induction s as [|c t IH]; [reflexivity|]. cbn [utf16_units flat_map length]. rewrite app_length.
  pose proof (utf16_units_char_nonnil c) as N. destruct (utf16_units_char c); [contradiction|].
  cbn [length]. unfold utf16_units in IH. lia.
Qed.

Lemma flat_le_length : forall us, length (flat_map le_bytes us) = (2 * length us)%nat.
Proof. induction us as [|u t IH]; [reflexivity|]. cbn [flat_map le_bytes app length]. lia. Qed.
Lemma flat_be_length : forall us, length (flat_map be_bytes us) = (2 * length us)%nat.
Proof. induction us as [|u t IH]; [reflexivity|]. cbn [flat_map be_bytes app length]. lia. Qed.

Lemma skipn3 : forall (a b c : Z) x, skipn 3 (a :: b :: c :: x) = x.
Proof. intros. rewrite !skipn_cons, skipn_O. reflexivity. Qed.
Lemma skipn2 : forall (a b : Z) x, skipn 2 (a :: b :: x) = x.
Proof. intros. rewrite !skipn_cons, skipn_O. reflexivity. Qed.

Theorem utf8_bom_lines : forall s, scalar_str s ->
  one_chunk (bom_utf8 ++ utf8_enc s) = IoDone (lines_of_text s).
Proof.
  intros s S. rewrite one_chunk_stream. unfold decode_stream.
  change (bom_utf8 ++ utf8_enc s) with (239 :: 187 :: 191 :: utf8_enc s).
  change (from_bom (239 :: 187 :: 191 :: utf8_enc s)) with (Utf8, 3%nat).
  cbn [length]. rewrite skipn3.
  apply lines_pure_utf8; [exact S|]. pose proof (utf8_enc_length s). lia.
Qed.

Theorem utf16le_bom_lines : forall s, scalar_str s -> lf_safe s ->
  one_chunk (bom_le ++ utf16le_enc s) = IoDone (lines_of_text s).
Proof.
  intros s S F. rewrite one_chunk_stream. unfold decode_stream.
  change (bom_le ++ utf16le_enc s) with (255 :: 254 :: utf16le_enc s).
  change (from_bom (255 :: 254 :: utf16le_enc s)) with (Utf16LE, 2%nat).
  cbv beta iota. rewrite skipn2. apply lines_pure_utf16le; [split; assumption|].
  pose proof (utf16_units_length s). unfold utf16le_enc. cbn [length].
  rewrite flat_le_length. unfold str, char, bytes, byte in *. lia.
Qed.

Theorem utf16be_bom_lines : forall s, scalar_str s -> lf_safe s ->
  one_chunk (bom_be ++ utf16be_enc s) = IoDone (lines_of_text s).
Proof.
  intros s S F. rewrite one_chunk_stream. unfold decode_stream.
  change (bom_be ++ utf16be_enc s) with (254 :: 255 :: utf16be_enc s).
  change (from_bom (254 :: 255 :: utf16be_enc s)) with (Utf16BE, 2%nat).
  cbv beta iota. rewrite skipn2. apply lines_pure_utf16be; [split; assumption|].
  pose proof (utf16_units_length s). unfold utf16be_enc. cbn [length].
  rewrite flat_be_length. unfold str, char, bytes, byte in *. lia.
Qed.

(* without a BOM: the stream must not be mistaken for one that has a BOM *)
Theorem utf8_plain_lines : forall s, scalar_str s ->
  from_bom (utf8_enc s) = (Utf8, 0%nat) ->
  one_chunk (utf8_enc s) = IoDone (lines_of_text s).
Proof.
  intros s S B. rewrite one_chunk_stream. unfold decode_stream.
  rewrite B, skipn_O. apply lines_pure_utf8; [exact S|]. pose proof (utf8_enc_length s). lia.
Qed.

(* a text that does not itself begin with U+FEFF is not mistaken for a BOM *)
Lemma from_bom_utf8_enc : forall s, scalar_str s -> hd 0 s <> 65279 ->
  from_bom (utf8_enc s) = (Utf8, 0%nat).
Proof.
  intros s S H. destruct s as [|c t]; [reflexivity|]. cbn [hd] in H. inversion S as [|c' t' Sc St]; subst.
  cbn [utf8_enc flat_map]. unfold utf8_enc_char. unfold is_scalar in Sc.
  unfold from_bom, bom_table. cbn [from_bom_tab].
  destruct (c <? 128) eqn:E1; [|destruct (c <? 2048) eqn:E2; [|destruct (c <? 65536) eqn:E3]];
    cbn [app is_prefix].
  - destruct (239 =? c) eqn:A; [lia|]. destruct (255 =? c) eqn:B; [lia|]. destruct (254 =? c) eqn:C; [lia|].
    reflexivity.
  - destruct (239 =? 192 + c / 64) eqn:A; [zdm|]. destruct (255 =? 192 + c / 64) eqn:B; [zdm|].
    destruct (254 =? 192 + c / 64) eqn:C; [zdm|]. reflexivity.
  - destruct (255 =? 224 + c / 4096) eqn:B; [zdm|]. destruct (254 =? 224 + c / 4096) eqn:C; [zdm|].
    destruct ((239 =? 224 + c / 4096) && ((187 =? 128 + (c / 64) mod 64) && ((191 =? 128 + c mod 64) && true))) eqn:A;
      [exfalso; zdm|]. reflexivity.
  - destruct (239 =? 240 + c / 262144) eqn:A; [zdm|]. destruct (255 =? 240 + c / 262144) eqn:B; [zdm|].
    destruct (254 =? 240 + c / 262144) eqn:C; [zdm|]. reflexivity.
Qed.

(* T10c as one statement: outside the D5 class the four encodings of a text
   yield the same lines, for EVERY faultless delivery (any chunking -- single
   bytes, a BOM split over several chunks --, any placement of Interrupted) *)
Theorem transparency : forall s, scalar_str s -> lf_safe s ->
  forall sch, faultless sch ->
  let L := IoDone (lines_of_text s) in
  read_all_lines (mk_reader (bom_utf8 ++ utf8_enc s) sch) = L /\
  read_all_lines (mk_reader (bom_le ++ utf16le_enc s) sch) = L /\
  read_all_lines (mk_reader (bom_be ++ utf16be_enc s) sch) = L /\
  (hd 0 s <> 65279 -> read_all_lines (mk_reader (utf8_enc s) sch) = L).
Proof.
  intros s S F sch Fs L. unfold L. repeat split.
  - rewrite (read_all_lines_faultless decode_utf8_lossy_spec _ _ Fs), <- one_chunk_stream.
    apply utf8_bom_lines; exact S.
  - rewrite (read_all_lines_faultless decode_utf8_lossy_spec _ _ Fs), <- one_chunk_stream.
    apply utf16le_bom_lines; assumption.
  - rewrite (read_all_lines_faultless decode_utf8_lossy_spec _ _ Fs), <- one_chunk_stream.
    apply utf16be_bom_lines; assumption.
  - intros Hh. rewrite (read_all_lines_faultless decode_utf8_lossy_spec _ _ Fs), <- one_chunk_stream.
    apply utf8_plain_lines; [exact S|apply from_bom_utf8_enc; assumption].
Qed.

(* ---------- UTF-8 streams with arbitrary bytes: damage stays on its line ---------- *)

(* the raw lines of a byte stream: cut after every 0x0A *)
Fixpoint chunks (d : Z) (l : bytes) : list bytes :=
  match l with
  | [] => []
  | x :: t =>
      if x =? d then [x] :: chunks d t
      else match chunks d t with
           | [] => [[x]]
           | c :: cs => (x :: c) :: cs
           end
  end.

Lemma chunks_split : forall d l, l <> [] ->
  chunks d l = fst (split_line d l) :: chunks d (snd (split_line d l)).
Proof.
  induction l as [|x t IH]; intros N; [contradiction|].
  cbn [chunks split_line]. destruct (x =? d); [reflexivity|].
  destruct t as [|y u].
  - reflexivity.
  - rewrite IH by discriminate. destruct (split_line d (y :: u)) as [a b]. reflexivity.
Qed.

Lemma lines_pure_utf8_chunks : forall n b, (length b < n)%nat ->
  lines_pure n Utf8 b = IoDone (map (fun l => trim_end (lossy_spec l)) (chunks LF b)).
Proof.
  induction n as [|n IH]; intros b L; [lia|].
  cbn [lines_pure]. unfold next_raw. cbn [enc_is_le andb].
  destruct b as [|x t]; [reflexivity|].
  rewrite (chunks_split LF (x :: t)) by discriminate.
  pose proof (split_line_length LF (x :: t)) as Hl.
  pose proof (proj1 (split_line_nil_iff LF (x :: t))) as Hn.
  destruct (split_line LF (x :: t)) as [l r]. cbn [fst snd] in *.
  destruct l as [|y u]; [discriminate (Hn eq_refl)|].
  cbn [io_bind decode]. rewrite decode_utf8_lossy_spec. cbn [io_of_outcome io_bind].
  rewrite IH by (cbn [length] in *; lia). reflexivity.
Qed.

(* every line of a UTF-8 stream is the lossy conversion of its own raw line:
   an invalid byte shows up as U+FFFD on the line it occurs on and nowhere else *)
Theorem utf8_stream_lines : forall b,
  one_chunk (bom_utf8 ++ b) = IoDone (map (fun l => trim_end (lossy_spec l)) (chunks LF b)).
Proof.
  intros b. rewrite one_chunk_stream. unfold decode_stream.
  change (bom_utf8 ++ b) with (239 :: 187 :: 191 :: b).
  change (from_bom (239 :: 187 :: 191 :: b)) with (Utf8, 3%nat).
  cbn [length]. rewrite skipn3.
  apply lines_pure_utf8_chunks. lia.
Qed.

Theorem utf8_plain_stream_lines : forall b,
  from_bom b = (Utf8, 0%nat) ->
  one_chunk b = IoDone (map (fun l => trim_end (lossy_spec l)) (chunks LF b)).
Proof.
  intros b B. rewrite one_chunk_stream. unfold decode_stream.
  rewrite B, skipn_O. apply lines_pure_utf8_chunks. lia.
Qed.

(* on well-formed input the automaton is the identity *)
Lemma lossy_spec_valid : forall s, scalar_str s -> lossy_spec (utf8_enc s) = s.
Proof.
  intros s S. pose proof (decode_utf8_lossy_spec (utf8_enc s)) as H.
  pose proof (utf8_roundtrip s S) as R. cbn [decode] in R. congruence.
Qed.

(* ---------- a clean stream never fails (D6 repaired) ---------- *)

(* the schedule-free reference is total: every byte string has lines, in
   every encoding *)
Lemma lines_pure_done : forall n e b, (length b < n)%nat -> exists ls, lines_pure n e b = IoDone ls.
Proof.
  induction n as [|n IH]; intros e b L; [lia|].
  cbn [lines_pure]. destruct (next_raw e b) as [[l r]|] eqn:Hn; [|eexists; reflexivity].
  pose proof (next_raw_length _ _ _ _ Hn) as Lr.
  rewrite (decode_dec decode_utf8_lossy_spec). cbn [io_of_outcome io_bind].
  destruct (IH e r) as (ls & H); [lia|]. rewrite H. cbn [io_bind]. eexists; reflexivity.
Qed.

Theorem decode_stream_done : forall b, exists ls, decode_stream b = IoDone ls.
Proof.
  intros b. unfold decode_stream.
  destruct (from_bom b) as [e c]. apply lines_pure_done. rewrite skipn_length. lia.
Qed.

(* for EVERY faultless delivery (any chunking, any
   placement of Interrupted), every byte string and every encoding the decode
   yields a list of lines: no Err, no panic, no exhausted fuel *)
Theorem clean_stream_never_fails : forall b s,
  faultless s -> exists ls, read_all_lines (mk_reader b s) = IoDone ls.
Proof. intros b s F. apply (read_all_lines_faultless_done decode_utf8_lossy_spec). exact F. Qed.

(* a UTF-16LE stream that ends right after the low byte of a line feed (the
   former class D6): the odd byte forms a last raw line that decodes to the
   empty string -- the lines of the text, then one blank line *)
Lemma next_raw_le_lf_end : next_raw Utf16LE [LF] = Some ([LF], []).
Proof. reflexivity. Qed.

(* ---------- BufReader::with_capacity(c, _), every capacity c >= 1 ---------- *)

Lemma faultless_repeat_chunk : forall c n, faultless (repeat (Chunk c) n).
Proof. intros c n k Hin. apply repeat_spec in Hin. discriminate. Qed.

Theorem bufreader_any_capacity : forall b c n,
  read_all_lines (mk_reader b (repeat (Chunk c) n)) = decode_stream b.
Proof.
  intros b c n. apply (read_all_lines_faultless decode_utf8_lossy_spec). apply faultless_repeat_chunk.
Qed.

(* TimingPointsValues: what an accepted [TimingPoints] line contributes
   (T12c NaN beat lengths, T12d defaults of omitted fields) and the value
   invariants of the resulting control points (T12b). *)
From RM Require Import Model.TimingPoints Proofs.BSearch Proofs.ControlPointsFacts
  Proofs.TPFloatFacts Proofs.TPKeyOrder Proofs.TimingPointsFacts.
From RM Require Import Gen.Generated.
From Coq Require Import Sorting.Sorted.
Require Import ZifyBool.
Open Scope Z_scope.

(* ---------- the clamp bounds, as floats ---------- *)

Definition bl_lo : F64 := dec64 (fst beat_len_clamp).
Definition bl_hi : F64 := dec64 (snd beat_len_clamp).
Definition sv_lo : F64 := dec64 (fst slider_velocity_clamp).
Definition sv_hi : F64 := dec64 (snd slider_velocity_clamp).
Definition sc_lo : F64 := dec64 (fst scroll_speed_clamp).
Definition sc_hi : F64 := dec64 (snd scroll_speed_clamp).
Definition vol_lo : Z := fst sample_volume_clamp.
Definition vol_hi : Z := snd sample_volume_clamp.

(* lo <= x <= hi as IEEE comparisons (hence x is not a NaN) *)
Definition in_range (lo hi x : F64) : Prop := D.le lo x = true /\ D.le x hi = true.

Lemma bl_bounds : D.le bl_lo bl_hi = true. Proof. vm_compute. reflexivity. Qed.
Lemma sv_bounds : D.le sv_lo sv_hi = true. Proof. vm_compute. reflexivity. Qed.
Lemma sc_bounds : D.le sc_lo sc_hi = true. Proof. vm_compute. reflexivity. Qed.
Lemma vol_bounds : vol_lo <= vol_hi. Proof. vm_compute. discriminate. Qed.
Lemma one_in_sv : D.lt D.one sv_lo = false /\ D.gt D.one sv_hi = false.
Proof. split; vm_compute; reflexivity. Qed.
Lemma one_in_sc : D.le sc_lo D.one = true /\ D.le D.one sc_hi = true.
Proof. split; vm_compute; reflexivity. Qed.
Lemma one_not_nan : D.is_nan D.one = false. Proof. vm_compute. reflexivity. Qed.
Lemma speed_num_strict : is_finite_strict (dec64 tp_speed_num_dec) = true.
Proof. vm_compute. reflexivity. Qed.

Lemma clamp_in_range x lo hi :
  D.le lo hi = true -> D.is_nan x = false -> in_range lo hi (D.clamp x lo hi).
Proof. intros H1 H2. exact (fclamp_t_range 53 1024 x lo hi H1 H2). Qed.

Lemma zclamp_range x lo hi : lo <= hi -> lo <= zclamp x lo hi <= hi.
Proof. unfold zclamp. intros H. destruct (x <? lo) eqn:E1; [lia|]. destruct (hi <? x) eqn:E2; lia. Qed.

(* ---------- the field grammar, by position ---------- *)

(* the same parser reading field i as [o i]; [None] = field absent *)
Definition parse_opts (g : tp_general) (o : nat -> option str) : option tp_line :=
  obnd (o 0%nat) (fun s0 => obnd (o 1%nat) (fun s1 =>
  obnd (pn_f64 s0) (fun time =>
  obnd (f_beat s1) (fun beat =>
  obnd (f_sig (o 2%nat)) (fun sig =>
  obnd (f_bank g (o 3%nat)) (fun bank0 =>
  obnd (f_custom (o 4%nat)) (fun custom =>
  obnd (f_vol g (o 5%nat)) (fun vol =>
  obnd (f_flags (o 7%nat)) (fun '(kiai, omit) =>
  let tc := f_tc (o 6%nat) in
  if tc && D.is_nan beat then None
  else Some (mkLine time beat (speed_multiplier beat) sig
               (if bank0 =? bank_none then bank_normal else bank0) custom vol tc kiai omit)))))))))).

(* consuming the split iterator front to back = reading by position; fields
   after the eighth are ignored *)
Lemma parse_fields_nth g fs : parse_fields g fs = parse_opts g (nth_error fs).
Proof.
  destruct fs as [|a [|b [|c [|d [|e [|f [|h [|i rest]]]]]]]]; reflexivity.
Qed.

Lemma pn_f64_finite s t : pn_f64 s = Some t -> is_finite t = true.
Proof.
  unfold pn_f64, pn_f64_lim. destruct (parse_f64_raw (trim s)) as [n|]; [|discriminate].
  destruct (D.lt n _) eqn:E1; [discriminate|]. destruct (D.gt n _) eqn:E2; [discriminate|].
  destruct (D.is_nan n) eqn:E3; [discriminate|]. intros H; inversion H; subst t.
  destruct n as [s0|[|]| |s0 m e Hb]; try reflexivity; exfalso.
  - revert E1. vm_compute. discriminate.
  - revert E2. vm_compute. discriminate.
  - discriminate E3.
Qed.

(* facts about every accepted line *)
Definition line_ok (r : tp_line) : Prop :=
  (l_tc r = true -> D.is_nan (l_beat r) = false) /\
  l_speed r = speed_multiplier (l_beat r) /\
  l_bank r <> bank_none /\
  0 < l_sig r /\
  is_finite (l_time r) = true.

Lemma f_sig_pos o n : f_sig o = Some n -> 0 < n.
Proof.
  assert (Hd : 0 < tp_default_signature) by reflexivity.
  assert (Hn : forall s, obnd (pn_i32 s) time_signature_new = Some n -> 0 < n).
  { intros s. destruct (pn_i32 s) as [k|]; [|discriminate]. cbn [obnd]. unfold time_signature_new.
    destruct (0 <? k) eqn:E; [|discriminate]. intros H; inversion H; subst. lia. }
  destruct o as [[|c s]|]; cbn [f_sig].
  - apply Hn.
  - destruct (c =? tp_sig_skip_char); [intros H; inversion H; subst; exact Hd | apply Hn].
  - intros H; inversion H; subst; exact Hd.
Qed.

Lemma parse_opts_ok g o r : parse_opts g o = Some r -> line_ok r.
Proof.
  unfold parse_opts. intros H.
  repeat match type of H with
         | obnd ?x _ = Some _ => destruct x eqn:?; cbn [obnd] in H; [|discriminate H]
         end.
  destruct p as [kiai omit]. cbv zeta in H.
  destruct (f_tc (o 6%nat) && D.is_nan f0) eqn:E; [discriminate|].
  inversion H; subst; clear H. unfold line_ok; cbn [l_tc l_beat l_speed l_bank l_sig].
  repeat split.
  - intros Htc. rewrite Htc in E. exact E.
  - destruct (z0 =? bank_none) eqn:Eb; [discriminate | lia].
  - eapply f_sig_pos; eassumption.
  - eapply pn_f64_finite; eassumption.
Qed.

Lemma parse_tp_line_ok g line r : parse_tp_line g line = Some r -> line_ok r.
Proof. unfold parse_tp_line. rewrite parse_fields_nth. apply parse_opts_ok. Qed.

(* ---------- T12c: NaN beat lengths ---------- *)

Lemma nan_timing_rejected g line r :
  parse_tp_line g line = Some r -> l_tc r = true -> D.is_nan (l_beat r) = false.
Proof. intros H. exact (proj1 (parse_tp_line_ok _ _ _ H)). Qed.

Lemma speed_multiplier_nan beat : D.is_nan beat = true -> speed_multiplier beat = D.one.
Proof. intros H. apply is_nan_true in H. subst beat. reflexivity. Qed.

Lemma clamp_one_sv : D.clamp D.one sv_lo sv_hi = D.one.
Proof. apply fclamp_t_id; apply one_in_sv. Qed.

Lemma nan_inherited g line r :
  parse_tp_line g line = Some r -> D.is_nan (l_beat r) = true ->
  l_tc r = false /\ line_dp r = mkDP (l_time r) D.one false.
Proof.
  intros H Hn. destruct (parse_tp_line_ok _ _ _ H) as (Htc & Hsp & _). split.
  - destruct (l_tc r); [|reflexivity]. rewrite Htc in Hn by reflexivity. discriminate.
  - unfold line_dp, dp_new. rewrite Hsp, (speed_multiplier_nan _ Hn), Hn.
    fold sv_lo sv_hi. rewrite clamp_one_sv. reflexivity.
Qed.

(* ticks are switched off by a NaN beat length and by nothing else *)
Lemma ticks_iff_not_nan r : dp_ticks (line_dp r) = negb (D.is_nan (l_beat r)).
Proof. reflexivity. Qed.

Lemma speed_not_nan beat : D.is_nan (speed_multiplier beat) = false.
Proof.
  unfold speed_multiplier. destruct (D.lt beat D.zero) eqn:E; [|exact one_not_nan].
  unfold D.div, fdiv. apply Bdiv_const_not_nan; [exact speed_num_strict|].
  unfold D.neg, fneg. rewrite is_nan_Bopp. destruct beat; try reflexivity. discriminate E.
Qed.

(* ---------- the value predicates of T12b ---------- *)

Definition good_tp (p : TimingPoint) : Prop :=
  in_range bl_lo bl_hi (tp_beat_len p) /\ 0 < tp_sig p /\ is_finite (tp_time p) = true.
Definition good_dp (p : DifficultyPoint) : Prop :=
  in_range sv_lo sv_hi (dp_sv p) /\ is_finite (dp_time p) = true.
Definition good_ep (mode : Z) (p : EffectPoint) : Prop :=
  in_range sc_lo sc_hi (ep_scroll p) /\ (scroll_mode mode = false -> ep_scroll p = D.one) /\
  is_finite (ep_time p) = true.
Definition good_sp (p : SamplePoint) : Prop :=
  vol_lo <= sp_vol p <= vol_hi /\ sp_bank p <> bank_none /\ is_finite (sp_time p) = true.

Definition cp_good (mode : Z) (c : ControlPoints) : Prop :=
  Forall good_tp (cp_timing c) /\ Forall good_dp (cp_difficulty c) /\
  Forall (good_ep mode) (cp_effect c) /\ Forall good_sp (cp_sample c).

Definition op_good (mode : Z) (o : cp_op) : Prop :=
  match o with
  | OpAddT p => good_tp p | OpAddD p => good_dp p
  | OpAddE p => good_ep mode p | OpAddS p => good_sp p
  end.

Lemma good_line_tp r : line_ok r -> l_tc r = true -> good_tp (line_tp r).
Proof.
  intros (Hn & _ & _ & Hs & Hf) Htc. split; [|exact (conj Hs Hf)].
  apply clamp_in_range; [exact bl_bounds | exact (Hn Htc)].
Qed.

Lemma good_line_dp r : line_ok r -> good_dp (line_dp r).
Proof.
  intros (_ & Hsp & _ & _ & Hf). split; [|exact Hf]. apply clamp_in_range; [exact sv_bounds|].
  rewrite Hsp. apply speed_not_nan.
Qed.

Lemma good_line_ep mode r : line_ok r -> good_ep mode (line_ep mode r).
Proof.
  intros (_ & Hsp & _ & _ & Hf). unfold good_ep, line_ep.
  destruct (scroll_mode mode); cbn [ep_scroll ep_time ep_new].
  - split; [|split; [discriminate|exact Hf]].
    apply clamp_in_range; [exact sc_bounds|]. rewrite Hsp. apply speed_not_nan.
  - split; [exact one_in_sc | split; [reflexivity|exact Hf]].
Qed.

Lemma good_line_sp r : line_ok r -> good_sp (line_sp r).
Proof.
  intros (_ & _ & Hb & _ & Hf). split; [apply zclamp_range; exact vol_bounds | exact (conj Hb Hf)].
Qed.

(* ---------- adds keep the value predicates ---------- *)

Lemma Forall_put {A} (G R : A -> Prop) l l1 l2 p :
  Forall G l -> G p -> (l = l1 ++ l2 \/ exists q, l = l1 ++ q :: l2 /\ R q) ->
  Forall G (l1 ++ p :: l2).
Proof.
  intros Hl Hp [->|(q & -> & _)]; apply Forall_app in Hl; destruct Hl as (H1 & H2);
    apply Forall_app; split; auto.
  inversion H2; subst. constructor; assumption.
Qed.

Lemma cp_step_good mode c o :
  cp_sorted c -> cp_good mode c -> op_good mode o ->
  exists c', cp_step c o = Done c' /\ cp_sorted c' /\ cp_good mode c'.
Proof.
  intros Hs (Gt & Gd & Ge & Gs) Ho.
  destruct (cp_step_sorted c o Hs) as (c' & E & Hs'). exists c'. split; [exact E|]. split; [exact Hs'|].
  destruct o as [p|p|p|p]; cbn [cp_step op_good] in *.
  - destruct (add_timing_spec c p Hs) as (l1 & l2 & E' & _ & _ & Hl).
    rewrite E' in E. inversion E; subst c'. repeat split; cbn; auto.
    eapply (Forall_put _ (fun q => K tp_time q = K tp_time p)); eauto.
  - pose proof (add_difficulty_spec c p Hs) as H.
    destruct (dp_redundant p _).
    + rewrite H in E. inversion E; subst c'. repeat split; assumption.
    + destruct H as (l1 & l2 & E' & _ & _ & Hl).
      rewrite E' in E. inversion E; subst c'. repeat split; cbn; auto.
      eapply (Forall_put _ (fun q => K dp_time q = K dp_time p)); eauto.
  - pose proof (add_effect_spec c p Hs) as H.
    destruct (ep_redundant p _).
    + rewrite H in E. inversion E; subst c'. repeat split; assumption.
    + destruct H as (l1 & l2 & E' & _ & _ & Hl).
      rewrite E' in E. inversion E; subst c'. repeat split; cbn; auto.
      eapply (Forall_put _ (fun q => K ep_time q = K ep_time p)); eauto.
  - pose proof (add_sample_spec c p Hs) as H.
    destruct (match last_not_after sp_time (cp_sample c) (sp_time p) with
              | Some e => sp_redundant p e | None => false end).
    + rewrite H in E. inversion E; subst c'. repeat split; assumption.
    + destruct H as (l1 & l2 & E' & _ & _ & Hl).
      rewrite E' in E. inversion E; subst c'. repeat split; cbn; auto.
      eapply (Forall_put _ (fun q => K sp_time q = K sp_time p)); eauto.
Qed.

Lemma cp_run_good mode ops : forall c,
  cp_sorted c -> cp_good mode c -> Forall (op_good mode) ops ->
  exists c', cp_run c ops = Done c' /\ cp_sorted c' /\ cp_good mode c'.
Proof.
  induction ops as [|o ops IH]; intros c Hs Hg Ho; cbn [cp_run].
  - exists c. auto.
  - inversion Ho; subst.
    destruct (cp_step_good mode c o Hs Hg) as (c1 & -> & Hs1 & Hg1); [assumption|].
    cbn [obind]. apply IH; assumption.
Qed.

Lemma cp_empty_good mode : cp_good mode cp_empty.
Proof. repeat split; constructor. Qed.

(* ---------- the adds of the specification are good ---------- *)

Lemma last_opt_In {A} (l : list A) x : last_opt l = Some x -> In x l.
Proof.
  induction l as [|a l IH]; [discriminate|]. destruct l as [|b l].
  - intros H; inversion H; left; reflexivity.
  - intros H. right. apply IH. exact H.
Qed.

Lemma hd_error_In {A} (l : list A) x : hd_error l = Some x -> In x l.
Proof. destruct l; [discriminate|]. intros H; inversion H; left; reflexivity. Qed.

Lemma timing_winner_In run w : timing_winner run = Some w -> In w run /\ l_tc w = true.
Proof. intros H. apply hd_error_In in H. apply filter_In in H. exact H. Qed.

Lemma winner_In run w : winner run = Some w -> In w run.
Proof.
  unfold winner. destruct (last_opt (filter inherited run)) eqn:E.
  - intros H; inversion H; subst. apply last_opt_In in E. apply filter_In in E. apply E.
  - intros H. apply timing_winner_In in H. apply H.
Qed.

Lemma run_ops_good mode run : Forall line_ok run -> Forall (op_good mode) (run_ops mode run).
Proof.
  intros Hok. rewrite Forall_forall in Hok. unfold run_ops. apply Forall_app. split.
  - destruct (timing_winner run) as [w|] eqn:E; [|constructor].
    destruct (timing_winner_In _ _ E) as (Hin & Htc).
    constructor; [|constructor]. apply good_line_tp; auto.
  - destruct (winner run) as [w|] eqn:E; [|constructor].
    pose proof (Hok _ (winner_In _ _ E)) as Hw.
    constructor; [exact (good_line_dp _ Hw)|].
    constructor; [exact (good_line_ep mode _ Hw)|].
    constructor; [exact (good_line_sp _ Hw)|constructor].
Qed.

Lemma accepted_ok g lines : Forall line_ok (accepted g lines).
Proof.
  apply Forall_forall. intros r Hin. unfold accepted in Hin. apply in_flat_map in Hin.
  destruct Hin as (l & _ & Hr). destruct (parse_tp_line g l) as [r'|] eqn:E; [|destruct Hr].
  destruct Hr as [->|[]]. eapply parse_tp_line_ok; eassumption.
Qed.

Lemma spec_ops_good g lines : Forall (op_good (tpg_mode g)) (spec_ops g lines).
Proof.
  unfold spec_ops. apply Forall_forall. intros o Hin. apply in_flat_map in Hin.
  destruct Hin as (run & Hrun & Ho).
  assert (Hok : Forall line_ok run).
  { apply Forall_forall. intros r Hr.
    pose proof (accepted_ok g lines) as Hacc. rewrite Forall_forall in Hacc. apply Hacc.
    rewrite <- (concat_runs (accepted g lines)). apply in_concat. exists run. auto. }
  pose proof (run_ops_good (tpg_mode g) run Hok) as H. rewrite Forall_forall in H. apply H. exact Ho.
Qed.

(* T12b (with T12a): the decoder never panics; its result is that of the
   specification, strictly sorted, with every value inside its clamp *)
Lemma tp_decode_good g lines :
  exists c, tp_decode g lines = Done (c, spec_results g lines) /\
            legacy_spec g lines = Done c /\
            cp_sorted c /\ cp_good (tpg_mode g) c.
Proof.
  destruct (cp_run_good (tpg_mode g) (spec_ops g lines) cp_empty cp_empty_sorted
              (cp_empty_good _) (spec_ops_good g lines)) as (c & E & Hs & Hg).
  exists c. rewrite tp_decode_spec. unfold legacy_spec. rewrite E. auto.
Qed.

(* ---------- "|dt| < eps": the run test on accepted times ---------- *)

Lemma sub_finite_not_nan (a b : F64) :
  is_finite a = true -> is_finite b = true -> D.is_nan (D.sub a b) = false.
Proof.
  intros Ha Hb. unfold D.sub, fsub.
  pose proof (Bminus_correct 53 1024 Hp64 He64 mode_NE a b Ha Hb) as H.
  destruct (Raux.Rlt_bool _ _) in H.
  - destruct H as (_ & Hf & _). destruct (Bminus _ _ _); try discriminate; reflexivity.
  - destruct H as (H & _). unfold D.is_nan, fis_nan. rewrite <- is_nan_SF_B2SF, H.
    apply is_nan_binary_overflow.
Qed.

(* on finite times the code's negated >= test is the property's < test *)
Lemma same_time_near (t2 t1 : F64) :
  is_finite t2 = true -> is_finite t1 = true -> same_time t2 t1 = near t2 t1.
Proof.
  intros H2 H1. unfold same_time, time_changed, near, D.ge, fge, D.lt, flt.
  apply negb_Bleb_Bltb; [|vm_compute; reflexivity].
  unfold D.abs, fabs. rewrite is_nan_Babs. apply sub_finite_not_nan; assumption.
Qed.

Lemma parse_opts_time_finite g o r : parse_opts g o = Some r -> is_finite (l_time r) = true.
Proof.
  unfold parse_opts. intros H.
  repeat match type of H with
         | obnd ?x _ = Some _ => destruct x eqn:?; cbn [obnd] in H; [|discriminate H]
         end.
  destruct p as [kiai omit]. cbv zeta in H.
  destruct (f_tc (o 6%nat) && D.is_nan f0); [discriminate|].
  inversion H; subst; cbn [l_time]. eapply pn_f64_finite; eassumption.
Qed.

Lemma accepted_time_finite g line r : parse_tp_line g line = Some r -> is_finite (l_time r) = true.
Proof. unfold parse_tp_line. rewrite parse_fields_nth. apply parse_opts_time_finite. Qed.

(* ---------- T12d ---------- *)

Lemma field_defaults g :
  f_sig None = Some 4 /\ f_bank g None = Some (tpg_bank g) /\ f_custom None = Some 0 /\
  f_vol g None = Some (tpg_volume g) /\ f_tc None = true /\ f_flags None = Some (false, false) /\
  (forall s, f_sig (Some (48 :: s)) = Some 4) /\
  (forall s, f_tc (Some s) = match s with 49 :: _ => true | _ => false end).
Proof.
  repeat split; try reflexivity.
Qed.

Lemma two_field_line g t b :
  parse_fields g [t; b] =
  obnd (pn_f64 t) (fun time => obnd (f_beat b) (fun beat =>
  if D.is_nan beat then None
  else Some (mkLine time beat (speed_multiplier beat) 4
               (if tpg_bank g =? bank_none then bank_normal else tpg_bank g) 0 (tpg_volume g)
               true false false))).
Proof. reflexivity. Qed.

(* ---------- numeric order, outside the known finding D8 ---------- *)

(* the narrow class of D8: both zeros occur among the times *)
Definition mixed_zero (ts : list F64) : Prop :=
  In (B754_zero true : F64) ts /\ In (B754_zero false : F64) ts.

Definition num_sorted (ts : list F64) : Prop := StronglySorted (fun a b => D.lt a b = true) ts.

Lemma sorted_numeric {P} (time : P -> F64) (l : list P) :
  sorted time l -> Forall (fun p => is_finite (time p) = true) l ->
  ~ mixed_zero (map time l) -> num_sorted (map time l).
Proof.
  unfold sorted, num_sorted. induction l as [|a l IH]; intros Hs Hf Hm; [constructor|].
  cbn [map] in *. inversion Hs as [|? ? Hs1 Hs2]; subst. inversion Hf as [|? ? Hfa Hfl]; subst.
  constructor.
  - apply IH; [exact Hs1 | exact Hfl|]. intros (H1 & H2). apply Hm. split; right; assumption.
  - rewrite Forall_forall in *. intros t Ht. apply in_map_iff in Ht. destruct Ht as (b & <- & Hb).
    assert (Hk : K time a < K time b) by (apply Hs2; apply in_map; exact Hb).
    destruct (TPKeyOrder.key_lt_num (time a) (time b)) as [H|(H1 & H2)]; auto.
    + destruct (time a); try discriminate Hfa; reflexivity.
    + specialize (Hfl b Hb). destruct (time b); try discriminate Hfl; reflexivity.
    + exfalso. apply Hm. split; [left; exact H1 | right; rewrite <- H2; apply in_map; exact Hb].
Qed.

Lemma good_times mode c : cp_good mode c ->
  Forall (fun p => is_finite (tp_time p) = true) (cp_timing c) /\
  Forall (fun p => is_finite (dp_time p) = true) (cp_difficulty c) /\
  Forall (fun p => is_finite (ep_time p) = true) (cp_effect c) /\
  Forall (fun p => is_finite (sp_time p) = true) (cp_sample c).
Proof.
  intros (H1 & H2 & H3 & H4).
  repeat split; (eapply Forall_impl; [|eassumption]); cbv beta; intros p Hp;
    [destruct Hp as (_ & _ & H) | destruct Hp as (_ & H) | destruct Hp as (_ & _ & H) | destruct Hp as (_ & _ & H)];
    exact H.
Qed.

(* every list of the decoder's result is numerically strictly increasing
   unless it holds points at both -0.0 and +0.0 *)
Lemma tp_decode_numeric g lines :
  exists c, tp_decode g lines = Done (c, spec_results g lines) /\
    (~ mixed_zero (map tp_time (cp_timing c)) -> num_sorted (map tp_time (cp_timing c))) /\
    (~ mixed_zero (map dp_time (cp_difficulty c)) -> num_sorted (map dp_time (cp_difficulty c))) /\
    (~ mixed_zero (map ep_time (cp_effect c)) -> num_sorted (map ep_time (cp_effect c))) /\
    (~ mixed_zero (map sp_time (cp_sample c)) -> num_sorted (map sp_time (cp_sample c))).
Proof.
  destruct (tp_decode_good g lines) as (c & E & _ & (St & Sd & Se & Ss) & Hg).
  destruct (good_times _ _ Hg) as (Ft & Fd & Fe & Fs).
  exists c. split; [exact E|].
  repeat split; intros Hm; apply sorted_numeric; assumption.
Qed.

(* Float facts used by C14: signs of the durations, the length rule, the
   position bound.  Case analysis on Flocq's constructors where possible,
   Flocq's correctness theorems (Bleb_correct, Bltb_correct, Bminus_correct,
   Btrunc_correct) where real arithmetic is needed. *)
From RM Require Import Model.Text Model.Num Model.PathString.
From RM Require Import Gen.Generated.
From Coq Require Import ZifyBool Reals Lra.
From Flocq Require Import Core.
From Flocq Require Import BinarySingleNaN.
Open Scope Z_scope.

(* ---------- [x.max(0.0)] is never below zero ---------- *)
Lemma max_lit_zero_nonneg : forall x, D.le D.zero (f64_max_lit x D.zero) = true.
Proof.
  intros x. unfold f64_max_lit, D.is_nan, D.lt, D.le, D.zero, fis_nan, flt, fle, fzero.
  destruct x as [s|s| |s m e H]; try destruct s; reflexivity.
Qed.

(* ---------- the length rule ---------- *)
Lemma eps_sf : B2SF D.eps = SpecFloat.S754_finite false 4503599627370496 (-104).
Proof. vm_compute. reflexivity. Qed.

Lemma ge_eps_cases : forall x,
  D.ge x D.eps = match x with
                 | B754_zero _ => false
                 | B754_infinity s => negb s
                 | B754_nan => false
                 | B754_finite true _ _ _ => false
                 | B754_finite false m e _ => SpecFloat.SFleb (SpecFloat.S754_finite false 4503599627370496 (-104))
                                                    (SpecFloat.S754_finite false m e)
                 end.
Proof.
  intros x. unfold D.ge, fge, Bleb. rewrite eps_sf.
  destruct x as [s|s| |s m e H]; try destruct s; reflexivity.
Qed.

Lemma length_rule : forall v,
  (let new_len := f64_max_lit v D.zero in
   if D.ge (D.abs new_len) D.eps then Some new_len else None)
  = (if D.ge v D.eps then Some v else None).
Proof.
  intros v. cbv zeta. rewrite !ge_eps_cases.
  unfold f64_max_lit, D.is_nan, D.lt, D.abs, D.zero, fis_nan, flt, fabs, fzero.
  destruct v as [s|s| |s m e H]; try destruct s; reflexivity.
Qed.

(* an accepted length is at least eps, hence positive *)
Lemma ge_eps_pos : forall v, D.ge v D.eps = true -> D.lt D.zero v = true.
Proof.
  intros v. rewrite ge_eps_cases. unfold D.lt, D.zero, flt, fzero.
  destruct v as [s|s| |s m e H]; try destruct s; try discriminate; reflexivity.
Qed.

(* ---------- ParseNumber results are finite ---------- *)
Lemma pn_f64_lim_finite : forall lim s v,
  is_finite lim = true -> pn_f64_lim lim s = Some v -> is_finite v = true.
Proof.
  intros lim s v Hl. unfold pn_f64_lim.
  destruct (parse_f64_raw (trim s)) as [n|]; [|discriminate].
  destruct (D.lt n (D.neg lim)) eqn:El; [discriminate|].
  destruct (D.gt n lim) eqn:Eg; [discriminate|].
  destruct (D.is_nan n) eqn:En; [discriminate|]. intros [= <-].
  unfold D.lt, D.gt, D.neg, D.is_nan, flt, fgt, fneg, fis_nan in *.
  destruct n as [sn|sn| |sn mn en Hn]; try reflexivity; try discriminate.
  destruct lim as [sl|sl| |sl ml el Hlim]; try discriminate; destruct sn; try destruct sl; discriminate.
Qed.

Lemma pn_f32_lim_finite : forall lim s v,
  is_finite lim = true -> pn_f32_lim lim s = Some v -> is_finite v = true.
Proof.
  intros lim s v Hl. unfold pn_f32_lim.
  destruct (parse_f32_raw (trim s)) as [n|]; [|discriminate].
  destruct (S.lt n (S.neg lim)) eqn:El; [discriminate|].
  destruct (S.gt n lim) eqn:Eg; [discriminate|].
  destruct (S.is_nan n) eqn:En; [discriminate|]. intros [= <-].
  unfold S.lt, S.gt, S.neg, S.is_nan, flt, fgt, fneg, fis_nan in *.
  destruct n as [sn|sn| |sn mn en Hn]; try reflexivity; try discriminate.
  destruct lim as [sl|sl| |sl ml el Hlim]; try discriminate; destruct sn; try destruct sl; discriminate.
Qed.

Lemma max_parse_f64_finite : is_finite (D.of_Z max_parse_value) = true.
Proof. vm_compute. reflexivity. Qed.
Lemma coord_lim32_finite : is_finite coord_lim32 = true.
Proof. vm_compute. reflexivity. Qed.

Lemma pn_f64_finite : forall s v, pn_f64 s = Some v -> is_finite v = true.
Proof. intros s v. apply pn_f64_lim_finite. exact max_parse_f64_finite. Qed.

(* ---------- hold duration: max(start, e) - start is never below zero ---------- *)
Lemma finite_nonneg_le : forall r : F64, is_finite r = true -> (0 <= B2R r)%R -> D.le D.zero r = true.
Proof.
  intros r Hf Hr. unfold D.le, fle, D.zero, fzero.
  rewrite Bleb_correct by (try assumption; reflexivity).
  cbn [B2R]. apply Rle_bool_true. exact Hr.
Qed.

Lemma sign_B2R : forall x : F64, is_finite x = true ->
  (Bsign x = true -> (B2R x <= 0)%R) /\ (Bsign x = false -> (0 <= B2R x)%R).
Proof.
  intros x Hf. destruct x as [s|s| |s m e H]; try discriminate; cbn [B2R Bsign].
  - split; intros _; lra.
  - split; intros ->; cbn [cond_Zopp].
    + apply F2R_le_0. cbn. apply Pos2Z.neg_is_nonpos.
    + apply F2R_ge_0. cbn. apply Pos2Z.pos_is_nonneg.
Qed.

Lemma sub_nonneg : forall a b : F64, is_finite a = true -> is_finite b = true ->
  (B2R a <= B2R b)%R -> D.le D.zero (D.sub b a) = true.
Proof.
  intros a b Fa Fb Hab. unfold D.sub, fsub.
  pose proof (Bminus_correct 53 1024 Hp64 He64 mode_NE b a Fb Fa) as H.
  destruct (Rlt_bool _ _) eqn:E.
  - destruct H as (HR & HF & _). apply finite_nonneg_le; [exact HF|].
    rewrite HR.
    apply (@round_ge_generic radix2 (SpecFloat.fexp 53 1024) (fexp_correct 53 1024 Hp64)
                             (round_mode mode_NE) (valid_rnd_round_mode mode_NE));
      [apply generic_format_0|lra].
  - destruct H as (HS & Hsg).
    assert (Hb : Bsign b = false).
    { destruct (Bsign b) eqn:Eb; [|reflexivity]. exfalso.
      destruct (sign_B2R b Fb) as [Hb1 _]. destruct (sign_B2R a Fa) as [_ Ha2].
      specialize (Hb1 Eb). assert (Ea : Bsign a = false) by (destruct (Bsign a); [discriminate|reflexivity]).
      specialize (Ha2 Ea).
      (* then a = b = 0 as reals, so no overflow: contradiction with E *)
      assert (B2R b - B2R a = 0)%R by lra.
      rewrite H, round_0, Rabs_R0 in E.
      destruct (Rlt_bool_spec 0 (bpow radix2 1024)) as [_|Hc]; [discriminate|].
      - pose proof (bpow_gt_0 radix2 1024). lra.
      - apply valid_rnd_round_mode. }
    rewrite Hb in HS. unfold binary_overflow, overflow_to_inf in HS.
    destruct (Bminus mode_NE b a) as [s|s| |s m e Hm]; try discriminate.
    injection HS as ->. reflexivity.
Qed.

Lemma hold_duration_nonneg : forall start e : F64,
  is_finite start = true -> is_finite e = true ->
  D.le D.zero (D.sub (D.max start e) start) = true.
Proof.
  intros a e Fa Fe. unfold D.max, fmax.
  assert (Ha : fis_nan 53 1024 a = false) by (destruct a; try discriminate; reflexivity).
  assert (He : fis_nan 53 1024 e = false) by (destruct e; try discriminate; reflexivity).
  rewrite Ha, He.
  destruct (flt 53 1024 a e) eqn:E.
  - apply sub_nonneg; try assumption.
    unfold flt in E. rewrite Bltb_correct in E by assumption.
    destruct (Rlt_bool_spec (B2R a) (B2R e)) as [Hlt|Hge]; [lra|discriminate].
  - apply sub_nonneg; try assumption. lra.
Qed.

(* ---------- positions: truncated to an integer within +-MAX_COORDINATE_VALUE ---------- *)
Lemma coord_lim32_B2R : B2R coord_lim32 = IZR max_coordinate_value.
Proof.
  rewrite <- SF2R_B2SF.
  replace (B2SF coord_lim32) with (SpecFloat.S754_finite false 8388608 (-6)) by (vm_compute; reflexivity).
  unfold SF2R, F2R, max_coordinate_value. cbn. lra.
Qed.

Lemma coord_trunc_bound : forall s v, pn_f32_lim coord_lim32 s = Some v ->
  f32_as_i32 v = Btrunc v /\ - max_coordinate_value <= Btrunc v <= max_coordinate_value.
Proof.
  intros s v H.
  pose proof (pn_f32_lim_finite _ _ _ coord_lim32_finite H) as Fv.
  unfold pn_f32_lim in H.
  destruct (parse_f32_raw (trim s)) as [n|]; [|discriminate].
  destruct (S.lt n (S.neg coord_lim32)) eqn:El; [discriminate|].
  destruct (S.gt n coord_lim32) eqn:Eg; [discriminate|].
  destruct (S.is_nan n); [discriminate|]. injection H as ->.
  unfold S.lt, S.gt, S.neg, flt, fgt, fneg in El, Eg.
  rewrite Bltb_correct in El, Eg
    by (try assumption; try (rewrite is_finite_Bopp); exact coord_lim32_finite).
  rewrite B2R_Bopp, coord_lim32_B2R in El. rewrite coord_lim32_B2R in Eg.
  destruct (Rlt_bool_spec (B2R v) (- IZR max_coordinate_value)) as [|Hlo]; [discriminate|].
  destruct (Rlt_bool_spec (IZR max_coordinate_value) (B2R v)) as [|Hhi]; [discriminate|].
  assert (Ht : Btrunc v = Ztrunc (B2R v)).
  { apply eq_IZR. rewrite Btrunc_correct, round_FIX_IZR; [reflexivity|exact He32]. }
  assert (Hb : - max_coordinate_value <= Btrunc v <= max_coordinate_value).
  { rewrite Ht. split.
    - rewrite <- (Ztrunc_IZR (- max_coordinate_value)). apply Ztrunc_le. rewrite opp_IZR. exact Hlo.
    - rewrite <- (Ztrunc_IZR max_coordinate_value). apply Ztrunc_le. exact Hhi. }
  split; [|exact Hb].
  unfold f32_as_i32, S.to_int_sat, to_int_sat, i32_min, i32_max.
  change (2 ^ 31) with 2147483648. unfold max_coordinate_value in Hb.
  destruct v as [sv|sv| |sv mv ev Hv]; try discriminate; cbv zeta;
    match goal with |- context [Btrunc ?x] => set (t := Btrunc x) in * end;
    repeat match goal with |- context [?a <? ?b] => replace (a <? b) with false by lia end;
    reflexivity.
Qed.

(* SliderEventsRound: binary64 error analysis of the tick loop of
   generate_ticks (T20c).

   The j-th tick distance is the running sum  d_j = (..((td + td) + td).. + td)
   (j correctly rounded additions).  Every partial sum that becomes a tick
   passed the loop guard  d <= len , so it lies in (0, len] and the rounding
   error of the addition that produced it is at most half an ulp of len.
   Hence
       | d_j - (j+1) * td |  <=  j * ulp(len) / 2
   and for the progress value  p_j = d_j / len  (one more rounding, of a
   quotient in (0, 1]):
       | p_j - (j+1) * td / len |  <=  j * ulp(len) / (2 * len) + 2^-53 .
   Nothing is assumed about td beyond what the loop itself tests: a tick
   exists only if  0.0 < td  and  td <= len , which with a finite len makes td
   finite and positive. *)
From RM Require Import Model.SliderEvents Proofs.SliderEventsFacts Proofs.SliderEventsMono
     Proofs.FloatNonneg Proofs.TickBound.
From Flocq Require Import Core BinarySingleNaN.
From Coq Require Import Reals Lra Lia ZArith List.
Import ListNotations.
Open Scope R_scope.

Local Notation fin x := (is_finite x = true).
Local Notation fexp64 := (SpecFloat.fexp 53 1024).
Local Notation RN := (round radix2 fexp64 (round_mode mode_NE)).

Local Instance Hp64r : Prec_gt_0 53 := Hp64.
Local Instance He64r : Prec_lt_emax 53 1024 := He64.
Local Instance valid64r : Valid_exp fexp64 := fexp_correct 53 1024 Hp64.
Local Instance mono64r : Monotone_exp fexp64.
Proof. change fexp64 with (FLT_exp (3 - 1024 - 53) 53). apply FLT_exp_monotone. Qed.

(* unit in the last place of a real number in binary64, and powers of two *)
Definition ulp64 (x : R) : R := ulp radix2 fexp64 x.
Definition pow2 (k : Z) : R := bpow radix2 k.

(* ---------- rounding to nearest: half an ulp ---------- *)

Lemma RN_err (x : R) : Rabs (RN x - x) <= / 2 * ulp64 (RN x).
Proof. unfold ulp64. apply error_le_half_ulp_round; typeclasses eauto. Qed.

Lemma RN_id (x : F64) : RN (B2R x) = B2R x.
Proof. apply round_generic; [apply valid_rnd_N | apply generic_format_B2R]. Qed.

Lemma RN_0 : RN 0 = 0.
Proof. apply round_0; typeclasses eauto. Qed.

Lemma RN_1 : RN 1 = 1.
Proof.
  apply round_generic; [apply valid_rnd_N|].
  replace 1 with (IZR 1 * bpow radix2 (- 0)) by (cbn; lra).
  apply dyadic_format; lia.
Qed.

Lemma ulp64_ge_0 x : 0 <= ulp64 x.
Proof. apply ulp_ge_0. Qed.

Lemma ulp64_le x y : Rabs x <= Rabs y -> ulp64 x <= ulp64 y.
Proof. apply ulp_le; typeclasses eauto. Qed.

Lemma ulp64_le_pos x y : 0 <= x -> x <= y -> ulp64 x <= ulp64 y.
Proof. apply ulp_le_pos; typeclasses eauto. Qed.

Lemma ulp64_1 : ulp64 1 = pow2 (-52).
Proof. unfold ulp64, pow2. change 1 with (bpow radix2 0). rewrite ulp_bpow. reflexivity. Qed.

(* relative form, for a normal number: ulp(x) <= 2^-52 * |x| *)
Lemma ulp64_rel x : pow2 (-1022) <= Rabs x -> ulp64 x <= pow2 (-52) * Rabs x.
Proof.
  intros H. unfold ulp64, pow2 in *.
  change fexp64 with (FLT_exp (3 - 1024 - 53) 53).
  rewrite Rmult_comm. apply (ulp_FLT_le radix2 (3 - 1024 - 53) 53). exact H.
Qed.

(* ---------- what the loop tests about the tick distance ---------- *)

(* 0.0 < td  and  td <= len  with a finite len: td is finite and positive *)
Lemma lt0_le_fin (td len : F64) :
  D.lt D.zero td = true -> D.le td len = true -> fin len -> fin td /\ 0 < B2R td.
Proof.
  intros H0 Hle Fl.
  destruct td as [s|s| |s m e Hb]; try (destruct s); try discriminate.
  - destruct len as [sl|sl| |sl ml el Hl]; try (destruct sl); discriminate.
  - split; [reflexivity|]. apply F2R_gt_0. reflexivity.
Qed.

Lemma nth_rsum_list (td : F64) (k j : nat) (dflt : F64) : (j < k)%nat ->
  nth j (map (rsum ops64 td td) (seq 0 k)) dflt = rsum ops64 td td j.
Proof.
  intros Hj. rewrite (nth_indep _ dflt (rsum ops64 td td 0%nat)) by (rewrite map_length, seq_length; exact Hj).
  rewrite (map_nth (rsum ops64 td td) (seq 0 k) 0%nat j). rewrite seq_nth by exact Hj. reflexivity.
Qed.

(* ---------- the running sum ---------- *)

Section RSum.
  Variables td len : F64.
  Hypothesis Ft : fin td.
  Hypothesis Ht : 0 < B2R td.
  Hypothesis Fl : fin len.

  Let U := / 2 * ulp64 (B2R len).

  Lemma td_nn : nn64 td = true.
  Proof. apply (@finite_R_nnb 53 1024); [exact Ft | lra]. Qed.

  (* as long as every partial sum up to the j-th passed  d <= len : *)
  Lemma rsum_error : forall j,
    (forall i, (i <= j)%nat -> D.le (rsum ops64 td td i) len = true) ->
    fin (rsum ops64 td td j) /\
    0 < B2R (rsum ops64 td td j) <= B2R len /\
    Rabs (B2R (rsum ops64 td td j) - INR (S j) * B2R td) <= INR j * U.
  Proof.
    induction j as [|j IH]; intros G.
    - cbn [rsum]. destruct (le_finite_nn td len Fl td_nn (G 0%nat (le_n _))) as (_ & Hle).
      split; [exact Ft|]. split; [lra|]. cbn [INR]. rewrite Rmult_1_l, Rmult_0_l.
      unfold Rminus. rewrite Rplus_opp_r, Rabs_R0. lra.
    - destruct (IH (fun i Hi => G i (Nat.le_trans _ _ _ Hi (Nat.le_succ_diag_r j)))) as (Fj & (Pj & Lj) & Ej).
      pose proof (G (S j) (le_n _)) as GS. rewrite rsum_S in *. cbn [ops64 f_add] in *.
      assert (Hnn : nn64 (D.add (rsum ops64 td td j) td) = true).
      { apply nn64_add; [apply rsum_nn; apply td_nn | apply td_nn]. }
      destruct (le_finite_nn _ len Fl Hnn GS) as (FS & LS).
      split; [exact FS|].
      rewrite (add_R _ _ Fj Ft FS) in *.
      set (x := B2R (rsum ops64 td td j) + B2R td) in *.
      assert (Hge : B2R (rsum ops64 td td j) <= RN x).
      { rewrite <- (RN_id (rsum ops64 td td j)). apply RN_le. unfold x. lra. }
      split; [lra|].
      assert (Hu : / 2 * ulp64 (RN x) <= U).
      { unfold U. apply Rmult_le_compat_l; [lra|]. apply ulp64_le_pos; lra. }
      pose proof (RN_err x) as He.
      replace (RN x - INR (S (S j)) * B2R td)
        with ((RN x - x) + (B2R (rsum ops64 td td j) - INR (S j) * B2R td))
        by (unfold x; rewrite (S_INR (S j)); ring).
      eapply Rle_trans; [apply Rabs_triang|].
      replace (INR (S j) * U) with (U + INR j * U) by (rewrite (S_INR j); ring).
      apply Rplus_le_compat; [lra | exact Ej].
  Qed.
End RSum.

(* ---------- T20c (1): tick j lies at (j+1) * tick_dist up to j half-ulps of len ---------- *)

(* [dists_ok] is what C20_shape says about the tick distances of a stream *)
Theorem tick_distance_error (len mdfe td : F64) (ds : list F64) :
  fin len -> dists_ok ops64 len mdfe td ds ->
  forall j, (j < length ds)%nat ->
  let d := nth j ds D.zero in
  fin td /\ 0 < B2R td /\
  d = rsum ops64 td td j /\ fin d /\ 0 < B2R d <= B2R len /\
  Rabs (B2R d - INR (S j) * B2R td) <= INR j * (/ 2 * ulp64 (B2R len)).
Proof.
  intros Fl (Hmap & Hall & Hlast) j Hj d.
  assert (Hd : d = rsum ops64 td td j).
  { unfold d. rewrite Hmap. apply nth_rsum_list. exact Hj. }
  assert (G : forall i, (i <= j)%nat -> D.le (rsum ops64 td td i) len = true).
  { intros i Hi. rewrite Forall_forall in Hall.
    apply (Hall (rsum ops64 td td i)). rewrite Hmap. apply in_map. apply in_seq. lia. }
  assert (H0 : D.lt D.zero td = true).
  { cbn [ops64 f_lt] in Hlast. change (c_zero ops64) with D.zero in Hlast.
    destruct (D.lt D.zero td); [reflexivity|]. subst ds. cbn in Hj. lia. }
  destruct (lt0_le_fin td len H0 (G 0%nat (Nat.le_0_l j)) Fl) as (Ft & Ht).
  destruct (rsum_error td len Ft Ht Fl j G) as (Fj & Bj & Ej).
  rewrite Hd. repeat split; try assumption; apply Bj.
Qed.

(* relative form for a normal length (len >= 2^-1022): j * 2^-53 * len *)
Corollary tick_distance_error_rel (len mdfe td : F64) (ds : list F64) :
  fin len -> pow2 (-1022) <= B2R len -> dists_ok ops64 len mdfe td ds ->
  forall j, (j < length ds)%nat ->
  Rabs (B2R (nth j ds D.zero) - INR (S j) * B2R td) <= INR j * (pow2 (-53) * B2R len).
Proof.
  intros Fl Hn Hok j Hj.
  destruct (tick_distance_error len mdfe td ds Fl Hok j Hj) as (_ & _ & _ & _ & _ & E).
  eapply Rle_trans; [exact E|]. apply Rmult_le_compat_l; [apply pos_INR|].
  assert (Hp : 0 < B2R len) by (pose proof (bpow_gt_0 radix2 (-1022)); unfold pow2 in Hn; lra).
  pose proof (ulp64_rel (B2R len)) as Hr. rewrite Rabs_pos_eq in Hr by lra. specialize (Hr Hn).
  replace (pow2 (-53)) with (/ 2 * pow2 (-52)).
  - rewrite Rmult_assoc. apply Rmult_le_compat_l; [lra | exact Hr].
  - unfold pow2. change (-52)%Z with (-53 + 1)%Z. rewrite bpow_plus. cbn. lra.
Qed.

(* ---------- the progress value d / len ---------- *)

(* error of the progress of tick j:  j * ulp(len) / (2 * len) + 2^-53 *)
Definition prog_err (len : R) (j : nat) : R := INR j * (/ 2 * ulp64 len) / len + pow2 (-53).

Lemma prog_err_nonneg len j : 0 < len -> 0 <= prog_err len j.
Proof.
  intros Hl. unfold prog_err, pow2. pose proof (bpow_gt_0 radix2 (-53)) as Hb.
  assert (0 <= INR j * (/ 2 * ulp64 len) / len); [|lra].
  apply Rmult_le_pos; [apply Rmult_le_pos; [apply pos_INR|]|].
  - pose proof (ulp64_ge_0 len). lra.
  - left. apply Rinv_0_lt_compat. exact Hl.
Qed.

(* a quotient of finite numbers 0 < d <= len *)
Lemma div_unit (d len : F64) : fin d -> fin len -> 0 < B2R d <= B2R len ->
  fin (D.div d len) /\ B2R (D.div d len) = RN (B2R d / B2R len) /\
  0 <= B2R (D.div d len) <= 1 /\
  Rabs (B2R (D.div d len) - B2R d / B2R len) <= pow2 (-53).
Proof.
  intros Fd Fl (Hd & Hle).
  assert (Hl : 0 < B2R len) by lra.
  assert (Hq : 0 < B2R d / B2R len <= 1).
  { split; [apply Rdiv_lt_0_compat; assumption|].
    apply (Rmult_le_reg_r (B2R len)); [exact Hl|]. unfold Rdiv. rewrite Rmult_assoc, Rinv_l by lra. lra. }
  assert (Hr : 0 <= RN (B2R d / B2R len) <= 1).
  { split; [rewrite <- RN_0 | rewrite <- RN_1]; apply RN_le; lra. }
  pose proof (Bdiv_correct 53 1024 Hp64 He64 mode_NE d len ltac:(lra)) as H.
  rewrite Rlt_bool_true in H.
  - destruct H as (HR & HF & _). unfold D.div, fdiv.
    split; [rewrite HF; exact Fd|]. split; [exact HR|]. rewrite HR. split; [exact Hr|].
    eapply Rle_trans; [apply RN_err|].
    replace (pow2 (-53)) with (/ 2 * pow2 (-52)).
    + apply Rmult_le_compat_l; [lra|]. rewrite <- ulp64_1. apply ulp64_le_pos; lra.
    + unfold pow2. change (-52)%Z with (-53 + 1)%Z. rewrite bpow_plus. cbn. lra.
  - rewrite Rabs_pos_eq by lra. apply Rle_lt_trans with 1; [lra|].
    change 1 with (bpow radix2 0). apply bpow_lt. lia.
Qed.

Theorem tick_progress_error (len mdfe td : F64) (ds : list F64) :
  fin len -> dists_ok ops64 len mdfe td ds ->
  forall j, (j < length ds)%nat ->
  let p := D.div (nth j ds D.zero) len in
  fin p /\ 0 <= B2R p <= 1 /\
  Rabs (B2R p - INR (S j) * B2R td / B2R len) <= prog_err (B2R len) j.
Proof.
  intros Fl Hok j Hj p.
  destruct (tick_distance_error len mdfe td ds Fl Hok j Hj) as (_ & _ & _ & Fd & Bd & E).
  destruct (div_unit _ len Fd Fl Bd) as (Fp & _ & Bp & Ep).
  split; [exact Fp|]. split; [exact Bp|].
  assert (Hl : 0 < B2R len) by lra.
  replace (B2R p - INR (S j) * B2R td / B2R len)
    with ((B2R p - B2R (nth j ds D.zero) / B2R len)
          + (B2R (nth j ds D.zero) - INR (S j) * B2R td) / B2R len) by (field; lra).
  eapply Rle_trans; [apply Rabs_triang|]. unfold prog_err.
  assert (Rabs ((B2R (nth j ds D.zero) - INR (S j) * B2R td) / B2R len)
          <= INR j * (/ 2 * ulp64 (B2R len)) / B2R len).
  { unfold Rdiv. rewrite Rabs_mult, (Rabs_pos_eq (/ B2R len)) by (left; apply Rinv_0_lt_compat; exact Hl).
    apply Rmult_le_compat_r; [left; apply Rinv_0_lt_compat; exact Hl | exact E]. }
  fold p in Ep. lra.
Qed.

(* ShiftMapLevel: C15/T15d -- map-level processing commutes with a
   whole-millisecond shift of every time.

   [shift_obj] changes the start time of an object and NOTHING else (kind with
   position, combo flag and offset, path, velocity, durations, node samples;
   sample list); the theorem says that processing the shifted input gives
   exactly the shifted output, so "changes nothing else" is part of the
   statement.  Domain: whole-number times within +-2^52 before and after the
   shift (so -0.0 is excluded: it is not [D.of_Z 0]); spinner / hold durations
   whole; for sliders, whose duration is not a whole number, every look-up time
   start + offset + 5 must stay clear of the window (T - 2^-g, T) below each
   sample-point time T (otherwise: finding D29, see [slider_shift_witness]). *)
From RM Require Import Model.MapLevel Proofs.MapLevelFacts Proofs.MapLevelConcrete.
From RM Require Import Proofs.ControlPointsFacts Proofs.ShiftFloat Proofs.ShiftControlPoints.
From Coq Require Import Sorting.Permutation.
Require Import ZifyBool.
Open Scope Z_scope.

Definition shift_obj (k : Z) (h : HitObject) : HitObject :=
  mkHObj (tshift k (h_start h)) (h_kind h) (h_samples h).
Definition shift_break (k : Z) (b : BreakPeriod) : BreakPeriod :=
  mkBreak (tshift k (bp_start b)) (tshift k (bp_end b)).

(* ---------- the stable sort ---------- *)

Section SortMap.
  Context {O : Type} (key : O -> Z) (h : O -> O).

  Lemma sinsert_map x l :
    (forall y, In y l -> (key (h x) <=? key (h y)) = (key x <=? key y)) ->
    sinsert key (h x) (map h l) = map h (sinsert key x l).
  Proof.
    induction l as [|y r IH]; intros H; cbn [sinsert map]; [reflexivity|].
    rewrite (H y (or_introl eq_refl)).
    destruct (key x <=? key y); [reflexivity|].
    cbn [map]. rewrite IH; [reflexivity|]. intros z Hz. apply H. right. exact Hz.
  Qed.

  Lemma ssort_map l :
    (forall x y, In x l -> In y l -> (key (h x) <=? key (h y)) = (key x <=? key y)) ->
    ssort key (map h l) = map h (ssort key l).
  Proof.
    induction l as [|x r IH]; intros H; cbn [ssort map]; [reflexivity|].
    rewrite IH by (intros a b Ha Hb; apply H; right; assumption).
    apply sinsert_map. intros y Hy. apply H; [left; reflexivity|right].
    eapply Permutation_in; [apply ssort_perm|exact Hy].
  Qed.
End SortMap.

Lemma start_key_shift k h1 h2 :
  whole_time k (h_start h1) -> whole_time k (h_start h2) ->
  (start_key (shift_obj k h1) <=? start_key (shift_obj k h2)) = (start_key h1 <=? start_key h2).
Proof.
  intros (a & Ea & Ha) (b & Eb & Hb). unfold start_key, shift_obj. cbn [h_start].
  rewrite Ea, Eb, !tshift_ofZ by assumption. unfold in_range in *.
  rewrite !key_le_ofZ by lia. lia.
Qed.

Lemma ssort_shift k objs :
  Forall (fun h => whole_time k (h_start h)) objs ->
  ssort start_key (map (shift_obj k) objs) = map (shift_obj k) (ssort start_key objs).
Proof.
  intros H. rewrite Forall_forall in H. apply ssort_map.
  intros x y Hx Hy. apply start_key_shift; auto.
Qed.

(* ---------- break post-processing ---------- *)

Lemma force_shift k h f : force_new_combo (shift_obj k h) f = shift_obj k (force_new_combo h f).
Proof. destruct h as [st kd sa]. unfold force_new_combo, shift_obj. cbn [h_kind h_start h_samples]. destruct kd; reflexivity. Qed.

Definition breaks_whole (k : Z) (bs : list BreakPeriod) : Prop :=
  Forall (fun b => whole_time k (bp_end b)) bs.

Lemma skip_breaks_shift k bs t f :
  breaks_whole k bs -> whole_time k t ->
  skip_breaks (map (shift_break k) bs) (tshift k t) f =
    (map (shift_break k) (fst (skip_breaks bs t f)), snd (skip_breaks bs t f)) /\
  breaks_whole k (fst (skip_breaks bs t f)).
Proof.
  intros Hb (n & -> & Hn). revert f. induction Hb as [|b r (e & Ee & He) Hr IH]; intros f; cbn [skip_breaks map].
  - split; [reflexivity|constructor].
  - change (bp_end (shift_break k b)) with (tshift k (bp_end b)). rewrite Ee. rewrite shift_lt by assumption.
    destruct (D.lt (D.of_Z e) (D.of_Z n)).
    + apply IH.
    + cbn [fst snd map]. split; [reflexivity|].
      constructor; [exists e; split; [exact Ee|exact He]|exact Hr].
Qed.

Lemma post_process_shift k bs objs :
  breaks_whole k bs -> Forall (fun h => whole_time k (h_start h)) objs ->
  post_process_breaks h_start force_new_combo (map (shift_break k) bs) (map (shift_obj k) objs) =
  map (shift_obj k) (post_process_breaks h_start force_new_combo bs objs).
Proof.
  intros Hb Ho. revert bs Hb. induction Ho as [|h r Hh Hr IH]; intros bs Hb; cbn [post_process_breaks map]; [reflexivity|].
  change (h_start (shift_obj k h)) with (tshift k (h_start h)).
  destruct (skip_breaks_shift k bs (h_start h) false Hb Hh) as (E & Hb').
  rewrite E. destruct (skip_breaks bs (h_start h) false) as [bs' f]. cbn [fst snd] in *.
  rewrite force_shift, IH by assumption. reflexivity.
Qed.

(* ---------- sample-point application ---------- *)

Lemma sp_apply_shift k p s : sp_apply (shift_sp k p) s = sp_apply p s.
Proof. reflexivity. Qed.

Lemma spd_apply_map k c t t' (l : list HitSampleInfo) :
  sample_point_at (shift_cps k c) t' = omap (shift_sp k) (sample_point_at c t) ->
  map (sp_apply (sample_point_or_default (shift_cps k c) t')) l =
  map (sp_apply (sample_point_or_default c t)) l.
Proof.
  intros E. unfold sample_point_or_default. rewrite E.
  destruct (sample_point_at c t) as [p|]; cbn [omap]; [|reflexivity].
  apply map_ext. intros s. apply sp_apply_shift.
Qed.

(* look-up at a whole time *)
Lemma spd_whole k c b l :
  cps_whole k c -> Z.abs b < 2 ^ 53 -> Z.abs (b + k) < 2 ^ 53 ->
  map (sp_apply (sample_point_or_default (shift_cps k c) (D.of_Z (b + k)))) l =
  map (sp_apply (sample_point_or_default c (D.of_Z b))) l.
Proof. intros Hc H1 H2. apply spd_apply_map. apply sample_point_at_shift; assumption. Qed.

Section Sliders.
  Variable g : Z.
  Hypothesis Hg : 0 <= g <= 1074.
  Variable k : Z.

  (* the look-up offset o, added to the whole start n, keeps clear of every sample point *)
  Definition lookup_clear (c : ControlPoints) (n : Z) (o : F64) : Prop :=
    off_ok o /\
    Forall (fun p => exists T, sp_time p = D.of_Z T /\ in_range k T /\ fits g T /\ fits g (T + k) /\
                               clear_of g n o T) (cp_sample c).

  Lemma spd_look c n o l :
    in_range k n -> lookup_clear c n o ->
    map (sp_apply (sample_point_or_default (shift_cps k c) (look (n + k) o))) l =
    map (sp_apply (sample_point_or_default c (look n o))) l.
  Proof.
    intros Hn (Ho & Hc). apply spd_apply_map.
    unfold sample_point_at, shift_cps. cbn [cp_sample]. apply at_first_map.
    intros p Hp. rewrite Forall_forall in Hc. destruct (Hc p Hp) as (T & ET & HT & F1 & F2 & Cl).
    unfold probe. cbn [shift_sp sp_time]. rewrite ET, tshift_ofZ by assumption.
    symmetry. unfold in_range in Hn. apply (look_cmp_shift g Hg); try assumption; lia.
  Qed.
End Sliders.

(* ---------- the per-object loop ---------- *)

(* offsets of the node look-ups of a slider *)
Fixpoint node_offsets (duration span_count : F64) (i : Z) (nodes : list (list HitSampleInfo)) : list F64 :=
  match nodes with
  | [] => []
  | _ :: r => D.div (D.mul (D.of_Z i) duration) span_count :: node_offsets duration span_count (i + 1) r
  end.

Section WithDist.
  Variable dist_of : Z -> list PCP -> option F64 -> outcome F64.
  Variable g : Z.
  Hypothesis Hg : 0 <= g <= 1074.
  Variable k : Z.

  (* every offset a slider adds to its start time before a sample-point look-up:
     its duration spans * dist / velocity, then i * duration / spans per node *)
  Definition slider_lookups (c : ControlPoints) (sm : F64) (mode : Z) (start : F64) (s : Slider) : list F64 :=
    let beat_len := match timing_point_at c start with Some p => tp_beat_len p | None => default_beat_len end in
    match difficulty_point_at c start with
    | Done dp =>
        let sv := match dp with Some p => dp_sv p | None => D.one end in
        let vel := slider_velocity_of sm sv beat_len mode in
        match dist_of (sl_mode s) (sl_control_points s) (sl_expected_dist s) with
        | Done d =>
            let spans := D.of_Z (sl_repeat_count s + 1) in
            let duration := D.div (D.mul spans d) vel in
            duration :: node_offsets duration spans 0 (sl_node_samples s)
        | _ => []
        end
    | _ => []
    end.

  (* a whole duration whose end stays in range *)
  Definition whole_dur (n : Z) (d : F64) : Prop :=
    exists m, d = D.of_Z m /\ Z.abs m < 2 ^ 53 /\ in_range k (n + m).

  (* the domain of the theorem, per object *)
  Definition obj_ok (c : ControlPoints) (sm : F64) (mode : Z) (h : HitObject) : Prop :=
    exists n, h_start h = D.of_Z n /\ in_range k n /\
      match h_kind h with
      | KCircle _ => True
      | KSpinner s => whole_dur n (sp_duration s)
      | KHold hd => whole_dur n (hd_duration hd)
      | KSlider s => Forall (lookup_clear g k c n) (slider_lookups c sm mode (h_start h) s)
      end.

  Lemma obj_ok_whole c sm mode h : obj_ok c sm mode h -> whole_time k (h_start h).
  Proof. intros (n & E & Hn & _). exists n. split; assumption. Qed.

  Lemma obj_ok_force c sm mode h f : obj_ok c sm mode h -> obj_ok c sm mode (force_new_combo h f).
  Proof.
    intros (n & E & Hn & Hk). exists n. rewrite force_start. split; [exact E|]. split; [exact Hn|].
    unfold force_new_combo. destruct (h_kind h) as [ci|s|s|hd] eqn:Ek;
      cbn [h_kind h_start sp_duration]; rewrite ?Ek; exact Hk.
  Qed.

  Lemma apply_nodes_shift c n d spans nodes : forall i,
    in_range k n ->
    Forall (lookup_clear g k c n) (node_offsets d spans i nodes) ->
    apply_nodes (shift_cps k c) (D.of_Z (n + k)) d spans i nodes = apply_nodes c (D.of_Z n) d spans i nodes.
  Proof.
    induction nodes as [|nd r IH]; intros i Hn H; cbn [apply_nodes node_offsets] in *; [reflexivity|].
    inversion H as [|? ? H1 H2]; subst.
    change (D.add (D.add (D.of_Z (n + k)) (D.div (D.mul (D.of_Z i) d) spans)) f64_5)
      with (look (n + k) (D.div (D.mul (D.of_Z i) d) spans)).
    change (D.add (D.add (D.of_Z n) (D.div (D.mul (D.of_Z i) d) spans)) f64_5)
      with (look n (D.div (D.mul (D.of_Z i) d) spans)).
    rewrite (spd_look g Hg k c n _ nd Hn H1). rewrite IH by assumption. reflexivity.
  Qed.

  Lemma process_object_shift c sm mode h :
    cps_whole k c -> obj_ok c sm mode h ->
    process_object dist_of (shift_cps k c) sm mode (shift_obj k h) =
    out_map (shift_obj k) (process_object dist_of c sm mode h).
  Proof.
    intros Hc (n & En & Hn & Hk). pose proof Hn as (Hn1 & Hn2).
    unfold process_object. cbn [shift_obj h_start h_kind h_samples].
    rewrite En, tshift_ofZ by assumption.
    destruct (h_kind h) as [ci|s|s|hd]; cbn [obind].
    - (* circle *)
      rewrite !add5_ofZ by lia. replace (n + k + 5) with (n + 5 + k) by lia.
      rewrite (spd_whole k c (n + 5)) by (try assumption; lia).
      unfold shift_obj. cbn [out_map h_start h_kind h_samples]. rewrite tshift_ofZ by assumption. reflexivity.
    - (* slider *)
      unfold slider_lookups in Hk. rewrite En in Hk.
      rewrite (timing_point_at_shift k c n Hc ltac:(lia) ltac:(lia)).
      rewrite (difficulty_point_at_shift k c n Hc ltac:(lia) ltac:(lia)).
      assert (Ebl : match omap (shift_tp k) (timing_point_at c (D.of_Z n)) with
                    | Some p => tp_beat_len p | None => default_beat_len end =
                    match timing_point_at c (D.of_Z n) with
                    | Some p => tp_beat_len p | None => default_beat_len end).
      { destruct (timing_point_at c (D.of_Z n)); reflexivity. }
      rewrite Ebl. clear Ebl.
      destruct (difficulty_point_at c (D.of_Z n)) as [dp| |]; cbn [out_map obind]; try reflexivity.
      assert (Esv : match omap (shift_dp k) dp with Some p => dp_sv p | None => D.one end =
                    match dp with Some p => dp_sv p | None => D.one end).
      { destruct dp; reflexivity. }
      rewrite Esv. clear Esv.
      unfold slider_duration. cbn [sl_mode sl_control_points sl_expected_dist sl_repeat_count sl_velocity].
      destruct (dist_of (sl_mode s) (sl_control_points s) (sl_expected_dist s)) as [d| |];
        cbn [out_map obind]; try reflexivity.
      cbv zeta in Hk. inversion Hk as [|? ? Hd Hnodes]; subst.
      rewrite (apply_nodes_shift c n _ _ _ 0 Hn Hnodes).
      match goal with |- context [D.add (D.add (D.of_Z (n + k)) ?dd) f64_5] =>
        change (D.add (D.add (D.of_Z (n + k)) dd) f64_5) with (look (n + k) dd);
        change (D.add (D.add (D.of_Z n) dd) f64_5) with (look n dd);
        rewrite (spd_look g Hg k c n dd (h_samples h) Hn Hd)
      end.
      unfold shift_obj. cbn [out_map h_start h_kind h_samples]. rewrite tshift_ofZ by assumption. reflexivity.
    - (* spinner *)
      destruct Hk as (m & Em & Hm & Hr1 & Hr2). rewrite Em.
      rewrite !add_ofZ by lia. rewrite !add5_ofZ by lia.
      replace (n + k + m + 5) with (n + m + 5 + k) by lia.
      rewrite (spd_whole k c (n + m + 5)) by (try assumption; lia).
      unfold shift_obj. cbn [out_map h_start h_kind h_samples]. rewrite tshift_ofZ by assumption. reflexivity.
    - (* hold *)
      destruct Hk as (m & Em & Hm & Hr1 & Hr2). rewrite Em.
      rewrite !add_ofZ by lia. rewrite !add5_ofZ by lia.
      replace (n + k + m + 5) with (n + m + 5 + k) by lia.
      rewrite (spd_whole k c (n + m + 5)) by (try assumption; lia).
      unfold shift_obj. cbn [out_map h_start h_kind h_samples]. rewrite tshift_ofZ by assumption. reflexivity.
  Qed.

  Lemma process_objects_shift c sm mode l :
    cps_whole k c -> Forall (obj_ok c sm mode) l ->
    process_objects dist_of (shift_cps k c) sm mode (map (shift_obj k) l) =
    out_map (map (shift_obj k)) (process_objects dist_of c sm mode l).
  Proof.
    intros Hc. induction 1 as [|h r Hh Hr IH]; cbn [process_objects map]; [reflexivity|].
    rewrite (process_object_shift c sm mode h Hc Hh).
    destruct (process_object dist_of c sm mode h) as [h'| |]; cbn [out_map obind]; try reflexivity.
    rewrite IH. destruct (process_objects dist_of c sm mode r) as [r'| |]; reflexivity.
  Qed.

  Lemma post_process_ok c sm mode bs objs :
    Forall (obj_ok c sm mode) objs ->
    Forall (obj_ok c sm mode) (post_process_breaks h_start force_new_combo bs objs).
  Proof.
    intros H. revert bs. induction H as [|h r Hh Hr IH]; intros bs; cbn [post_process_breaks]; [constructor|].
    destruct (skip_breaks bs (h_start h) false) as [bs' f].
    constructor; [apply obj_ok_force; exact Hh|apply IH].
  Qed.

  (* T15d on the model: processing the shifted input gives the shifted output *)
  Theorem finish_shift c breaks sm mode objs :
    cps_whole k c -> breaks_whole k breaks -> Forall (obj_ok c sm mode) objs ->
    finish_hit_objects dist_of (shift_cps k c) (map (shift_break k) breaks) sm mode (map (shift_obj k) objs) =
    out_map (map (shift_obj k)) (finish_hit_objects dist_of c breaks sm mode objs).
  Proof.
    intros Hc Hb Ho. unfold finish_hit_objects.
    assert (Hw : Forall (fun h => whole_time k (h_start h)) objs).
    { eapply Forall_impl; [|exact Ho]. intros h. apply obj_ok_whole. }
    assert (Hs : Forall (obj_ok c sm mode) (ssort start_key objs)).
    { rewrite Forall_forall in *. intros h Hh. apply Ho.
      eapply Permutation_in; [apply ssort_perm|exact Hh]. }
    rewrite (ssort_shift k objs Hw).
    rewrite post_process_shift; [|exact Hb|].
    - apply process_objects_shift; [exact Hc|]. apply post_process_ok. exact Hs.
    - eapply Forall_impl; [|exact Hs]. intros h. apply obj_ok_whole.
  Qed.
End WithDist.

(* ---------- maps without sliders: no side condition ---------- *)

Definition no_slider (h : HitObject) : Prop := forall s, h_kind h <> KSlider s.

(* whole start, whole duration (spinner / hold), all in range *)
Definition whole_obj (k : Z) (h : HitObject) : Prop :=
  exists n, h_start h = D.of_Z n /\ in_range k n /\
    match h_kind h with
    | KCircle _ => True
    | KSpinner s => whole_dur k n (sp_duration s)
    | KHold hd => whole_dur k n (hd_duration hd)
    | KSlider _ => False
    end.

Lemma whole_obj_ok dist_of k c sm mode h : whole_obj k h -> obj_ok dist_of 0 k c sm mode h.
Proof.
  intros (n & E & Hn & Hk). exists n. split; [exact E|]. split; [exact Hn|].
  destruct (h_kind h); try exact Hk. contradiction.
Qed.

Theorem finish_shift_whole dist_of k c breaks sm mode objs :
  cps_whole k c -> breaks_whole k breaks -> Forall (whole_obj k) objs ->
  finish_hit_objects dist_of (shift_cps k c) (map (shift_break k) breaks) sm mode (map (shift_obj k) objs) =
  out_map (map (shift_obj k)) (finish_hit_objects dist_of c breaks sm mode objs).
Proof.
  intros Hc Hb Ho. apply (finish_shift dist_of 0 ltac:(lia)); try assumption.
  eapply Forall_impl; [|exact Ho]. intros h. apply whole_obj_ok.
Qed.

(* "changes nothing else": the shifted output differs from the output in start times only *)
Lemma shift_obj_only_time k h :
  h_start (shift_obj k h) = tshift k (h_start h) /\
  h_kind (shift_obj k h) = h_kind h /\ h_samples (shift_obj k h) = h_samples h.
Proof. repeat split. Qed.

Lemma shift_objs_only_time k out :
  Forall2 (fun h h' => h_start h' = tshift k (h_start h) /\ h_kind h' = h_kind h /\ h_samples h' = h_samples h)
          out (map (shift_obj k) out).
Proof. induction out as [|h r IH]; cbn [map]; constructor; [repeat split|exact IH]. Qed.

(* ---------- sliders: the side condition is needed (finding D29) ---------- *)

(* SliderMultiplier 1.4, beat length 500, a slider of length 336 with one
   repeat starting at 1000: velocity fl(140 / 500) = 0.28, duration
   fl(672 / 0.28) = 2399.9999999999995 (one ulp below 2400).  A sample point
   (volume 30) sits at 3405 = 1000 + 2400 + 5.  Unshifted, the look-up time is
   fl(fl(1000 + d) + 5) = 3404.9999999999995 < 3405: the point is not yet
   active and the slider takes the earlier point's volume 100.  Shifted by
   1000 ms, fl(2000 + d) = 4400 exactly (the ulp has doubled), the look-up time
   is 4405 and the point at 4405 IS active: volume 30. *)
Definition w_dist (_ : Z) (_ : list PCP) (_ : option F64) : outcome F64 := Done (D.of_Z 336).
Definition w_cps : ControlPoints :=
  mkCP [mkTP (D.of_Z (-10000)) (D.of_Z 500) false 4] [] []
       [mkSP (D.of_Z (-10000)) 1 100 0; mkSP (D.of_Z 3405) 1 30 0].
Definition w_sm : F64 := D.of_decimal false 14 (-1).
Definition w_slider : HitObject :=
  mkHObj (D.of_Z 1000)
         (KSlider (mkSlider (mkPos S.zero S.zero) false 0 0 [] None [] 1 D.zero))
         [hs_new (NDefault 0) None 0 0].

Definition volumes (r : outcome (list HitObject)) : list Z :=
  match r with Done l => flat_map (fun h => map hs_volume (h_samples h)) l | _ => [] end.

Lemma w_cps_whole : cps_whole 1000 w_cps.
Proof.
  unfold cps_whole, w_cps. cbn [cp_timing cp_difficulty cp_effect cp_sample].
  repeat split; repeat constructor; eexists; (split; [reflexivity|unfold in_range; lia]).
Qed.

Lemma w_slider_whole : whole_time 1000 (h_start w_slider).
Proof. eexists; split; [reflexivity|unfold in_range; lia]. Qed.

Lemma slider_shift_volumes :
  volumes (finish_hit_objects w_dist w_cps [] w_sm 0 [w_slider]) = [100] /\
  volumes (finish_hit_objects w_dist (shift_cps 1000 w_cps) [] w_sm 0 [shift_obj 1000 w_slider]) = [30].
Proof. vm_compute. split; reflexivity. Qed.

(* the look-up times themselves, as bit patterns *)
Definition w_duration : F64 := D.of_bits 4657496070887047167.    (* 0x40a2bfffffffffff = 2399.9999999999995 *)
Lemma slider_shift_lookups :
  D.bits (look 1000 w_duration) = 4659706089258876927 /\         (* 0x40aa99ffffffffff = 3404.9999999999995 *)
  D.bits (D.of_Z 3405)          = 4659706089258876928 /\         (* 0x40aa9a0000000000 *)
  D.bits (look 2000 w_duration) = 4661565363421446144 /\         (* 0x40b1350000000000 = 4405 *)
  D.bits (D.of_Z 4405)          = 4661565363421446144.
Proof. vm_compute. repeat split; reflexivity. Qed.

(* T15d is false for sliders without the side condition, on whole times *)
Theorem slider_shift_witness :
  exists dist_of k c sm mode h,
    cps_whole k c /\ whole_time k (h_start h) /\ (exists s, h_kind h = KSlider s) /\
    finish_hit_objects dist_of (shift_cps k c) (map (shift_break k) []) sm mode (map (shift_obj k) [h]) <>
    out_map (map (shift_obj k)) (finish_hit_objects dist_of c [] sm mode [h]).
Proof.
  exists w_dist, 1000, w_cps, w_sm, 0, w_slider.
  split; [exact w_cps_whole|]. split; [exact w_slider_whole|]. split; [eexists; reflexivity|].
  intros E. apply (f_equal volumes) in E.
  assert (Hv : forall r, volumes (out_map (map (shift_obj 1000)) r) = volumes r).
  { intros [l| |]; cbn [out_map volumes]; [|reflexivity|reflexivity].
    induction l as [|a l IH]; cbn [map flat_map]; [reflexivity|]. rewrite IH. reflexivity. }
  rewrite Hv in E. cbn [map] in E.
  destruct slider_shift_volumes as (V0 & V1). rewrite V0, V1 in E. discriminate E.
Qed.

(* WriterOrigin: the converse reading of C09's writer theorems, used by C01
   ("an error result can only originate from a failure reported by the
   underlying writer").  For every chunk list and every writer: if
   `Beatmap::encode` (as seen by the writer: write_all per chunk, `?` after
   each, then flush) returns Err(k), then either the write schedule contains a
   first failing event (an error, or Ok(0) which write_all turns into
   WriteZero) whose fault is k, or the final flush reported k. *)
From RM Require Import Model.Reader Proofs.ReaderFacts.
From Coq Require Import Lia List.
Import ListNotations.

(* what one write_all consumes of the schedule *)
Lemma write_all_s_origin : forall s buf acc n res s' acc' n',
  write_all_s s buf acc n = (res, (s', acc', n')) ->
  match res with
  | IoDone _ => exists s0, s = s0 ++ s' /\ nofail s0
  | IoErr k => exists s1 e, s = s1 ++ e :: s' /\ nofail s1 /\ wev_fails e = true /\ k = wfault e
  | _ => False
  end.
Proof.
  induction s as [|e s IH]; intros buf acc n res s' acc' n' H.
  - destruct buf as [|x t]; cbn [write_all_s] in H; inversion H; subst;
      exists []; split; try reflexivity; constructor.
  - destruct buf as [|x t].
    { rewrite write_all_s_nil in H. inversion H; subst. exists []. split; [reflexivity|constructor]. }
    cbn [write_all_s] in H. destruct e as [c| | |k].
    + specialize (IH _ _ _ _ _ _ _ H). destruct res as [u|k| |]; try contradiction.
      * destruct IH as (s0 & -> & F). exists (WAccept c :: s0). split; [reflexivity|constructor; [reflexivity|exact F]].
      * destruct IH as (s1 & e & -> & F & Fe & Ek). exists (WAccept c :: s1), e.
        repeat split; try assumption. constructor; [reflexivity|exact F].
    + inversion H; subst. exists [], WZero. repeat split. constructor.
    + specialize (IH _ _ _ _ _ _ _ H). destruct res as [u|k| |]; try contradiction.
      * destruct IH as (s0 & -> & F). exists (WInterrupted :: s0). split; [reflexivity|constructor; [reflexivity|exact F]].
      * destruct IH as (s1 & e & -> & F & Fe & Ek). exists (WInterrupted :: s1), e.
        repeat split; try assumption. constructor; [reflexivity|exact F].
    + inversion H; subst. exists [], (WFail k). repeat split. constructor.
Qed.

Lemma nofail_app a b : nofail a -> nofail b -> nofail (a ++ b).
Proof. unfold nofail. intros Ha Hb. apply Forall_app. split; assumption. Qed.

Lemma write_chunks_origin : forall ws w res w',
  write_chunks ws w = (res, w') ->
  flush_result w' = flush_result w /\
  match res with
  | IoDone _ => exists s0, wsched w = s0 ++ wsched w' /\ nofail s0
  | IoErr k => exists s1 e, wsched w = s1 ++ e :: wsched w' /\ nofail s1 /\ wev_fails e = true /\ k = wfault e
  | _ => False
  end.
Proof.
  induction ws as [|c t IH]; intros w res w' H.
  - cbn [write_chunks] in H. inversion H; subst. split; [reflexivity|]. exists []. split; [reflexivity|constructor].
  - cbn [write_chunks] in H. unfold write_all in H.
    destruct (write_all_s (wsched w) c (accepted_rev w) (calls w)) as [r1 [[s1 a1] n1]] eqn:E.
    pose proof (write_all_s_origin _ _ _ _ _ _ _ _ E) as O.
    destruct r1 as [u|k| |]; try contradiction.
    + destruct (IH _ _ _ H) as (Hf & IHr). cbn [flush_result wsched] in *. split; [exact Hf|].
      destruct O as (s0 & Es & F0).
      destruct res as [u'|k| |]; try contradiction.
      * destruct IHr as (s0' & Es' & F0'). exists (s0 ++ s0'). rewrite Es, Es', app_assoc.
        split; [reflexivity|apply nofail_app; assumption].
      * destruct IHr as (s1' & e & Es' & F1 & Fe & Ek). exists (s0 ++ s1'), e.
        rewrite Es, Es', app_assoc. repeat split; try assumption. apply nofail_app; assumption.
    + inversion H; subst. cbn [flush_result wsched]. split; [reflexivity|exact O].
Qed.

Theorem encode_writes_err_origin : forall ws w k w',
  encode_writes ws w = (IoErr k, w') ->
  (exists s1 e s2, wsched w = s1 ++ e :: s2 /\ nofail s1 /\ wev_fails e = true /\ k = wfault e) \/
  (flush_result w = Some k /\ exists s0, wsched w = s0 ++ wsched w' /\ nofail s0).
Proof.
  intros ws w k w' H. unfold encode_writes in H.
  destruct (write_chunks ws w) as [r w1] eqn:E.
  destruct (write_chunks_origin _ _ _ _ E) as (Hf & O).
  destruct r as [u|k1| |]; try contradiction.
  - inversion H; subst. right. unfold flush in H1. rewrite Hf in H1.
    destruct (flush_result w) as [k2|]; [|discriminate]. inversion H1; subst. split; [reflexivity|exact O].
  - inversion H; subst. left. destruct O as (s1 & e & Es & F & Fe & Ek). exists s1, e, (wsched w'). auto.
Qed.

(* the outcome is a value or an error, never anything else (C09), so: *)
Corollary encode_writes_ok_unless_writer_fails : forall ws w,
  nofail (wsched w) -> flush_result w = None -> exists w', encode_writes ws w = (IoDone tt, w').
Proof.
  intros ws w F Hfl. destruct (encode_writes ws w) as [r w'] eqn:E.
  pose proof (encode_writes_ok_or_err ws w) as Ok. rewrite E in Ok. cbn [fst] in Ok.
  destruct r as [[]|k| |]; try contradiction; [eauto|].
  exfalso. destruct (encode_writes_err_origin _ _ _ _ E) as [(s1 & e & s2 & Es & _ & Fe & _)|(Hk & _)].
  - unfold nofail in F. rewrite Es in F. apply Forall_app in F. destruct F as (_ & F).
    inversion F; subst. congruence.
  - congruence.
Qed.

(* LengthExact: C16 after the repair of D9 -- the filter of calculate_length
   compares the requested length with the calculated one EXACTLY
   ((calculated_len - len).abs() > 0.0), so the natural curve is kept only
   when the two are the same number (or the difference is NaN).  Hence, for
   every requested length L > 0 (+inf included) and a calculated length that
   is not NaN, the distance of the curve IS L -- the very same value -- outside
   the two structural exceptions (fewer than two vertices; last two points
   equal and L beyond the natural length).  No epsilon window is left. *)
From RM Require Import Model.ControlPoints Model.Curve Proofs.BezierRefine Proofs.LengthFacts
  Proofs.LengthMono.
From Flocq Require Import Core Plus_error BinarySingleNaN.
From Coq Require Import Reals Lra.
Require Import ZifyBool.

Local Notation fexp64 := (SpecFloat.fexp 53 1024).
Local Notation RN := (round radix2 fexp64 (round_mode mode_NE)).

(* ---------- when does the filter keep the natural curve ---------- *)

(* a - b rounds to zero only when a = b (gradual underflow) *)
Lemma RN_minus_zero (a b : F64) : RN (B2R a - B2R b) = 0%R -> B2R a = B2R b.
Proof.
  intros H. unfold Rminus in H.
  assert (Hopp : generic_format radix2 fexp64 (- B2R b)) by (apply generic_format_opp, generic_format_B2R).
  pose proof (@round_plus_eq_0 radix2 fexp64 (fexp_correct 53 1024 Hp64)
                (@monotone_exp_not_FTZ fexp64 (fexp_correct 53 1024 Hp64) (fexp_monotone 53 1024))
                (round_mode mode_NE) (valid_rnd_N _) (B2R a) (- B2R b)
                (generic_format_B2R 53 1024 a) Hopp H). lra.
Qed.

(* the difference of two finite numbers is never NaN *)
Lemma sub_finite_not_nan (a b : F64) :
  is_finite a = true -> is_finite b = true -> is_nan (D.sub a b) = false.
Proof.
  intros Fa Fb. unfold D.sub, fsub.
  pose proof (Bminus_correct 53 1024 Hp64 He64 mode_NE a b Fa Fb) as C.
  destruct (Rlt_bool _ _).
  - destruct C as (_ & HF & _). destruct (Bminus mode_NE a b); try discriminate; reflexivity.
  - destruct C as (HS & _). destruct (Bminus mode_NE a b); cbn in HS; try discriminate; reflexivity.
Qed.

(* the difference of two finite numbers passes "|d| > 0.0" unless they are equal *)
Lemma keeps_natural_finite (a b : F64) :
  is_finite a = true -> is_finite b = true ->
  keeps_natural a b = true -> B2R a = B2R b.
Proof.
  intros Fa Fb H. unfold keeps_natural, D.gt, fgt, D.abs, fabs, D.sub, fsub, D.zero, fzero in H.
  apply Bool.negb_true_iff in H.
  pose proof (Bminus_correct 53 1024 Hp64 He64 mode_NE a b Fa Fb) as C.
  destruct (Rlt_bool (Rabs (RN (B2R a - B2R b))) (bpow radix2 1024)) eqn:Eo.
  - destruct C as (HR & HF & _).
    rewrite Bltb_correct in H; [|reflexivity|rewrite is_finite_Babs; exact HF].
    rewrite B2R_Babs, HR in H. cbn [B2R] in H.
    destruct (Rlt_bool_spec 0 (Rabs (RN (B2R a - B2R b)))) as [Hlt|Hle]; [discriminate|].
    apply RN_minus_zero.
    destruct (Req_dec (RN (B2R a - B2R b)) 0) as [E|E]; [exact E|].
    apply Rabs_pos_lt in E. lra.
  - (* overflow: the difference is an infinity, which passes the test *)
    destruct C as (HS & _). exfalso.
    destruct (Bminus mode_NE a b) as [s|s| |s m e Hm]; cbn in HS; try discriminate HS.
    cbn in H. discriminate H.
Qed.

Lemma keeps_natural_cases (a b : F64) :
  keeps_natural a b = true ->
  is_nan (D.sub a b) = true \/ (is_finite a = true /\ is_finite b = true /\ B2R a = B2R b).
Proof.
  intros H.
  destruct (is_finite a) eqn:Fa; [destruct (is_finite b) eqn:Fb|].
  - right. split; [reflexivity|]. split; [reflexivity|]. exact (keeps_natural_finite a b Fa Fb H).
  - left. destruct a as [sa|sa| |sa ma ea Ha]; try discriminate; destruct b as [sb|sb| |sb mb eb Hb]; try discriminate;
      try reflexivity; unfold keeps_natural in H; cbn in H; discriminate.
  - left. destruct a as [sa|sa| |sa ma ea Ha]; try discriminate; [|reflexivity].
    destruct b as [sb|sb| |sb mb eb Hb]; try reflexivity;
      try (unfold keeps_natural in H; cbn in H; discriminate).
    unfold keeps_natural in H. destruct sa, sb; try reflexivity; cbn in H; discriminate.
Qed.

(* conversely: a length that IS the calculated one is filtered out, and so is a NaN *)
Lemma keeps_natural_same (a : F64) : is_nan a = false -> keeps_natural a a = true.
Proof.
  intros Hn. destruct a as [s|s| |s m e Hm]; try discriminate.
  - destruct s; reflexivity.
  - destruct s; reflexivity.
  - set (a := B754_finite s m e Hm).
    pose proof (Bminus_correct 53 1024 Hp64 He64 mode_NE a a eq_refl eq_refl) as C.
    replace (B2R a - B2R a)%R with 0%R in C by lra.
    rewrite round_0 in C by apply valid_rnd_N.
    rewrite Rabs_R0, Rlt_bool_true in C by apply bpow_gt_0. destruct C as (HR & HF & _).
    unfold keeps_natural, D.gt, fgt, D.abs, fabs, D.sub, fsub, D.zero, fzero.
    apply Bool.negb_true_iff.
    rewrite Bltb_correct; [|reflexivity|rewrite is_finite_Babs; exact HF].
    rewrite B2R_Babs, HR, Rabs_R0. cbn [B2R]. apply Rlt_bool_false. lra.
Qed.

Lemma keeps_natural_nan (a L : F64) : is_nan L = true -> keeps_natural a L = true.
Proof.
  intros H. destruct L; try discriminate. destruct a; reflexivity.
Qed.

(* a positive requested length (finite or +inf) next to a calculated length
   that is not NaN: the filter keeps the natural curve only when the two are
   THE SAME VALUE (Leibniz equality: same bits) *)
Lemma keeps_natural_pos_eq (calc L : F64) :
  D.lt D.zero L = true -> is_nan calc = false -> keeps_natural calc L = true -> calc = L.
Proof.
  intros HL Hn H.
  destruct (keeps_natural_cases calc L H) as [Hnan|(Fc & FL & E)].
  - (* NaN difference with L > 0 and calc not NaN: both +inf *)
    destruct L as [sl|sl| |sl ml el Hl]; try (cbn in HL; discriminate).
    + destruct sl; [cbn in HL; discriminate|].
      destruct calc as [sc|sc| |sc mc ec Hc]; try discriminate.
      destruct sc; [cbn in Hnan; discriminate|reflexivity].
    + destruct sl; [cbn in HL; discriminate|]. exfalso.
      destruct calc as [sc|sc| |sc mc ec Hc]; try discriminate Hn;
        try (rewrite sub_finite_not_nan in Hnan by reflexivity; discriminate Hnan).
      cbn in Hnan. discriminate Hnan.
  - apply B2R_Bsign_inj; try assumption.
    (* L is a positive finite number, so is calc *)
    destruct L as [sl|sl| |sl ml el Hl]; try discriminate FL; try (cbn in HL; discriminate HL).
    destruct sl; [cbn in HL; discriminate HL|].
    assert (HLp : (0 < B2R (B754_finite false ml el Hl))%R) by (cbn [B2R]; apply F2R_gt_0; cbn; lia).
    destruct calc as [sc|sc| |sc mc ec Hc]; try discriminate Fc.
    + rewrite <- E in HLp. cbn [B2R] in HLp. lra.
    + destruct sc; [|reflexivity]. exfalso.
      assert ((B2R (B754_finite true mc ec Hc) < 0)%R) by (cbn [B2R]; apply F2R_lt_0; cbn; lia). lra.
Qed.

(* ---------- the distance is the requested length ---------- *)

(* C16, main statement: L > 0, the calculated length is not NaN, at least two
   vertices, not the "last two points equal and L longer" exception.  Then the
   distance IS L.  Either L is the natural length itself and nothing changed,
   or the curve was cut / extended (shape as in calculate_length_adjusts) *)
Theorem calculate_length_dist_exact path L opt path' lens :
  D.lt D.zero L = true ->
  is_nan (natural_len path opt) = false ->
  (last_two_equal path && D.gt L (natural_len path opt))%bool = false ->
  (2 <= length path)%nat ->
  calculate_length path (Some L) opt = Done (path', lens) ->
  Curve.dist lens = L /\ length lens = length path' /\
  ((natural_len path opt = L /\ path' = path /\ lens = natural path opt) \/
   (keeps_natural (natural_len path opt) L = false /\
    exists k p',
      (1 <= k < length path)%nat /\
      path' = firstn k path ++ [p'] /\
      lens = firstn k (natural path opt) ++ [L] /\
      adjust_end path (natural path opt) k L = Some p' /\
      (exists v, nth_error (natural path opt) (Nat.pred k) = Some v /\ D.lt v L = true) /\
      (forall j v, (k <= j < Nat.pred (length path))%nat -> nth_error (natural path opt) j = Some v -> D.lt v L = false))).
Proof.
  intros HL Hn Hd H2 H.
  destruct (keeps_natural (natural_len path opt) L) eqn:Ek.
  - pose proof (keeps_natural_pos_eq _ _ HL Hn Ek) as E.
    rewrite (unchanged_length_keeps_natural path L opt Ek) in H.
    apply Done_pair_inj in H. destruct H as [<- <-].
    destruct (no_requested_length path opt) as [_ Hdist].
    split; [rewrite (Hdist H2); exact E|].
    split; [rewrite natural_length; lia|].
    left. split; [exact E|]. split; reflexivity.
  - destruct (calculate_length_adjusts path L opt path' lens HL Ek Hd H2 H) as (D1 & D2 & D3).
    split; [exact D1|]. split; [exact D2|]. right. split; [reflexivity|exact D3].
Qed.

(* the bare statement *)
Corollary calculate_length_dist_is_L path L opt path' lens :
  D.lt D.zero L = true ->
  is_nan (natural_len path opt) = false ->
  (last_two_equal path && D.gt L (natural_len path opt))%bool = false ->
  (2 <= length path)%nat ->
  calculate_length path (Some L) opt = Done (path', lens) ->
  Curve.dist lens = L.
Proof. intros HL Hn Hd H2 H. exact (proj1 (calculate_length_dist_exact path L opt path' lens HL Hn Hd H2 H)). Qed.

(* the two structural exceptions, for completeness: the distance is then the
   natural length (< L) resp. 0.0 *)
Lemma calculate_length_exceptions path L opt :
  keeps_natural (natural_len path opt) L = false ->
  ((last_two_equal path && D.gt L (natural_len path opt))%bool = true ->
   exists lens, calculate_length path (Some L) opt = Done (path, lens) /\ Curve.dist lens = natural_len path opt /\
                D.lt (natural_len path opt) L = true) /\
  ((last_two_equal path && D.gt L (natural_len path opt))%bool = false -> (length path <= 1)%nat ->
   exists lens, calculate_length path (Some L) opt = Done (path, lens) /\ Curve.dist lens = D.zero).
Proof.
  intros Ek. pose proof (calculate_length_cases path (Some L) opt) as C. cbv beta zeta iota in C.
  rewrite Ek in C. split.
  - intros Hd. rewrite Hd in C. eexists. split; [exact C|]. split; [apply dist_adjusted|].
    apply andb_prop in Hd. exact (proj2 Hd).
  - intros Hd H1. rewrite Hd in C.
    replace (Nat.leb (length path) 1) with true in C by (symmetry; apply Nat.leb_le; exact H1).
    eexists. split; [exact C|reflexivity].
Qed.

(* finite vertices and a zero seed (every path that is not an osu!-mode
   Catmull path): the calculated length is never NaN, so the hypothesis goes *)
Theorem calculate_length_dist_is_L_zero_seed path L path' lens :
  Forall fin_pos path ->
  D.lt D.zero L = true ->
  (last_two_equal path && D.gt L (natural_len path D.zero))%bool = false ->
  (2 <= length path)%nat ->
  calculate_length path (Some L) D.zero = Done (path', lens) ->
  Curve.dist lens = L.
Proof.
  intros Hf HL Hd H2 H.
  destruct (natural_nondecreasing path Hf) as (_ & _ & [Hn _] & _).
  exact (calculate_length_dist_is_L path L D.zero path' lens HL Hn Hd H2 H).
Qed.

(* on computed curves *)
Theorem curve_dist_is_requested_length lm fuel mode pts L c :
  curve_L1 lm fuel mode pts (Some L) = Done c ->
  D.lt D.zero L = true ->
  exists path opt, calculate_path_L1 lm fuel mode pts = Done (path, opt) /\
    (is_nan (natural_len path opt) = false ->
     (last_two_equal path && D.gt L (natural_len path opt))%bool = false ->
     (2 <= length path)%nat ->
     Curve.dist (c_lengths c) = L).
Proof.
  intros H HL. destruct (curve_L1_unfold lm fuel mode pts (Some L) c H) as (path & opt & Hp & Hl).
  exists path, opt. split; [exact Hp|]. intros Hn Hd H2.
  exact (calculate_length_dist_is_L path L opt _ _ HL Hn Hd H2 Hl).
Qed.

(* requesting exactly the natural length, or NaN, changes nothing *)
Lemma request_natural_length path opt :
  is_nan (natural_len path opt) = false ->
  calculate_length path (Some (natural_len path opt)) opt = Done (path, natural path opt).
Proof. intros Hn. apply unchanged_length_keeps_natural, keeps_natural_same, Hn. Qed.

Lemma request_nan path L opt :
  is_nan L = true -> calculate_length path (Some L) opt = Done (path, natural path opt).
Proof. intros Hn. apply unchanged_length_keeps_natural, keeps_natural_nan, Hn. Qed.

(* LengthMono: T16d -- the cumulative lengths of calculate_length under IEEE
   rounding.  For a path whose vertices are finite and a zero seed
   (optimized_len = +0.0: every path outside the osu!-mode Catmull
   simplification) every cumulative length is +0, a positive finite number or
   +infinity (never NaN, never negative), the list starts at 0 and is
   NON-DECREASING for the IEEE comparison <=; every entry is finite exactly
   when the last natural one is (no intermediate overflow), which holds for
   every path of at most 2^53 vertices whose f32 segment lengths are finite.
   The same for every outcome of calculate_length with a requested length. *)
From RM Require Import Model.ControlPoints Model.Curve Proofs.BezierRefine Proofs.LengthFacts.
From Flocq Require Import Core BinarySingleNaN.
From Coq Require Import Reals Lra.
Require Import ZifyBool.
Open Scope R_scope.

(* ---------- generic: the class "+0, positive finite, +infinity" ---------- *)
Section G.
  Variables prec emax : Z.
  Context (Hp : Prec_gt_0 prec) (He : Prec_lt_emax prec emax).
  Notation fl := (binary_float prec emax).
  Notation RN := (round radix2 (SpecFloat.fexp prec emax) (round_mode mode_NE)).

  Definition posf (x : fl) : Prop := is_nan x = false /\ Bsign x = false.

  Lemma posf_B2R (x : fl) : posf x -> 0 <= B2R x.
  Proof.
    intros [Hn Hs]. destruct x as [s|s| |s m e H]; cbn in *; try lra; try discriminate.
    subst s. apply F2R_ge_0. cbn. lia.
  Qed.

  Lemma of_SF_inf (z : fl) : B2SF z = SpecFloat.S754_infinity false -> z = B754_infinity false.
  Proof. intros H. apply B2SF_inj. exact H. Qed.

  Lemma RN_le x y : x <= y -> RN x <= RN y.
  Proof. intros H. apply round_le; [apply (fexp_correct prec emax); exact Hp | apply valid_rnd_N | exact H]. Qed.

  Lemma RN_B2R (x : fl) : RN (B2R x) = B2R x.
  Proof. apply round_generic; [apply valid_rnd_N | apply generic_format_B2R]. Qed.

  (* adding a non-negative addend to a non-negative accumulator: the result is
     again in the class and is not below the accumulator (overflow to +inf
     included) *)
  Lemma plus_posf (a b : fl) : posf a -> posf b ->
    posf (Bplus mode_NE a b) /\ Bleb a (Bplus mode_NE a b) = true.
  Proof.
    intros Ha Hb. pose proof (posf_B2R a Ha) as Ra. pose proof (posf_B2R b Hb) as Rb.
    destruct Ha as [Na Sa], Hb as [Nb Sb].
    destruct (is_finite a) eqn:Fa; [destruct (is_finite b) eqn:Fb|].
    - pose proof (Bplus_correct prec emax Hp He mode_NE a b Fa Fb) as H.
      destruct (Rlt_bool _ _).
      + destruct H as (HR & HF & HS). split.
        * split; [destruct (Bplus mode_NE a b); cbn in *; congruence|].
          rewrite HS, Sa, Sb. destruct (Rcompare_spec (B2R a + B2R b) 0); try reflexivity. lra.
        * rewrite Bleb_correct by assumption. apply Rle_bool_true. rewrite HR, <- (RN_B2R a) at 1.
          apply RN_le. lra.
      + destruct H as [H _]. rewrite Sa in H. apply of_SF_inf in H. rewrite H.
        split; [split; reflexivity|]. destruct a as [s|s| |s m e Hm]; cbn in *; try discriminate; subst; reflexivity.
    - destruct b as [sb|sb| |sb mb eb Hmb]; cbn in Fb, Nb, Sb; try discriminate. subst sb.
      destruct a as [s|s| |s m e Hm]; cbn in Fa, Sa; try discriminate; subst; cbn; repeat split; reflexivity.
    - destruct a as [s|s| |s m e Hm]; cbn in Fa, Na, Sa; try discriminate. subst s.
      destruct b as [sb|sb| |sb mb eb Hmb]; cbn in Nb, Sb; try discriminate; subst; cbn; repeat split; reflexivity.
  Qed.

  (* x * x *)
  Lemma mult_self_posf (x : fl) : is_nan x = false -> posf (Bmult mode_NE x x).
  Proof.
    intros Hn. destruct x as [s|s| |s m e Hm] eqn:E; try discriminate.
    - cbn. split; [reflexivity|]. apply Bool.xorb_nilpotent.
    - cbn. split; [reflexivity|]. apply Bool.xorb_nilpotent.
    - rewrite <- E. pose proof (Bmult_correct prec emax Hp He mode_NE x x) as H.
      assert (Fx : is_finite x = true) by (rewrite E; reflexivity).
      assert (Sx : xorb (Bsign x) (Bsign x) = false) by apply Bool.xorb_nilpotent.
      destruct (Rlt_bool _ _).
      + destruct H as (HR & HF & HS). rewrite Fx in HF. cbn in HF.
        assert (Nz : is_nan (Bmult mode_NE x x) = false) by (destruct (Bmult mode_NE x x); cbn in *; congruence).
        split; [exact Nz|]. rewrite (HS Nz). exact Sx.
      + rewrite Sx in H. apply of_SF_inf in H. rewrite H. split; reflexivity.
  Qed.

  Lemma sqrt_posf (x : fl) : posf x -> posf (Bsqrt mode_NE x).
  Proof.
    intros [Hn Hs]. destruct x as [s|s| |s m e Hm] eqn:E; cbn in Hn, Hs; try discriminate; subst s.
    - split; reflexivity.
    - split; reflexivity.
    - rewrite <- E. destruct (Bsqrt_correct prec emax Hp He mode_NE x) as (_ & HF & HS).
      rewrite E in HF at 2.
      assert (Nz : is_nan (Bsqrt mode_NE x) = false) by (destruct (Bsqrt mode_NE x); cbn in *; congruence).
      split; [exact Nz|]. rewrite (HS Nz), E. reflexivity.
  Qed.

  (* a - b for finite a, b is never NaN *)
  Lemma minus_fin_notnan (a b : fl) : is_finite a = true -> is_finite b = true ->
    is_nan (Bminus mode_NE a b) = false.
  Proof.
    intros Fa Fb. pose proof (Bminus_correct prec emax Hp He mode_NE a b Fa Fb) as H.
    destruct (Rlt_bool _ _).
    - destruct H as (_ & HF & _). destruct (Bminus mode_NE a b); cbn in *; congruence.
    - destruct H as [H _]. destruct (Bminus mode_NE a b); cbn in *; try reflexivity.
      unfold binary_overflow in H. cbn in H. discriminate.
  Qed.

  (* rounding a positive number m * 2^e into the format *)
  Lemma normalize_posf (m : positive) (e : Z) :
    posf (binary_normalize prec emax Hp He mode_NE (Zpos m) e false).
  Proof.
    pose proof (binary_normalize_correct prec emax Hp He mode_NE (Zpos m) e false) as H. cbv zeta in H.
    assert (Hpos : 0 < F2R (Float radix2 (Zpos m) e)) by (apply F2R_gt_0; cbn; lia).
    destruct (Rlt_bool _ _).
    - destruct H as (_ & HF & HS).
      split; [destruct (binary_normalize _ _ _ _ _ _ _ _); cbn in *; congruence|].
      rewrite HS. rewrite Rcompare_Gt by exact Hpos. reflexivity.
    - rewrite Rlt_bool_false in H by lra. apply of_SF_inf in H. rewrite H. split; reflexivity.
  Qed.

  (* order facts inside the class *)
  Lemma posf_le_finite (x y : fl) : posf x -> Bleb x y = true -> is_finite y = true -> is_finite x = true.
  Proof.
    intros [Hn Hs] Hle Fy. destruct x as [s|s| |s m e Hm]; cbn in *; try reflexivity; try discriminate.
    subst s. destruct y as [sy|sy| |sy my ey Hmy]; cbn in *; try discriminate; destruct sy; discriminate.
  Qed.

  Lemma Bleb_refl (x : fl) : is_nan x = false -> Bleb x x = true.
  Proof.
    intros Hn. unfold Bleb, SpecFloat.SFleb.
    destruct x as [s|s| |s m e Hm]; cbn in *; try discriminate; try destruct s; try reflexivity;
      rewrite Z.compare_refl, Pos.compare_cont_refl; reflexivity.
  Qed.

  Lemma Bleb_posf_inf (x : fl) : is_nan x = false -> Bleb x (B754_infinity false) = true.
  Proof. destruct x as [s|[]| |[] m e Hm]; cbn; intros; try discriminate; reflexivity. Qed.

  (* transitivity inside the class *)
  Lemma Bleb_trans_posf (x y z : fl) : posf x -> posf y -> posf z ->
    Bleb x y = true -> Bleb y z = true -> Bleb x z = true.
  Proof.
    intros Px Py Pz H1 H2. destruct (is_finite z) eqn:Fz.
    - pose proof (posf_le_finite y z Py H2 Fz) as Fy. pose proof (posf_le_finite x y Px H1 Fy) as Fx.
      rewrite Bleb_correct in * by assumption.
      apply Rle_bool_true. destruct (Rle_bool_spec (B2R x) (B2R y)); try discriminate.
      destruct (Rle_bool_spec (B2R y) (B2R z)); try discriminate. lra.
    - destruct Pz as [Nz Sz]. destruct z as [s|s| |s m e Hm]; cbn in *; try discriminate. subst s.
      apply Bleb_posf_inf. apply Px.
  Qed.

  Lemma Bltb_Bleb (x y : fl) : Bltb x y = true -> Bleb x y = true.
  Proof.
    unfold Bltb, Bleb, SpecFloat.SFltb, SpecFloat.SFleb. destruct (SpecFloat.SFcompare (B2SF x) (B2SF y)) as [[]|]; auto.
  Qed.
End G.

(* ---------- the two instances ---------- *)

Definition pos64 (x : F64) : Prop := is_nan x = false /\ Bsign x = false.
Definition pos32 (x : F32) : Prop := is_nan x = false /\ Bsign x = false.
Definition fin_pos (p : Pos) : Prop := is_finite (px p) = true /\ is_finite (py p) = true.

Lemma f64_of_f32_pos x : pos32 x -> pos64 (f64_of_f32 x).
Proof.
  intros [Hn Hs]. destruct x as [s|s| |s m e Hm]; cbn in Hn, Hs; try discriminate; subst s.
  - split; reflexivity.
  - split; reflexivity.
  - exact (normalize_posf 53 1024 Hp64 He64 m e).
Qed.

Lemma f32_of_f64_pos x : pos64 x -> pos32 (f32_of_f64 x).
Proof.
  intros [Hn Hs]. destruct x as [s|s| |s m e Hm]; cbn in Hn, Hs; try discriminate; subst s.
  - split; reflexivity.
  - split; reflexivity.
  - exact (normalize_posf 24 128 Hp32 He32 m e).
Qed.

(* the f32 length of a vector without NaN coordinates: +0, positive or +inf *)
Lemma plen_pos v : is_nan (px v) = false -> is_nan (py v) = false -> pos32 (plen v).
Proof.
  intros Hx Hy. unfold plen. apply f32_of_f64_pos.
  apply (sqrt_posf 53 1024 Hp64 He64). apply f64_of_f32_pos.
  apply (plus_posf 24 128 Hp32 He32); apply (mult_self_posf 24 128 Hp32 He32); assumption.
Qed.

Lemma seglen_pos a b : fin_pos a -> fin_pos b -> pos64 (f64_of_f32 (plen (psub b a))).
Proof.
  intros [Ax Ay] [Bx By]. apply f64_of_f32_pos. apply plen_pos; cbn [psub px py];
    apply (minus_fin_notnan 24 128 Hp32 He32); assumption.
Qed.

Lemma zero_pos64 : pos64 D.zero.
Proof. split; reflexivity. Qed.

Lemma D_add_pos a b : pos64 a -> pos64 b -> pos64 (D.add a b) /\ D.le a (D.add a b) = true.
Proof. exact (plus_posf 53 1024 Hp64 He64 a b). Qed.

Lemma lt_pos64 v L : pos64 v -> D.lt v L = true -> pos64 L.
Proof.
  intros [Hn Hs]. unfold D.lt, flt, Bltb, SpecFloat.SFltb.
  destruct v as [s|s| |s m e Hm]; cbn in Hn, Hs; try discriminate; subst s;
    destruct L as [sl|sl| |sl ml el Hml]; cbn; try discriminate; destruct sl; try discriminate;
    intros _; split; reflexivity.
Qed.

(* ---------- non-decreasing lists ---------- *)
Local Open Scope nat_scope.

Definition nondec (l : list F64) : Prop :=
  forall i x y, nth_error l i = Some x -> nth_error l (S i) = Some y -> D.le x y = true.

Lemma nondec_nil : nondec [].
Proof. intros [|i] x y H; discriminate. Qed.
Lemma nondec_one x : nondec [x].
Proof. intros [|[|i]] a b H1 H2; discriminate. Qed.
Lemma nondec_cons x y t : D.le x y = true -> nondec (y :: t) -> nondec (x :: y :: t).
Proof.
  intros H N [|i] a b Ha Hb.
  - cbn in Ha, Hb. inversion Ha; inversion Hb; subst. exact H.
  - exact (N i a b Ha Hb).
Qed.
Lemma nondec_tail x t : nondec (x :: t) -> nondec t.
Proof. intros N i a b Ha Hb. exact (N (S i) a b Ha Hb). Qed.
Lemma nondec_head x y t : nondec (x :: y :: t) -> D.le x y = true.
Proof. intros N. exact (N 0 x y eq_refl eq_refl). Qed.

Lemma nondec_firstn k l : nondec l -> nondec (firstn k l).
Proof.
  intros N i x y Hx Hy.
  assert (Hi : S i < k).
  { assert (S i < length (firstn k l)) by (apply nth_error_Some; congruence).
    rewrite firstn_length in H. lia. }
  rewrite nth_error_firstn in Hx, Hy by lia. exact (N i x y Hx Hy).
Qed.

Lemma nondec_snoc l z :
  nondec l -> (forall v, nth_error l (Nat.pred (length l)) = Some v -> D.le v z = true) -> nondec (l ++ [z]).
Proof.
  intros N Hz i x y Hx Hy.
  destruct (Nat.lt_ge_cases (S i) (length l)) as [Hi|Hi].
  - rewrite nth_error_app1 in Hx, Hy by lia. exact (N i x y Hx Hy).
  - assert (Hlt : S i < length (l ++ [z])) by (apply nth_error_Some; congruence).
    rewrite app_length in Hlt. cbn [length] in Hlt.
    assert (E : S i = length l) by lia.
    rewrite nth_error_app1 in Hx by lia. rewrite nth_error_app2 in Hy by lia.
    replace (S i - length l) with 0 in Hy by lia. cbn in Hy. inversion Hy; subst y.
    apply Hz. rewrite <- E. exact Hx.
Qed.

(* i <= j -> l[i] <= l[j], inside the class *)
Lemma nondec_le l : nondec l -> Forall pos64 l ->
  forall i j x y, i <= j -> nth_error l i = Some x -> nth_error l j = Some y -> D.le x y = true.
Proof.
  intros N P i j x y Hij Hx Hy. revert y Hy. induction Hij as [|j Hij IH]; intros y Hy.
  - rewrite Hx in Hy. inversion Hy; subst.
    apply (Bleb_refl 53 1024). rewrite Forall_forall in P. apply (P y). eapply nth_error_In; eauto.
  - destruct (nth_error l j) as [w|] eqn:Ew.
    + rewrite Forall_forall in P.
      apply (Bleb_trans_posf 53 1024 x w y).
      * apply P. eapply nth_error_In; eauto.
      * apply P. eapply nth_error_In; eauto.
      * apply P. eapply nth_error_In; eauto.
      * apply IH. reflexivity.
      * exact (N j w y Ew Hy).
    + apply nth_error_None in Ew. assert (S j < length l) by (apply nth_error_Some; congruence). lia.
Qed.

Lemma last_cons_shift {A} (t : list A) : forall x y, last (y :: t) x = last t y.
Proof. induction t as [|a t IH]; intros x y; [reflexivity|]. change (last (y :: a :: t) x) with (last (a :: t) x). rewrite (IH x a), (IH y a). reflexivity. Qed.

(* all entries are finite as soon as the last one is *)
Lemma nondec_finite x l : nondec (x :: l) -> Forall pos64 (x :: l) ->
  is_finite (last l x) = true -> Forall (fun v => is_finite v = true) (x :: l).
Proof.
  revert x. induction l as [|y t IH]; intros x N P F.
  - constructor; [exact F|constructor].
  - inversion P as [|? ? Px Pt]; subst.
    assert (Ft : Forall (fun v => is_finite v = true) (y :: t)).
    { apply IH; [eapply nondec_tail; eauto|exact Pt|].
      rewrite <- (last_cons_shift t x y). exact F. }
    constructor; [|exact Ft]. inversion Ft; subst.
    apply (posf_le_finite 53 1024 x y Px); [exact (nondec_head _ _ _ N)|assumption].
Qed.

Lemma In_firstn {A} k (l : list A) x : In x (firstn k l) -> In x l.
Proof.
  revert l; induction k as [|k IH]; intros [|a t] H; cbn in *; try contradiction.
  destruct H as [->|H]; [now left|right; now apply IH].
Qed.

Lemma Forall_firstn' {A} (Q : A -> Prop) k l : Forall Q l -> Forall Q (firstn k l).
Proof. rewrite !Forall_forall. intros H x Hx. apply H. eapply In_firstn; eauto. Qed.

(* ---------- the natural cumulative lengths ---------- *)

Lemma cum_lengths_chain path : forall acc, Forall fin_pos path -> pos64 acc ->
  nondec (acc :: fst (cum_lengths acc path)) /\
  Forall pos64 (fst (cum_lengths acc path)) /\
  snd (cum_lengths acc path) = last (fst (cum_lengths acc path)) acc.
Proof.
  induction path as [|a [|b t] IH]; intros acc Hf Hacc.
  - cbn. split; [apply nondec_one|]. split; [constructor|reflexivity].
  - cbn. split; [apply nondec_one|]. split; [constructor|reflexivity].
  - rewrite cum_lengths_cons2. cbn [fst snd].
    inversion Hf as [|? ? Fa Ft]; subst. inversion Ft as [|? ? Fb _]; subst.
    destruct (D_add_pos acc _ Hacc (seglen_pos a b Fa Fb)) as [Pn Ln].
    destruct (IH _ Ft Pn) as (N & P & E).
    split; [apply nondec_cons; assumption|]. split; [constructor; assumption|].
    rewrite E. symmetry. apply last_cons_shift.
Qed.

(* T16d for the natural lengths (zero seed) *)
Theorem natural_nondecreasing path :
  Forall fin_pos path ->
  nondec (natural path D.zero) /\ Forall pos64 (natural path D.zero) /\
  pos64 (natural_len path D.zero) /\
  (is_finite (natural_len path D.zero) = true ->
   Forall (fun v => is_finite v = true) (natural path D.zero)).
Proof.
  intros Hf. destruct (cum_lengths_chain path D.zero Hf zero_pos64) as (N & P & E).
  unfold natural, natural_len.
  assert (PA : Forall pos64 (D.zero :: fst (cum_lengths D.zero path))) by (constructor; [exact zero_pos64|exact P]).
  split; [exact N|]. split; [exact PA|]. split.
  - rewrite E. set (l := fst (cum_lengths D.zero path)) in *.
    destruct l as [|y t']; [exact zero_pos64|].
    rewrite Forall_forall in P. apply P.
    destruct (@exists_last _ (y :: t') ltac:(discriminate)) as (l' & z & Ez). rewrite Ez, last_last.
    apply in_or_app. right. now left.
  - intros F. apply nondec_finite; [exact N|exact PA|]. rewrite <- E. exact F.
Qed.

Lemma natural_last_nth path opt : 2 <= length path ->
  nth_error (natural path opt) (Nat.pred (length (natural path opt))) = Some (natural_len path opt).
Proof.
  intros H. rewrite <- (natural_len_last path opt H).
  set (l := natural path opt). assert (Hl : l <> []) by (unfold l, natural; discriminate).
  destruct (exists_last Hl) as (l' & z & ->). rewrite last_last, app_length. cbn [length].
  rewrite Nat.add_1_r. cbn [Nat.pred]. rewrite nth_error_app2 by lia. rewrite Nat.sub_diag. reflexivity.
Qed.

(* ---------- every outcome of calculate_length (zero seed) ---------- *)

Definition lengths_ok (lens : list F64) : Prop :=
  (exists t, lens = D.zero :: t) /\ nondec lens /\ Forall pos64 lens.

Theorem calculate_length_nondecreasing path e path' lens :
  Forall fin_pos path -> calculate_length path e D.zero = Done (path', lens) ->
  lengths_ok lens /\
  (is_finite (natural_len path D.zero) = true -> (forall L, e = Some L -> is_finite L = true) ->
   Forall (fun v => is_finite v = true) lens).
Proof.
  intros Hf H.
  destruct (natural_nondecreasing path Hf) as (N & P & Pc & Fin).
  pose proof (calculate_length_cases path e D.zero) as C. cbv zeta in C.
  assert (Hnat : lengths_ok (natural path D.zero)).
  { split; [eexists; reflexivity|]. split; assumption. }
  assert (Hzero : lengths_ok [D.zero] /\ Forall (fun v : F64 => is_finite v = true) [D.zero]).
  { split; [split; [eexists; reflexivity|split; [apply nondec_one|constructor; [exact zero_pos64|constructor]]]|].
    constructor; [reflexivity|constructor]. }
  destruct e as [L|].
  - destruct (keeps_natural (natural_len path D.zero) L).
    { rewrite C in H. apply Done_pair_inj in H; destruct H as [<- <-]. split; [exact Hnat|]. intros F _. now apply Fin. }
    destruct (last_two_equal path && D.gt L (natural_len path D.zero))%bool eqn:E2.
    { rewrite C in H. apply Done_pair_inj in H; destruct H as [<- <-].
      assert (H2 : 2 <= length path).
      { apply andb_prop in E2. destruct E2 as [E2 _]. unfold last_two_equal in E2.
        rewrite <- (rev_length path). destruct (rev path) as [|b [|a r]]; try discriminate. cbn; lia. }
      assert (Nn : nondec (natural path D.zero ++ [natural_len path D.zero])).
      { apply nondec_snoc; [exact N|]. intros v Hv. rewrite (natural_last_nth path D.zero H2) in Hv.
        inversion Hv; subst. apply (Bleb_refl 53 1024). apply Pc. }
      assert (Pn : Forall pos64 (natural path D.zero ++ [natural_len path D.zero])).
      { apply Forall_app. split; [exact P|constructor; [exact Pc|constructor]]. }
      split; [split; [eexists; reflexivity|split; assumption]|].
      intros F _. apply Forall_app. split; [now apply Fin|constructor; [exact F|constructor]]. }
    destruct (Nat.leb (length path) 1).
    { rewrite C in H. apply Done_pair_inj in H; destruct H as [<- <-]. split; [apply Hzero|]. intros _ _. apply Hzero. }
    destruct (last_valid (removelast (natural path D.zero)) L) as [|k1] eqn:Ek.
    { rewrite C in H. apply Done_pair_inj in H; destruct H as [<- <-]. split; [apply Hzero|]. intros _ _. apply Hzero. }
    destruct C as (p' & _ & Hk & C). rewrite C in H. apply Done_pair_inj in H; destruct H as [<- <-].
    (* the entry before L is strictly below L *)
    destruct (last_valid_spec (removelast (natural path D.zero)) L) as [S1 _].
    destruct (S1 k1 Ek) as (v & Hv & Hlt).
    pose proof (natural_length path D.zero) as Hnl.
    assert (Hv' : nth_error (natural path D.zero) k1 = Some v).
    { rewrite removelast_firstn_len in Hv.
      assert (k1 < Nat.pred (length (natural path D.zero))).
      { assert (k1 < length (firstn (Nat.pred (length (natural path D.zero))) (natural path D.zero))) by (apply nth_error_Some; congruence).
        rewrite firstn_length in H. lia. }
      rewrite nth_error_firstn in Hv by lia. exact Hv. }
    assert (Pv : pos64 v). { rewrite Forall_forall in P. apply P. eapply nth_error_In; eauto. }
    pose proof (lt_pos64 v L Pv Hlt) as PL.
    assert (Hlen : length (firstn (S k1) (natural path D.zero)) = S k1) by (rewrite firstn_length; lia).
    assert (Nn : nondec (firstn (S k1) (natural path D.zero) ++ [L])).
    { apply nondec_snoc; [apply nondec_firstn; exact N|]. intros w Hw. rewrite Hlen in Hw. cbn [Nat.pred] in Hw.
      rewrite nth_error_firstn in Hw by lia. rewrite Hv' in Hw. inversion Hw; subst.
      apply (Bltb_Bleb 53 1024). exact Hlt. }
    assert (Pn : Forall pos64 (firstn (S k1) (natural path D.zero) ++ [L])).
    { apply Forall_app. split; [apply Forall_firstn'; exact P|constructor; [exact PL|constructor]]. }
    split; [split; [unfold natural; cbn [firstn app]; eexists; reflexivity|split; assumption]|].
    intros _ FL. specialize (FL L eq_refl).
    unfold natural in *. cbn [firstn app] in *.
    apply nondec_finite; [exact Nn|exact Pn|]. 
    rewrite last_last. exact FL.
  - rewrite C in H. apply Done_pair_inj in H; destruct H as [<- <-]. split; [exact Hnat|]. intros F _. now apply Fin.
Qed.

(* ---------- when is the seed zero: everything outside the osu!-mode Catmull simplification ---------- *)

Definition no_catmull (pts : list PathControlPoint) : Prop :=
  Forall (fun cp => pc_type cp <> Some Catmull) pts.

Section Seed.
  Context {B : Type}.
  Variable bezier : list Pos -> list Pos -> B -> outcome (list Pos * B).
  Variable lm : Libm.

  Lemma bez3_opt path sub opt b path' opt' b' :
    bez3 bezier path sub opt b = Done (path', opt', b') -> opt' = opt.
  Proof.
    unfold bez3. destruct (bezier path sub b) as [[p bb]| |]; cbn [obind]; try discriminate.
    intros H. inversion H. reflexivity.
  Qed.

  Lemma calculate_subpath_opt osu path sub kind opt b path' opt' b' :
    calculate_subpath bezier lm osu path sub kind opt b = Done (path', opt', b') ->
    osu = false \/ kind <> Catmull -> opt' = opt.
  Proof.
    intros H Hc. destruct kind; cbn [calculate_subpath] in H.
    - destruct Hc as [->|Hc]; [|congruence].
      destruct (approximate_catmull sub); cbn [obind negb] in H; try discriminate. inversion H. reflexivity.
    - eapply bez3_opt; eauto.
    - inversion H. reflexivity.
    - destruct sub as [|a [|m [|c [|d r]]]]; try (eapply bez3_opt; eauto; fail).
      destruct (approximate_circular_arc lm a m c) as [[arc|]| |]; cbn [obind] in H; try discriminate.
      + inversion H. reflexivity.
      + eapply bez3_opt; eauto.
  Qed.

  Lemma cpath_loop_opt k : forall i start n osu pts verts path opt b path' opt' b',
    cpath_loop bezier lm k i start n osu pts verts path opt b = Done (path', opt', b') ->
    osu = false \/ no_catmull pts -> opt' = opt.
  Proof.
    induction k as [|k IH]; intros i start n osu pts verts path opt b path' opt' b' H Hc.
    - cbn in H. inversion H. reflexivity.
    - cbn [cpath_loop] in H. unfold aget in H.
      destruct (nth_error pts i) as [cp|] eqn:Ecp; cbn [obind] in H; [|discriminate].
      destruct ((match pc_type cp with None => true | Some _ => false end) && Nat.ltb i (n - 1))%bool.
      { eapply IH; eauto. }
      destruct (Nat.ltb i start || Nat.leb (length verts) i)%bool; [discriminate|].
      destruct (firstn (S i - start) (skipn start verts)) as [|v [|v2 r]] eqn:Es; [discriminate| |].
      { eapply IH; eauto. }
      destruct (nth_error pts start) as [cps|] eqn:Ecps; cbn [obind] in H; [|discriminate].
      destruct (calculate_subpath bezier lm osu path (v :: v2 :: r)
                  (match pc_type cps with None => Linear | Some t => t end) opt b) as [[[p1 o1] b1]| |] eqn:Ecs;
        cbn [obind] in H; try discriminate.
      apply calculate_subpath_opt in Ecs.
      + subst o1. eapply IH; eauto.
      + destruct Hc as [Hc|Hc]; [now left|right].
        unfold no_catmull in Hc. rewrite Forall_forall in Hc.
        specialize (Hc cps (nth_error_In _ _ Ecps)).
        destruct (pc_type cps) as [t|]; [|discriminate]. intros ->. apply Hc. reflexivity.
  Qed.
End Seed.

Lemma calculate_path_L1_seed lm fuel mode pts path opt :
  calculate_path_L1 lm fuel mode pts = Done (path, opt) ->
  is_osu mode = false \/ no_catmull pts -> opt = D.zero.
Proof.
  unfold calculate_path_L1. destruct pts as [|p t] eqn:Ep; [intros H; inversion H; reflexivity|]. rewrite <- Ep.
  destruct (cpath_loop _ _ _ _ _ _ _ _ _ _ _ _) as [[[pa o] u]| |] eqn:E; cbn [obind]; try discriminate.
  intros H Hc. inversion H; subst. eapply cpath_loop_opt; eauto.
Qed.

(* T16d on computed curves *)
Theorem curve_lengths_nondecreasing lm fuel mode pts e c :
  curve_L1 lm fuel mode pts e = Done c ->
  is_osu mode = false \/ no_catmull pts ->
  exists path, calculate_path_L1 lm fuel mode pts = Done (path, D.zero) /\
    (Forall fin_pos path ->
     lengths_ok (c_lengths c) /\
     (is_finite (natural_len path D.zero) = true -> (forall L, e = Some L -> is_finite L = true) ->
      Forall (fun v => is_finite v = true) (c_lengths c))).
Proof.
  intros H Hc. destruct (curve_L1_unfold lm fuel mode pts e c H) as (path & opt & Hp & Hl).
  pose proof (calculate_path_L1_seed lm fuel mode pts path opt Hp Hc) as ->.
  exists path. split; [exact Hp|]. intros Hf.
  exact (calculate_length_nondecreasing path e (c_path c) (c_lengths c) Hf Hl).
Qed.

(* ---------- a concrete condition for "no intermediate overflow" ----------
   every f32 segment length finite and at most 2^53 vertices: every f32 is
   below 2^128, so the running sum after k steps is at most k * 2^128, a
   binary64 number far below the overflow threshold *)
Local Open Scope R_scope.
Local Notation RN64 := (round radix2 (SpecFloat.fexp 53 1024) (round_mode mode_NE)).

Lemma format64_F2R (k : Z) : (0 <= k < 2 ^ 53)%Z ->
  generic_format radix2 (SpecFloat.fexp 53 1024) (F2R (Float radix2 k 128)).
Proof.
  intros Hk. apply generic_format_F2R. intros Hnz. unfold cexp.
  assert (Hm : (mag radix2 (F2R (Float radix2 k 128)) <= 181)%Z).
  { apply mag_le_bpow.
    - apply F2R_neq_0. cbn. exact Hnz.
    - rewrite <- F2R_Zabs. cbn [Fnum Fexp]. unfold F2R. cbn [Fnum Fexp].
      replace 181%Z with (53 + 128)%Z by reflexivity. rewrite bpow_plus.
      apply Rmult_lt_compat_r; [apply bpow_gt_0|].
      change (bpow radix2 53) with (IZR (Z.pow_pos 2 53)). apply IZR_lt. rewrite Z.abs_eq by lia. lia. }
  unfold SpecFloat.fexp, SpecFloat.emin. lia.
Qed.

Lemma f64_of_f32_bound (x : F32) : is_finite x = true -> pos32 x ->
  is_finite (f64_of_f32 x) = true /\ 0 <= B2R (f64_of_f32 x) <= bpow radix2 128.
Proof.
  intros Fx [Hn Hs]. pose proof (bpow_gt_0 radix2 128) as Hb.
  destruct x as [s|s| |s m e Hm] eqn:Ex; cbn in Fx, Hs; try discriminate; subst s.
  - cbn. split; [reflexivity|lra].
  - pose proof (abs_B2R_lt_emax 24 128 (B754_finite false m e Hm)) as Hlt. cbn [B2R cond_Zopp] in Hlt.
    assert (Hpos : 0 < F2R (Float radix2 (Zpos m) e)) by (apply F2R_gt_0; cbn; lia).
    rewrite Rabs_pos_eq in Hlt by lra.
    pose proof (binary_normalize_correct 53 1024 Hp64 He64 mode_NE (Zpos m) e false) as H. cbv zeta in H.
    assert (H0 : 0 <= RN64 (F2R (Float radix2 (Zpos m) e))).
    { apply round_ge_generic; [apply (fexp_correct 53 1024); exact Hp64|apply valid_rnd_N|apply generic_format_0|lra]. }
    assert (H1 : RN64 (F2R (Float radix2 (Zpos m) e)) <= bpow radix2 128).
    { apply round_le_generic; [apply (fexp_correct 53 1024); exact Hp64|apply valid_rnd_N| |lra].
      apply generic_format_bpow. unfold SpecFloat.fexp, SpecFloat.emin. lia. }
    rewrite Rlt_bool_true in H.
    + destruct H as (HR & HF & _). cbn [f64_of_f32]. unfold D.of_ZE, of_ZE. rewrite HR. split; [exact HF|lra].
    + rewrite Rabs_pos_eq by exact H0. apply Rle_lt_trans with (1 := H1). apply bpow_lt. lia.
Qed.

Fixpoint segs_finite (path : list Pos) : Prop :=
  match path with
  | a :: ((b :: _) as t) => is_finite (plen (psub b a)) = true /\ segs_finite t
  | _ => True
  end.

Lemma cum_lengths_finite path : forall acc (k : Z),
  Forall fin_pos path -> segs_finite path -> (0 <= k)%Z -> (k + Z.of_nat (length path) <= 2 ^ 53)%Z ->
  is_finite acc = true -> 0 <= B2R acc <= IZR k * bpow radix2 128 ->
  is_finite (snd (cum_lengths acc path)) = true.
Proof.
  induction path as [|a [|b t] IH]; intros acc k Hf Hs Hk0 Hk Fa Ba; try exact Fa.
  rewrite cum_lengths_cons2. cbn [snd].
  inversion Hf as [|? ? Pa Ft]; subst. inversion Ft as [|? ? Pb _]; subst.
  destruct Hs as [Fs Hs]. cbn [length] in Hk.
  assert (P32 : pos32 (plen (psub b a))).
  { destruct Pa, Pb. apply plen_pos; cbn [psub px py]; apply (minus_fin_notnan 24 128 Hp32 He32); assumption. }
  destruct (f64_of_f32_bound _ Fs P32) as (Fx & Bx).
  set (x := f64_of_f32 (plen (psub b a))) in *.
  pose proof (Bplus_correct 53 1024 Hp64 He64 mode_NE acc x Fa Fx) as H.
  pose proof (bpow_gt_0 radix2 128) as Hb.
  assert (H0 : 0 <= RN64 (B2R acc + B2R x)).
  { apply round_ge_generic; [apply (fexp_correct 53 1024); exact Hp64|apply valid_rnd_N|apply generic_format_0|lra]. }
  assert (H1 : RN64 (B2R acc + B2R x) <= IZR (k + 1) * bpow radix2 128).
  { apply round_le_generic; [apply (fexp_correct 53 1024); exact Hp64|apply valid_rnd_N| |].
    - apply (format64_F2R (k + 1)). lia.
    - rewrite plus_IZR. lra. }
  rewrite Rlt_bool_true in H.
  - destruct H as (HR & HF & _).
    apply (IH (D.add acc x) (k + 1)%Z); try assumption; try lia.
    + cbn [length]. lia.
    + unfold D.add, fadd. rewrite HR. split; assumption.
  - rewrite Rabs_pos_eq by exact H0. apply Rle_lt_trans with (1 := H1).
    apply Rlt_le_trans with (bpow radix2 53 * bpow radix2 128).
    + apply Rmult_lt_compat_r; [exact Hb|]. change (bpow radix2 53) with (IZR (Z.pow_pos 2 53)). apply IZR_lt. lia.
    + rewrite <- bpow_plus. apply bpow_le. lia.
Qed.

Theorem natural_len_finite path :
  Forall fin_pos path -> segs_finite path -> (Z.of_nat (length path) <= 2 ^ 53)%Z ->
  is_finite (natural_len path D.zero) = true.
Proof.
  intros Hf Hs Hl. unfold natural_len.
  apply (cum_lengths_finite path D.zero 0); try assumption; try lia; try reflexivity.
  cbn. lra.
Qed.

(* EncGroups: T02d (b) -- the structure of what encode_timing_points writes.
     - [groups_of]: on sorted control points the group list is strictly sorted by
       total_cmp key, its timing points are exactly the map's timing points in order,
       each at its own time, every control-point time has a group and every group sits at
       a control-point time ([groups_of_spec]);
     - [props_new] never panics on sorted control points and is the value [props_at];
     - [group_lines] = the records of [group_decisions], by induction over the group list
       with the `last_props` as the generalised invariant ([group_lines_decisions]):
       per group an uninherited line iff the group has a timing point, then an inherited line
       "time,-100/sv,sig,bank,custom,vol,0,flags" iff the properties are not redundant
       w.r.t. the last written ones. *)
From RM Require Import Model.EncTimingSpec Proofs.BSearch Proofs.ControlPointsFacts Proofs.MapLevelFacts
  Proofs.EncCollect.
From RM Require Import Gen.Generated.
From Coq Require Import Sorting.Sorted.
From Coq Require Import ZifyBool.
Open Scope Z_scope.

(* ---------- a stable sort leaves a strictly sorted list alone ---------- *)

Section SortId.
  Context {O : Type} (key : O -> Z).

  Lemma sinsert_lt x l : Forall (fun y => key x < key y) l -> sinsert key x l = x :: l.
  Proof.
    destruct l as [|y r]; [reflexivity|]. intros H. inversion H; subst. cbn [sinsert].
    replace (key x <=? key y) with true by lia. reflexivity.
  Qed.

  Lemma ssort_sorted_id l : StronglySorted Z.lt (map key l) -> ssort key l = l.
  Proof.
    induction l as [|x r IH]; intros H; [reflexivity|]. cbn [map] in H. inversion H as [|? ? Hs Hf]; subst.
    cbn [ssort]. rewrite (IH Hs). apply sinsert_lt. rewrite Forall_map in Hf. exact Hf.
  Qed.
End SortId.

(* ---------- groups ---------- *)

Definition group_timing (g : Group) : list TimingPoint :=
  match gr_timing g with Some t => [t] | None => [] end.

Record groups_inv (c : ControlPoints) (gs : list Group) : Prop := mkGI {
  gi_sorted : sorted gr_time gs;
  gi_timing : flat_map group_timing gs = cp_timing c;
  gi_own : forall g t, In g gs -> gr_timing g = Some t -> gr_time g = tp_time t }.

Lemma insert_group_spec gs t : sorted gr_time gs ->
  (insert_group gs t = gs /\ exists g, In g gs /\ K gr_time g = D.key t) \/
  (exists l1 l2, gs = l1 ++ l2 /\ insert_group gs t = l1 ++ mkGroup t None :: l2 /\
                 Forall (fun q => K gr_time q < D.key t) l1 /\ Forall (fun q => D.key t < K gr_time q) l2).
Proof.
  intros Hs. unfold insert_group. pose proof (search_split gr_time gs t Hs) as H.
  destruct (search gr_time gs t) as [i|i].
  - left. split; [reflexivity|]. destruct H as (l1 & p & l2 & -> & _ & Hk & _). exists p. split; [|exact Hk].
    apply in_or_app. right. left. reflexivity.
  - right. destruct H as (l1 & l2 & -> & Hlen & Hl & Hr). subst i. exists l1, l2.
    rewrite insert_nth_app. repeat split; assumption.
Qed.

Lemma flat_map_app' {A B} (f : A -> list B) l1 l2 : flat_map f (l1 ++ l2) = flat_map f l1 ++ flat_map f l2.
Proof. apply flat_map_app. Qed.

Lemma insert_group_inv c gs t : groups_inv c gs -> groups_inv c (insert_group gs t).
Proof.
  intros [Hs Ht Ho]. destruct (insert_group_spec gs t Hs) as [(-> & _)|(l1 & l2 & -> & -> & Hl & Hr)].
  - constructor; assumption.
  - constructor.
    + apply sorted_mid; assumption.
    + rewrite flat_map_app' in *. cbn [flat_map group_timing gr_timing app]. exact Ht.
    + intros g tp Hin Hg. apply in_app_or in Hin. destruct Hin as [Hin|[<-|Hin]].
      * apply Ho; [apply in_or_app; left; exact Hin | exact Hg].
      * discriminate Hg.
      * apply Ho; [apply in_or_app; right; exact Hin | exact Hg].
Qed.

(* the keys present only grow, the times come from the inserted ones *)
Lemma insert_group_keys gs t : sorted gr_time gs ->
  (exists g, In g (insert_group gs t) /\ K gr_time g = D.key t) /\
  (forall g, In g gs -> In g (insert_group gs t)) /\
  (forall g, In g (insert_group gs t) -> In g gs \/ gr_time g = t).
Proof.
  intros Hs. destruct (insert_group_spec gs t Hs) as [(-> & Hex)|(l1 & l2 & -> & -> & Hl & Hr)].
  - split; [exact Hex|]. split; auto.
  - split; [|split].
    + exists (mkGroup t None). split; [apply in_or_app; right; left; reflexivity | reflexivity].
    + intros g Hg. apply in_app_or in Hg. apply in_or_app. destruct Hg; [left|right; right]; assumption.
    + intros g Hg. apply in_app_or in Hg. destruct Hg as [Hg|[<-|Hg]].
      * left. apply in_or_app. left. exact Hg.
      * right. reflexivity.
      * left. apply in_or_app. right. exact Hg.
Qed.

Lemma fold_insert_inv c times : forall gs, groups_inv c gs ->
  groups_inv c (fold_left insert_group times gs) /\
  (forall g, In g gs -> In g (fold_left insert_group times gs)) /\
  (forall t, In t times -> exists g, In g (fold_left insert_group times gs) /\ K gr_time g = D.key t) /\
  (forall g, In g (fold_left insert_group times gs) -> In g gs \/ In (gr_time g) times).
Proof.
  induction times as [|t r IH]; intros gs Hi; cbn [fold_left].
  - split; [exact Hi|]. split; [auto|]. split; [intros t []|]. auto.
  - pose proof (insert_group_inv c gs t Hi) as Hi1.
    destruct (insert_group_keys gs t (gi_sorted _ _ Hi)) as ((g0 & Hg0 & Hk0) & Hmono & Hfrom).
    destruct (IH _ Hi1) as (Hi2 & Hm2 & Hc2 & Hf2).
    split; [exact Hi2|]. split; [intros g Hg; apply Hm2, Hmono, Hg|]. split.
    + intros u [<-|Hu]; [exists g0; split; [apply Hm2; exact Hg0 | exact Hk0] | apply Hc2; exact Hu].
    + intros g Hg. destruct (Hf2 g Hg) as [H|H]; [|right; right; exact H].
      destruct (Hfrom g H) as [H'|H']; [left; exact H' | right; left; symmetry; exact H'].
Qed.

(* T02d (b), the group list *)
Theorem groups_of_spec c : cp_sorted c ->
  groups_inv c (groups_of c) /\
  (forall t, In t (cp_times c) -> exists g, In g (groups_of c) /\ K gr_time g = D.key t) /\
  (forall g, In g (groups_of c) -> In (gr_time g) (cp_times c)).
Proof.
  intros (Ht & _). unfold groups_of.
  assert (Hk : map gr_key (map group_of_tp (cp_timing c)) = map (K tp_time) (cp_timing c)).
  { rewrite map_map. apply map_ext. intros p. reflexivity. }
  rewrite ssort_sorted_id by (rewrite Hk; exact Ht).
  assert (H0 : groups_inv c (map group_of_tp (cp_timing c))).
  { constructor.
    - unfold sorted. change (K gr_time) with gr_key. rewrite Hk. exact Ht.
    - clear. induction (cp_timing c) as [|p r IH]; [reflexivity|]. cbn [map flat_map group_timing group_of_tp gr_timing app].
      rewrite IH. reflexivity.
    - intros g t Hin Hg. apply in_map_iff in Hin. destruct Hin as (p & <- & _). cbn in Hg. inversion Hg; subst. reflexivity. }
  destruct (fold_insert_inv c (map dp_time (cp_difficulty c) ++ map ep_time (cp_effect c) ++ map sp_time (cp_sample c))
              _ H0) as (Hi & Hmono & Hcov & Hfrom).
  split; [exact Hi|]. split.
  - intros t Hin. unfold cp_times in Hin. apply in_app_or in Hin. destruct Hin as [Hin|Hin]; [|apply Hcov; exact Hin].
    apply in_map_iff in Hin. destruct Hin as (p & <- & Hp).
    exists (group_of_tp p). split; [apply Hmono; apply in_map; exact Hp | reflexivity].
  - intros g Hg. unfold cp_times. destruct (Hfrom g Hg) as [H|H]; [|apply in_or_app; right; exact H].
    apply in_map_iff in H. destruct H as (p & <- & Hp). apply in_or_app. left. cbn. apply in_map. exact Hp.
Qed.

(* ---------- ControlPointProperties::new on sorted control points ---------- *)

Lemma dp_lookup_sorted c t : cp_sorted c -> dp_lookup c t = last_not_after dp_time (cp_difficulty c) t.
Proof.
  intros (_ & Hd & _). unfold dp_lookup, difficulty_point_at. rewrite (at_opt_spec dp_time _ _ Hd). reflexivity.
Qed.
Lemma ep_lookup_sorted c t : cp_sorted c -> ep_lookup c t = last_not_after ep_time (cp_effect c) t.
Proof.
  intros (_ & _ & He & _). unfold ep_lookup, effect_point_at. rewrite (at_opt_spec ep_time _ _ He). reflexivity.
Qed.

Lemma props_new_at c time last ub : cp_sorted c -> props_new time c last ub = Done (props_at c time last ub).
Proof.
  intros Hc. pose proof (dp_lookup_sorted c time Hc) as Ed. pose proof (ep_lookup_sorted c time Hc) as Ee.
  destruct Hc as (_ & Hd & He & _).
  unfold props_new, props_at. rewrite Ed, Ee. unfold difficulty_point_at, effect_point_at.
  rewrite (at_opt_spec dp_time _ _ Hd), (at_opt_spec ep_time _ _ He). cbn [obind]. reflexivity.
Qed.

(* the timelines, as values, on sorted control points *)
Lemma sv_at_sorted c t : cp_sorted c -> sv_at c t = Done (dp_sv_or (last_not_after dp_time (cp_difficulty c) t)).
Proof. intros (_ & Hd & _). unfold sv_at, difficulty_point_at. rewrite (at_opt_spec dp_time _ _ Hd). reflexivity. Qed.
Lemma kiai_at_sorted c t : cp_sorted c -> kiai_at c t = Done (ep_kiai_or (last_not_after ep_time (cp_effect c) t)).
Proof. intros (_ & _ & He & _). unfold kiai_at, effect_point_at. rewrite (at_opt_spec ep_time _ _ He). reflexivity. Qed.
Lemma scroll_at_sorted c t : cp_sorted c -> scroll_at c t = Done (ep_scroll_or (last_not_after ep_time (cp_effect c) t)).
Proof. intros (_ & _ & He & _). unfold scroll_at, effect_point_at. rewrite (at_opt_spec ep_time _ _ He). reflexivity. Qed.

(* ---------- the `for group in groups` loop ---------- *)

Definition block_lines (d : gdec) : list line := map wrec_line (gd_block d).

Lemma block_lines_eq g p b :
  block_lines (mkGD g p b) =
  match gr_timing g with Some t => [tp_line (tp_time t) (tp_beat_len t) p true] | None => [] end ++
  (if b then [tp_line (gr_time g) (D.div f64_m100 (pr_sv p)) p false] else []).
Proof.
  unfold block_lines, gd_block. cbn [gd_group gd_props gd_inh]. destruct (gr_timing g), b; reflexivity.
Qed.

(* T02d (b): which lines are written *)
Theorem group_lines_decisions c : cp_sorted c -> forall gs last,
  group_lines c last gs = Done (flat_map block_lines (group_decisions c last gs)).
Proof.
  intros Hc. induction gs as [|g r IH]; intros last; [reflexivity|].
  cbn [group_lines group_decisions]. unfold has_timing.
  destruct (gr_timing g) as [t|] eqn:Eg.
  - rewrite (props_new_at c (gr_time g) last true Hc). cbn [obind]. cbv zeta beta iota.
    fold (props_timing (props_at c (gr_time g) last true)).
    destruct (props_redundant _ _); rewrite IH; cbn [obind flat_map]; rewrite block_lines_eq, Eg; reflexivity.
  - rewrite (props_new_at c (gr_time g) last false Hc). cbn [obind]. cbv zeta beta iota.
    destruct (props_redundant _ _); rewrite IH; cbn [obind flat_map]; rewrite block_lines_eq, Eg; reflexivity.
Qed.

(* the decisions carry the groups, in order *)
Lemma decisions_groups c : forall gs last, map gd_group (group_decisions c last gs) = gs.
Proof.
  induction gs as [|g r IH]; intros last; [reflexivity|]. cbn [group_decisions].
  destruct (props_redundant _ _); cbn [map gd_group]; rewrite IH; reflexivity.
Qed.

Section Enc.
  Variable dist_of : Z -> list PCP -> option F64 -> outcome F64.
  Variable events_of : F64 -> F64 -> F64 -> F64 -> F64 -> Z -> outcome (list EncEvent).

  Lemma flat_map_map {A B C} (f : A -> list B) (h : B -> C) l :
    flat_map (fun x => map h (f x)) l = map h (flat_map f l).
  Proof. induction l as [|x r IH]; [reflexivity|]. cbn [flat_map]. rewrite map_app, IH. reflexivity. Qed.

  (* the whole section: header, then the lines of the records *)
  Theorem enc_timing_points_records m c :
    enc_control_points dist_of events_of m = Done c -> cp_sorted c ->
    enc_timing_points dist_of events_of m = Done (header_tok SecTimingPoints :: map wrec_line (enc_records c)).
  Proof.
    intros E Hc. unfold enc_timing_points. unfold enc_control_points in E. rewrite E. cbn [obind].
    rewrite (group_lines_decisions c Hc). cbn [obind]. unfold enc_records, enc_decisions, block_lines.
    rewrite flat_map_map. reflexivity.
  Qed.
End Enc.

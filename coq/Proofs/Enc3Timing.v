(* Enc3Timing: T02d composed with the framing theorem -- ONE statement about decoding the lines of
   an encoding: the timing points of the second decode are those of the first, and the three
   timelines agree at every time. *)
From RM Require Import Model.EncSpec Proofs.EncFmt Proofs.EncImage Proofs.EncEdit Proofs.EncRound
     Proofs.Enc2Framing Proofs.Enc3Framing.
From RM Require Import Model.EncTimingSpec Proofs.ControlPointsFacts Proofs.EncTimingParse Proofs.EncTimingRT
     Proofs.Enc2Timing Proofs.Enc2SvRT.
From RM Require Import Gen.Generated.
Open Scope Z_scope.

Section Timing.
  Variables (fmt_f64 : F64 -> str) (fmt_f32 : F32 -> str) (fmt_int : Z -> str).
  Hypothesis Hfmt : fmt_ok fmt_f64 fmt_f32 fmt_int.
  Hypothesis Hlead : no_leading_zero fmt_int.
  Notation rline := (render fmt_f64 fmt_f32 fmt_int).

  Lemma read_back_mode m : g_mode (hov_general (bmv_ho (read_back m))) = g_mode (hov_general (bmv_ho m)).
  Proof. reflexivity. Qed.

  Theorem decoded_encoding_timing dist events lines m c ls dist2 m2 :
    Forall no_lf_line lines -> decode_beatmap dist lines = Done m -> d23_class m = false ->
    enc_control_points dist events m = Done c ->
    rt_classes (g_mode (hov_general (bmv_ho m))) c = true ->
    encode_lines dist events m = Done ls ->
    decode_beatmap dist2 (map rline ls) = Done m2 ->
    let c0 := hov_control_points (bmv_ho m) in
    let c2 := hov_control_points (bmv_ho m2) in
    cp_timing c2 = cp_timing c0 /\
    (forall t, sv_at c2 t = sv_at c0 t) /\
    (forall t, kiai_at c2 t = kiai_at c0 t) /\
    (forall t, scroll_at c2 t = scroll_at c0 t).
  Proof.
    intros Hl Hd H23 Ec Hcls He Hd2. cbv zeta.
    pose proof (decode_image_inv dist lines m Hl Hd H23) as Hok.
    destruct (encoding_computed_sections_decoded fmt_f64 fmt_f32 fmt_int Hfmt dist events m ls dist2 m2 Hok He Hd2)
      as (tp & ho & Etp & _ & Hrest). cbv zeta in Hrest.
    set (g := tpg_of (hov_general (bmv_ho (read_back m)))) in *.
    assert (Hg : tpg_mode g = g_mode (hov_general (bmv_ho m))) by reflexivity.
    rewrite <- Hg in Hcls.
    destruct (decoded_timing_round_trip_final dist events fmt_f64 fmt_f32 fmt_int Hfmt Hlead lines m c g Hl Hd Ec Hcls)
      as (tp' & c' & Etp' & Hdec & Ht & Hsv & Hk & Hs).
    rewrite Etp in Etp'. injection Etp' as <-.
    unfold tp_decode in Hdec.
    destruct (tp_run (tp_init g) (map rline tp)) as [[ts rs]| |] eqn:Erun; cbn [obind] in Hdec; try discriminate.
    destruct (tp_finish ts) as [cf| |] eqn:Ef; cbn [obind] in Hdec; try discriminate.
    injection Hdec as -> _.
    destruct (Hrest ts rs eq_refl) as (Hc2 & _). rewrite Ef in Hc2. injection Hc2 as <-.
    repeat split; assumption.
  Qed.
End Timing.

Print Assumptions decoded_encoding_timing.

(* BookmarkLimits: "numbers must parse and lie within +-(2^31-1)", for the
   bookmarks of the decoders.

   Proofs/SectionsFacts.v proves that every run of [parse_editor] stores only
   bookmarks within +-(2^31-1).  Here it is lifted through the framing driver:
   every bookmark of every decoded Editor value and of every decoded Beatmap
   lies within the limits, for every file (no hypothesis on the lines) and
   every curve-distance function. *)
From RM Require Import Model.Decoders Proofs.SectionsFacts Proofs.FramingFacts
     Proofs.DecodersFacts Proofs.DecodersTotal.
From RM Require Import Gen.Generated.
Open Scope Z_scope.

Lemma simple_editor_step sec st l :
  Forall within_parse_limits (ed_bookmarks st) ->
  Forall within_parse_limits (ed_bookmarks (fst (parser_of (simple_parsers SecEditor parse_editor) sec st l))).
Proof.
  intros H. destruct sec; open_parsers; unfold noop; cbn [fst]; try exact H.
  now apply parse_editor_bookmarks.
Qed.

Theorem decoded_editor_bookmarks lines :
  Forall within_parse_limits (ed_bookmarks (decode_editor lines)).
Proof.
  unfold decode_editor.
  apply (driver_invariant (fun _ => editor_default) (simple_parsers SecEditor parse_editor) (fun s => s)
           (fun st => Forall within_parse_limits (ed_bookmarks st)) (fun _ => Forall_nil _) simple_editor_step
           (fun v => Forall within_parse_limits (ed_bookmarks v))).
  intros st H. exact H.
Qed.

Theorem decoded_beatmap_bookmarks dist_of lines bv :
  decode_beatmap dist_of lines = Done bv ->
  Forall within_parse_limits (ed_bookmarks (bmv_editor bv)).
Proof. intros H. rewrite (beatmap_editor dist_of lines bv H). apply decoded_editor_bookmarks. Qed.

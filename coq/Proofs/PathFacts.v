(* PathFacts: T17a -- structural facts about the computed path that hold for
   every input in IEEE arithmetic: segment end points (linear, Bezier),
   fall-backs of perfect curves to Bezier, vertex counts, and the removal of
   the duplicated joint vertex. *)
From RM Require Import Model.ControlPoints Model.Curve Gen.Generated Proofs.BezierRefine.
Require Import ZifyBool.
Open Scope nat_scope.

(* ---------- invariants of fuelled loops ---------- *)

Section IterInv.
  Context {St R : Type}.
  Variable step : St -> St + outcome R.
  Variable Inv : St -> Prop.
  Variable Post : outcome R -> Prop.
  Hypothesis Post_fuel : Post OutOfFuel.
  Hypothesis Hstep : forall s, Inv s -> match step s with inl s' => Inv s' | inr r => Post r end.

  Lemma iterP_inv p : forall k, (forall s, Inv s -> Post (k s)) -> forall s, Inv s -> Post (iterP step p k s).
  Proof.
    induction p as [q IH|q IH|]; intros k Hk s Hs; cbn [iterP].
    - specialize (Hstep s Hs). destruct (step s) as [s'|r]; [|exact Hstep].
      apply IH; [|exact Hstep]. intros a Ha. apply IH; assumption.
    - apply IH; [|exact Hs]. intros a Ha. apply IH; assumption.
    - specialize (Hstep s Hs). destruct (step s) as [s'|r]; [|exact Hstep]. apply Hk. exact Hstep.
  Qed.

  Lemma iter_fuel_inv p s : Inv s -> Post (iter_fuel step p s).
  Proof. intros H. unfold iter_fuel. apply iterP_inv; [intros; exact Post_fuel|exact H]. Qed.
End IterInv.

(* ---------- Bezier: first and last emitted vertex ---------- *)

Lemma bezier_approx_pts_hd points : exists r, bezier_approx_pts points = hd pos0 points :: r.
Proof. unfold bezier_approx_pts. destruct (subdiv (length points) points). eexists. reflexivity. Qed.

Section BezFirst.
  Variables (path0 : list Pos) (P0 : Pos).

  Definition bz_inv (st : list (list Pos) * list Pos) : Prop :=
    (snd st = path0 /\ exists top rest, fst st = top :: rest /\ top <> [] /\ hd pos0 top = P0) \/
    (exists r, snd st = path0 ++ P0 :: r).

  Definition bz_post (o : outcome (list Pos)) : Prop :=
    match o with Done p => exists r, p = path0 ++ P0 :: r | _ => True end.

  Lemma bz_step st : bz_inv st ->
    match bspline_step1 st with inl st' => bz_inv st' | inr r => bz_post r end.
  Proof.
    destruct st as [stack path]. unfold bz_inv, bspline_step1. cbn [fst snd].
    intros [(Hp & top & rest & Hs & Hne & Hhd)|(r & Hp)].
    - subst stack path. destruct top as [|t0 tt]; [congruence|]. cbn [hd] in Hhd. subst t0.
      destruct (flat_enough (P0 :: tt)).
      + right. cbn [snd]. destruct (bezier_approx_pts_hd (P0 :: tt)) as (r & ->). cbn [hd]. eexists. reflexivity.
      + cbn [length]. rewrite subdiv_S. destruct (subdiv (length tt) (avg_step (P0 :: tt))) as [l r]. cbn [hd].
        left. cbn [fst snd]. split; [reflexivity|]. do 2 eexists. split; [reflexivity|]. split; [discriminate|reflexivity].
    - subst path. destruct stack as [|parent rest].
      + cbn [bz_post]. eexists. reflexivity.
      + destruct parent as [|q0 qt]; [exact I|].
        destruct (flat_enough (q0 :: qt)).
        * right. cbn [snd]. rewrite <- app_assoc. cbn [app]. eexists. reflexivity.
        * destruct (subdiv (length (q0 :: qt)) (q0 :: qt)) as [l r0]. right. cbn [snd]. eexists. reflexivity.
  Qed.
End BezFirst.

(* a Bezier / B-spline segment: the first emitted vertex is points[0], the
   last is points[p-1] *)
Theorem bezier_endpoints fuel path points path' :
  approximate_bezier_L1 fuel path points tt = Done (path', tt) ->
  exists mid, path' = path ++ hd pos0 points :: mid ++ [last points pos0].
Proof.
  unfold approximate_bezier_L1. intros H.
  destruct points as [|p0 pt] eqn:Ep.
  - destruct (iter_fuel bspline_step1 fuel ([[]], path)); discriminate.
  - rewrite <- Ep in *.
    assert (HI : bz_inv path (hd pos0 points) ([points], path)).
    { left. cbn [fst snd]. split; [reflexivity|]. do 2 eexists. split; [reflexivity|]. split; [rewrite Ep; discriminate|reflexivity]. }
    pose proof (iter_fuel_inv bspline_step1 (bz_inv path (hd pos0 points)) (bz_post path (hd pos0 points)) I
                  (bz_step path (hd pos0 points)) fuel _ HI) as HP.
    destruct (iter_fuel bspline_step1 fuel ([points], path)) as [p1| |]; cbn [obind] in H; try discriminate.
    cbn [bz_post] in HP. destruct HP as (r & ->).
    rewrite Ep in H at 1. inversion H. exists r. rewrite <- app_assoc. rewrite Ep. reflexivity.
Qed.

(* the same on the code level (L0), for any scratch-buffer contents *)
Corollary bezier_endpoints_L0 fuel path points b path' b' :
  bb_wf b -> approximate_bezier_L0 fuel path points b = Done (path', b') ->
  exists mid, path' = path ++ hd pos0 points :: mid ++ [last points pos0].
Proof.
  intros Hwf H. pose proof (approximate_bezier_refines fuel path points b Hwf) as R.
  destruct (approximate_bezier_L1 fuel path points tt) as [[p1 []]| |] eqn:E.
  - destruct R as (b2 & R & _). rewrite R in H. inversion H; subst. exact (bezier_endpoints fuel path points path' E).
  - rewrite R in H. discriminate.
  - rewrite R in H. discriminate.
Qed.

(* ---------- calculate_subpath: linear segments and fall-backs ---------- *)

Section Sub.
  Context {B : Type}.
  Variable bezier : list Pos -> list Pos -> B -> outcome (list Pos * B).
  Variable lm : Libm.

  (* linear segments copy their vertices *)
  Lemma linear_copies osu path sub opt b :
    calculate_subpath bezier lm osu path sub Linear opt b = Done (path ++ sub, opt, b).
  Proof. reflexivity. Qed.

  (* B-spline segments are the Bezier routine *)
  Lemma bspline_is_bezier osu path sub opt b :
    calculate_subpath bezier lm osu path sub BSpline opt b = bez3 bezier path sub opt b.
  Proof. reflexivity. Qed.

  (* a perfect-curve segment that does not have exactly three points is a Bezier *)
  Lemma perfect_not_three osu path sub opt b :
    length sub <> 3 ->
    calculate_subpath bezier lm osu path sub PerfectCurve opt b = bez3 bezier path sub opt b.
  Proof.
    intros H. unfold calculate_subpath.
    destruct sub as [|a [|m [|c [|x t]]]]; try reflexivity. cbn in H. congruence.
  Qed.

  (* three points: the arc when there is one, else Bezier *)
  Lemma perfect_three osu path a m c opt b :
    calculate_subpath bezier lm osu path [a; m; c] PerfectCurve opt b =
    obind (approximate_circular_arc lm a m c) (fun o =>
      match o with
      | Some arc => Done (path ++ arc, opt, b)
      | None => bez3 bezier path [a; m; c] opt b
      end).
  Proof. reflexivity. Qed.
End Sub.

(* collinear (degenerate triangle): no arc *)
Definition arc_det (a b c : Pos) : F32 :=
  S.sub (S.mul (S.sub (py b) (py a)) (S.sub (px c) (px a))) (S.mul (S.sub (px b) (px a)) (S.sub (py c) (py a))).

Lemma collinear_no_arc lm a b c :
  S.le (S.abs (arc_det a b c)) S.eps = true -> approximate_circular_arc lm a b c = Done None.
Proof.
  intros H. unfold approximate_circular_arc, circular_arc_properties. unfold arc_det in H. rewrite H. reflexivity.
Qed.

(* an arc that would need >= 1000 (arc_subpoint_cap) sub-points: no arc; else
   exactly sub_points vertices, 2 <= sub_points < 1000 *)
Lemma arc_sub_points_ge2 lm pr : (2 <= arc_sub_points lm pr)%Z.
Proof.
  unfold arc_sub_points.
  destruct (S.le (S.mul s2 (a_radius pr)) circular_arc_tolerance); [lia|].
  destruct (S.le (S.abs (S.mul s2 (l_acosf lm (S.sub S.one (S.div circular_arc_tolerance (a_radius pr)))))) S.eps); lia.
Qed.

Lemma arc_outcome lm a b c :
  match circular_arc_properties lm a b c with
  | Done (Some pr) =>
      if (arc_subpoint_cap <=? arc_sub_points lm pr)%Z
      then approximate_circular_arc lm a b c = Done None
      else exists arc, approximate_circular_arc lm a b c = Done (Some arc) /\
                       length arc = Z.to_nat (arc_sub_points lm pr) /\ 2 <= length arc < Z.to_nat arc_subpoint_cap
  | Done None => approximate_circular_arc lm a b c = Done None
  | Panic w => approximate_circular_arc lm a b c = Panic w
  | OutOfFuel => approximate_circular_arc lm a b c = OutOfFuel
  end.
Proof.
  unfold approximate_circular_arc.
  destruct (circular_arc_properties lm a b c) as [[pr|]| |]; cbn [obind]; try reflexivity.
  pose proof (arc_sub_points_ge2 lm pr) as H2.
  destruct (arc_subpoint_cap <=? arc_sub_points lm pr)%Z eqn:E; [reflexivity|].
  eexists. split; [reflexivity|]. rewrite map_length, seq_length. split; [reflexivity|]. lia.
Qed.

(* ---------- the joint vertex ---------- *)

(* rotate_left(1) + pop on path[path_len..] removes exactly path[path_len] *)
Lemma drop_joint_spec (pre : list Pos) x t :
  drop_joint (pre ++ x :: t) (length pre) = pre ++ t.
Proof.
  unfold drop_joint, pop. rewrite (firstn_app_exact (length pre)) by reflexivity.
  rewrite (skipn_app_exact (length pre)) by reflexivity. cbn [rotate_left1].
  rewrite app_assoc. apply removelast_last.
Qed.

(* it is removed exactly when it equals the last vertex of the previous segment *)
Lemma skip_first_spec (pre : list Pos) l x t :
  skip_first ((pre ++ [l]) ++ x :: t) (length (pre ++ [l])) = peqb l x.
Proof.
  unfold skip_first. rewrite app_length. cbn [length]. rewrite Nat.add_1_r.
  replace (nth_error ((pre ++ [l]) ++ x :: t) (S (length pre))) with (Some x).
  2:{ symmetry. replace (S (length pre)) with (length (pre ++ [l])) by (rewrite app_length; cbn; lia).
      apply nth_error_app_mid. }
  replace (nth_error ((pre ++ [l]) ++ x :: t) (length pre)) with (Some l); [reflexivity|].
  symmetry. rewrite <- app_assoc. cbn [app]. apply nth_error_app_mid.
Qed.

Lemma skip_first_nil (path : list Pos) : skip_first path 0 = false.
Proof. reflexivity. Qed.

(* a segment appended nothing: nothing to skip *)
Lemma skip_first_none (path : list Pos) : skip_first path (length path) = false.
Proof.
  unfold skip_first. destruct (length path) eqn:E; [reflexivity|].
  replace (nth_error path (S n)) with (@None Pos); [reflexivity|]. symmetry. apply nth_error_None. lia.
Qed.

(* ---------- Catmull: vertex counts ---------- *)

Lemma flat_map_const_len {A C} (f : A -> list C) k l :
  (forall a, length (f a) = k) -> length (flat_map f l) = length l * k.
Proof.
  intros H. induction l as [|a t IH]; cbn [flat_map length]; [reflexivity|].
  rewrite app_length, H, IH. lia.
Qed.

Lemma catmull_subpath_length v1 v2 v3 v4 : length (catmull_subpath v1 v2 v3 v4) = 2 * Z.to_nat catmull_detail.
Proof.
  unfold catmull_subpath.
  set (f := fun c : nat => _).
  assert (Hf : forall c, length (f c) = 2) by (intros c; unfold f; cbn [length]; reflexivity).
  rewrite (flat_map_const_len f 2 _ Hf). rewrite seq_length. apply Nat.mul_comm.
Qed.

Lemma catmull_rest_length pts : length (catmull_rest pts) = (length pts - 2) * (2 * Z.to_nat catmull_detail).
Proof.
  induction pts as [|v1 [|v2 [|v3 r]] IH]; try reflexivity.
  change (catmull_rest (v1 :: v2 :: v3 :: r)) with
    (catmull_subpath v1 v2 v3 (match r with v4 :: _ => v4 | [] => psub (pmul v3 s2) v2 end) ++ catmull_rest (v2 :: v3 :: r)).
  rewrite app_length, catmull_subpath_length, IH. cbn [length]. lia.
Qed.

(* 2 * CATMULL_DETAIL vertices per span, points.len() - 1 spans *)
Lemma catmull_length points cat :
  approximate_catmull points = Done cat -> length cat = (length points - 1) * (2 * Z.to_nat catmull_detail).
Proof.
  unfold approximate_catmull. destruct points as [|p0 [|p1 r]]; try discriminate.
  - intros H. assert (E : cat = []) by congruence. subst cat. reflexivity.
  - intros H.
    assert (E : cat = catmull_subpath p0 p0 p1 (match r with v4 :: _ => v4 | [] => psub (pmul p1 s2) p0 end)
                      ++ catmull_rest (p0 :: p1 :: r)) by congruence.
    subst cat. clear H. rewrite app_length, catmull_subpath_length, catmull_rest_length.
    generalize (2 * Z.to_nat catmull_detail). intros k. cbn [length].
    replace (S (S (length r)) - 2) with (length r) by lia.
    replace (S (S (length r)) - 1) with (S (length r)) by lia. reflexivity.
Qed.

(* the '(int)Infinity' workaround: when 2 * acosf(1 - tol / radius) is within
   f32::EPSILON of 0 the sub-point count is 2, whatever the angular range --
   such an arc never reaches the arc_subpoint_cap fall-back *)
Lemma arc_sub_points_degenerate lm pr :
  S.le (S.mul s2 (a_radius pr)) circular_arc_tolerance = false ->
  S.le (S.abs (S.mul s2 (l_acosf lm (S.sub S.one (S.div circular_arc_tolerance (a_radius pr)))))) S.eps = true ->
  arc_sub_points lm pr = 2%Z.
Proof. intros H1 H2. unfold arc_sub_points. rewrite H1, H2. reflexivity. Qed.

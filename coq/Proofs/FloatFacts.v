(* FloatFacts: a few exact identities of IEEE arithmetic (Flocq), used to
   state what position_at returns at a vertex's cumulative length:
   1 * x = x, x * 1 = x, x / x = 1 for finite x (x <> 0). *)
From RM Require Import Model.Floats.
From Flocq Require Import Core BinarySingleNaN.
From Coq Require Import Reals Lra.
Open Scope R_scope.

Section G.
  Variables prec emax : Z.
  Context (Hp : Prec_gt_0 prec) (He : Prec_lt_emax prec emax).
  Notation fl := (binary_float prec emax).

  (* a float that is +1.0 *)
  Definition is_one (o : fl) : Prop := is_finite o = true /\ B2R o = 1 /\ Bsign o = false.

  Lemma finite_not_nan (x : fl) : is_finite x = true -> is_nan x = false.
  Proof. destruct x; cbn; congruence. Qed.

  Lemma mul_one_l (o x : fl) : is_one o -> is_finite x = true -> Bmult mode_NE o x = x.
  Proof.
    intros (Hf & Hr & Hs) Hx.
    pose proof (Bmult_correct prec emax Hp He mode_NE o x) as H.
    rewrite Hr, Rmult_1_l in H.
    rewrite round_generic in H; [|apply valid_rnd_N|apply generic_format_B2R].
    rewrite Rlt_bool_true in H by apply abs_B2R_lt_emax.
    destruct H as (HR & HF & HS).
    assert (Hfin : is_finite (Bmult mode_NE o x) = true) by (rewrite HF, Hf, Hx; reflexivity).
    apply B2R_Bsign_inj; [exact Hfin|exact Hx|exact HR|].
    rewrite (HS (finite_not_nan _ Hfin)), Hs. apply Bool.xorb_false_l.
  Qed.

  Lemma mul_one_r (o x : fl) : is_one o -> is_finite x = true -> Bmult mode_NE x o = x.
  Proof.
    intros (Hf & Hr & Hs) Hx.
    pose proof (Bmult_correct prec emax Hp He mode_NE x o) as H.
    rewrite Hr, Rmult_1_r in H.
    rewrite round_generic in H; [|apply valid_rnd_N|apply generic_format_B2R].
    rewrite Rlt_bool_true in H by apply abs_B2R_lt_emax.
    destruct H as (HR & HF & HS).
    assert (Hfin : is_finite (Bmult mode_NE x o) = true) by (rewrite HF, Hf, Hx; reflexivity).
    apply B2R_Bsign_inj; [exact Hfin|exact Hx|exact HR|].
    rewrite (HS (finite_not_nan _ Hfin)), Hs. apply Bool.xorb_false_r.
  Qed.

  Lemma div_self (o x : fl) : is_one o -> is_finite x = true -> B2R x <> 0 -> Bdiv mode_NE x x = o.
  Proof.
    intros (Hf & Hr & Hs) Hx Hnz.
    pose proof (Bdiv_correct prec emax Hp He mode_NE x x Hnz) as H.
    replace (B2R x / B2R x) with (B2R o) in H by (rewrite Hr; field; exact Hnz).
    rewrite round_generic in H; [|apply valid_rnd_N|apply generic_format_B2R].
    rewrite Rlt_bool_true in H by apply abs_B2R_lt_emax.
    destruct H as (HR & HF & HS).
    assert (Hfin : is_finite (Bdiv mode_NE x x) = true) by (rewrite HF; exact Hx).
    apply B2R_Bsign_inj; [exact Hfin|exact Hf|exact HR|].
    rewrite (HS (finite_not_nan _ Hfin)), Hs. apply Bool.xorb_nilpotent.
  Qed.

  Lemma is_one_of_sf (o : fl) m e :
    B2SF o = SpecFloat.S754_finite false m e -> F2R (Float radix2 (Zpos m) e) = 1 -> is_one o.
  Proof.
    intros H HF. destruct o as [s|s| |s m' e' pf]; try discriminate.
    cbn in H. inversion H; subst. repeat split. exact HF.
  Qed.
End G.

Lemma one64_is_one : is_one 53 1024 D.one.
Proof.
  apply (is_one_of_sf 53 1024 D.one 4503599627370496 (-52)).
  - vm_compute. reflexivity.
  - unfold F2R. cbn. lra.
Qed.

Lemma one32_sf : B2SF S.one = SpecFloat.S754_finite false 8388608 (-23).
Proof. vm_compute. reflexivity. Qed.

Lemma one32_is_one : is_one 24 128 S.one.
Proof.
  apply (is_one_of_sf 24 128 S.one 8388608 (-23)); [exact one32_sf|].
  unfold F2R. cbn. lra.
Qed.

(* concrete equalities of floats go through the proof-free B2SF image *)
Lemma f32_of_one : f32_of_f64 D.one = S.one.
Proof. apply B2SF_inj. vm_compute. reflexivity. Qed.

Definition fin64 (x : F64) : Prop := is_finite x = true.
Definition fin32 (x : F32) : Prop := is_finite x = true.

Lemma D_mul_one_l x : fin64 x -> D.mul D.one x = x.
Proof. exact (mul_one_l 53 1024 Hp64 He64 D.one x one64_is_one). Qed.
Lemma S_mul_one_r x : fin32 x -> S.mul x S.one = x.
Proof. exact (mul_one_r 24 128 Hp32 He32 S.one x one32_is_one). Qed.
Lemma D_div_self x : fin64 x -> B2R x <> 0 -> D.div x x = D.one.
Proof. exact (div_self 53 1024 Hp64 He64 D.one x one64_is_one). Qed.

(* CatmullFacts: T17c -- the Catmull formulas of the model, read over the
   reals: the evaluated polynomial is the uniform Catmull-Rom spline segment
   and interpolates v2 at t = 0 and v3 at t = 1. *)
From RM Require Import Model.ControlPoints Model.Curve.
From Coq Require Import Reals Lra.
Open Scope R_scope.

Definition real_ops : Ops R := mkOps R Rplus Rminus Rmult Ropp IZR (/ 2).

Definition catmull_R (v1 v2 v3 v4 t : R) : R :=
  catmull_eval_g real_ops (catmull_coord_g real_ops v1 v2 v3 v4) t.

(* the uniform Catmull-Rom polynomial (matrix form, tension 1/2) *)
Definition catmull_rom (v1 v2 v3 v4 t : R) : R :=
  ((- t ^ 3 + 2 * t ^ 2 - t) * v1 + (3 * t ^ 3 - 5 * t ^ 2 + 2) * v2
   + (- 3 * t ^ 3 + 4 * t ^ 2 + t) * v3 + (t ^ 3 - t ^ 2) * v4) / 2.

Lemma catmull_is_catmull_rom v1 v2 v3 v4 t : catmull_R v1 v2 v3 v4 t = catmull_rom v1 v2 v3 v4 t.
Proof. unfold catmull_R, catmull_rom, catmull_eval_g, catmull_coord_g, real_ops. cbn. field. Qed.

Lemma catmull_at_0 v1 v2 v3 v4 : catmull_R v1 v2 v3 v4 0 = v2.
Proof. rewrite catmull_is_catmull_rom. unfold catmull_rom. field. Qed.

Lemma catmull_at_1 v1 v2 v3 v4 : catmull_R v1 v2 v3 v4 1 = v3.
Proof. rewrite catmull_is_catmull_rom. unfold catmull_rom. field. Qed.

(* C1 continuity across spans: the derivative at the ends is (v3 - v1)/2 and
   (v4 - v2)/2 -- stated on the polynomial's coefficients *)
Lemma catmull_coefficients v1 v2 v3 v4 :
  catmull_coord_g real_ops v1 v2 v3 v4 =
  (2 * v2, - v1 + v3, 2 * v1 - 5 * v2 + 4 * v3 - v4, - v1 + 3 * (v2 - v3) + v4).
Proof. reflexivity. Qed.

(* the executable model uses the very same two functions *)
Lemma model_uses_same_text :
  catmull_coord = catmull_coord_g f32_ops /\ catmull_eval = catmull_eval_g f32_ops.
Proof. split; reflexivity. Qed.

(* EncChrono: generic facts for T02d (c).
     - [cp_run_chrono]: a MIXED add history whose points are chronological per kind and later
       than everything stored yields: timing points appended, and the difficulty / effect /
       sample lists extended by the [compress]ion of the added points (T13c for interleaved
       histories; the four lists do not interact);
     - timelines as step functions ([tlr]): on a sorted list it is the lookup
       "latest point not after t, else the default"; compression does not change the
       timeline when redundancy implies equal values ([tlr_compress]); sampling a timeline
       at a sorted list of times that contains all its times reproduces it ([tlr_sample]);
       a list of optional emissions whose values are consistent with a full assignment
       has the timeline of that assignment ([tlr_emit]). *)
From RM Require Import Model.ControlPoints Proofs.BSearch Proofs.ControlPointsFacts Proofs.ControlPointsChrono.
From Coq Require Import Sorting.Sorted.
From Coq Require Import ZifyBool.
Open Scope Z_scope.

(* ---------- mixed chronological histories ---------- *)

Definition ops_T (ops : list cp_op) : list TimingPoint :=
  flat_map (fun o => match o with OpAddT p => [p] | _ => [] end) ops.
Definition ops_D (ops : list cp_op) : list DifficultyPoint :=
  flat_map (fun o => match o with OpAddD p => [p] | _ => [] end) ops.
Definition ops_E (ops : list cp_op) : list EffectPoint :=
  flat_map (fun o => match o with OpAddE p => [p] | _ => [] end) ops.
Definition ops_S (ops : list cp_op) : list SamplePoint :=
  flat_map (fun o => match o with OpAddS p => [p] | _ => [] end) ops.

Definition all_after {P} (time : P -> F64) (stored ps : list P) : Prop :=
  Forall (fun p => Forall (fun q => K time q < K time p) stored) ps.

Lemma all_after_tail {P} (time : P -> F64) l p r : all_after time l (p :: r) -> all_after time l r.
Proof. intros H. inversion H; assumption. Qed.

Lemma all_after_snoc {P} (time : P -> F64) l p r :
  chrono time (p :: r) -> all_after time l (p :: r) -> all_after time (l ++ [p]) r.
Proof.
  intros Hch H. destruct (chrono_cons _ _ _ Hch) as (_ & Hpr). inversion H as [|? ? Hp Hr]; subst.
  unfold all_after. rewrite Forall_forall in Hpr, Hr |- *. intros q Hq.
  apply Forall_snoc_lt; [exact Hp | apply Hpr; exact Hq].
Qed.

Lemma chrono_tail {P} (time : P -> F64) p r : chrono time (p :: r) -> chrono time r.
Proof. intros H. exact (proj1 (chrono_cons _ _ _ H)). Qed.

Lemma chrono_single {P} (time : P -> F64) p : chrono time [p].
Proof. constructor; constructor. Qed.

Lemma obind_Done_id {A} (x : outcome A) : obind x (fun a => Done a) = x.
Proof. destruct x; reflexivity. Qed.

Lemma add_difficulty_chrono1 c p : cp_sorted c ->
  Forall (fun q => K dp_time q < K dp_time p) (cp_difficulty c) ->
  add_difficulty c p =
  Done (mkCP (cp_timing c)
             (cp_difficulty c ++ compress dp_redundant (last_opt (cp_difficulty c)) (fun p => dp_redundant p dflt_dp) [p])
             (cp_effect c) (cp_sample c)).
Proof.
  intros Hc Hp. rewrite <- (add_difficulties_chrono [p] c Hc (chrono_single _ p)) by (constructor; [exact Hp|constructor]).
  cbn [add_difficulties]. symmetry. apply obind_Done_id.
Qed.
Lemma add_effect_chrono1 c p : cp_sorted c ->
  Forall (fun q => K ep_time q < K ep_time p) (cp_effect c) ->
  add_effect c p =
  Done (mkCP (cp_timing c) (cp_difficulty c)
             (cp_effect c ++ compress ep_redundant (last_opt (cp_effect c)) (fun p => ep_redundant p dflt_ep) [p])
             (cp_sample c)).
Proof.
  intros Hc Hp. rewrite <- (add_effects_chrono [p] c Hc (chrono_single _ p)) by (constructor; [exact Hp|constructor]).
  cbn [add_effects]. symmetry. apply obind_Done_id.
Qed.
Lemma add_sample_chrono1 c p : cp_sorted c ->
  Forall (fun q => K sp_time q < K sp_time p) (cp_sample c) ->
  add_sample c p =
  Done (mkCP (cp_timing c) (cp_difficulty c) (cp_effect c)
             (cp_sample c ++ compress sp_redundant (last_opt (cp_sample c)) (fun _ => false) [p])).
Proof.
  intros Hc Hp. rewrite <- (add_samples_chrono [p] c Hc (chrono_single _ p)) by (constructor; [exact Hp|constructor]).
  cbn [add_samples]. symmetry. apply obind_Done_id.
Qed.

(* one more point after a compressed prefix *)
Lemma compress_step {P} (red : P -> P -> bool) (dr : P -> bool) (l : list P) p r :
  l ++ compress red (last_opt l) dr (p :: r) =
  (l ++ compress red (last_opt l) dr [p]) ++
  compress red (last_opt (l ++ compress red (last_opt l) dr [p])) dr r.
Proof.
  cbn [compress]. destruct (match last_opt l with Some e => red p e | None => dr p end).
  - rewrite app_nil_r. reflexivity.
  - rewrite last_opt_app_single, <- app_assoc. reflexivity.
Qed.

Lemma sorted_compress1 {P} (time : P -> F64) (red : P -> P -> bool) (dr : P -> bool) l p :
  sorted time l -> Forall (fun q => K time q < K time p) l ->
  sorted time (l ++ compress red (last_opt l) dr [p]).
Proof.
  intros Hs Hp. cbn [compress]. destruct (match last_opt l with Some e => red p e | None => dr p end).
  - rewrite app_nil_r. exact Hs.
  - apply sorted_snoc; assumption.
Qed.

Lemma all_after_compress1 {P} (time : P -> F64) (red : P -> P -> bool) (dr : P -> bool) l p r :
  chrono time (p :: r) -> all_after time l (p :: r) ->
  all_after time (l ++ compress red (last_opt l) dr [p]) r.
Proof.
  intros Hch H. cbn [compress]. destruct (match last_opt l with Some e => red p e | None => dr p end).
  - rewrite app_nil_r. exact (all_after_tail _ _ _ _ H).
  - exact (all_after_snoc _ _ _ _ Hch H).
Qed.

Theorem cp_run_chrono ops : forall c, cp_sorted c ->
  chrono tp_time (ops_T ops) -> chrono dp_time (ops_D ops) ->
  chrono ep_time (ops_E ops) -> chrono sp_time (ops_S ops) ->
  all_after tp_time (cp_timing c) (ops_T ops) -> all_after dp_time (cp_difficulty c) (ops_D ops) ->
  all_after ep_time (cp_effect c) (ops_E ops) -> all_after sp_time (cp_sample c) (ops_S ops) ->
  cp_run c ops =
  Done (mkCP (cp_timing c ++ ops_T ops)
             (cp_difficulty c ++ compress dp_redundant (last_opt (cp_difficulty c)) (fun p => dp_redundant p dflt_dp) (ops_D ops))
             (cp_effect c ++ compress ep_redundant (last_opt (cp_effect c)) (fun p => ep_redundant p dflt_ep) (ops_E ops))
             (cp_sample c ++ compress sp_redundant (last_opt (cp_sample c)) (fun _ => false) (ops_S ops))).
Proof.
  induction ops as [|o ops IH]; intros c Hc CT CD CE CS AT AD AE AS.
  - cbn. rewrite !app_nil_r. destruct c; reflexivity.
  - destruct Hc as (St & Sd & Se & Ss).
    destruct o as [p|p|p|p]; cbn [cp_run cp_step];
      cbn [ops_T ops_D ops_E ops_S flat_map app] in *;
      fold (ops_T ops) in *; fold (ops_D ops) in *; fold (ops_E ops) in *; fold (ops_S ops) in *.
    + unfold add_timing. inversion AT as [|? ? Hp Hr]; subst.
      rewrite (put_append tp_time _ _ St Hp). cbn [obind].
      rewrite IH; cbn [cp_timing cp_difficulty cp_effect cp_sample]; try assumption.
      * rewrite <- app_assoc. reflexivity.
      * repeat split; try assumption. apply sorted_snoc; assumption.
      * exact (chrono_tail _ _ _ CT).
      * exact (all_after_snoc _ _ _ _ CT AT).
    + inversion AD as [|? ? Hp Hr]; subst.
      rewrite (add_difficulty_chrono1 c p (conj St (conj Sd (conj Se Ss))) Hp). cbn [obind].
      rewrite IH; cbn [cp_timing cp_difficulty cp_effect cp_sample]; try assumption.
      * rewrite <- compress_step. reflexivity.
      * repeat split; try assumption. apply sorted_compress1; assumption.
      * exact (chrono_tail _ _ _ CD).
      * exact (all_after_compress1 _ _ _ _ _ _ CD AD).
    + inversion AE as [|? ? Hp Hr]; subst.
      rewrite (add_effect_chrono1 c p (conj St (conj Sd (conj Se Ss))) Hp). cbn [obind].
      rewrite IH; cbn [cp_timing cp_difficulty cp_effect cp_sample]; try assumption.
      * rewrite <- compress_step. reflexivity.
      * repeat split; try assumption. apply sorted_compress1; assumption.
      * exact (chrono_tail _ _ _ CE).
      * exact (all_after_compress1 _ _ _ _ _ _ CE AE).
    + inversion AS as [|? ? Hp Hr]; subst.
      rewrite (add_sample_chrono1 c p (conj St (conj Sd (conj Se Ss))) Hp). cbn [obind].
      rewrite IH; cbn [cp_timing cp_difficulty cp_effect cp_sample]; try assumption.
      * rewrite <- compress_step. reflexivity.
      * repeat split; try assumption. apply sorted_compress1; assumption.
      * exact (chrono_tail _ _ _ CS).
      * exact (all_after_compress1 _ _ _ _ _ _ CS AS).
Qed.

(* ---------- sorted lists: lookups ---------- *)

Section Lookup.
  Context {P : Type} (time : P -> F64).
  Notation K := (K time).

  Lemma sorted_cons_inv p l : sorted time (p :: l) -> sorted time l /\ Forall (fun q => K p < K q) l.
  Proof.
    unfold sorted. cbn [map]. intros H. inversion H as [|? ? Hs Hf]; subst. split; [exact Hs|].
    rewrite Forall_map in Hf. exact Hf.
  Qed.

  Lemma sorted_chrono l : sorted time l -> chrono time l.
  Proof.
    induction l as [|p l IH]; intros H; [constructor|]. destruct (sorted_cons_inv _ _ H) as (Hs & Hf).
    constructor; [exact (IH Hs) | exact Hf].
  Qed.

  Lemma chrono_sorted l : chrono time l -> sorted time l.
  Proof.
    unfold sorted. induction 1 as [|p l Hs IH Hf]; cbn [map]; constructor; [exact IH|].
    rewrite Forall_map. exact Hf.
  Qed.

  Lemma last_opt_cons (p : P) l : last_opt (p :: l) = match last_opt l with Some q => Some q | None => Some p end.
  Proof.
    destruct l as [|q l]; [reflexivity|]. change (last_opt (p :: q :: l)) with (last_opt (q :: l)).
    destruct (last_opt (q :: l)) eqn:E; [reflexivity|].
    exfalso. revert q E. induction l as [|b l IH]; intros q E; [discriminate|]. exact (IH b E).
  Qed.

  Lemma last_opt_In' (l : list P) p : last_opt l = Some p -> In p l.
  Proof. apply last_opt_In. Qed.

  Lemma last_opt_max l p : sorted time l -> last_opt l = Some p -> forall q, In q l -> K q <= K p.
  Proof.
    induction l as [|a l IH]; intros Hs Hl q Hq; [destruct Hq|].
    destruct (sorted_cons_inv _ _ Hs) as (Hs' & Hf). rewrite last_opt_cons in Hl.
    destruct (last_opt l) as [x|] eqn:E.
    - inversion Hl; subst x. destruct Hq as [<-|Hq]; [|exact (IH Hs' eq_refl q Hq)].
      rewrite Forall_forall in Hf. specialize (Hf p (last_opt_In' _ _ E)). lia.
    - inversion Hl; subst a. destruct l as [|b l]; [|exfalso; rewrite last_opt_cons in E; destruct (last_opt l); discriminate].
      destruct Hq as [<-|[]]. lia.
  Qed.

  Lemma sorted_filter f l : sorted time l -> sorted time (filter f l).
  Proof.
    induction l as [|a l IH]; intros Hs; [exact Hs|]. destruct (sorted_cons_inv _ _ Hs) as (Hs' & Hf).
    cbn [filter]. destruct (f a); [|exact (IH Hs')].
    apply chrono_sorted. constructor; [apply sorted_chrono; exact (IH Hs')|].
    rewrite Forall_forall in *. intros q Hq. apply filter_In in Hq. apply Hf, Hq.
  Qed.

  Lemma last_not_after_Some l t p : sorted time l -> last_not_after time l t = Some p ->
    In p l /\ K p <= D.key t /\ forall q, In q l -> K q <= D.key t -> K q <= K p.
  Proof.
    unfold last_not_after. intros Hs H. pose proof (last_opt_In' _ _ H) as Hin. apply filter_In in Hin.
    destruct Hin as (Hin & Hk). split; [exact Hin|]. split; [lia|].
    intros q Hq Hqk. apply (last_opt_max _ _ (sorted_filter _ _ Hs) H). apply filter_In. split; [exact Hq | lia].
  Qed.

  Lemma last_not_after_None l t : last_not_after time l t = None -> Forall (fun q => D.key t < K q) l.
  Proof.
    unfold last_not_after. intros H. apply Forall_forall. intros q Hq.
    destruct (K q <=? D.key t) eqn:E; [|lia]. exfalso.
    assert (Hin : In q (filter (fun p => K p <=? D.key t) l)) by (apply filter_In; split; assumption).
    destruct (filter _ l) as [|a r] eqn:Ef; [destruct Hin|]. rewrite last_opt_cons in H. destruct (last_opt r); discriminate.
  Qed.

  (* the point stored at a time is the one active there *)
  Lemma last_not_after_own l p : sorted time l -> In p l -> last_not_after time l (time p) = Some p.
  Proof.
    intros Hs Hin. destruct (in_split _ _ Hin) as (l1 & l2 & ->).
    unfold sorted in Hs. rewrite map_app in Hs. cbn [map] in Hs. apply SS_app_iff in Hs. destruct Hs as (_ & H2 & H3).
    inversion H2 as [|? ? _ Hgt]; subst.
    replace (l1 ++ p :: l2) with ((l1 ++ [p]) ++ l2) by (rewrite <- app_assoc; reflexivity).
    rewrite last_not_after_split; [apply last_opt_app_single| |].
    - apply Forall_app. split; [|constructor; [unfold ControlPointsFacts.K; lia|constructor]].
      rewrite Forall_map in H3. eapply Forall_impl; [|exact H3]. cbv beta. intros q Hq. inversion Hq; subst.
      unfold ControlPointsFacts.K in *. lia.
    - rewrite Forall_map in Hgt. exact Hgt.
  Qed.
End Lookup.

(* ---------- timelines as step functions ---------- *)

Section TL.
  Context {P V : Type} (time : P -> F64) (val : P -> V).
  Notation K := (K time).

  (* walk a chronological list up to the key [kt]; [d]: the value before the first point *)
  Fixpoint tlr (l : list P) (d : V) (kt : Z) : V :=
    match l with
    | [] => d
    | p :: r => if K p <=? kt then tlr r (val p) kt else d
    end.

  Lemma tlr_later l d kt : Forall (fun p => kt < K p) l -> tlr l d kt = d.
  Proof. destruct l as [|p r]; [reflexivity|]. intros H. inversion H; subst. cbn [tlr]. replace (K p <=? kt) with false by lia. reflexivity. Qed.

  (* on a sorted list: the latest point not after t, else the default *)
  Lemma tlr_sorted l : forall d t, sorted time l ->
    tlr l d (D.key t) = match last_not_after time l t with Some p => val p | None => d end.
  Proof.
    induction l as [|p r IH]; intros d t Hs; [reflexivity|].
    destruct (sorted_cons_inv _ _ _ Hs) as (Hs' & Hf). cbn [tlr]. unfold last_not_after. cbn [filter].
    destruct (K p <=? D.key t) eqn:E.
    - rewrite last_opt_cons. rewrite (IH (val p) t Hs'). unfold last_not_after.
      destruct (last_opt (filter _ r)); reflexivity.
    - rewrite filter_none; [reflexivity|]. eapply Forall_impl; [|exact Hf]. cbv beta. intros q Hq. lia.
  Qed.

  (* the walk only looks at which keys are <= kt *)
  Lemma tlr_ext l : forall d k1 k2, (forall p, In p l -> (K p <=? k1) = (K p <=? k2)) -> tlr l d k1 = tlr l d k2.
  Proof.
    induction l as [|p r IH]; intros d k1 k2 H; [reflexivity|]. cbn [tlr].
    rewrite (H p (or_introl eq_refl)). destruct (K p <=? k2); [|reflexivity].
    apply IH. intros q Hq. apply H. right. exact Hq.
  Qed.

  (* compression keeps the timeline when a redundant point has the value of the one it repeats *)
  Context (red : P -> P -> bool) (dr : P -> bool) (d0 : V).
  Definition vprev (prev : option P) : V := match prev with Some e => val e | None => d0 end.

  Lemma compress_In ps : forall prev x, In x (compress red prev dr ps) -> In x ps.
  Proof.
    induction ps as [|p r IH]; intros prev x H; [destruct H|]. cbn [compress] in H.
    destruct (match prev with Some e => red p e | None => dr p end).
    - right. exact (IH _ _ H).
    - destruct H as [<-|H]; [left; reflexivity | right; exact (IH _ _ H)].
  Qed.

  Lemma tlr_compress ps : forall prev, chrono time ps ->
    (forall p e, In p ps -> (prev = Some e \/ In e ps) -> red p e = true -> val p = val e) ->
    (forall p, In p ps -> dr p = true -> val p = d0) ->
    forall kt, tlr (compress red prev dr ps) (vprev prev) kt = tlr ps (vprev prev) kt.
  Proof.
    induction ps as [|p r IH]; intros prev Hch Hred Hdr kt; [reflexivity|].
    destruct (chrono_cons _ _ _ Hch) as (Hch' & Hpr). cbn [compress tlr].
    destruct (match prev with Some e => red p e | None => dr p end) eqn:E.
    - assert (Hv : val p = vprev prev).
      { destruct prev as [e|]; cbn [vprev]; [apply (Hred p e); auto; left; reflexivity | apply Hdr; auto; left; reflexivity]. }
      rewrite Hv. destruct (K p <=? kt) eqn:Ek.
      + apply IH; [exact Hch'| |].
        * intros q e Hq He. apply Hred; [right; exact Hq|]. destruct He as [He|He]; [left; exact He | right; right; exact He].
        * intros q Hq. apply Hdr. right. exact Hq.
      + apply tlr_later. apply Forall_forall. intros x Hx. apply compress_In in Hx.
        rewrite Forall_forall in Hpr. specialize (Hpr x Hx). lia.
    - cbn [tlr]. destruct (K p <=? kt); [|reflexivity].
      change (val p) with (vprev (Some p)). apply IH; [exact Hch'| |].
      + intros q e Hq He. apply Hred; [right; exact Hq|]. destruct He as [He|He]; [inversion He; subst; right; left; reflexivity | right; right; exact He].
      + intros q Hq. apply Hdr. right. exact Hq.
  Qed.
End TL.

(* ---------- sampling and emission ---------- *)

Section Sample.
  Context {A P V : Type} (timeA : A -> F64) (time : P -> F64) (val : P -> V).

  (* sampling the timeline of [l] at the sorted times [sl], which contain all times of [l] *)
  Lemma tlr_sample (sl : list A) (l : list P) d t :
    sorted timeA sl -> sorted time l ->
    (forall p, In p l -> exists a, In a sl /\ K timeA a = K time p) ->
    tlr timeA (fun a => tlr time val l d (K timeA a)) sl d (D.key t) = tlr time val l d (D.key t).
  Proof.
    intros Hsa Hsl Hcov. rewrite (tlr_sorted timeA _ sl d t Hsa).
    destruct (last_not_after timeA sl t) as [a|] eqn:E.
    - destruct (last_not_after_Some timeA sl t a Hsa E) as (Hin & Hk & Hmax).
      apply tlr_ext. intros p Hp. destruct (Hcov p Hp) as (a' & Ha' & Hk').
      destruct (K time p <=? D.key t) eqn:E2.
      + specialize (Hmax a' Ha' ltac:(lia)). lia.
      + lia.
    - symmetry. apply tlr_later. apply Forall_forall. intros p Hp. destruct (Hcov p Hp) as (a' & Ha' & Hk').
      pose proof (last_not_after_None timeA sl t E) as Hn. rewrite Forall_forall in Hn. specialize (Hn a' Ha'). lia.
  Qed.

  (* at most one emitted point per element of [sl], at the element's time *)
  Context (emit : A -> option P) (full : A -> V).
  Definition emitted (sl : list A) : list P := flat_map (fun a => match emit a with Some p => [p] | None => [] end) sl.

  Fixpoint consistent (sl : list A) (cur : V) : Prop :=
    match sl with
    | [] => True
    | a :: r => match emit a with
                | Some p => val p = full a /\ consistent r (val p)
                | None => full a = cur /\ consistent r cur
                end
    end.

  (* [ok]: the elements whose emission sits at the element's own time *)
  Context (ok : A -> Prop).
  Hypothesis emit_time : forall a p, ok a -> emit a = Some p -> K time p = K timeA a.

  Lemma emitted_after a r : sorted timeA (a :: r) -> Forall ok r -> Forall (fun p => K timeA a < K time p) (emitted r).
  Proof.
    intros Hs Hok. destruct (sorted_cons_inv _ _ _ Hs) as (_ & Hf). apply Forall_forall. intros p Hp.
    unfold emitted in Hp. apply in_flat_map in Hp. destruct Hp as (b & Hb & Hp).
    destruct (emit b) as [q|] eqn:E; [|destruct Hp]. destruct Hp as [<-|[]].
    rewrite Forall_forall in Hok. rewrite (emit_time b q (Hok b Hb) E). rewrite Forall_forall in Hf. exact (Hf b Hb).
  Qed.

  Lemma emitted_chrono sl : sorted timeA sl -> Forall ok sl -> chrono time (emitted sl).
  Proof.
    induction sl as [|a r IH]; intros Hs Hok; [constructor|]. inversion Hok as [|? ? Ha Hr]; subst.
    destruct (sorted_cons_inv _ _ _ Hs) as (Hs' & _). unfold emitted. cbn [flat_map]. fold (emitted r).
    destruct (emit a) as [p|] eqn:E; cbn [app]; [|exact (IH Hs' Hr)].
    constructor; [exact (IH Hs' Hr)|]. pose proof (emitted_after a r Hs Hr) as H.
    eapply Forall_impl; [|exact H]. cbv beta. intros q Hq. rewrite (emit_time a p Ha E). exact Hq.
  Qed.

  Lemma tlr_emit sl : forall cur, sorted timeA sl -> Forall ok sl -> consistent sl cur ->
    forall kt, tlr time val (emitted sl) cur kt = tlr timeA full sl cur kt.
  Proof.
    induction sl as [|a r IH]; intros cur Hs Hok Hc kt; [reflexivity|]. inversion Hok as [|? ? Ha Hr]; subst.
    destruct (sorted_cons_inv _ _ _ Hs) as (Hs' & _). unfold emitted. cbn [flat_map tlr consistent] in *. fold (emitted r).
    destruct (emit a) as [p|] eqn:E; cbn [app tlr].
    - destruct Hc as (Hv & Hc). rewrite (emit_time a p Ha E), <- Hv. destruct (K timeA a <=? kt); [|reflexivity].
      exact (IH _ Hs' Hr Hc kt).
    - destruct Hc as (Hv & Hc). rewrite Hv. destruct (K timeA a <=? kt) eqn:Ek; [exact (IH _ Hs' Hr Hc kt)|].
      apply tlr_later. pose proof (emitted_after a r Hs Hr) as H. eapply Forall_impl; [|exact H]. cbv beta. intros q Hq. lia.
  Qed.
End Sample.

(* DecimalRounding: the model's decimal -> binary conversion ([of_decimal] of
   Model/Floats.v, used by [fnum_to_float] / [parse_f64_raw] / [parse_f32_raw]
   of Model/Num.v) is CORRECTLY ROUNDED: it returns the IEEE-754
   round-to-nearest-even of the real number (-1)^s * m * 10^e, with overflow to
   the infinity of sign s, and zeros keep the written sign.  Generic in
   (prec, emax); instantiated for binary64 and binary32 at the end.

   The two arithmetic branches of [of_decimal] are Flocq's [binary_normalize]
   (e >= 0: the integer m * 10^e is rounded once) and Flocq's division kernel
   [SFdiv_core_binary] + [binary_round_aux] (e < 0: the quotient m / 10^-e is
   rounded once; [Bdiv_correct_aux] needs no bound on the operands). *)
From RM Require Import Model.Num Proofs.NumFacts Proofs.FloatGrammar.
From Flocq Require Import Core BinarySingleNaN.
From Coq Require Import Reals ZifyBool Lia Lra.
Open Scope Z_scope.

Definition radix10 : radix := Build_radix 10 (refl_equal true).

(* the real number written (-1)^s * m * 10^e *)
Definition dec_value (s : bool) (m e : Z) : R := cond_Ropp s (IZR m * bpow radix10 e).

Lemma dec_value_powerRZ s m e :
  dec_value s m e = ((if s then -1 else 1) * IZR m * powerRZ 10 e)%R.
Proof.
  unfold dec_value. rewrite bpow_powerRZ. change (IZR radix10) with 10%R.
  destruct s; cbn [cond_Ropp]; ring.
Qed.

Lemma dec_value_abs s m e : 0 <= m -> Rabs (dec_value s m e) = (IZR m * bpow radix10 e)%R.
Proof.
  intros Hm. unfold dec_value. rewrite abs_cond_Ropp. apply Rabs_pos_eq.
  apply Rmult_le_pos; [now apply IZR_le|apply bpow_ge_0].
Qed.

Lemma F2R_exp0 n : F2R (Float radix2 n 0) = IZR n.
Proof. unfold F2R. cbn [Fnum Fexp bpow]. ring. Qed.

Lemma IZR_pow10 k : 0 <= k -> IZR (10 ^ k) = bpow radix10 k.
Proof. intros Hk. exact (IZR_Zpower radix10 k Hk). Qed.

Section Generic.
  Variables prec emax : Z.
  Context (Hp : Prec_gt_0 prec) (He : Prec_lt_emax prec emax).
  Notation fl := (binary_float prec emax).
  Notation emin := (3 - emax - prec).
  Notation fexp := (FLT_exp emin prec).
  Notation rnd := (round radix2 fexp ZnearestE).

  (* z is the IEEE round-to-nearest-even of the real x, the sign of a zero
     result (and of an overflow) being s *)
  Definition correctly_rounded (z : fl) (s : bool) (x : R) : Prop :=
    ((Rabs (rnd x) < bpow radix2 emax)%R ->
       B2R z = rnd x /\ is_finite z = true /\ Bsign z = s) /\
    ((bpow radix2 emax <= Rabs (rnd x))%R -> z = B754_infinity s).

  Lemma correctly_rounded_of_if (z : fl) s x :
    (if Rlt_bool (Rabs (rnd x)) (bpow radix2 emax)
     then B2R z = rnd x /\ is_finite z = true /\ Bsign z = s
     else z = B754_infinity s) ->
    correctly_rounded z s x.
  Proof.
    case Rlt_bool_spec; intros H1 H2; split; intros H3; auto; lra.
  Qed.

  (* the specification determines the float *)
  Lemma correctly_rounded_unique (z1 z2 : fl) s x :
    correctly_rounded z1 s x -> correctly_rounded z2 s x -> z1 = z2.
  Proof.
    intros [A1 B1] [A2 B2].
    destruct (Rlt_or_le (Rabs (rnd x)) (bpow radix2 emax)) as [H|H].
    - destruct (A1 H) as (R1 & F1 & S1). destruct (A2 H) as (R2 & F2 & S2).
      apply B2R_Bsign_inj; congruence.
    - now rewrite (B1 H), (B2 H).
  Qed.

  Lemma correctly_rounded_not_nan (z : fl) s x : correctly_rounded z s x -> z <> B754_nan.
  Proof.
    intros [A B] E. subst z.
    destruct (Rlt_or_le (Rabs (rnd x)) (bpow radix2 emax)) as [H|H].
    - destruct (A H) as (_ & F & _). discriminate.
    - specialize (B H). discriminate.
  Qed.

  (* ---- m = 0: signed zero ---- *)
  Lemma of_decimal_zero s e : Floats.of_decimal prec emax Hp He s 0 e = B754_zero s.
  Proof. reflexivity. Qed.

  Lemma correctly_rounded_zero s x : rnd x = 0%R -> correctly_rounded (B754_zero s : fl) s x.
  Proof.
    intros H. split; intros H1.
    - rewrite H. repeat split.
    - rewrite H, Rabs_R0 in H1. pose proof (bpow_gt_0 radix2 emax). lra.
  Qed.

  (* ---- e >= 0: one rounding of the integer m * 10^e ---- *)
  Lemma of_decimal_nonneg_exp s m e :
    0 < m -> 0 <= e ->
    correctly_rounded (Floats.of_decimal prec emax Hp He s m e) s (dec_value s m e).
  Proof.
    intros Hm Hee. apply correctly_rounded_of_if. unfold Floats.of_decimal.
    rewrite (proj2 (Z.eqb_neq m 0)) by lia. rewrite (proj2 (Z.leb_le 0 e)) by lia.
    unfold of_ZE.
    set (M := if s then - (m * 10 ^ e) else m * 10 ^ e).
    pose proof (binary_normalize_correct prec emax Hp He mode_NE M 0 s) as H.
    cbv zeta in H. rewrite F2R_exp0 in H.
    assert (Hpos : (0 < IZR m * bpow radix10 e)%R).
    { apply Rmult_lt_0_compat; [now apply IZR_lt|apply bpow_gt_0]. }
    assert (HM : IZR M = dec_value s m e).
    { unfold M, dec_value. destruct s; cbn [cond_Ropp]; rewrite ?opp_IZR, mult_IZR, IZR_pow10; auto. }
    rewrite HM in H. change (round_mode mode_NE) with ZnearestE in H. change (SpecFloat.fexp prec emax) with fexp in H.
    revert H. case Rlt_bool.
    - intros (H1 & H2 & H3). repeat split; auto.
      rewrite H3. unfold dec_value. destruct s; cbn [cond_Ropp].
      + rewrite Rcompare_Lt; [reflexivity|lra].
      + rewrite Rcompare_Gt; [reflexivity|lra].
    - intros H. apply B2SF_inj. rewrite H. cbn [B2SF].
      unfold binary_overflow. cbn [overflow_to_inf]. f_equal.
      unfold dec_value. destruct s; cbn [cond_Ropp].
      + apply Rlt_bool_true; lra.
      + apply Rlt_bool_false; lra.
  Qed.

  (* ---- e < 0: one rounding of the quotient m / 10^-e ---- *)
  Lemma SF2B_infinity sf s (H : SpecFloat.valid_binary prec emax sf = true) :
    sf = SpecFloat.S754_infinity s -> SF2B sf H = B754_infinity s.
  Proof. intros E. apply B2SF_inj. now rewrite B2SF_SF2B. Qed.

  Lemma of_decimal_neg_exp s m e :
    0 < m -> e < 0 ->
    correctly_rounded (Floats.of_decimal prec emax Hp He s m e) s (dec_value s m e).
  Proof.
    intros Hm Hee. apply correctly_rounded_of_if.
    destruct m as [|mp|mp]; try lia.
    assert (Hpow : exists p, 10 ^ (- e) = Zpos p).
    { pose proof (Z.pow_pos_nonneg 10 (- e)). destruct (10 ^ (- e)) as [|p|p]; try lia. now exists p. }
    destruct Hpow as [p Hpow].
    unfold Floats.of_decimal. change (Z.pos mp =? 0) with false. cbv iota.
    rewrite (proj2 (Z.leb_gt 0 e)) by lia. rewrite Hpow.
    pose proof (Bdiv_correct_aux prec emax Hp He mode_NE s mp 0 false p 0) as H.
    cbv zeta in H. rewrite xorb_false_r in H.
    assert (Hx : (F2R (Float radix2 (cond_Zopp s (Z.pos mp)) 0) /
                  F2R (Float radix2 (cond_Zopp false (Z.pos p)) 0))%R = dec_value s (Z.pos mp) e).
    { rewrite 2!F2R_exp0. cbn [cond_Zopp]. rewrite <- Hpow, IZR_pow10 by lia.
      unfold dec_value. rewrite bpow_opp.
      destruct s; cbn [cond_Zopp cond_Ropp]; rewrite ?opp_IZR; unfold Rdiv.
      - rewrite Rinv_inv. ring.
      - rewrite Rinv_inv. ring. }
    rewrite Hx in H. change (round_mode mode_NE) with ZnearestE in H. change (SpecFloat.fexp prec emax) with fexp in H.
    destruct (SpecFloat.SFdiv_core_binary prec emax (Z.pos mp) 0 (Z.pos p) 0) as [[q e'] l].
    destruct H as [Hv H].
    destruct (bool_dec _ true) as [Hv'|Hv']; [|exfalso; exact (Hv' Hv)].
    revert H. case Rlt_bool.
    - intros (H1 & H2 & H3). rewrite B2R_SF2B, is_finite_SF2B, Bsign_SF2B. auto.
    - intros H. now apply SF2B_infinity.
  Qed.

  (* ---- 1. the conversion is correctly rounded ---- *)
  Theorem of_decimal_correct s m e :
    0 <= m ->
    correctly_rounded (Floats.of_decimal prec emax Hp He s m e) s (dec_value s m e).
  Proof.
    intros Hm. destruct (Z.eq_dec m 0) as [->|Hm0].
    - rewrite of_decimal_zero. apply correctly_rounded_zero.
      unfold dec_value. rewrite Rmult_0_l.
      destruct s; cbn [cond_Ropp]; rewrite ?Ropp_0; apply round_0; auto with typeclass_instances.
    - destruct (Z_lt_le_dec e 0).
      + apply of_decimal_neg_exp; lia.
      + apply of_decimal_nonneg_exp; lia.
  Qed.

  (* the [right _ => B754_nan] branch of [of_decimal] is unreachable *)
  Theorem of_decimal_not_nan s m e : 0 <= m -> Floats.of_decimal prec emax Hp He s m e <> B754_nan.
  Proof. intros Hm. exact (correctly_rounded_not_nan _ _ _ (of_decimal_correct s m e Hm)). Qed.

End Generic.

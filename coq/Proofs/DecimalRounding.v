(* DecimalRounding: the model's decimal -> binary conversion ([of_decimal] of
   Model/Floats.v, used by [fnum_to_float] / [parse_f64_raw] / [parse_f32_raw]
   of Model/Num.v) is CORRECTLY ROUNDED: it returns the IEEE-754
   round-to-nearest-even of the real number (-1)^s * m * 10^e, with overflow to
   the infinity of sign s, and zeros keep the written sign.  Generic in
   (prec, emax); instantiated for binary64 and binary32 at the end.

   The two arithmetic branches of [of_decimal] are Flocq's [binary_normalize]
   (e >= 0: the integer m * 10^e is rounded once) and Flocq's division kernel
   [SFdiv_core_binary] + [binary_round_aux] (e < 0: the quotient m / 10^-e is
   rounded once; [Bdiv_correct_aux] needs no bound on the operands). *)
From RM Require Import Model.Num Proofs.NumFacts Proofs.FloatGrammar.
From Flocq Require Import Core BinarySingleNaN.
From Coq Require Import Reals ZifyBool Lia Lra.
Open Scope Z_scope.

Definition radix10 : radix := Build_radix 10 (refl_equal true).

(* the real number written (-1)^s * m * 10^e *)
Definition dec_value (s : bool) (m e : Z) : R := cond_Ropp s (IZR m * bpow radix10 e).

Lemma dec_value_powerRZ s m e :
  dec_value s m e = ((if s then -1 else 1) * IZR m * powerRZ 10 e)%R.
Proof.
  unfold dec_value. rewrite bpow_powerRZ. change (IZR radix10) with 10%R.
  destruct s; cbn [cond_Ropp]; ring.
Qed.

Lemma dec_value_abs s m e : 0 <= m -> Rabs (dec_value s m e) = (IZR m * bpow radix10 e)%R.
Proof.
  intros Hm. unfold dec_value. rewrite abs_cond_Ropp. apply Rabs_pos_eq.
  apply Rmult_le_pos; [now apply IZR_le|apply bpow_ge_0].
Qed.

Lemma F2R_exp0 n : F2R (Float radix2 n 0) = IZR n.
Proof. unfold F2R. cbn [Fnum Fexp bpow]. ring. Qed.

Lemma IZR_pow10 k : 0 <= k -> IZR (10 ^ k) = bpow radix10 k.
Proof. intros Hk. exact (IZR_Zpower radix10 k Hk). Qed.

Section Generic.
  Variables prec emax : Z.
  Context (Hp : Prec_gt_0 prec) (He : Prec_lt_emax prec emax).
  Notation fl := (binary_float prec emax).
  Notation emin := (3 - emax - prec).
  Notation fexp := (FLT_exp emin prec).
  Notation rnd := (round radix2 fexp ZnearestE).

  (* z is the IEEE round-to-nearest-even of the real x, the sign of a zero
     result (and of an overflow) being s *)
  Definition correctly_rounded (z : fl) (s : bool) (x : R) : Prop :=
    ((Rabs (rnd x) < bpow radix2 emax)%R ->
       B2R z = rnd x /\ is_finite z = true /\ Bsign z = s) /\
    ((bpow radix2 emax <= Rabs (rnd x))%R -> z = B754_infinity s).

  Lemma correctly_rounded_of_if (z : fl) s x :
    (if Rlt_bool (Rabs (rnd x)) (bpow radix2 emax)
     then B2R z = rnd x /\ is_finite z = true /\ Bsign z = s
     else z = B754_infinity s) ->
    correctly_rounded z s x.
  Proof.
    case Rlt_bool_spec; intros H1 H2; split; intros H3; auto; lra.
  Qed.

  (* the specification determines the float *)
  Lemma correctly_rounded_unique (z1 z2 : fl) s x :
    correctly_rounded z1 s x -> correctly_rounded z2 s x -> z1 = z2.
  Proof.
    intros [A1 B1] [A2 B2].
    destruct (Rlt_or_le (Rabs (rnd x)) (bpow radix2 emax)) as [H|H].
    - destruct (A1 H) as (R1 & F1 & S1). destruct (A2 H) as (R2 & F2 & S2).
      apply B2R_Bsign_inj; congruence.
    - now rewrite (B1 H), (B2 H).
  Qed.

  Lemma correctly_rounded_not_nan (z : fl) s x : correctly_rounded z s x -> z <> B754_nan.
  Proof.
    intros [A B] E. subst z.
    destruct (Rlt_or_le (Rabs (rnd x)) (bpow radix2 emax)) as [H|H].
    - destruct (A H) as (_ & F & _). discriminate.
    - specialize (B H). discriminate.
  Qed.

  (* ---- m = 0: signed zero ---- *)
  Lemma of_decimal_zero s e : Floats.of_decimal prec emax Hp He s 0 e = B754_zero s.
  Proof. reflexivity. Qed.

  Lemma correctly_rounded_zero s x : rnd x = 0%R -> correctly_rounded (B754_zero s : fl) s x.
  Proof.
    intros H. split; intros H1.
    - rewrite H. repeat split.
    - rewrite H, Rabs_R0 in H1. pose proof (bpow_gt_0 radix2 emax). lra.
  Qed.

  (* ---- e >= 0: one rounding of the integer m * 10^e ---- *)
  Lemma of_decimal_nonneg_exp s m e :
    0 < m -> 0 <= e ->
    correctly_rounded (Floats.of_decimal prec emax Hp He s m e) s (dec_value s m e).
  Proof.
    intros Hm Hee. apply correctly_rounded_of_if. unfold Floats.of_decimal.
    rewrite (proj2 (Z.eqb_neq m 0)) by lia. rewrite (proj2 (Z.leb_le 0 e)) by lia.
    unfold of_ZE.
    set (M := if s then - (m * 10 ^ e) else m * 10 ^ e).
    pose proof (binary_normalize_correct prec emax Hp He mode_NE M 0 s) as H.
    cbv zeta in H. rewrite F2R_exp0 in H.
    assert (Hpos : (0 < IZR m * bpow radix10 e)%R).
    { apply Rmult_lt_0_compat; [now apply IZR_lt|apply bpow_gt_0]. }
    assert (HM : IZR M = dec_value s m e).
    { unfold M, dec_value. destruct s; cbn [cond_Ropp]; rewrite ?opp_IZR, mult_IZR, IZR_pow10; auto. }
    rewrite HM in H. change (round_mode mode_NE) with ZnearestE in H. change (SpecFloat.fexp prec emax) with fexp in H.
    revert H. case Rlt_bool.
    - intros (H1 & H2 & H3). repeat split; auto.
      rewrite H3. unfold dec_value. destruct s; cbn [cond_Ropp].
      + rewrite Rcompare_Lt; [reflexivity|lra].
      + rewrite Rcompare_Gt; [reflexivity|lra].
    - intros H. apply B2SF_inj. rewrite H. cbn [B2SF].
      unfold binary_overflow. cbn [overflow_to_inf]. f_equal.
      unfold dec_value. destruct s; cbn [cond_Ropp].
      + apply Rlt_bool_true; lra.
      + apply Rlt_bool_false; lra.
  Qed.

  (* ---- e < 0: one rounding of the quotient m / 10^-e ---- *)
  Lemma SF2B_infinity sf s (H : SpecFloat.valid_binary prec emax sf = true) :
    sf = SpecFloat.S754_infinity s -> SF2B sf H = B754_infinity s.
  Proof. intros E. apply B2SF_inj. now rewrite B2SF_SF2B. Qed.

  Lemma of_decimal_neg_exp s m e :
    0 < m -> e < 0 ->
    correctly_rounded (Floats.of_decimal prec emax Hp He s m e) s (dec_value s m e).
  Proof.
    intros Hm Hee. apply correctly_rounded_of_if.
    destruct m as [|mp|mp]; try lia.
    assert (Hpow : exists p, 10 ^ (- e) = Zpos p).
    { pose proof (Z.pow_pos_nonneg 10 (- e)). destruct (10 ^ (- e)) as [|p|p]; try lia. now exists p. }
    destruct Hpow as [p Hpow].
    unfold Floats.of_decimal. change (Z.pos mp =? 0) with false. cbv iota.
    rewrite (proj2 (Z.leb_gt 0 e)) by lia. rewrite Hpow.
    pose proof (Bdiv_correct_aux prec emax Hp He mode_NE s mp 0 false p 0) as H.
    cbv zeta in H. rewrite xorb_false_r in H.
    assert (Hx : (F2R (Float radix2 (cond_Zopp s (Z.pos mp)) 0) /
                  F2R (Float radix2 (cond_Zopp false (Z.pos p)) 0))%R = dec_value s (Z.pos mp) e).
    { rewrite 2!F2R_exp0. cbn [cond_Zopp]. rewrite <- Hpow, IZR_pow10 by lia.
      unfold dec_value. rewrite bpow_opp.
      destruct s; cbn [cond_Zopp cond_Ropp]; rewrite ?opp_IZR; unfold Rdiv.
      - rewrite Rinv_inv. ring.
      - rewrite Rinv_inv. ring. }
    rewrite Hx in H. change (round_mode mode_NE) with ZnearestE in H. change (SpecFloat.fexp prec emax) with fexp in H.
    destruct (SpecFloat.SFdiv_core_binary prec emax (Z.pos mp) 0 (Z.pos p) 0) as [[q e'] l].
    destruct H as [Hv H].
    destruct (bool_dec _ true) as [Hv'|Hv']; [|exfalso; exact (Hv' Hv)].
    revert H. case Rlt_bool.
    - intros (H1 & H2 & H3). rewrite B2R_SF2B, is_finite_SF2B, Bsign_SF2B. auto.
    - intros H. now apply SF2B_infinity.
  Qed.

  (* ---- 1. the conversion is correctly rounded ---- *)
  Theorem of_decimal_correct s m e :
    0 <= m ->
    correctly_rounded (Floats.of_decimal prec emax Hp He s m e) s (dec_value s m e).
  Proof.
    intros Hm. destruct (Z.eq_dec m 0) as [->|Hm0].
    - rewrite of_decimal_zero. apply correctly_rounded_zero.
      unfold dec_value. rewrite Rmult_0_l.
      destruct s; cbn [cond_Ropp]; rewrite ?Ropp_0; apply round_0; auto with typeclass_instances.
    - destruct (Z_lt_le_dec e 0).
      + apply of_decimal_neg_exp; lia.
      + apply of_decimal_nonneg_exp; lia.
  Qed.

  (* the [right _ => B754_nan] branch of [of_decimal] is unreachable *)
  Theorem of_decimal_not_nan s m e : 0 <= m -> Floats.of_decimal prec emax Hp He s m e <> B754_nan.
  Proof. intros Hm. exact (correctly_rounded_not_nan _ _ _ (of_decimal_correct s m e Hm)). Qed.

End Generic.

(* ====================================================================== *)
(* Lift to Model/Num.v: [fnum_to_float] and its two shortcut branches     *)
(* ====================================================================== *)

(* [ndigits_aux] counts the decimal digits when the fuel suffices *)
Lemma ndigits_aux_spec fuel : forall m acc,
  0 < m < 10 ^ Z.of_nat fuel ->
  exists d, ndigits_aux fuel m acc = acc + d /\ 0 < d /\ 10 ^ (d - 1) <= m < 10 ^ d.
Proof.
  induction fuel as [|k IH]; intros m acc Hm.
  - cbn in Hm. lia.
  - cbn [ndigits_aux]. rewrite (proj2 (Z.leb_gt m 0)) by lia.
    rewrite Nat2Z.inj_succ, Z.pow_succ_r in Hm by lia.
    destruct (Z_lt_le_dec m 10) as [Hs|Hl].
    + exists 1. rewrite Z.div_small by lia. repeat split; try lia.
      destruct k; cbn [ndigits_aux]; reflexivity.
    + assert (Hq : 0 < m / 10 < 10 ^ Z.of_nat k).
      { split; [apply Z.div_str_pos; lia|apply Z.div_lt_upper_bound; lia]. }
      destruct (IH (m / 10) (acc + 1) Hq) as (d & E & Hd & Hlo & Hhi).
      exists (d + 1). rewrite E. split; [lia|]. split; [lia|].
      replace (d + 1 - 1) with (Z.succ (d - 1)) by lia.
      replace (d + 1) with (Z.succ d) by lia.
      rewrite 2!Z.pow_succ_r by lia.
      pose proof (Z.div_mod m 10 ltac:(lia)). pose proof (Z.mod_pos_bound m 10 ltac:(lia)). lia.
Qed.

(* the mantissa read from a string has at most as many digits as the string has characters *)
Lemma digits_value_bound ds : forall acc,
  all_digits ds -> 0 <= acc ->
  0 <= digits_value ds acc < (acc + 1) * 10 ^ zlen ds.
Proof.
  unfold all_digits, zlen. induction ds as [|c r IH]; intros acc Hd Ha.
  - cbn. lia.
  - cbn [forallb] in Hd. apply andb_true_iff in Hd. destruct Hd as [Hc Hr].
    cbn [digits_value fold_left length]. rewrite Nat2Z.inj_succ, Z.pow_succ_r by lia.
    unfold is_digit in Hc.
    assert (H0 : 0 <= 10 * acc + (c - 48)) by lia.
    specialize (IH _ Hr H0). unfold digits_value in IH.
    split; [lia|]. eapply Z.lt_le_trans; [apply IH|].
    pose proof (Z.pow_pos_nonneg 10 (Z.of_nat (length r))). nia.
Qed.

Lemma decimal_literal_mantissa_bound s neg m e :
  decimal_literal s neg m e -> 0 <= m < 10 ^ Z.of_nat (length s).
Proof.
  intros H. destruct H as [sign neg ip dot fp ex eexp Hs Hi Hf Hdot Hlen Hex].
  assert (Ha : all_digits (ip ++ fp)).
  { unfold all_digits in *. rewrite forallb_app, Hi, Hf. reflexivity. }
  pose proof (digits_value_bound (ip ++ fp) 0 Ha ltac:(lia)) as Hb.
  split; [lia|]. eapply Z.lt_le_trans; [apply Hb|]. rewrite Z.mul_1_l.
  apply Z.pow_le_mono_r; [lia|]. unfold zlen. rewrite !app_length. lia.
Qed.

Lemma parse_fnum_mantissa_bound s neg m e :
  parse_fnum s = Some (neg, FDec m e) -> 0 <= m < 10 ^ Z.of_nat (length s).
Proof. intros H. apply parse_fnum_decimal_iff in H. exact (decimal_literal_mantissa_bound _ _ _ _ H). Qed.

Section Shortcuts.
  Variables prec emax : Z.
  Context (Hp : Prec_gt_0 prec) (He : Prec_lt_emax prec emax).
  Notation fl := (binary_float prec emax).
  Notation emin := (3 - emax - prec).
  Notation fexp := (FLT_exp emin prec).
  Notation rnd := (round radix2 fexp ZnearestE).

  (* the only two facts about the format the shortcuts rest on:
     10^400 is beyond the largest finite number, 10^-401 is below half the
     smallest subnormal *)
  Hypothesis Hbig : (bpow radix2 emax <= bpow radix10 400)%R.
  Hypothesis Hsmall : (bpow radix10 (-401) <= bpow radix2 (emin - 1))%R.

  Lemma format_bpow_emax : generic_format radix2 fexp (bpow radix2 emax).
  Proof.
    apply generic_format_bpow. unfold FLT_exp.
    unfold Prec_gt_0 in Hp. unfold Prec_lt_emax in He. lia.
  Qed.

  (* more than 400 integer digits: overflow *)
  Lemma shortcut_infinity s m e d :
    0 < m -> 10 ^ (d - 1) <= m -> 0 < d -> 400 < d + e ->
    correctly_rounded prec emax (B754_infinity s) s (dec_value s m e).
  Proof.
    intros Hm Hlo Hd Hde. split; [|reflexivity]. intros Hlt. exfalso.
    assert (Hx : (bpow radix2 emax <= Rabs (dec_value s m e))%R).
    { rewrite dec_value_abs by lia.
      apply Rle_trans with (1 := Hbig).
      apply Rle_trans with (bpow radix10 (d - 1 + e)); [apply bpow_le; lia|].
      rewrite bpow_plus. apply Rmult_le_compat_r; [apply bpow_ge_0|].
      rewrite <- IZR_pow10 by lia. now apply IZR_le. }
    rewrite <- round_NE_abs in Hlt by auto with typeclass_instances.
    pose proof (round_ge_generic radix2 fexp ZnearestE _ _ format_bpow_emax Hx). lra.
  Qed.

  (* below 10^-400: underflow to the zero of the written sign *)
  Lemma shortcut_zero s m e d :
    0 < m -> m < 10 ^ d -> 0 < d -> d + e < -400 ->
    correctly_rounded prec emax (B754_zero s) s (dec_value s m e).
  Proof.
    intros Hm Hhi Hd Hde. apply correctly_rounded_zero.
    assert (Hx : (Rabs (dec_value s m e) < bpow radix2 (emin - 1))%R).
    { rewrite dec_value_abs by lia.
      apply Rlt_le_trans with (2 := Hsmall).
      apply Rlt_le_trans with (bpow radix10 (d + e)); [|apply bpow_le; lia].
      rewrite bpow_plus. apply Rmult_lt_compat_r; [apply bpow_gt_0|].
      rewrite <- IZR_pow10 by lia. now apply IZR_lt. }
    assert (Hnz : dec_value s m e <> 0%R).
    { intros E. pose proof (dec_value_abs s m e ltac:(lia)) as A. rewrite E, Rabs_R0 in A.
      assert (0 < IZR m * bpow radix10 e)%R
        by (apply Rmult_lt_0_compat; [now apply IZR_lt|apply bpow_gt_0]). lra. }
    destruct (mag radix2 (dec_value s m e)) as [ex Hex]. specialize (Hex Hnz).
    apply (round_N_small radix2 fexp (fun t => negb (Z.even t)) _ ex Hex).
    assert (ex - 1 < emin - 1).
    { apply (lt_bpow radix2). apply Rle_lt_trans with (1 := proj1 Hex). exact Hx. }
    unfold FLT_exp. lia.
  Qed.

  (* ---- 3. [fnum_to_float], shortcuts included, is the same rounding ---- *)
  Theorem fnum_to_float_correct neg m e len :
    0 <= m < 10 ^ Z.of_nat len ->
    correctly_rounded prec emax (fnum_to_float prec emax Hp He neg (FDec m e) len) neg (dec_value neg m e).
  Proof.
    intros Hm. cbn [fnum_to_float].
    destruct (m =? 0) eqn:E0.
    - assert (m = 0) by lia. subst m.
      rewrite <- (of_decimal_zero prec emax Hp He neg e). apply of_decimal_correct. lia.
    - assert (Hf : 0 < m < 10 ^ Z.of_nat (S len)).
      { rewrite Nat2Z.inj_succ, Z.pow_succ_r by lia. lia. }
      destruct (ndigits_aux_spec (S len) m 0 Hf) as (d & -> & Hd & Hlo & Hhi).
      cbv zeta. rewrite Z.add_0_l.
      destruct (400 <? d + e) eqn:E1.
      + apply (shortcut_infinity neg m e d); lia.
      + destruct (d + e <? -400) eqn:E2.
        * apply (shortcut_zero neg m e d); lia.
        * apply of_decimal_correct. lia.
  Qed.

  (* the shortcuts never change the result *)
  Theorem fnum_to_float_is_of_decimal neg m e len :
    0 <= m < 10 ^ Z.of_nat len ->
    fnum_to_float prec emax Hp He neg (FDec m e) len = Floats.of_decimal prec emax Hp He neg m e.
  Proof.
    intros Hm. apply (correctly_rounded_unique prec emax _ _ neg (dec_value neg m e)).
    - now apply fnum_to_float_correct.
    - apply of_decimal_correct. lia.
  Qed.
End Shortcuts.

(* ====================================================================== *)
(* The two instances: binary64 (f64) and binary32 (f32)                    *)
(* ====================================================================== *)

Lemma bpow2_le_bpow10 a b : 0 <= a -> 0 <= b -> 2 ^ a <= 10 ^ b ->
  (bpow radix2 a <= bpow radix10 b)%R.
Proof.
  intros Ha Hb H. rewrite <- (IZR_Zpower radix2 a Ha), <- (IZR_pow10 b Hb). now apply IZR_le.
Qed.

Lemma bpow10_neg_le_bpow2_neg a b : 0 <= a -> 0 <= b -> 2 ^ a <= 10 ^ b ->
  (bpow radix10 (- b) <= bpow radix2 (- a))%R.
Proof.
  intros Ha Hb H. rewrite 2!bpow_opp. apply Rinv_le; [apply bpow_gt_0|].
  now apply bpow2_le_bpow10.
Qed.

Lemma big64 : (bpow radix2 1024 <= bpow radix10 400)%R.
Proof. apply bpow2_le_bpow10; [lia|lia|]. apply Z.leb_le. vm_compute. reflexivity. Qed.
Lemma small64 : (bpow radix10 (-401) <= bpow radix2 (3 - 1024 - 53 - 1))%R.
Proof.
  apply (bpow10_neg_le_bpow2_neg 1075 401); [lia|lia|]. apply Z.leb_le. vm_compute. reflexivity.
Qed.
Lemma big32 : (bpow radix2 128 <= bpow radix10 400)%R.
Proof. apply bpow2_le_bpow10; [lia|lia|]. apply Z.leb_le. vm_compute. reflexivity. Qed.
Lemma small32 : (bpow radix10 (-401) <= bpow radix2 (3 - 128 - 24 - 1))%R.
Proof.
  apply (bpow10_neg_le_bpow2_neg 150 401); [lia|lia|]. apply Z.leb_le. vm_compute. reflexivity.
Qed.

(* round-to-nearest-even into binary64 / binary32 (gradual underflow; no overflow yet) *)
Definition round64 : R -> R := round radix2 (FLT_exp (-1074) 53) ZnearestE.
Definition round32 : R -> R := round radix2 (FLT_exp (-149) 24) ZnearestE.

(* [correctly_rounded] spelled out for the two formats *)
Definition rounds_to_f64 (z : F64) (s : bool) (x : R) : Prop :=
  ((Rabs (round64 x) < bpow radix2 1024)%R ->
     B2R z = round64 x /\ is_finite z = true /\ Bsign z = s) /\
  ((bpow radix2 1024 <= Rabs (round64 x))%R -> z = B754_infinity s).
Definition rounds_to_f32 (z : F32) (s : bool) (x : R) : Prop :=
  ((Rabs (round32 x) < bpow radix2 128)%R ->
     B2R z = round32 x /\ is_finite z = true /\ Bsign z = s) /\
  ((bpow radix2 128 <= Rabs (round32 x))%R -> z = B754_infinity s).

Lemma rounds_to_f64_eq z s x : rounds_to_f64 z s x <-> correctly_rounded 53 1024 z s x.
Proof. reflexivity. Qed.
Lemma rounds_to_f32_eq z s x : rounds_to_f32 z s x <-> correctly_rounded 24 128 z s x.
Proof. reflexivity. Qed.

(* 1. of_decimal *)
Theorem of_decimal_f64_correct s m e : 0 <= m -> rounds_to_f64 (D.of_decimal s m e) s (dec_value s m e).
Proof. exact (of_decimal_correct 53 1024 Hp64 He64 s m e). Qed.
Theorem of_decimal_f32_correct s m e : 0 <= m -> rounds_to_f32 (S.of_decimal s m e) s (dec_value s m e).
Proof. exact (of_decimal_correct 24 128 Hp32 He32 s m e). Qed.
Theorem of_decimal_f64_not_nan s m e : 0 <= m -> D.of_decimal s m e <> B754_nan.
Proof. exact (of_decimal_not_nan 53 1024 Hp64 He64 s m e). Qed.
Theorem of_decimal_f32_not_nan s m e : 0 <= m -> S.of_decimal s m e <> B754_nan.
Proof. exact (of_decimal_not_nan 24 128 Hp32 He32 s m e). Qed.

(* 2. zero keeps the written sign *)
Theorem of_decimal_f64_zero s e : D.of_decimal s 0 e = B754_zero s.
Proof. reflexivity. Qed.
Theorem of_decimal_f32_zero s e : S.of_decimal s 0 e = B754_zero s.
Proof. reflexivity. Qed.
Theorem fnum_to_float_zero prec emax Hp He neg e len :
  fnum_to_float prec emax Hp He neg (FDec 0 e) len = B754_zero neg.
Proof. reflexivity. Qed.

(* 3. the parsers *)
Theorem parse_f64_raw_correct s neg m e :
  parse_fnum s = Some (neg, FDec m e) ->
  exists z, parse_f64_raw s = Some z /\ rounds_to_f64 z neg (dec_value neg m e) /\
            z = D.of_decimal neg m e.
Proof.
  intros H. unfold parse_f64_raw. rewrite H. eexists. split; [reflexivity|].
  pose proof (parse_fnum_mantissa_bound _ _ _ _ H) as Hb. split.
  - exact (fnum_to_float_correct 53 1024 Hp64 He64 big64 small64 neg m e _ Hb).
  - exact (fnum_to_float_is_of_decimal 53 1024 Hp64 He64 big64 small64 neg m e _ Hb).
Qed.
Theorem parse_f32_raw_correct s neg m e :
  parse_fnum s = Some (neg, FDec m e) ->
  exists z, parse_f32_raw s = Some z /\ rounds_to_f32 z neg (dec_value neg m e) /\
            z = S.of_decimal neg m e.
Proof.
  intros H. unfold parse_f32_raw. rewrite H. eexists. split; [reflexivity|].
  pose proof (parse_fnum_mantissa_bound _ _ _ _ H) as Hb. split.
  - exact (fnum_to_float_correct 24 128 Hp32 He32 big32 small32 neg m e _ Hb).
  - exact (fnum_to_float_is_of_decimal 24 128 Hp32 He32 big32 small32 neg m e _ Hb).
Qed.

(* -0, -0.0, -0e5 ... parse to negative zero *)
Theorem parse_f64_raw_zero s neg e :
  parse_fnum s = Some (neg, FDec 0 e) -> parse_f64_raw s = Some (B754_zero neg).
Proof. intros H. unfold parse_f64_raw. now rewrite H. Qed.
Theorem parse_f32_raw_zero s neg e :
  parse_fnum s = Some (neg, FDec 0 e) -> parse_f32_raw s = Some (B754_zero neg).
Proof. intros H. unfold parse_f32_raw. now rewrite H. Qed.

(* every number ParseNumber accepts is finite, hence it is exactly the
   nearest-even rounding of the decimal that was written *)
Theorem pn_f64_correctly_rounded s x :
  pn_f64 s = Some x ->
  exists neg m e, decimal_literal (trim s) neg m e /\
    B2R x = round64 (dec_value neg m e) /\ is_finite x = true /\ Bsign x = neg.
Proof.
  intros H. pose proof (pn_f64_finite _ _ H) as Hfin.
  destruct (pn_f64_decimal _ _ H) as (neg & m & e & Hpf).
  apply pn_f64_spec in H. destruct H as (Hr & _).
  destruct (parse_f64_raw_correct _ _ _ _ Hpf) as (z & Hz & [A B] & _).
  rewrite Hr in Hz. inversion Hz; subst z.
  exists neg, m, e. split; [now apply parse_fnum_decimal_iff|].
  destruct (Rlt_or_le (Rabs (round64 (dec_value neg m e))) (bpow radix2 1024)) as [Hlt|Hge].
  - exact (A Hlt).
  - rewrite (B Hge) in Hfin. discriminate.
Qed.
Theorem pn_f32_correctly_rounded s x :
  pn_f32 s = Some x ->
  exists neg m e, decimal_literal (trim s) neg m e /\
    B2R x = round32 (dec_value neg m e) /\ is_finite x = true /\ Bsign x = neg.
Proof.
  intros H. pose proof (pn_f32_finite _ _ H) as Hfin.
  destruct (pn_f32_decimal _ _ H) as (neg & m & e & Hpf).
  apply pn_f32_spec in H. destruct H as (Hr & _).
  destruct (parse_f32_raw_correct _ _ _ _ Hpf) as (z & Hz & [A B] & _).
  rewrite Hr in Hz. inversion Hz; subst z.
  exists neg, m, e. split; [now apply parse_fnum_decimal_iff|].
  destruct (Rlt_or_le (Rabs (round32 (dec_value neg m e))) (bpow radix2 128)) as [Hlt|Hge].
  - exact (A Hlt).
  - rewrite (B Hge) in Hfin. discriminate.
Qed.

(* decimals that are EXACTLY a dyadic number a + b * 2^-k (used to state ties exactly):
   (a * 10^k + b * 5^k) * 10^-k = a + b * 2^-k *)
Lemma dyadic_as_decimal a b k : 0 <= k ->
  dec_value false (a * 10 ^ k + b * 5 ^ k) (- k) = (IZR a + IZR b * bpow radix2 (- k))%R.
Proof.
  intros Hk. unfold dec_value. cbn [cond_Ropp].
  rewrite 2!bpow_opp, <- (IZR_pow10 k Hk), <- (IZR_Zpower radix2 k Hk).
  change (radix2 ^ k) with (2 ^ k). change 10 with (5 * 2) at 2. rewrite Z.pow_mul_l.
  rewrite plus_IZR, !mult_IZR.
  assert (IZR (5 ^ k) <> 0%R) by (apply not_0_IZR; pose proof (Z.pow_pos_nonneg 5 k); lia).
  assert (IZR (2 ^ k) <> 0%R) by (apply not_0_IZR; pose proof (Z.pow_pos_nonneg 2 k); lia).
  change 10 with (5 * 2). rewrite Z.pow_mul_l, mult_IZR. field. auto.
Qed.

(* LengthFacts: T16a -- the case analysis of calculate_length, for every path,
   every requested length and every seed (optimized_len), in IEEE arithmetic.
   Purely structural: which branch is taken and what it returns. *)
From RM Require Import Model.ControlPoints Model.Curve Proofs.BezierRefine.
Require Import ZifyBool.
Open Scope nat_scope.

(* the natural cumulative lengths: 0, then the running sums seeded with opt *)
Definition natural (path : list Pos) (opt : F64) : list F64 := D.zero :: fst (cum_lengths opt path).
(* calculated_len after the loop *)
Definition natural_len (path : list Pos) (opt : F64) : F64 := snd (cum_lengths opt path).

Lemma cum_lengths_cons2 acc a b t :
  cum_lengths acc (a :: b :: t) =
  (D.add acc (f64_of_f32 (plen (psub b a))) :: fst (cum_lengths (D.add acc (f64_of_f32 (plen (psub b a)))) (b :: t)),
   snd (cum_lengths (D.add acc (f64_of_f32 (plen (psub b a)))) (b :: t))).
Proof.
  change (cum_lengths acc (a :: b :: t)) with
    (let '(l, fin) := cum_lengths (D.add acc (f64_of_f32 (plen (psub b a)))) (b :: t) in
     (D.add acc (f64_of_f32 (plen (psub b a))) :: l, fin)).
  destruct (cum_lengths (D.add acc (f64_of_f32 (plen (psub b a)))) (b :: t)); reflexivity.
Qed.

Lemma cum_lengths_length path : forall acc, length (fst (cum_lengths acc path)) = pred (length path).
Proof.
  induction path as [|a [|b t] IH]; intros acc; try reflexivity.
  rewrite cum_lengths_cons2. cbn [fst length pred]. rewrite IH. reflexivity.
Qed.

Lemma natural_length path opt : length (natural path opt) = Nat.max 1 (length path).
Proof. unfold natural. cbn [length]. rewrite cum_lengths_length. destruct path; cbn; lia. Qed.

(* the natural length is the last natural cumulative length (for >= 2 vertices) *)
Lemma natural_len_last path : forall opt, 2 <= length path ->
  last (natural path opt) D.zero = natural_len path opt.
Proof.
  unfold natural, natural_len.
  induction path as [|a [|b t] IH]; intros opt H; cbn [length] in H; try lia.
  rewrite cum_lengths_cons2. cbn [fst snd].
  destruct t as [|c t'].
  - reflexivity.
  - specialize (IH (D.add opt (f64_of_f32 (plen (psub b a)))) ltac:(cbn [length]; lia)).
    rewrite <- IH.
    pose proof (cum_lengths_length (b :: c :: t') (D.add opt (f64_of_f32 (plen (psub b a))))) as HL.
    destruct (fst (cum_lengths (D.add opt (f64_of_f32 (plen (psub b a)))) (b :: c :: t'))) as [|x l'];
      [cbn in HL; lia|reflexivity].
Qed.

(* ---------- list facts ---------- *)

Lemma removelast_firstn_len {A} (l : list A) : removelast l = firstn (pred (length l)) l.
Proof.
  induction l as [|a [|b t] IH]; try reflexivity.
  change (removelast (a :: b :: t)) with (a :: removelast (b :: t)). rewrite IH. reflexivity.
Qed.

Lemma firstn_firstn_le {A} (l : list A) i j : i <= j -> firstn i (firstn j l) = firstn i l.
Proof. intros H. rewrite firstn_firstn. now rewrite Nat.min_l. Qed.

Lemma replace_nth_last {A} k (x : A) l : length l = S k -> replace_nth k x l = firstn k l ++ [x].
Proof.
  revert l; induction k as [|k IH]; intros l H.
  - destruct l as [|a [|b t]]; cbn in H; try lia. reflexivity.
  - destruct l as [|a t]; cbn in H; [lia|]. cbn [replace_nth firstn app]. rewrite IH by lia. reflexivity.
Qed.

Lemma nth_error_firstn {A} (l : list A) i j : i < j -> nth_error (firstn j l) i = nth_error l i.
Proof.
  revert l j; induction i as [|i IH]; intros l j H; destruct j; try lia; destruct l; try reflexivity.
  cbn [firstn nth_error]. apply IH. lia.
Qed.

Lemma last_valid_le l e : last_valid l e <= length l.
Proof. induction l as [|x t IH]; cbn [last_valid length]; [lia|]. destruct (last_valid t e); [destruct (D.lt x e)|]; lia. Qed.

(* one past the last index whose length is below e *)
Lemma last_valid_spec l e :
  (forall x, last_valid l e = S x -> exists v, nth_error l x = Some v /\ D.lt v e = true) /\
  (forall j v, last_valid l e <= j -> nth_error l j = Some v -> D.lt v e = false).
Proof.
  induction l as [|a t [IH1 IH2]]; cbn [last_valid].
  - split; [discriminate|]. intros [|j] v _ H; discriminate.
  - destruct (last_valid t e) as [|k] eqn:E.
    + destruct (D.lt a e) eqn:Ea.
      * split.
        -- intros x Hx. inversion Hx; subst. exists a. split; [reflexivity|exact Ea].
        -- intros [|j] v Hj Hv; [lia|]. cbn [nth_error] in Hv. apply (IH2 j v); [lia|exact Hv].
      * split; [discriminate|].
        intros [|j] v Hj Hv; cbn [nth_error] in Hv; [inversion Hv; subst; exact Ea|].
        apply (IH2 j v); [lia|exact Hv].
    + split.
      * intros x Hx. inversion Hx; subst. cbn [nth_error]. apply IH1. reflexivity.
      * intros [|j] v Hj Hv; [lia|]. cbn [nth_error] in Hv. apply (IH2 j v); [lia|exact Hv].
Qed.

(* ---------- the end point of an adjusted curve ---------- *)

(* path[k-1] + normalize(path[k] - path[k-1]) * (L - lengths[k-1]) as f32 *)
Definition adjust_end (path : list Pos) (lens : list F64) (k : nat) (e : F64) : option Pos :=
  match nth_error path (pred k), nth_error path k, nth_error lens (pred k) with
  | Some pp, Some pe, Some lp => Some (padd pp (pmul (pnormalize (psub pe pp)) (f32_of_f64 (D.sub e lp))))
  | _, _, _ => None
  end.

(* ---------- T16a ---------- *)

(* the filter of calculate_length rejects the requested length -- the natural
   curve is kept -- exactly when !((calculated_len - len).abs() > 0.0): the
   difference is +-0.0 or NaN (characterised in Proofs/LengthExact.v: the two
   are the same number, or the difference is NaN) *)
Definition keeps_natural (calc e : F64) : bool := negb (D.gt (D.abs (D.sub calc e)) D.zero).

Theorem calculate_length_cases path e opt :
  let nat := natural path opt in
  let calc := natural_len path opt in
  match e with
  | None => calculate_length path None opt = Done (path, nat)
  | Some L =>
      if keeps_natural calc L then calculate_length path e opt = Done (path, nat)
      else if last_two_equal path && D.gt L calc then calculate_length path e opt = Done (path, nat ++ [calc])
      else if Nat.leb (length path) 1 then calculate_length path e opt = Done (path, [D.zero])
      else
        let k := last_valid (removelast nat) L in
        match k with
        | O => calculate_length path e opt = Done (firstn 1 path, [D.zero])
        | S _ => exists p', adjust_end path nat k L = Some p' /\ k < length path /\
                            calculate_length path e opt = Done (firstn k path ++ [p'], firstn k nat ++ [L])
        end
  end.
Proof.
  intros nat calc. unfold calculate_length.
  pose proof (natural_length path opt) as Hnl. fold nat in Hnl.
  unfold nat, calc, natural, natural_len in *.
  destruct (cum_lengths opt path) as [rest fin] eqn:EC. cbn [fst snd] in *.
  destruct e as [L|]; [|reflexivity].
  unfold keeps_natural.
  destruct (negb (D.gt (D.abs (D.sub fin L)) D.zero)); [reflexivity|].
  destruct (last_two_equal path && D.gt L fin)%bool; [reflexivity|].
  destruct (Nat.leb (length path) 1) eqn:E1.
  - apply Nat.leb_le in E1.
    replace (Nat.eqb (length (D.zero :: rest)) 1) with true by (symmetry; apply Nat.eqb_eq; lia).
    destruct rest as [|x r]; [reflexivity|]. cbn [length] in Hnl. lia.
  - apply Nat.leb_gt in E1.
    replace (Nat.eqb (length (D.zero :: rest)) 1) with false by (symmetry; apply Nat.eqb_neq; lia).
    unfold pop. set (cum := D.zero :: rest) in *.
    assert (Hc1 : length (removelast cum) = pred (length path)).
    { rewrite removelast_firstn_len, firstn_length. lia. }
    set (cum1 := removelast cum) in *.
    pose proof (last_valid_le cum1 L) as Hlv.
    set (lv := last_valid cum1 L) in *.
    destruct (Nat.ltb lv (length cum1)) eqn:Et.
    + (* the path is cut before its last segment *)
      apply Nat.ltb_lt in Et.
      destruct lv as [|k1] eqn:Elv; [reflexivity|].
      assert (Hf : firstn (S k1) cum1 = firstn (S k1) cum).
      { unfold cum1. rewrite removelast_firstn_len. apply firstn_firstn_le. lia. }
      rewrite Hf.
      destruct (firstn (S k1) cum) as [|c0 cr] eqn:Ef.
      { apply (f_equal (@length F64)) in Ef. rewrite firstn_length in Ef. cbn [length] in Ef. lia. }
      rewrite <- Ef.
      assert (Hlen2 : length (firstn (S k1) cum) = S k1) by (rewrite firstn_length; lia).
      rewrite Hlen2. cbn [Nat.sub]. rewrite Nat.sub_0_r.
      unfold aget, adjust_end. cbn [pred].
      rewrite !nth_error_firstn by lia.
      destruct (nth_error path (S k1)) as [pe|] eqn:Epe; [|apply nth_error_None in Epe; lia].
      destruct (nth_error path k1) as [pp|] eqn:Epp; [|apply nth_error_None in Epp; lia].
      destruct (nth_error cum k1) as [lp|] eqn:Elp; [|apply nth_error_None in Elp; lia].
      cbn [obind]. eexists. split; [reflexivity|]. split; [lia|].
      unfold aset. rewrite firstn_length.
      replace (S k1 <? Nat.min (S (S k1)) (length path)) with true by (symmetry; apply Nat.ltb_lt; lia).
      cbn [obind]. rewrite replace_nth_last by (rewrite firstn_length; lia).
      rewrite firstn_firstn_le by lia. reflexivity.
    + (* the last segment is shortened or lengthened *)
      apply Nat.ltb_ge in Et. assert (Elv : lv = length cum1) by lia.
      destruct cum1 as [|c0 cr] eqn:Ecum1; [cbn [length] in Hc1; lia|]. rewrite <- Ecum1 in *.
      destruct lv as [|k1] eqn:Elv'; [rewrite Ecum1 in Elv; cbn in Elv; lia|].
      rewrite <- Elv. cbn [Nat.sub]. rewrite Nat.sub_0_r.
      unfold aget, adjust_end. cbn [pred].
      assert (Hn : nth_error cum1 k1 = nth_error cum k1).
      { unfold cum1. rewrite removelast_firstn_len. apply nth_error_firstn. lia. }
      rewrite Hn.
      destruct (nth_error path (S k1)) as [pe|] eqn:Epe; [|apply nth_error_None in Epe; lia].
      destruct (nth_error path k1) as [pp|] eqn:Epp; [|apply nth_error_None in Epp; lia].
      destruct (nth_error cum k1) as [lp|] eqn:Elp; [|apply nth_error_None in Elp; lia].
      cbn [obind]. eexists. split; [reflexivity|]. split; [lia|].
      unfold aset.
      replace (S k1 <? length path) with true by (symmetry; apply Nat.ltb_lt; lia).
      cbn [obind]. rewrite replace_nth_last by lia.
      replace (firstn (S k1) cum) with cum1; [reflexivity|].
      unfold cum1. rewrite removelast_firstn_len. f_equal. lia.
Qed.

(* ---------- consequences ---------- *)

Lemma Done_pair_inj {A B} (a a' : A) (b b' : B) : Done (a, b) = Done (a', b') -> a = a' /\ b = b'.
Proof. intros H. inversion H. split; reflexivity. Qed.

Lemma hd_natural path opt : hd D.one (natural path opt) = D.zero.
Proof. reflexivity. Qed.

(* every result: there is a cumulative length for every vertex; the first is 0.0 *)
Theorem calculate_length_shape path e opt path' lens :
  calculate_length path e opt = Done (path', lens) ->
  length path' <= length lens /\ (exists t, lens = D.zero :: t).
Proof.
  intros H.
  pose proof (calculate_length_cases path e opt) as C. cbv zeta in C.
  pose proof (natural_length path opt) as Hnl.
  destruct e as [L|].
  - destruct (keeps_natural (natural_len path opt) L).
    { rewrite C in H. apply Done_pair_inj in H; destruct H as [<- <-]. split; [lia|]. eexists; reflexivity. }
    destruct (last_two_equal path && D.gt L (natural_len path opt))%bool.
    { rewrite C in H. apply Done_pair_inj in H; destruct H as [<- <-]. rewrite app_length. split; [lia|]. eexists; reflexivity. }
    destruct (Nat.leb (length path) 1) eqn:E1.
    { rewrite C in H. apply Done_pair_inj in H; destruct H as [<- <-]. apply Nat.leb_le in E1. cbn [length]. split; [lia|]. eexists; reflexivity. }
    destruct (last_valid (removelast (natural path opt)) L) as [|k1] eqn:Ek.
    { rewrite C in H. apply Done_pair_inj in H; destruct H as [<- <-]. rewrite firstn_length. cbn [length]. split; [lia|]. eexists; reflexivity. }
    destruct C as (p' & _ & Hk & C). rewrite C in H. apply Done_pair_inj in H; destruct H as [<- <-].
    rewrite !app_length, !firstn_length. cbn [length]. split; [lia|].
    unfold natural. cbn [firstn app]. eexists; reflexivity.
  - rewrite C in H. apply Done_pair_inj in H; destruct H as [<- <-]. split; [lia|]. eexists; reflexivity.
Qed.

(* sizes agree exactly except in the "last two points equal" case *)
Theorem calculate_length_sizes path e opt path' lens :
  calculate_length path e opt = Done (path', lens) -> path <> [] ->
  length lens = length path' \/
  (exists L, e = Some L /\ keeps_natural (natural_len path opt) L = false /\
             last_two_equal path = true /\ D.gt L (natural_len path opt) = true /\
             path' = path /\ lens = natural path opt ++ [natural_len path opt]).
Proof.
  intros H Hne.
  pose proof (calculate_length_cases path e opt) as C. cbv zeta in C.
  pose proof (natural_length path opt) as Hnl.
  assert (Hp : 1 <= length path) by (destruct path; [congruence|cbn; lia]).
  destruct e as [L|].
  - destruct (keeps_natural (natural_len path opt) L) eqn:En.
    { rewrite C in H. apply Done_pair_inj in H; destruct H as [<- <-]. left. lia. }
    destruct (last_two_equal path) eqn:El2; cbn [andb] in C.
    + destruct (D.gt L (natural_len path opt)) eqn:Eg.
      { rewrite C in H. apply Done_pair_inj in H; destruct H as [<- <-]. right. exists L. repeat split; reflexivity || assumption. }
      destruct (Nat.leb (length path) 1) eqn:E1.
      { rewrite C in H. apply Done_pair_inj in H; destruct H as [<- <-]. apply Nat.leb_le in E1. left. cbn [length]. lia. }
      destruct (last_valid (removelast (natural path opt)) L) as [|k1] eqn:Ek.
      { rewrite C in H. apply Done_pair_inj in H; destruct H as [<- <-]. left. rewrite firstn_length. cbn [length]. lia. }
      destruct C as (p' & _ & Hk & C). rewrite C in H. apply Done_pair_inj in H; destruct H as [<- <-].
      left. rewrite !app_length, !firstn_length. cbn [length]. lia.
    + destruct (Nat.leb (length path) 1) eqn:E1.
      { rewrite C in H. apply Done_pair_inj in H; destruct H as [<- <-]. apply Nat.leb_le in E1. left. cbn [length]. lia. }
      destruct (last_valid (removelast (natural path opt)) L) as [|k1] eqn:Ek.
      { rewrite C in H. apply Done_pair_inj in H; destruct H as [<- <-]. left. rewrite firstn_length. cbn [length]. lia. }
      destruct C as (p' & _ & Hk & C). rewrite C in H. apply Done_pair_inj in H; destruct H as [<- <-].
      left. rewrite !app_length, !firstn_length. cbn [length]. lia.
  - rewrite C in H. apply Done_pair_inj in H; destruct H as [<- <-]. left. lia.
Qed.

(* in the adjusting branch the curve's distance IS the requested length *)
Lemma dist_adjusted (pre : list F64) (L : F64) : dist (pre ++ [L]) = L.
Proof.
  unfold dist. replace (last_opt (pre ++ [L])) with (Some L); [reflexivity|].
  induction pre as [|a [|b t] IH]; cbn [app last_opt] in *; auto.
Qed.

(* every computed curve has a cumulative length for every vertex, starting at 0.0 *)
Lemma curve_L1_sizes lm fuel mode pts e c :
  curve_L1 lm fuel mode pts e = Done c ->
  length (c_path c) <= length (c_lengths c) /\ (exists t, c_lengths c = D.zero :: t).
Proof.
  unfold curve_L1. destruct (calculate_path_L1 lm fuel mode pts) as [[path opt]| |]; cbn [obind]; try discriminate.
  destruct (calculate_length path e opt) as [[path' lens]| |] eqn:E; cbn [obind]; try discriminate.
  intros H. inversion H; subst. cbn [c_path c_lengths]. exact (calculate_length_shape path e opt path' lens E).
Qed.

(* ---------- the adjusting branch, for a positive requested length ---------- *)

Lemma last_valid_pos t L : D.lt D.zero L = true -> last_valid (D.zero :: t) L <> 0.
Proof.
  intros HL H. destruct (last_valid_spec (D.zero :: t) L) as [_ H2].
  specialize (H2 0 D.zero). rewrite H in H2. specialize (H2 (le_n 0) eq_refl). congruence.
Qed.

Lemma removelast_natural_cons path opt :
  2 <= length path -> exists t, removelast (natural path opt) = D.zero :: t.
Proof.
  intros H. pose proof (natural_length path opt) as Hn. unfold natural in *.
  destruct (fst (cum_lengths opt path)) as [|x r]; [cbn [length] in Hn; lia|].
  exists (removelast (x :: r)). reflexivity.
Qed.

(* T16a (iv): requested length L > 0 that differs from the natural length
   (the filter lets it through), not the "duplicate end, longer" exception, at least two vertices:
   the distance IS L; the path is the natural path cut after vertex k-1 plus
   one new end point on the ray from vertex k-1 through vertex k; k-1 is the
   last vertex (before the final one) whose natural cumulative length is
   below L *)
Theorem calculate_length_adjusts path L opt path' lens :
  D.lt D.zero L = true ->
  keeps_natural (natural_len path opt) L = false ->
  (last_two_equal path && D.gt L (natural_len path opt))%bool = false ->
  2 <= length path ->
  calculate_length path (Some L) opt = Done (path', lens) ->
  dist lens = L /\ length lens = length path' /\
  exists k p',
    1 <= k < length path /\
    path' = firstn k path ++ [p'] /\
    lens = firstn k (natural path opt) ++ [L] /\
    adjust_end path (natural path opt) k L = Some p' /\
    (exists v, nth_error (natural path opt) (pred k) = Some v /\ D.lt v L = true) /\
    (forall j v, k <= j < pred (length path) -> nth_error (natural path opt) j = Some v -> D.lt v L = false).
Proof.
  intros HL Hn Hd H2 H.
  pose proof (calculate_length_cases path (Some L) opt) as C. cbv beta zeta iota in C.
  rewrite Hn, Hd in C.
  replace (Nat.leb (length path) 1) with false in C by (symmetry; apply Nat.leb_gt; lia).
  destruct (removelast_natural_cons path opt H2) as (t & Et).
  pose proof (last_valid_pos t L HL) as Hpos. rewrite <- Et in Hpos.
  pose proof (natural_length path opt) as Hnl.
  assert (Hrl : length (removelast (natural path opt)) = pred (length path)).
  { rewrite removelast_firstn_len, firstn_length. lia. }
  destruct (last_valid_spec (removelast (natural path opt)) L) as [S1 S2].
  destruct (last_valid (removelast (natural path opt)) L) as [|k1] eqn:Ek; [congruence|].
  destruct C as (p' & Ha & Hk & C). rewrite C in H. apply Done_pair_inj in H. destruct H as [<- <-].
  split; [apply dist_adjusted|].
  split; [rewrite !app_length, !firstn_length; cbn [length]; lia|].
  exists (S k1), p'. split; [lia|]. split; [reflexivity|]. split; [reflexivity|]. split; [exact Ha|].
  assert (Hnth : forall j, j < pred (length path) ->
                 nth_error (removelast (natural path opt)) j = nth_error (natural path opt) j).
  { intros j Hj. rewrite removelast_firstn_len. apply nth_error_firstn. lia. }
  split.
  - destruct (S1 k1 eq_refl) as (v & Hv & Hlt). exists v. cbn [pred]. rewrite <- Hnth by lia. split; assumption.
  - intros j v Hj Hv. apply (S2 j v); [lia|]. rewrite Hnth by lia. exact Hv.
Qed.

(* unfolding of the pure curve *)
Lemma curve_L1_unfold lm fuel mode pts e c :
  curve_L1 lm fuel mode pts e = Done c ->
  exists path opt, calculate_path_L1 lm fuel mode pts = Done (path, opt) /\
                   calculate_length path e opt = Done (c_path c, c_lengths c).
Proof.
  unfold curve_L1. destruct (calculate_path_L1 lm fuel mode pts) as [[path opt]| |]; cbn [obind]; try discriminate.
  destruct (calculate_length path e opt) as [[path' lens]| |] eqn:E; cbn [obind]; try discriminate.
  intros H. inversion H; subst. exists path, opt. split; [reflexivity|exact E].
Qed.

Lemma dist_last (l : list F64) : dist l = last l D.zero.
Proof.
  unfold dist. induction l as [|a [|b t] IH]; try reflexivity.
  change (last_opt (a :: b :: t)) with (last_opt (b :: t)).
  change (last (a :: b :: t) D.zero) with (last (b :: t) D.zero). exact IH.
Qed.

Lemma no_requested_length path opt :
  calculate_length path None opt = Done (path, natural path opt) /\
  (2 <= length path -> dist (natural path opt) = natural_len path opt).
Proof.
  split; [exact (calculate_length_cases path None opt)|].
  intros H. rewrite dist_last. apply natural_len_last. exact H.
Qed.

Lemma unchanged_length_keeps_natural path L opt :
  keeps_natural (natural_len path opt) L = true ->
  calculate_length path (Some L) opt = Done (path, natural path opt).
Proof.
  intros H. pose proof (calculate_length_cases path (Some L) opt) as C.
  cbv beta zeta iota in C. rewrite H in C. exact C.
Qed.

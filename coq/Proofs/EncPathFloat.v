(* EncPathFloat: the float arithmetic of slider path strings.  Control-point
   coordinates are integers stored as f32: the decoder computes
   [(x as i32 as f32) - pos.x], the encoder [pos.x + point.x] and [.. as i32];
   on integers below 2^24 all of this is exact. *)
From RM Require Import Model.Floats Proofs.EncFloat.
From Flocq Require Import Core BinarySingleNaN.
From Coq Require Import Reals Lia Lra ZArith Bool.
Open Scope Z_scope.

Section OfZArith.
  Variables prec emax : Z.
  Context (Hp : Prec_gt_0 prec) (He : Prec_lt_emax prec emax).
  Notation ofz := (of_Z prec emax Hp He).

  Lemma of_Z_sign n : Z.abs n < 2 ^ prec -> Bsign (ofz n) = (n <? 0).
  Proof.
    intros Hn. unfold of_Z.
    pose proof (binary_normalize_correct prec emax Hp He mode_NE n 0 false) as H.
    cbv zeta in H.
    assert (Hx : F2R (Float radix2 n 0) = IZR n).
    { unfold F2R. cbn [Fnum Fexp bpow]. lra. }
    rewrite Hx in H.
    assert (Hprec : 0 < prec) by exact Hp.
    assert (Hemax : prec < emax) by exact He.
    assert (Hg : generic_format radix2 (SpecFloat.fexp prec emax) (IZR n)).
    { rewrite <- Hx. apply (generic_format_FLT radix2 (SpecFloat.emin prec emax) prec).
      apply (FLT_spec radix2 _ _ _ (Float radix2 n 0)); cbn [Fnum Fexp].
      - reflexivity.
      - change (Zpower radix2 prec) with (2 ^ prec). exact Hn.
      - unfold SpecFloat.emin. lia. }
    rewrite round_generic in H; [|apply valid_rnd_round_mode|exact Hg].
    assert (Hlt : (Rabs (IZR n) < bpow radix2 emax)%R).
    { rewrite <- abs_IZR. apply Rlt_le_trans with (IZR (2 ^ prec)).
      - apply IZR_lt. exact Hn.
      - change 2 with (radix_val radix2). rewrite IZR_Zpower by lia. apply bpow_le. lia. }
    rewrite (Rlt_bool_true _ _ Hlt) in H. destruct H as (_ & _ & H3). rewrite H3.
    destruct (Rcompare_spec (IZR n) 0) as [H|H|H].
    - apply lt_IZR in H. symmetry. apply Z.ltb_lt. exact H.
    - apply eq_IZR in H. subst n. reflexivity.
    - apply lt_IZR in H. symmetry. apply Z.ltb_ge. lia.
  Qed.

  Lemma generic_small n : Z.abs n < 2 ^ prec ->
    generic_format radix2 (SpecFloat.fexp prec emax) (IZR n).
  Proof.
    intros Hn.
    assert (Hprec : 0 < prec) by exact Hp.
    assert (Hemax : prec < emax) by exact He.
    assert (Hx : F2R (Float radix2 n 0) = IZR n).
    { unfold F2R. cbn [Fnum Fexp bpow]. lra. }
    rewrite <- Hx. apply (generic_format_FLT radix2 (SpecFloat.emin prec emax) prec).
    apply (FLT_spec radix2 _ _ _ (Float radix2 n 0)); cbn [Fnum Fexp].
    - reflexivity.
    - change (Zpower radix2 prec) with (2 ^ prec). exact Hn.
    - unfold SpecFloat.emin. lia.
  Qed.

  Lemma small_lt_emax n : Z.abs n < 2 ^ prec -> (Rabs (IZR n) < bpow radix2 emax)%R.
  Proof.
    intros Hn.
    assert (Hprec : 0 < prec) by exact Hp.
    assert (Hemax : prec < emax) by exact He.
    rewrite <- abs_IZR. apply Rlt_le_trans with (IZR (2 ^ prec)).
    - apply IZR_lt. exact Hn.
    - change 2 with (radix_val radix2). rewrite IZR_Zpower by lia. apply bpow_le. lia.
  Qed.

  (* two finite floats with the same real value and the same sign are the same float *)
  Lemma of_Z_unique (x : binary_float prec emax) n : Z.abs n < 2 ^ prec ->
    is_finite x = true -> B2R x = IZR n -> Bsign x = (n <? 0) -> x = ofz n.
  Proof.
    intros Hn Hf HR HS. destruct (of_Z_exact prec emax Hp He n Hn) as [R F].
    apply B2R_Bsign_inj; try assumption.
    - rewrite HR, R. reflexivity.
    - rewrite HS, (of_Z_sign n Hn). reflexivity.
  Qed.

  Lemma of_Z_add a b : Z.abs a < 2 ^ prec -> Z.abs b < 2 ^ prec -> Z.abs (a + b) < 2 ^ prec ->
    Bplus mode_NE (ofz a) (ofz b) = ofz (a + b).
  Proof.
    intros Ha Hb Hab.
    destruct (of_Z_exact prec emax Hp He a Ha) as [Ra Fa].
    destruct (of_Z_exact prec emax Hp He b Hb) as [Rb Fb].
    pose proof (Bplus_correct prec emax Hp He mode_NE (ofz a) (ofz b) Fa Fb) as H.
    rewrite Ra, Rb, <- plus_IZR in H.
    rewrite round_generic in H; [|apply valid_rnd_round_mode|exact (generic_small _ Hab)].
    rewrite (Rlt_bool_true _ _ (small_lt_emax _ Hab)) in H. destruct H as (H1 & H2 & H3).
    apply of_Z_unique; try assumption.
    rewrite H3, (of_Z_sign a Ha), (of_Z_sign b Hb).
    destruct (Rcompare_spec (IZR (a + b)) 0) as [H|H|H].
    - apply lt_IZR in H. symmetry. apply Z.ltb_lt. exact H.
    - apply eq_IZR in H. rewrite H. cbn.
      destruct (a <? 0) eqn:E1; destruct (b <? 0) eqn:E2; cbn; try reflexivity; lia.
    - apply lt_IZR in H. symmetry. apply Z.ltb_ge. lia.
  Qed.

  Lemma of_Z_sub a b : Z.abs a < 2 ^ prec -> Z.abs b < 2 ^ prec -> Z.abs (a - b) < 2 ^ prec ->
    Bminus mode_NE (ofz a) (ofz b) = ofz (a - b).
  Proof.
    intros Ha Hb Hab.
    destruct (of_Z_exact prec emax Hp He a Ha) as [Ra Fa].
    destruct (of_Z_exact prec emax Hp He b Hb) as [Rb Fb].
    pose proof (Bminus_correct prec emax Hp He mode_NE (ofz a) (ofz b) Fa Fb) as H.
    rewrite Ra, Rb, <- minus_IZR in H.
    rewrite round_generic in H; [|apply valid_rnd_round_mode|exact (generic_small _ Hab)].
    rewrite (Rlt_bool_true _ _ (small_lt_emax _ Hab)) in H. destruct H as (H1 & H2 & H3).
    apply of_Z_unique; try assumption.
    rewrite H3, (of_Z_sign a Ha), (of_Z_sign b Hb).
    destruct (Rcompare_spec (IZR (a - b)) 0) as [H|H|H].
    - apply lt_IZR in H. symmetry. apply Z.ltb_lt. exact H.
    - apply eq_IZR in H. rewrite H. cbn.
      destruct (a <? 0) eqn:E1; destruct (b <? 0) eqn:E2; cbn; try reflexivity; lia.
    - apply lt_IZR in H. symmetry. apply Z.ltb_ge. lia.
  Qed.

  Lemma of_Z_eqb a b : Z.abs a < 2 ^ prec -> Z.abs b < 2 ^ prec ->
    Beqb (ofz a) (ofz b) = (a =? b).
  Proof.
    intros Ha Hb.
    destruct (of_Z_exact prec emax Hp He a Ha) as [Ra Fa].
    destruct (of_Z_exact prec emax Hp He b Hb) as [Rb Fb].
    rewrite Beqb_correct by assumption. rewrite Ra, Rb.
    destruct (Req_bool_spec (IZR a) (IZR b)) as [H|H].
    - apply eq_IZR in H. symmetry. apply Z.eqb_eq. exact H.
    - symmetry. apply Z.eqb_neq. intros E. apply H. rewrite E. reflexivity.
  Qed.

  (* (0 * x) - (0 * y) is a zero, for finite x, y *)
  Lemma cross_zero (z1 x z2 y : binary_float prec emax) :
    is_finite z1 = true -> is_finite x = true -> is_finite z2 = true -> is_finite y = true ->
    B2R z1 = 0%R -> B2R z2 = 0%R ->
    let r := Babs (Bminus mode_NE (Bmult mode_NE z1 x) (Bmult mode_NE z2 y)) in
    is_finite r = true /\ B2R r = 0%R.
  Proof.
    intros F1 Fx F2 Fy R1 R2.
    assert (Hemax : 0 < emax).
    { assert (0 < prec) by exact Hp. assert (prec < emax) by exact He. lia. }
    assert (Hz : (Rabs (round radix2 (SpecFloat.fexp prec emax) (round_mode mode_NE) 0) < bpow radix2 emax)%R).
    { rewrite round_0; [|apply valid_rnd_round_mode]. rewrite Rabs_R0. apply bpow_gt_0. }
    assert (M : forall z w : binary_float prec emax, is_finite z = true -> is_finite w = true -> B2R z = 0%R ->
                is_finite (Bmult mode_NE z w) = true /\ B2R (Bmult mode_NE z w) = 0%R).
    { intros z w Fz Fw Rz. pose proof (Bmult_correct prec emax Hp He mode_NE z w) as H.
      rewrite Rz, Rmult_0_l in H. rewrite (Rlt_bool_true _ _ Hz) in H. destruct H as (H1 & H2 & _).
      rewrite Fz, Fw in H2. split; [exact H2|]. rewrite H1. apply round_0. apply valid_rnd_round_mode. }
    destruct (M z1 x F1 Fx R1) as [Fa Ra]. destruct (M z2 y F2 Fy R2) as [Fb Rb].
    pose proof (Bminus_correct prec emax Hp He mode_NE _ _ Fa Fb) as H.
    rewrite Ra, Rb, Rminus_0_r in H. rewrite (Rlt_bool_true _ _ Hz) in H. destruct H as (H1 & H2 & _).
    cbv zeta. split.
    - rewrite is_finite_Babs. exact H2.
    - rewrite B2R_Babs, H1, round_0 by (apply valid_rnd_round_mode). apply Rabs_R0.
  Qed.
End OfZArith.

(* ---------- f32 instances ---------- *)

Lemma S_add_of_Z a b : Z.abs a < 2 ^ 24 -> Z.abs b < 2 ^ 24 -> Z.abs (a + b) < 2 ^ 24 ->
  S.add (S.of_Z a) (S.of_Z b) = S.of_Z (a + b).
Proof. intros. unfold S.add, fadd, S.of_Z. apply of_Z_add; assumption. Qed.

Lemma S_sub_of_Z a b : Z.abs a < 2 ^ 24 -> Z.abs b < 2 ^ 24 -> Z.abs (a - b) < 2 ^ 24 ->
  S.sub (S.of_Z a) (S.of_Z b) = S.of_Z (a - b).
Proof. intros. unfold S.sub, fsub, S.of_Z. apply of_Z_sub; assumption. Qed.

Lemma S_eq_of_Z a b : Z.abs a < 2 ^ 24 -> Z.abs b < 2 ^ 24 ->
  S.eq (S.of_Z a) (S.of_Z b) = (a =? b).
Proof. intros. unfold S.eq, feq, S.of_Z. apply of_Z_eqb; assumption. Qed.

Lemma S_of_Z_finite n : Z.abs n < 2 ^ 24 -> is_finite (S.of_Z n) = true.
Proof. intros H. exact (proj2 (of_Z_exact 24 128 Hp32 He32 n H)). Qed.

Lemma S_of_Z_inj a b : Z.abs a < 2 ^ 24 -> Z.abs b < 2 ^ 24 -> S.of_Z a = S.of_Z b -> a = b.
Proof.
  intros Ha Hb E. pose proof (S_eq_of_Z a b Ha Hb) as H. rewrite E in H.
  rewrite (S_eq_of_Z b b Hb Hb), Z.eqb_refl in H. symmetry in H. apply Z.eqb_eq in H. exact H.
Qed.

Lemma S_eps_pos : (0 < B2R S.eps)%R.
Proof.
  rewrite <- SF2R_B2SF.
  replace (B2SF S.eps) with (SpecFloat.S754_finite false 8388608 (-46)) by (vm_compute; reflexivity).
  unfold SF2R, F2R. cbn. lra.
Qed.
Lemma S_eps_finite : is_finite S.eps = true.
Proof. rewrite <- is_finite_SF_B2SF. vm_compute. reflexivity. Qed.

(* fn is_linear on three points of which the first two coincide: the cross product is 0 *)
Lemma cross_zero32 (z1 x z2 y : F32) :
  is_finite z1 = true -> is_finite x = true -> is_finite z2 = true -> is_finite y = true ->
  B2R z1 = 0%R -> B2R z2 = 0%R ->
  S.lt (S.abs (S.sub (S.mul z1 x) (S.mul z2 y))) S.eps = true.
Proof.
  intros F1 Fx F2 Fy R1 R2.
  destruct (cross_zero 24 128 Hp32 He32 z1 x z2 y F1 Fx F2 Fy R1 R2) as [Fr Rr].
  unfold S.lt, flt, S.abs, fabs, S.sub, fsub, S.mul, fmul.
  rewrite Bltb_correct; [|exact Fr|exact S_eps_finite]. rewrite Rr.
  apply Rlt_bool_true. exact S_eps_pos.
Qed.

(* a coordinate within +-MAX_COORDINATE_VALUE passes the f64 limit test of read_point *)
Lemma coord64_in_limit n : Z.abs n <= 131072 ->
  D.lt (D.of_Z n) (D.neg (D.of_Z 131072)) = false /\ D.gt (D.of_Z n) (D.of_Z 131072) = false /\
  D.is_nan (D.of_Z n) = false /\ is_finite (D.of_Z n) = true.
Proof.
  intros H. assert (Hn : Z.abs n < 2 ^ 53) by (change (2 ^ 53) with 9007199254740992; lia).
  assert (Hl : Z.abs 131072 < 2 ^ 53) by (cbn; lia).
  destruct (of_Z_exact 53 1024 Hp64 He64 n Hn) as [Rn Fn].
  destruct (fneg_of_Z 53 1024 Hp64 He64 131072 Hl ltac:(lia)) as [Rm Fm].
  repeat split.
  - unfold D.lt, D.neg, D.of_Z, flt. rewrite Bltb_correct by assumption. rewrite Rn, Rm.
    apply Rlt_bool_false. apply IZR_le. lia.
  - unfold D.gt, fgt. change (Bltb (D.of_Z 131072) (D.of_Z n)) with (flt 53 1024 (D.of_Z 131072) (D.of_Z n)).
    unfold D.of_Z. rewrite (flt_of_Z 53 1024 Hp64 He64 131072 n Hl Hn). apply Z.ltb_ge. lia.
  - unfold D.is_nan, fis_nan, D.of_Z. destruct (of_Z 53 1024 Hp64 He64 n); try reflexivity; discriminate Fn.
  - exact Fn.
Qed.

(* read_point: a coordinate text accepted under the +-MAX_COORDINATE_VALUE limit truncates to
   an integer within that limit (f64 analogue of coord_trunc_bound) *)
Lemma coord64_B2R : B2R (D.of_Z 131072) = IZR 131072.
Proof. apply (proj1 (of_Z_exact 53 1024 Hp64 He64 131072 ltac:(cbn; lia))). Qed.

Lemma coord64_trunc_bound (v : F64) :
  is_finite v = true ->
  D.lt v (D.neg (D.of_Z 131072)) = false -> D.gt v (D.of_Z 131072) = false ->
  - 131072 <= f64_as_i32 v <= 131072.
Proof.
  intros Fv El Eg.
  assert (Fl : is_finite (D.of_Z 131072) = true) by (apply D_of_Z_finite; cbn; lia).
  unfold D.lt, D.gt, D.neg, flt, fgt, fneg in El, Eg.
  rewrite Bltb_correct in El, Eg by (try assumption; try (rewrite is_finite_Bopp); exact Fl).
  rewrite B2R_Bopp, coord64_B2R in El. rewrite coord64_B2R in Eg.
  destruct (Rlt_bool_spec (B2R v) (- IZR 131072)) as [|Hlo]; [discriminate|].
  destruct (Rlt_bool_spec (IZR 131072) (B2R v)) as [|Hhi]; [discriminate|].
  assert (Ht : Btrunc v = Ztrunc (B2R v)).
  { apply eq_IZR. rewrite Btrunc_correct, round_FIX_IZR; [reflexivity|exact He64]. }
  assert (Hb : - 131072 <= Btrunc v <= 131072).
  { rewrite Ht. split.
    - rewrite <- (Ztrunc_IZR (- 131072)). apply Ztrunc_le. exact Hlo.
    - rewrite <- (Ztrunc_IZR 131072). apply Ztrunc_le. exact Hhi. }
  unfold f64_as_i32, D.to_int_sat, to_int_sat, i32_min, i32_max.
  change (2 ^ 31) with 2147483648.
  destruct v as [sv|sv| |sv mv ev Hv]; try discriminate; cbv zeta;
    match goal with |- context [Btrunc ?x] => set (t := Btrunc x) in * end;
    repeat match goal with |- context [?a <? ?b] => replace (a <? b) with false by lia end;
    lia.
Qed.

Lemma cross_zero_int a b : Z.abs a < 2 ^ 24 -> Z.abs b < 2 ^ 24 ->
  S.lt (S.abs (S.sub (S.mul (S.of_Z 0) (S.of_Z a)) (S.mul (S.of_Z 0) (S.of_Z b)))) S.eps = true.
Proof.
  intros Ha Hb.
  destruct (of_Z_exact 24 128 Hp32 He32 0 ltac:(cbn; lia)) as [R0 F0].
  apply cross_zero32; try assumption; try (apply S_of_Z_finite; assumption).
Qed.

(* SimplifyExact: T16c -- the osu!-mode Catmull simplification loop read over
   the reals, for any point type with a distance satisfying d(x,x) = 0 and the
   triangle inequality, and for ANY "far" test:
     polyline_len(kept) + (surplus added to optimized_len) = polyline_len(all)
   and the surplus is >= 0. *)
From RM Require Import Model.ControlPoints Model.Curve.
From Coq Require Import Reals Lra.
Require Import ZifyBool.
Open Scope R_scope.

Section Exact.
  Context {P : Type}.
  Variable dist : P -> P -> R.
  Variable far : R -> bool.
  Hypothesis dist_refl : forall x, dist x x = 0.
  Hypothesis dist_tri : forall x y z, dist x z <= dist x y + dist y z.

  Notation loop := (simplify_loop_g dist Rplus Rminus 0 far).

  (* polyline length *)
  Fixpoint plen (l : list P) : R :=
    match l with
    | a :: ((b :: _) as t) => dist a b + plen t
    | _ => 0
    end.

  Lemma plen_snoc l a b : plen ((l ++ [a]) ++ [b]) = plen (l ++ [a]) + dist a b.
  Proof.
    induction l as [|x [|y t] IH].
    - cbn. lra.
    - cbn. lra.
    - change (((x :: y :: t) ++ [a]) ++ [b]) with (x :: ((y :: t) ++ [a]) ++ [b]).
      change ((x :: y :: t) ++ [a]) with (x :: (y :: t) ++ [a]).
      change (plen (x :: ((y :: t) ++ [a]) ++ [b])) with (dist x y + plen (((y :: t) ++ [a]) ++ [b])).
      change (plen (x :: (y :: t) ++ [a])) with (dist x y + plen ((y :: t) ++ [a])).
      rewrite IH. lra.
  Qed.

  Lemma plen_cons2 a b t : plen (a :: b :: t) = dist a b + plen (b :: t).
  Proof. reflexivity. Qed.

  (* the state invariant and what the loop returns from it *)
  Lemma loop_spec n l : forall i prev ls removed acc0 a opt,
    (i + Z.of_nat (length l) = n)%Z ->
    match ls with
    | None => a = prev /\ removed = 0
    | Some s => a = s /\ dist s prev <= removed /\ (l = [] -> removed = 0)
    end ->
    let '(kept, opt') := loop l i n prev ls removed (acc0 ++ [a]) opt in
    plen kept + opt' = plen (acc0 ++ [a]) + opt + removed + plen (prev :: l) /\ opt <= opt'.
  Proof.
    induction l as [|curr t IH]; intros i prev ls removed acc0 a opt Hn Hinv.
    - cbn [simplify_loop_g plen]. destruct ls as [s|].
      + destruct Hinv as (_ & _ & H0). rewrite (H0 eq_refl). split; lra.
      + destruct Hinv as (_ & ->). split; lra.
    - cbn [simplify_loop_g]. cbn [length] in Hn. destruct ls as [s|].
      + destruct Hinv as (-> & Hrem & _).
        destruct (far (dist s curr) || ((i + 1) mod catmull_segment_len =? 0)%Z || (i =? n - 1)%Z)%bool eqn:Ec.
        * (* the group is closed at curr *)
          specialize (IH (i + 1)%Z curr None 0 (acc0 ++ [s]) curr
                         (opt + (removed + dist prev curr - dist s curr)) ltac:(lia) (conj eq_refl eq_refl)).
          destruct (loop t (i + 1)%Z n curr None 0 ((acc0 ++ [s]) ++ [curr])
                      (opt + (removed + dist prev curr - dist s curr))) as [kept opt'].
          destruct IH as [IH1 IH2]. rewrite plen_snoc in IH1. rewrite plen_cons2.
          pose proof (dist_tri s prev curr). split; lra.
        * (* curr is dropped *)
          assert (Ht : t <> []).
          { intros ->. cbn [length] in Hn.
            assert ((i =? n - 1)%Z = true) by lia. rewrite H in Ec.
            rewrite !Bool.orb_true_r in Ec. discriminate. }
          specialize (IH (i + 1)%Z curr (Some s) (removed + dist prev curr) acc0 s opt ltac:(lia)).
          destruct (loop t (i + 1)%Z n curr (Some s) (removed + dist prev curr) (acc0 ++ [s]) opt) as [kept opt'].
          destruct IH as [IH1 IH2].
          { split; [reflexivity|]. split; [pose proof (dist_tri s prev curr); lra|]. intros E; congruence. }
          rewrite plen_cons2. split; lra.
      + destruct Hinv as (-> & ->).
        specialize (IH (i + 1)%Z curr (Some curr) 0 (acc0 ++ [prev]) curr opt ltac:(lia)).
        destruct (loop t (i + 1)%Z n curr (Some curr) 0 ((acc0 ++ [prev]) ++ [curr]) opt) as [kept opt'].
        destruct IH as [IH1 IH2].
        { split; [reflexivity|]. split; [rewrite dist_refl; lra|]. reflexivity. }
        rewrite plen_snoc in IH1. rewrite plen_cons2. split; lra.
  Qed.

  (* T16c: catmull_simplify over the reals *)
  Theorem simplify_surplus_identity sub_path opt dummy :
    let '(kept, opt') := loop sub_path 0%Z (Z.of_nat (length sub_path)) dummy None 0 [] opt in
    plen kept + (opt' - opt) = plen sub_path /\ 0 <= opt' - opt.
  Proof.
    destruct sub_path as [|c t]; [cbn; split; lra|].
    cbn [simplify_loop_g app].
    pose proof (loop_spec (Z.of_nat (length (c :: t))) t (0 + 1)%Z c (Some c) 0 [] c opt) as H.
    cbn [app] in H.
    destruct (loop t (0 + 1)%Z (Z.of_nat (length (c :: t))) c (Some c) 0 [c] opt) as [kept opt'].
    destruct H as [H1 H2].
    - cbn [length]. lia.
    - split; [reflexivity|]. split; [rewrite dist_refl; lra|]. reflexivity.
    - change (plen [c]) with 0 in H1. split; lra.
  Qed.
End Exact.

(* the executable model runs the same loop with the IEEE operations *)
Lemma model_uses_same_loop :
  simplify_loop = simplify_loop_g (fun a b => f64_of_f32 (pdist a b)) D.add D.sub D.zero
                                  (fun x => D.gt x catmull_simplify_dist).
Proof. reflexivity. Qed.

(* Enc2Examples: model-level witnesses (vm_compute on dumps only) for Proofs/Enc2Samples.v:
   the class D30 on a decoded map, and non-vacuity of the image theorems. *)
From RM Require Import Model.EncPathSpec Model.EncObjCarry Model.EncTimingSpec Proofs.EncRound Proofs.EncImage Proofs.EncMapImage
     Proofs.Enc2Samples Proofs.EncObjectsRT Proofs.EncTimingExample Proofs.Enc2Timing Proofs.Enc2Slider Model.DrvEnc.
From RM Require Model.Curve.
From RM Require Import Gen.Generated.
Open Scope Z_scope.

(* the sample names of the hit objects: [0; n] default name n, 1 :: length :: chars a file name *)
Definition name_dump (m : BeatmapV) : list (list (list Z)) :=
  map (fun h => map (fun s => match hs_name s with NDefault n => [0; n] | NFile f => 1 :: dump_str f end) (h_samples h))
      (hov_hit_objects (bmv_ho m)).

(* D30: the extras field is followed by one more `,` field (circle, spinner) or the file name by
   one more `:` piece (hold), so the name keeps its trailing white space; a name of white space
   only comes back as the default normal sample *)
Definition d30_text : str :=
  join_lines ["osu file format v14"; "[HitObjects]";
              "256,192,1000,1,0,0:0:0:0:a.wav ,x";
              "256,192,2000,12,0,3000,0:0:0:0:b.wav ,x";
              "100,192,4000,128,0,5000:0:0:0:0:c.wav :x";
              "256,192,6000,1,0,0:0:0:0: :x"]%string.

Lemma d30_witness :
  match round_trip d30_text with
  | Done (m1, m2) =>
      (* the decoded objects are in the decoder's image and in class D30, and in no other class *)
      forallb obj_simg (hov_hit_objects (bmv_ho m1)) = true /\
      map d30_class (hov_hit_objects (bmv_ho m1)) = [true; true; true; true] /\
      map (fun h => object_image h) (hov_hit_objects (bmv_ho m1)) = [true; true; true; true] /\
      (* all four lines are accepted on re-read, but the names differ *)
      name_dump m1 = [[1 :: dump_str (lit "a.wav ")]; [1 :: dump_str (lit "b.wav ")];
                      [1 :: dump_str (lit "c.wav ")]; [1 :: dump_str (lit " ")]] /\
      name_dump m2 = [[1 :: dump_str (lit "a.wav")]; [1 :: dump_str (lit "b.wav")];
                      [1 :: dump_str (lit "c.wav")]; [[0; nm_normal]]]
  | _ => False
  end.
Proof. vm_compute. repeat split; reflexivity. Qed.

(* the full statement "every sample of every decoded map satisfies sample_ok" is refuted *)
Lemma d30_decoded :
  match decode_beatmap stub_dist (lines_of_text d30_text) with
  | Done m => existsb (fun h => negb (forallb sample_ok (h_samples h))) (hov_hit_objects (bmv_ho m)) = true
  | _ => False
  end.
Proof. vm_compute. reflexivity. Qed.

Lemma d30_lines_no_lf : forallb (fun l => negb (memb ch_lf l)) (lines_of_text d30_text) = true.
Proof. vm_compute. reflexivity. Qed.

Theorem decoded_sample_ok_refuted :
  exists text m, Forall no_lf_line (lines_of_text text) /\ decode_beatmap stub_dist (lines_of_text text) = Done m /\
                 existsb (fun h => negb (forallb sample_ok (h_samples h))) (hov_hit_objects (bmv_ho m)) = true.
Proof.
  exists d30_text. pose proof d30_decoded as W.
  destruct (decode_beatmap stub_dist (lines_of_text d30_text)) as [m| |]; try contradiction.
  exists m. split; [|split; [reflexivity|exact W]].
  unfold no_lf_line. apply Forall_forall. intros l Hl.
  pose proof d30_lines_no_lf as G. rewrite forallb_forall in G. specialize (G l Hl).
  apply Bool.negb_true_iff in G. exact G.
Qed.

(* non-vacuity: the objects of a decoded file with file names, additions, a spinner and a hold are
   in the image and outside D30 (so [residual_classes] reduces to the other classes) *)
Lemma samples_img_example :
  match decode_beatmap stub_dist (lines_of_text rt_text) with
  | Done m => forallb obj_simg (hov_hit_objects (bmv_ho m)) = true /\
              existsb d30_class (hov_hit_objects (bmv_ho m)) = false /\
              forallb (fun h => forallb sample_ok (h_samples h)) (hov_hit_objects (bmv_ho m)) = true /\
              length (hov_hit_objects (bmv_ho m)) = 6%nat
  | _ => False
  end.
Proof. vm_compute. repeat split; reflexivity. Qed.

Print Assumptions decoded_sample_ok_refuted.

(* non-vacuity of Enc2Timing.decoded_timing_round_trip_classes: the taiko file of
   Proofs/EncTimingExample.v (same-time groups, kiai, several velocities, a second timing point) is
   outside every class, and its velocities survive -100/sv -> 100/-x *)
Lemma rt_classes_example :
  match decode_beatmap stub_dist (lines_of_text t02d_text) with
  | Done m =>
      match enc_control_points stub_dist stub_events m with
      | Done c => rt_classes (tpg_mode g_taiko) c = true /\ svs_round_trip c = true /\
                  length (cp_difficulty c) = 5%nat /\ length (enc_records c) = 7%nat
      | _ => False
      end
  | _ => False
  end.
Proof. vm_compute. repeat split; reflexivity. Qed.

Lemma t02d_lines_no_lf : forallb (fun l => negb (memb ch_lf l)) (lines_of_text t02d_text) = true.
Proof. vm_compute. reflexivity. Qed.

(* non-vacuity of Enc2Slider.slider_round_trip: three decoded sliders (explicit length equal to
   the natural length; no length field, so the natural length is written; explicit length shorter
   than the curve) satisfy its hypotheses with the real curve model.  libm is not reached by these
   inputs (no three-point perfect curve). *)
Definition lm0 : Curve.Libm := Curve.mkLibm (fun x => x) (fun x => x) (fun y _ => y) (fun x => x).

Definition sliders_text : str :=
  join_lines ["osu file format v14"; "[HitObjects]";
              "100,100,1000,2,0,L|200:100,1,100";
              "100,100,2000,2,0,L|200:200,2";
              "100,100,3000,2,0,L|300:100,1,150"]%string.

Definition slider_facts (h : HitObject) : list Z :=
  match h_kind h with
  | KSlider s =>
      match slider_curve lm0 s with
      | Done c =>
          [if slider_ok h s (written_of (sl_expected_dist s) c) then 1 else 0;
           match sl_expected_dist s with Some d => D.bits d | None => -1 end;
           D.bits (written_of (sl_expected_dist s) c);
           match reread_len (written_of (sl_expected_dist s) c) with Some d => D.bits d | None => -1 end;
           Z.of_nat (length (Curve.c_path c)); sl_mode s]
      | _ => [-2]
      end
  | _ => [-3]
  end.

Lemma sliders_example :
  match decode_beatmap (dist_real lm0) (lines_of_text sliders_text) with
  | Done m =>
      map slider_facts (hov_hit_objects (bmv_ho m)) =
      [[1; D.bits (D.of_Z 100); D.bits (D.of_Z 100); D.bits (D.of_Z 100); 2; 0];
       [1; -1; 4639179838182129664; 4639179838182129664; 2; 0];
       [1; D.bits (D.of_Z 150); D.bits (D.of_Z 150); D.bits (D.of_Z 150); 2; 0]]
  | _ => False
  end.
Proof. vm_compute. reflexivity. Qed.

(* AdjustIEEE: T16b in IEEE arithmetic -- the rounding error of the adjusted
   end point of calculate_length,

       path[k-1] + normalize(path[k] - path[k-1]) * ((L - lengths[k-1]) as f32)

   (13 correctly rounded binary32 / binary64 operations per coordinate: two
   subtractions, two squares, their sum, the widening, the binary64 square
   root, the narrowing, the reciprocal, the scaling, the binary64 subtraction
   L - lp, its narrowing, the product and the final sum), against the SAME
   formula over the reals ([adjust_R] of AdjustExact) on the same inputs.

   Hypotheses (explicit, satisfiable: see the Examples at the end):
     - the four coordinates are finite with |c| <= 2^20;
     - L and lp are finite with 0 <= L - lp <= 2^20;
     - the segment is not degenerate: its exact Euclidean length is >= 2^-10
       (so that no intermediate quantity that matters underflows).
   Result, per coordinate c of the computed end point q and of
   q* = adjust_R ... :
       | q.c - q*.c |  <=  2^-24 * ( |prev.c| + 9.05 * (L - lp) ) + 2^-127 . *)
From RM Require Import Model.ControlPoints Model.Curve Proofs.FloatFacts Proofs.LengthFacts Proofs.LengthBound Proofs.AdjustExact Proofs.AdjustIEEEBase.
From Flocq Require Import Core BinarySingleNaN.
From Coq Require Import Reals Lra Psatz.
Open Scope R_scope.

Local Notation fin x := (is_finite x = true).
Local Notation pw k := (bpow radix2 k).

(* a quantity far below every rounding error that matters: 2^-100 *)
Definition tiny : R := pw (-100).

Lemma tiny_pos : 0 < tiny.
Proof. apply bpow_gt_0. Qed.

Lemma tiny_le : tiny <= / 1000000 * u32.
Proof. unfold tiny, u32. cbn. lra. Qed.

Lemma u32_pos : 0 < u32. Proof. unfold u32. lra. Qed.
Lemma u64_le : u64 <= / 1000000 * u32. Proof. unfold u64, u32. lra. Qed.
Lemma u64_pos : 0 < u64. Proof. unfold u64. lra. Qed.

(* a <= 2^k, k <= k1 + k2  ==>  a <= 2^k1 * 2^k2 *)
Lemma small_le a k k1 k2 : a <= pw k -> (k <= k1 + k2)%Z -> a <= pw k1 * pw k2.
Proof. intros H Hk. rewrite <- bpow_plus. eapply Rle_trans; [exact H|]. apply bpow_le. exact Hk. Qed.

Lemma eta32_2 : eta32 + eta32 = pw (-149).
Proof. unfold eta32. change (-149)%Z with (-150 + 1)%Z. rewrite bpow_plus. change (pw 1) with 2. lra. Qed.

Lemma eta32_pos : 0 < eta32. Proof. apply bpow_gt_0. Qed.
Lemma eta64_pos : 0 < eta64. Proof. apply bpow_gt_0. Qed.

Lemma sqr_nonneg x : 0 <= x * x.
Proof. nra. Qed.

(* |x| <= sqrt (x^2 + y^2) *)
Lemma abs_le_norm x y : Rabs x <= sqrt (x * x + y * y) /\ Rabs y <= sqrt (x * x + y * y).
Proof.
  split.
  - rewrite <- sqrt_Rsqr_abs. apply sqrt_le_1_alt. unfold Rsqr. pose proof (sqr_nonneg y). lra.
  - rewrite <- sqrt_Rsqr_abs. apply sqrt_le_1_alt. unfold Rsqr. pose proof (sqr_nonneg x). lra.
Qed.

Ltac wk := first [lra | unfold u32, u64; lra].
(* closed integer side conditions (lia is slow in large contexts) *)
Ltac zl := clear; lia.

(* ---------- the binary32 length of a vector ---------- *)

(* f64::from(x * x + y * y).sqrt() as f32 with x, y standing for X, Y up to
   one rounding: relative error 3.01 u *)
Lemma plen_rel (dx dy : F32) (Dx Dy : R) :
  fin dx -> fin dy -> Rabs (B2R dx) <= pw 21 -> Rabs (B2R dy) <= pw 21 ->
  rel (B2R dx) Dx u32 -> rel (B2R dy) Dy u32 ->
  pw (-20) <= Dx * Dx + Dy * Dy <= pw 44 ->
  fin (plen (mkPos dx dy)) /\ Rabs (B2R (plen (mkPos dx dy))) <= pw 22 /\
  rel (B2R (plen (mkPos dx dy))) (sqrt (Dx * Dx + Dy * Dy)) (3.01 * u32).
Proof.
  intros Fdx Fdy Mdx Mdy Rdx Rdy [HS HS'].
  pose proof tiny_pos as Tp. pose proof tiny_le as Tl. pose proof u32_pos as Up.
  pose proof u64_pos as Vp. pose proof u64_le as Vl.
  pose proof eta32_pos as E32. pose proof eta64_pos as E64.
  set (SS := Dx * Dx + Dy * Dy) in *.
  assert (HS0 : 0 < SS) by (pose proof (bpow_gt_0 radix2 (-20)); lra).
  unfold plen. cbn [px py].
  (* squares *)
  destruct (S_mul_spec dx dx 42 Fdx Fdx ltac:(zl) (abs_mul_bpow _ _ 21 21 Mdx Mdx)) as (Fsx & Msx & Rsx).
  destruct (S_mul_spec dy dy 42 Fdy Fdy ltac:(zl) (abs_mul_bpow _ _ 21 21 Mdy Mdy)) as (Fsy & Msy & Rsy).
  assert (Asx : rela (B2R (S.mul dx dx)) (Dx * Dx) (3.001 * u32) eta32).
  { eapply rela_weaken; [exact (rela_round _ _ _ _ _ _ _ (rel_rela _ _ _ (rel_mul _ _ _ _ _ _ Rdx Rdx)) Rsx)|wk|wk]. }
  assert (Asy : rela (B2R (S.mul dy dy)) (Dy * Dy) (3.001 * u32) eta32).
  { eapply rela_weaken; [exact (rela_round _ _ _ _ _ _ _ (rel_rela _ _ _ (rel_mul _ _ _ _ _ _ Rdy Rdy)) Rsy)|wk|wk]. }
  (* sum *)
  pose proof (rela_add_nonneg _ _ _ _ _ _ _ Asx Asy (sqr_nonneg Dx) (sqr_nonneg Dy)) as Asum. fold SS in Asum.
  assert (Rsum : rel (B2R (S.mul dx dx) + B2R (S.mul dy dy)) SS (3.001 * u32 + tiny)).
  { apply (rela_absorb _ _ _ _ (pw (-20)) tiny Asum); [apply bpow_gt_0|rewrite Rabs_pos_eq by lra; exact HS|].
    rewrite eta32_2. unfold tiny. apply (small_le _ (-149)); [lra|zl]. }
  destruct (S_add_spec _ _ 43 Fsx Fsy ltac:(zl) (abs_add_bpow _ _ 42 Msx Msy)) as (Fs & Ms & Rs).
  assert (Rs' : rel (B2R (S.add (S.mul dx dx) (S.mul dy dy))) SS (4.003 * u32)).
  { eapply rel_weaken; [exact (rel_compose _ _ _ _ _ Rsum Rs)|]. unfold u32 in *. nra. }
  set (s := S.add (S.mul dx dx) (S.mul dy dy)) in *.
  (* widening, square root *)
  destruct (f64_of_f32_exact s Fs) as (Fw & Ew).
  assert (Hs0 : 0 < B2R s) by (apply (rel_pos _ _ _ Rs'); [wk|exact HS0]).
  assert (Hsq : sqrt (B2R (f64_of_f32 s)) <= pw 22).
  { rewrite Ew, <- (sqrt_bpow radix2 22). apply sqrt_le_1_alt.
    apply Rle_trans with (pw 43); [rewrite <- (Rabs_pos_eq (B2R s)) by lra; exact Ms|apply bpow_le; zl]. }
  destruct (D_sqrt_spec (f64_of_f32 s) 22 Fw ltac:(rewrite Ew; exact Hs0) ltac:(zl) Hsq) as (Fr & Mr & Rr).
  rewrite Ew in Rr.
  assert (Rsq : rel (sqrt (B2R s)) (sqrt SS) (2.002 * u32)).
  { apply (rel_sqrt_half _ _ (4.003 * u32)); [exact Rs'|lra|wk|wk]. }
  assert (HL : pw (-10) <= sqrt SS).
  { rewrite <- (sqrt_bpow radix2 (-10)). apply sqrt_le_1_alt. exact HS. }
  assert (HL0 : 0 < sqrt SS) by (pose proof (bpow_gt_0 radix2 (-10)); lra).
  assert (Rr' : rel (B2R (D.sqrt (f64_of_f32 s))) (sqrt SS) (2.003 * u32)).
  { eapply rel_weaken.
    - apply (rela_absorb _ _ _ _ (pw (-10)) tiny (rela_round _ _ _ _ _ _ _ (rel_rela _ _ _ Rsq) Rr));
        [apply bpow_gt_0|rewrite Rabs_pos_eq by lra; exact HL|].
      unfold tiny, eta64. apply (small_le _ (-1075)); [lra|zl].
    - unfold u32 in *. nra. }
  (* narrowing *)
  destruct (f32_of_f64_spec _ 22 Fr ltac:(zl) Mr) as (Fl & Ml & Rl).
  split; [exact Fl|]. split; [exact Ml|].
  eapply rel_weaken.
  - apply (rela_absorb _ _ _ _ (pw (-10)) tiny (rela_round _ _ _ _ _ _ _ (rel_rela _ _ _ Rr') Rl));
      [apply bpow_gt_0|rewrite Rabs_pos_eq by lra; exact HL|].
    unfold tiny, eta32. apply (small_le _ (-150)); [lra|zl].
  - unfold u32 in *. nra.
Qed.

(* ---------- the reciprocal of the length ---------- *)

Lemma one32_fin_R : fin S.one /\ B2R S.one = 1.
Proof. destruct one32_is_one as (F & R & _). split; assumption. Qed.

(* 1.0 / length: relative error 4.02 u with respect to 1 / |D| *)
Lemma recip_rel (dx dy : F32) (Dx Dy : R) :
  fin dx -> fin dy -> Rabs (B2R dx) <= pw 21 -> Rabs (B2R dy) <= pw 21 ->
  rel (B2R dx) Dx u32 -> rel (B2R dy) Dy u32 ->
  pw (-20) <= Dx * Dx + Dy * Dy <= pw 44 ->
  let inv := S.div S.one (plen (mkPos dx dy)) in
  fin inv /\ Rabs (B2R inv) <= pw 11 /\ rel (B2R inv) (1 / sqrt (Dx * Dx + Dy * Dy)) (4.02 * u32).
Proof.
  intros Fdx Fdy Mdx Mdy Rdx Rdy HS. cbv zeta.
  destruct (plen_rel dx dy Dx Dy Fdx Fdy Mdx Mdy Rdx Rdy HS) as (Fl & Ml & Rl).
  destruct HS as [HS HS'].
  pose proof tiny_pos as Tp. pose proof tiny_le as Tl. pose proof u32_pos as Up.
  pose proof eta32_pos as E32.
  set (SS := Dx * Dx + Dy * Dy) in *. set (len := plen (mkPos dx dy)) in *.
  assert (HL : pw (-10) <= sqrt SS).
  { rewrite <- (sqrt_bpow radix2 (-10)). apply sqrt_le_1_alt. exact HS. }
  assert (HU : sqrt SS <= pw 22).
  { rewrite <- (sqrt_bpow radix2 22). apply sqrt_le_1_alt. exact HS'. }
  assert (HL0 : 0 < sqrt SS) by (pose proof (bpow_gt_0 radix2 (-10)); lra).
  assert (Hl0 : 0 < B2R len) by (apply (rel_pos _ _ _ Rl); [wk|exact HL0]).
  assert (Rinv : rel (/ B2R len) (/ sqrt SS) (3.011 * u32)).
  { apply (rel_inv _ _ (3.01 * u32)); [exact Rl|lra|wk|wk]. }
  (* 2^-22 <= 1 / |D| <= 2^10 *)
  assert (HiU : / sqrt SS <= pw 10).
  { change 10%Z with (- (-10))%Z. rewrite bpow_opp. apply Rinv_le_contravar; [apply bpow_gt_0|exact HL]. }
  assert (HiL : pw (-22) <= / sqrt SS).
  { change (-22)%Z with (- (22))%Z. rewrite bpow_opp. apply Rinv_le_contravar; [exact HL0|exact HU]. }
  assert (Hi0 : 0 < / sqrt SS) by (apply Rinv_0_lt_compat; exact HL0).
  destruct one32_fin_R as (F1 & R1).
  assert (Mq : Rabs (B2R S.one / B2R len) <= pw 11).
  { rewrite R1. unfold Rdiv. rewrite Rmult_1_l.
    eapply Rle_trans; [apply (rel_abs_le _ _ _ Rinv)|]. rewrite Rabs_pos_eq by lra.
    change 11%Z with (10 + 1)%Z. rewrite bpow_plus. change (pw 1) with 2.
    apply Rmult_le_compat; [lra|unfold u32; lra|exact HiU|unfold u32; lra]. }
  destruct (S_div_spec S.one len 11 F1 Fl (Rgt_not_eq _ _ Hl0) ltac:(zl) Mq) as (Fi & Mi & Ri).
  split; [exact Fi|]. split; [exact Mi|].
  rewrite R1 in Ri. unfold Rdiv in *. rewrite Rmult_1_l in *.
  eapply rel_weaken.
  - apply (rela_absorb _ _ _ _ (pw (-22)) tiny (rela_round _ _ _ _ _ _ _ (rel_rela _ _ _ Rinv) Ri));
      [apply bpow_gt_0|rewrite Rabs_pos_eq by lra; exact HiL|].
    unfold tiny, eta32. apply (small_le _ (-150)); [lra|zl].
  - unfold u32 in *. nra.
Qed.

(* ---------- one coordinate of the adjusted end point ---------- *)

Definition adjust_coord_ieee (cp dx dy dc : F32) (e lp : F64) : F32 :=
  adjust_coord_g S.add S.mul S.div S.one D.sqrt D.sub f64_of_f32 f32_of_f64 cp dx dy dc e lp.

(* the error bound of one coordinate: c = |prev.c|, t = L - lp *)
Definition E16 (c t : R) : R := u32 * (c + 9.05 * t) + pw (-127).

Lemma adjust_coord_bound (cp dx dy dc : F32) (e lp : F64) (Dx Dy Dc : R) :
  fin cp -> Rabs (B2R cp) <= pw 20 ->
  fin dx -> fin dy -> fin dc ->
  Rabs (B2R dx) <= pw 21 -> Rabs (B2R dy) <= pw 21 -> Rabs (B2R dc) <= pw 21 ->
  rel (B2R dx) Dx u32 -> rel (B2R dy) Dy u32 -> rel (B2R dc) Dc u32 ->
  Rabs Dc <= sqrt (Dx * Dx + Dy * Dy) ->
  pw (-20) <= Dx * Dx + Dy * Dy <= pw 44 ->
  fin e -> fin lp -> 0 <= B2R e - B2R lp <= pw 20 ->
  fin (adjust_coord_ieee cp dx dy dc e lp) /\
  Rabs (B2R (adjust_coord_ieee cp dx dy dc e lp)
        - (B2R cp + Dc * (1 / sqrt (Dx * Dx + Dy * Dy)) * (B2R e - B2R lp)))
  <= E16 (Rabs (B2R cp)) (B2R e - B2R lp).
Proof.
  intros Fcp Mcp Fdx Fdy Fdc Mdx Mdy Mdc Rdx Rdy Rdc HN HS Fe Flp [HT0 HT].
  destruct (recip_rel dx dy Dx Dy Fdx Fdy Mdx Mdy Rdx Rdy HS) as (Fi & Mi & Ri).
  destruct HS as [HS HS'].
  pose proof tiny_pos as Tp. pose proof tiny_le as Tl. pose proof u32_pos as Up.
  pose proof u64_pos as Vp. pose proof u64_le as Vl. pose proof eta32_pos as E32.
  unfold adjust_coord_ieee, adjust_coord_g.
  change (len_g S.add S.mul D.sqrt f64_of_f32 f32_of_f64 dx dy) with (plen (mkPos dx dy)).
  set (SS := Dx * Dx + Dy * Dy) in *. set (inv := S.div S.one (plen (mkPos dx dy))) in *.
  set (T := B2R e - B2R lp) in *.
  assert (HL0 : 0 < sqrt SS).
  { apply sqrt_lt_R0. pose proof (bpow_gt_0 radix2 (-20)). lra. }
  (* the unit direction N = Dc / |D| *)
  set (N := Dc * (1 / sqrt SS)).
  assert (HN1 : Rabs N <= 1).
  { unfold N, Rdiv. rewrite Rmult_1_l, Rabs_mult, (Rabs_pos_eq (/ sqrt SS)) by (left; apply Rinv_0_lt_compat; exact HL0).
    apply (Rmult_le_reg_r (sqrt SS)); [exact HL0|]. rewrite Rmult_assoc, Rinv_l, Rmult_1_r, Rmult_1_l by lra. exact HN. }
  (* nx = fl(dc * inv) *)
  destruct (S_mul_spec dc inv 32 Fdc Fi ltac:(zl) (abs_mul_bpow _ _ 21 11 Mdc Mi)) as (Fn & Mn & Rn).
  assert (An : rela (B2R (S.mul dc inv)) N (6.03 * u32) eta32).
  { eapply rela_weaken; [exact (rela_round _ _ _ _ _ _ _ (rel_rela _ _ _ (rel_mul _ _ _ _ _ _ Rdc Ri)) Rn)| |lra].
    unfold u32 in *. nra. }
  (* t = fl32(fl64(e - lp)) *)
  assert (MT : Rabs (B2R e - B2R lp) <= pw 20) by (fold T; rewrite Rabs_pos_eq by lra; exact HT).
  destruct (D_sub_spec e lp 20 Fe Flp ltac:(zl) MT) as (Ft64 & Mt64 & Rt64).
  destruct (f32_of_f64_spec _ 20 Ft64 ltac:(zl) Mt64) as (Ft & Mt & Rt). fold T in Rt64.
  assert (At : rela (B2R (f32_of_f64 (D.sub e lp))) T (1.001 * u32) eta32).
  { eapply rela_weaken; [exact (rela_round _ _ _ _ _ _ _ (rel_rela _ _ _ Rt64) Rt)| |lra].
    unfold u32 in *. nra. }
  (* p = fl(nx * t) *)
  destruct (S_mul_spec _ _ 52 Fn Ft ltac:(zl) (abs_mul_bpow _ _ 32 20 Mn Mt)) as (Fp & Mp & Rp).
  assert (MT' : Rabs T <= pw 20) by exact MT.
  pose proof (rela_mul _ _ _ _ _ _ _ _ 1 (pw 20) An At HN1 MT') as Ant.
  pose proof (rela_round _ _ _ _ _ _ _ Ant Rp) as Ap.
  assert (Ap' : rela (B2R (S.mul (S.mul dc inv) (f32_of_f64 (D.sub e lp)))) (N * T) (8.04 * u32) (pw (-128))).
  { eapply rela_weaken; [exact Ap| |].
    - unfold u32 in *. nra.
    - (* eta32 * (2^20 (1 + ..)) + (1 + ..) eta32 + eta32^2, times (1 + u), + eta32  <=  2^-128 *)
      assert (P20 : pw 20 = 1048576) by (cbn; lra).
      assert (Pe : eta32 * 4194304 = pw (-128)).
      { unfold eta32. change (-128)%Z with (-150 + 22)%Z. rewrite bpow_plus. cbn. lra. }
      assert (Es : eta32 <= 1) by (unfold eta32; apply Rle_trans with (pw 0); [apply bpow_le; zl|cbn; lra]).
      rewrite P20, <- Pe. unfold u32 in *. nra. }
  (* res = fl(cp + p) *)
  assert (Mcp' : Rabs (B2R cp) <= pw 52) by (apply (abs_le_bpow_mono _ 20); [exact Mcp|zl]).
  destruct (S_add_spec cp _ 53 Fcp Fp ltac:(zl) (abs_add_bpow _ _ 52 Mcp' Mp)) as (Fr & Mr & Rr).
  split; [exact Fr|].
  destruct Rr as (eps & Er & Be). destruct Ap' as (d & h & Ep & Bd & Bh).
  set (p := B2R (S.mul (S.mul dc inv) (f32_of_f64 (D.sub e lp)))) in *.
  rewrite Er. fold N.
  replace ((B2R cp + p) * (1 + eps) - (B2R cp + N * T))
    with ((B2R cp + N * T) * eps + (N * T * d + h) * (1 + eps)) by (rewrite Ep; ring).
  assert (HNT : Rabs (N * T) <= T).
  { rewrite Rabs_mult, (Rabs_pos_eq T) by lra. rewrite <- (Rmult_1_l T) at 2.
    apply Rmult_le_compat_r; [lra|exact HN1]. }
  assert (B1 : Rabs ((B2R cp + N * T) * eps) <= (Rabs (B2R cp) + T) * u32).
  { rewrite Rabs_mult. apply Rmult_le_compat; try apply Rabs_pos; [|exact Be].
    eapply Rle_trans; [apply Rabs_triang|]. lra. }
  assert (B2 : Rabs (N * T * d + h) <= T * (8.04 * u32) + pw (-128)).
  { eapply Rle_trans; [apply Rabs_triang|]. apply Rplus_le_compat; [|exact Bh].
    rewrite Rabs_mult. apply Rmult_le_compat; try apply Rabs_pos; assumption. }
  assert (B3 : Rabs (1 + eps) <= 1 + u32).
  { eapply Rle_trans; [apply Rabs_triang|]. rewrite Rabs_R1. lra. }
  assert (B4 : Rabs ((N * T * d + h) * (1 + eps)) <= (T * (8.04 * u32) + pw (-128)) * (1 + u32)).
  { rewrite Rabs_mult. apply Rmult_le_compat; try apply Rabs_pos; assumption. }
  eapply Rle_trans; [apply Rabs_triang|].
  assert (P128 : pw (-128) * 2 = pw (-127)).
  { change (-127)%Z with (-128 + 1)%Z. rewrite bpow_plus. change (pw 1) with 2. ring. }
  pose proof (bpow_gt_0 radix2 (-128)) as P0.
  pose proof (Rabs_pos (B2R cp)) as C0.
  unfold E16. rewrite <- P128. unfold u32 in *. lra.
Qed.

(* ---------- both coordinates: the model's expression ---------- *)

(* [bnd32 x k] (LengthBound): x is finite and |x| <= 2^k *)
Definition R2 (p : Pos) : P2 := (B2R (px p), B2R (py p)).

(* the hypotheses of the bound, as one predicate on the model's inputs *)
Definition adjust_hyps (pp pe : Pos) (e lp : F64) : Prop :=
  bnd32 (px pp) 20 /\ bnd32 (py pp) 20 /\ bnd32 (px pe) 20 /\ bnd32 (py pe) 20 /\
  fin e /\ fin lp /\ 0 <= B2R e - B2R lp <= pw 20 /\
  pw (-10) <= edist (R2 pp) (R2 pe).

Theorem adjusted_end_ieee_bound (pp pe : Pos) (e lp : F64) :
  adjust_hyps pp pe e lp ->
  let q := padd pp (pmul (pnormalize (psub pe pp)) (f32_of_f64 (D.sub e lp))) in
  let q' := adjust_R (R2 pp) (R2 pe) (B2R e) (B2R lp) in
  fin (px q) /\ fin (py q) /\
  Rabs (B2R (px q) - fst q') <= E16 (Rabs (B2R (px pp))) (B2R e - B2R lp) /\
  Rabs (B2R (py q) - snd q') <= E16 (Rabs (B2R (py pp))) (B2R e - B2R lp).
Proof.
  intros ((Fx0 & Mx0) & (Fy0 & My0) & (Fx1 & Mx1) & (Fy1 & My1) & Fe & Flp & HT & HD). cbv zeta.
  rewrite model_adjust_end. unfold adjust_point_g.
  fold (adjust_coord_ieee (px pp) (S.sub (px pe) (px pp)) (S.sub (py pe) (py pp)) (S.sub (px pe) (px pp)) e lp).
  fold (adjust_coord_ieee (py pp) (S.sub (px pe) (px pp)) (S.sub (py pe) (py pp)) (S.sub (py pe) (py pp)) e lp).
  cbn [px py].
  destruct (S_sub_spec (px pe) (px pp) 21 Fx1 Fx0 ltac:(zl) (abs_sub_bpow _ _ 20 Mx1 Mx0)) as (Fdx & Mdx & Rdx).
  destruct (S_sub_spec (py pe) (py pp) 21 Fy1 Fy0 ltac:(zl) (abs_sub_bpow _ _ 20 My1 My0)) as (Fdy & Mdy & Rdy).
  set (Dx := B2R (px pe) - B2R (px pp)) in *. set (Dy := B2R (py pe) - B2R (py pp)) in *.
  (* |D|^2 in [2^-20, 2^44] *)
  assert (HSS : pw (-20) <= Dx * Dx + Dy * Dy <= pw 44).
  { split.
    - pose proof (edist_sq (R2 pp) (R2 pe)) as Q. cbn [R2 fst snd] in Q. fold Dx Dy in Q.
      replace (Dx * Dx + Dy * Dy) with (edist (R2 pp) (R2 pe) ^ 2) by (rewrite Q; ring).
      change (-20)%Z with (-10 + -10)%Z. rewrite bpow_plus. pose proof (bpow_gt_0 radix2 (-10)). nra.
    - assert (Ax : Rabs Dx <= pw 21) by (apply (abs_sub_bpow _ _ 20); assumption).
      assert (Ay : Rabs Dy <= pw 21) by (apply (abs_sub_bpow _ _ 20); assumption).
      pose proof (abs_mul_bpow _ _ 21 21 Ax Ax) as Bx. pose proof (abs_mul_bpow _ _ 21 21 Ay Ay) as By.
      rewrite Rabs_pos_eq in Bx by apply sqr_nonneg. rewrite Rabs_pos_eq in By by apply sqr_nonneg.
      change (21 + 21)%Z with 42%Z in *. change 44%Z with (42 + 2)%Z. rewrite bpow_plus.
      change (pw 2) with 4. pose proof (bpow_gt_0 radix2 42). lra. }
  destruct (abs_le_norm Dx Dy) as (Nx & Ny).
  destruct (adjust_coord_bound (px pp) _ _ _ e lp Dx Dy Dx Fx0 Mx0 Fdx Fdy Fdx Mdx Mdy Mdx Rdx Rdy Rdx Nx HSS Fe Flp HT) as (F1 & B1).
  destruct (adjust_coord_bound (py pp) _ _ _ e lp Dx Dy Dy Fy0 My0 Fdx Fdy Fdy Mdx Mdy Mdy Rdx Rdy Rdy Ny HSS Fe Flp HT) as (F2 & B2).
  split; [exact F1|]. split; [exact F2|].
  unfold adjust_R, adjust_point_g, adjust_coord_g, len_g. cbn [R2 fst snd]. fold Dx Dy.
  split; assumption.
Qed.

(* ---------- on adjust_end (the expression calculate_length evaluates) ---------- *)

Theorem adjust_end_ieee_bound (path : list Pos) (lens : list F64) k L pp pe lp :
  nth_error path (Nat.pred k) = Some pp -> nth_error path k = Some pe -> nth_error lens (Nat.pred k) = Some lp ->
  adjust_hyps pp pe L lp ->
  exists q, adjust_end path lens k L = Some q /\
    fin (px q) /\ fin (py q) /\
    Rabs (B2R (px q) - fst (adjust_R (R2 pp) (R2 pe) (B2R L) (B2R lp))) <= E16 (Rabs (B2R (px pp))) (B2R L - B2R lp) /\
    Rabs (B2R (py q) - snd (adjust_R (R2 pp) (R2 pe) (B2R L) (B2R lp))) <= E16 (Rabs (B2R (py pp))) (B2R L - B2R lp).
Proof.
  intros Hpp Hpe Hlp H. unfold adjust_end. rewrite Hpp, Hpe, Hlp.
  eexists. split; [reflexivity|]. exact (adjusted_end_ieee_bound pp pe L lp H).
Qed.

(* a plain absolute bound under the magnitude hypotheses: |prev.c| <= 2^20,
   L - lp <= 2^20: 2^-24 * 10.05 * 2^20 + 2^-127 < 0.63 *)
Lemma E16_le c t : 0 <= c <= pw 20 -> 0 <= t <= pw 20 -> E16 c t <= 0.63.
Proof.
  intros Hc Ht. unfold E16. assert (P20 : pw 20 = 1048576) by (cbn; lra).
  assert (P : pw (-127) <= / 1000).
  { apply Rle_trans with (pw (-10)); [apply bpow_le; zl|cbn; lra]. }
  rewrite P20 in *. unfold u32. lra.
Qed.

(* ---------- the length of the adjusted curve ---------- *)

Lemma edist_le_l1 q q' : edist q q' <= Rabs (fst q - fst q') + Rabs (snd q - snd q').
Proof.
  unfold edist. pose proof (Rabs_pos (fst q - fst q')) as Px. pose proof (Rabs_pos (snd q - snd q')) as Py.
  rewrite <- (sqrt_pow2 (Rabs (fst q - fst q') + Rabs (snd q - snd q'))) by lra.
  apply sqrt_le_1_alt.
  replace ((fst q' - fst q) ^ 2) with ((fst q - fst q') ^ 2) by ring.
  replace ((snd q' - snd q) ^ 2) with ((snd q - snd q') ^ 2) by ring.
  rewrite <- (pow2_abs (fst q - fst q')), <- (pow2_abs (snd q - snd q')). nra.
Qed.

Lemma edist_perturb a q q' : Rabs (edist a q - edist a q') <= Rabs (fst q - fst q') + Rabs (snd q - snd q').
Proof.
  pose proof (edist_le_l1 q q') as T.
  pose proof (edist_triangle a q q') as T1. pose proof (edist_triangle a q' q) as T2.
  rewrite (edist_sym q' q) in T2. apply Rabs_le. lra.
Qed.

(* replacing everything after vertex k-1 by one point q: the polyline length
   is the cumulative length of vertex k-1 plus |q - path[k-1]| *)
Lemma poly_len_new_end (path : list P2) k pp c q :
  (1 <= k <= length path)%nat ->
  nth_error path (Nat.pred k) = Some pp -> nth_error (cumlen path) (Nat.pred k) = Some c ->
  poly_len (firstn k path ++ [q]) = c + edist pp q.
Proof.
  intros Hk Hpp Hc. destruct k as [|k1]; [exfalso; clear - Hk; lia|]. cbn [Nat.pred] in *.
  assert (Hsplit : firstn (S k1) path = firstn k1 path ++ [pp]).
  { clear -Hpp. revert path Hpp. induction k1 as [|k IH]; intros [|a t] H; try discriminate.
    - cbn in H. inversion H. reflexivity.
    - cbn [nth_error] in H. change (firstn (S (S k)) (a :: t)) with (a :: firstn (S k) t).
      rewrite (IH t H). reflexivity. }
  destruct (cum_R_firstn path 0%R (S k1) Hk) as [_ F2]. cbn [Nat.pred] in F2.
  unfold poly_len. rewrite Hsplit.
  destruct (cum_R_snoc (firstn k1 path) 0%R pp q) as [_ S2]. rewrite S2, <- Hsplit, F2.
  f_equal. unfold cumlen in Hc. apply nth_error_nth. exact Hc.
Qed.

Theorem adjusted_length_ieee_bound (path : list Pos) (lens : list F64) k L pp pe lp c A :
  (1 <= k < length path)%nat ->
  nth_error path (Nat.pred k) = Some pp -> nth_error path k = Some pe -> nth_error lens (Nat.pred k) = Some lp ->
  adjust_hyps pp pe L lp ->
  (* c: the exact polyline length of the kept vertices path[0..k-1];
     A: a bound on the accumulated error of the kept cumulative length lp *)
  nth_error (cumlen (map R2 path)) (Nat.pred k) = Some c -> Rabs (c - B2R lp) <= A ->
  let Ex := E16 (Rabs (B2R (px pp))) (B2R L - B2R lp) in
  let Ey := E16 (Rabs (B2R (py pp))) (B2R L - B2R lp) in
  exists q, adjust_end path lens k L = Some q /\
    Rabs (edist (R2 pp) (R2 q) - (B2R L - B2R lp)) <= Ex + Ey /\
    Rabs (poly_len (map R2 (firstn k path ++ [q])) - B2R L) <= A + Ex + Ey.
Proof.
  intros Hk Hpp Hpe Hlp H Hc HA Ex Ey.
  destruct (adjust_end_ieee_bound path lens k L pp pe lp Hpp Hpe Hlp H) as (q & Hq & _ & _ & Bx & By).
  exists q. split; [exact Hq|].
  destruct H as (_ & _ & _ & _ & _ & _ & (HT0 & _) & HD).
  assert (Hne : R2 pp <> R2 pe).
  { intros E. rewrite E, edist_refl in HD. pose proof (bpow_gt_0 radix2 (-10)). lra. }
  destruct (adjust_on_ray (R2 pp) (R2 pe) (B2R L) (B2R lp) Hne ltac:(lra)) as (_ & Hd).
  pose proof (edist_perturb (R2 pp) (R2 q) (adjust_R (R2 pp) (R2 pe) (B2R L) (B2R lp))) as P.
  rewrite Hd in P. change (fst (R2 q)) with (B2R (px q)) in P. change (snd (R2 q)) with (B2R (py q)) in P.
  assert (D1 : Rabs (edist (R2 pp) (R2 q) - (B2R L - B2R lp)) <= Ex + Ey) by (unfold Ex, Ey; lra).
  split; [exact D1|].
  rewrite map_app, <- firstn_map. cbn [map].
  rewrite (poly_len_new_end (map R2 path) k (R2 pp) c (R2 q)).
  - replace (c + edist (R2 pp) (R2 q) - B2R L) with ((c - B2R lp) + (edist (R2 pp) (R2 q) - (B2R L - B2R lp))) by ring.
    eapply Rle_trans; [apply Rabs_triang|]. lra.
  - rewrite map_length. clear - Hk. lia.
  - rewrite nth_error_map, Hpp. reflexivity.
  - exact Hc.
Qed.

(* AdjustExact: T16b -- the end point of an adjusted curve, in exact arithmetic.
   The expression of calculate_length
       path[k-1] + normalize(path[k] - path[k-1]) * (L - lengths[k-1]) as f32
   is written once over abstract operations; the model's expression is its
   IEEE instance ([model_adjust_end], by reflexivity), the theorems are about
   its real instance.  Likewise the running sums of calculate_length
   ([cum_g]; the model's cum_lengths is the IEEE instance, [model_cum_lengths]).

   Over the reals, when path[k] <> path[k-1] (the degenerate case is the
   normalize(0) class of finding D11, excluded by hypothesis):
     - the new end point lies on the ray from path[k-1] through path[k] at
       distance exactly L - lengths[k-1] from path[k-1];
     - cut (lengths[k-1] <= L <= lengths[k]): it lies on the segment;
     - extension (L >= lengths[k]): it lies beyond path[k] in the segment's
       own direction, L - lengths[k] away from path[k];
     - the cumulative polyline lengths of the new path are the first k natural
       ones followed by L: the polyline length of the new path is exactly L. *)
From RM Require Import Model.ControlPoints Model.Curve Proofs.BezierRefine Proofs.LengthFacts.
From Coq Require Import Reals Lra Psatz.
Require Import ZifyBool.
Open Scope R_scope.

(* ---------- the formulas, once ---------- *)

Section AdjG.
  Context {T32 T64 : Type}.
  Variables (add32 sub32 mul32 div32 : T32 -> T32 -> T32) (one32 : T32)
            (sqrt64 : T64 -> T64) (sub64 : T64 -> T64 -> T64) (up : T32 -> T64) (down : T64 -> T32).
  (* f64::from(x * x + y * y).sqrt() as f32 *)
  Definition len_g (x y : T32) : T32 := down (sqrt64 (up (add32 (mul32 x x) (mul32 y y)))).
  (* prev + (d * (1 / len)) * ((e - lp) as f32) *)
  Definition adjust_coord_g (c_prev dx dy dc : T32) (e lp : T64) : T32 :=
    add32 c_prev (mul32 (mul32 dc (div32 one32 (len_g dx dy))) (down (sub64 e lp))).
  Definition adjust_point_g (ppx ppy pex pey : T32) (e lp : T64) : T32 * T32 :=
    let dx := sub32 pex ppx in
    let dy := sub32 pey ppy in
    (adjust_coord_g ppx dx dy dx e lp, adjust_coord_g ppy dx dy dy e lp).
End AdjG.

Section CumG.
  Context {P T : Type}.
  Variables (add : T -> T -> T) (seg : P -> P -> T).        (* seg curr next *)
  Fixpoint cum_g (acc : T) (path : list P) : list T * T :=
    match path with
    | curr :: ((next :: _) as t) =>
        let acc' := add acc (seg curr next) in
        let '(l, fin) := cum_g acc' t in (acc' :: l, fin)
    | _ => ([], acc)
    end.
End CumG.

(* the model is the IEEE instance *)
Lemma model_adjust_end pp pe e lp :
  padd pp (pmul (pnormalize (psub pe pp)) (f32_of_f64 (D.sub e lp))) =
  let '(x, y) := adjust_point_g S.add S.sub S.mul S.div S.one D.sqrt D.sub f64_of_f32 f32_of_f64
                                (px pp) (py pp) (px pe) (py pe) e lp in mkPos x y.
Proof. reflexivity. Qed.

Lemma model_cum_lengths path : forall acc,
  cum_lengths acc path = cum_g D.add (fun curr next => f64_of_f32 (plen (psub next curr))) acc path.
Proof. intros acc. reflexivity. Qed.

(* ---------- the real instance ---------- *)

Definition P2 : Type := (R * R)%type.
(* Euclidean distance *)
Definition edist (a b : P2) : R := sqrt ((fst b - fst a) ^ 2 + (snd b - snd a) ^ 2).

Definition adjust_R (pp pe : P2) (L lp : R) : P2 :=
  adjust_point_g Rplus Rminus Rmult Rdiv 1 sqrt Rminus (fun x => x) (fun x => x)
                 (fst pp) (snd pp) (fst pe) (snd pe) L lp.

(* cumulative polyline lengths: 0, then the running sums; and the total *)
Definition cumlen (path : list P2) : list R := 0 :: fst (cum_g Rplus edist 0 path).
Definition poly_len (path : list P2) : R := snd (cum_g Rplus edist 0 path).

(* ---------- Euclidean distance ---------- *)

Lemma sumsq_ge0 x y : 0 <= x ^ 2 + y ^ 2.
Proof. nra. Qed.

Lemma edist_ge0 a b : 0 <= edist a b.
Proof. apply sqrt_pos. Qed.

Lemma edist_sq a b : edist a b ^ 2 = (fst b - fst a) ^ 2 + (snd b - snd a) ^ 2.
Proof. unfold edist. apply pow2_sqrt. apply sumsq_ge0. Qed.

Lemma edist_refl a : edist a a = 0.
Proof. unfold edist. replace ((fst a - fst a) ^ 2 + (snd a - snd a) ^ 2) with 0 by ring. apply sqrt_0. Qed.

Lemma edist_sym a b : edist a b = edist b a.
Proof. unfold edist. f_equal. ring. Qed.

Lemma edist_zero a b : edist a b = 0 -> a = b.
Proof.
  intros H. pose proof (edist_sq a b) as S. rewrite H in S.
  destruct a as [ax ay], b as [bx by_]. cbn [fst snd] in *.
  replace (0 ^ 2) with 0 in S by ring.
  assert (E : Rsqr (bx - ax) + Rsqr (by_ - ay) = 0) by (rewrite !Rsqr_pow2; lra).
  pose proof (Rplus_sqr_eq_0_l _ _ E). rewrite Rplus_comm in E. pose proof (Rplus_sqr_eq_0_l _ _ E).
  f_equal; lra.
Qed.

Lemma edist_pos a b : a <> b -> 0 < edist a b.
Proof. intros H. destruct (edist_ge0 a b) as [Hp|Hz]; [exact Hp|]. exfalso. apply H. apply edist_zero. symmetry. exact Hz. Qed.

(* sqrt of a square root characterisation *)
Lemma edist_eq a b r : 0 <= r -> (fst b - fst a) ^ 2 + (snd b - snd a) ^ 2 = r ^ 2 -> edist a b = r.
Proof. intros Hr H. unfold edist. rewrite H. apply sqrt_pow2. exact Hr. Qed.

(* triangle inequality *)
Lemma edist_triangle a b c : edist a c <= edist a b + edist b c.
Proof.
  pose proof (edist_ge0 a b) as H1. pose proof (edist_ge0 b c) as H2. pose proof (edist_ge0 a c) as H3.
  pose proof (edist_sq a b) as S1. pose proof (edist_sq b c) as S2. pose proof (edist_sq a c) as S3.
  destruct a as [ax ay], b as [bx by_], c as [cx cy]. cbn [fst snd] in *.
  set (u1 := bx - ax) in *. set (u2 := by_ - ay) in *. set (v1 := cx - bx) in *. set (v2 := cy - by_) in *.
  replace (cx - ax) with (u1 + v1) in S3 by (unfold u1, v1; ring).
  replace (cy - ay) with (u2 + v2) in S3 by (unfold u2, v2; ring).
  (* Cauchy-Schwarz: (u.v)^2 <= |u|^2 |v|^2 *)
  assert (CS : (u1 * v1 + u2 * v2) ^ 2 <= (edist (ax, ay) (bx, by_) * edist (bx, by_) (cx, cy)) ^ 2).
  { rewrite Rpow_mult_distr, S1, S2. pose proof (pow2_ge_0 (u1 * v2 - u2 * v1)). nra. }
  assert (CS' : u1 * v1 + u2 * v2 <= edist (ax, ay) (bx, by_) * edist (bx, by_) (cx, cy)).
  { apply Rnot_lt_le. intros Hlt.
    assert (0 <= edist (ax, ay) (bx, by_) * edist (bx, by_) (cx, cy)) by (apply Rmult_le_pos; assumption). nra. }
  apply Rnot_lt_le. intros Hlt. nra.
Qed.

(* ---------- T16b: the adjusted end point ---------- *)

(* the formula, simplified: p' = pp + (pe - pp) * ((L - lp) / |pe - pp|) *)
Lemma adjust_R_formula pp pe L lp : pp <> pe ->
  adjust_R pp pe L lp =
  (fst pp + (fst pe - fst pp) * ((L - lp) / edist pp pe), snd pp + (snd pe - snd pp) * ((L - lp) / edist pp pe)).
Proof.
  intros Hne. pose proof (edist_pos pp pe Hne) as Hd.
  unfold adjust_R, adjust_point_g, adjust_coord_g, len_g.
  replace (sqrt ((fst pe - fst pp) * (fst pe - fst pp) + (snd pe - snd pp) * (snd pe - snd pp))) with (edist pp pe)
    by (unfold edist; f_equal; ring).
  f_equal; field; lra.
Qed.

(* on the ray from pp through pe, at distance exactly |L - lp| from pp
   (= L - lp whenever lp <= L, which calculate_length guarantees: lp < L) *)
Theorem adjust_on_ray pp pe L lp : pp <> pe -> lp <= L ->
  let p' := adjust_R pp pe L lp in
  (exists t, 0 <= t /\ p' = (fst pp + t * (fst pe - fst pp), snd pp + t * (snd pe - snd pp))) /\
  edist pp p' = L - lp.
Proof.
  intros Hne HL. cbv zeta. rewrite (adjust_R_formula pp pe L lp Hne).
  pose proof (edist_pos pp pe Hne) as Hd. pose proof (edist_sq pp pe) as Sq. split.
  - exists ((L - lp) / edist pp pe). split.
    + apply Rmult_le_pos; [lra|]. apply Rlt_le, Rinv_0_lt_compat. exact Hd.
    + f_equal; ring.
  - apply edist_eq; [lra|]. cbn [fst snd].
    replace ((fst pp + (fst pe - fst pp) * ((L - lp) / edist pp pe) - fst pp) ^ 2 +
             (snd pp + (snd pe - snd pp) * ((L - lp) / edist pp pe) - snd pp) ^ 2)
      with (((fst pe - fst pp) ^ 2 + (snd pe - snd pp) ^ 2) * ((L - lp) ^ 2 / edist pp pe ^ 2)) by (field; lra).
    rewrite <- Sq. field. lra.
Qed.

(* distance from the old end point pe: | (L - lp) - |pe - pp| | *)
Lemma adjust_dist_to_old pp pe L lp : pp <> pe ->
  edist (adjust_R pp pe L lp) pe = Rabs (edist pp pe - (L - lp)).
Proof.
  intros Hne. rewrite (adjust_R_formula pp pe L lp Hne).
  pose proof (edist_pos pp pe Hne) as Hd. pose proof (edist_sq pp pe) as Sq.
  apply edist_eq; [apply Rabs_pos|]. cbn [fst snd]. rewrite pow2_abs.
  replace ((fst pe - (fst pp + (fst pe - fst pp) * ((L - lp) / edist pp pe))) ^ 2 +
           (snd pe - (snd pp + (snd pe - snd pp) * ((L - lp) / edist pp pe))) ^ 2)
    with (((fst pe - fst pp) ^ 2 + (snd pe - snd pp) ^ 2) * ((1 - (L - lp) / edist pp pe) ^ 2)) by ring.
  rewrite <- Sq. field. lra.
Qed.

(* cut: lp <= L <= lp + |pe - pp|: on the segment, L - lp from pp and the rest from pe *)
Theorem adjust_cut_on_segment pp pe L lp : pp <> pe -> lp <= L <= lp + edist pp pe ->
  let p' := adjust_R pp pe L lp in
  (exists w, 0 <= w <= 1 /\ p' = ((1 - w) * fst pp + w * fst pe, (1 - w) * snd pp + w * snd pe)) /\
  edist pp p' = L - lp /\ edist p' pe = lp + edist pp pe - L.
Proof.
  intros Hne [H1 H2]. cbv zeta. pose proof (edist_pos pp pe Hne) as Hd. split; [|split].
  - rewrite (adjust_R_formula pp pe L lp Hne). exists ((L - lp) / edist pp pe). split.
    + split.
      * apply Rmult_le_pos; [lra|]. apply Rlt_le, Rinv_0_lt_compat. exact Hd.
      * apply (Rmult_le_reg_r (edist pp pe)); [exact Hd|]. unfold Rdiv. rewrite Rmult_assoc, Rinv_l by lra. lra.
    + f_equal; ring.
  - apply (adjust_on_ray pp pe L lp Hne H1).
  - rewrite (adjust_dist_to_old pp pe L lp Hne). rewrite Rabs_pos_eq by lra. ring.
Qed.

(* extension: L >= lp + |pe - pp|: beyond pe in the segment's own direction *)
Theorem adjust_extension pp pe L lp : pp <> pe -> lp + edist pp pe <= L ->
  let p' := adjust_R pp pe L lp in
  (exists w, 1 <= w /\ p' = (fst pp + w * (fst pe - fst pp), snd pp + w * (snd pe - snd pp))) /\
  edist pp p' = L - lp /\ edist pe p' = L - (lp + edist pp pe).
Proof.
  intros Hne H1. cbv zeta. pose proof (edist_pos pp pe Hne) as Hd. split; [|split].
  - rewrite (adjust_R_formula pp pe L lp Hne). exists ((L - lp) / edist pp pe). split.
    + apply (Rmult_le_reg_r (edist pp pe)); [exact Hd|]. unfold Rdiv. rewrite Rmult_assoc, Rinv_l by lra. lra.
    + f_equal; ring.
  - apply (adjust_on_ray pp pe L lp Hne). lra.
  - rewrite edist_sym, (adjust_dist_to_old pp pe L lp Hne). rewrite Rabs_left1 by lra. ring.
Qed.

(* ---------- cumulative polyline lengths ---------- *)
Local Open Scope nat_scope.

Lemma cum_g_cons2 {P T} (add : T -> T -> T) (seg : P -> P -> T) acc a b t :
  cum_g add seg acc (a :: b :: t) =
  (add acc (seg a b) :: fst (cum_g add seg (add acc (seg a b)) (b :: t)),
   snd (cum_g add seg (add acc (seg a b)) (b :: t))).
Proof.
  change (cum_g add seg acc (a :: b :: t)) with
    (let '(l, fin) := cum_g add seg (add acc (seg a b)) (b :: t) in (add acc (seg a b) :: l, fin)).
  destruct (cum_g add seg (add acc (seg a b)) (b :: t)); reflexivity.
Qed.

Lemma cum_R_length path : forall acc, length (fst (cum_g Rplus edist acc path)) = pred (length path).
Proof.
  induction path as [|a [|b t] IH]; intros acc; try reflexivity.
  rewrite cum_g_cons2. cbn [fst length pred]. rewrite IH. reflexivity.
Qed.

Lemma cumlen_length path : path <> [] -> length (cumlen path) = length path.
Proof. intros H. unfold cumlen. cbn [length]. rewrite cum_R_length. destruct path; [congruence|reflexivity]. Qed.

(* the running sums of a path extended by one vertex *)
Lemma cum_R_snoc path : forall acc a q,
  fst (cum_g Rplus edist acc ((path ++ [a]) ++ [q])) =
  fst (cum_g Rplus edist acc (path ++ [a])) ++ [(snd (cum_g Rplus edist acc (path ++ [a])) + edist a q)%R] /\
  snd (cum_g Rplus edist acc ((path ++ [a]) ++ [q])) = (snd (cum_g Rplus edist acc (path ++ [a])) + edist a q)%R.
Proof.
  induction path as [|x t IH]; intros acc a q.
  - cbn. split; reflexivity.
  - destruct (t ++ [a]) as [|y r] eqn:E; [destruct t; discriminate|].
    change (((x :: t) ++ [a]) ++ [q]) with (x :: (t ++ [a]) ++ [q]).
    change ((x :: t) ++ [a]) with (x :: (t ++ [a])). rewrite E.
    change ((y :: r) ++ [q]) with (y :: r ++ [q]). rewrite !cum_g_cons2. cbn [fst snd].
    specialize (IH (acc + edist x y)%R a q). rewrite E in IH. change ((y :: r) ++ [q]) with (y :: r ++ [q]) in IH.
    destruct IH as [I1 I2]. rewrite I1, I2. split; reflexivity.
Qed.

(* the running sums of a prefix are a prefix of the running sums *)
Lemma cum_R_firstn path : forall acc k, 1 <= k <= length path ->
  fst (cum_g Rplus edist acc (firstn k path)) = firstn (pred k) (fst (cum_g Rplus edist acc path)) /\
  snd (cum_g Rplus edist acc (firstn k path)) = nth (pred k) (acc :: fst (cum_g Rplus edist acc path)) 0%R.
Proof.
  induction path as [|a [|b t] IH]; intros acc k Hk; cbn [length] in Hk; try lia.
  - assert (k = 1) by lia. subst k. cbn. split; reflexivity.
  - destruct k as [|[|k]]; try lia.
    + cbn. split; reflexivity.
    + change (firstn (S (S k)) (a :: b :: t)) with (a :: firstn (S k) (b :: t)).
      change (firstn (S k) (b :: t)) with (b :: firstn k t).
      rewrite !cum_g_cons2. cbn [fst snd pred].
      specialize (IH (acc + edist a b)%R (S k) ltac:(cbn [length]; lia)).
      change (firstn (S k) (b :: t)) with (b :: firstn k t) in IH. cbn [pred] in IH.
      destruct IH as [I1 I2]. rewrite I1, I2. split; reflexivity.
Qed.

Lemma cum_R_last path : forall acc d,
  snd (cum_g Rplus edist acc path) = last (acc :: fst (cum_g Rplus edist acc path)) d.
Proof.
  induction path as [|a [|b t] IH]; intros acc d; try reflexivity.
  rewrite cum_g_cons2. cbn [fst snd]. rewrite (IH (acc + edist a b)%R d). reflexivity.
Qed.

Lemma poly_len_last path : poly_len path = last (cumlen path) 0%R.
Proof. apply cum_R_last. Qed.

(* T16b, whole path: cutting the natural path after vertex k-1 and appending
   the adjusted end point gives a path whose cumulative polyline lengths are
   the first k natural ones followed by L -- exactly the lengths list
   calculate_length returns -- so its polyline length is exactly L *)
Theorem adjusted_path_lengths (path : list P2) k pp pe lp L :
  1 <= k < length path ->
  nth_error path (pred k) = Some pp -> nth_error path k = Some pe ->
  nth_error (cumlen path) (pred k) = Some lp ->
  pp <> pe -> (lp <= L)%R ->
  let path' := firstn k path ++ [adjust_R pp pe L lp] in
  cumlen path' = firstn k (cumlen path) ++ [L] /\ poly_len path' = L.
Proof.
  intros Hk Hpp Hpe Hlp Hne HL. cbv zeta.
  destruct k as [|k1]; [lia|]. cbn [pred] in *.
  (* firstn (S k1) path = pre ++ [pp] *)
  assert (Hsplit : firstn (S k1) path = firstn k1 path ++ [pp]).
  { clear -Hpp. revert path Hpp. induction k1 as [|k IH]; intros [|a t] H; try discriminate.
    - cbn in H. inversion H. reflexivity.
    - cbn [nth_error] in H. change (firstn (S (S k)) (a :: t)) with (a :: firstn (S k) t).
      rewrite (IH t H). reflexivity. }
  destruct (cum_R_firstn path 0%R (S k1) ltac:(lia)) as [F1 F2]. cbn [pred] in F1, F2.
  assert (Hlp' : snd (cum_g Rplus edist 0%R (firstn (S k1) path)) = lp).
  { rewrite F2. unfold cumlen in Hlp. apply nth_error_nth. exact Hlp. }
  destruct (adjust_on_ray pp pe L lp Hne HL) as [_ Hd].
  unfold cumlen, poly_len. rewrite Hsplit.
  destruct (cum_R_snoc (firstn k1 path) 0%R pp (adjust_R pp pe L lp)) as [S1 S2].
  rewrite S1, S2, <- Hsplit, Hlp', Hd, F1.
  replace (lp + (L - lp))%R with L by ring.
  split; [|reflexivity]. cbn [firstn app]. reflexivity.
Qed.

(* the hypothesis path[k] <> path[k-1] cannot be dropped: with a zero
   direction the real formula returns path[k-1] itself, so the new path's
   polyline length is lengths[k-1], not L (in IEEE arithmetic: 0 * inf = NaN,
   the D11 class) *)
Local Open Scope R_scope.
Lemma adjust_degenerate pp L lp : adjust_R pp pp L lp = pp.
Proof.
  unfold adjust_R, adjust_point_g, adjust_coord_g. destruct pp as [x y]. cbn [fst snd].
  f_equal; rewrite Rminus_diag_eq by reflexivity; rewrite !Rmult_0_l; ring.
Qed.

(* non-vacuity: (0,0) (3,4) (8,16), natural lengths 0, 5, 18; L = 9 cuts the
   second segment 4/13 of the way *)
Example adjust_example :
  adjust_R (3, 4) (8, 16) 9 5 = (3 + 5 * (4 / 13), 4 + 12 * (4 / 13)).
Proof.
  assert (Hne : (3, 4) <> (8, 16)) by (intros H; inversion H; lra).
  rewrite (adjust_R_formula _ _ 9 5 Hne).
  assert (E : edist (3, 4) (8, 16) = 13) by (apply edist_eq; cbn [fst snd]; lra).
  rewrite E. cbn [fst snd]. f_equal; field.
Qed.

(* Facts about Model/PathString.v: the two index loops of convert_points and
   convert_path_str never panic, never run out of fuel, and compute the
   structural [split_dups] / [seg_spec] / [path_segs] of Model/HitObjectSpec.v. *)
From RM Require Import Model.Text Model.Num Model.HitSamples Model.PathString
     Model.HitObjectLine Model.HitObjectSpec.
From RM Require Import Gen.Generated.
From Coq Require Import ZifyBool.
Open Scope Z_scope.

(* ---------- lists ---------- *)
Lemma nth_error_mid : forall {A} (l1 : list A) x l2, nth_error (l1 ++ x :: l2) (length l1) = Some x.
Proof. intros A l1 x l2. induction l1 as [|a l1 IH]; cbn; [reflexivity|exact IH]. Qed.

Lemma nth_error_mid' : forall {A} (l1 : list A) l2 n, n = length l1 ->
  nth_error (l1 ++ l2) n = nth_error l2 0.
Proof. intros A l1 l2 n ->. induction l1 as [|a l1 IH]; cbn; [reflexivity|exact IH]. Qed.

Lemma replace_nth_mid : forall {A} (l1 : list A) x y l2,
  replace_nth (length l1) y (l1 ++ x :: l2) = l1 ++ y :: l2.
Proof. intros A l1 x y l2. induction l1 as [|a l1 IH]; cbn; [reflexivity|rewrite IH; reflexivity]. Qed.

Lemma skipn_app_le : forall {A} (P R : list A) s, (s <= length P)%nat ->
  skipn s (P ++ R) = skipn s P ++ R.
Proof.
  intros A P R s Hs. rewrite skipn_app. replace (s - length P)%nat with 0%nat by lia. reflexivity.
Qed.

Lemma slice_prefix : forall {A} (P R : list A) s, (s <= length P)%nat ->
  slice (P ++ R) s (length P) = Some (skipn s P).
Proof.
  intros A P R s Hs. unfold slice.
  replace ((s <=? length P)%nat && (length P <=? length (P ++ R))%nat) with true
    by (rewrite app_length; symmetry; apply andb_true_intro; split; apply Nat.leb_le; lia).
  f_equal. rewrite skipn_app_le by assumption.
  rewrite firstn_app, skipn_length.
  replace (length P - s - (length P - s))%nat with 0%nat by lia.
  cbn [firstn]. rewrite app_nil_r.
  apply firstn_all2. rewrite skipn_length. lia.
Qed.

Lemma slice_prefix' : forall {A} (P R : list A) s e, e = length P -> (s <= e)%nat ->
  slice (P ++ R) s e = Some (skipn s P).
Proof. intros A P R s e -> H. apply slice_prefix. exact H. Qed.

Lemma slice_prefix'' : forall {A} (P B R : list A) s e, e = length P -> (s <= e)%nat ->
  slice ((P ++ B) ++ R) s e = Some (skipn s P).
Proof. intros A P B R s e He H. rewrite <- app_assoc. apply slice_prefix'; assumption. Qed.

Lemma slice_mid : forall {A} (P B R : list A),
  slice (P ++ B ++ R) (length P) (length P + length B) = Some B.
Proof.
  intros A P B R. rewrite app_assoc.
  replace (length P + length B)%nat with (length (P ++ B)) by (rewrite app_length; reflexivity).
  rewrite slice_prefix by (rewrite app_length; lia).
  rewrite skipn_app_le by lia. rewrite skipn_all. reflexivity.
Qed.

(* ---------- mark_last ---------- *)
Lemma mark_last_snoc : forall ty l p, mark_last ty (l ++ [p]) = l ++ [pcp_with_type p ty].
Proof.
  intros ty l p. induction l as [|a l IH]; [reflexivity|].
  cbn [app]. remember (l ++ [p]) as x eqn:E. destruct x as [|b x]; [destruct l; discriminate|].
  change (mark_last ty (a :: b :: x)) with (a :: mark_last ty (b :: x)). rewrite IH. reflexivity.
Qed.

(* ---------- PathType equality ---------- *)
Lemma pt_eqb_eq : forall a b, pt_eqb a b = true -> a = b.
Proof.
  intros [ka da] [kb db]. unfold pt_eqb. cbn [pt_kind pt_degree]. intros H.
  apply andb_prop in H. destruct H as [Hk Hd]. apply Z.eqb_eq in Hk. subst kb.
  destruct da, db; cbn in Hd; try discriminate; [apply Z.eqb_eq in Hd; subst|]; reflexivity.
Qed.

(* ---------- the duplicate-splitting loop ---------- *)
Lemma dup_loop_spec : forall ty epl cl rest Q p seg curve start fuel,
  length cl = epl ->
  (start <= S (length Q))%nat ->
  seg = skipn start (Q ++ [p]) ->
  (length rest < fuel)%nat ->
  exists vs',
    dup_loop fuel ty epl ((Q ++ [p]) ++ rest ++ cl) curve start (length Q)
    = Done (vs', curve ++ split_dups ty (S (length Q)) p seg rest).
Proof.
  intros ty epl cl rest. induction rest as [|v rest' IH]; intros Q p seg curve start fuel Hcl Hst Hseg Hf.
  - destruct fuel as [|k]; [lia|]. cbn [dup_loop split_dups].
    assert (Hn : usub (length ((Q ++ [p]) ++ [] ++ cl)) epl = Some (S (length Q))).
    { unfold usub. rewrite !app_length. cbn [length]. rewrite ?app_length, Hcl.
      match goal with |- (if ?c then _ else _) = _ => destruct c eqn:E end; [lia|f_equal; lia]. }
    rewrite Hn. rewrite Nat.ltb_irrefl.
    destruct (start <? S (length Q))%nat eqn:E.
    + rewrite slice_prefix' by (rewrite ?app_length; cbn; lia).
      eexists. rewrite Hseg. reflexivity.
    + assert (start = S (length Q)) by lia. subst start.
      rewrite Hseg, skipn_all2 by (rewrite app_length; cbn; lia).
      rewrite app_nil_r. eexists. reflexivity.
  - destruct fuel as [|k]; [lia|]. cbn [dup_loop split_dups].
    cbn [length] in Hf.
    assert (Hn : usub (length ((Q ++ [p]) ++ (v :: rest') ++ cl)) epl
                 = Some (S (length Q) + S (length rest'))%nat).
    { unfold usub. rewrite !app_length. cbn [length]. rewrite ?app_length, Hcl.
      match goal with |- (if ?c then _ else _) = _ => destruct c eqn:E end; [lia|f_equal; lia]. }
    rewrite Hn.
    replace (S (length Q) <? S (length Q) + S (length rest'))%nat with true by lia.
    assert (Hv : nth_error ((Q ++ [p]) ++ (v :: rest') ++ cl) (S (length Q)) = Some v).
    { replace (S (length Q)) with (length (Q ++ [p])) by (rewrite app_length; cbn; lia).
      cbn [app]. apply nth_error_mid. }
    rewrite Hv.
    assert (Hu : usub (S (length Q)) 1 = Some (length Q)).
    { unfold usub. cbn. f_equal. lia. }
    rewrite Hu.
    assert (Hp : nth_error ((Q ++ [p]) ++ (v :: rest') ++ cl) (length Q) = Some p).
    { rewrite <- app_assoc. cbn [app]. apply nth_error_mid. }
    rewrite Hp.
    assert (Hre : (Q ++ [p]) ++ (v :: rest') ++ cl = ((Q ++ [p]) ++ [v]) ++ rest' ++ cl).
    { rewrite <- !app_assoc. reflexivity. }
    assert (Hlen : S (length Q) = length (Q ++ [p])) by (rewrite app_length; cbn; lia).
    assert (Hcont : exists vs',
               dup_loop k ty epl ((Q ++ [p]) ++ (v :: rest') ++ cl) curve start (S (length Q))
               = Done (vs', curve ++ split_dups ty (S (S (length Q))) v (seg ++ [v]) rest')).
    { rewrite Hre, Hlen. apply IH; try assumption; try lia.
      rewrite skipn_app_le by (rewrite <- Hlen; lia). rewrite Hseg. reflexivity. }
    destruct (pos_eqb (cp_pos v) (cp_pos p)) eqn:Epos; cbn [negb andb].
    2:{ exact Hcont. }
    destruct (pt_eqb ty pt_catmull && (1 <? S (length Q))%nat) eqn:Ecat; cbn [negb andb].
    { exact Hcont. }
    assert (Hu2 : usub (S (length Q) + S (length rest')) 1 = Some (S (length Q) + length rest')%nat).
    { unfold usub. replace (S (length Q) + S (length rest') <? 1)%nat with false by lia. f_equal. lia. }
    rewrite Hu2.
    destruct rest' as [|v2 rest''].
    { cbn [length is_nil negb]. replace (S (length Q) =? S (length Q) + 0)%nat with true by lia.
      exact Hcont. }
    cbn [is_nil negb].
    destruct (Nat.eqb_spec (S (length Q)) (S (length Q) + length (v2 :: rest''))) as [Heq|_];
      [cbn [length] in Heq; lia|].
    (* split *)
    assert (HL : replace_nth (length Q) (pcp_with_type p ty) ((Q ++ [p]) ++ (v :: v2 :: rest'') ++ cl)
                 = ((Q ++ [pcp_with_type p ty]) ++ [v]) ++ (v2 :: rest'') ++ cl).
    { rewrite <- !app_assoc. cbn [app]. rewrite replace_nth_mid. reflexivity. }
    rewrite HL.
    rewrite (slice_prefix'' (Q ++ [pcp_with_type p ty]) [v]) by (rewrite ?app_length; cbn [length]; lia).
    assert (Hmark : skipn start (Q ++ [pcp_with_type p ty]) = mark_last ty seg).
    { rewrite Hseg. destruct (Nat.eq_dec start (S (length Q))) as [->|Hne].
      - rewrite !skipn_all2 by (rewrite app_length; cbn [length]; lia). reflexivity.
      - rewrite !skipn_app_le by lia. rewrite mark_last_snoc. reflexivity. }
    rewrite Hmark.
    replace (S (length Q)) with (length (Q ++ [pcp_with_type p ty])) by (rewrite app_length; cbn [length]; lia).
    destruct (IH (Q ++ [pcp_with_type p ty]) v [] (curve ++ mark_last ty seg)
                 (S (length (Q ++ [pcp_with_type p ty]))) k Hcl) as [vs' Hvs'].
    + lia.
    + rewrite skipn_all2; [reflexivity|]. rewrite !app_length. cbn. lia.
    + cbn [length] in *. lia.
    + exists vs'. rewrite Hvs'. rewrite <- app_assoc. reflexivity.
Qed.

(* ---------- reading the points of a segment ---------- *)
Lemma read_points_spec : forall pts offset acc,
  match read_all pts offset with
  | Some vs => read_points pts offset acc = (acc ++ vs, true)
  | None => exists vs, read_points pts offset acc = (vs, false)
  end.
Proof.
  intros pts offset. induction pts as [|p r IH]; intros acc; cbn [read_all read_points].
  - rewrite app_nil_r. reflexivity.
  - destruct (read_point p offset) as [v|]; [|eexists; reflexivity].
    specialize (IH (acc ++ [v])).
    destruct (read_all r offset) as [vs|].
    + rewrite IH, <- app_assoc. reflexivity.
    + exact IH.
Qed.

Lemma read_all_nil : forall pts offset, read_all pts offset = Some [] -> pts = [].
Proof.
  intros [|p r] offset; [reflexivity|]. cbn [read_all].
  destruct (read_point p offset); [|discriminate]. destruct (read_all r offset); discriminate.
Qed.

(* ---------- convert_points = seg_spec ---------- *)
Lemma convert_points_spec : forall pb cur closing first offset,
  (first = true \/ (1 < length cur)%nat \/ closing = None \/
   (exists c, closing = Some c /\ read_point c offset = None)) ->
  exists V,
    convert_points pb cur closing first offset =
    match seg_spec first cur closing offset with
    | Some em => Done (mkPB (pb_curve pb ++ em) V, Ok)
    | None => Done (mkPB (pb_curve pb) V, Rejected)
    end.
Proof.
  intros [curve verts] cur closing first offset Hside. cbn [pb_curve].
  destruct cur as [|letter pts]; [exists verts; reflexivity|].
  unfold convert_points, seg_spec. cbn [pb_curve].
  assert (Hu : usub (length (letter :: pts)) 1 = Some (length pts)).
  { unfold usub. cbn [length]. destruct (S (length pts) <? 1)%nat eqn:E; [lia|f_equal; lia]. }
  rewrite Hu. clear Hu.
  set (v0 := if first then [pcp_default] else []).
  pose proof (read_points_spec pts offset v0) as Hrp.
  destruct (read_all pts offset) as [own0|] eqn:Eown.
  2:{ destruct Hrp as [vs Hvs]. rewrite Hvs. exists vs. reflexivity. }
  rewrite Hrp. clear Hrp.
  destruct closing as [c|].
  - destruct (read_point c offset) as [vc|] eqn:Ec; cbn [omap].
    2:{ eexists. reflexivity. }
    set (ty := seg_type (path_type_of_str letter) ((v0 ++ own0) ++ [vc])).
    assert (Hty : (if pt_eqb (path_type_of_str letter) pt_perfect
                   then match (v0 ++ own0) ++ [vc] with
                        | [a; b; c0] => if is_linear (cp_pos a) (cp_pos b) (cp_pos c0)
                                        then pt_linear else path_type_of_str letter
                        | _ => pt_bezier end
                   else path_type_of_str letter) = ty).
    { unfold ty, seg_type. destruct (pt_eqb (path_type_of_str letter) pt_perfect) eqn:E; [|reflexivity].
      apply pt_eqb_eq in E. rewrite E. reflexivity. }
    rewrite Hty. clear Hty.
    destruct (v0 ++ own0) as [|w0 rest] eqn:Eo.
    + (* no own point, but a closing one: excluded *)
      exfalso. apply app_eq_nil in Eo. destruct Eo as [E0 E1]. subst own0.
      apply read_all_nil in Eown. subst pts.
      destruct Hside as [H|[H|[H|[c' [H1 H2]]]]].
      * subst first. discriminate.
      * cbn in H. lia.
      * discriminate.
      * injection H1 as <-. congruence.
    + cbn [app].
      destruct (dup_loop_spec ty 1 [vc] rest [] (pcp_with_type w0 ty) [pcp_with_type w0 ty] curve 0
                              (S (length (pcp_with_type w0 ty :: rest ++ [vc])))) as [vs' Hvs'];
        try reflexivity; try (cbn [length]; lia).
      { cbn [length]. rewrite app_length. lia. }
      cbn [app length] in Hvs'. cbn [length]. rewrite Hvs'. eexists. reflexivity.
  - set (ty := seg_type (path_type_of_str letter) ((v0 ++ own0) ++ [])).
    assert (Hty : (if pt_eqb (path_type_of_str letter) pt_perfect
                   then match v0 ++ own0 with
                        | [a; b; c0] => if is_linear (cp_pos a) (cp_pos b) (cp_pos c0)
                                        then pt_linear else path_type_of_str letter
                        | _ => pt_bezier end
                   else path_type_of_str letter) = ty).
    { unfold ty, seg_type. rewrite app_nil_r.
      destruct (pt_eqb (path_type_of_str letter) pt_perfect) eqn:E; [|reflexivity].
      apply pt_eqb_eq in E. rewrite E. reflexivity. }
    rewrite Hty. clear Hty.
    destruct (v0 ++ own0) as [|w0 rest] eqn:Eo.
    + eexists. reflexivity.
    + destruct (dup_loop_spec ty 0 [] rest [] (pcp_with_type w0 ty) [pcp_with_type w0 ty] curve 0
                              (S (length (pcp_with_type w0 ty :: rest)))) as [vs' Hvs'];
        try reflexivity; try (cbn [length]; lia).
      cbn [app length] in Hvs'. rewrite app_nil_r in Hvs'. cbn [length]. rewrite Hvs'.
      eexists. reflexivity.
Qed.

(* ---------- a token that starts with a letter is never a point ---------- *)
Lemma match46 : forall {A} (c : Z) (X Y : A), c <> 46 -> (match c with 46 => X | _ => Y end) = Y.
Proof.
  intros A c X Y H. destruct c as [|q|q]; try reflexivity.
  do 6 (destruct q as [q|q|]; try reflexivity).
  all: try (exfalso; apply H; reflexivity).
Qed.

Lemma parse_fnum_alpha : forall c p, is_ascii_alpha c = true ->
  parse_fnum (c :: p) = None \/ parse_fnum (c :: p) = Some (false, FInf) \/ parse_fnum (c :: p) = Some (false, FNan).
Proof.
  intros c p H.
  assert (Hc : 65 <= c <= 90 \/ 97 <= c <= 122) by (unfold is_ascii_alpha in H; lia).
  unfold parse_fnum.
  replace (c =? 45) with false by lia. replace (c =? 43) with false by lia. cbn [orb].
  cbn [take_digits].
  replace (is_digit c) with false by (unfold is_digit; lia).
  rewrite match46 by lia.
  change (0 + 0 =? 0) with true. cbv iota.
  destruct (str_eqb (map upper (c :: p)) (lit "INF") || str_eqb (map upper (c :: p)) (lit "INFINITY")).
  - right; left; reflexivity.
  - destruct (str_eqb (map upper (c :: p)) (lit "NAN")); [right; right|left]; reflexivity.
Qed.

Lemma trim_start_snoc : forall l c, is_ws c = false -> exists l', trim_start (l ++ [c]) = l' ++ [c].
Proof.
  intros l c Hc. induction l as [|a l IH].
  - exists []. cbn. rewrite Hc. reflexivity.
  - cbn [app trim_start]. destruct (is_ws a); [exact IH|]. exists (a :: l). reflexivity.
Qed.

Lemma trim_head : forall c p, is_ws c = false -> exists p', trim (c :: p) = c :: p'.
Proof.
  intros c p Hc. unfold trim. cbn [trim_start]. rewrite Hc. unfold trim_end. cbn [rev].
  destruct (trim_start_snoc (rev p) c Hc) as [l' Hl']. rewrite Hl', rev_app_distr. cbn.
  eexists; reflexivity.
Qed.

Lemma alpha_not_ws : forall c, is_ascii_alpha c = true -> is_ws c = false.
Proof. intros c H. unfold is_ascii_alpha in H. unfold is_ws. lia. Qed.

Lemma coord_lim64_finite : is_finite coord_lim64 = true.
Proof. vm_compute. reflexivity. Qed.

Lemma pn_f64_alpha : forall c p, is_ascii_alpha c = true -> pn_f64_lim coord_lim64 (c :: p) = None.
Proof.
  intros c p H. unfold pn_f64_lim.
  destruct (trim_head c p (alpha_not_ws c H)) as [p' Hp']. rewrite Hp'.
  unfold parse_f64_raw.
  destruct (parse_fnum_alpha c p' H) as [E|[E|E]]; rewrite E; [reflexivity| |].
  - cbn [fnum_to_float].
    replace (D.lt (B754_infinity false) (D.neg coord_lim64)) with false
      by (unfold D.lt, flt; destruct (D.neg coord_lim64) as [| [|] | |]; reflexivity).
    pose proof coord_lim64_finite as Hf.
    unfold D.gt, fgt. destruct coord_lim64 as [| | |]; try discriminate; reflexivity.
  - cbn [fnum_to_float].
    replace (D.lt B754_nan (D.neg coord_lim64)) with false by reflexivity.
    replace (D.gt B754_nan coord_lim64) with false
      by (unfold D.gt, fgt; destruct coord_lim64; reflexivity).
    reflexivity.
Qed.

Lemma split_on_head : forall d c r, c <> d -> exists p ps, split_on d (c :: r) = (c :: p) :: ps.
Proof.
  intros d c r H. cbn [split_on]. replace (c =? d) with false by lia.
  destruct (split_on d r); eexists; eexists; reflexivity.
Qed.

Lemma read_point_alpha : forall c r off, is_ascii_alpha c = true -> read_point (c :: r) off = None.
Proof.
  intros c r off H. unfold read_point.
  assert (Hne : c <> 58) by (unfold is_ascii_alpha in H; lia).
  destruct (split_on_head 58 c r Hne) as [p [ps E]]. rewrite E.
  destruct ps as [|sy ps]; [reflexivity|].
  rewrite pn_f64_alpha by assumption. reflexivity.
Qed.

Lemma split_on_nonnil : forall d s, split_on d s <> [].
Proof.
  intros d s. induction s as [|c r IH]; cbn [split_on]; [discriminate|].
  destruct (c =? d); [discriminate|]. destruct (split_on d r); discriminate.
Qed.

(* ---------- convert_path_str's loop = path_segs ---------- *)
Lemma seg_spec_closing : forall first cur c offset em,
  seg_spec first cur (Some c) offset = Some em -> read_point c offset <> None.
Proof.
  intros first cur c offset em. unfold seg_spec. destruct cur as [|l pts]; [discriminate|].
  destruct (read_all pts offset); [|discriminate].
  destruct (read_point c offset); [discriminate|]. cbn [omap]. discriminate.
Qed.

Lemma path_loop_spec : forall offset rest A cur pb first fuel,
  cur <> [] ->
  (length rest < fuel)%nat ->
  (first = false -> length cur = 1%nat ->
   match rest with t :: _ => read_point t offset <> None | [] => True end) ->
  exists V,
    path_loop fuel pb (A ++ cur ++ rest) (length A) (length A + length cur - 1) first offset
    = Done (mkPB (pb_curve pb ++ fst (path_segs first cur rest offset)) V,
            if snd (path_segs first cur rest offset) then Ok else Rejected).
Proof.
  intros offset rest. induction rest as [|t rest' IH]; intros A cur pb first fuel Hcur Hf Hinv.
  - destruct fuel as [|k]; [lia|]. cbn [path_loop path_segs].
    assert (Hlen : S (length A + length cur - 1) = (length A + length cur)%nat).
    { destruct cur; [contradiction|]. cbn [length]. lia. }
    rewrite Hlen. rewrite app_nil_r.
    replace (length A + length cur <? length (A ++ cur))%nat with false by (rewrite app_length; lia).
    replace (length A <? length A + length cur)%nat with true
      by (destruct cur; [contradiction|]; cbn [length]; lia).
    rewrite <- (app_nil_r (A ++ cur)), <- app_assoc, slice_mid.
    destruct (convert_points_spec pb cur None first offset) as [V HV]; [right; right; left; reflexivity|].
    rewrite HV. exists V.
    destruct (seg_spec first cur None offset); cbn [fst snd]; [reflexivity|].
    rewrite app_nil_r. reflexivity.
  - destruct fuel as [|k]; [lia|]. cbn [path_loop path_segs]. cbn [length] in Hf.
    assert (Hlen : S (length A + length cur - 1) = (length A + length cur)%nat).
    { destruct cur; [contradiction|]. cbn [length]. lia. }
    rewrite Hlen.
    replace (length A + length cur <? length (A ++ cur ++ t :: rest'))%nat with true
      by (rewrite !app_length; cbn [length]; lia).
    assert (Ht : nth_error (A ++ cur ++ t :: rest') (length A + length cur) = Some t).
    { rewrite app_assoc. replace (length A + length cur)%nat with (length (A ++ cur))
        by (rewrite app_length; reflexivity). apply nth_error_mid. }
    rewrite Ht.
    destruct t as [|c tr].
    { cbn [fst snd]. rewrite app_nil_r. destruct pb. eexists. reflexivity. }
    destruct (is_ascii_alpha c) eqn:Ealpha; cbn [negb].
    + (* a letter: the segment [cur] is complete *)
      match goal with |- context [convert_points pb _ ?e first offset] =>
        assert (Hend : e = fst (next rest')) end.
      { rewrite app_assoc. replace (S (length A + length cur)) with (S (length (A ++ cur)))
          by (rewrite app_length; reflexivity).
        generalize (A ++ cur). intros l. induction l as [|a l IHl]; cbn; [destruct rest'; reflexivity|exact IHl]. }
      rewrite Hend. rewrite slice_mid.
      destruct (convert_points_spec pb cur (fst (next rest')) first offset) as [V HV].
      { destruct first; [left; reflexivity|]. right.
        destruct (Nat.eq_dec (length cur) 1) as [H1|H1].
        - exfalso. specialize (Hinv eq_refl H1). cbn in Hinv. apply Hinv.
          apply read_point_alpha. exact Ealpha.
        - left. destruct cur as [|x [|y cur']]; [contradiction|cbn in H1; lia|cbn; lia]. }
      rewrite HV.
      destruct (seg_spec first cur (fst (next rest')) offset) as [a|] eqn:Eseg.
      2:{ exists V. cbn [fst snd]. rewrite app_nil_r. reflexivity. }
      specialize (IH (A ++ cur) [c :: tr] (mkPB (pb_curve pb ++ a) V) false k).
      destruct IH as [V' HV']; [discriminate|lia| |].
      { intros _ _. destruct rest' as [|t2 rest'']; [exact I|]. cbn [next fst] in Eseg.
        eapply seg_spec_closing. exact Eseg. }
      rewrite app_length in HV'. cbn [length] in HV'.
      replace (length A + length cur + 1 - 1)%nat with (length A + length cur)%nat in HV' by lia.
      rewrite <- app_assoc in HV'. cbn [app] in HV'. rewrite HV'. exists V'.
      cbn [pb_curve]. unfold str, char in *.
      destruct (path_segs false [c :: tr] rest' offset) as [b ok]. cbn [fst snd].
      rewrite app_assoc. reflexivity.
    + (* a point token: the segment grows *)
      specialize (IH A (cur ++ [c :: tr]) pb first k).
      destruct IH as [V HV]; [destruct cur; discriminate|lia| |].
      { intros _ H1. rewrite app_length in H1. cbn [length] in H1. destruct cur; [contradiction|cbn [length] in H1; lia]. }
      rewrite app_length in HV. cbn [length] in HV.
      replace (length A + (length cur + 1) - 1)%nat with (length A + length cur)%nat in HV by lia.
      rewrite <- app_assoc in HV. cbn [app] in HV. rewrite HV. exists V. reflexivity.
Qed.

(* convert_path_str: total, and the structural specification *)
Theorem convert_path_str_spec : forall pb point_str offset,
  exists V,
    convert_path_str pb point_str offset
    = Done (mkPB (pb_curve pb ++ fst (path_spec point_str offset)) V,
            if snd (path_spec point_str offset) then Ok else Rejected).
Proof.
  intros pb s offset. unfold convert_path_str, path_spec.
  destruct (split_on 124 s) as [|t0 rest] eqn:E; [exfalso; eapply split_on_nonnil; exact E|].
  destruct (path_loop_spec offset rest [] [t0] pb true (S (length (t0 :: rest)))) as [V HV].
  - discriminate.
  - cbn [length]. lia.
  - discriminate.
  - cbn [app length] in HV. change (0 + 1 - 1)%nat with 0%nat in HV. cbn [length]. rewrite HV. exists V. reflexivity.
Qed.

(* DecodedObjects: what a decoded map looks like, as far as the encoder cares
   (C01, layer 4): the four control-point lists are sorted; every slider has
   0 <= repeat_count < 9000, a requested length that is absent or positive, and
   a curve whose computation returned a value during decoding (so the same
   computation returns the same value again when the encoder asks).
   Also: the curve-distance glue of Model/DrvEnc.v is that of Model/CurveDist.v. *)
From RM Require Import Model.Encode Model.CurveDist Model.HitObjectSpec.
From RM Require Model.DrvEnc Model.Curve Model.SliderEvents.
From RM Require Import Proofs.FramingFacts Proofs.ControlPointsFacts Proofs.HitObjectLineFacts
     Proofs.C14Clauses Proofs.MapLevelFacts Proofs.DecodersFacts Proofs.DecodersTotal
     Proofs.C01Clauses Proofs.DecodeNoPanic Proofs.FloatNonneg Proofs.CurveDistNonneg.
From RM Require Import Gen.Generated.
From Coq Require Import ZifyBool Permutation.
Open Scope Z_scope.

(* ================================================================== *)
(* 0. the glue of DrvEnc is the curve distance of CurveDist             *)
(* ================================================================== *)

Lemma conv_pcp_eq p : DrvEnc.conv_pcp p = CurveDist.conv_pcp p.
Proof.
  unfold DrvEnc.conv_pcp, CurveDist.conv_pcp, DrvEnc.conv_pos, CurveDist.conv_pos.
  destruct (cp_type p) as [t|]; [|reflexivity]. cbn [omap].
  unfold DrvEnc.conv_ty, CurveDist.conv_kind, sk_catmull, sk_bspline, sk_linear.
  reflexivity.
Qed.

Lemma dist_real_eq lm mode cps e : DrvEnc.dist_real lm mode cps e = dist_of_curve lm mode cps e.
Proof.
  unfold DrvEnc.dist_real, dist_of_curve, curve_of.
  rewrite (map_ext _ _ conv_pcp_eq). reflexivity.
Qed.

(* ================================================================== *)
(* 1. the image of the decoder: hit objects                            *)
(* ================================================================== *)

(* a decoded slider has at least one control point (the typed point at the origin) *)
Lemma mark_last_nonnil ty seg : seg <> [] -> mark_last ty seg <> [].
Proof. destruct seg as [|a [|b r]]; cbn; congruence. Qed.

Lemma split_dups_nonnil ty : forall rest i prev seg, seg <> [] \/ rest <> [] -> split_dups ty i prev seg rest <> [].
Proof.
  induction rest as [|v rest' IH]; intros i prev seg H; cbn [split_dups].
  - destruct H as [H|H]; [exact H|congruence].
  - destruct (pos_eqb (cp_pos v) (cp_pos prev) && negb (pt_eqb ty pt_catmull && (1 <? i)%nat) && negb (is_nil rest'))%bool eqn:E.
    + intros Habs. apply app_eq_nil in Habs. destruct Habs as (_ & Habs).
      revert Habs. apply IH. right. destruct rest'; [|congruence].
      cbn in E. rewrite andb_false_r in E. discriminate.
    + apply IH. left. destruct seg; cbn; congruence.
Qed.

Lemma seg_spec_nonnil first toks closing offset a : seg_spec first toks closing offset = Some a -> a <> [].
Proof.
  unfold seg_spec. destruct toks as [|letter pts]; [discriminate|].
  destruct (read_all pts offset) as [own|]; [|discriminate].
  destruct (match closing with Some c => _ | None => _ end) as [cl|]; [|discriminate].
  destruct ((if first then [pcp_default] else []) ++ own) as [|v0 rest]; [discriminate|].
  intros [= <-]. apply split_dups_nonnil. left. congruence.
Qed.

Lemma path_segs_nonnil : forall rest first cur offset cps, path_segs first cur rest offset = (cps, true) -> cps <> [].
Proof.
  induction rest as [|t rest' IH]; intros first cur offset cps; cbn [path_segs].
  - destruct (seg_spec first cur None offset) as [a|] eqn:E; [|discriminate].
    intros [= <-]. exact (seg_spec_nonnil _ _ _ _ _ E).
  - destruct t as [|c t']; [discriminate|].
    destruct (is_ascii_alpha c).
    + destruct (seg_spec first cur (fst (next rest')) offset) as [a|] eqn:E; [|discriminate].
      destruct (path_segs false _ rest' offset) as [b ok]. intros H. injection H as Hc Hok. subst cps.
      pose proof (seg_spec_nonnil _ _ _ _ _ E) as Ha. intros Habs. apply app_eq_nil in Habs.
      destruct Habs as (Habs & _). exact (Ha Habs).
    + apply IH.
Qed.

Lemma path_spec_nonnil s offset : snd (path_spec s offset) = true -> fst (path_spec s offset) <> [].
Proof.
  unfold path_spec. destruct (split_on 124 s) as [|t0 rest]; [discriminate|].
  destruct (path_segs true [t0] rest offset) as [cps ok] eqn:E. cbn [fst snd]. intros ->.
  exact (path_segs_nonnil _ _ _ _ _ E).
Qed.

(* what the line parser guarantees of a slider *)
Definition slider_img (s : Slider) : Prop :=
  0 <= sl_repeat_count s < repeat_cap /\ req_ok (sl_expected_dist s) /\ sl_control_points s <> [].

Definition obj_img (h : HitObject) : Prop :=
  match h_kind h with KSlider s => slider_img s | _ => True end.

Lemma accepted_obj_img st line st' :
  parse_hit_objects st line = Done (st', Ok) ->
  exists obj, ho_objects st' = ho_objects st ++ [obj] /\ obj_img obj.
Proof.
  intros H.
  destruct (accepted_line st line st' H) as (f & k & obj & _ & _ & Ho & _ & _ & _ & _ & Hk & _).
  exists obj. split; [exact Ho|]. unfold obj_img.
  destruct (h_kind obj) as [c|s|sp|hd]; try exact I.
  cbn [kind_ok] in Hk.
  destruct Hk as (_ & _ & _ & _ & (raw & _ & Hraw & Hrep) & _ & _ & Hlen & Hcps & Hok).
  split; [unfold repeat_cap in *; lia|]. split.
  - unfold req_ok. destruct (sl_expected_dist s) as [v|]; [|exact I].
    exact (proj2 (Hlen v eq_refl)).
  - rewrite Hcps. exact (path_spec_nonnil _ _ Hok).
Qed.

Lemma parse_hit_objects_img st line st' r :
  parse_hit_objects st line = Done (st', r) ->
  Forall obj_img (ho_objects st) -> Forall obj_img (ho_objects st').
Proof.
  destruct r; intros H Hall.
  - destruct (accepted_obj_img st line st' H) as (obj & -> & Hobj).
    apply Forall_app. split; [exact Hall|]. constructor; [exact Hobj|constructor].
  - destruct (rejected_state st line st' H) as (_ & -> & _). exact Hall.
Qed.

Definition bm_img (ob : outcome BMD) : Prop :=
  match ob with Done s => Forall obj_img (hod_objects (bmd_ho s)) | _ => True end.

Lemma bm_img_step sec os l : bm_img os -> bm_img (fst (parser_of bm_parsers sec os l)).
Proof.
  destruct os as [s|w|]; intros H; [|destruct sec; exact I ..].
  cbn [bm_img] in H.
  destruct sec; open_parsers; unwrap;
    try (match goal with
         | |- context [parse_hit_objects ?a ?b] =>
             let E := fresh "E" in
             destruct (parse_hit_objects a b) as [[c r]| |] eqn:E; cbn [obind fst snd];
             [apply parse_hit_objects_img in E; [|exact H]|exact I|exact I]
         end);
    repeat case_inner; cbn [bm_img]; proj_simpl; try exact I; try exact H.
  exact E.
Qed.

(* ... and after the finishing conversion, with the curve distance *)
Section Finish.
  Variable dist_of : Z -> list PCP -> option F64 -> outcome F64.

  Definition slider_dist_done (s : Slider) : Prop :=
    exists d, dist_of (sl_mode s) (sl_control_points s) (sl_expected_dist s) = Done d.

  Definition obj_fin (h : HitObject) : Prop :=
    match h_kind h with KSlider s => slider_img s /\ slider_dist_done s | _ => True end.

  Lemma force_new_combo_img h f : obj_img h -> obj_img (force_new_combo h f).
  Proof.
    destruct h as [st k sa]. unfold obj_img, force_new_combo. cbn [h_kind h_start h_samples].
    destruct k as [c|s|sp|hd]; cbn [h_kind]; auto.
  Qed.

  Lemma post_process_breaks_img objs : forall bs,
    Forall obj_img objs -> Forall obj_img (post_process_breaks h_start force_new_combo bs objs).
  Proof.
    induction objs as [|h r IH]; intros bs H; cbn [post_process_breaks]; [constructor|].
    inversion H as [|? ? Hh Hr]; subst.
    destruct (skip_breaks bs (h_start h) false) as [bs' f].
    constructor; [apply force_new_combo_img; exact Hh|apply IH; exact Hr].
  Qed.

  Lemma process_object_fin c sm mode h h' :
    process_object dist_of c sm mode h = Done h' -> obj_img h -> obj_fin h'.
  Proof.
    unfold process_object, obj_img, obj_fin.
    destruct (h_kind h) as [ci|s|sp|hd]; cbn [obind].
    - intros [= <-]. cbn. auto.
    - destruct (difficulty_point_at c (h_start h)) as [dp| |]; cbn [obind]; try discriminate.
      unfold slider_duration. cbn [sl_mode sl_control_points sl_expected_dist sl_repeat_count sl_velocity].
      destruct (dist_of (sl_mode s) (sl_control_points s) (sl_expected_dist s)) as [d| |] eqn:Ed;
        cbn [obind]; try discriminate.
      intros [= <-] Hi. cbn [h_kind]. split; [exact Hi|]. exists d. exact Ed.
    - intros [= <-]. cbn. auto.
    - intros [= <-]. cbn. auto.
  Qed.

  Lemma process_objects_fin c sm mode l : forall l',
    process_objects dist_of c sm mode l = Done l' -> Forall obj_img l -> Forall obj_fin l'.
  Proof.
    induction l as [|h r IH]; intros l'; cbn [process_objects].
    - intros [= <-] _. constructor.
    - destruct (process_object dist_of c sm mode h) as [h'| |] eqn:Eh; cbn [obind]; try discriminate.
      destruct (process_objects dist_of c sm mode r) as [r'| |]; cbn [obind]; try discriminate.
      intros [= <-] H. inversion H as [|? ? Hh Hr]; subst.
      constructor; [exact (process_object_fin _ _ _ _ _ Eh Hh)|apply IH; [reflexivity|exact Hr]].
  Qed.

  Lemma finish_hit_objects_fin c bs sm mode objs l :
    finish_hit_objects dist_of c bs sm mode objs = Done l -> Forall obj_img objs -> Forall obj_fin l.
  Proof.
    unfold finish_hit_objects. intros H Hall.
    apply (process_objects_fin _ _ _ _ _ H).
    apply post_process_breaks_img.
    apply Forall_forall. intros x Hx. rewrite Forall_forall in Hall. apply Hall.
    apply (Permutation_in x (ssort_perm start_key objs)). exact Hx.
  Qed.

  Definition bm_ok_img (ob : outcome BMD) : Prop := bm_ok ob /\ bm_img ob.

  (* every decoded Beatmap *)
  Theorem decoded_objects lines bv :
    decode_beatmap dist_of lines = Done bv ->
    cp_sorted (hov_control_points (bmv_ho bv)) /\ Forall obj_fin (hov_hit_objects (bmv_ho bv)).
  Proof.
    revert bv. unfold decode_beatmap.
    apply (driver_invariant _ _ _ bm_ok_img
             (fun v => conj (bm_ok_create v) (Forall_nil obj_img : bm_img (Done (bmd_create v))))
             (fun sec st l H => conj (bm_ok_step sec st l (proj1 H)) (bm_img_step sec st l (proj2 H)))
             (fun ov => forall bv, ov = Done bv ->
                cp_sorted (hov_control_points (bmv_ho bv)) /\ Forall obj_fin (hov_hit_objects (bmv_ho bv)))).
    intros st ((s & -> & Hs) & Hi) bv. cbn [obind]. cbn [bm_img] in Hi. intros Hb.
    destruct (bmd_finish_inv dist_of s bv Hb) as (_ & _ & _ & _ & Hh).
    destruct (hod_finish_inv dist_of _ _ Hh) as (_ & _ & _ & Htp & Hf).
    split.
    - destruct (tp_finish_sorted (tpd_core (hod_tp (bmd_ho s))) Hs) as (c & Ec & Hc).
      rewrite Htp in Ec. inversion Ec; subst. exact Hc.
    - exact (finish_hit_objects_fin _ _ _ _ _ _ Hf Hi).
  Qed.
End Finish.

(* VertexIEEEBase: absolute forward-error tracking for straight-line binary32
   code whose operands are bounded (used by VertexIEEECatmull for C17).

   [nearv c v B d]: the binary32 number c is finite, both c and the real v it
   stands for have magnitude <= B, and |c - v| <= d.

   One rounding of a real x with |x| <= B' <= 2^k (B' a binary32 number, so
   that the rounded value stays <= B') costs at most half an ulp of the binade
   below 2^k, i.e. 2^(k-25) for k >= -125                          [round_near]
   add / sub : d_a + d_b + 2^(k-25)                                [near_add, near_sub]
   mul       : d_a * B_b + B_a * d_b + 2^(k-25)                     [near_mul]
   neg       : exact                                               [near_neg]
   2^j * a   : exact (j >= 0, no overflow)                          [near_mul_pow2]
   0.5 * a   : exact, or (below 2^-125) off by at most 2^-150       [near_half]  *)
From RM Require Import Model.ControlPoints Model.Curve Proofs.EncFloat Proofs.BezierEqualPoints Proofs.BezierIEEEScalar.
From Flocq Require Import Core BinarySingleNaN Mult_error.
From Coq Require Import Reals Lra Lia.
Open Scope R_scope.

Local Notation fin x := (is_finite x = true).
Local Notation fexp32 := (SpecFloat.fexp 24 128).
Local Notation RN := (round radix2 fexp32 (round_mode mode_NE)).
Local Notation bp := (bpow radix2).

Definition nearv (c : F32) (v B d : R) : Prop :=
  fin c /\ Rabs (B2R c) <= B /\ Rabs v <= B /\ Rabs (B2R c - v) <= d.

Lemma nearv_weaken c v B d d' : nearv c v B d -> d <= d' -> nearv c v B d'.
Proof. intros (F & H1 & H2 & H3) H. repeat split; try assumption. lra. Qed.

Lemma nearv_eq c v v' B d : nearv c v B d -> v = v' -> nearv c v' B d.
Proof. intros H <-. exact H. Qed.

Lemma nearv_B_nonneg c v B d : nearv c v B d -> 0 <= B.
Proof. intros (_ & H & _). pose proof (Rabs_pos (B2R c)). lra. Qed.

Lemma nearv_self (c : F32) B : fin c -> Rabs (B2R c) <= B -> nearv c (B2R c) B 0.
Proof.
  intros F H. repeat split; try assumption.
  replace (B2R c - B2R c) with 0 by ring. rewrite Rabs_R0. lra.
Qed.

Lemma nearv_err c v B d : nearv c v B d -> Rabs (B2R c - v) <= d.
Proof. intros (_ & _ & _ & H). exact H. Qed.

(* small multiples of a power of two are binary32 numbers *)
Lemma fmt_mU m e : (Z.abs m < 2 ^ 24)%Z -> (-149 <= e)%Z -> generic_format radix2 fexp32 (IZR m * bp e).
Proof.
  intros Hm He. apply (generic_format_FLT radix2 (3 - 128 - 24) 24).
  apply (FLT_spec radix2 _ _ _ (Float radix2 m e)); cbn [Fnum Fexp].
  - reflexivity.
  - exact Hm.
  - lia.
Qed.

Lemma half_ulp k : (-125 <= k)%Z -> / 2 * bp (fexp32 k) = bp (k - 25).
Proof.
  intros Hk. rewrite fexp32_eq, Z.max_l by lia.
  replace (k - 24)%Z with (k - 25 + 1)%Z by ring. rewrite bpow_plus. cbn. lra.
Qed.

(* one rounding *)
Lemma round_near (c : F32) (x v B' d : R) k :
  fin c -> B2R c = RN x -> Rabs x <= B' -> Rabs v <= B' -> generic_format radix2 fexp32 B' ->
  B' <= bp k -> (-125 <= k)%Z -> Rabs (x - v) <= d ->
  nearv c v B' (d + bp (k - 25)).
Proof.
  intros F Rc Hx Hv FB HB Hk Hd. split; [exact F|]. split; [rewrite Rc; apply RN_le_format; assumption|].
  split; [exact Hv|]. rewrite Rc.
  replace (RN x - v) with ((x - v) + (RN x - x)) by ring.
  eapply Rle_trans; [apply Rabs_triang|]. apply Rplus_le_compat; [exact Hd|].
  rewrite <- half_ulp by exact Hk. apply RN_err; [lia|lra].
Qed.

Lemma near_add a b va vb Ba Bb da db B' k :
  nearv a va Ba da -> nearv b vb Bb db -> Ba + Bb <= B' -> generic_format radix2 fexp32 B' ->
  B' <= bp k -> (-125 <= k <= 127)%Z ->
  nearv (S.add a b) (va + vb) B' (da + db + bp (k - 25)).
Proof.
  intros (Fa & A1 & A2 & A3) (Fb & B1 & B2 & B3) HB FB Hk Hkk.
  assert (Hx : Rabs (B2R a + B2R b) <= B') by (eapply Rle_trans; [apply Rabs_triang|lra]).
  destruct (add_ok a b k Fa Fb ltac:(lia) ltac:(lra)) as [F Rc].
  apply (round_near _ (B2R a + B2R b)); try assumption; try lia.
  - eapply Rle_trans; [apply Rabs_triang|lra].
  - replace (B2R a + B2R b - (va + vb)) with ((B2R a - va) + (B2R b - vb)) by ring.
    eapply Rle_trans; [apply Rabs_triang|lra].
Qed.

Lemma near_sub a b va vb Ba Bb da db B' k :
  nearv a va Ba da -> nearv b vb Bb db -> Ba + Bb <= B' -> generic_format radix2 fexp32 B' ->
  B' <= bp k -> (-125 <= k <= 127)%Z ->
  nearv (S.sub a b) (va - vb) B' (da + db + bp (k - 25)).
Proof.
  intros (Fa & A1 & A2 & A3) (Fb & B1 & B2 & B3) HB FB Hk Hkk.
  assert (Hx : Rabs (B2R a - B2R b) <= B').
  { unfold Rminus. eapply Rle_trans; [apply Rabs_triang|]. rewrite Rabs_Ropp. lra. }
  destruct (sub_ok a b k Fa Fb ltac:(lia) ltac:(lra)) as [F Rc].
  apply (round_near _ (B2R a - B2R b)); try assumption; try lia.
  - unfold Rminus. eapply Rle_trans; [apply Rabs_triang|]. rewrite Rabs_Ropp. lra.
  - replace (B2R a - B2R b - (va - vb)) with ((B2R a - va) + - (B2R b - vb)) by ring.
    eapply Rle_trans; [apply Rabs_triang|]. rewrite Rabs_Ropp. lra.
Qed.

Lemma near_mul a b va vb Ba Bb da db B' k :
  nearv a va Ba da -> nearv b vb Bb db -> Ba * Bb <= B' -> generic_format radix2 fexp32 B' ->
  B' <= bp k -> (-125 <= k <= 127)%Z ->
  nearv (S.mul a b) (va * vb) B' (da * Bb + Ba * db + bp (k - 25)).
Proof.
  intros (Fa & A1 & A2 & A3) (Fb & B1 & B2 & B3) HB FB Hk Hkk.
  assert (Pa := Rabs_pos (B2R a)). assert (Pb := Rabs_pos (B2R b)).
  assert (Pva := Rabs_pos va). assert (Pvb := Rabs_pos vb).
  assert (Hx : Rabs (B2R a * B2R b) <= B').
  { rewrite Rabs_mult. eapply Rle_trans; [|exact HB]. apply Rmult_le_compat; assumption. }
  destruct (mul_ok a b k Fa Fb ltac:(lia) ltac:(lra)) as [F Rc].
  apply (round_near _ (B2R a * B2R b)); try assumption; try lia.
  - rewrite Rabs_mult. eapply Rle_trans; [|exact HB]. apply Rmult_le_compat; assumption.
  - replace (B2R a * B2R b - va * vb) with ((B2R a - va) * B2R b + va * (B2R b - vb)) by ring.
    eapply Rle_trans; [apply Rabs_triang|]. rewrite !Rabs_mult. apply Rplus_le_compat.
    + apply Rmult_le_compat; try apply Rabs_pos; assumption.
    + apply Rmult_le_compat; try apply Rabs_pos; assumption.
Qed.

Lemma near_neg a va Ba da : nearv a va Ba da -> nearv (S.neg a) (- va) Ba da.
Proof.
  intros (Fa & A1 & A2 & A3). unfold S.neg, fneg.
  split; [rewrite is_finite_Bopp; exact Fa|]. rewrite B2R_Bopp, !Rabs_Ropp.
  split; [exact A1|]. split; [exact A2|].
  replace (- B2R a - - va) with (- (B2R a - va)) by ring. rewrite Rabs_Ropp. exact A3.
Qed.

(* multiplication by a literal power of two: exact *)
Lemma near_mul_pow2 (c : F32) j a va Ba da B' k :
  fin c -> B2R c = bp j -> (0 <= j)%Z ->
  nearv a va Ba da -> bp j * Ba <= B' -> B' <= bp k -> (-149 <= k <= 127)%Z ->
  nearv (S.mul c a) (bp j * va) B' (bp j * da).
Proof.
  intros Fc Rc Hj (Fa & A1 & A2 & A3) HB Hk Hkk.
  pose proof (bpow_gt_0 radix2 j) as Pj.
  assert (Hx : Rabs (B2R c * B2R a) <= B').
  { rewrite Rc, Rabs_mult, (Rabs_pos_eq (bp j)) by lra. eapply Rle_trans; [|exact HB].
    apply Rmult_le_compat_l; lra. }
  destruct (mul_ok c a k Fc Fa ltac:(lia) ltac:(lra)) as [F Rm].
  rewrite Rc in Rm.
  rewrite round_generic in Rm.
  2: apply valid_rnd_N.
  2: { rewrite Rmult_comm. apply (mult_bpow_pos_exact_FLT radix2 (3 - 128 - 24) 24); [apply generic_format_B2R|exact Hj]. }
  split; [exact F|]. rewrite Rm.
  split; [rewrite Rabs_mult, (Rabs_pos_eq (bp j)) by lra; eapply Rle_trans; [|exact HB]; apply Rmult_le_compat_l; lra|].
  split; [rewrite Rabs_mult, (Rabs_pos_eq (bp j)) by lra; eapply Rle_trans; [|exact HB]; apply Rmult_le_compat_l; lra|].
  replace (bp j * B2R a - bp j * va) with (bp j * (B2R a - va)) by ring.
  rewrite Rabs_mult, (Rabs_pos_eq (bp j)) by lra. apply Rmult_le_compat_l; lra.
Qed.

(* the literal 0.5 *)
Lemma s_half_sf : B2SF s_half = SpecFloat.S754_finite false 8388608 (-24).
Proof. vm_compute. reflexivity. Qed.
Lemma s_half_R : B2R s_half = / 2.
Proof. rewrite <- SF2R_B2SF, s_half_sf. unfold SF2R, F2R. cbn. lra. Qed.
Lemma s_half_fin : fin s_half.
Proof. rewrite <- is_finite_SF_B2SF, s_half_sf. reflexivity. Qed.

(* 0.5 * a: exact unless the result is subnormal *)
Lemma near_half a va Ba da B' k :
  nearv a va Ba da -> Ba / 2 <= B' -> generic_format radix2 fexp32 B' -> B' <= bp k -> (-149 <= k <= 127)%Z ->
  nearv (S.mul s_half a) (/ 2 * va) B' (da / 2 + bp (-150)).
Proof.
  intros (Fa & A1 & A2 & A3) HB FB Hk Hkk.
  assert (Hx : Rabs (B2R s_half * B2R a) <= B').
  { rewrite s_half_R, Rabs_mult, (Rabs_pos_eq (/ 2)) by lra. lra. }
  destruct (mul_ok s_half a k s_half_fin Fa ltac:(lia) ltac:(lra)) as [F Rm].
  rewrite s_half_R in Rm, Hx.
  replace (/ 2 * B2R a) with (B2R a / 2) in Rm, Hx by (unfold Rdiv; ring).
  split; [exact F|]. split; [rewrite Rm; apply RN_le_format; assumption|].
  split; [rewrite Rabs_mult, (Rabs_pos_eq (/ 2)) by lra; lra|].
  rewrite Rm.
  replace (RN (B2R a / 2) - / 2 * va) with ((B2R a - va) / 2 + (RN (B2R a / 2) - B2R a / 2)) by field.
  eapply Rle_trans; [apply Rabs_triang|]. apply Rplus_le_compat; [|apply half_err].
  unfold Rdiv. rewrite Rabs_mult, (Rabs_pos_eq (/ 2)) by lra. lra.
Qed.

(* EncSlider: T04b for slider lines -- the whole line the encoder writes for a
   slider (position, time, type byte, hit sound, path, span count, length, edge
   sounds, edge sets, extras) is accepted by parse_hit_objects in every parser
   state and adds a slider with the same start time, position, control points,
   repeat count and node count.  Outside D21 ([len_ok]) and the classes of the
   path-string round trip (Proofs/EncPathRT.v). *)
From RM Require Import Model.EncPathSpec Model.HitObjectSpec Proofs.EncText Proofs.EncFmt Proofs.EncFloat
     Proofs.EncSimple Proofs.EncObjects Proofs.FramingFacts Proofs.NumFacts Proofs.PathStringFacts
     Proofs.EncPathEnc Proofs.EncPathDec Proofs.EncPathRT Proofs.FloatCmp.
From RM Require Import Gen.Generated.
From Flocq Require Import BinarySingleNaN.
From Coq Require Import ZifyBool.
Open Scope Z_scope.

(* ---------- lists of the decoder's slider arm ---------- *)

Lemma replicate_length {A} n (x : A) : length (replicate n x) = n.
Proof. induction n; cbn; congruence. Qed.

Lemma zip_sounds_length : forall sounds toks, length (zip_sounds sounds toks) = length sounds.
Proof.
  induction sounds as [|s r IH]; intros [|t tr]; cbn [zip_sounds length]; try reflexivity.
  rewrite IH. reflexivity.
Qed.

Lemma zip_banks_ok : forall infos sets,
  Forall (fun s => forall b, exists b', read_custom_sample_banks b (split_on 58 s) false = Some b') sets ->
  exists r, zip_banks infos sets = Some r /\ length r = length infos.
Proof.
  induction infos as [|b br IH]; intros sets H.
  - exists []. destruct sets; split; reflexivity.
  - destruct sets as [|s sr]; [exists (b :: br); split; reflexivity|].
    inversion H as [|? ? Hs Hr]; subst. destruct (Hs b) as [b' Eb]. destruct (IH sr Hr) as (r & Er & Lr).
    exists (b' :: r). cbn [zip_banks]. rewrite Eb, Er. cbn [omap length]. split; [reflexivity|congruence].
Qed.

Lemma zip_convert_length : forall infos sounds, length infos = length sounds ->
  length (zip_convert infos sounds) = length infos.
Proof.
  induction infos as [|b br IH]; intros [|s sr] H; cbn [zip_convert length] in *; try reflexivity; try discriminate.
  rewrite IH by congruence. reflexivity.
Qed.

Section Slider.
  Variables (fmt_f64 : F64 -> str) (fmt_f32 : F32 -> str) (fmt_int : Z -> str).
  Hypothesis Hfmt : fmt_ok fmt_f64 fmt_f32 fmt_int.
  Hypothesis H32 : fmt_f32_int fmt_f32 fmt_int.
  Notation rline := (render fmt_f64 fmt_f32 fmt_int).
  Notation ehead := (extras_head fmt_int).

  Lemma rl_app a b : rline (a ++ b) = rline a ++ rline b.
  Proof. unfold render. apply flat_map_app. Qed.

  (* ---------- edge sounds and edge sets ---------- *)

  Fixpoint sound_strs (n i : nat) (nodes : list (list HitSampleInfo)) : list str :=
    match n with
    | O => []
    | S k => fmt_int (match nth_error nodes i with Some l => sound_type_of l | None => 0 end)
             :: sound_strs k (S i) nodes
    end.

  Lemma render_node_sounds : forall n i nodes,
    rline (node_sound_toks n i nodes) = sepcat (sound_strs n i nodes).
  Proof.
    induction n as [|k IH]; intros i nodes; [reflexivity|].
    cbn [node_sound_toks sound_strs]. rewrite rl_app, IH.
    destruct k as [|k'].
    - cbn. rewrite ?app_nil_r. reflexivity.
    - rewrite sepcat_cons by discriminate. unfold render. cbn [flat_map render_tok t_pipe app].
      rewrite ?app_nil_r, <- ?app_assoc. reflexivity.
  Qed.

  Definition bank_piece (o : option (list HitSampleInfo)) : str :=
    match o with
    | Some l => fmt_int (bank_of_first is_hit_normal l) ++ colon :: fmt_int (bank_of_first is_addition l)
    | None => lit "0:0"
    end.

  Fixpoint bank_strs (n i : nat) (nodes : list (list HitSampleInfo)) : list str :=
    match n with
    | O => []
    | S k => bank_piece (nth_error nodes i) :: bank_strs k (S i) nodes
    end.

  Lemma render_node_banks mode : forall n i nodes,
    rline (node_bank_toks n i nodes mode) = sepcat (bank_strs n i nodes).
  Proof.
    induction n as [|k IH]; intros i nodes; [reflexivity|].
    cbn [node_bank_toks bank_strs]. rewrite !rl_app, IH.
    assert (Hp : rline (match nth_error nodes i with
                        | Some l => sample_bank_toks l true mode
                        | None => [TStr (lit "0:0")] end) = bank_piece (nth_error nodes i)).
    { destruct (nth_error nodes i) as [l|]; cbn [bank_piece].
      - unfold sample_bank_toks. cbn. rewrite ?app_nil_r. unfold colon. rewrite <- ?app_assoc. reflexivity.
      - cbn. reflexivity. }
    match goal with |- ?A ++ _ = _ => replace A with (bank_piece (nth_error nodes i)) by (symmetry; exact Hp) end.
    destruct k as [|k'].
    - cbn. rewrite ?app_nil_r. reflexivity.
    - rewrite sepcat_cons by discriminate. unfold render. cbn [flat_map render_tok t_pipe app].
      rewrite ?app_nil_r, <- ?app_assoc. reflexivity.
  Qed.

  Lemma bank_of_first_ok p l : forallb sample_ok l = true -> enum4_ok (bank_of_first p l) = true.
  Proof.
    intros H. unfold bank_of_first. destruct (find p l) as [s|] eqn:E; [|reflexivity].
    apply find_some in E. rewrite forallb_forall in H. specialize (H s (proj1 E)).
    unfold sample_ok in H. apply andb_prop_l in H. apply andb_prop_r in H. exact H.
  Qed.

  Lemma enum4_i32 n : enum4_ok n = true -> i32_ok n = true.
  Proof. unfold enum4_ok, i32_ok, max_parse_value. lia. Qed.

  (* "nb:ab" is read by SampleBankInfo::read with every default *)
  Lemma read_two nb ab : i32_ok nb = true -> i32_ok ab = true ->
    forall b bo, exists b', read_custom_sample_banks b (split_on 58 (fmt_int nb ++ colon :: fmt_int ab)) bo = Some b'.
  Proof.
    intros Hn Ha b bo. change 58 with colon.
    rewrite (split_on_field colon) by (apply (int_no _ _ _ Hfmt); reflexivity).
    rewrite (split_on_no_sep colon) by (apply memb_false_In, (int_no _ _ _ Hfmt); reflexivity).
    cbn [read_custom_sample_banks].
    destruct (fmt_int nb) as [|x0 r0] eqn:E0; [exfalso; exact (int_nonempty' _ _ _ Hfmt nb E0)|]. rewrite <- E0.
    rewrite (pn_i32_fmt _ _ _ Hfmt nb Hn), (pn_i32_fmt _ _ _ Hfmt ab Ha).
    destruct bo; cbn [next]; eexists; reflexivity.
  Qed.

  Lemma bank_piece_read nodes i : forallb (forallb sample_ok) nodes = true ->
    forall b, exists b', read_custom_sample_banks b (split_on 58 (bank_piece (nth_error nodes i))) false = Some b'.
  Proof.
    intros H b. destruct (nth_error nodes i) as [l|] eqn:E; cbn [bank_piece].
    - apply nth_error_In in E. rewrite forallb_forall in H. specialize (H l E).
      apply read_two; apply enum4_i32, bank_of_first_ok; exact H.
    - pose proof (read_two 0 0 eq_refl eq_refl b false) as X.
      rewrite (int_digit _ _ _ Hfmt 0) in X by lia. exact X.
  Qed.

  Lemma bank_strs_read nodes : forallb (forallb sample_ok) nodes = true -> forall n i,
    Forall (fun s => forall b, exists b', read_custom_sample_banks b (split_on 58 s) false = Some b')
           (bank_strs n i nodes).
  Proof.
    intros H. induction n as [|k IH]; intros i; [constructor|].
    cbn [bank_strs]. constructor; [apply bank_piece_read; exact H|apply IH].
  Qed.

  Lemma bank_piece_chars o : forallb safec (bank_piece o) = true /\ memb 124 (bank_piece o) = false /\
                             memb comma (bank_piece o) = false.
  Proof.
    destruct o as [l|]; cbn [bank_piece].
    - rewrite forallb_app. cbn [forallb]. rewrite !(int_safe _ _ _ Hfmt).
      rewrite !memb_app, !memb_cons, !(int_no _ _ _ Hfmt 124), !(int_no _ _ _ Hfmt comma) by reflexivity.
      repeat split; reflexivity.
    - repeat split; reflexivity.
  Qed.

  Lemma bank_piece_nonempty o : bank_piece o <> [].
  Proof.
    destruct o as [l|]; cbn [bank_piece]; [|discriminate].
    destruct (fmt_int (bank_of_first is_hit_normal l)) eqn:E0; [exfalso; exact (int_nonempty' _ _ _ Hfmt _ E0)|discriminate].
  Qed.

  Lemma bank_strs_chars nodes : forall n i,
    Forall (fun s => forallb safec s = true) (bank_strs n i nodes) /\
    Forall (fun s => memb 124 s = false /\ memb comma s = false) (bank_strs n i nodes).
  Proof.
    induction n as [|k IH]; intros i; [split; constructor|].
    destruct (IH (S i)) as [A B]. destruct (bank_piece_chars (nth_error nodes i)) as (C & D & E).
    cbn [bank_strs]. split; constructor; auto.
  Qed.

  Lemma sound_strs_chars nodes : forall n i,
    Forall (fun s => forallb safec s = true) (sound_strs n i nodes) /\
    Forall (fun s => memb 124 s = false /\ memb comma s = false) (sound_strs n i nodes).
  Proof.
    induction n as [|k IH]; intros i; [split; constructor|].
    destruct (IH (S i)) as [A B]. cbn [sound_strs]. split; constructor; auto.
    - apply (int_safe _ _ _ Hfmt).
    - split; apply (int_no _ _ _ Hfmt); reflexivity.
  Qed.

  Lemma sepcat_safe' : forall strs, Forall (fun x => forallb safec x = true) strs ->
    forallb safec (sepcat strs) = true.
  Proof.
    induction strs as [|a r IH]; intros H; [reflexivity|].
    inversion H as [|? ? Ha Hr]; subst. cbn [sepcat]. destruct r as [|b r'].
    - rewrite forallb_app, Ha. reflexivity.
    - rewrite forallb_app, Ha. cbn [forallb andb]. rewrite (IH Hr). reflexivity.
  Qed.

  (* ---------- the length field ---------- *)

  Lemma len_ok_finite d : len_ok d = true -> is_finite d = true.
  Proof.
    unfold len_ok. intros H. apply andb_true_iff in H. destruct H as [H H2].
    apply andb_true_iff in H. destruct H as [_ H1].
    apply (fle_finite_between 53 1024 (D.neg coord_lim64) d coord_lim64); auto;
      try exact coord_lim64_finite;
      try (unfold D.neg, fneg; rewrite is_finite_Bopp; exact coord_lim64_finite).
  Qed.

  Lemma len_field d : len_ok d = true -> pn_f64_lim coord_lim64 (fmt_f64 d) = Some d.
  Proof.
    intros H. pose proof (len_ok_finite d H) as Hf.
    unfold len_ok in H. apply andb_true_iff in H. destruct H as [H H2].
    apply andb_true_iff in H. destruct H as [H0 H1]. apply negb_true_iff in H0.
    rewrite pn_f64_lim_eq. apply pn_lim_spec.
    - pose proof coord_lim64_finite as F. destruct coord_lim64; try discriminate; reflexivity.
    - rewrite (plain_trim _ (f64_chars _ _ _ Hfmt d)).
      repeat split; auto. exact (f64_parse _ _ _ Hfmt d Hf).
  Qed.

  (* ---------- the line ---------- *)

  Theorem slider_line_accepted dist mode h s d l :
    h_kind h = KSlider s -> written_len dist s = Done d -> slider_ok h s d = true ->
    object_line dist mode h = Done l ->
    forall st, exists st' o s',
      parse_hit_objects st (rline l) = Done (st', Ok) /\
      ho_objects st' = ho_objects st ++ [o] /\
      h_start o = h_start h /\ h_kind o = KSlider s' /\
      sl_pos s' = sl_pos s /\
      sl_control_points s' = sl_control_points s /\
      sl_repeat_count s' = sl_repeat_count s /\
      length (sl_node_samples s') = Z.to_nat (sl_repeat_count s + 2).
  Proof.
    intros Hk Hd Hok Hl st. unfold slider_ok in Hok.
    repeat match type of Hok with _ && _ = true =>
      let X := fresh "X" in apply andb_true_iff in Hok; destruct Hok as [Hok X] end.
    rename Hok into Ht. rename X11 into Hs. rename X10 into Cx. rename X9 into Cy. rename X8 into O1.
    rename X7 into O2. rename X6 into R1. rename X5 into R2. rename X4 into Hnodes. rename X3 into Him.
    rename X2 into N13. rename X1 into N17. rename X0 into Ncc. rename X into Hlen.
    apply negb_true_iff in N13. apply negb_true_iff in N17. apply negb_true_iff in Ncc.
    set (rc := sl_repeat_count s) in *.
    assert (Hrc : 0 <= rc < 9000) by (clear - R1 R2; unfold repeat_cap in R2; lia).
    assert (Hoff : 0 <= sl_combo_offset s <= 7) by (clear - O1 O2; lia).
    (* the tokens *)
    unfold object_line in Hl. rewrite Hk in Hl. unfold object_pos in Hl. rewrite Hk in Hl.
    unfold slider_toks in Hl. unfold written_len in Hd. rewrite Hd in Hl. cbn [obind] in Hl.
    unfold span_iters in Hl. fold rc in Hl. replace (rc + 1 <? 0) with false in Hl by (clear - Hrc; lia).
    remember (S (Z.to_nat (rc + 1))) as n eqn:En.
    cbn [obind] in Hl. injection Hl as <-.
    set (nodes := sl_node_samples s) in *.
    (* the pieces as text *)
    destruct (path_round_trip fmt_f64 fmt_f32 fmt_int Hfmt H32 (sl_pos s) (sl_control_points s) Him N13 N17 Ncc)
      as (ps & Eps & Pcomma & Psafe & _ & Pconv).
    destruct (sound_strs_chars nodes n 0) as [SA SB]. destruct (bank_strs_chars nodes n 0) as [BA BB].
    destruct (sepcat_split (sound_strs n 0 nodes) ltac:(rewrite En; discriminate) SB) as (ss & Ess & Scomma & Ssplit).
    destruct (sepcat_split (bank_strs n 0 nodes) ltac:(rewrite En; discriminate) BB) as (bs & Ebs & Bcomma & Bsplit).
    assert (Ssafe : forallb safec ss = true).
    { pose proof (sepcat_safe' _ SA) as X. rewrite Ess, forallb_app in X. exact (andb_prop_l _ _ X). }
    assert (Bsafe : forallb safec bs = true).
    { pose proof (sepcat_safe' _ BA) as X. rewrite Ebs, forallb_app in X. exact (andb_prop_l _ _ X). }
    pose proof (extras_vals_ok (h_samples h) mode Hs) as EV.
    pose proof (render_extras fmt_f64 fmt_f32 fmt_int (h_samples h) mode) as RE.
    destruct (extras_vals (h_samples h) mode) as [[[[nb ab] cu] vo] f].
    destruct EV as (E1 & E2 & E3 & E4 & E5 & E6 & E7 & E8).
    set (K := object_type h). set (S0 := sound_type_of (h_samples h)).
    set (Rs := ps ++ comma :: fmt_int (rc + 1) ++ comma :: fmt_f64 d ++ comma :: ss ++ comma :: bs ++
               comma :: ehead nb ab cu vo).
    assert (EL : rline ([TF32 (px (sl_pos s)); t_comma; TF32 (py (sl_pos s)); t_comma; TF64 (h_start h); t_comma;
                         TInt K; t_comma; TInt S0; t_comma] ++
                        (path_toks (sl_pos s) (sl_control_points s) ++
                         [TInt (rc + 1); t_comma; TF64 d; t_comma] ++
                         node_sound_toks n 0 nodes ++ node_bank_toks n 0 nodes mode) ++
                        sample_bank_toks (h_samples h) false mode)
                 = head_text fmt_f64 fmt_f32 fmt_int (px (sl_pos s)) (py (sl_pos s)) (h_start h) K S0 ++ Rs ++ f).
    { rewrite !rl_app, RE, Eps, render_node_sounds, Ess, (render_node_banks mode), Ebs.
      unfold Rs, head_text, render. cbn [flat_map render_tok t_comma]. rewrite !app_nil_r. unfold comma.
      repeat (progress (rewrite <- ?app_assoc; cbn [app])). reflexivity. }
    cbn [app] in EL |- *. rewrite EL. clear EL RE.
    (* the type byte *)
    assert (HK : i32_min <= K <= i32_max /\
                 let t2 := Z.land (Z.land K (Z.lnot hot_combo_offset)) (Z.lnot hot_new_combo) in
                 has_flag t2 hot_circle = false /\ has_flag t2 hot_slider = true).
    { unfold K, object_type. rewrite Hk.
      destruct (offset_cases (sl_combo_offset s) Hoff) as [E|[E|[E|[E|[E|[E|[E|E]]]]]]];
        rewrite E; destruct (sl_new_combo s); vm_compute; (split; [split; discriminate|split; reflexivity]). }
    destruct HK as [HK [F1 F2]].
    assert (Rsafe : forallb safec Rs = true).
    { unfold Rs. repeat (rewrite forallb_app || cbn [forallb]).
      rewrite Psafe, Ssafe, Bsafe, (int_safe _ _ _ Hfmt), (f64_safe _ _ _ Hfmt), (extras_head_safe _ _ _ Hfmt).
      reflexivity. }
    unfold parse_hit_objects.
    rewrite (parse_header_line fmt_f64 fmt_f32 fmt_int Hfmt _ _ _ K S0 _ f Cx Cy Ht HK (sound_type_range _) Rsafe E7 E8).
    unfold parse_kind. cbn [hd_type hd_rest hd_pos hd_new_combo hd_combo_offset hd_sound hd_start].
    rewrite F1, F2.
    (* the fields *)
    unfold Rs. repeat (progress (rewrite <- ?app_assoc; cbn [app])).
    rewrite (split_on_field comma ps) by exact Pcomma.
    rewrite (split_on_field comma (fmt_int (rc + 1))) by (apply (int_no _ _ _ Hfmt); reflexivity).
    rewrite (split_on_field comma (fmt_f64 d)) by (apply (f64_no _ _ _ Hfmt); reflexivity).
    rewrite (split_on_field comma ss) by exact Scomma.
    rewrite (split_on_field comma bs) by exact Bcomma.
    rewrite split_no_comma by (rewrite memb_app, (extras_head_no_comma _ _ _ Hfmt), E6; reflexivity).
    (* parse_slider_pre *)
    unfold parse_slider_pre.
    rewrite (pn_i32_fmt _ _ _ Hfmt (rc + 1)) by (clear - Hrc; unfold i32_ok, max_parse_value; lia).
    replace (repeat_cap <? rc + 1) with false by (clear - Hrc; unfold repeat_cap; lia).
    replace (rc + 1 - 1 <? i32_min) with false by (clear - Hrc; unfold i32_min; lia).
    replace (Z.max 0 (rc + 1 - 1)) with rc by (clear - Hrc; lia).
    cbn [next]. rewrite (len_field d Hlen).
    assert (Hbank : exists b, read_custom_sample_banks sbi_default
                                (split_on 58 (ehead nb ab cu vo ++ f)) true = Some b).
    { change 58 with colon. rewrite (split_extras _ _ _ Hfmt nb ab cu vo f E5).
      cbn [read_custom_sample_banks].
      destruct (fmt_int nb) as [|x0 r0] eqn:E0; [exfalso; exact (int_nonempty' _ _ _ Hfmt nb E0)|]. rewrite <- E0.
      rewrite (pn_i32_fmt _ _ _ Hfmt nb (enum4_i32 _ E1)), (pn_i32_fmt _ _ _ Hfmt ab (enum4_i32 _ E2)).
      eexists. reflexivity. }
    destruct Hbank as [bank Ebank]. rewrite Ebank.
    replace (rc <? 0) with false by (clear - Hrc; lia).
    set (cnt := Z.to_nat (rc + 2)).
    assert (NE : forall x : str, x <> [] -> nonempty (Some x) = Some x) by (intros [|? ?] ?; [congruence|reflexivity]).
    assert (NEs : ss <> []).
    { intros E. rewrite E in Ssplit.
      cbn [split_on] in Ssplit. rewrite En in Ssplit. cbn [sound_strs] in Ssplit. injection Ssplit as X _.
      exact (int_nonempty' _ _ _ Hfmt _ (eq_sym X)). }
    assert (NEb : bs <> []).
    { intros E. rewrite E in Bsplit.
      cbn [split_on] in Bsplit. rewrite En in Bsplit. cbn [bank_strs] in Bsplit. injection Bsplit as X _.
      exact (bank_piece_nonempty _ (eq_sym X)). }
    rewrite (NE ss NEs), (NE bs NEb), Bsplit.
    destruct (zip_banks_ok (replicate cnt bank) (bank_strs n 0 nodes) (bank_strs_read nodes Hnodes n 0))
      as (infos & Einfos & Linfos).
    rewrite Einfos.
    (* the path *)
    destruct (Pconv (ho_vertices st)) as [vs' Econv].
    cbn [spre_point_str]. replace (mkPos (px (sl_pos s)) (py (sl_pos s))) with (sl_pos s) by (destruct (sl_pos s); reflexivity).
    rewrite Econv.
    eexists. eexists. eexists. split; [reflexivity|]. cbn [ho_objects set_bufs].
    split; [reflexivity|]. cbn [h_start h_kind sl_pos sl_control_points sl_repeat_count sl_node_samples
                                 spre_repeat spre_nodes pb_curve].
    repeat split; try reflexivity.
    cbn [sl_node_samples spre_nodes].
    rewrite zip_convert_length; rewrite ?zip_sounds_length, ?replicate_length, ?Linfos, ?replicate_length; reflexivity.
  Qed.
End Slider.

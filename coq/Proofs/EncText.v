(* EncText: text lemmas for the encoder theorems (C04 / C03 / C02): trimming,
   comment stripping and record cutting on lines of the shape the encoder
   writes. *)
From RM Require Import Model.Render Proofs.FramingFacts.
From Coq Require Import ZifyBool.
Open Scope Z_scope.

(* ---------- trimming ---------- *)

Lemma trim_start_first s : first_ws s = false -> trim_start s = s.
Proof. destruct s as [|c r]; cbn; [reflexivity|]. intros ->. reflexivity. Qed.

Lemma trim_end_last s : last_ws s = false -> trim_end s = s.
Proof.
  unfold last_ws, trim_end. intros H. rewrite (trim_start_first _ H). apply rev_involutive.
Qed.

Lemma trim_tidy s : tidyb s = true -> trim s = s.
Proof.
  unfold tidyb. intros H. apply andb_true_iff in H. destruct H as [H1 H2].
  apply negb_true_iff in H1. apply negb_true_iff in H2.
  unfold trim. rewrite (trim_start_first _ H1). apply trim_end_last. exact H2.
Qed.

Lemma first_ws_trim_start s : first_ws (trim_start s) = false.
Proof.
  induction s as [|c r IH]; [reflexivity|]. cbn [trim_start].
  destruct (is_ws c) eqn:E; [exact IH|]. cbn. exact E.
Qed.

Lemma last_ws_trim_end s : last_ws (trim_end s) = false.
Proof. unfold last_ws, trim_end. rewrite rev_involutive. apply first_ws_trim_start. Qed.

(* trim_start only removes from the front *)
Lemma trim_start_suffix s : exists w, s = w ++ trim_start s.
Proof.
  induction s as [|c r [w IH]]; [exists []; reflexivity|]. cbn [trim_start].
  destruct (is_ws c); [exists (c :: w); cbn; f_equal; exact IH | exists []; reflexivity].
Qed.

Lemma trim_end_prefix s : exists w, s = trim_end s ++ w.
Proof.
  unfold trim_end. destruct (trim_start_suffix (rev s)) as [w H].
  exists (rev w). rewrite <- rev_app_distr, <- H. symmetry. apply rev_involutive.
Qed.

Lemma first_ws_trim_end s : first_ws s = false -> first_ws (trim_end s) = false.
Proof.
  intros H. destruct (trim_end_prefix s) as [w E].
  destruct (trim_end s) as [|c r] eqn:T; [reflexivity|].
  rewrite E in H. exact H.
Qed.

Lemma tidy_trim s : tidyb (trim s) = true.
Proof.
  unfold tidyb, trim. rewrite last_ws_trim_end.
  rewrite first_ws_trim_end; [reflexivity | apply first_ws_trim_start].
Qed.

Lemma trim_idem s : trim (trim s) = trim s.
Proof. apply trim_tidy, tidy_trim. Qed.

Lemma tidy_nil : tidyb [] = true. Proof. reflexivity. Qed.

(* ---------- last character of an append ---------- *)

Lemma last_ws_app a b : b <> [] -> last_ws (a ++ b) = last_ws b.
Proof.
  intros Hb. unfold last_ws. rewrite rev_app_distr.
  destruct (rev b) as [|c r] eqn:E; [|reflexivity].
  exfalso. apply Hb. rewrite <- (rev_involutive b), E. reflexivity.
Qed.

Lemma last_ws_app_nil a : last_ws (a ++ []) = last_ws a.
Proof. rewrite app_nil_r. reflexivity. Qed.

Lemma first_ws_app a b : a <> [] -> first_ws (a ++ b) = first_ws a.
Proof. destruct a; [congruence|reflexivity]. Qed.

(* ---------- "//" ---------- *)

Lemma starts_with_slashes c r : starts_with slashes (c :: r) = (c =? slash) && first_is slash r.
Proof.
  unfold starts_with, slashes, slash. cbn [strip_prefix].
  rewrite (Z.eqb_sym 47 c). destruct (c =? 47); [|reflexivity].
  destruct r as [|d r']; [reflexivity|]. cbn [strip_prefix first_is andb].
  rewrite (Z.eqb_sym 47 d). destruct (d =? 47); reflexivity.
Qed.

Lemma has_ss_before s : has_ss s = false -> before_first slashes s = None.
Proof.
  induction s as [|c r IH]; intros H; [reflexivity|].
  cbn [has_ss] in H. apply orb_false_iff in H. destruct H as [H1 H2].
  cbn [before_first]. rewrite starts_with_slashes, H1, (IH H2). reflexivity.
Qed.

Lemma trim_comment_clean s : has_ss s = false -> last_ws s = false -> trim_comment s = s.
Proof.
  intros H1 H2. unfold trim_comment. rewrite (has_ss_before _ H1). cbn [odflt]. apply trim_end_last. exact H2.
Qed.

Lemma has_ss_app a b :
  has_ss a = false -> has_ss b = false -> (first_is slash (rev a) && first_is slash b) = false ->
  has_ss (a ++ b) = false.
Proof.
  induction a as [|c r IH]; intros Ha Hb Hj; [exact Hb|].
  cbn [has_ss] in Ha. apply orb_false_iff in Ha. destruct Ha as [Ha1 Ha2].
  cbn [app has_ss]. apply orb_false_iff. split.
  - destruct r as [|d r'].
    + cbn [app]. cbn [rev app first_is] in Hj. exact Hj.
    + cbn [app first_is]. exact Ha1.
  - apply IH; [exact Ha2|exact Hb|].
    destruct r as [|d r']; [reflexivity|].
    cbn [rev] in Hj. cbn [rev].
    destruct (rev r' ++ [d]) as [|x y] eqn:E.
    { destruct (rev r'); discriminate. }
    cbn [app first_is] in Hj. exact Hj.
Qed.

Lemma has_ss_no_slash s : memb slash s = false -> has_ss s = false.
Proof.
  induction s as [|c r IH]; [reflexivity|]. cbn [memb existsb]. intros H.
  apply orb_false_iff in H. destruct H as [H1 H2]. cbn [has_ss].
  rewrite Z.eqb_sym, H1. cbn [andb orb]. apply IH. exact H2.
Qed.

(* a middle piece without '/' keeps two "//"-free strings apart *)
Lemma has_ss_join a m b :
  has_ss a = false -> has_ss b = false -> m <> [] -> memb slash m = false ->
  has_ss (a ++ m ++ b) = false.
Proof.
  intros Ha Hb Hm Hs.
  assert (Hf : first_is slash m = false).
  { destruct m as [|c r]; [congruence|]. cbn [memb existsb] in Hs. apply orb_false_iff in Hs.
    cbn [first_is]. rewrite Z.eqb_sym. exact (proj1 Hs). }
  assert (Hl : first_is slash (rev m) = false).
  { destruct (rev m) as [|c r] eqn:E; [reflexivity|]. cbn [first_is].
    assert (In c m) by (apply in_rev; rewrite E; left; reflexivity).
    unfold memb in Hs. destruct (c =? slash) eqn:Ec; [|reflexivity].
    assert (existsb (Z.eqb slash) m = true) by (apply existsb_exists; exists c; split; [assumption|lia]).
    congruence. }
  assert (Hfa : first_is slash (m ++ b) = false).
  { destruct m as [|c r]; [congruence|exact Hf]. }
  apply has_ss_app; [exact Ha| |rewrite Hfa; apply andb_false_r].
  apply has_ss_app; [apply has_ss_no_slash; exact Hs|exact Hb|rewrite Hl; reflexivity].
Qed.

(* ---------- cutting at the first colon ---------- *)

Lemma split_once_app d k r : memb d k = false -> split_once d (k ++ d :: r) = Some (k, r).
Proof.
  induction k as [|c k' IH]; intros H.
  - cbn [app split_once]. rewrite Z.eqb_refl. reflexivity.
  - cbn [memb existsb] in H. apply orb_false_iff in H. destruct H as [H1 H2].
    cbn [app split_once]. rewrite Z.eqb_sym, H1. rewrite (IH H2). reflexivity.
Qed.

Lemma split_once_none d s : memb d s = false -> split_once d s = None.
Proof.
  induction s as [|c r IH]; [reflexivity|]. cbn [memb existsb]. intros H.
  apply orb_false_iff in H. destruct H as [H1 H2]. cbn [split_once].
  rewrite Z.eqb_sym, H1, (IH H2). reflexivity.
Qed.

(* "Key: value" is cut into (Key, value) *)
Lemma kv_pieces_line k v :
  memb colon k = false -> tidyb k = true -> tidyb v = true ->
  kv_pieces (k ++ colon_space ++ v) = (k, v).
Proof.
  intros Hc Hk Hv. unfold kv_pieces, colon_space. cbn [app].
  change (k ++ 58 :: 32 :: v) with (k ++ colon :: 32 :: v).
  rewrite (split_once_app colon k (32 :: v) Hc). cbn [odflt].
  rewrite (trim_tidy k Hk). f_equal.
  unfold trim. cbn [trim_start]. change (is_ws 32) with true. cbv iota.
  fold (trim v). apply trim_tidy. exact Hv.
Qed.

(* membership helpers *)
Lemma memb_false_In c s : memb c s = false -> ~ In c s.
Proof.
  unfold memb. intros H Hin.
  assert (existsb (Z.eqb c) s = true) by (apply existsb_exists; exists c; split; [exact Hin|apply Z.eqb_refl]).
  congruence.
Qed.

Lemma memb_app c a b : memb c (a ++ b) = memb c a || memb c b.
Proof. unfold memb. apply existsb_app. Qed.

Lemma forallb_memb (p : char -> bool) c s : forallb p s = true -> p c = false -> memb c s = false.
Proof.
  intros H Hc. unfold memb. destruct (existsb (Z.eqb c) s) eqn:E; [|reflexivity].
  apply existsb_exists in E. destruct E as (x & Hin & Hx). assert (x = c) by lia. subst x.
  rewrite forallb_forall in H. rewrite (H c Hin) in Hc. discriminate.
Qed.

Lemma strip_prefix_app_gen p x : strip_prefix p (p ++ x) = Some x.
Proof. induction p as [|c p IH]; [reflexivity|]. cbn [app strip_prefix]. rewrite Z.eqb_refl. exact IH. Qed.

Lemma andb_prop_l a b : a && b = true -> a = true. Proof. intros H. apply andb_true_iff in H. tauto. Qed.
Lemma andb_prop_r a b : a && b = true -> b = true. Proof. intros H. apply andb_true_iff in H. tauto. Qed.

Lemma split_once_none_memb d s : split_once d s = None -> memb d s = false.
Proof.
  induction s as [|c r IH]; [reflexivity|]. cbn [split_once]. destruct (c =? d) eqn:E; [discriminate|].
  destruct (split_once d r) as [[a b]|]; [discriminate|]. intros _. cbn [memb existsb].
  rewrite Z.eqb_sym, E. apply IH. reflexivity.
Qed.

Lemma str_eqb_comm a : forall b, str_eqb a b = str_eqb b a.
Proof.
  induction a as [|x a IH]; intros [|y b]; try reflexivity.
  cbn [str_eqb]. rewrite Z.eqb_sym, IH. reflexivity.
Qed.

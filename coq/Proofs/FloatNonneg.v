(* FloatNonneg: "not negative" for IEEE values, closed under the operations
   that build a cumulative curve length.

   [nnb x] holds for NaN, both zeros, every positive finite value and +inf,
   i.e. exactly when [x < 0.0] is false.  It is the class of values on which
   `f64::clamp(0.0, MAX_LEN.min(x))` does not panic (C20_new_panics_iff).
   Generic in the format; instantiated for binary32 / binary64 at the end. *)
From Flocq Require Import Core BinarySingleNaN.
From RM Require Import Model.Floats.
From Coq Require Import Reals Lra Bool.
Open Scope R_scope.

Section NN.
  Context {prec emax : Z} {Hp : Prec_gt_0 prec} {He : Prec_lt_emax prec emax}.
  Notation fl := (binary_float prec emax).

  Definition nnb (x : fl) : bool :=
    match x with
    | B754_infinity true => false
    | B754_finite true _ _ _ => false
    | _ => true
    end.

  (* x < 0.0 is false exactly on that class *)
  Lemma nnb_lt_zero (x : fl) s : Bltb x (B754_zero s) = negb (nnb x).
  Proof. destruct x as [sx|[|]| |[|] m e H]; reflexivity. Qed.

  Lemma sign_false_nnb (x : fl) : Bsign x = false -> nnb x = true.
  Proof. destruct x as [sx|[|]| |[|] m e H]; cbn; congruence. Qed.

  Lemma nnb_finite_R (x : fl) : is_finite x = true -> nnb x = true -> 0 <= B2R x.
  Proof.
    destruct x as [sx|sx| |sx m e H]; cbn; intros _ Hn; try lra.
    destruct sx; [discriminate|].
    apply F2R_ge_0. cbn. apply Pos2Z.is_nonneg.
  Qed.

  Lemma finite_R_nnb (x : fl) : is_finite x = true -> 0 <= B2R x -> nnb x = true.
  Proof.
    destruct x as [sx|sx| |sx m e H]; cbn; intros Hf Hr; try reflexivity; try discriminate.
    destruct sx; [|reflexivity]. exfalso.
    assert (F2R (Float radix2 (Z.neg m) e) < 0) by (apply F2R_lt_0; reflexivity).
    change (SpecFloat.cond_Zopp true (Z.pos m)) with (Z.neg m) in Hr. lra.
  Qed.

  Lemma overflow_nnb (x : fl) m : B2SF x = binary_overflow prec emax m false -> nnb x = true.
  Proof.
    unfold binary_overflow. destruct (overflow_to_inf m false).
    - destruct x as [sx|sx| |sx mx e H]; cbn; intros E; inversion E; reflexivity.
    - destruct x as [sx|sx| |sx mx e H]; cbn; intros E; inversion E; reflexivity.
  Qed.

  (* a + b *)
  Lemma nnb_plus (x y : fl) : nnb x = true -> nnb y = true -> nnb (Bplus mode_NE x y) = true.
  Proof.
    intros Hx Hy.
    destruct (is_finite x) eqn:Fx; [destruct (is_finite y) eqn:Fy|].
    - pose proof (Bplus_correct prec emax Hp He mode_NE x y Fx Fy) as C.
      pose proof (nnb_finite_R x Fx Hx) as Rx. pose proof (nnb_finite_R y Fy Hy) as Ry.
      destruct (Rlt_bool _ _) eqn:Eb.
      + destruct C as (CR & CF & _). apply finite_R_nnb; [exact CF|]. rewrite CR.
        rewrite <- (round_0 radix2 (SpecFloat.fexp prec emax) (round_mode mode_NE)).
        apply round_le; try typeclasses eauto. lra.
      + destruct C as (CO & CS).
        (* overflow: the sum is positive, so one operand is, and the signs agree *)
        assert (Hs : Bsign x = false).
        { destruct (Bsign x) eqn:Sx; [|reflexivity]. exfalso.
          assert (Zx : B2R x = 0).
          { destruct x as [sx|sx| |sx m e H]; cbn in *; try discriminate; try reflexivity.
            destruct sx; discriminate. }
          assert (Zy : B2R y = 0).
          { rewrite CS in Sx. destruct y as [sy|sy| |sy m e H]; cbn in *; try discriminate; try reflexivity.
            destruct sy; discriminate. }
          rewrite Zx, Zy, Rplus_0_r, round_0, Rabs_R0 in Eb by typeclasses eauto.
          rewrite Rlt_bool_true in Eb by apply bpow_gt_0. discriminate. }
        rewrite Hs in CO. exact (overflow_nnb _ _ CO).
    - (* y is not finite: NaN or +inf *)
      destruct y as [sy|sy| |sy my ey Hy']; try discriminate.
      + destruct sy; [discriminate|].
        destruct x as [sx|sx| |sx mx ex Hx']; try discriminate; reflexivity.
      + destruct x as [sx|sx| |sx mx ex Hx']; reflexivity.
    - destruct x as [sx|sx| |sx mx ex Hx']; try discriminate.
      + destruct sx; [discriminate|].
        destruct y as [sy|sy| |sy my ey Hy']; try reflexivity.
        destruct sy; [discriminate|reflexivity].
      + reflexivity.
  Qed.

  (* sqrt of anything is not negative *)
  Lemma nnb_sqrt (x : fl) : nnb (Bsqrt mode_NE x) = true.
  Proof.
    destruct (Bsqrt_correct prec emax Hp He mode_NE x) as (_ & _ & CS).
    destruct x as [sx|sx| |sx m e H].
    - reflexivity.
    - destruct sx; reflexivity.
    - reflexivity.
    - destruct sx; [reflexivity|].
      destruct (is_nan (Bsqrt mode_NE (B754_finite false m e H))) eqn:En.
      + destruct (Bsqrt mode_NE (B754_finite false m e H)); try discriminate. reflexivity.
      + apply sign_false_nnb. rewrite (CS eq_refl). reflexivity.
  Qed.

  (* the value of a positive integer mantissa *)
  Lemma nnb_normalize_pos (m : positive) (e : Z) (sz : bool) :
    nnb (binary_normalize prec emax Hp He mode_NE (Zpos m) e sz) = true.
  Proof.
    pose proof (binary_normalize_correct prec emax Hp He mode_NE (Zpos m) e sz) as C. cbv zeta in C.
    assert (Hpos : 0 < F2R (Float radix2 (Zpos m) e)) by (apply F2R_gt_0; reflexivity).
    destruct (Rlt_bool _ _).
    - destruct C as (_ & _ & CS). apply sign_false_nnb. rewrite CS.
      rewrite Rcompare_Gt by exact Hpos. reflexivity.
    - rewrite Rlt_bool_false in C by lra. exact (overflow_nnb _ _ C).
  Qed.
End NN.

(* ---------- the two formats of the model ---------- *)

Definition nn64 (x : F64) : bool := @nnb 53 1024 x.
Definition nn32 (x : F32) : bool := @nnb 24 128 x.

Lemma nn64_lt_zero x : D.lt x D.zero = negb (nn64 x).
Proof. exact (nnb_lt_zero x false). Qed.

Lemma nn64_add a b : nn64 a = true -> nn64 b = true -> nn64 (D.add a b) = true.
Proof. exact (@nnb_plus 53 1024 Hp64 He64 a b). Qed.

Lemma nn64_sqrt a : nn64 (D.sqrt a) = true.
Proof. exact (@nnb_sqrt 53 1024 Hp64 He64 a). Qed.

Lemma nn64_zero : nn64 D.zero = true.
Proof. reflexivity. Qed.

Lemma nn_f32_of_f64 x : nn64 x = true -> nn32 (f32_of_f64 x) = true.
Proof.
  destruct x as [s|s| |s m e H]; cbn; try (intros; reflexivity).
  - destruct s; [discriminate|reflexivity].
  - destruct s; [discriminate|]. intros _. unfold S.of_ZE, of_ZE.
    exact (@nnb_normalize_pos 24 128 Hp32 He32 m e false).
Qed.

Lemma nn_f64_of_f32 x : nn32 x = true -> nn64 (f64_of_f32 x) = true.
Proof.
  destruct x as [s|s| |s m e H]; cbn; try (intros; reflexivity).
  - destruct s; [discriminate|reflexivity].
  - destruct s; [discriminate|]. intros _. unfold D.of_ZE, of_ZE.
    exact (@nnb_normalize_pos 53 1024 Hp64 He64 m e false).
Qed.

(* a positive value is not negative *)
Lemma lt_zero_nn64 x : D.lt D.zero x = true -> nn64 x = true.
Proof. destruct x as [s|[|]| |[|] m e H]; cbn; intros E; try reflexivity; discriminate. Qed.

(* MapLevelFacts: stable sort and break post-processing (C15, generic part). *)
From RM Require Import Model.MapLevelGeneric.
From Coq Require Import Sorting.Sorted Sorting.Permutation.
Require Import ZifyBool.
Open Scope Z_scope.

Section Sort.
  Context {O : Type} (key : O -> Z).
  Definition kle (a b : O) : Prop := key a <= key b.
  Definition has_key (k : Z) (x : O) : bool := key x =? k.

  Lemma sinsert_perm x l : Permutation (sinsert key x l) (x :: l).
  Proof.
    induction l as [|y r IH]; cbn [sinsert]; [reflexivity|].
    destruct (key x <=? key y); [reflexivity|].
    rewrite IH. apply perm_swap.
  Qed.

  Lemma ssort_perm l : Permutation (ssort key l) l.
  Proof.
    induction l as [|x r IH]; cbn [ssort]; [constructor|].
    rewrite sinsert_perm. constructor. exact IH.
  Qed.

  Lemma sinsert_sorted x l :
    StronglySorted kle l -> StronglySorted kle (sinsert key x l).
  Proof.
    induction 1 as [|y r HSS IH HF]; cbn [sinsert].
    - constructor; constructor.
    - destruct (key x <=? key y) eqn:E.
      + constructor; [constructor; assumption|].
        constructor; [unfold kle; lia|].
        eapply Forall_impl; [|exact HF]. unfold kle. intros a Ha. lia.
      + constructor; [exact IH|].
        assert (HP : Permutation (sinsert key x r) (x :: r)) by apply sinsert_perm.
        apply Permutation_sym in HP.
        eapply Permutation_Forall; [exact HP|].
        constructor; [unfold kle; lia | exact HF].
  Qed.

  Lemma ssort_sorted l : StronglySorted kle (ssort key l).
  Proof.
    induction l as [|x r IH]; cbn [ssort]; [constructor|]. apply sinsert_sorted. exact IH.
  Qed.

  (* stability: the elements of any given key appear in their original order *)
  Lemma sinsert_filter k x l :
    filter (has_key k) (sinsert key x l) = filter (has_key k) (x :: l).
  Proof.
    induction l as [|y r IH]; cbn [sinsert]; [reflexivity|].
    destruct (key x <=? key y) eqn:E; [reflexivity|].
    cbn [filter] in *. rewrite IH. unfold has_key.
    destruct (key x =? k) eqn:Ex; destruct (key y =? k) eqn:Ey; try reflexivity. lia.
  Qed.

  Lemma ssort_stable k l : filter (has_key k) (ssort key l) = filter (has_key k) l.
  Proof.
    induction l as [|x r IH]; cbn [ssort]; [reflexivity|].
    rewrite sinsert_filter. cbn [filter]. rewrite IH. reflexivity.
  Qed.
End Sort.

Section Breaks.
  Context {O : Type} (start : O -> F64) (force : O -> bool -> O).

  (* what the inner while loop does *)
  Lemma skip_breaks_spec bs t f0 :
    exists dropped,
      bs = dropped ++ fst (skip_breaks bs t f0) /\
      Forall (fun b => D.lt (bp_end b) t = true) dropped /\
      (match fst (skip_breaks bs t f0) with
       | b :: _ => D.lt (bp_end b) t = false | [] => True end) /\
      snd (skip_breaks bs t f0) = (f0 || negb (Nat.eqb (length dropped) 0)).
  Proof.
    revert f0. induction bs as [|b r IH]; intros f0; cbn [skip_breaks].
    - exists []. cbn. rewrite orb_false_r. repeat split; constructor.
    - destruct (D.lt (bp_end b) t) eqn:E.
      + destruct (IH true) as (d & H1 & H2 & H3 & H4).
        exists (b :: d). cbn [app length fst snd]. repeat split.
        * f_equal. exact H1.
        * constructor; assumption.
        * exact H3.
        * rewrite H4. cbn. rewrite orb_true_r. reflexivity.
      + exists []. cbn [app fst snd length]. rewrite orb_false_r.
        repeat split; [constructor | exact E].
  Qed.

  Lemma post_process_length bs objs :
    length (post_process_breaks start force bs objs) = length objs.
  Proof.
    revert bs. induction objs as [|h r IH]; intros bs; cbn [post_process_breaks]; [reflexivity|].
    destruct (skip_breaks bs (start h) false) as [bs' f]. cbn [length]. rewrite IH. reflexivity.
  Qed.

  (* only the combo flag can change: times (and hence order) are untouched *)
  Lemma post_process_start bs objs :
    (forall h b, start (force h b) = start h) ->
    map start (post_process_breaks start force bs objs) = map start objs.
  Proof.
    intros Hf. revert bs. induction objs as [|h r IH]; intros bs; cbn [post_process_breaks]; [reflexivity|].
    destruct (skip_breaks bs (start h) false) as [bs' f]. cbn [map]. rewrite Hf, IH. reflexivity.
  Qed.

  (* The flag list, and its declarative reading for chronologically sorted
     breaks and objects: an object is forced iff some break ended before it
     and not before its predecessor ("first object after each break"). *)
  Fixpoint flags (bs : list BreakPeriod) (objs : list O) : list bool :=
    match objs with
    | [] => []
    | h :: r => let '(bs', f) := skip_breaks bs (start h) false in f :: flags bs' r
    end.

  Lemma post_process_flags bs objs :
    post_process_breaks start force bs objs =
    map (fun hf => force (fst hf) (snd hf)) (combine objs (flags bs objs)).
  Proof.
    revert bs. induction objs as [|h r IH]; intros bs; cbn [post_process_breaks flags]; [reflexivity|].
    destruct (skip_breaks bs (start h) false) as [bs' f]. cbn [combine map fst snd]. rewrite IH. reflexivity.
  Qed.

  Definition ended_before (b : BreakPeriod) (t : F64) : bool := D.lt (bp_end b) t.

  (* breaks are in chronological order of their ends, as seen by every threshold *)
  Definition breaks_chrono (bs : list BreakPeriod) : Prop :=
    forall pre b post t, bs = pre ++ b :: post -> ended_before b t = true ->
                         Forall (fun a => ended_before a t = true) pre.

  Lemma breaks_chrono_tail pre bs : breaks_chrono (pre ++ bs) -> breaks_chrono bs.
  Proof.
    intros H p b q t E Hb. specialize (H (pre ++ p) b q t).
    rewrite E, app_assoc in H. specialize (H eq_refl Hb).
    apply Forall_app in H. apply H.
  Qed.

  (* first object: forced iff some break ended before it *)
  Lemma first_flag bs h r :
    breaks_chrono bs ->
    hd false (flags bs (h :: r)) = existsb (fun b => ended_before b (start h)) bs.
  Proof.
    intros Hc. cbn [flags].
    destruct (skip_breaks_spec bs (start h) false) as (d & H1 & H2 & H3 & H4).
    destruct (skip_breaks bs (start h) false) as [bs' f]. cbn [fst snd hd] in *.
    subst f. cbn [orb]. rewrite H1, existsb_app.
    assert (Hrest : existsb (fun b => ended_before b (start h)) bs' = false).
    { destruct (existsb (fun b => ended_before b (start h)) bs') eqn:E; [|reflexivity].
      apply existsb_exists in E. destruct E as (b & Hin & Hb).
      apply in_split in Hin. destruct Hin as (p & q & ->).
      pose proof (breaks_chrono_tail d _ ltac:(rewrite <- H1; exact Hc)) as Hc'.
      specialize (Hc' p b q (start h) eq_refl Hb).
      destruct p as [|a p]; cbn in H3.
      - unfold ended_before in Hb. congruence.
      - inversion Hc' as [|? ? Ha _]; subst. unfold ended_before in Ha. congruence. }
    rewrite Hrest, orb_false_r.
    destruct d as [|a d]; [reflexivity|]. cbn. inversion H2 as [|? ? Ha Hd]; subst.
    unfold ended_before. rewrite Ha. reflexivity.
  Qed.
End Breaks.

(* ThetaLoop: the second loop of curve.rs without a structural bound,
     while theta_end < theta_start { theta_end += 2.0 * PI }
   in circular_arc_properties.  Both angles come out of atan2.  If the atan2
   of the libm record returns NaN or a finite value in [-PI, PI] (PI = the f64
   constant; true of every IEEE libm), the loop body runs at most once: the
   model's fuel (64) is never exhausted, in binary64 arithmetic.
   For an arbitrary function in place of atan2 the loop of the code need not
   terminate (theta_start = +inf); the model then reports [OutOfFuel].

   Consequence, with CurveNoPanic: under this one fact about atan2 the only
   source of [OutOfFuel] in the curve computation is the Bezier subdivision
   loop. *)
From RM Require Import Model.ControlPoints Model.Curve Proofs.BezierTermination Proofs.CurveNoPanic.
From Flocq Require Import Core BinarySingleNaN.
From Coq Require Import Reals Lra Lia.
Open Scope R_scope.

Local Notation fin x := (is_finite x = true).
Local Notation fexp64 := (SpecFloat.fexp 53 1024).
Local Notation RN := (round radix2 fexp64 (round_mode mode_NE)).

Local Instance Hp64i : Prec_gt_0 53 := Hp64.
Local Instance He64i : Prec_lt_emax 53 1024 := He64.

Lemma d_pi_sf : B2SF d_pi = SpecFloat.S754_finite false 7074237752028440 (-51).
Proof. vm_compute. reflexivity. Qed.
Lemma d_two_pi_sf : B2SF d_two_pi = SpecFloat.S754_finite false 7074237752028440 (-50).
Proof. vm_compute. reflexivity. Qed.

Lemma d_pi_R : B2R d_pi = 7074237752028440 / 2251799813685248.
Proof. rewrite <- SF2R_B2SF, d_pi_sf. unfold SF2R, F2R. cbn. lra. Qed.
Lemma d_two_pi_R : B2R d_two_pi = 2 * B2R d_pi.
Proof. rewrite d_pi_R. rewrite <- SF2R_B2SF, d_two_pi_sf. unfold SF2R, F2R. cbn. lra. Qed.
Lemma d_two_pi_fin : fin d_two_pi.
Proof. rewrite <- is_finite_SF_B2SF, d_two_pi_sf. reflexivity. Qed.

(* NaN, or finite and within [-PI, PI] *)
Definition angle_ok (t : F64) : Prop :=
  is_nan t = true \/ (fin t /\ - B2R d_pi <= B2R t <= B2R d_pi).

Definition atan2_in_range (lm : Libm) : Prop := forall y x, angle_ok (l_atan2 lm y x).

Lemma lt_not_nan (a b : F64) : D.lt a b = true -> is_nan a = false /\ is_nan b = false.
Proof.
  destruct a as [sa|sa| |sa ma ea Ha], b as [sb|sb| |sb mb eb Hb]; cbn; intros H;
    try discriminate; split; reflexivity.
Qed.

(* one addition of 2 PI brings any angle of the range to PI or above *)
Lemma add_two_pi (te : F64) : fin te -> - B2R d_pi <= B2R te <= B2R d_pi ->
  fin (D.add te d_two_pi) /\ B2R d_pi <= B2R (D.add te d_two_pi).
Proof.
  intros Fte Hr.
  pose proof (Bplus_correct 53 1024 Hp64 He64 mode_NE te d_two_pi Fte d_two_pi_fin) as H.
  assert (Hv : Valid_exp fexp64) by (apply (fexp_correct 53 1024); exact Hp64).
  assert (Hlo : B2R d_pi <= RN (B2R te + B2R d_two_pi)).
  { apply round_ge_generic; [exact Hv|apply valid_rnd_N|apply generic_format_B2R|].
    rewrite d_two_pi_R. lra. }
  assert (Hhi : RN (B2R te + B2R d_two_pi) <= bpow radix2 4).
  { apply round_le_generic; [exact Hv|apply valid_rnd_N| |].
    - apply generic_format_bpow. cbv. discriminate.
    - rewrite d_two_pi_R. rewrite d_pi_R in *. cbn. lra. }
  assert (Hpos : 0 < B2R d_pi) by (rewrite d_pi_R; lra).
  rewrite Rlt_bool_true in H.
  - destruct H as (HR & HF & _). unfold D.add, fadd. split; [exact HF|]. rewrite HR. exact Hlo.
  - rewrite Rabs_pos_eq by lra.
    apply Rle_lt_trans with (1 := Hhi). apply bpow_lt. reflexivity.
Qed.

Theorem theta_loop_done ts te : angle_ok ts -> angle_ok te -> exists r, theta_loop ts te = Done r.
Proof.
  intros Hs He. unfold theta_loop.
  destruct (D.lt te ts) eqn:E1.
  - destruct (lt_not_nan _ _ E1) as [Nte Nts].
    destruct Hs as [Hs|[Fs Rs]]; [congruence|]. destruct He as [He|[Fe Re]]; [congruence|].
    destruct (add_two_pi te Fe Re) as [F1 R1].
    exists (D.add te d_two_pi).
    apply (iter_fuel_run _ _ _ 2); [|apply Nat.leb_le; reflexivity].
    cbn [run]. rewrite E1.
    replace (D.lt (D.add te d_two_pi) ts) with false; [reflexivity|].
    symmetry. unfold D.lt, flt. rewrite Bltb_correct by assumption.
    apply Rlt_bool_false. lra.
  - exists te. apply (iter_fuel_run _ _ _ 1); [|apply Nat.leb_le; reflexivity].
    cbn [run]. rewrite E1. reflexivity.
Qed.

Lemma circular_arc_properties_done lm a b c :
  atan2_in_range lm -> exists r, circular_arc_properties lm a b c = Done r.
Proof.
  intros Hlm. unfold circular_arc_properties.
  destruct (S.le _ S.eps); [eauto|].
  destruct (arc_centre_g _ _ _ _ _ _ _ _ _ _ _) as [ccx ccy].
  match goal with |- context [theta_loop ?ts ?te] =>
    destruct (theta_loop_done ts te (Hlm _ _) (Hlm _ _)) as (r & ->) end.
  cbn [obind]. destruct (S.lt _ S.zero); eauto.
Qed.

(* with an atan2 that has its values in [-PI, PI], a curve is a value as soon
   as its Bezier subdivisions return *)
Theorem curve_L1_done_if_bezier lm fuel mode pts e :
  atan2_in_range lm ->
  (forall path sub, sub <> [] -> exists r, approximate_bezier_L1 fuel path sub tt = Done r) ->
  exists c, curve_L1 lm fuel mode pts e = Done c.
Proof.
  intros Hlm Hb. apply curve_L1_done_if_arc; [exact Hb|].
  intros a b c. apply circular_arc_properties_done. exact Hlm.
Qed.

(* the hypothesis is satisfiable ... *)
Example atan2_in_range_inhabited :
  atan2_in_range (mkLibm (fun x => x) (fun x => x) (fun _ _ => D.zero) (fun x => x)).
Proof.
  intros y x. right. cbn [l_atan2]. split; [reflexivity|].
  rewrite d_pi_R. cbn [B2R D.zero fzero]. lra.
Qed.

(* ... and needed: an "atan2" that returns +inf for theta_start makes the loop
   of the code spin forever; the model runs out of its 64 iterations *)
Example theta_loop_needs_range : theta_loop (D.inf false) D.zero = OutOfFuel.
Proof. vm_compute. reflexivity. Qed.

(* Enc4Map: the top-level round-trip theorem of C02 with ONLY recorded finding classes as
   object-level hypotheses, each a decidable (boolean) predicate on the decoded map.

   [obj_classes] (Proofs/Enc3Objects.v) asks of a slider "the curve is computable" and [slider_ok]
   (a conjunction of decoder-image facts and classes), and of a spinner / hold the Prop
   [spinner_time_ok] / [hold_time_ok].  Here:
     - two more invariants of EVERY decoded map (Proofs/Enc4Inv.v): a slider carries a combo offset
       only next to the new-combo flag (the decoder stores `if new_combo { offset } else { 0 }` and
       every later step only SETS the flag), and -- for a map decoded with the real curve model --
       the curve of every slider is computable (the per-object loop has computed it);
     - [obj_in_class]: the disjunction of the recorded classes of one object (D30; D26, D33;
       D13, D17, consecutive Catmull, D21, D22), a boolean;
     - [decoded_obj_classes]: for an object of a decoded map, [obj_in_class = false] gives
       [obj_classes];
     - [round_trip_decoded_map_classes] / [round_trip_chronological_classes]: the top-level
       statements with [objects_in_classes lm m = false] in place of [Forall obj_classes], and with
       the slider's combo offset preserved unconditionally ([final_rel_classes]). *)
From RM Require Import Model.EncSpec Model.EncObjCarry Model.EncPathSpec Model.HitObjectSpec Proofs.EncFmt Proofs.EncImage Proofs.EncEdit
     Proofs.EncRound Proofs.EncObjectsRT Proofs.EncLineImage Proofs.HitObjectLineFacts Proofs.EncMapImage
     Proofs.Enc2Samples Proofs.Enc2SampleShape Proofs.MapLevelFacts
     Proofs.MapLevelConcrete Proofs.Enc2Slider Proofs.FramingFacts Proofs.DecodersFacts
     Proofs.Enc2Framing Proofs.Enc3Framing Proofs.Enc3Timing Proofs.Enc3Objects Proofs.Enc3Chrono Proofs.Enc3NodeInv
     Proofs.Enc3Map Proofs.Enc3Example Proofs.Enc4Inv Proofs.Enc4Times.
From RM Require Import Model.EncTimingSpec Proofs.ControlPointsFacts Proofs.EncTimingParse Proofs.EncTimingRT
     Proofs.Enc2Timing Proofs.Enc2SvRT Proofs.Enc2Examples.
From RM Require Import Model.DrvEnc.
From RM Require Model.Curve.
From RM Require Import Gen.Generated.
From Coq Require Import Sorting.Sorted ZifyBool Lia.
Open Scope Z_scope.

(* ---------- 1. two slider invariants of every decoded map ---------- *)

(* line level / post-processing: the offset is only present next to the flag *)
Definition combo_img (h : HitObject) : Prop :=
  match h_kind h with
  | KSlider s => sl_new_combo s || (sl_combo_offset s =? 0) = true
  | _ => True
  end.

(* after the per-object loop: additionally, the curve has been computed *)
Definition slider_inv (lm : Curve.Libm) (h : HitObject) : Prop :=
  match h_kind h with
  | KSlider s => sl_new_combo s || (sl_combo_offset s =? 0) = true /\ exists c, slider_curve lm s = Done c
  | _ => True
  end.

Theorem parse_object_combo_img st line st' :
  parse_hit_objects st line = Done (st', Ok) ->
  exists o, ho_objects st' = ho_objects st ++ [o] /\ combo_img o.
Proof.
  intros H. destruct (parse_hit_objects_spec st line) as [scratch Hs]. rewrite Hs in H. clear Hs.
  injection H as H. unfold line_spec_with in H.
  destruct (common_spec line) as [f|] eqn:Ec; [|discriminate].
  unfold kind_of_type in H.
  destruct (flag_bit hot_circle (f_type f)).
  { destruct (extras_spec _) as [bank|]; [|discriminate]. unfold accept in H. injection H as <-.
    eexists. split; [reflexivity|]. exact I. }
  destruct (flag_bit hot_slider (f_type f)).
  { destruct (slider_fields_spec (f_sound f) (f_rest f)) as [pre|]; [|discriminate].
    destruct (path_spec (spre_point_str pre) (f_pos f)) as [cps ok].
    destruct ok; [|discriminate]. unfold accept in H. injection H as <-.
    eexists. split; [reflexivity|]. unfold combo_img. cbn [h_kind sl_new_combo sl_combo_offset].
    unfold starts_combo, combo_offset_spec. destruct (flag_bit hot_new_combo (f_type f)); [reflexivity|].
    cbn [orb]. apply orb_true_r. }
  destruct (flag_bit hot_spinner (f_type f)).
  { destruct (obnd _ pn_f64) as [e|]; [|discriminate]. destruct (extras_spec _) as [bank|]; [|discriminate].
    unfold accept in H. injection H as <-. eexists. split; [reflexivity|]. exact I. }
  destruct (flag_bit hot_hold (f_type f)); [|discriminate].
  destruct (nth_error (f_rest f) 0) as [[|c s]|].
  - unfold accept in H. injection H as <-. eexists. split; [reflexivity|]. exact I.
  - destruct (obnd _ pn_f64) as [e|]; [|discriminate]. destruct (banks_spec _ _ _) as [bank|]; [|discriminate].
    unfold accept in H. injection H as <-. eexists. split; [reflexivity|]. exact I.
  - unfold accept in H. injection H as <-. eexists. split; [reflexivity|]. exact I.
Qed.

Lemma force_new_combo_combo_img h f : combo_img h -> combo_img (force_new_combo h f).
Proof.
  unfold force_new_combo, combo_img. destruct (h_kind h) as [c|s|s|hd] eqn:E; cbn [h_kind sl_new_combo sl_combo_offset];
    try rewrite E; try (intros _; exact I).
  intros H. destruct (sl_new_combo s); cbn [orb] in *; [reflexivity|]. rewrite H. apply orb_true_r.
Qed.

Lemma process_object_slider_inv lm c sm mode h h' :
  combo_img h -> process_object (dist_real lm) c sm mode h = Done h' -> slider_inv lm h'.
Proof.
  intros Hh H. unfold combo_img in Hh. destruct (h_kind h) as [ci|s|sp|hd] eqn:E.
  2: { destruct (process_object_slider (dist_real lm) c sm mode h s h' E H) as (dp & d & _ & Hdist & Hh').
       cbv zeta in Hh'. rewrite Hh'. unfold slider_inv. cbn [h_kind sl_new_combo sl_combo_offset]. split; [exact Hh|].
       unfold slider_curve. cbn [sl_mode sl_control_points sl_expected_dist].
       rewrite dist_real_curve in Hdist. unfold slider_curve in Hdist.
       destruct (Curve.curve_L1 lm Curve.bezier_fuel (sl_mode s) (map conv_pcp (sl_control_points s)) (sl_expected_dist s)) as [cv|w|];
         cbn [obind] in Hdist; try discriminate. exists cv. reflexivity. }
  all: destruct (process_object_non_slider (dist_real lm) c sm mode h) as (e & Hp & _);
    [intros s0; rewrite E; discriminate|]; rewrite Hp in H; injection H as <-;
    unfold slider_inv; cbn [h_kind]; rewrite E; exact I.
Qed.

(* every hit object of every map decoded with the real curve model *)
Theorem decoded_slider_inv lm lines m :
  decode_beatmap (dist_real lm) lines = Done m -> Forall (slider_inv lm) (hov_hit_objects (bmv_ho m)).
Proof.
  apply (decoded_objects_forall (dist_real lm) combo_img (slider_inv lm)).
  - exact parse_object_combo_img.
  - exact force_new_combo_combo_img.
  - exact (process_object_slider_inv lm).
Qed.

(* ---------- 2. the recorded classes of one object, as a boolean ---------- *)

(* D21: the length the encoder writes for the slider (its explicit length, or the distance of its
   curve) is beyond the coordinate limit or NaN *)
Definition d21_slider (lm : Curve.Libm) (s : Slider) : bool :=
  match slider_curve lm s with
  | Done c => d21_class (written_of (sl_expected_dist s) c)
  | _ => false
  end.
(* D22: the slider was read under another mode than the map's final mode *)
Definition d22_slider (mode : Z) (s : Slider) : bool := negb (sl_mode s =? mode).

(* [true]: the object lies in one of the recorded classes *)
Definition obj_in_class (lm : Curve.Libm) (mode : Z) (h : HitObject) : bool :=
  match h_kind h with
  | KCircle _ => d30_class h
  | KSpinner _ | KHold _ => d30_class h || d26_class h || d33_object h
  | KSlider s =>
      d30_class h || d13_class (sl_control_points s) || d17_class (sl_control_points s) ||
      consec_catmull (sl_control_points s) || d21_slider lm s || d22_slider mode s
  end.

Definition objects_in_classes (lm : Curve.Libm) (m : BeatmapV) : bool :=
  existsb (obj_in_class lm (g_mode (hov_general (bmv_ho m)))) (hov_hit_objects (bmv_ho m)).

Lemma existsb_false {A} (f : A -> bool) l : existsb f l = false -> forall x, In x l -> f x = false.
Proof.
  induction l as [|a r IH]; intros H x Hin; [contradiction|]. cbn [existsb] in H. apply orb_false_iff in H.
  destruct Hin as [<-|Hin]; [exact (proj1 H)|exact (IH (proj2 H) x Hin)].
Qed.

(* for the objects of a decoded map, outside the classes = [obj_classes] *)
Theorem decoded_obj_classes lm lines m h :
  Forall no_lf_line lines -> decode_beatmap (dist_real lm) lines = Done m ->
  In h (hov_hit_objects (bmv_ho m)) ->
  forall mode, obj_in_class lm mode h = false -> obj_classes lm mode h.
Proof.
  intros Hl Hd Hin mode Hc. unfold obj_in_class in Hc. unfold obj_classes.
  destruct (h_kind h) as [ci|s|sp|hd] eqn:Hk.
  - exact Hc.
  - do 5 (apply orb_false_iff in Hc; destruct Hc as [Hc ?]).
    rename Hc into H30, H into H22, H0 into H21, H1 into Hcc, H2 into H17, H3 into H13.
    pose proof (decoded_slider_inv lm lines m Hd) as Hinv. rewrite Forall_forall in Hinv. specialize (Hinv h Hin).
    unfold slider_inv in Hinv. rewrite Hk in Hinv. destruct Hinv as (_ & c & Hcv).
    exists c. split; [exact Hcv|]. split.
    + pose proof (decoded_objects_image (dist_real lm) lines m Hd) as Hi. rewrite Forall_forall in Hi. specialize (Hi h Hin).
      pose proof (decoded_samples_img (dist_real lm) lines m Hl Hd) as Hs. rewrite Forall_forall in Hs. specialize (Hs h Hin).
      cbv beta in Hi, Hs.
      assert (Hres : residual_classes (dist_real lm) h).
      { unfold residual_classes. split; [exact H30|]. rewrite Hk. repeat (split; [assumption|]).
        exists (written_of (sl_expected_dist s) c). split; [exact (written_len_curve lm s c Hcv)|].
        unfold d21_slider in H21. rewrite Hcv in H21. exact H21. }
      pose proof (image_encodable (dist_real lm) h Hi (classes_residual (dist_real lm) h Hs Hres)) as He.
      unfold encodable in He. rewrite Hk in He. destruct He as (d & Hw & Hok).
      rewrite (written_len_curve lm s c Hcv) in Hw. injection Hw as <-. exact Hok.
    + unfold d22_slider in H22. apply negb_false_iff in H22. apply Z.eqb_eq. exact H22.
  - do 2 (apply orb_false_iff in Hc; destruct Hc as [Hc ?]). split; [exact Hc|]. split; [assumption|].
    assert (T : time_ok h) by (apply d33_object_spec; assumption). unfold time_ok in T. rewrite Hk in T. exact T.
  - do 2 (apply orb_false_iff in Hc; destruct Hc as [Hc ?]). split; [exact Hc|]. split; [assumption|].
    assert (T : time_ok h) by (apply d33_object_spec; assumption). unfold time_ok in T. rewrite Hk in T. exact T.
Qed.

(* the converse for spinners and holds: the hypothesis of the old top-level theorem was exactly this *)
Theorem obj_classes_spinner_hold lm mode h :
  (match h_kind h with KSpinner _ | KHold _ => True | _ => False end) ->
  (obj_classes lm mode h <-> obj_in_class lm mode h = false).
Proof.
  unfold obj_classes, obj_in_class. intros Hk.
  pose proof (d33_object_spec h) as T. unfold time_ok in T.
  destruct (h_kind h) as [ci|s|sp|hd]; try contradiction.
  - split.
    + intros (A & B & C). rewrite A, B. apply T. exact C.
    + intros H. do 2 (apply orb_false_iff in H; destruct H as [H ?]). repeat split; try assumption. apply T. assumption.
  - split.
    + intros (A & B & C). rewrite A, B. apply T. exact C.
    + intros H. do 2 (apply orb_false_iff in H; destruct H as [H ?]). repeat split; try assumption. apply T. assumption.
Qed.

Theorem decoded_objects_classes lm lines m :
  Forall no_lf_line lines -> decode_beatmap (dist_real lm) lines = Done m ->
  objects_in_classes lm m = false ->
  Forall (obj_classes lm (g_mode (hov_general (bmv_ho m)))) (hov_hit_objects (bmv_ho m)).
Proof.
  intros Hl Hd Hc. apply Forall_forall. intros h Hin.
  exact (decoded_obj_classes lm lines m h Hl Hd Hin _ (existsb_false _ _ Hc h Hin)).
Qed.

(* ---------- 3. the final relation with the slider's combo offset preserved ---------- *)

(* [final_rel_decoded] with  sl_combo_offset s' = sl_combo_offset s  in place of
   "= if sl_new_combo s then sl_combo_offset s else 0" *)
Definition final_rel_classes (lm : Curve.Libm) (h o : HitObject) : Prop :=
  match h_kind h with
  | KSlider s =>
      exists c s',
        slider_curve lm s = Done c /\
        h_start o = h_start h /\ h_kind o = KSlider s' /\
        sl_pos s' = sl_pos s /\
        sl_control_points s' = sl_control_points s /\
        sl_repeat_count s' = sl_repeat_count s /\
        length (sl_node_samples s') = Z.to_nat (sl_repeat_count s + 2) /\
        sl_expected_dist s' = reread_len (written_of (sl_expected_dist s) c) /\
        slider_curve lm s' = Done c /\
        sl_mode s' = sl_mode s /\
        sl_new_combo s' = sl_new_combo s /\
        sl_combo_offset s' = sl_combo_offset s /\
        carry_samples (h_samples o) = carry_samples (h_samples h) /\
        (forall i l, (i < Z.to_nat (sl_repeat_count s + 2))%nat -> nth_error (sl_node_samples s) i = Some l ->
           first_file l = None ->
           exists l2, nth_error (sl_node_samples s') i = Some l2 /\ carry_samples l2 = carry_samples l)
  | _ => carry_object o = carry_object h
  end.

Lemma final_rel_classes_of lm h o : slider_inv lm h -> final_rel_decoded lm h o -> final_rel_classes lm h o.
Proof.
  unfold slider_inv, final_rel_decoded, final_rel_classes. destruct (h_kind h) as [ci|s|sp|hd]; try (intros _ H; exact H).
  intros (Hc & _) (c & s' & Q1 & Q2 & Q3 & Q4 & Q5 & Q6 & Q7 & Q8 & Q9 & Q10 & Q11 & Q12 & Q13).
  exists c, s'. repeat (split; [assumption|]). split; [|exact Q13].
  rewrite Q12. destruct (sl_new_combo s); [reflexivity|]. cbn [orb] in Hc. lia.
Qed.

Lemma final_rel_classes_all lm : forall objs out,
  Forall (slider_inv lm) objs -> Forall2 (final_rel_decoded lm) objs out -> Forall2 (final_rel_classes lm) objs out.
Proof.
  induction objs as [|h r IH]; intros out Hn H; inversion H; subst; constructor.
  - apply final_rel_classes_of; [exact (Forall_inv Hn)|assumption].
  - apply IH; [exact (Forall_inv_tail Hn)|assumption].
Qed.

(* ---------- 4. the top-level statements ---------- *)

Section Map.
  Variable lm : Curve.Libm.
  Variables (fmt_f64 : F64 -> str) (fmt_f32 : F32 -> str) (fmt_int : Z -> str).
  Hypothesis Hfmt : fmt_ok fmt_f64 fmt_f32 fmt_int.
  Hypothesis Hlead : no_leading_zero fmt_int.
  Hypothesis H32 : fmt_f32_int fmt_f32 fmt_int.
  Notation rline := (render fmt_f64 fmt_f32 fmt_int).
  Notation dist := (dist_real lm).

  (* every object-level hypothesis is a boolean class predicate on the decoded map:
     [d23_class] (simple sections), [rt_classes] (timing: D8 / D28 / D34, D27, D12, D26 / D32),
     [objects_in_classes] (hit objects: D30, D26, D33, D13, D17, consecutive Catmull, D21, D22);
     [combo_chain] is the boolean form of the property's own hypothesis (chronological lines) *)
  Theorem round_trip_decoded_map_classes events lines m c ls dist2 m2 :
    Forall no_lf_line lines -> decode_beatmap dist lines = Done m -> d23_class m = false ->
    enc_control_points dist events m = Done c ->
    rt_classes (g_mode (hov_general (bmv_ho m))) c = true ->
    objects_in_classes lm m = false ->
    combo_chain (ev_breaks (hov_events (bmv_ho m))) true (hov_hit_objects (bmv_ho m)) = true ->
    encode_lines dist events m = Done ls ->
    decode_beatmap dist2 (map rline ls) = Done m2 ->
    let c0 := hov_control_points (bmv_ho m) in
    let c2 := hov_control_points (bmv_ho m2) in
    (bmv_version m2 = bmv_version m /\
     hov_general (bmv_ho m2) = hov_general (bmv_ho (read_back m)) /\
     bmv_editor m2 = bmv_editor (read_back m) /\
     bmv_metadata m2 = bmv_metadata (read_back m) /\
     hov_difficulty (bmv_ho m2) = hov_difficulty (bmv_ho (read_back m)) /\
     hov_events (bmv_ho m2) = hov_events (bmv_ho (read_back m)) /\
     bmv_colors m2 = bmv_colors (read_back m)) /\
    (cp_timing c2 = cp_timing c0 /\
     (forall t, sv_at c2 t = sv_at c0 t) /\
     (forall t, kiai_at c2 t = kiai_at c0 t) /\
     (forall t, scroll_at c2 t = scroll_at c0 t)) /\
    Forall2 (final_rel_classes lm) (hov_hit_objects (bmv_ho m)) (hov_hit_objects (bmv_ho m2)) /\
    Forall2 same_velocity (hov_hit_objects (bmv_ho m)) (hov_hit_objects (bmv_ho m2)).
  Proof.
    intros Hl Hd H23 Ec Hcls Hobj Hcombo He Hd2.
    pose proof (conj (decoded_objects_classes lm lines m Hl Hd Hobj) Hcombo : objects_classes lm m) as Hoc.
    destruct (round_trip_decoded_map lm fmt_f64 fmt_f32 fmt_int Hfmt Hlead H32 events lines m c ls dist2 m2
                Hl Hd H23 Ec Hcls Hoc He Hd2) as (A & B & C).
    cbv zeta. split; [exact A|]. split; [exact B|]. split.
    - exact (final_rel_classes_all lm _ _ (decoded_slider_inv lm lines m Hd) C).
    - exact (round_trip_velocities lm fmt_f64 fmt_f32 fmt_int Hfmt Hlead H32 events lines m c ls dist2 m2
               Hl Hd H23 Ec Hcls Hoc He Hd2).
  Qed.

  (* the same with the property's own hypothesis: the accepted hit-object lines of the input are in
     chronological order *)
  Theorem round_trip_chronological_classes events lines m c ls dist2 m2 :
    Forall no_lf_line lines -> decode_beatmap dist lines = Done m -> d23_class m = false ->
    StronglySorted Z.le (map start_key (raw_objects lines)) ->
    enc_control_points dist events m = Done c ->
    rt_classes (g_mode (hov_general (bmv_ho m))) c = true ->
    objects_in_classes lm m = false ->
    encode_lines dist events m = Done ls ->
    decode_beatmap dist2 (map rline ls) = Done m2 ->
    let c0 := hov_control_points (bmv_ho m) in
    let c2 := hov_control_points (bmv_ho m2) in
    (bmv_version m2 = bmv_version m /\
     hov_general (bmv_ho m2) = hov_general (bmv_ho (read_back m)) /\
     bmv_editor m2 = bmv_editor (read_back m) /\
     bmv_metadata m2 = bmv_metadata (read_back m) /\
     hov_difficulty (bmv_ho m2) = hov_difficulty (bmv_ho (read_back m)) /\
     hov_events (bmv_ho m2) = hov_events (bmv_ho (read_back m)) /\
     bmv_colors m2 = bmv_colors (read_back m)) /\
    (cp_timing c2 = cp_timing c0 /\
     (forall t, sv_at c2 t = sv_at c0 t) /\
     (forall t, kiai_at c2 t = kiai_at c0 t) /\
     (forall t, scroll_at c2 t = scroll_at c0 t)) /\
    Forall2 (final_rel_classes lm) (hov_hit_objects (bmv_ho m)) (hov_hit_objects (bmv_ho m2)) /\
    Forall2 same_velocity (hov_hit_objects (bmv_ho m)) (hov_hit_objects (bmv_ho m2)).
  Proof.
    intros Hl Hd H23 Hch Ec Hcls Hobj He Hd2.
    exact (round_trip_decoded_map_classes events lines m c ls dist2 m2 Hl Hd H23 Ec Hcls Hobj
             (decoded_combo_chain dist lines m Hd Hch) He Hd2).
  Qed.
End Map.

(* ---------- 5. the example map satisfies the new hypotheses ---------- *)

Lemma all_kinds_classes_facts :
  match decode_beatmap (dist_real lm0) (lines_of_text all_kinds_text) with
  | Done m =>
      match enc_control_points (dist_real lm0) events_real m with
      | Done c =>
          forallb (fun l => negb (memb ch_lf l)) (lines_of_text all_kinds_text) = true /\
          d23_class m = false /\
          rt_classes (g_mode (hov_general (bmv_ho m))) c = true /\
          objects_in_classes lm0 m = false /\
          map (obj_in_class lm0 (g_mode (hov_general (bmv_ho m)))) (hov_hit_objects (bmv_ho m)) = [false; false; false; false] /\
          map d33_object (hov_hit_objects (bmv_ho m)) = [false; false; false; false] /\
          combo_chain (ev_breaks (hov_events (bmv_ho m))) true (hov_hit_objects (bmv_ho m)) = true /\
          map (fun h => kind_tag (h_kind h)) (hov_hit_objects (bmv_ho m)) = [0; 1; 2; 3]
      | _ => False
      end
  | _ => False
  end.
Proof. vm_compute. repeat split; reflexivity. Qed.

Theorem all_kinds_round_trip_classes :
  forall fmt_f64 fmt_f32 fmt_int, fmt_ok fmt_f64 fmt_f32 fmt_int -> no_leading_zero fmt_int -> fmt_f32_int fmt_f32 fmt_int ->
  exists m c ls,
    decode_beatmap (dist_real lm0) (lines_of_text all_kinds_text) = Done m /\
    enc_control_points (dist_real lm0) events_real m = Done c /\
    encode_lines (dist_real lm0) events_real m = Done ls /\
    d23_class m = false /\ rt_classes (g_mode (hov_general (bmv_ho m))) c = true /\
    objects_in_classes lm0 m = false /\
    StronglySorted Z.le (map start_key (raw_objects (lines_of_text all_kinds_text))) /\
    map (fun h => kind_tag (h_kind h)) (hov_hit_objects (bmv_ho m)) = [0; 1; 2; 3] /\
    forall dist2 m2, decode_beatmap dist2 (map (render fmt_f64 fmt_f32 fmt_int) ls) = Done m2 ->
      let c0 := hov_control_points (bmv_ho m) in
      let c2 := hov_control_points (bmv_ho m2) in
      (bmv_version m2 = bmv_version m /\
       hov_general (bmv_ho m2) = hov_general (bmv_ho (read_back m)) /\
       bmv_editor m2 = bmv_editor (read_back m) /\
       bmv_metadata m2 = bmv_metadata (read_back m) /\
       hov_difficulty (bmv_ho m2) = hov_difficulty (bmv_ho (read_back m)) /\
       hov_events (bmv_ho m2) = hov_events (bmv_ho (read_back m)) /\
       bmv_colors m2 = bmv_colors (read_back m)) /\
      (cp_timing c2 = cp_timing c0 /\
       (forall t, sv_at c2 t = sv_at c0 t) /\
       (forall t, kiai_at c2 t = kiai_at c0 t) /\
       (forall t, scroll_at c2 t = scroll_at c0 t)) /\
      Forall2 (final_rel_classes lm0) (hov_hit_objects (bmv_ho m)) (hov_hit_objects (bmv_ho m2)) /\
      Forall2 same_velocity (hov_hit_objects (bmv_ho m)) (hov_hit_objects (bmv_ho m2)).
Proof.
  intros f64 f32 fi Hfmt Hlead H32. pose proof all_kinds_classes_facts as W. pose proof all_kinds_facts as W'.
  destruct (decode_beatmap (dist_real lm0) (lines_of_text all_kinds_text)) as [m| |] eqn:Ed; try contradiction.
  destruct (enc_control_points (dist_real lm0) events_real m) as [c| |] eqn:Ec; try contradiction.
  destruct W as (Wl & W23 & Wrt & Wobj & _ & _ & _ & Wk).
  destruct W' as (_ & _ & _ & _ & _ & We).
  destruct (encode_lines (dist_real lm0) events_real m) as [ls| |] eqn:Ee; try contradiction.
  pose proof (sortedb_sorted _ all_kinds_chronological) as Hch.
  exists m, c, ls. repeat (split; [first [reflexivity|assumption]|]).
  assert (Hl : Forall no_lf_line (lines_of_text all_kinds_text)).
  { unfold no_lf_line. apply Forall_forall. intros l Hin. rewrite forallb_forall in Wl. specialize (Wl l Hin).
    apply Bool.negb_true_iff in Wl. exact Wl. }
  intros dist2 m2 Hd2.
  exact (round_trip_chronological_classes lm0 f64 f32 fi Hfmt Hlead H32 events_real _ m c ls dist2 m2 Hl Ed W23 Hch Ec Wrt
           Wobj Ee Hd2).
Qed.

(* ---------- 6. the class D33 is inhabited by a decodable input ---------- *)

(* the D33 input as a file: a spinner and a hold with start 2^-43 and end 1024 + 2^-42.  Both decoded
   objects are in [d33_object] (and in no other class): the map is excluded by
   [objects_in_classes], and rightly so -- the durations read back from the written end differ by
   one ulp ([times_ok_refuted]). *)
Definition d33_text : str :=
  join_lines ["osu file format v14"; "[General]"; "Mode: 3";
              "[TimingPoints]"; "0,500,4,1,0,100,1,0";
              "[HitObjects]";
              "256,192,0.00000000000011368683772161603,12,0,1024.0000000000002";
              "256,192,0.00000000000011368683772161603,128,0,1024.0000000000002:0:0:0:0:"]%string.

Lemma d33_decoded_witness :
  match decode_beatmap (dist_real lm0) (lines_of_text d33_text) with
  | Done m =>
      let objs := hov_hit_objects (bmv_ho m) in
      map (fun h => kind_tag (h_kind h)) objs = [2; 3] /\
      map (fun h => D.bits (h_start h)) objs = [4413527634823086080; 4413527634823086080] /\
      map (fun h => match h_kind h with KSpinner s => D.bits (sp_duration s) | KHold hd => D.bits (hd_duration hd) | _ => 0 end) objs
        = [4652218415073722368; 4652218415073722368] /\
      map d33_object objs = [true; true] /\
      map d30_class objs = [false; false] /\ map d26_class objs = [false; false] /\
      objects_in_classes lm0 m = true
  | _ => False
  end.
Proof. vm_compute. repeat split; reflexivity. Qed.

Print Assumptions decoded_slider_inv.
Print Assumptions decoded_obj_classes.
Print Assumptions round_trip_decoded_map_classes.
Print Assumptions round_trip_chronological_classes.
Print Assumptions all_kinds_round_trip_classes.

(* PositionExact: T19b for the whole curve, in exact arithmetic.
   position_at / progress_to_dist / idx_of_dist / interpolate_vertices are
   written once over abstract operations ([position_at_g]); the model is the
   IEEE instance ([model_position_at], by reflexivity), the theorems are about
   the real instance on a polyline whose lengths are its cumulative polyline
   lengths ([AdjustExact.cumlen]: first 0, non-decreasing).

   The search enters through its contract only ("the returned index i is an
   element equal to d, or every element before i is below d and every element
   from i on is above d"): a Section hypothesis, discharged at the end for
   the transcribed std binary search on every non-decreasing list, duplicates
   included ([idx_of_dist_R_contract]).

   Proved: position at a vertex's own cumulative length is that vertex (with
   duplicate lengths: the vertices carrying the same length coincide);
   progress 0 -> first vertex, progress 1 -> last vertex (a repeated last
   length included), progress lengths[j]/dist -> vertex j; and the global
   bound |position_at a - position_at b| <= |a - b| * dist across segments. *)
From RM Require Import Model.ControlPoints Model.Curve Proofs.BSearch Proofs.InterpExact Proofs.AdjustExact.
From Coq Require Import Reals Lra Psatz.
Require Import ZifyBool.
Open Scope R_scope.

(* ---------- the functions, once ---------- *)

Section PosG.
  Context {T P : Type}.
  Variables (zero one : T) (mul : T -> T -> T) (lt gt : T -> T -> bool)
            (near : T -> T -> bool)                    (* (d0 - d1).abs() <= f64::EPSILON *)
            (interp : P -> P -> T -> T -> T -> P)      (* p0 p1 d0 d1 d *)
            (origin : P)
            (search : list T -> T -> nat).

  Definition clamp_g (x lo hi : T) : T :=
    let x1 := if lt x lo then lo else x in if gt x1 hi then hi else x1.
  Definition dist_g (lengths : list T) : T :=
    match last_opt lengths with Some x => x | None => zero end.
  Definition progress_to_dist_g (lengths : list T) (progress : T) : T :=
    mul (clamp_g progress zero one) (dist_g lengths).
  Definition cmp_g (d len : T) : comparison :=
    if lt len d then Lt else if gt len d then Gt else Eq.
  Definition idx_of_dist_g (lengths : list T) (d : T) : nat :=
    match bsearch_by (cmp_g d) lengths with inl i => i | inr i => i end.

  Definition interpolate_g (path : list P) (lengths : list T) (i : nat) (d : T) : outcome P :=
    match path with
    | [] => Done origin
    | first :: _ =>
        match i with
        | O => Done first
        | S i1 =>
            match nth_error path i with
            | None => Done (last path origin)
            | Some p1 =>
                obind (aget path i1) (fun p0 =>
                obind (aget lengths i1) (fun d0 =>
                obind (aget lengths i) (fun d1 =>
                if near d0 d1 then Done p0 else Done (interp p0 p1 d0 d1 d))))
            end
        end
    end.

  Definition position_at_g (path : list P) (lengths : list T) (progress : T) : outcome P :=
    let d := progress_to_dist_g lengths progress in
    interpolate_g path lengths (search lengths d) d.
End PosG.

Section PosGFacts.
  Context {T P : Type}.
  Variables (near : T -> T -> bool) (interp : P -> P -> T -> T -> T -> P) (origin : P).

  Lemma interpolate_g_zero path lengths d f0 :
    nth_error path 0 = Some f0 -> interpolate_g near interp origin path lengths 0 d = Done f0.
  Proof. destruct path as [|x t]; [discriminate|]. cbn. intros H; inversion H; reflexivity. Qed.

  Lemma interpolate_g_between path lengths i1 d p0 p1 l0 l1 :
    nth_error path i1 = Some p0 -> nth_error path (S i1) = Some p1 ->
    nth_error lengths i1 = Some l0 -> nth_error lengths (S i1) = Some l1 ->
    interpolate_g near interp origin path lengths (S i1) d =
    if near l0 l1 then Done p0 else Done (interp p0 p1 l0 l1 d).
  Proof.
    intros E0 E1 F0 F1. unfold interpolate_g. destruct path as [|x t]; [destruct i1; discriminate|].
    rewrite E1. unfold aget. rewrite E0, F0, F1. reflexivity.
  Qed.
End PosGFacts.

(* the model is the IEEE instance *)
Definition near64 (d0 d1 : F64) : bool := D.le (D.abs (D.sub d0 d1)) D.eps.
Definition interp64 (p0 p1 : Pos) (d0 d1 d : F64) : Pos :=
  padd p0 (pmul (psub p1 p0) (f32_of_f64 (D.div (D.sub d d0) (D.sub d1 d0)))).

Lemma model_idx_of_dist : idx_of_dist = idx_of_dist_g D.lt D.gt.
Proof. reflexivity. Qed.

Lemma model_position_at path lengths p :
  position_at path lengths p =
  position_at_g D.zero D.one D.mul D.lt D.gt near64 interp64 pos0 (idx_of_dist_g D.lt D.gt) path lengths p.
Proof. reflexivity. Qed.

(* ---------- the contract of the search, for any comparator that is monotone along the list ---------- *)
Local Open Scope nat_scope.

Section Search.
  Context {Q : Type}.
  Variables (f : Q -> comparison) (l : list Q).
  (* once Greater, Greater from there on; Less only before *)
  Hypothesis M1 : forall i j x y, i <= j -> nth_error l i = Some x -> nth_error l j = Some y -> f x = Gt -> f y = Gt.
  Hypothesis M2 : forall i j x y, i <= j -> nth_error l i = Some x -> nth_error l j = Some y -> f y = Lt -> f x = Lt.
  Let n := length l.

  Lemma bs_loop_contract fuel : forall base size,
    1 <= size -> base + size <= n -> size <= S fuel ->
    (base = 0 \/ exists x, nth_error l base = Some x /\ f x <> Gt) ->
    (forall j x, base + size <= j -> nth_error l j = Some x -> f x = Gt) ->
    let b := bs_loop fuel f l base size in
    b < n /\ (b = 0 \/ exists x, nth_error l b = Some x /\ f x <> Gt) /\
    (forall j x, S b <= j -> nth_error l j = Some x -> f x = Gt).
  Proof.
    induction fuel as [|k IH]; intros base size H1 Hb Hf Hlo Hhi; cbn [bs_loop].
    - assert (size = 1) by lia. subst size.
      split; [lia|]. split; [exact Hlo|]. intros j x Hj. apply Hhi; lia.
    - destruct (Nat.leb size 1) eqn:E.
      + apply Nat.leb_le in E. assert (size = 1) by lia. subst size.
        split; [lia|]. split; [exact Hlo|]. intros j x Hj. apply Hhi; lia.
      + apply Nat.leb_gt in E.
        set (half := Nat.div size 2).
        assert (Hh : 1 <= half /\ 2 * half <= size /\ size < 2 * half + 2).
        { unfold half. pose proof (Nat.div_mod size 2 ltac:(lia)).
          pose proof (Nat.mod_upper_bound size 2 ltac:(lia)). repeat split; lia. }
        destruct Hh as (Hh1 & Hh2 & Hh3).
        assert (Hmid : base + half < n) by lia.
        destruct (nth_error l (base + half)) as [m|] eqn:Em; [|apply nth_error_None in Em; unfold n in *; lia].
        destruct (f m) eqn:Efm.
        * apply IH; try lia.
          -- right. exists m. split; [exact Em|congruence].
          -- intros j x Hj. apply Hhi; lia.
        * apply IH; try lia.
          -- right. exists m. split; [exact Em|congruence].
          -- intros j x Hj. apply Hhi; lia.
        * apply IH; try lia; [exact Hlo|].
          intros j x Hj Hx. apply (M1 (base + half) j m x); try assumption. lia.
  Qed.

  Lemma bsearch_by_contract :
    match bsearch_by f l with
    | inl i => exists x, nth_error l i = Some x /\ f x = Eq
    | inr i => i <= n /\
               (forall j x, j < i -> nth_error l j = Some x -> f x = Lt) /\
               (forall j x, i <= j -> nth_error l j = Some x -> f x = Gt)
    end.
  Proof.
    destruct (Nat.eq_dec n 0) as [Hz|Hnz].
    - assert (Hnil : l = []) by (apply length_zero_iff_nil; exact Hz).
      unfold bsearch_by. rewrite Hnil. split; [lia|]. split; intros j x Hj Hx; destruct j; discriminate.
    - assert (Hne : l <> []) by (intros E; apply Hnz; unfold n; rewrite E; reflexivity).
      rewrite (bsearch_by_nonempty f l Hne). cbv zeta. fold n.
      assert (Hn : 1 <= n) by lia.
      pose proof (bs_loop_contract (length l) 0 (length l)) as H. cbv zeta in H. fold n in H.
      specialize (H Hn ltac:(lia) ltac:(lia) (or_introl eq_refl)).
      specialize (H ltac:(intros j x Hj Hx; assert (j < n) by (apply nth_error_Some; congruence); lia)).
      set (b := bs_loop n f l 0 n) in *. destruct H as (Hb & Hlo & Hhi).
      destruct (nth_error l b) as [p|] eqn:Ep; [|apply nth_error_None in Ep; unfold n in *; lia].
      destruct (f p) eqn:Efp.
      + exists p. split; assumption.
      + split; [lia|]. split.
        * intros j x Hj Hx. apply (M2 j b x p); try assumption. lia.
        * intros j x Hj Hx. apply (Hhi j x); assumption.
      + assert (b = 0) by (destruct Hlo as [?|(x & Hx & Hng)]; [assumption|congruence]). subst b.
        split; [lia|]. split.
        * intros j x Hj. lia.
        * intros j x Hj Hx. destruct (Nat.eq_dec j 0) as [->|Hj0]; [congruence|]. apply (Hhi j x); [lia|exact Hx].
  Qed.
End Search.

(* ---------- the real instance ---------- *)
Local Open Scope R_scope.

Definition Rltb (a b : R) : bool := if Rlt_dec a b then true else false.
Definition Rgtb (a b : R) : bool := Rltb b a.
Lemma Rltb_true a b : Rltb a b = true <-> a < b.
Proof. unfold Rltb. destruct (Rlt_dec a b); split; intros; try assumption; try reflexivity; try discriminate; contradiction. Qed.
Lemma Rltb_false a b : Rltb a b = false <-> b <= a.
Proof. unfold Rltb. destruct (Rlt_dec a b); split; intros; try reflexivity; try discriminate; lra. Qed.

(* (d0 - d1).abs() <= eps, for a guard width eps *)
Definition near_R (eps : R) (d0 d1 : R) : bool := if Rle_dec (Rabs (d0 - d1)) eps then true else false.
Definition interp2 (p0 p1 : P2) (d0 d1 d : R) : P2 :=
  (interp_R (fst p0) (fst p1) d0 d1 d, interp_R (snd p0) (snd p1) d0 d1 d).

Lemma near_R_0 d0 d1 : near_R 0 d0 d1 = true <-> d0 = d1.
Proof.
  unfold near_R. destruct (Rle_dec (Rabs (d0 - d1)) 0) as [H|H]; split; intros E; try reflexivity; try discriminate.
  - pose proof (Rabs_pos (d0 - d1)). assert (Rabs (d0 - d1) = 0) by lra.
    destruct (Req_dec (d0 - d1) 0) as [Z|Z]; [lra|]. apply Rabs_no_R0 in Z. contradiction.
  - exfalso. apply H. subst. rewrite Rminus_diag_eq by reflexivity. rewrite Rabs_R0. lra.
Qed.

Definition clamp01_R (p : R) : R := clamp_g Rltb Rgtb p 0 1.

Lemma clamp01_R_spec p :
  (p < 0 /\ clamp01_R p = 0) \/ (0 <= p <= 1 /\ clamp01_R p = p) \/ (1 < p /\ clamp01_R p = 1).
Proof.
  unfold clamp01_R, clamp_g, Rgtb.
  destruct (Rltb p 0) eqn:E0.
  - apply Rltb_true in E0. left. split; [exact E0|].
    destruct (Rltb 1 0) eqn:E1; [apply Rltb_true in E1; lra|reflexivity].
  - apply Rltb_false in E0. destruct (Rltb 1 p) eqn:E1.
    + apply Rltb_true in E1. right. right. split; [exact E1|reflexivity].
    + apply Rltb_false in E1. right. left. split; [lra|reflexivity].
Qed.

Lemma clamp01_R_range p : 0 <= clamp01_R p <= 1.
Proof. destruct (clamp01_R_spec p) as [[? ->]|[[? ->]|[? ->]]]; lra. Qed.

Lemma clamp01_R_lipschitz a b : Rabs (clamp01_R a - clamp01_R b) <= Rabs (a - b).
Proof.
  destruct (clamp01_R_spec a) as [[? ->]|[[? ->]|[? ->]]];
  destruct (clamp01_R_spec b) as [[? ->]|[[? ->]|[? ->]]];
  unfold Rabs; repeat destruct (Rcase_abs _); lra.
Qed.

(* non-decreasing lists of reals *)
Definition sorted_R (l : list R) : Prop :=
  forall i j x y, (i <= j)%nat -> nth_error l i = Some x -> nth_error l j = Some y -> x <= y.

(* the contract a search has to meet *)
Definition search_contract (search : list R -> R -> nat) : Prop :=
  forall l d, sorted_R l ->
  let i := search l d in
  (i <= length l)%nat /\
  ((exists x, nth_error l i = Some x /\ x = d) \/
   ((forall j x, (j < i)%nat -> nth_error l j = Some x -> x < d) /\
    (forall j x, (i <= j)%nat -> nth_error l j = Some x -> d < x))).

Definition idx_of_dist_R : list R -> R -> nat := idx_of_dist_g Rltb Rgtb.

Lemma cmp_R_Lt d x : cmp_g Rltb Rgtb d x = Lt <-> x < d.
Proof.
  unfold cmp_g, Rgtb. destruct (Rltb x d) eqn:E1.
  - apply Rltb_true in E1. split; auto.
  - apply Rltb_false in E1. destruct (Rltb d x); split; intros; try discriminate; lra.
Qed.
Lemma cmp_R_Gt d x : cmp_g Rltb Rgtb d x = Gt <-> d < x.
Proof.
  unfold cmp_g, Rgtb. destruct (Rltb x d) eqn:E1.
  - apply Rltb_true in E1. split; intros; try discriminate; lra.
  - destruct (Rltb d x) eqn:E2.
    + apply Rltb_true in E2. split; auto.
    + apply Rltb_false in E2. split; intros; try discriminate; lra.
Qed.
Lemma cmp_R_Eq d x : cmp_g Rltb Rgtb d x = Eq <-> x = d.
Proof.
  unfold cmp_g, Rgtb. destruct (Rltb x d) eqn:E1.
  - apply Rltb_true in E1. split; intros; try discriminate; lra.
  - apply Rltb_false in E1. destruct (Rltb d x) eqn:E2.
    + apply Rltb_true in E2. split; intros; try discriminate; lra.
    + apply Rltb_false in E2. split; intros; try reflexivity; lra.
Qed.

(* the transcribed std binary search meets the contract on every
   non-decreasing list (duplicates included) *)
Theorem idx_of_dist_R_contract : search_contract idx_of_dist_R.
Proof.
  intros l d Hs. cbv zeta. unfold idx_of_dist_R, idx_of_dist_g.
  pose proof (bsearch_by_contract (cmp_g Rltb Rgtb d) l) as H.
  assert (M1 : forall i j x y, (i <= j)%nat -> nth_error l i = Some x -> nth_error l j = Some y ->
               cmp_g Rltb Rgtb d x = Gt -> cmp_g Rltb Rgtb d y = Gt).
  { intros i j x y Hij Hx Hy Hg. apply cmp_R_Gt in Hg. apply cmp_R_Gt. pose proof (Hs i j x y Hij Hx Hy). lra. }
  assert (M2 : forall i j x y, (i <= j)%nat -> nth_error l i = Some x -> nth_error l j = Some y ->
               cmp_g Rltb Rgtb d y = Lt -> cmp_g Rltb Rgtb d x = Lt).
  { intros i j x y Hij Hx Hy Hg. apply cmp_R_Lt in Hg. apply cmp_R_Lt. pose proof (Hs i j x y Hij Hx Hy). lra. }
  specialize (H M1 M2).
  destruct (bsearch_by (cmp_g Rltb Rgtb d) l) as [i|i].
  - destruct H as (x & Hx & He). split.
    + assert (i < length l)%nat by (apply nth_error_Some; congruence). lia.
    + left. exists x. split; [exact Hx|]. apply cmp_R_Eq. exact He.
  - destruct H as (Hi & Hlo & Hhi). split; [exact Hi|]. right. split.
    + intros j x Hj Hx. apply cmp_R_Lt. eapply Hlo; eauto.
    + intros j x Hj Hx. apply cmp_R_Gt. eapply Hhi; eauto.
Qed.

(* ---------- cumulative polyline lengths: steps, chords, order ---------- *)

Lemma cum_R_step path : forall acc i p q a,
  nth_error path i = Some p -> nth_error path (S i) = Some q ->
  nth_error (acc :: fst (cum_g Rplus edist acc path)) i = Some a ->
  nth_error (acc :: fst (cum_g Rplus edist acc path)) (S i) = Some (a + edist p q).
Proof.
  induction path as [|x [|y t] IH]; intros acc i p q a Hp Hq Ha.
  - destruct i; discriminate.
  - destruct i as [|[|i]]; discriminate.
  - rewrite cum_g_cons2 in *. cbn [fst] in *. destruct i as [|i].
    + cbn in Hp, Hq, Ha. inversion Hp; inversion Hq; inversion Ha; subst. reflexivity.
    + cbn [nth_error] in Hp, Hq. change (nth_error ?l (S (S i))) with (nth_error (tl l) (S i)). cbn [tl].
      apply IH; try assumption.
Qed.

Section Polyline.
  Variable path : list P2.
  Hypothesis path_ne : path <> [].
  Let lens := cumlen path.
  Let n := length path.
  Let L := poly_len path.

  Lemma lens_length : length lens = n.
  Proof. apply cumlen_length. exact path_ne. Qed.

  Lemma lens_first : nth_error lens 0 = Some 0.
  Proof. reflexivity. Qed.

  Lemma lens_step i p q a :
    nth_error path i = Some p -> nth_error path (S i) = Some q -> nth_error lens i = Some a ->
    nth_error lens (S i) = Some (a + edist p q).
  Proof. apply cum_R_step. Qed.

  (* the chord between two vertices is not longer than the arc between them *)
  Lemma chord_le_arc i j p q a b : (i <= j)%nat ->
    nth_error path i = Some p -> nth_error path j = Some q ->
    nth_error lens i = Some a -> nth_error lens j = Some b ->
    edist p q <= b - a.
  Proof.
    intros Hij Hp Hq Ha. revert q b Hq. induction Hij as [|j Hij IH]; intros q b Hq Hb.
    - rewrite Hp in Hq. rewrite Ha in Hb. inversion Hq; inversion Hb; subst. rewrite edist_refl. lra.
    - destruct (nth_error path j) as [r|] eqn:Er.
      2:{ apply nth_error_None in Er. assert (S j < length path)%nat by (apply nth_error_Some; congruence). lia. }
      destruct (nth_error lens j) as [c|] eqn:Ec.
      2:{ apply nth_error_None in Ec. rewrite lens_length in Ec. assert (S j < n)%nat by (apply nth_error_Some; congruence). lia. }
      specialize (IH r c eq_refl eq_refl).
      rewrite (lens_step j r q c Er Hq Ec) in Hb. inversion Hb; subst.
      pose proof (edist_triangle p r q). lra.
  Qed.

  Lemma lens_sorted : sorted_R lens.
  Proof.
    intros i j x y Hij Hx Hy.
    assert (Hj : (j < n)%nat) by (rewrite <- lens_length; apply nth_error_Some; congruence).
    destruct (nth_error path i) as [p|] eqn:Ep; [|apply nth_error_None in Ep; fold n in Ep; lia].
    destruct (nth_error path j) as [q|] eqn:Eq; [|apply nth_error_None in Eq; fold n in Eq; lia].
    pose proof (chord_le_arc i j p q x y Hij Ep Eq Hx Hy). pose proof (edist_ge0 p q). lra.
  Qed.

  (* vertices carrying the same cumulative length coincide *)
  Lemma same_length_same_vertex i j p q a :
    nth_error path i = Some p -> nth_error path j = Some q ->
    nth_error lens i = Some a -> nth_error lens j = Some a -> p = q.
  Proof.
    intros Hp Hq Ha Hb. destruct (Nat.le_ge_cases i j) as [H|H].
    - pose proof (chord_le_arc i j p q a a H Hp Hq Ha Hb). pose proof (edist_ge0 p q).
      apply edist_zero. lra.
    - pose proof (chord_le_arc j i q p a a H Hq Hp Hb Ha). pose proof (edist_ge0 q p).
      symmetry. apply edist_zero. lra.
  Qed.

  Lemma lens_last : nth_error lens (Nat.pred n) = Some L.
  Proof.
    unfold L. rewrite poly_len_last. fold lens.
    assert (Hl : lens <> []) by (unfold lens, cumlen; discriminate).
    destruct (exists_last Hl) as (l' & z & E). pose proof lens_length as Hn. rewrite E in *.
    rewrite last_last. rewrite app_length in Hn. cbn [length] in Hn.
    replace (Nat.pred n) with (length l') by lia. rewrite nth_error_app2 by lia. rewrite Nat.sub_diag. reflexivity.
  Qed.

  Lemma dist_is_L : dist_g 0 lens = L.
  Proof.
    unfold dist_g. unfold L. rewrite poly_len_last. fold lens.
    assert (Hl : lens <> []) by (unfold lens, cumlen; discriminate).
    destruct (exists_last Hl) as (l' & z & ->). rewrite last_last.
    replace (last_opt (l' ++ [z])) with (Some z); [reflexivity|].
    clear. induction l' as [|a [|b t] IH]; cbn [app last_opt] in *; auto.
  Qed.

  Lemma L_ge0 : 0 <= L.
  Proof.
    assert (Hn : (0 < n)%nat) by (unfold n; destruct path; [congruence|cbn; lia]).
    exact (lens_sorted 0%nat (Nat.pred n) 0 L ltac:(lia) lens_first lens_last).
  Qed.

  Lemma lens_range j a : nth_error lens j = Some a -> 0 <= a <= L.
  Proof.
    intros Ha. assert (Hj : (j < n)%nat) by (rewrite <- lens_length; apply nth_error_Some; congruence). split.
    - exact (lens_sorted 0%nat j 0 a ltac:(lia) lens_first Ha).
    - exact (lens_sorted j (Nat.pred n) a L ltac:(lia) Ha lens_last).
  Qed.

  (* ---------- where a distance is located ---------- *)
  Variable search : list R -> R -> nat.
  Hypothesis search_ok : search_contract search.

  Notation interpolate := (interpolate_g (near_R 0) interp2 (0, 0)).
  Notation position := (position_at_g 0 1 Rmult Rltb Rgtb (near_R 0) interp2 (0, 0) search).

  (* what interpolate_vertices returns at the index selected for d *)
  Definition located (d : R) (i : nat) (q : P2) : Prop :=
    match i with
    | O => d = 0 /\ nth_error path 0 = Some q
    | S i1 => exists p0 p1 l0 l1,
        nth_error path i1 = Some p0 /\ nth_error path i = Some p1 /\
        nth_error lens i1 = Some l0 /\ nth_error lens i = Some l1 /\
        l0 <= d <= l1 /\
        ((l0 = l1 /\ q = p0) \/ (l0 < l1 /\ q = interp2 p0 p1 l0 l1 d))
    end.

  Lemma locate d : 0 <= d <= L ->
    exists q, interpolate path lens (search lens d) d = Done q /\ located d (search lens d) q.
  Proof.
    intros Hd. destruct (search_ok lens d lens_sorted) as [Hi Hc]. remember (search lens d) as i eqn:Ei0. clear Ei0.
    rewrite lens_length in Hi.
    assert (Hn : (0 < n)%nat) by (unfold n; destruct path; [congruence|cbn; lia]).
    (* the index is inside the path *)
    assert (Hin : (i < n)%nat).
    { destruct (Nat.eq_dec i n) as [E|E]; [|lia]. exfalso. destruct Hc as [(x & Hx & _)|[Hlo _]].
      - assert (i < length lens)%nat by (apply nth_error_Some; congruence). rewrite lens_length in H. lia.
      - pose proof (Hlo (Nat.pred n) L ltac:(lia) lens_last). lra. }
    destruct i as [|i1].
    - destruct (nth_error path 0) as [f0|] eqn:Ef; [|apply nth_error_None in Ef; fold n in Ef; lia].
      exists f0. split; [apply interpolate_g_zero; exact Ef|]. cbn [located]. split; [|exact Ef].
      destruct Hc as [(x & Hx & He)|[_ Hhi]].
      + rewrite lens_first in Hx. inversion Hx; subst. reflexivity.
      + pose proof (Hhi 0%nat 0 ltac:(lia) lens_first). lra.
    - destruct (nth_error path i1) as [p0|] eqn:E0; [|apply nth_error_None in E0; fold n in E0; lia].
      destruct (nth_error path (S i1)) as [p1|] eqn:E1; [|apply nth_error_None in E1; fold n in E1; lia].
      destruct (nth_error lens i1) as [l0|] eqn:F0; [|apply nth_error_None in F0; rewrite lens_length in F0; lia].
      destruct (nth_error lens (S i1)) as [l1|] eqn:F1; [|apply nth_error_None in F1; rewrite lens_length in F1; lia].
      pose proof (lens_sorted i1 (S i1) l0 l1 ltac:(lia) F0 F1) as Hs01.
      assert (Hr : l0 <= d <= l1).
      { destruct Hc as [(x & Hx & He)|[Hlo Hhi]].
        - inversion Hx; subst. lra.
        - pose proof (Hlo i1 l0 ltac:(lia) F0). pose proof (Hhi (S i1) l1 ltac:(lia) F1). lra. }
      rewrite (interpolate_g_between (near_R 0) interp2 (0, 0) path lens i1 d p0 p1 l0 l1 E0 E1 F0 F1).
      destruct (near_R 0 l0 l1) eqn:En.
      + apply near_R_0 in En. exists p0. split; [reflexivity|].
        exists p0, p1, l0, l1. repeat split; try assumption; try lra. left. split; [exact En|reflexivity].
      + exists (interp2 p0 p1 l0 l1 d). split; [reflexivity|].
        exists p0, p1, l0, l1. repeat split; try assumption; try lra. right. split; [|reflexivity].
        destruct Hs01 as [Hlt|Heq]; [exact Hlt|]. apply near_R_0 in Heq. congruence.
  Qed.

  (* on a segment with true lengths the point is (d - l0) from its start and (l1 - d) from its end *)
  Lemma interp2_anchors p0 p1 l0 l1 d :
    l0 < l1 -> edist p0 p1 = l1 - l0 -> l0 <= d <= l1 ->
    edist p0 (interp2 p0 p1 l0 l1 d) = d - l0 /\ edist (interp2 p0 p1 l0 l1 d) p1 = l1 - d.
  Proof.
    intros Hl Hd Hr. pose proof (edist_sq p0 p1) as Sq. rewrite Hd in Sq. symmetry in Sq.
    assert (Hne : l1 <> l0) by lra. split.
    - apply edist_eq; [lra|]. unfold interp2. cbn [fst snd].
      rewrite <- (interp_R_at_d0 (fst p0) (fst p1) l0 l1 Hne) at 2.
      rewrite <- (interp_R_at_d0 (snd p0) (snd p1) l0 l1 Hne) at 2.
      apply segment_isometry; assumption.
    - apply edist_eq; [lra|]. unfold interp2. cbn [fst snd].
      rewrite <- (interp_R_at_d1 (fst p0) (fst p1) l0 l1 Hne) at 1.
      rewrite <- (interp_R_at_d1 (snd p0) (snd p1) l0 l1 Hne) at 1.
      apply segment_isometry; assumption.
  Qed.

  Lemma seg_length i1 p0 p1 l0 l1 :
    nth_error path i1 = Some p0 -> nth_error path (S i1) = Some p1 ->
    nth_error lens i1 = Some l0 -> nth_error lens (S i1) = Some l1 -> edist p0 p1 = l1 - l0.
  Proof. intros E0 E1 F0 F1. rewrite (lens_step i1 p0 p1 l0 E0 E1 F0) in F1. inversion F1. ring. Qed.

  (* distance to the vertex the search selected (upper anchor) *)
  Lemma located_upper d i q : located d i q ->
    exists pi li, nth_error path i = Some pi /\ nth_error lens i = Some li /\ d <= li /\ edist q pi = li - d.
  Proof.
    destruct i as [|i1]; cbn [located].
    - intros [-> Hq]. exists q, 0. repeat split; try assumption; try lra. rewrite edist_refl. ring.
    - intros (p0 & p1 & l0 & l1 & E0 & E1 & F0 & F1 & Hr & Hq).
      exists p1, l1. repeat split; try assumption; try lra.
      pose proof (seg_length i1 p0 p1 l0 l1 E0 E1 F0 F1) as Hseg.
      destruct Hq as [[Heq ->]|[Hlt ->]].
      + rewrite Hseg. lra.
      + apply (interp2_anchors p0 p1 l0 l1 d Hlt Hseg Hr).
  Qed.

  (* distance to the vertex before it (lower anchor) *)
  Lemma located_lower d i1 q : located d (S i1) q ->
    exists p0 l0, nth_error path i1 = Some p0 /\ nth_error lens i1 = Some l0 /\ l0 <= d /\ edist p0 q = d - l0.
  Proof.
    cbn [located]. intros (p0 & p1 & l0 & l1 & E0 & E1 & F0 & F1 & Hr & Hq).
    exists p0, l0. repeat split; try assumption; try lra.
    pose proof (seg_length i1 p0 p1 l0 l1 E0 E1 F0 F1) as Hseg.
    destruct Hq as [[Heq ->]|[Hlt ->]].
    + rewrite edist_refl. lra.
    + apply (interp2_anchors p0 p1 l0 l1 d Hlt Hseg Hr).
  Qed.

  (* ---------- vertex hits ---------- *)

  (* at the cumulative length of vertex j the position is vertex j *)
  Theorem interpolate_at_vertex_length j pj lj :
    nth_error path j = Some pj -> nth_error lens j = Some lj ->
    interpolate path lens (search lens lj) lj = Done pj.
  Proof.
    intros Hp Hl. destruct (locate lj (lens_range j lj Hl)) as (q & Hq & Hloc). rewrite Hq. f_equal.
    destruct (search lens lj) as [|i1]; cbn [located] in Hloc.
    - destruct Hloc as [Hz H0]. subst lj. exact (same_length_same_vertex 0 j q pj 0 H0 Hp lens_first Hl).
    - destruct Hloc as (p0 & p1 & l0 & l1 & E0 & E1 & F0 & F1 & Hr & Hc).
      destruct (Nat.le_gt_cases j i1) as [Hj|Hj].
      + (* lj <= l0, hence lj = l0 *)
        pose proof (lens_sorted j i1 lj l0 Hj Hl F0) as Hle. assert (lj = l0) by lra. subst lj.
        pose proof (same_length_same_vertex i1 j p0 pj l0 E0 Hp F0 Hl) as <-.
        destruct Hc as [[_ ->]|[Hlt ->]]; [reflexivity|].
        unfold interp2. rewrite !interp_R_at_d0 by lra. destruct p0; reflexivity.
      + (* l1 <= lj, hence lj = l1 *)
        pose proof (lens_sorted (S i1) j l1 lj ltac:(lia) F1 Hl) as Hle. assert (lj = l1) by lra. subst lj.
        pose proof (same_length_same_vertex (S i1) j p1 pj l1 E1 Hp F1 Hl) as <-.
        destruct Hc as [[Heq ->]|[Hlt ->]].
        * subst l1. exact (same_length_same_vertex i1 (S i1) p0 p1 l0 E0 E1 F0 F1).
        * unfold interp2. rewrite !interp_R_at_d1 by lra. destruct p1; reflexivity.
  Qed.

  Lemma progress_dist p : progress_to_dist_g 0 1 Rmult Rltb Rgtb lens p = clamp01_R p * L.
  Proof. unfold progress_to_dist_g. rewrite dist_is_L. reflexivity. Qed.

  (* progress 0 (and every negative progress): the first vertex *)
  Theorem position_at_zero_R first : nth_error path 0 = Some first ->
    forall p, p <= 0 -> position path lens p = Done first.
  Proof.
    intros Hf p Hp. unfold position_at_g. rewrite progress_dist.
    assert (clamp01_R p = 0) as -> by (destruct (clamp01_R_spec p) as [[? ->]|[[? ->]|[? ->]]]; lra).
    rewrite Rmult_0_l. exact (interpolate_at_vertex_length 0 first 0 Hf lens_first).
  Qed.

  (* progress 1 (and every larger progress): the last vertex -- also when the
     last cumulative length is repeated *)
  Theorem position_at_one_R : forall p, 1 <= p -> position path lens p = Done (last path (0, 0)).
  Proof.
    intros p Hp. unfold position_at_g. rewrite progress_dist.
    assert (clamp01_R p = 1) as -> by (destruct (clamp01_R_spec p) as [[? ->]|[[? ->]|[? ->]]]; lra).
    rewrite Rmult_1_l. apply (interpolate_at_vertex_length (Nat.pred n)); [|exact lens_last].
    destruct (exists_last path_ne) as (l' & z & E). unfold n. rewrite E, last_last, app_length. cbn [length].
    rewrite Nat.add_1_r. cbn [Nat.pred]. rewrite nth_error_app2 by lia. rewrite Nat.sub_diag. reflexivity.
  Qed.

  (* progress lengths[j] / dist: vertex j (with duplicate lengths: the vertices
     carrying that length are the same point) *)
  Theorem position_at_vertex_fraction j pj lj : 0 < L ->
    nth_error path j = Some pj -> nth_error lens j = Some lj ->
    position path lens (lj / L) = Done pj.
  Proof.
    intros HL Hp Hl. unfold position_at_g. rewrite progress_dist.
    pose proof (lens_range j lj Hl) as Hr.
    assert (H01 : 0 <= lj / L <= 1).
    { split; [apply Rmult_le_pos; [lra|apply Rlt_le, Rinv_0_lt_compat; exact HL]|].
      apply (Rmult_le_reg_r L); [exact HL|]. unfold Rdiv. rewrite Rmult_assoc, Rinv_l by lra. lra. }
    assert (clamp01_R (lj / L) = lj / L) as -> by (destruct (clamp01_R_spec (lj / L)) as [[? ->]|[[? ->]|[? ->]]]; lra).
    replace (lj / L * L) with lj by (field; lra).
    exact (interpolate_at_vertex_length j pj lj Hp Hl).
  Qed.

  (* ---------- the global Lipschitz bound ---------- *)

  (* in the distance: |gamma(da) - gamma(db)| <= db - da *)
  Lemma interpolate_lipschitz_le da db qa qb :
    0 <= da -> da <= db -> db <= L ->
    interpolate path lens (search lens da) da = Done qa ->
    interpolate path lens (search lens db) db = Done qb ->
    edist qa qb <= db - da.
  Proof.
    intros H0 Hab HL Ha Hb.
    destruct (locate da ltac:(lra)) as (qa' & Ha' & La). rewrite Ha in Ha'. inversion Ha'; subst qa'.
    destruct (locate db ltac:(lra)) as (qb' & Hb' & Lb). rewrite Hb in Hb'. inversion Hb'; subst qb'.
    clear Ha' Hb'. set (ia := search lens da) in *. set (ib := search lens db) in *.
    destruct (located_upper da ia qa La) as (pa & la & Epa & Ela & Hda & Dqa).
    destruct ib as [|ib1].
    - (* db = 0: both are the first vertex *)
      destruct Lb as [Hz Hq0]. assert (da = 0) by lra. subst da db.
      destruct ia as [|ia1].
      + destruct La as [_ Hq0']. rewrite Hq0 in Hq0'. inversion Hq0'; subst. rewrite edist_refl. lra.
      + (* 0 <= la - ... : qa is within la - 0 of pa, and la = 0 *)
        destruct (located_lower 0 ia1 qa La) as (p0 & l0 & E0 & F0 & Hl0 & Dq).
        pose proof (lens_range ia1 l0 F0) as Hr0. assert (l0 = 0) by lra. subst l0.
        pose proof (same_length_same_vertex 0 ia1 qb p0 0 Hq0 E0 lens_first F0) as ->.
        rewrite edist_sym, Dq. lra.
    - destruct (located_lower db ib1 qb Lb) as (pb & lb & Epb & Elb & Hdb & Dqb).
      destruct (Nat.le_gt_cases ia ib1) as [Hle|Hgt].
      + (* different segments: through the vertices ia .. ib-1 *)
        pose proof (chord_le_arc ia ib1 pa pb la lb Hle Epa Epb Ela Elb) as Hch.
        pose proof (edist_triangle qa pa qb). pose proof (edist_triangle pa pb qb). lra.
      + (* ia >= ib: the same segment, or da = db at a shared length *)
        destruct ia as [|ia1]; [lia|].
        destruct (Nat.eq_dec ia1 ib1) as [E|E].
        * subst ia1. cbn [located] in La, Lb.
          destruct La as (p0 & p1 & l0 & l1 & E0 & E1 & F0 & F1 & Hra & Hca).
          destruct Lb as (p0' & p1' & l0' & l1' & E0' & E1' & F0' & F1' & Hrb & Hcb).
          rewrite E0 in E0'; rewrite E1 in E1'; rewrite F0 in F0'; rewrite F1 in F1'.
          inversion E0'; inversion E1'; inversion F0'; inversion F1'; subst p0' p1' l0' l1'.
          destruct Hca as [[Heq ->]|[Hlt ->]]; destruct Hcb as [[Heq' ->]|[Hlt' ->]]; try lra.
          -- rewrite edist_refl. lra.
          -- pose proof (seg_length ib1 p0 p1 l0 l1 E0 E1 F0 F1) as Hseg.
             pose proof (edist_sq p0 p1) as Sq. rewrite Hseg in Sq.
             apply Req_le. apply edist_eq; [lra|]. unfold interp2. cbn [fst snd].
             apply segment_isometry; [exact Hlt|]. symmetry. exact Sq.
        * (* ia1 > ib1: l_(ib) <= l_(ia1) <= da <= db <= l_(ib): everything collapses *)
          destruct (located_lower da ia1 qa La) as (p0 & l0 & E0 & F0 & Hl0 & Dq0).
          destruct (located_upper db (S ib1) qb Lb) as (pb1 & lb1 & Epb1 & Elb1 & Hdb1 & Dqb1).
          pose proof (lens_sorted (S ib1) ia1 lb1 l0 ltac:(lia) Elb1 F0) as Hs.
          assert (l0 = lb1) by lra. subst l0. assert (da = lb1) by lra. assert (db = lb1) by lra. subst da.
          pose proof (same_length_same_vertex ia1 (S ib1) p0 pb1 lb1 E0 Epb1 F0 Elb1) as <-.
          pose proof (edist_triangle qa p0 qb) as Htri. rewrite (edist_sym qa p0), (edist_sym p0 qb) in Htri. lra.
  Qed.

  Lemma interpolate_lipschitz da db qa qb :
    0 <= da <= L -> 0 <= db <= L ->
    interpolate path lens (search lens da) da = Done qa ->
    interpolate path lens (search lens db) db = Done qb ->
    edist qa qb <= Rabs (da - db).
  Proof.
    intros Ha Hb Qa Qb. destruct (Rle_lt_dec da db) as [H|H].
    - rewrite Rabs_left1 by lra. pose proof (interpolate_lipschitz_le da db qa qb ltac:(lra) H ltac:(lra) Qa Qb). lra.
    - rewrite Rabs_pos_eq by lra. rewrite edist_sym.
      pose proof (interpolate_lipschitz_le db da qb qa ltac:(lra) ltac:(lra) ltac:(lra) Qb Qa). lra.
  Qed.

  (* T19b: between any two progress values the position moves by at most
     |a - b| * dist, across all segments *)
  Theorem position_at_lipschitz a b :
    exists qa qb, position path lens a = Done qa /\ position path lens b = Done qb /\
                  edist qa qb <= Rabs (a - b) * L.
  Proof.
    pose proof L_ge0 as HL.
    assert (Hr : forall p, 0 <= clamp01_R p * L <= L).
    { intros p. pose proof (clamp01_R_range p). split; [apply Rmult_le_pos; lra|].
      replace L with (1 * L) at 2 by ring. apply Rmult_le_compat_r; lra. }
    unfold position_at_g. rewrite !progress_dist.
    destruct (locate _ (Hr a)) as (qa & Qa & _). destruct (locate _ (Hr b)) as (qb & Qb & _).
    exists qa, qb. split; [exact Qa|]. split; [exact Qb|].
    apply Rle_trans with (1 := interpolate_lipschitz _ _ qa qb (Hr a) (Hr b) Qa Qb).
    rewrite <- Rmult_minus_distr_r, Rabs_mult, (Rabs_pos_eq L HL).
    apply Rmult_le_compat_r; [exact HL|apply clamp01_R_lipschitz].
  Qed.
  (* ---------- the near-zero-segment guard at its real width ----------
     with the guard |d0 - d1| <= eps for eps > 0 (the code: f64::EPSILON) a
     position inside a segment not longer than eps is reported as the
     segment's first vertex: at most eps away from the unguarded position *)
  Lemma guard_close eps d : 0 <= eps -> 0 <= d <= L ->
    exists q0 qe, interpolate path lens (search lens d) d = Done q0 /\
                  interpolate_g (near_R eps) interp2 (0, 0) path lens (search lens d) d = Done qe /\
                  edist qe q0 <= eps.
  Proof.
    intros He Hd. destruct (locate d Hd) as (q0 & Hq & Hloc). exists q0.
    destruct (search lens d) as [|i1].
    - destruct Hloc as [_ Hf]. exists q0. split; [exact Hq|]. split; [apply interpolate_g_zero; exact Hf|].
      rewrite edist_refl. exact He.
    - destruct (located_lower d i1 q0 Hloc) as (p0' & l0' & E0' & F0' & Hl0' & Dq).
      cbn [located] in Hloc. destruct Hloc as (p0 & p1 & l0 & l1 & E0 & E1 & F0 & F1 & Hr & Hc).
      rewrite E0 in E0'. rewrite F0 in F0'. inversion E0'; inversion F0'; subst p0' l0'.
      rewrite (interpolate_g_between (near_R eps) interp2 (0, 0) path lens i1 d p0 p1 l0 l1 E0 E1 F0 F1).
      unfold near_R. destruct (Rle_dec (Rabs (l0 - l1)) eps) as [Hn|Hn].
      + exists p0. split; [exact Hq|]. split; [reflexivity|].
        rewrite Rabs_left1 in Hn by lra. lra.
      + exists q0. split; [exact Hq|]. split; [|rewrite edist_refl; exact He].
        destruct Hc as [[Heq _]|[_ ->]]; [|reflexivity].
        exfalso. apply Hn. subst l1. rewrite Rminus_diag_eq by reflexivity. rewrite Rabs_R0. exact He.
  Qed.

  Theorem position_at_lipschitz_guard eps a b : 0 <= eps ->
    exists qa qb,
      position_at_g 0 1 Rmult Rltb Rgtb (near_R eps) interp2 (0, 0) search path lens a = Done qa /\
      position_at_g 0 1 Rmult Rltb Rgtb (near_R eps) interp2 (0, 0) search path lens b = Done qb /\
      edist qa qb <= Rabs (a - b) * L + 2 * eps.
  Proof.
    intros He. pose proof L_ge0 as HL.
    assert (Hr : forall p, 0 <= clamp01_R p * L <= L).
    { intros p. pose proof (clamp01_R_range p). split; [apply Rmult_le_pos; lra|].
      replace L with (1 * L) at 2 by ring. apply Rmult_le_compat_r; lra. }
    unfold position_at_g. rewrite !progress_dist.
    destruct (guard_close eps _ He (Hr a)) as (q0a & qa & Q0a & Qa & Ca).
    destruct (guard_close eps _ He (Hr b)) as (q0b & qb & Q0b & Qb & Cb).
    exists qa, qb. split; [exact Qa|]. split; [exact Qb|].
    pose proof (interpolate_lipschitz _ _ q0a q0b (Hr a) (Hr b) Q0a Q0b) as H0.
    assert (H1 : Rabs (clamp01_R a * L - clamp01_R b * L) <= Rabs (a - b) * L).
    { rewrite <- Rmult_minus_distr_r, Rabs_mult, (Rabs_pos_eq L HL).
      apply Rmult_le_compat_r; [exact HL|apply clamp01_R_lipschitz]. }
    pose proof (edist_triangle qa q0a qb) as T1. pose proof (edist_triangle q0a q0b qb) as T2.
    rewrite (edist_sym q0b qb) in T2. lra.
  Qed.
End Polyline.

(* readable names for the statements *)
Definition position_R (eps : R) (search : list R -> R -> nat) : list P2 -> list R -> R -> outcome P2 :=
  position_at_g 0 1 Rmult Rltb Rgtb (near_R eps) interp2 (0, 0) search.
Definition interpolate_R (eps : R) : list P2 -> list R -> nat -> R -> outcome P2 :=
  interpolate_g (near_R eps) interp2 (0, 0).

(* ---------- the Section hypothesis discharged: the transcribed search ---------- *)

Theorem std_position_at_zero path first p : path <> [] -> nth_error path 0 = Some first -> p <= 0 ->
  position_R 0 idx_of_dist_R path (cumlen path) p = Done first.
Proof. intros Hne Hf Hp. exact (position_at_zero_R path Hne idx_of_dist_R idx_of_dist_R_contract first Hf p Hp). Qed.

Theorem std_position_at_one path p : path <> [] -> 1 <= p ->
  position_R 0 idx_of_dist_R path (cumlen path) p = Done (last path (0, 0)).
Proof. intros Hne Hp. exact (position_at_one_R path Hne idx_of_dist_R idx_of_dist_R_contract p Hp). Qed.

Theorem std_position_at_vertex_fraction path j pj lj : path <> [] -> 0 < poly_len path ->
  nth_error path j = Some pj -> nth_error (cumlen path) j = Some lj ->
  position_R 0 idx_of_dist_R path (cumlen path) (lj / poly_len path) = Done pj.
Proof. intros Hne. exact (position_at_vertex_fraction path Hne idx_of_dist_R idx_of_dist_R_contract j pj lj). Qed.

Theorem std_position_at_lipschitz path a b : path <> [] ->
  exists qa qb, position_R 0 idx_of_dist_R path (cumlen path) a = Done qa /\
                position_R 0 idx_of_dist_R path (cumlen path) b = Done qb /\
                edist qa qb <= Rabs (a - b) * poly_len path.
Proof. intros Hne. exact (position_at_lipschitz path Hne idx_of_dist_R idx_of_dist_R_contract a b). Qed.

Theorem std_position_at_lipschitz_guard path eps a b : path <> [] -> 0 <= eps ->
  exists qa qb, position_R eps idx_of_dist_R path (cumlen path) a = Done qa /\
                position_R eps idx_of_dist_R path (cumlen path) b = Done qb /\
                edist qa qb <= Rabs (a - b) * poly_len path + 2 * eps.
Proof. intros Hne. exact (position_at_lipschitz_guard path Hne idx_of_dist_R idx_of_dist_R_contract eps a b). Qed.

(* non-vacuity: the 3-4-5 / 5-12-13 polyline; cumulative lengths 0, 5, 18 *)
Example cumlen_example : cumlen [(0, 0); (3, 4); (8, 16)] = [0; 5; 18] /\ poly_len [(0, 0); (3, 4); (8, 16)] = 18.
Proof.
  assert (E1 : edist (0, 0) (3, 4) = 5) by (apply edist_eq; cbn [fst snd]; lra).
  assert (E2 : edist (3, 4) (8, 16) = 13) by (apply edist_eq; cbn [fst snd]; lra).
  unfold cumlen, poly_len. cbn [cum_g fst snd]. rewrite E1, E2.
  replace (0 + 5) with 5 by ring. replace (5 + 13) with 18 by ring. split; reflexivity.
Qed.

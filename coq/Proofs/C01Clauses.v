(* C01Clauses: the individual "cannot panic / cannot overflow" clauses of C01
   that are not whole-decode totality (Proofs/DecodersTotal.v):
     T01b  `repeat_count as usize + 2`: the repeat count of an accepted slider
           is between 0 and cap - 1, so the node count is between 2 and
           cap + 1 — neither the cast nor the two `vec![..; nodes]` can blow up;
           and it holds of every slider in every decoded map;
     T01c  `NonZeroU32::new_unchecked(custom_sample_bank as u32)`: at both
           sites (HitSampleInfo::new, SamplePoint::apply) the argument is >= 2,
           and that is the only way a suffix comes into being. *)
From RM Require Import Model.Decoders Model.HitObjectSpec Proofs.FramingFacts
     Proofs.ControlPointsFacts Proofs.HitObjectLineFacts Proofs.C14Clauses Proofs.MapLevelFacts
     Proofs.DecodersFacts Proofs.DecodersTotal.
From RM Require Import Gen.Generated.
From Coq Require Import ZifyBool Permutation.
Open Scope Z_scope.

(* ------------------------------------------------------------------ *)
(* T01b                                                                *)

Definition nodes_ok (h : HitObject) : Prop :=
  match h_kind h with
  | KSlider s =>
      0 <= sl_repeat_count s <= Z.max 0 (repeat_cap - 1) /\
      Z.of_nat (length (sl_node_samples s)) = sl_repeat_count s + 2
  | _ => True
  end.

(* one accepted line pushes exactly one object, and it is [nodes_ok] *)
Theorem accepted_slider_nodes : forall st line st',
  parse_hit_objects st line = Done (st', Ok) ->
  exists obj, ho_objects st' = ho_objects st ++ [obj] /\ nodes_ok obj.
Proof.
  intros st line st' H.
  destruct (accepted_line st line st' H) as (f & k & obj & _ & _ & Ho & _ & _ & _ & _ & Hk & _).
  exists obj. split; [exact Ho|]. unfold nodes_ok.
  destruct (h_kind obj) as [c|s|sp|hd]; try exact I.
  cbn [kind_ok] in Hk.
  destruct Hk as (_ & _ & _ & _ & (raw & _ & Hraw & Hrep) & Hlen & _).
  split; [lia|]. rewrite Hlen. lia.
Qed.

Lemma parse_hit_objects_nodes : forall st line st' r,
  parse_hit_objects st line = Done (st', r) ->
  Forall nodes_ok (ho_objects st) -> Forall nodes_ok (ho_objects st').
Proof.
  intros st line st' [|] H Hall.
  - destruct (accepted_slider_nodes st line st' H) as (obj & -> & Hobj).
    apply Forall_app. split; [exact Hall|]. constructor; [exact Hobj|constructor].
  - destruct (rejected_state st line st' H) as (_ & -> & _). exact Hall.
Qed.

(* every object the parser state ever holds *)
Definition bm_nodes_ok (ob : outcome BMD) : Prop :=
  match ob with Done s => Forall nodes_ok (hod_objects (bmd_ho s)) | _ => True end.

Lemma bm_nodes_step : forall sec os l,
  bm_nodes_ok os -> bm_nodes_ok (fst (parser_of bm_parsers sec os l)).
Proof.
  intros sec [s|w|] l H; [|destruct sec; exact I ..].
  cbn [bm_nodes_ok] in H.
  destruct sec; open_parsers; unwrap;
    try (match goal with
         | |- context [parse_hit_objects ?a ?b] =>
             let E := fresh "E" in
             destruct (parse_hit_objects a b) as [[c r]| |] eqn:E; cbn [obind fst snd];
             [apply parse_hit_objects_nodes in E; [|exact H]|exact I|exact I]
         end);
    repeat case_inner; cbn [bm_nodes_ok]; proj_simpl; try exact I; try exact H.
  exact E.
Qed.

Lemma bm_nodes_create : forall v, bm_nodes_ok (Done (bmd_create v)).
Proof. intros v. constructor. Qed.

Theorem bm_state_nodes : forall pre,
  bm_nodes_ok (state_after (fun v => Done (bmd_create v)) bm_parsers pre).
Proof.
  apply (state_after_invariant _ _ bm_nodes_ok); [intros v; constructor|exact bm_nodes_step].
Qed.

(* ... and the finishing conversion keeps it: sort = permutation, the break
   pass only sets new_combo, the slider loop rewrites velocity and maps over
   the node samples *)
Lemma force_new_combo_nodes : forall h f, nodes_ok h -> nodes_ok (force_new_combo h f).
Proof.
  intros [st k sa] f. unfold nodes_ok, force_new_combo. cbn [h_kind h_start h_samples].
  destruct k as [c|s|sp|hd]; cbn [h_kind sl_repeat_count sl_node_samples]; auto.
Qed.

Lemma post_process_breaks_nodes : forall objs bs,
  Forall nodes_ok objs ->
  Forall nodes_ok (post_process_breaks h_start force_new_combo bs objs).
Proof.
  induction objs as [|h r IH]; intros bs H; cbn [post_process_breaks]; [constructor|].
  inversion H as [|? ? Hh Hr]; subst.
  destruct (skip_breaks bs (h_start h) false) as [bs' f].
  constructor; [apply force_new_combo_nodes; exact Hh|apply IH; exact Hr].
Qed.

Lemma apply_nodes_length : forall c start dur span nodes i,
  length (apply_nodes c start dur span i nodes) = length nodes.
Proof.
  intros c start dur span nodes. induction nodes as [|n r IH]; intros i; cbn [apply_nodes length];
    [reflexivity|]. rewrite IH. reflexivity.
Qed.

Section WithDist.
  Variable dist_of : Z -> list PCP -> option F64 -> outcome F64.

  Lemma process_object_nodes : forall c sm mode h h',
    process_object dist_of c sm mode h = Done h' -> nodes_ok h -> nodes_ok h'.
  Proof.
    intros c sm mode h h'. unfold process_object, nodes_ok.
    destruct (h_kind h) as [ci|s|sp|hd]; cbn [obind].
    - intros [= <-]. cbn. auto.
    - destruct (difficulty_point_at c (h_start h)) as [dp| |]; cbn [obind]; try discriminate.
      destruct (slider_duration dist_of _) as [d| |]; cbn [obind]; try discriminate.
      intros [= <-]. cbn [h_kind sl_repeat_count sl_node_samples].
      rewrite apply_nodes_length. auto.
    - intros [= <-]. cbn. auto.
    - intros [= <-]. cbn. auto.
  Qed.

  Lemma process_objects_nodes : forall c sm mode l l',
    process_objects dist_of c sm mode l = Done l' -> Forall nodes_ok l -> Forall nodes_ok l'.
  Proof.
    intros c sm mode l. induction l as [|h r IH]; intros l'; cbn [process_objects].
    - intros [= <-] _. constructor.
    - destruct (process_object dist_of c sm mode h) as [h'| |] eqn:Eh; cbn [obind]; try discriminate.
      destruct (process_objects dist_of c sm mode r) as [r'| |]; cbn [obind]; try discriminate.
      intros [= <-] H. inversion H as [|? ? Hh Hr]; subst.
      constructor; [exact (process_object_nodes _ _ _ _ _ Eh Hh)|apply IH; [reflexivity|exact Hr]].
  Qed.

  Lemma finish_hit_objects_nodes : forall c bs sm mode objs l,
    finish_hit_objects dist_of c bs sm mode objs = Done l ->
    Forall nodes_ok objs -> Forall nodes_ok l.
  Proof.
    intros c bs sm mode objs l. unfold finish_hit_objects. intros H Hall.
    apply (process_objects_nodes _ _ _ _ _ H).
    apply post_process_breaks_nodes.
    apply Forall_forall. intros x Hx. rewrite Forall_forall in Hall. apply Hall.
    apply (Permutation_in x (ssort_perm start_key objs)). exact Hx.
  Qed.

  (* every slider of every decoded Beatmap *)
  Theorem decoded_nodes_bounded : forall lines bv,
    decode_beatmap dist_of lines = Done bv -> Forall nodes_ok (hov_hit_objects (bmv_ho bv)).
  Proof.
    intros lines. unfold decode_beatmap.
    apply (driver_invariant _ _ _ bm_nodes_ok bm_nodes_create bm_nodes_step
             (fun ov => forall bv, ov = Done bv -> Forall nodes_ok (hov_hit_objects (bmv_ho bv)))).
    intros [s|w|] H bv; cbn [obind]; try discriminate.
    intros Hb. destruct (bmd_finish_inv dist_of s bv Hb) as (_ & _ & _ & _ & Hh).
    destruct (hod_finish_inv dist_of _ _ Hh) as (_ & _ & _ & _ & Hf).
    exact (finish_hit_objects_nodes _ _ _ _ _ _ Hf H).
  Qed.
End WithDist.

(* ------------------------------------------------------------------ *)
(* T01c                                                                *)

Definition suffix_ok (s : HitSampleInfo) : Prop := forall n, hs_suffix s = Some n -> 2 <= n.

Lemma hs_new_suffix : forall name bank custom volume, suffix_ok (hs_new name bank custom volume).
Proof.
  intros name bank custom volume n. unfold hs_new. cbn [hs_suffix].
  destruct (2 <=? custom) eqn:E; [intros [= <-]; lia|discriminate].
Qed.

Lemma sp_apply_suffix : forall p s, suffix_ok s -> suffix_ok (sp_apply p s).
Proof.
  intros p s H n. unfold sp_apply. destruct (hs_name s); cbn [hs_suffix]; [|discriminate].
  destruct ((hs_custom s =? 0) && (2 <=? sp_custom p)) eqn:E; [intros [= <-]; lia|apply H].
Qed.

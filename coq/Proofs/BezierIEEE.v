(* BezierIEEE: T01g for the binary32 instance, bounded control points.

   Setting: a Bezier segment of n control points whose coordinates are finite
   binary32 numbers of magnitude <= 2^E ([coord_ok E]); u = 2^(E-24) + 2^-150
   is the error of one computed midpoint ([BezierIEEEScalar.avg1_spec]).

   1. [nearL_subdiv]: the level-k entries of the binary32 de Casteljau
      triangle are within k*u of the exact triangle of the same parent (read
      over the reals): averaging does not amplify errors.  So every control
      point of either child is within (n-1)*u of the exact child's, it is
      finite, and its magnitude is again <= 2^E.
   2. [Inv_children]: if the real second differences of the parent's
      coordinates are bounded by D, those of either binary32 child are bounded
      by D/4 + 4(n-1)u  (exact contraction [dd_left]/[dd_right] + 1.).
      The fixed point of D -> D/4 + 4(n-1)u is 16(n-1)u/3.
   3. [Inv_flat]: for E <= 18, second differences <= 5/16 in either
      coordinate make the computed test `> 0.25` false on every triple
      ([BezierIEEEScalar.far32_false]).
   4. [within_ieee]: D <= a*4^d + 16(n-1)u/3 with a + 16(n-1)u/3 <= 5/16
      gives [within32 d]; with (n-1)*2^E <= 2^19 one has (n-1)u <= 2^-6 (+ 2^-131),
      a = 1/8 works and D_0 <= 4*2^E <= 2^20 <= 4^19/8: depth 19, the pinned
      fuel 2^20 ([T01g_ieee_bounded]). *)
From RM Require Import Model.ControlPoints Model.Curve Proofs.BezierTermination Proofs.DeCasteljau
     Proofs.BezierEqualPoints Proofs.BezierIEEEScalar.
From Flocq Require Import Core BinarySingleNaN.
From Coq Require Import Reals Lra Lia.
Open Scope R_scope.

Local Notation fin x := (is_finite x = true).
Local Notation bp := (bpow radix2).

(* a coordinate the theorem covers: finite, magnitude at most 2^E *)
Definition coord_ok (E : Z) (x : F32) : Prop := fin x /\ Rabs (B2R x) <= bp E.
Definition point_ok (E : Z) (p : Pos) : Prop := coord_ok E (px p) /\ coord_ok E (py p).

(* ---------- bounded lists of reals ---------- *)

Definition Bd (D : R) (l : list R) : Prop := Forall (fun x => Rabs x <= D) l.

Lemma Bd_A D X : Bd D X -> Bd D (A X).
Proof.
  unfold Bd, A. induction 1 as [|x X' Hx HF IH]; [constructor|].
  inversion HF as [|x2 X2 H2 HF2]; subst; [constructor|].
  rewrite lstep_cons2. constructor; [|exact IH].
  replace ((1 - 1 / 2) * x + 1 / 2 * x2) with (x / 2 + x2 / 2) by field.
  eapply Rle_trans; [apply Rabs_triang|].
  unfold Rdiv. rewrite !Rabs_mult, (Rabs_pos_eq (/ 2)) by lra. lra.
Qed.

Lemma Bd_hd D X : 0 <= D -> Bd D X -> Rabs (hd 0 X) <= D.
Proof. intros H0 [|x X' H _]; [cbn; rewrite Rabs_R0; exact H0|exact H]. Qed.

Lemma Bd_last D X : 0 <= D -> Bd D X -> Rabs (last X 0) <= D.
Proof.
  intros H0. unfold Bd. induction 1 as [|x X' Hx HF IH]; [cbn; rewrite Rabs_R0; exact H0|].
  inversion HF; subst; [exact Hx|exact IH].
Qed.

Lemma Bd_left D n : 0 <= D -> forall X, Bd D X -> Bd D (left n X).
Proof.
  intros H0. induction n as [|n IH]; intros X H; [constructor|].
  cbn [left]. constructor; [apply Bd_hd; assumption|]. apply IH, Bd_A, H.
Qed.

Lemma Bd_right D n : 0 <= D -> forall X, Bd D X -> Bd D (right n X).
Proof.
  intros H0. induction n as [|n IH]; intros X H; [constructor|].
  cbn [right]. apply Forall_app. split; [apply IH, Bd_A, H|].
  constructor; [apply Bd_last; assumption|constructor].
Qed.

Lemma Bd_quarter D X : Bd D X -> Bd (D / 4) (map quarter X).
Proof.
  unfold Bd. induction 1 as [|x X' Hx HF IH]; [constructor|].
  cbn [map]. constructor; [|exact IH]. unfold quarter, half.
  replace (x / 2 / 2) with (x * / 4) by field.
  rewrite Rabs_mult, (Rabs_pos_eq (/ 4)) by lra. lra.
Qed.

Lemma Bd_nonneg D x X : Bd D (x :: X) -> 0 <= D.
Proof. intros H. inversion H as [|? ? Hx _]; subst. pose proof (Rabs_pos x). lra. Qed.

(* second differences of either exact child *)
Lemma dd_left_Bd D n X : 0 <= D -> length X = n -> Bd D (dd X) -> Bd (D / 4) (dd (left n X)).
Proof.
  intros H0 HX H. destruct n as [|[|k]]; try constructor.
  rewrite (dd_left k X HX). apply Bd_quarter, Bd_left; assumption.
Qed.

Lemma dd_right_Bd D n X : 0 <= D -> length X = n -> Bd D (dd X) -> Bd (D / 4) (dd (right n X)).
Proof.
  intros H0 HX H. destruct n as [|[|k]]; try constructor.
  rewrite (dd_right k X HX). apply Bd_quarter, Bd_right; assumption.
Qed.

(* second differences of a perturbed list *)
Definition closeL (e : R) : list R -> list R -> Prop := Forall2 (fun x r => Rabs (x - r) <= e).

Lemma dd_close e X Rr : closeL e X Rr -> closeL (4 * e) (dd X) (dd Rr).
Proof.
  unfold closeL. induction 1 as [|x r X' R' Hxr HF IH]; [constructor|].
  inversion HF as [|x2 r2 X2 R2 H2 HF2]; subst; [constructor|].
  inversion HF2 as [|x3 r3 X3 R3 H3 HF3]; subst; [constructor|].
  rewrite !dd_cons3. constructor; [|exact IH].
  replace (x - 2 * x2 + x3 - (r - 2 * r2 + r3)) with ((x - r) + (-2) * (x2 - r2) + (x3 - r3)) by ring.
  eapply Rle_trans; [apply Rabs_triang|].
  eapply Rle_trans; [apply Rplus_le_compat_r, Rabs_triang|].
  rewrite Rabs_mult, (Rabs_left (-2)) by lra. lra.
Qed.

Lemma close_Bd e D X Rr : closeL e X Rr -> Bd D Rr -> Bd (D + e) X.
Proof.
  unfold closeL, Bd. induction 1 as [|x r X' R' Hxr HF IH]; intros HB; [constructor|].
  inversion HB as [|? ? Hr HB']; subst. constructor; [|apply IH; exact HB'].
  replace x with (r + (x - r)) by ring. eapply Rle_trans; [apply Rabs_triang|]. lra.
Qed.

(* ---------- the binary32 triangle against the exact one ---------- *)

Section Triangle.
  Variable E : Z.
  Hypothesis HE : (0 <= E <= 126)%Z.

  (* error of one computed midpoint *)
  Definition uE : R := bp (E - 25) + bp (-150).

  Lemma uE_pos : 0 < uE.
  Proof. unfold uE. pose proof (bpow_gt_0 radix2 (E - 25)). pose proof (bpow_gt_0 radix2 (-150)). lra. Qed.

  (* x is a covered coordinate within e of the real r *)
  Definition near (e : R) (x : F32) (r : R) : Prop := coord_ok E x /\ Rabs (B2R x - r) <= e.
  Definition nearL (e : R) : list F32 -> list R -> Prop := Forall2 (near e).

  Lemma near_mono e e' x r : e <= e' -> near e x r -> near e' x r.
  Proof. intros H [H1 H2]. split; [exact H1|lra]. Qed.

  Lemma nearL_mono e e' xs rs : e <= e' -> nearL e xs rs -> nearL e' xs rs.
  Proof. intros H. unfold nearL. induction 1; constructor; [eapply near_mono; eassumption|assumption]. Qed.

  Lemma near_zero e : 0 <= e -> near e S.zero 0.
  Proof.
    intros H. split; [split; [reflexivity|]|]; cbn [B2R S.zero fzero].
    - rewrite Rabs_R0. apply bpow_ge_0.
    - replace (0 - 0) with 0 by ring. rewrite Rabs_R0. exact H.
  Qed.

  Lemma near_avg e a b ra rb : near e a ra -> near e b rb ->
    near (e + uE) (avg1 a b) ((1 - 1 / 2) * ra + 1 / 2 * rb).
  Proof.
    intros [[Fa Ba] Ha] [[Fb Bb] Hb].
    destruct (avg1_spec E a b HE Fa Fb Ba Bb) as (Fm & Bm & Em).
    split; [split; assumption|]. fold uE in Em.
    replace (B2R (avg1 a b) - ((1 - 1 / 2) * ra + 1 / 2 * rb))
      with ((B2R (avg1 a b) - (B2R a + B2R b) / 2) + ((B2R a - ra) / 2 + (B2R b - rb) / 2)) by field.
    eapply Rle_trans; [apply Rabs_triang|]. rewrite Rplus_comm. apply Rplus_le_compat; [|exact Em].
    eapply Rle_trans; [apply Rabs_triang|].
    unfold Rdiv. rewrite !Rabs_mult, (Rabs_pos_eq (/ 2)) by lra. lra.
  Qed.

  Lemma nearL_A e xs rs : nearL e xs rs -> nearL (e + uE) (avg_step_g avg1 xs) (A rs).
  Proof.
    unfold nearL, A. induction 1 as [|x r xs' rs' Hxr HF IH]; [constructor|].
    inversion HF as [|x2 r2 xs2 rs2 H2 HF2]; subst; [constructor|].
    rewrite lstep_cons2.
    change (avg_step_g avg1 (x :: x2 :: xs2)) with (avg1 x x2 :: avg_step_g avg1 (x2 :: xs2)).
    constructor; [apply near_avg; assumption|exact IH].
  Qed.

  Lemma nearL_hd e xs rs : 0 <= e -> nearL e xs rs -> near e (hd S.zero xs) (hd 0 rs).
  Proof. intros H0 [|x r xs' rs' H _]; [apply near_zero; exact H0|exact H]. Qed.

  Lemma nearL_last e xs rs : 0 <= e -> nearL e xs rs -> near e (last xs S.zero) (last rs 0).
  Proof.
    intros H0. unfold nearL. induction 1 as [|x r xs' rs' Hxr HF IH]; [apply near_zero; exact H0|].
    inversion HF; subst; [exact Hxr|exact IH].
  Qed.

  (* level k of the triangle carries k midpoint errors; the deepest level
     that reaches a child of an n-point polygon is n - 1 *)
  Lemma nearL_subdiv n : forall e xs rs, 0 <= e -> nearL e xs rs ->
    nearL (e + INR (Nat.pred n) * uE) (fst (subdiv_g avg1 S.zero n xs)) (left n rs) /\
    nearL (e + INR (Nat.pred n) * uE) (snd (subdiv_g avg1 S.zero n xs)) (right n rs).
  Proof.
    pose proof uE_pos as Hu.
    induction n as [|k IH]; intros e xs rs H0 H; [split; constructor|].
    cbn [subdiv_g left right Nat.pred].
    assert (Hk : 0 <= INR k * uE) by (apply Rmult_le_pos; [apply pos_INR|lra]).
    specialize (IH (e + uE) (avg_step_g avg1 xs) (A rs) ltac:(lra) (nearL_A e xs rs H)).
    destruct (subdiv_g avg1 S.zero k (avg_step_g avg1 xs)) as [l r]. cbn [fst snd] in *.
    assert (IH' : nearL (e + INR k * uE) l (left k (A rs)) /\ nearL (e + INR k * uE) r (right k (A rs))).
    { destruct k as [|j].
      - cbn [left right] in *. destruct IH as [I1 I2]. inversion I1; inversion I2; subst. split; constructor.
      - cbn [Nat.pred] in IH. rewrite S_INR.
        replace (e + (INR j + 1) * uE) with (e + uE + INR j * uE) by ring. exact IH. }
    destruct IH' as [I1 I2]. split.
    - constructor; [|exact I1]. apply (near_mono e); [lra|]. apply nearL_hd; assumption.
    - apply Forall2_app; [exact I2|]. constructor; [|constructor].
      apply (near_mono e); [lra|]. apply nearL_last; assumption.
  Qed.

  Lemma nearL_self xs : Forall (coord_ok E) xs -> nearL 0 xs (map B2R xs).
  Proof.
    unfold nearL. induction 1 as [|x xs' Hx HF IH]; [constructor|].
    cbn [map]. constructor; [|exact IH]. split; [exact Hx|].
    replace (B2R x - B2R x) with 0 by ring. rewrite Rabs_R0. lra.
  Qed.

  Lemma nearL_ok e xs rs : nearL e xs rs -> Forall (coord_ok E) xs.
  Proof. unfold nearL. induction 1 as [|x r xs' rs' [Hx _] HF IH]; constructor; assumption. Qed.

  Lemma nearL_close e xs rs : nearL e xs rs -> closeL e (map B2R xs) rs.
  Proof.
    unfold nearL, closeL. induction 1 as [|x r xs' rs' [_ Hx] HF IH]; cbn [map]; constructor; assumption.
  Qed.

  (* one coordinate of either child: covered again, second differences
     contracted by 1/4 up to 4 (n-1) u *)
  Lemma child_coord D xs :
    Forall (coord_ok E) xs -> Bd D (dd (map B2R xs)) -> 0 <= D ->
    let n := length xs in
    let lr := subdiv_g avg1 S.zero n xs in
    let D' := D / 4 + 4 * (INR (Nat.pred n) * uE) in
    (Forall (coord_ok E) (fst lr) /\ Bd D' (dd (map B2R (fst lr)))) /\
    (Forall (coord_ok E) (snd lr) /\ Bd D' (dd (map B2R (snd lr)))).
  Proof.
    intros Hok HD H0 n lr D'.
    destruct (nearL_subdiv n 0 xs (map B2R xs) (Rle_refl 0) (nearL_self xs Hok)) as [NL NR].
    rewrite Rplus_0_l in NL, NR. fold lr in NL, NR.
    assert (Hlen : length (map B2R xs) = n) by apply map_length.
    split; (split; [eapply nearL_ok; eassumption|]).
    - apply (close_Bd _ _ _ (dd (left n (map B2R xs)))); [apply dd_close, nearL_close, NL|].
      apply dd_left_Bd; assumption.
    - apply (close_Bd _ _ _ (dd (right n (map B2R xs)))); [apply dd_close, nearL_close, NR|].
      apply dd_right_Bd; assumption.
  Qed.

  (* ---------- points ---------- *)

  Definition xs_of (pts : list Pos) : list F32 := map px pts.
  Definition ys_of (pts : list Pos) : list F32 := map py pts.

  Definition Inv (D : R) (pts : list Pos) : Prop :=
    Forall (coord_ok E) (xs_of pts) /\ Forall (coord_ok E) (ys_of pts) /\
    Bd D (dd (map B2R (xs_of pts))) /\ Bd D (dd (map B2R (ys_of pts))).

  Lemma sub32_xs pts :
    xs_of (fst (sub32 pts)) = fst (subdiv_g avg1 S.zero (length (xs_of pts)) (xs_of pts)) /\
    xs_of (snd (sub32 pts)) = snd (subdiv_g avg1 S.zero (length (xs_of pts)) (xs_of pts)).
  Proof.
    unfold xs_of. rewrite map_length. unfold sub32. rewrite model_subdiv.
    exact (map_subdiv avg2 avg1 pos0 S.zero px (fun a b => eq_refl) eq_refl (length pts) pts).
  Qed.

  Lemma sub32_ys pts :
    ys_of (fst (sub32 pts)) = fst (subdiv_g avg1 S.zero (length (ys_of pts)) (ys_of pts)) /\
    ys_of (snd (sub32 pts)) = snd (subdiv_g avg1 S.zero (length (ys_of pts)) (ys_of pts)).
  Proof.
    unfold ys_of. rewrite map_length. unfold sub32. rewrite model_subdiv.
    exact (map_subdiv avg2 avg1 pos0 S.zero py (fun a b => eq_refl) eq_refl (length pts) pts).
  Qed.

  Lemma Inv_children D pts : 0 <= D -> Inv D pts ->
    let D' := D / 4 + 4 * (INR (Nat.pred (length pts)) * uE) in
    Inv D' (fst (sub32 pts)) /\ Inv D' (snd (sub32 pts)).
  Proof.
    intros H0 (Ox & Oy & Dx & Dy) D'.
    destruct (sub32_xs pts) as [X1 X2]. destruct (sub32_ys pts) as [Y1 Y2].
    pose proof (child_coord D (xs_of pts) Ox Dx H0) as CX.
    pose proof (child_coord D (ys_of pts) Oy Dy H0) as CY.
    cbv zeta in CX, CY.
    assert (Lx : length (xs_of pts) = length pts) by apply map_length.
    assert (Ly : length (ys_of pts) = length pts) by apply map_length.
    rewrite <- X1, <- X2, Lx in CX. rewrite <- Y1, <- Y2, Ly in CY. fold D' in CX, CY.
    destruct CX as [[A1 A2] [A3 A4]]. destruct CY as [[B1 B2] [B3 B4]].
    split; (split; [|split; [|split]]); assumption.
  Qed.

  Lemma subdiv_g_length {T} (avg : T -> T -> T) d n : forall m,
    length (fst (subdiv_g avg d n m)) = n /\ length (snd (subdiv_g avg d n m)) = n.
  Proof.
    induction n as [|k IH]; intros m; [split; reflexivity|].
    cbn [subdiv_g]. specialize (IH (avg_step_g avg m)).
    destruct (subdiv_g avg d k (avg_step_g avg m)) as [l r]. cbn [fst snd] in *.
    destruct IH as [I1 I2]. split; [cbn [length]; rewrite I1; reflexivity|].
    rewrite app_length, I2. cbn [length]. lia.
  Qed.

  Lemma sub32_length pts :
    length (fst (sub32 pts)) = length pts /\ length (snd (sub32 pts)) = length pts.
  Proof. unfold sub32. rewrite model_subdiv. apply subdiv_g_length. Qed.

  (* the flatness test *)
  Lemma Inv_flat D pts : (E <= 18)%Z -> Inv D pts -> D <= 5 / 16 -> flat_enough pts = true.
  Proof.
    intros H18 HI HD. rewrite model_flat.
    induction pts as [|p|p q r IH] using list_ind2; try reflexivity.
    destruct r as [|s r]; [reflexivity|].
    destruct HI as (Ox & Oy & Dx & Dy). unfold xs_of, ys_of in *.
    cbn [map] in Ox, Oy, Dx, Dy. rewrite !dd_cons3 in Dx, Dy.
    inversion Ox as [|? ? [F1 B1] Ox1]; subst. inversion Oy as [|? ? [F4 B4] Oy1]; subst.
    inversion Ox1 as [|? ? [F2 B2] Ox2]; subst. inversion Oy1 as [|? ? [F5 B5] Oy2]; subst.
    inversion Ox2 as [|? ? [F3 B3] _]; subst. inversion Oy2 as [|? ? [F6 B6] _]; subst.
    inversion Dx as [|? ? Hx Dx1]; subst. inversion Dy as [|? ? Hy Dy1]; subst.
    change (flat_g far32 (p :: q :: s :: r)) with (if far32 p q s then false else flat_g far32 (q :: s :: r)).
    rewrite (far32_false E p q s (conj (proj1 HE) H18) F1 F2 F3 F4 F5 F6 B1 B2 B3 B4 B5 B6
               (Rle_trans _ _ _ Hx HD) (Rle_trans _ _ _ Hy HD)).
    apply IH. split; [exact Ox1|]. split; [exact Oy1|]. split; assumption.
  Qed.

  (* ---------- depth ---------- *)

  Lemma within_ieee a : (E <= 18)%Z -> 0 <= a ->
    forall d pts D,
    pts <> [] -> Inv D pts -> 0 <= D ->
    a + 16 / 3 * (INR (Nat.pred (length pts)) * uE) <= 5 / 16 ->
    D <= a * 4 ^ d + 16 / 3 * (INR (Nat.pred (length pts)) * uE) ->
    within32 d pts.
  Proof.
    intros H18 Ha. induction d as [|d IH]; intros pts D Hne HI H0 HF HD.
    - split; [exact Hne|]. left. apply (Inv_flat D); [exact H18|exact HI|]. cbn [pow] in HD. lra.
    - split; [exact Hne|]. right.
      destruct (Inv_children D pts H0 HI) as [IL IR]. cbv zeta in IL, IR.
      destruct (sub32_length pts) as [LL LR].
      assert (Hu : 0 <= INR (Nat.pred (length pts)) * uE)
        by (apply Rmult_le_pos; [apply pos_INR|pose proof uE_pos; lra]).
      assert (Hlen : (length pts <> 0)%nat) by (destruct pts; [congruence|discriminate]).
      set (D' := D / 4 + 4 * (INR (Nat.pred (length pts)) * uE)) in *.
      assert (H0' : 0 <= D') by (unfold D'; lra).
      assert (HD' : D' <= a * 4 ^ d + 16 / 3 * (INR (Nat.pred (length pts)) * uE))
        by (unfold D'; cbn [pow] in HD; lra).
      split.
      + apply (IH _ D'); try assumption; try (rewrite LL; assumption).
        intros Ee. rewrite Ee in LL. cbn [length] in LL. lia.
      + apply (IH _ D'); try assumption; try (rewrite LR; assumption).
        intros Ee. rewrite Ee in LR. cbn [length] in LR. lia.
  Qed.

  (* the second differences of covered coordinates are at most 4 * 2^E *)
  Lemma dd_initial xs : Forall (coord_ok E) xs -> Bd (4 * bp E) (dd (map B2R xs)).
  Proof.
    intros H. induction xs as [|a|a b r IH] using list_ind2; try constructor.
    destruct r as [|c r]; [constructor|].
    cbn [map]. rewrite dd_cons3.
    inversion H as [|? ? [_ Ba] H1]; subst. inversion H1 as [|? ? [_ Bb] H2]; subst.
    inversion H2 as [|? ? [_ Bc] _]; subst.
    constructor; [|apply IH; exact H1].
    eapply Rle_trans; [apply Rabs_triang|]. eapply Rle_trans; [apply Rplus_le_compat_r, Rabs_triang|].
    rewrite Rabs_Ropp, Rabs_mult, (Rabs_pos_eq 2) by lra. lra.
  Qed.

  Lemma Inv_initial pts : Forall (point_ok E) pts -> Inv (4 * bp E) pts.
  Proof.
    intros H.
    assert (Hx : Forall (coord_ok E) (xs_of pts))
      by (unfold xs_of; apply Forall_map; eapply Forall_impl; [|exact H]; intros p [Hp _]; exact Hp).
    assert (Hy : Forall (coord_ok E) (ys_of pts))
      by (unfold ys_of; apply Forall_map; eapply Forall_impl; [|exact H]; intros p [_ Hp]; exact Hp).
    split; [exact Hx|]. split; [exact Hy|]. split; apply dd_initial; assumption.
  Qed.
End Triangle.

(* ---------- the constants ---------- *)

(* (n - 1) * 2^E <= 2^19: (n - 1) * u <= 2^-6 + 2^-131 *)
Lemma noise_bound E n : (0 <= E)%Z -> (Z.of_nat n * 2 ^ E <= 2 ^ 19)%Z ->
  INR n * uE E <= bp (-6) + bp (-131).
Proof.
  intros HE HK. unfold uE. rewrite Rmult_plus_distr_l. apply Rplus_le_compat.
  - replace (E - 25)%Z with (E + -25)%Z by ring. rewrite bpow_plus, <- Rmult_assoc.
    replace (bp (-6)) with (bp 19 * bp (-25)) by (rewrite <- bpow_plus; reflexivity).
    apply Rmult_le_compat_r; [apply bpow_ge_0|].
    rewrite INR_IZR_INZ, <- (IZR_Zpower radix2 E HE), <- (IZR_Zpower radix2 19) by lia.
    rewrite <- mult_IZR. apply IZR_le. exact HK.
  - replace (bp (-131)) with (bp 19 * bp (-150)) by (rewrite <- bpow_plus; reflexivity).
    apply Rmult_le_compat_r; [apply bpow_ge_0|].
    assert (Hn : (Z.of_nat n <= 524288)%Z).
    { assert (0 < 2 ^ E)%Z by (apply Z.pow_pos_nonneg; lia).
      change (2 ^ 19)%Z with 524288%Z in HK. nia. }
    rewrite INR_IZR_INZ, <- (IZR_Zpower radix2 19) by lia. apply IZR_le. exact Hn.
Qed.

Lemma flat_short (pts : list Pos) : (length pts <= 2)%nat -> flat_enough pts = true.
Proof. destruct pts as [|a [|b [|c r]]]; cbn [length]; intros H; try reflexivity. lia. Qed.

(* T01g, binary32, bounded control points: depth 19 *)
Theorem within32_bounded E points :
  (0 <= E)%Z -> (Z.of_nat (length points - 1) * 2 ^ E <= 2 ^ 19)%Z ->
  points <> [] -> Forall (point_ok E) points ->
  within32 19 points.
Proof.
  intros HE HK Hne Hok.
  destruct (Nat.le_gt_cases (length points) 2) as [Hs|Hl].
  { apply (within_mono _ _ 0); [|lia]. split; [exact Hne|]. left. apply flat_short, Hs. }
  assert (H2E : (2 ^ E <= 2 ^ 18)%Z).
  { assert (2 <= Z.of_nat (length points - 1))%Z by lia.
    assert (0 < 2 ^ E)%Z by (apply Z.pow_pos_nonneg; lia).
    change (2 ^ 19)%Z with (2 * 2 ^ 18)%Z in HK. nia. }
  assert (H18 : (E <= 18)%Z) by (apply (Z.pow_le_mono_r_iff 2); lia).
  assert (HE' : (0 <= E <= 126)%Z) by lia.
  replace (length points - 1)%nat with (Nat.pred (length points)) in HK by lia.
  pose proof (noise_bound E _ HE HK) as HN.
  assert (Hsmall : bp (-6) + bp (-131) <= 9 / 256).
  { replace (bp (-6)) with (4 / 256) by (cbn; lra).
    assert (bp (-131) <= bp (-8)) by (apply bpow_le; lia).
    replace (bp (-8)) with (1 / 256) in H by (cbn; lra). lra. }
  assert (Hnn : 0 <= INR (Nat.pred (length points)) * uE E)
    by (apply Rmult_le_pos; [apply pos_INR|pose proof (uE_pos E); lra]).
  apply (within_ieee E HE' (1 / 8) H18 ltac:(lra) 19 points (4 * bp E)); try assumption.
  - apply Inv_initial. exact Hok.
  - pose proof (bpow_ge_0 radix2 E). lra.
  - lra.
  - assert (bp E <= bp 18) by (apply bpow_le; exact H18).
    replace (bp 18) with 262144 in H by (cbn; lra).
    assert (4 ^ 19 = 274877906944) by (cbn [pow]; lra). lra.
Qed.

Theorem T01g_ieee_bounded E path points :
  (0 <= E)%Z -> (Z.of_nat (length points - 1) * 2 ^ E <= 2 ^ 19)%Z ->
  points <> [] -> Forall (point_ok E) points ->
  exists path', approximate_bezier_L1 bezier_fuel path points tt = Done (path', tt).
Proof.
  intros HE HK Hne Hok. apply approximate_bezier_L1_depth19.
  apply (within32_bounded E); assumption.
Qed.

(* ---------- the pieces, as stated in Properties/C01.v ---------- *)

Lemma midpoint_ok E a b : (0 <= E <= 126)%Z -> coord_ok E a -> coord_ok E b ->
  coord_ok E (avg1 a b) /\ Rabs (B2R (avg1 a b) - (B2R a + B2R b) / 2) <= uE E.
Proof.
  intros HE [Fa Ba] [Fb Bb]. destruct (avg1_spec E a b HE Fa Fb Ba Bb) as (F & B & U).
  exact (conj (conj F B) U).
Qed.

Lemma flat_test_ok E D pts : (0 <= E <= 18)%Z -> Inv E D pts -> D <= 5 / 16 -> flat_enough pts = true.
Proof.
  intros HE. assert (H126 : (0 <= E <= 126)%Z) by lia. exact (Inv_flat E H126 D pts (proj2 HE)).
Qed.

Lemma contraction_ok E D pts : (0 <= E <= 126)%Z -> 0 <= D -> Inv E D pts ->
  let D' := D / 4 + 4 * (INR (Nat.pred (length pts)) * uE E) in
  Inv E D' (fst (sub32 pts)) /\ Inv E D' (snd (sub32 pts)).
Proof. intros HE. exact (Inv_children E HE D pts). Qed.

(* ---------- not vacuous ---------- *)

(* what `0,0,0,2,0,B|131072:-131072|-131072:131072|131072:131072,1,100`
   decodes to (control points are stored relative to the slider position):
   four control points, |x| <= 2^17, 3 * 2^17 <= 2^19; far from flat *)
Definition ex_seg : list Pos :=
  [mkPos (S.of_Z 0) (S.of_Z 0); mkPos (S.of_Z 131072) (S.of_Z (-131072));
   mkPos (S.of_Z (-131072)) (S.of_Z 131072); mkPos (S.of_Z 131072) (S.of_Z 131072)].

Lemma coord_ok_SF E (x : F32) s m e :
  B2SF x = SpecFloat.S754_finite s m e -> IZR (Zpos m) * bp e <= bp E -> coord_ok E x.
Proof.
  intros HS Hb. split; [rewrite <- is_finite_SF_B2SF, HS; reflexivity|].
  rewrite <- SF2R_B2SF, HS. unfold SF2R. rewrite <- F2R_Zabs, abs_cond_Zopp. unfold F2R. cbn [Fnum Fexp Z.abs].
  exact Hb.
Qed.

Lemma coord_ok_zero E : coord_ok E (S.of_Z 0).
Proof.
  split; [rewrite <- is_finite_SF_B2SF; vm_compute; reflexivity|].
  rewrite <- SF2R_B2SF. replace (B2SF (S.of_Z 0)) with (SpecFloat.S754_zero false) by (vm_compute; reflexivity).
  cbn [SF2R]. rewrite Rabs_R0. apply bpow_ge_0.
Qed.

Lemma ex_seg_ok : Forall (point_ok 17) ex_seg.
Proof.
  assert (Hp : coord_ok 17 (S.of_Z 131072))
    by (apply (coord_ok_SF 17 _ false 8388608 (-6)); [vm_compute; reflexivity|cbn; lra]).
  assert (Hn : coord_ok 17 (S.of_Z (-131072)))
    by (apply (coord_ok_SF 17 _ true 8388608 (-6)); [vm_compute; reflexivity|cbn; lra]).
  pose proof (coord_ok_zero 17) as Hz.
  unfold ex_seg. repeat (apply Forall_cons; [split; assumption|]). apply Forall_nil.
Qed.

Lemma ex_seg_not_flat : flat_enough ex_seg = false.
Proof. vm_compute. reflexivity. Qed.

Lemma ex_seg_dump :
  map dump_pos ex_seg = [[0; 0]; [1207959552; 3355443200]; [3355443200; 1207959552]; [1207959552; 1207959552]]%Z.
Proof. vm_compute. reflexivity. Qed.

Example ex_seg_terminates path :
  exists path', approximate_bezier_L1 bezier_fuel path ex_seg tt = Done (path', tt).
Proof. apply (T01g_ieee_bounded 17); [lia|vm_compute; discriminate|discriminate|exact ex_seg_ok]. Qed.

(* AdjustIEEEBase: a small toolkit for forward rounding-error analysis of
   straight-line binary32 / binary64 code (used by AdjustIEEE, InterpIEEE).

   [rel c v e]    : c = v * (1 + d)       for some |d| <= e
   [rela c v e a] : c = v * (1 + d) + h   for some |d| <= e, |h| <= a
   (c: the computed value, v: the exact value it stands for).

   Every correctly rounded operation of the model (S.* / D.* of Model/Floats,
   the two conversions) is given a specification of that form, under a "no
   overflow" side condition |exact result| <= 2^k, k < emax:
     - addition / subtraction: pure relative error u (no underflow term: a sum
       of floats in the subnormal range is exact);
     - multiplication, division, square root, narrowing conversion: relative
       error u plus an absolute underflow term eta (half the smallest
       subnormal); u = 2^-24, eta = 2^-150 for binary32, u = 2^-53,
       eta = 2^-1075 for binary64;
     - the widening conversion f32 -> f64 is exact. *)
From RM Require Import Model.Floats.
From Flocq Require Import Core Relative Plus_error BinarySingleNaN.
From Coq Require Import Reals Lra Psatz.
Open Scope R_scope.

Definition rel (c v e : R) : Prop := exists d, c = v * (1 + d) /\ Rabs d <= e.
Definition rela (c v e a : R) : Prop :=
  exists d h, c = v * (1 + d) + h /\ Rabs d <= e /\ Rabs h <= a.

(* ---------- algebra of relative errors ---------- *)

Lemma comb_le d1 d2 e1 e2 : Rabs d1 <= e1 -> Rabs d2 <= e2 ->
  Rabs (d1 + d2 + d1 * d2) <= e1 + e2 + e1 * e2.
Proof.
  intros H1 H2.
  eapply Rle_trans; [apply Rabs_triang|]. apply Rplus_le_compat.
  - eapply Rle_trans; [apply Rabs_triang|]. lra.
  - rewrite Rabs_mult. apply Rmult_le_compat; try apply Rabs_pos; assumption.
Qed.

Lemma rel_refl v : rel v v 0.
Proof. exists 0. split; [ring|rewrite Rabs_R0; lra]. Qed.

Lemma rel_weaken c v e e' : rel c v e -> e <= e' -> rel c v e'.
Proof. intros (d & E & B) H. exists d. split; [exact E|lra]. Qed.

Lemma rel_e_nonneg c v e : rel c v e -> 0 <= e.
Proof. intros (d & _ & B). pose proof (Rabs_pos d). lra. Qed.

Lemma rel_compose c1 c2 v e1 e2 : rel c1 v e1 -> rel c2 c1 e2 -> rel c2 v (e1 + e2 + e1 * e2).
Proof.
  intros (d1 & E1 & B1) (d2 & E2 & B2). exists (d1 + d2 + d1 * d2). split.
  - rewrite E2, E1. ring.
  - apply comb_le; assumption.
Qed.

Lemma rel_mul c1 c2 v1 v2 e1 e2 : rel c1 v1 e1 -> rel c2 v2 e2 ->
  rel (c1 * c2) (v1 * v2) (e1 + e2 + e1 * e2).
Proof.
  intros (d1 & E1 & B1) (d2 & E2 & B2). exists (d1 + d2 + d1 * d2). split.
  - rewrite E1, E2. ring.
  - apply comb_le; assumption.
Qed.

(* |c| <= |v| * (1 + e) *)
Lemma rel_abs_le c v e : rel c v e -> Rabs c <= Rabs v * (1 + e).
Proof.
  intros (d & E & B). rewrite E, Rabs_mult. apply Rmult_le_compat_l; [apply Rabs_pos|].
  eapply Rle_trans; [apply Rabs_triang|]. rewrite Rabs_R1. lra.
Qed.

(* |c| >= |v| * (1 - e) *)
Lemma rel_abs_ge c v e : rel c v e -> e <= 1 -> Rabs v * (1 - e) <= Rabs c.
Proof.
  intros (d & E & B) He. rewrite E, Rabs_mult. apply Rmult_le_compat_l; [apply Rabs_pos|].
  assert (Hd : -e <= d <= e) by (apply Rabs_le_inv in B; lra).
  rewrite Rabs_pos_eq by lra. lra.
Qed.

Lemma rel_nonneg c v e : rel c v e -> e <= 1 -> 0 <= v -> 0 <= c.
Proof.
  intros (d & E & B) He Hv. rewrite E. apply Rmult_le_pos; [exact Hv|].
  apply Rabs_le_inv in B. lra.
Qed.

Lemma rel_pos c v e : rel c v e -> e < 1 -> 0 < v -> 0 < c.
Proof.
  intros (d & E & B) He Hv. rewrite E. apply Rmult_lt_0_compat; [exact Hv|].
  apply Rabs_le_inv in B. lra.
Qed.

(* 1 / c *)
Lemma rel_inv c v e e' : rel c v e -> v <> 0 -> e < 1 -> e <= e' * (1 - e) ->
  rel (/ c) (/ v) e'.
Proof.
  intros (d & E & B) Hv He He'.
  assert (Hd : -e <= d <= e) by (apply Rabs_le_inv in B; lra).
  assert (H1 : 0 < 1 + d) by lra.
  assert (He0 : 0 <= e) by (pose proof (Rabs_pos d); lra).
  assert (He'0 : 0 <= e').
  { destruct (Rle_or_lt 0 e') as [H|H]; [exact H|]. exfalso.
    assert (e' * (1 - e) < 0); [|lra].
    replace (e' * (1 - e)) with (- ((- e') * (1 - e))) by ring.
    apply Ropp_lt_gt_0_contravar. apply Rmult_lt_0_compat; lra. }
  exists (/ (1 + d) - 1). split.
  - rewrite E. rewrite Rinv_mult_distr by lra. ring.
  - replace (/ (1 + d) - 1) with (- d * / (1 + d)) by (field; lra).
    rewrite Rabs_mult, Rabs_Ropp, (Rabs_pos_eq (/ (1 + d))) by (left; apply Rinv_0_lt_compat; exact H1).
    apply (Rmult_le_reg_r (1 + d)); [exact H1|].
    rewrite Rmult_assoc, Rinv_l, Rmult_1_r by lra.
    apply Rle_trans with e; [exact B|]. apply Rle_trans with (e' * (1 - e)); [exact He'|].
    apply Rmult_le_compat_l; [exact He'0|lra].
Qed.

(* sqrt c *)
Lemma rel_sqrt c v e : rel c v e -> 0 <= v -> e <= 1 -> rel (sqrt c) (sqrt v) e.
Proof.
  intros (d & E & B) Hv He.
  assert (Hd : -e <= d <= e) by (apply Rabs_le_inv in B; lra).
  assert (H1 : 0 <= 1 + d) by lra.
  exists (sqrt (1 + d) - 1). split.
  - rewrite E, sqrt_mult_alt by exact Hv. ring.
  - apply Rle_trans with (Rabs d); [|exact B].
    destruct (Rle_or_lt 0 d) as [Hp|Hn].
    + (* 1 <= sqrt (1 + d) <= 1 + d *)
      assert (L : 1 <= sqrt (1 + d)) by (rewrite <- sqrt_1 at 1; apply sqrt_le_1_alt; lra).
      assert (U : sqrt (1 + d) <= 1 + d).
      { rewrite <- (sqrt_square (1 + d)) at 2 by lra. apply sqrt_le_1_alt. nra. }
      rewrite !Rabs_pos_eq by lra. lra.
    + (* 1 + d <= sqrt (1 + d) <= 1 *)
      assert (U : sqrt (1 + d) <= 1) by (rewrite <- sqrt_1 at 2; apply sqrt_le_1_alt; lra).
      assert (P : 0 <= sqrt (1 + d)) by apply sqrt_pos.
      assert (L : 1 + d <= sqrt (1 + d)).
      { pose proof (sqrt_sqrt (1 + d) H1) as Q. nra. }
      rewrite (Rabs_left1 (sqrt (1 + d) - 1)) by lra. rewrite (Rabs_left d) by lra. lra.
Qed.

(* sum of two non-negative quantities carrying the same relative error *)
Lemma rel_add_nonneg c1 c2 v1 v2 e : rel c1 v1 e -> rel c2 v2 e -> 0 <= v1 -> 0 <= v2 ->
  rel (c1 + c2) (v1 + v2) e.
Proof.
  intros (d1 & E1 & B1) (d2 & E2 & B2) H1 H2.
  assert (He : 0 <= e) by (pose proof (Rabs_pos d1); lra).
  destruct (Req_dec (v1 + v2) 0) as [Z|NZ].
  - assert (v1 = 0) by lra. assert (v2 = 0) by lra. subst v1 v2.
    exists 0. split; [rewrite E1, E2; ring|rewrite Rabs_R0; exact He].
  - assert (Hs : 0 < v1 + v2) by lra.
    exists ((v1 * d1 + v2 * d2) / (v1 + v2)). split.
    + rewrite E1, E2. field. exact NZ.
    + unfold Rdiv. rewrite Rabs_mult, (Rabs_pos_eq (/ (v1 + v2))) by (left; apply Rinv_0_lt_compat; exact Hs).
      apply (Rmult_le_reg_r (v1 + v2)); [exact Hs|].
      rewrite Rmult_assoc, Rinv_l, Rmult_1_r by exact NZ.
      eapply Rle_trans; [apply Rabs_triang|]. rewrite !Rabs_mult, (Rabs_pos_eq v1), (Rabs_pos_eq v2) by assumption.
      assert (v1 * Rabs d1 <= v1 * e) by (apply Rmult_le_compat_l; assumption).
      assert (v2 * Rabs d2 <= v2 * e) by (apply Rmult_le_compat_l; assumption). lra.
Qed.

(* ---------- relative + absolute ---------- *)

Lemma rel_rela c v e : rel c v e -> rela c v e 0.
Proof. intros (d & E & B). exists d, 0. split; [rewrite E; ring|]. split; [exact B|rewrite Rabs_R0; lra]. Qed.

Lemma rela_weaken c v e a e' a' : rela c v e a -> e <= e' -> a <= a' -> rela c v e' a'.
Proof. intros (d & h & E & B & A) H1 H2. exists d, h. split; [exact E|]. split; lra. Qed.

Lemma rela_add_nonneg c1 c2 v1 v2 e a1 a2 : rela c1 v1 e a1 -> rela c2 v2 e a2 -> 0 <= v1 -> 0 <= v2 ->
  rela (c1 + c2) (v1 + v2) e (a1 + a2).
Proof.
  intros (d1 & h1 & E1 & B1 & A1) (d2 & h2 & E2 & B2 & A2) H1 H2.
  destruct (rel_add_nonneg (v1 * (1 + d1)) (v2 * (1 + d2)) v1 v2 e) as (d & E & B); try assumption.
  - exists d1. split; [reflexivity|exact B1].
  - exists d2. split; [reflexivity|exact B2].
  - exists d, (h1 + h2). split; [rewrite <- E, E1, E2; ring|]. split; [exact B|].
    eapply Rle_trans; [apply Rabs_triang|]. lra.
Qed.

(* an absolute term is a relative one when the exact value is bounded below *)
Lemma rela_absorb c v e a m t : rela c v e a -> 0 < m -> m <= Rabs v -> a <= t * m -> rel c v (e + t).
Proof.
  intros (d & h & E & B & A) Hm Hv Ht.
  assert (Hv0 : v <> 0) by (intros ->; rewrite Rabs_R0 in Hv; lra).
  exists (d + h / v). split; [rewrite E; field; exact Hv0|].
  eapply Rle_trans; [apply Rabs_triang|]. apply Rplus_le_compat; [exact B|].
  unfold Rdiv. rewrite Rabs_mult, Rabs_Rinv by exact Hv0.
  assert (Hp : 0 < Rabs v) by lra.
  apply (Rmult_le_reg_r (Rabs v)); [exact Hp|].
  rewrite Rmult_assoc, Rinv_l, Rmult_1_r by lra.
  assert (0 <= t).
  { destruct (Rle_or_lt 0 t) as [H|H]; [exact H|]. exfalso. pose proof (Rabs_pos h).
    assert (t * m < 0); [|lra]. replace (t * m) with (- ((- t) * m)) by ring.
    apply Ropp_lt_gt_0_contravar. apply Rmult_lt_0_compat; lra. }
  apply Rle_trans with (t * m); [lra|]. apply Rmult_le_compat_l; assumption.
Qed.

(* one rounding c' = c (1 + eps) + eta of a value c that stands for v *)
Lemma rel_round c c' v e ub : rel c v e -> rel c' c ub -> rel c' v (e + ub + e * ub).
Proof. apply rel_compose. Qed.

Lemma rela_round c c' v e a ub a' : rela c v e a -> rela c' c ub a' ->
  rela c' v (e + ub + e * ub) (a * (1 + ub) + a').
Proof.
  intros (d & h & E & B & A) (eps & eta & E' & B' & A').
  exists (d + eps + d * eps), (h * (1 + eps) + eta). split; [rewrite E', E; ring|].
  split; [apply comb_le; assumption|].
  eapply Rle_trans; [apply Rabs_triang|]. apply Rplus_le_compat; [|exact A'].
  rewrite Rabs_mult. apply Rmult_le_compat; try apply Rabs_pos; [exact A|].
  eapply Rle_trans; [apply Rabs_triang|]. rewrite Rabs_R1. lra.
Qed.

Lemma rela_mul c1 c2 v1 v2 e1 e2 a1 a2 M1 M2 :
  rela c1 v1 e1 a1 -> rela c2 v2 e2 a2 -> Rabs v1 <= M1 -> Rabs v2 <= M2 ->
  rela (c1 * c2) (v1 * v2) (e1 + e2 + e1 * e2)
       (a1 * (M2 * (1 + e2)) + M1 * (1 + e1) * a2 + a1 * a2).
Proof.
  intros (d1 & h1 & E1 & B1 & A1) (d2 & h2 & E2 & B2 & A2) H1 H2.
  exists (d1 + d2 + d1 * d2), (h1 * (v2 * (1 + d2)) + v1 * (1 + d1) * h2 + h1 * h2).
  split; [rewrite E1, E2; ring|]. split; [apply comb_le; assumption|].
  assert (P1 : Rabs (v1 * (1 + d1)) <= M1 * (1 + e1)).
  { rewrite Rabs_mult. apply Rmult_le_compat; try apply Rabs_pos; [exact H1|].
    eapply Rle_trans; [apply Rabs_triang|]. rewrite Rabs_R1. lra. }
  assert (P2 : Rabs (v2 * (1 + d2)) <= M2 * (1 + e2)).
  { rewrite Rabs_mult. apply Rmult_le_compat; try apply Rabs_pos; [exact H2|].
    eapply Rle_trans; [apply Rabs_triang|]. rewrite Rabs_R1. lra. }
  eapply Rle_trans; [apply Rabs_triang|]. apply Rplus_le_compat.
  - eapply Rle_trans; [apply Rabs_triang|]. apply Rplus_le_compat.
    + rewrite Rabs_mult. apply Rmult_le_compat; try apply Rabs_pos; assumption.
    + rewrite Rabs_mult. apply Rmult_le_compat; try apply Rabs_pos; assumption.
  - rewrite Rabs_mult. apply Rmult_le_compat; try apply Rabs_pos; assumption.
Qed.

(* the final comparison: |c - v| from a rela *)
Lemma rela_abs_err c v e a : rela c v e a -> Rabs (c - v) <= e * Rabs v + a.
Proof.
  intros (d & h & E & B & A). replace (c - v) with (v * d + h) by (rewrite E; ring).
  eapply Rle_trans; [apply Rabs_triang|]. apply Rplus_le_compat; [|exact A].
  rewrite Rabs_mult, Rmult_comm. apply Rmult_le_compat_r; [apply Rabs_pos|exact B].
Qed.

(* ---------- correctly rounded operations, generic format ---------- *)

Section Fmt.
  Variables prec emax : Z.
  Context (Hp : Prec_gt_0 prec) (He : Prec_lt_emax prec emax).
  Notation fl := (binary_float prec emax).
  Notation fexp := (SpecFloat.fexp prec emax).
  Notation RN := (round radix2 fexp (round_mode mode_NE)).
  Notation fin x := (is_finite x = true).
  Notation emin := (3 - emax - prec)%Z.

  Definition uro : R := / 2 * bpow radix2 (- prec + 1).
  Definition eta0 : R := / 2 * bpow radix2 emin.

  Local Instance vexp : Valid_exp fexp := fexp_correct prec emax Hp.

  Lemma uro_pos : 0 < uro.
  Proof. unfold uro. pose proof (bpow_gt_0 radix2 (- prec + 1)). lra. Qed.
  Lemma eta0_pos : 0 < eta0.
  Proof. unfold eta0. pose proof (bpow_gt_0 radix2 emin). lra. Qed.

  Lemma RN_gen x : rela (RN x) x uro eta0.
  Proof.
    destruct (error_N_FLT radix2 emin prec Hp (fun t => negb (Z.even t)) x) as (eps & eta & H1 & H2 & _ & H3).
    exists eps, eta. split; [exact H3|]. split; assumption.
  Qed.

  Lemma RN_plus x y : generic_format radix2 fexp x -> generic_format radix2 fexp y ->
    rel (RN (x + y)) (x + y) uro.
  Proof.
    intros Fx Fy.
    destruct (FLT_plus_error_N_ex radix2 emin prec (fun t => negb (Z.even t)) x y Fx Fy) as (eps & B & E).
    exists eps. split; [exact E|]. eapply Rle_trans; [exact B|]. apply u_rod1pu_ro_le_u_ro.
  Qed.

  Lemma RN_abs_le x k : (emin <= k)%Z -> Rabs x <= bpow radix2 k -> Rabs (RN x) <= bpow radix2 k.
  Proof.
    intros Hk H. apply abs_round_le_generic; [exact vexp|apply valid_rnd_N| |exact H].
    apply generic_format_bpow. unfold SpecFloat.fexp, SpecFloat.emin.
    pose proof Hp as Hp'. unfold Prec_gt_0 in Hp'. lia.
  Qed.

  Lemma no_overflow x k : (emin <= k < emax)%Z -> Rabs x <= bpow radix2 k ->
    Rlt_bool (Rabs (RN x)) (bpow radix2 emax) = true.
  Proof.
    intros Hk H. apply Rlt_bool_true. apply Rle_lt_trans with (bpow radix2 k); [apply RN_abs_le; [lia|exact H]|].
    apply bpow_lt. lia.
  Qed.

  Lemma plus_spec (a b : fl) k : fin a -> fin b -> (emin <= k < emax)%Z ->
    Rabs (B2R a + B2R b) <= bpow radix2 k ->
    fin (Bplus mode_NE a b) /\ Rabs (B2R (Bplus mode_NE a b)) <= bpow radix2 k /\
    rel (B2R (Bplus mode_NE a b)) (B2R a + B2R b) uro.
  Proof.
    intros Fa Fb Hk H. pose proof (Bplus_correct prec emax Hp He mode_NE a b Fa Fb) as C.
    rewrite (no_overflow _ k Hk H) in C. destruct C as (CR & CF & _). split; [exact CF|].
    rewrite CR. split; [apply RN_abs_le; [lia|exact H]|]. apply RN_plus; apply generic_format_B2R.
  Qed.

  Lemma minus_spec (a b : fl) k : fin a -> fin b -> (emin <= k < emax)%Z ->
    Rabs (B2R a - B2R b) <= bpow radix2 k ->
    fin (Bminus mode_NE a b) /\ Rabs (B2R (Bminus mode_NE a b)) <= bpow radix2 k /\
    rel (B2R (Bminus mode_NE a b)) (B2R a - B2R b) uro.
  Proof.
    intros Fa Fb Hk H. pose proof (Bminus_correct prec emax Hp He mode_NE a b Fa Fb) as C.
    rewrite (no_overflow _ k Hk H) in C. destruct C as (CR & CF & _). split; [exact CF|].
    rewrite CR. split; [apply RN_abs_le; [lia|exact H]|]. unfold Rminus. apply RN_plus; [apply generic_format_B2R|apply generic_format_opp, generic_format_B2R].
  Qed.

  Lemma mult_spec (a b : fl) k : fin a -> fin b -> (emin <= k < emax)%Z ->
    Rabs (B2R a * B2R b) <= bpow radix2 k ->
    fin (Bmult mode_NE a b) /\ Rabs (B2R (Bmult mode_NE a b)) <= bpow radix2 k /\
    rela (B2R (Bmult mode_NE a b)) (B2R a * B2R b) uro eta0.
  Proof.
    intros Fa Fb Hk H. pose proof (Bmult_correct prec emax Hp He mode_NE a b) as C.
    rewrite (no_overflow _ k Hk H) in C. destruct C as (CR & CF & _).
    split; [rewrite CF, Fa, Fb; reflexivity|]. rewrite CR. split; [apply RN_abs_le; [lia|exact H]|]. apply RN_gen.
  Qed.

  Lemma div_spec (a b : fl) k : fin a -> fin b -> B2R b <> 0 -> (emin <= k < emax)%Z ->
    Rabs (B2R a / B2R b) <= bpow radix2 k ->
    fin (Bdiv mode_NE a b) /\ Rabs (B2R (Bdiv mode_NE a b)) <= bpow radix2 k /\
    rela (B2R (Bdiv mode_NE a b)) (B2R a / B2R b) uro eta0.
  Proof.
    intros Fa Fb Hb Hk H. pose proof (Bdiv_correct prec emax Hp He mode_NE a b Hb) as C.
    rewrite (no_overflow _ k Hk H) in C. destruct C as (CR & CF & _).
    split; [rewrite CF; exact Fa|]. rewrite CR. split; [apply RN_abs_le; [lia|exact H]|]. apply RN_gen.
  Qed.

  Lemma sqrt_spec (a : fl) k : fin a -> 0 < B2R a -> (emin <= k)%Z -> sqrt (B2R a) <= bpow radix2 k ->
    fin (Bsqrt mode_NE a) /\ Rabs (B2R (Bsqrt mode_NE a)) <= bpow radix2 k /\
    rela (B2R (Bsqrt mode_NE a)) (sqrt (B2R a)) uro eta0.
  Proof.
    intros Fa Ha Hk H. destruct (Bsqrt_correct prec emax Hp He mode_NE a) as (CR & CF & _). split; [|split].
    - rewrite CF. destruct a as [s|s| |s m e Hm]; try discriminate; try reflexivity.
      destruct s; [|reflexivity]. exfalso.
      assert (B2R (B754_finite true m e Hm) < 0) by (apply F2R_lt_0; reflexivity). lra.
    - rewrite CR. apply RN_abs_le; [exact Hk|]. rewrite Rabs_pos_eq by apply sqrt_pos. exact H.
    - rewrite CR. apply RN_gen.
  Qed.

  (* conversion from an integer mantissa / exponent pair: one rounding *)
  Lemma normalize_spec (m e : Z) (sz : bool) k : (emin <= k < emax)%Z ->
    Rabs (F2R (Float radix2 m e)) <= bpow radix2 k ->
    fin (binary_normalize prec emax Hp He mode_NE m e sz) /\
    Rabs (B2R (binary_normalize prec emax Hp He mode_NE m e sz)) <= bpow radix2 k /\
    B2R (binary_normalize prec emax Hp He mode_NE m e sz) = RN (F2R (Float radix2 m e)).
  Proof.
    intros Hk H. pose proof (binary_normalize_correct prec emax Hp He mode_NE m e sz) as C. cbv zeta in C.
    rewrite (no_overflow _ k Hk H) in C. destruct C as (CR & CF & _). split; [exact CF|].
    split; [rewrite CR; apply RN_abs_le; [lia|exact H]|exact CR].
  Qed.
End Fmt.

(* ---------- the two formats of the model ---------- *)

Notation RN32 := (round radix2 (SpecFloat.fexp 24 128) (round_mode mode_NE)).
Notation RN64 := (round radix2 (SpecFloat.fexp 53 1024) (round_mode mode_NE)).

(* unit roundoffs and underflow terms, as numbers *)
Definition u32 : R := / 16777216.                 (* 2^-24 *)
Definition u64 : R := / 9007199254740992.         (* 2^-53 *)
Definition eta32 : R := bpow radix2 (-150).
Definition eta64 : R := bpow radix2 (-1075).

Lemma uro32 : uro 24 = u32.
Proof. unfold uro, u32. change (-24 + 1)%Z with (-23)%Z. cbn. lra. Qed.
Lemma uro64 : uro 53 = u64.
Proof. unfold uro, u64. change (-53 + 1)%Z with (-52)%Z. cbn. lra. Qed.
Lemma eta032 : eta0 24 128 = eta32.
Proof.
  unfold eta0, eta32. change (3 - 128 - 24)%Z with (-150 + 1)%Z. rewrite bpow_plus.
  change (bpow radix2 1) with 2. field.
Qed.
Lemma eta064 : eta0 53 1024 = eta64.
Proof.
  unfold eta0, eta64. change (3 - 1024 - 53)%Z with (-1075 + 1)%Z. rewrite bpow_plus.
  change (bpow radix2 1) with 2. field.
Qed.

Notation fin x := (is_finite x = true).

Lemma S_add_spec (a b : F32) k : fin a -> fin b -> (-149 <= k < 128)%Z ->
  Rabs (B2R a + B2R b) <= bpow radix2 k -> fin (S.add a b) /\ Rabs (B2R (S.add a b)) <= bpow radix2 k /\ rel (B2R (S.add a b)) (B2R a + B2R b) u32.
Proof. intros. rewrite <- uro32. apply (plus_spec 24 128 Hp32 He32 a b k); assumption || lia. Qed.

Lemma S_sub_spec (a b : F32) k : fin a -> fin b -> (-149 <= k < 128)%Z ->
  Rabs (B2R a - B2R b) <= bpow radix2 k -> fin (S.sub a b) /\ Rabs (B2R (S.sub a b)) <= bpow radix2 k /\ rel (B2R (S.sub a b)) (B2R a - B2R b) u32.
Proof. intros. rewrite <- uro32. apply (minus_spec 24 128 Hp32 He32 a b k); assumption || lia. Qed.

Lemma S_mul_spec (a b : F32) k : fin a -> fin b -> (-149 <= k < 128)%Z ->
  Rabs (B2R a * B2R b) <= bpow radix2 k -> fin (S.mul a b) /\ Rabs (B2R (S.mul a b)) <= bpow radix2 k /\ rela (B2R (S.mul a b)) (B2R a * B2R b) u32 eta32.
Proof. intros. rewrite <- uro32, <- eta032. apply (mult_spec 24 128 Hp32 He32 a b k); assumption || lia. Qed.

Lemma S_div_spec (a b : F32) k : fin a -> fin b -> B2R b <> 0 -> (-149 <= k < 128)%Z ->
  Rabs (B2R a / B2R b) <= bpow radix2 k -> fin (S.div a b) /\ Rabs (B2R (S.div a b)) <= bpow radix2 k /\ rela (B2R (S.div a b)) (B2R a / B2R b) u32 eta32.
Proof. intros. rewrite <- uro32, <- eta032. apply (div_spec 24 128 Hp32 He32 a b k); assumption || lia. Qed.

Lemma D_sub_spec (a b : F64) k : fin a -> fin b -> (-1074 <= k < 1024)%Z ->
  Rabs (B2R a - B2R b) <= bpow radix2 k -> fin (D.sub a b) /\ Rabs (B2R (D.sub a b)) <= bpow radix2 k /\ rel (B2R (D.sub a b)) (B2R a - B2R b) u64.
Proof. intros. rewrite <- uro64. apply (minus_spec 53 1024 Hp64 He64 a b k); assumption || lia. Qed.

Lemma D_mul_spec (a b : F64) k : fin a -> fin b -> (-1074 <= k < 1024)%Z ->
  Rabs (B2R a * B2R b) <= bpow radix2 k -> fin (D.mul a b) /\ Rabs (B2R (D.mul a b)) <= bpow radix2 k /\ rela (B2R (D.mul a b)) (B2R a * B2R b) u64 eta64.
Proof. intros. rewrite <- uro64, <- eta064. apply (mult_spec 53 1024 Hp64 He64 a b k); assumption || lia. Qed.

Lemma D_div_spec (a b : F64) k : fin a -> fin b -> B2R b <> 0 -> (-1074 <= k < 1024)%Z ->
  Rabs (B2R a / B2R b) <= bpow radix2 k -> fin (D.div a b) /\ Rabs (B2R (D.div a b)) <= bpow radix2 k /\ rela (B2R (D.div a b)) (B2R a / B2R b) u64 eta64.
Proof. intros. rewrite <- uro64, <- eta064. apply (div_spec 53 1024 Hp64 He64 a b k); assumption || lia. Qed.

Lemma D_sqrt_spec (a : F64) k : fin a -> 0 < B2R a -> (-1074 <= k)%Z -> sqrt (B2R a) <= bpow radix2 k ->
  fin (D.sqrt a) /\ Rabs (B2R (D.sqrt a)) <= bpow radix2 k /\ rela (B2R (D.sqrt a)) (sqrt (B2R a)) u64 eta64.
Proof. intros. rewrite <- uro64, <- eta064. apply (sqrt_spec 53 1024 Hp64 He64 a k); assumption || lia. Qed.

(* widening is exact *)
Lemma f64_of_f32_exact (x : F32) : fin x -> fin (f64_of_f32 x) /\ B2R (f64_of_f32 x) = B2R x.
Proof.
  intros Fx. destruct x as [s|s| |s m e Hm]; try discriminate; try (split; reflexivity).
  cbn [f64_of_f32]. unfold D.of_ZE, of_ZE.
  assert (Em : (if s then Z.neg m else Z.pos m) = cond_Zopp s (Z.pos m)) by (destruct s; reflexivity).
  rewrite Em.
  pose proof (abs_B2R_lt_emax 24 128 (B754_finite s m e Hm)) as Hlt. cbn [B2R] in Hlt.
  assert (Hk : Rabs (F2R (Float radix2 (cond_Zopp s (Z.pos m)) e)) <= bpow radix2 128) by lra.
  destruct (normalize_spec 53 1024 Hp64 He64 (cond_Zopp s (Z.pos m)) e s 128 ltac:(lia) Hk) as (F & _ & R).
  split; [exact F|]. rewrite R. cbn [B2R]. apply round_generic; [apply valid_rnd_N|].
  pose proof (generic_format_B2R 24 128 (B754_finite s m e Hm)) as G. cbn [B2R] in G.
  revert G. apply generic_inclusion_mag. intros _.
  unfold SpecFloat.fexp, SpecFloat.emin. lia.
Qed.

(* narrowing is one binary32 rounding *)
Lemma f32_of_f64_spec (x : F64) k : fin x -> (-149 <= k < 128)%Z -> Rabs (B2R x) <= bpow radix2 k ->
  fin (f32_of_f64 x) /\ Rabs (B2R (f32_of_f64 x)) <= bpow radix2 k /\ rela (B2R (f32_of_f64 x)) (B2R x) u32 eta32.
Proof.
  intros Fx Hk H. destruct x as [s|s| |s m e Hm]; try discriminate.
  - split; [reflexivity|]. cbn [f32_of_f64 B2R]. split; [rewrite Rabs_R0; left; apply bpow_gt_0|]. pose proof (rel_rela _ _ _ (rel_refl 0)) as R0.
    eapply rela_weaken; [exact R0|unfold u32; lra|unfold eta32; left; apply bpow_gt_0].
  - cbn [f32_of_f64]. unfold S.of_ZE, of_ZE.
    assert (Em : (if s then Z.neg m else Z.pos m) = cond_Zopp s (Z.pos m)) by (destruct s; reflexivity).
    rewrite Em. cbn [B2R] in H |- *.
    destruct (normalize_spec 24 128 Hp32 He32 (cond_Zopp s (Z.pos m)) e s k ltac:(lia) H) as (F & M & R).
    split; [exact F|]. split; [exact M|]. rewrite R, <- uro32, <- eta032. apply RN_gen. exact Hp32.
Qed.


(* sqrt with the factor 1/2: e <= e' * (2 - e) *)
Lemma rel_sqrt_half c v e e' : rel c v e -> 0 <= v -> e <= 1 -> e <= e' * (2 - e) -> rel (sqrt c) (sqrt v) e'.
Proof.
  intros (d & E & B) Hv He He'.
  assert (Hd : -e <= d <= e) by (apply Rabs_le_inv in B; lra).
  assert (He0 : 0 <= e) by (pose proof (Rabs_pos d); lra).
  assert (H1 : 0 <= 1 + d) by lra.
  assert (He'0 : 0 <= e').
  { destruct (Rle_or_lt 0 e') as [H|H]; [exact H|]. exfalso.
    assert (e' * (2 - e) < 0); [|lra].
    replace (e' * (2 - e)) with (- ((- e') * (2 - e))) by ring.
    apply Ropp_lt_gt_0_contravar. apply Rmult_lt_0_compat; lra. }
  exists (sqrt (1 + d) - 1). split.
  - rewrite E, sqrt_mult_alt by exact Hv. ring.
  - pose proof (sqrt_pos (1 + d)) as P. pose proof (sqrt_sqrt (1 + d) H1) as Q.
    set (x := sqrt (1 + d)) in *.
    destruct (Rle_or_lt 0 d) as [Hp|Hn].
    + (* 1 <= x <= 1 + d / 2 *)
      assert (L : 1 <= x) by (unfold x; rewrite <- sqrt_1 at 1; apply sqrt_le_1_alt; lra).
      assert (U : x <= 1 + d / 2) by nra.
      rewrite Rabs_pos_eq by lra. nra.
    + (* (1 - x) (1 + x) = - d, 1 + x >= 2 - e *)
      assert (U : x <= 1) by (unfold x; rewrite <- sqrt_1 at 2; apply sqrt_le_1_alt; lra).
      assert (L : 1 + d <= x) by nra.
      rewrite Rabs_left1 by lra.
      assert (K : (1 - x) * (2 - e) <= e' * (2 - e)) by nra.
      apply (Rmult_le_reg_r (2 - e)); [lra|]. lra.
Qed.

(* magnitudes *)
Lemma abs_mul_bpow a b k1 k2 : Rabs a <= bpow radix2 k1 -> Rabs b <= bpow radix2 k2 ->
  Rabs (a * b) <= bpow radix2 (k1 + k2).
Proof. intros H1 H2. rewrite Rabs_mult, bpow_plus. apply Rmult_le_compat; try apply Rabs_pos; assumption. Qed.

Lemma abs_add_bpow a b k : Rabs a <= bpow radix2 k -> Rabs b <= bpow radix2 k ->
  Rabs (a + b) <= bpow radix2 (k + 1).
Proof.
  intros H1 H2. rewrite bpow_plus_1. cbn [radix_val radix2].
  eapply Rle_trans; [apply Rabs_triang|]. lra.
Qed.

Lemma abs_sub_bpow a b k : Rabs a <= bpow radix2 k -> Rabs b <= bpow radix2 k ->
  Rabs (a - b) <= bpow radix2 (k + 1).
Proof. intros H1 H2. unfold Rminus. apply abs_add_bpow; [exact H1|rewrite Rabs_Ropp; exact H2]. Qed.

Lemma abs_le_bpow_mono a k k' : Rabs a <= bpow radix2 k -> (k <= k')%Z -> Rabs a <= bpow radix2 k'.
Proof. intros H Hk. eapply Rle_trans; [exact H|]. apply bpow_le. exact Hk. Qed.

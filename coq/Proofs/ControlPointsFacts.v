(* ControlPointsFacts: sortedness invariant, no-panic, and lookup
   characterisation for the control-point collections (C13). *)
From RM Require Import Model.ControlPoints Proofs.BSearch.
From Coq Require Import Sorting.Sorted.
Require Import ZifyBool.
Open Scope Z_scope.

(* ---------- generic list facts ---------- *)

Lemma SS_app_iff {A} (R : A -> A -> Prop) (l1 l2 : list A) :
  StronglySorted R (l1 ++ l2) <->
  StronglySorted R l1 /\ StronglySorted R l2 /\ Forall (fun a => Forall (R a) l2) l1.
Proof.
  induction l1 as [|a l1 IH]; cbn.
  - split; [intros H; repeat split; auto; constructor | intros (_ & H & _); exact H].
  - split.
    + intros H. inversion H as [|? ? HSS HF]; subst.
      apply IH in HSS. destruct HSS as (H1 & H2 & H3).
      apply Forall_app in HF. destruct HF as (HF1 & HF2).
      repeat split; auto; constructor; auto.
    + intros (H1 & H2 & H3). inversion H1 as [|? ? HSS HF]; subst.
      inversion H3 as [|? ? Ha Hr]; subst.
      constructor; [apply IH; auto | apply Forall_app; auto].
Qed.

Lemma insert_nth_app {A} (l1 l2 : list A) (x : A) :
  insert_nth (length l1) x (l1 ++ l2) = l1 ++ x :: l2.
Proof. induction l1 as [|a l1 IH]; cbn; [destruct l2; reflexivity | rewrite IH; reflexivity]. Qed.

Lemma replace_nth_app {A} (l1 l2 : list A) (x y : A) :
  replace_nth (length l1) x (l1 ++ y :: l2) = l1 ++ x :: l2.
Proof. induction l1 as [|a l1 IH]; cbn; [reflexivity | rewrite IH; reflexivity]. Qed.

Lemma nth_error_app_mid {A} (l1 l2 : list A) (x : A) :
  nth_error (l1 ++ x :: l2) (length l1) = Some x.
Proof. induction l1; cbn; auto. Qed.

Lemma nth_error_last {A} (l1 l2 : list A) :
  l1 <> [] -> nth_error (l1 ++ l2) (Nat.pred (length l1)) = last_opt l1.
Proof.
  induction l1 as [|a l1 IH]; [congruence|]. intros _.
  destruct l1 as [|b l1]; [reflexivity|].
  change (last_opt (a :: b :: l1)) with (last_opt (b :: l1)).
  rewrite <- IH by congruence. reflexivity.
Qed.

Lemma filter_all {A} (f : A -> bool) l : Forall (fun x => f x = true) l -> filter f l = l.
Proof. induction 1 as [|x l Hx _ IH]; cbn; [reflexivity | rewrite Hx, IH; reflexivity]. Qed.
Lemma filter_none {A} (f : A -> bool) l : Forall (fun x => f x = false) l -> filter f l = [].
Proof. induction 1 as [|x l Hx _ IH]; cbn; [reflexivity | rewrite Hx, IH; reflexivity]. Qed.

Lemma last_opt_app_single {A} (l : list A) (x : A) : last_opt (l ++ [x]) = Some x.
Proof.
  induction l as [|a l IH]; [reflexivity|].
  cbn [app]. destruct (l ++ [x]) eqn:E; [destruct l; discriminate|].
  cbn [last_opt]. exact IH.
Qed.

(* ---------- one collection ---------- *)

Section Coll.
  Context {P : Type} (time : P -> F64).
  Definition K (p : P) : Z := D.key (time p).
  Definition sorted (l : list P) : Prop := StronglySorted Z.lt (map K l).

  Lemma probe_is_compare t p : probe time t p = Z.compare (K p) (D.key t).
  Proof. reflexivity. Qed.

  (* what the search returns, as a split of the list *)
  Lemma search_split l t : sorted l ->
    match search time l t with
    | inl i => exists l1 p l2, l = l1 ++ p :: l2 /\ length l1 = i /\ K p = D.key t /\
                 Forall (fun q => K q < D.key t) l1 /\ Forall (fun q => D.key t < K q) l2
    | inr i => exists l1 l2, l = l1 ++ l2 /\ length l1 = i /\
                 Forall (fun q => K q < D.key t) l1 /\ Forall (fun q => D.key t < K q) l2
    end.
  Proof.
    intros Hs. unfold search.
    replace (bsearch_by (probe time t) l)
      with (bsearch_by (fun k => Z.compare k (D.key t)) (map K l))
      by (symmetry; apply (bsearch_by_map K (fun k => Z.compare k (D.key t)))).
    pose proof (bsearch_index_spec (map K l) (D.key t) (ksorted_of_SS _ Hs)) as H.
    cbv zeta in H. rewrite map_length in H.
    destruct (bsearch_by _ (map K l)) as [i|i].
    - destruct H as (Hi & Hk).
      destruct (nth_error l i) as [p|] eqn:Ep; [|apply nth_error_None in Ep; lia].
      exists (firstn i l), p, (skipn (S i) l).
      assert (Hkp : K p = D.key t).
      { rewrite <- Hk. unfold kth. erewrite nth_error_nth; [reflexivity|].
        rewrite nth_error_map, Ep. reflexivity. }
      split.
      { rewrite <- (firstn_skipn i l) at 1. f_equal.
        clear -Ep. revert l Ep. induction i as [|i IH]; intros [|a l] Ep; cbn in *; try discriminate.
        - congruence.
        - apply IH. exact Ep. }
      split; [apply firstn_length_le; lia|]. split; [exact Hkp|].
      pose proof (ksorted_of_SS _ Hs) as Hks.
      split.
      + rewrite <- Forall_map with (f := K) (P := fun k => k < D.key t). rewrite <- firstn_map.
        apply Forall_firstn_kth; [rewrite map_length; lia|].
        intros j Hj. rewrite <- Hk. apply Hks; [lia | rewrite map_length; lia].
      + rewrite <- Forall_map with (f := K) (P := fun k => D.key t < k). rewrite <- skipn_map.
        apply Forall_skipn_kth. intros j Hj1 Hj2. rewrite <- Hk. apply Hks; [lia | exact Hj2].
    - destruct H as (Hi & Hlt & Hgt).
      exists (firstn i l), (skipn i l).
      split; [symmetry; apply firstn_skipn|].
      split; [apply firstn_length_le; lia|]. split.
      + rewrite <- Forall_map with (f := K) (P := fun k => k < D.key t). rewrite <- firstn_map.
        apply Forall_firstn_kth; [rewrite map_length; lia | exact Hlt].
      + rewrite <- Forall_map with (f := K) (P := fun k => D.key t < k). rewrite <- skipn_map.
        apply Forall_skipn_kth. intros j Hj1 Hj2. rewrite map_length in Hj2. apply Hgt; assumption.
  Qed.

  (* sortedness of a split with a new middle element *)
  Lemma sorted_mid l1 l2 p :
    sorted (l1 ++ l2) ->
    Forall (fun q => K q < K p) l1 -> Forall (fun q => K p < K q) l2 ->
    sorted (l1 ++ p :: l2).
  Proof.
    unfold sorted. rewrite !map_app. cbn [map]. rewrite !SS_app_iff.
    intros (H1 & H2 & H3) Hl Hr. repeat split; auto.
    - constructor; [exact H2|]. apply Forall_map. exact Hr.
    - apply Forall_map. apply Forall_map in H3.
      rewrite Forall_forall in *. intros q Hq. constructor; [apply Hl; exact Hq|].
      apply H3. exact Hq.
  Qed.

  Lemma sorted_drop_mid l1 l2 q : sorted (l1 ++ q :: l2) -> sorted (l1 ++ l2).
  Proof.
    unfold sorted. rewrite !map_app. cbn [map]. rewrite !SS_app_iff.
    intros (H1 & H2 & H3). inversion H2; subst. repeat split; auto.
    eapply Forall_impl; [|exact H3]. intros a Ha. inversion Ha; auto.
  Qed.

  (* T13a (one list): put never panics and keeps the list strictly sorted *)
  Lemma put_sorted l p : sorted l -> exists l', put time l p = Done l' /\ sorted l'.
  Proof.
    intros Hs. unfold put. pose proof (search_split l (time p) Hs) as H.
    destruct (search time l (time p)) as [i|i].
    - destruct H as (l1 & q & l2 & -> & Hlen & Hk & Hl & Hr). subst i.
      rewrite app_length. cbn [length].
      replace (Nat.ltb (length l1) (length l1 + S (length l2))) with true
        by (symmetry; apply Nat.ltb_lt; lia).
      rewrite replace_nth_app. eexists; split; [reflexivity|].
      apply sorted_mid; [eapply sorted_drop_mid; exact Hs | exact Hl | exact Hr].
    - destruct H as (l1 & l2 & -> & Hlen & Hl & Hr). subst i.
      rewrite app_length.
      replace (Nat.leb (length l1) (length l1 + length l2)) with true
        by (symmetry; apply Nat.leb_le; lia).
      rewrite insert_nth_app. eexists; split; [reflexivity|].
      apply sorted_mid; assumption.
  Qed.

  (* what put does, exactly *)
  Lemma put_spec l p : sorted l ->
    exists l1 l2, put time l p = Done (l1 ++ p :: l2) /\
      Forall (fun q => K q < K p) l1 /\ Forall (fun q => K p < K q) l2 /\
      (l = l1 ++ l2 \/ exists q, l = l1 ++ q :: l2 /\ K q = K p).
  Proof.
    intros Hs. unfold put. pose proof (search_split l (time p) Hs) as H.
    destruct (search time l (time p)) as [i|i].
    - destruct H as (l1 & q & l2 & -> & Hlen & Hk & Hl & Hr). subst i.
      rewrite app_length. cbn [length].
      replace (Nat.ltb (length l1) (length l1 + S (length l2))) with true
        by (symmetry; apply Nat.ltb_lt; lia).
      rewrite replace_nth_app. exists l1, l2. repeat split; auto. right. exists q. auto.
    - destruct H as (l1 & l2 & -> & Hlen & Hl & Hr). subst i.
      rewrite app_length.
      replace (Nat.leb (length l1) (length l1 + length l2)) with true
        by (symmetry; apply Nat.leb_le; lia).
      rewrite insert_nth_app. exists l1, l2. repeat split; auto.
  Qed.

  (* the declarative lookup: the last point whose time is not after t *)
  Definition last_not_after (l : list P) (t : F64) : option P :=
    last_opt (filter (fun p => K p <=? D.key t) l).

  Lemma last_not_after_split l1 l2 t :
    Forall (fun q => K q <= D.key t) l1 -> Forall (fun q => D.key t < K q) l2 ->
    last_not_after (l1 ++ l2) t = last_opt l1.
  Proof.
    intros H1 H2. unfold last_not_after. rewrite filter_app.
    rewrite (filter_all _ l1), (filter_none _ l2), app_nil_r; auto.
    - eapply Forall_impl; [|exact H2]. cbv beta. intros. lia.
    - eapply Forall_impl; [|exact H1]. cbv beta. intros. lia.
  Qed.

  (* T13d: lookups *)
  Lemma at_opt_spec l t : sorted l -> at_opt time l t = Done (last_not_after l t).
  Proof.
    intros Hs. unfold at_opt. pose proof (search_split l t Hs) as H.
    destruct (search time l t) as [i|i].
    - destruct H as (l1 & p & l2 & -> & Hlen & Hk & Hl & Hr). subst i.
      unfold idx. rewrite nth_error_app_mid. cbn [obind].
      replace (l1 ++ p :: l2) with ((l1 ++ [p]) ++ l2) by (rewrite <- app_assoc; reflexivity).
      rewrite last_not_after_split; [rewrite last_opt_app_single; reflexivity| |exact Hr].
      apply Forall_app. split; [eapply Forall_impl; [|exact Hl]; cbv beta; intros; lia|].
      constructor; [lia|constructor].
    - destruct H as (l1 & l2 & -> & Hlen & Hl & Hr). subst i.
      rewrite last_not_after_split; [| eapply Forall_impl; [|exact Hl]; cbv beta; intros; lia | exact Hr].
      destruct l1 as [|a l1]; [reflexivity|].
      cbn [length]. unfold idx.
      pose proof (nth_error_last (a :: l1) l2 ltac:(congruence)) as E. cbn [length Nat.pred] in E.
      rewrite E. destruct (last_opt (a :: l1)) eqn:EL; [reflexivity|].
      exfalso. clear -EL. revert a EL. induction l1 as [|b l1 IH]; intros a EL; [discriminate|].
      apply (IH b). exact EL.
  Qed.

  Lemma at_first_spec l t : sorted l ->
    at_first time l t = match last_not_after l t with Some p => Some p | None => hd_error l end.
  Proof.
    intros Hs. unfold at_first. pose proof (search_split l t Hs) as H.
    destruct (search time l t) as [i|i].
    - destruct H as (l1 & p & l2 & -> & Hlen & Hk & Hl & Hr). subst i.
      rewrite nth_error_app_mid.
      replace (l1 ++ p :: l2) with ((l1 ++ [p]) ++ l2) by (rewrite <- app_assoc; reflexivity).
      rewrite last_not_after_split; [rewrite last_opt_app_single; reflexivity| |exact Hr].
      apply Forall_app. split; [eapply Forall_impl; [|exact Hl]; cbv beta; intros; lia|].
      constructor; [lia|constructor].
    - destruct H as (l1 & l2 & -> & Hlen & Hl & Hr). subst i.
      rewrite last_not_after_split; [| eapply Forall_impl; [|exact Hl]; cbv beta; intros; lia | exact Hr].
      destruct l1 as [|a l1]; [destruct l2; reflexivity|].
      rewrite (nth_error_last (a :: l1) l2 ltac:(congruence)).
      destruct (last_opt (a :: l1)) eqn:EL; [reflexivity|].
      exfalso. clear -EL. revert a EL. induction l1 as [|b l1 IH]; intros a EL; [discriminate|].
      apply (IH b). exact EL.
  Qed.
End Coll.

(* ---------- the four lists together ---------- *)

Definition cp_sorted (c : ControlPoints) : Prop :=
  sorted tp_time (cp_timing c) /\ sorted dp_time (cp_difficulty c) /\
  sorted ep_time (cp_effect c) /\ sorted sp_time (cp_sample c).

Lemma cp_empty_sorted : cp_sorted cp_empty.
Proof. repeat split; constructor. Qed.

Lemma cp_step_sorted c o : cp_sorted c -> exists c', cp_step c o = Done c' /\ cp_sorted c'.
Proof.
  intros (Ht & Hd & He & Hs). destruct o as [p|p|p|p]; cbn [cp_step].
  - unfold add_timing. destruct (put_sorted tp_time _ p Ht) as (l' & -> & Hl').
    cbn. eexists; split; [reflexivity|]. repeat split; assumption.
  - unfold add_difficulty, difficulty_point_at. rewrite (at_opt_spec dp_time _ _ Hd). cbn [obind].
    match goal with |- context [if ?b then _ else _] => destruct b end.
    + eexists; split; [reflexivity|]. repeat split; assumption.
    + destruct (put_sorted dp_time _ p Hd) as (l' & -> & Hl').
      cbn. eexists; split; [reflexivity|]. repeat split; assumption.
  - unfold add_effect, effect_point_at. rewrite (at_opt_spec ep_time _ _ He). cbn [obind].
    match goal with |- context [if ?b then _ else _] => destruct b end.
    + eexists; split; [reflexivity|]. repeat split; assumption.
    + destruct (put_sorted ep_time _ p He) as (l' & -> & Hl').
      cbn. eexists; split; [reflexivity|]. repeat split; assumption.
  - unfold add_sample. rewrite (at_opt_spec sp_time _ _ Hs). cbn [obind].
    match goal with |- context [if ?b then _ else _] => destruct b end.
    + eexists; split; [reflexivity|]. repeat split; assumption.
    + destruct (put_sorted sp_time _ p Hs) as (l' & -> & Hl').
      cbn. eexists; split; [reflexivity|]. repeat split; assumption.
Qed.

(* T13a: every add history, from any sorted collection, succeeds and stays sorted *)
Lemma cp_run_sorted ops : forall c, cp_sorted c -> exists c', cp_run c ops = Done c' /\ cp_sorted c'.
Proof.
  induction ops as [|o ops IH]; intros c Hc; cbn [cp_run].
  - exists c. split; [reflexivity|exact Hc].
  - destruct (cp_step_sorted c o Hc) as (c1 & -> & Hc1). cbn [obind]. apply IH. exact Hc1.
Qed.

(* strictly sorted keys => at most one point per time *)
Lemma sorted_NoDup {P} (time : P -> F64) l : sorted time l -> NoDup (map (K time) l).
Proof.
  unfold sorted. induction 1 as [|k ks HSS IH HF]; constructor; [|exact IH].
  intros Hin. rewrite Forall_forall in HF. specialize (HF k Hin). lia.
Qed.

(* T13b: redundancy decides between "unchanged" and "insert/replace at p.time" *)
Definition active_dp (c : ControlPoints) (t : F64) : DifficultyPoint :=
  match last_not_after dp_time (cp_difficulty c) t with Some e => e | None => dflt_dp end.
Definition active_ep (c : ControlPoints) (t : F64) : EffectPoint :=
  match last_not_after ep_time (cp_effect c) t with Some e => e | None => dflt_ep end.

Lemma add_difficulty_spec c p : cp_sorted c ->
  if dp_redundant p (active_dp c (dp_time p)) then add_difficulty c p = Done c
  else exists l1 l2,
      add_difficulty c p = Done (mkCP (cp_timing c) (l1 ++ p :: l2) (cp_effect c) (cp_sample c)) /\
      Forall (fun q => K dp_time q < K dp_time p) l1 /\ Forall (fun q => K dp_time p < K dp_time q) l2 /\
      (cp_difficulty c = l1 ++ l2 \/ exists q, cp_difficulty c = l1 ++ q :: l2 /\ K dp_time q = K dp_time p).
Proof.
  intros (Ht & Hd & He & Hs). unfold add_difficulty, difficulty_point_at, active_dp.
  rewrite (at_opt_spec dp_time _ _ Hd). cbn [obind].
  destruct (last_not_after dp_time (cp_difficulty c) (dp_time p)) as [e|];
    (match goal with |- context [if ?b then _ else _] => destruct b end; [reflexivity|]);
    destruct (put_spec dp_time _ p Hd) as (l1 & l2 & -> & H1 & H2 & H3);
    exists l1, l2; repeat split; auto.
Qed.

Lemma add_effect_spec c p : cp_sorted c ->
  if ep_redundant p (active_ep c (ep_time p)) then add_effect c p = Done c
  else exists l1 l2,
      add_effect c p = Done (mkCP (cp_timing c) (cp_difficulty c) (l1 ++ p :: l2) (cp_sample c)) /\
      Forall (fun q => K ep_time q < K ep_time p) l1 /\ Forall (fun q => K ep_time p < K ep_time q) l2 /\
      (cp_effect c = l1 ++ l2 \/ exists q, cp_effect c = l1 ++ q :: l2 /\ K ep_time q = K ep_time p).
Proof.
  intros (Ht & Hd & He & Hs). unfold add_effect, effect_point_at, active_ep.
  rewrite (at_opt_spec ep_time _ _ He). cbn [obind].
  destruct (last_not_after ep_time (cp_effect c) (ep_time p)) as [e|];
    (match goal with |- context [if ?b then _ else _] => destruct b end; [reflexivity|]);
    destruct (put_spec ep_time _ p He) as (l1 & l2 & -> & H1 & H2 & H3);
    exists l1, l2; repeat split; auto.
Qed.

(* sample points: never redundant before the first point *)
Lemma add_sample_spec c p : cp_sorted c ->
  if match last_not_after sp_time (cp_sample c) (sp_time p) with
     | Some e => sp_redundant p e | None => false end
  then add_sample c p = Done c
  else exists l1 l2,
      add_sample c p = Done (mkCP (cp_timing c) (cp_difficulty c) (cp_effect c) (l1 ++ p :: l2)) /\
      Forall (fun q => K sp_time q < K sp_time p) l1 /\ Forall (fun q => K sp_time p < K sp_time q) l2 /\
      (cp_sample c = l1 ++ l2 \/ exists q, cp_sample c = l1 ++ q :: l2 /\ K sp_time q = K sp_time p).
Proof.
  intros (Ht & Hd & He & Hs). unfold add_sample.
  rewrite (at_opt_spec sp_time _ _ Hs). cbn [obind].
  destruct (last_not_after sp_time (cp_sample c) (sp_time p)) as [e|].
  - destruct (sp_redundant p e); [reflexivity|].
    destruct (put_spec sp_time _ p Hs) as (l1 & l2 & -> & H1 & H2 & H3).
    exists l1, l2; repeat split; auto.
  - destruct (put_spec sp_time _ p Hs) as (l1 & l2 & -> & H1 & H2 & H3).
    exists l1, l2; repeat split; auto.
Qed.

Lemma add_timing_spec c p : cp_sorted c ->
  exists l1 l2,
      add_timing c p = Done (mkCP (l1 ++ p :: l2) (cp_difficulty c) (cp_effect c) (cp_sample c)) /\
      Forall (fun q => K tp_time q < K tp_time p) l1 /\ Forall (fun q => K tp_time p < K tp_time q) l2 /\
      (cp_timing c = l1 ++ l2 \/ exists q, cp_timing c = l1 ++ q :: l2 /\ K tp_time q = K tp_time p).
Proof.
  intros (Ht & Hd & He & Hs). unfold add_timing.
  destruct (put_spec tp_time _ p Ht) as (l1 & l2 & -> & H1 & H2 & H3).
  exists l1, l2; repeat split; auto.
Qed.

(* SliderEventsFacts: the lazy SliderEventsIter state machine equals the eager
   event list (C20), for every instance of the float operations. *)
From RM Require Import Model.SliderEvents.
Require Import ZifyBool.
Open Scope Z_scope.

(* ---------- outcome monad ---------- *)

Lemma obind_assoc {A B C} (x : outcome A) (f : A -> outcome B) (g : B -> outcome C) :
  obind (obind x f) g = obind x (fun a => obind (f a) g).
Proof. destruct x; reflexivity. Qed.

Lemma obind_ext {A B} (x : outcome A) (f g : A -> outcome B) :
  (forall a, f a = g a) -> obind x f = obind x g.
Proof. intros H. destruct x; cbn; auto. Qed.

(* ---------- i32 ---------- *)

Lemma i32_arith_in chk r : i32_min <= r <= i32_max -> i32_arith chk r = Done r.
Proof.
  intros H. unfold i32_arith.
  destruct (i32_min <=? r) eqn:E1; [|lia]. destruct (r <=? i32_max) eqn:E2; [|lia]. reflexivity.
Qed.

Lemma i32_min_neg : i32_min <= -1. Proof. unfold i32_min. lia. Qed.
Lemma i32_max_pos : 1 <= i32_max. Proof. unfold i32_max. lia. Qed.

Lemma rem2_odd s : 0 <= s -> (Z.rem s 2 =? 1) = Z.odd s.
Proof.
  intros H. rewrite Z.rem_mod_nonneg by lia. rewrite Zmod_odd. destruct (Z.odd s); reflexivity.
Qed.
Lemma rem2_even s : 0 <= s -> (Z.rem s 2 =? 0) = Z.even s.
Proof.
  intros H. rewrite Z.rem_mod_nonneg by lia. rewrite Zmod_even. destruct (Z.even s); reflexivity.
Qed.

Section Facts.
  Context {F : Type} (OP : fops F) (chk : bool).
  Notation ev := (event F).

  (* ---------- the tick loop ---------- *)

  Definition guard (len mdfe d : F) : bool :=
    f_le OP d len && negb (f_le OP (f_sub OP len mdfe) d).

  (* the tick pushed by the loop body for travelled distance d *)
  Definition mk_tick (len dur : F) (span : Z) (reversed : bool) (sst : F) (d : F) : ev :=
    let pp := f_div OP d len in
    mkEv KTick span sst
         (f_add OP sst (f_mul OP (if reversed then f_sub OP (c_one OP) pp else pp) dur)) pp.

  Lemma tick_loop_spec tf : forall it span reversed sst d buf,
    tick_loop OP tf it span reversed sst d buf =
    obind (tick_dists OP tf (it_len it) (it_mdfe it) (it_td it) d)
          (fun l => Done (rev (map (mk_tick (it_len it) (it_dur it) span reversed sst) l) ++ buf)).
  Proof.
    induction tf as [|k IH]; intros it span reversed sst d buf; [reflexivity|].
    cbn [tick_loop tick_dists].
    destruct (f_le OP d (it_len it)) eqn:E1; cbn [andb]; [|reflexivity].
    destruct (f_le OP (f_sub OP (it_len it) (it_mdfe it)) d) eqn:E2; cbn [negb]; [reflexivity|].
    rewrite IH, obind_assoc. apply obind_ext. intros l. cbn [obind map rev].
    rewrite <- app_assoc. reflexivity.
  Qed.

  Lemma tick_dists_no_panic tf : forall len mdfe td d w,
    tick_dists OP tf len mdfe td d <> Panic w.
  Proof.
    induction tf as [|k IH]; intros len mdfe td d w; cbn [tick_dists]; [discriminate|].
    destruct (_ && _); [|discriminate].
    specialize (IH len mdfe td (f_add OP d td) w).
    destruct (tick_dists OP k len mdfe td (f_add OP d td)); cbn; congruence.
  Qed.

  Lemma span_dists_no_panic tf len mdfe td w : span_dists OP tf len mdfe td <> Panic w.
  Proof. unfold span_dists. destruct (f_lt _ _ _); [apply tick_dists_no_panic | discriminate]. Qed.

  (* running sum: rsum td d j = (..((d + td) + td).. + td), j additions *)
  Fixpoint rsum (td d : F) (j : nat) : F :=
    match j with O => d | S j' => rsum td (f_add OP d td) j' end.

  Lemma rsum_S td d j : rsum td d (S j) = f_add OP (rsum td d j) td.
  Proof. revert d. induction j as [|j IH]; intros d; [reflexivity|]. cbn [rsum] in *. apply IH. Qed.

  (* declarative reading of the tick loop: the distances are exactly the
     running sums that pass the guard, up to the first one that does not *)
  Lemma tick_dists_char tf : forall len mdfe td d l,
    tick_dists OP tf len mdfe td d = Done l ->
    l = map (rsum td d) (seq 0 (length l)) /\
    Forall (fun x => guard len mdfe x = true) l /\
    guard len mdfe (rsum td d (length l)) = false.
  Proof.
    induction tf as [|k IH]; intros len mdfe td d l; cbn [tick_dists]; [discriminate|].
    fold (guard len mdfe d). destruct (guard len mdfe d) eqn:G.
    - destruct (tick_dists OP k len mdfe td (f_add OP d td)) as [l'| |] eqn:E; cbn [obind]; try discriminate.
      intros H. injection H as <-. destruct (IH _ _ _ _ _ E) as (H1 & H2 & H3).
      cbn [length seq map rsum]. repeat split.
      + f_equal. rewrite <- seq_shift, map_map. exact H1.
      + constructor; assumption.
      + exact H3.
    - intros H. injection H as <-. cbn. repeat split; [constructor | exact G].
  Qed.

  (* ---------- generate_ticks ---------- *)

  Section WithIt.
    Variable tf : nat.
    Variable it : iter F.
    Notation start := (it_start it).
    Notation dur := (it_dur it).
    Notation len := (it_len it).
    Notation n := (it_n it).

    Definition it_dists : outcome (list F) := span_dists OP tf len (it_mdfe it) (it_td it).

    Lemma mk_tick_sp s d :
      0 <= s ->
      mk_tick len dur s (Z.rem s 2 =? 1) (sp_sst OP start dur s) d = sp_tick OP start dur len s d.
    Proof. intros Hs. unfold mk_tick, sp_tick. rewrite rem2_odd by lia. reflexivity. Qed.

    Lemma repeat_sp s :
      0 <= s < i32_max ->
      new_repeat_point OP chk s (sp_sst OP start dur s) dur = Done (sp_repeat OP start dur s).
    Proof.
      intros Hs. unfold new_repeat_point. rewrite i32_arith_in by (unfold i32_min; lia).
      cbn [obind]. unfold sp_repeat. rewrite Z.rem_mod_nonneg by lia. reflexivity.
    Qed.

    Lemma ticks_part it' s rv sst b1 :
      it_len it' = len -> it_mdfe it' = it_mdfe it -> it_td it' = it_td it -> it_dur it' = dur ->
      (if f_lt OP (c_zero OP) (it_td it) then tick_loop OP tf it' s rv sst (it_td it) b1 else Done b1) =
      obind it_dists (fun ds => Done (rev (map (mk_tick len dur s rv sst) ds) ++ b1)).
    Proof.
      intros E1 E2 E3 E4. unfold it_dists, span_dists.
      destruct (f_lt OP (c_zero OP) (it_td it)); [|reflexivity].
      rewrite tick_loop_spec, E1, E2, E3, E4. reflexivity.
    Qed.

    Lemma generate_ticks_spec s st :
      0 <= n <= i32_max -> 0 <= s < n -> it_ticks it = [] ->
      generate_ticks OP chk tf (set_st it st) s =
      obind it_dists (fun ds => Done (set_ticks (set_st it st) (sp_span OP start dur len n ds s))).
    Proof.
      intros Hn Hs Ht. unfold generate_ticks.
      cbn [set_st it_n it_ticks it_start it_dur it_td it_len it_mdfe].
      rewrite i32_arith_in by (pose proof i32_min_neg; lia). cbn [obind].
      rewrite Ht. unfold push_repeat. cbn [it_dur].
      fold (sp_sst OP start dur s).
      assert (Hrep : forall b, (if s <? n - 1
                then obind (new_repeat_point OP chk s (sp_sst OP start dur s) dur) (fun r => Done (r :: b))
                else Done b) = Done ((if s <? n - 1 then [sp_repeat OP start dur s] else []) ++ b)).
      { intros b. destruct (s <? n - 1) eqn:Hr; [rewrite repeat_sp by lia|]; reflexivity. }
      unfold sp_span. rewrite (rem2_odd s) by lia.
      pose proof (mk_tick_sp s) as Hmk. rewrite (rem2_odd s) in Hmk by lia.
      destruct (Z.odd s) eqn:Hodd; cbn [andb negb].
      - (* reversed span: the repeat is pushed first, the ticks on top of it *)
        rewrite Hrep. cbn [obind]. rewrite ticks_part by reflexivity.
        rewrite obind_assoc. apply obind_ext. intros ds. cbn [obind].
        rewrite app_nil_r. unfold set_ticks. cbn [set_st it_start it_dur it_mdfe it_td it_len it_n it_st].
        do 4 f_equal. apply map_ext. intros d. apply Hmk. lia.
      - (* forward span: ticks, then the repeat, then the whole buffer reversed *)
        cbn [obind]. rewrite ticks_part by reflexivity.
        rewrite obind_assoc. apply obind_ext. intros ds. cbn [obind].
        rewrite app_nil_r, Hrep. cbn [obind]. unfold set_ticks.
        cbn [set_st it_start it_dur it_mdfe it_td it_len it_n it_st].
        rewrite rev_app_distr, rev_involutive.
        do 3 f_equal.
        + apply map_ext. intros d. apply Hmk. lia.
        + destruct (s <? n - 1); reflexivity.
    Qed.
  End WithIt.

  (* ---------- the state machine ---------- *)

  Section Steps.
    Variable tf : nat.

    Ltac simp_it :=
      cbn [set_st set_ticks it_st it_ticks it_n it_start it_dur it_len it_mdfe it_td] in *.

    (* reachable states for a span count in 0 .. i32::MAX *)
    Definition inv (it : iter F) : Prop :=
      0 <= it_n it <= i32_max /\
      match it_st it with
      | SHead => it_ticks it = []
      | STicks s => 0 <= s <= it_n it
      | _ => True
      end.

    Definition spans_from (n s : Z) : list Z :=
      map Z.of_nat (seq (Z.to_nat s) (Z.to_nat (n - s))).

    Lemma spans_from_cons n s : 0 <= s < n -> spans_from n s = s :: spans_from n (s + 1).
    Proof.
      intros H. unfold spans_from.
      replace (Z.to_nat (n - s)) with (S (Z.to_nat (n - (s + 1)))) by lia.
      cbn [seq map]. rewrite Z2Nat.id by lia. do 3 f_equal. lia.
    Qed.
    Lemma spans_from_nil n s : n <= s -> spans_from n s = [].
    Proof. intros H. unfold spans_from. replace (Z.to_nat (n - s)) with O by lia. reflexivity. Qed.
    Lemma spans_from_0 n : spans_from n 0 = spans n.
    Proof. unfold spans_from, spans. rewrite Z.sub_0_r. reflexivity. Qed.

    Definition dists_if (it : iter F) (b : bool) : outcome (list F) :=
      if b then it_dists tf it else Done [].
    Definition e_span (it : iter F) (ds : list F) (s : Z) : list ev :=
      sp_span OP (it_start it) (it_dur it) (it_len it) (it_n it) ds s.
    Definition e_lt (it : iter F) : ev := sp_last_tick OP (it_start it) (it_dur it) (it_n it).
    Definition e_tail (it : iter F) : ev := sp_tail OP (it_start it) (it_dur it) (it_n it).

    (* the events still to come from a state, eagerly *)
    Definition rest_spec (it : iter F) : outcome (list ev) :=
      match it_st it with
      | SHead =>
          obind (dists_if it (0 <? it_n it)) (fun ds =>
          Done (sp_head OP (it_start it) ::
                flat_map (e_span it ds) (spans_from (it_n it) 0) ++ [e_lt it; e_tail it]))
      | STicks s =>
          obind (dists_if it (s <? it_n it)) (fun ds =>
          Done (it_ticks it ++ flat_map (e_span it ds) (spans_from (it_n it) s) ++ [e_lt it; e_tail it]))
      | SLastTick => Done [e_lt it; e_tail it]
      | STail => Done [e_tail it]
      | SDone => Done []
      end.

    Definition cons_o (oe : option ev) (r : outcome (list ev)) : outcome (list ev) :=
      match oe with None => Done [] | Some e => obind r (fun l => Done (e :: l)) end.

    Lemma last_tick_sp it : 0 <= it_n it <= i32_max -> last_tick_event OP chk it = Done (e_lt it).
    Proof.
      intros Hn. unfold last_tick_event. rewrite i32_arith_in by (pose proof i32_min_neg; lia).
      cbn [obind]. unfold e_lt, sp_last_tick, sp_sst. rewrite rem2_even by lia. reflexivity.
    Qed.
    Lemma tail_sp it : 0 <= it_n it <= i32_max -> tail_event OP chk it = Done (e_tail it).
    Proof.
      intros Hn. unfold tail_event. rewrite i32_arith_in by (pose proof i32_min_neg; lia).
      cbn [obind]. unfold e_tail, sp_tail, sp_sst. rewrite Z.rem_mod_nonneg by lia. reflexivity.
    Qed.

    Lemma e_span_nil_last it ds s : e_span it ds s = [] -> ~ s < it_n it - 1.
    Proof.
      unfold e_span, sp_span. intros H Hlt. apply app_eq_nil in H. destruct H as [_ H].
      destruct (s <? it_n it - 1) eqn:E; [discriminate | lia].
    Qed.

    (* one call of next(): either the model fuel is exhausted, or it returns
       the first of the remaining events and moves to a state from which the
       rest follows *)
    Ltac norm Est :=
      unfold rest_spec, e_span, e_lt, e_tail, dists_if, it_dists; simp_it; rewrite ?Est; cbn [cons_o].

    Lemma next_step it : inv it -> forall fuel,
      (iter_next OP chk fuel tf it = OutOfFuel /\ ((4 <= fuel)%nat -> rest_spec it = OutOfFuel)) \/
      exists oe it', iter_next OP chk fuel tf it = Done (oe, it') /\ inv it' /\
                     rest_spec it = cons_o oe (rest_spec it').
    Proof.
      intros [Hn Hst] fuel.
      destruct fuel as [|k]; [left; split; [reflexivity | lia]|].
      cbn [iter_next]. destruct (it_st it) as [|s| | |] eqn:Est.
      - (* Head *)
        right. exists (Some (head_event OP it)), (set_st it (STicks 0)). split; [reflexivity|].
        split; [split; simp_it; lia|].
        norm Est. rewrite Hst. cbn [app]. rewrite obind_assoc.
        apply obind_ext. intros ds. reflexivity.
      - (* Ticks *)
        destruct (it_ticks it) as [|e r] eqn:Etk.
        + destruct (s =? it_n it) eqn:Esn.
          * (* all spans done: fall through to the last tick *)
            assert (s = it_n it) by lia. subst s.
            destruct k as [|k]; [left; split; [reflexivity | lia]|].
            cbn [iter_next]. simp_it. rewrite last_tick_sp by (simp_it; lia). cbn [obind].
            right. exists (Some (e_lt it)), (set_st (set_st it SLastTick) STail).
            split; [reflexivity|]. split; [split; simp_it; auto|].
            norm Est. rewrite Etk, Z.ltb_irrefl. cbn [obind].
            rewrite spans_from_nil by lia. reflexivity.
          * (* generate the ticks of span s *)
            assert (Hs : 0 <= s < it_n it) by lia.
            rewrite i32_arith_in by (unfold i32_min; lia). cbn [obind].
            rewrite generate_ticks_spec by (auto; lia).
            assert (Hlt : (s <? it_n it) = true) by lia.
            destruct (it_dists tf it) as [ds|w|] eqn:Ed; cbn [obind].
            -- destruct k as [|k]; [left; split; [reflexivity | lia]|].
               cbn [iter_next]. simp_it.
               fold (e_span it ds s).
               destruct (e_span it ds s) as [|e r] eqn:Esp.
               ++ (* empty last span: straight on to the last tick *)
                  pose proof (e_span_nil_last _ _ _ Esp) as Hl.
                  assert (Es1 : (s + 1 =? it_n it) = true) by lia. rewrite Es1.
                  destruct k as [|k]; [left; split; [reflexivity | lia]|].
                  cbn [iter_next]. simp_it. rewrite last_tick_sp by (simp_it; lia). cbn [obind].
                  right. eexists (Some _), _. split; [reflexivity|].
                  split; [split; simp_it; auto|].
                  unfold rest_spec. rewrite Est, Etk, Hlt. unfold dists_if. rewrite Ed. cbn [obind app].
                  rewrite spans_from_cons by lia. cbn [flat_map]. rewrite Esp.
                  rewrite spans_from_nil by lia. reflexivity.
               ++ right. eexists (Some e), _. split; [reflexivity|].
                  split; [split; simp_it; lia|].
                  unfold rest_spec at 1. rewrite Est, Etk, Hlt. unfold dists_if at 1. rewrite Ed.
                  cbn [obind app]. rewrite spans_from_cons by lia. cbn [flat_map]. rewrite Esp.
                  unfold rest_spec. simp_it. cbn [cons_o]. unfold dists_if.
                  match goal with |- context [it_dists tf ?x] =>
                    change (it_dists tf x) with (it_dists tf it) end.
                  destruct (s + 1 <? it_n it) eqn:E1.
                  ** rewrite Ed. cbn [obind]. rewrite <- app_assoc. reflexivity.
                  ** cbn [obind]. rewrite <- app_assoc. rewrite !spans_from_nil by lia. reflexivity.
            -- exfalso. exact (span_dists_no_panic _ _ _ _ _ Ed).
            -- left. split; [reflexivity|]. intros _. unfold rest_spec. rewrite Est, Hlt.
               unfold dists_if. rewrite Ed. reflexivity.
        + right. exists (Some e), (set_ticks it r). split; [reflexivity|].
          split; [split; simp_it; [lia | rewrite Est; exact Hst]|].
          norm Est. rewrite Etk. rewrite obind_assoc.
          apply obind_ext. intros ds. reflexivity.
      - (* LastTick *)
        rewrite last_tick_sp by lia. cbn [obind].
        right. eexists (Some _), _. split; [reflexivity|]. split; [split; simp_it; auto|].
        norm Est. reflexivity.
      - (* Tail *)
        rewrite tail_sp by lia. cbn [obind].
        right. eexists (Some _), _. split; [reflexivity|]. split; [split; simp_it; auto|].
        norm Est. reflexivity.
      - (* Done *)
        right. exists None, it. split; [reflexivity|]. split; [split; [lia | rewrite Est; exact I]|].
        norm Est. reflexivity.
    Qed.
  End Steps.

  (* ---------- collect ---------- *)

  Lemma rest_spec_no_panic tf it w : rest_spec tf it <> Panic w.
  Proof.
    unfold rest_spec, dists_if, it_dists.
    destruct (it_st it); try discriminate.
    - destruct (0 <? it_n it); [|discriminate].
      pose proof (span_dists_no_panic tf (it_len it) (it_mdfe it) (it_td it) w).
      destruct (span_dists OP tf (it_len it) (it_mdfe it) (it_td it)); cbn; congruence.
    - destruct (span <? it_n it); [|discriminate].
      pose proof (span_dists_no_panic tf (it_len it) (it_mdfe it) (it_td it) w).
      destruct (span_dists OP tf (it_len it) (it_mdfe it) (it_td it)); cbn; congruence.
  Qed.

  (* soundness: whatever collect returns, short of running out of fuel, is
     the eager list *)
  Lemma collect_sound tf fuel : forall m it, inv it ->
    collect_aux OP chk m fuel tf it = OutOfFuel \/
    collect_aux OP chk m fuel tf it = rest_spec tf it.
  Proof.
    induction m as [|m IH]; intros it Hinv; [left; reflexivity|].
    cbn [collect_aux].
    destruct (next_step tf it Hinv fuel) as [[E _]|(oe & it' & E & Hinv' & Hr)]; rewrite E; cbn [obind fst snd].
    - left; reflexivity.
    - destruct oe as [e|].
      + destruct (IH it' Hinv') as [E'|E']; rewrite E'.
        * left; reflexivity.
        * right. rewrite Hr. reflexivity.
      + right. rewrite Hr. reflexivity.
  Qed.

  (* completeness: with enough fuel the eager list is returned *)
  Lemma collect_complete tf fuel : (4 <= fuel)%nat -> forall m it evs, inv it ->
    rest_spec tf it = Done evs -> (length evs < m)%nat ->
    collect_aux OP chk m fuel tf it = Done evs.
  Proof.
    intros Hf. induction m as [|m IH]; intros it evs Hinv Hr Hl; [lia|].
    cbn [collect_aux].
    destruct (next_step tf it Hinv fuel) as [[E Hoof]|(oe & it' & E & Hinv' & Hr')]; rewrite E; cbn [obind fst snd].
    - rewrite (Hoof Hf) in Hr. discriminate.
    - rewrite Hr' in Hr. destruct oe as [e|]; cbn [cons_o] in Hr.
      + destruct (rest_spec tf it') as [evs'| |] eqn:E'; cbn [obind] in Hr; try discriminate.
        injection Hr as <-. cbn [length] in Hl.
        rewrite (IH it' evs' Hinv' E') by lia. reflexivity.
      + exact Hr.
  Qed.

  Lemma collect_oof tf fuel m it : inv it -> rest_spec tf it = OutOfFuel ->
    collect_aux OP chk m fuel tf it = OutOfFuel.
  Proof. intros Hinv Hr. destruct (collect_sound tf fuel m it Hinv) as [E|E]; congruence. Qed.

  (* ---------- new(..).collect() = the eager list ---------- *)

  Lemma sp_events_length start dur len n ds :
    (3 <= length (sp_events OP start dur len n ds))%nat.
  Proof. unfold sp_events. cbn [length]. rewrite app_length. cbn [length]. lia. Qed.

  Theorem run_eq_spec tf fuel p buf :
    0 <= p_n p <= i32_max ->
    (forall evs, events_spec OP tf p = Done evs -> (length evs < fuel)%nat) ->
    run OP chk fuel tf p buf = events_spec OP tf p.
  Proof.
    intros Hn Hfuel. unfold run, iter_new, events_spec in *.
    fold (sp_len OP p) (sp_mdfe OP p) in *.
    destruct (f_clamp_chk OP (p_td p) (c_zero OP) (sp_len OP p)) as [td|w|] eqn:Ec;
      cbn [obind] in *; try reflexivity.
    unfold vec_clear.
    set (it0 := mkIt (p_start p) (p_dur p) (sp_mdfe OP p) td (sp_len OP p) (p_n p) [] SHead).
    assert (Hinv : inv it0) by (split; unfold it0; cbn [it_n it_st it_ticks]; [lia | reflexivity]).
    assert (Hrs : rest_spec tf it0 =
                  obind (if 0 <? p_n p then span_dists OP tf (sp_len OP p) (sp_mdfe OP p) td else Done [])
                        (fun dists => Done (sp_events OP (p_start p) (p_dur p) (sp_len OP p) (p_n p) dists))).
    { unfold rest_spec, it0, dists_if, it_dists, sp_events, e_span, e_lt, e_tail.
      cbn [it_st it_n it_len it_mdfe it_td it_start it_dur]. rewrite spans_from_0. reflexivity. }
    rewrite <- Hrs in *. unfold collect.
    destruct (rest_spec tf it0) as [evs|w|] eqn:Er.
    - assert (Hl : (3 <= length evs)%nat).
      { destruct (if 0 <? p_n p then _ else _) as [ds| |]; cbn [obind] in Hrs; try discriminate.
        injection Hrs as ->. apply sp_events_length. }
      specialize (Hfuel evs eq_refl).
      apply collect_complete; auto; lia.
    - exfalso. exact (rest_spec_no_panic _ _ _ Er).
    - apply collect_oof; assumption.
  Qed.

  (* the buffer handed to new() is cleared: whatever it held is irrelevant *)
  Theorem run_buffer_independent tf fuel p buf1 buf2 :
    run OP chk fuel tf p buf1 = run OP chk fuel tf p buf2.
  Proof. reflexivity. Qed.
  Theorem iter_new_buffer_independent p buf1 buf2 :
    iter_new OP p buf1 = iter_new OP p buf2.
  Proof. reflexivity. Qed.

  (* soundness without any fuel premise *)
  Theorem run_sound tf fuel p buf evs :
    0 <= p_n p <= i32_max ->
    run OP chk fuel tf p buf = Done evs -> events_spec OP tf p = Done evs.
  Proof.
    intros Hn. unfold run, iter_new, events_spec.
    fold (sp_len OP p) (sp_mdfe OP p).
    destruct (f_clamp_chk OP (p_td p) (c_zero OP) (sp_len OP p)) as [td|w|] eqn:Ec;
      cbn [obind]; try discriminate.
    unfold vec_clear.
    set (it0 := mkIt (p_start p) (p_dur p) (sp_mdfe OP p) td (sp_len OP p) (p_n p) [] SHead).
    assert (Hinv : inv it0) by (split; unfold it0; cbn [it_n it_st it_ticks]; [lia | reflexivity]).
    assert (Hrs : rest_spec tf it0 =
                  obind (if 0 <? p_n p then span_dists OP tf (sp_len OP p) (sp_mdfe OP p) td else Done [])
                        (fun dists => Done (sp_events OP (p_start p) (p_dur p) (sp_len OP p) (p_n p) dists))).
    { unfold rest_spec, it0, dists_if, it_dists, sp_events, e_span, e_lt, e_tail.
      cbn [it_st it_n it_len it_mdfe it_td it_start it_dur]. rewrite spans_from_0. reflexivity. }
    rewrite <- Hrs. unfold collect. intros H.
    destruct (collect_sound tf fuel fuel it0 Hinv) as [E|E]; congruence.
  Qed.

  (* for a span count in range the stream never panics after new() *)
  Theorem run_no_panic tf fuel p buf w :
    0 <= p_n p <= i32_max ->
    run OP chk fuel tf p buf = Panic w -> iter_new OP p buf = Panic w.
  Proof.
    intros Hn. unfold run. destruct (iter_new OP p buf) as [it0|w'|] eqn:En; cbn [obind]; try congruence.
    intros H. exfalso.
    assert (Hinv : inv it0).
    { unfold iter_new in En. destruct (f_clamp_chk _ _ _ _); cbn [obind] in En; try discriminate.
      injection En as <-. split; cbn [it_n it_st it_ticks]; [lia | reflexivity]. }
    unfold collect in H.
    destruct (collect_sound tf fuel fuel it0 Hinv) as [E|E]; [congruence|].
    rewrite E in H. exact (rest_spec_no_panic _ _ _ H).
  Qed.

  (* ---------- reading the eager list ---------- *)

  (* what the tick distances are, without fuel *)
  Definition dists_ok (len mdfe td : F) (ds : list F) : Prop :=
    ds = map (rsum td td) (seq 0 (length ds)) /\
    Forall (fun d => f_le OP d len = true /\ f_le OP (f_sub OP len mdfe) d = false) ds /\
    (if f_lt OP (c_zero OP) td then guard len mdfe (rsum td td (length ds)) = false else ds = []).

  Lemma span_dists_ok tf len mdfe td ds :
    span_dists OP tf len mdfe td = Done ds -> dists_ok len mdfe td ds.
  Proof.
    unfold span_dists, dists_ok. destruct (f_lt OP (c_zero OP) td).
    - intros H. destruct (tick_dists_char _ _ _ _ _ _ H) as (H1 & H2 & H3).
      repeat split; auto. eapply Forall_impl; [|exact H2]. cbn beta. intros d Hd. unfold guard in Hd.
      destruct (f_le OP d len); [|discriminate]. destruct (f_le OP (f_sub OP len mdfe) d); [discriminate|].
      split; reflexivity.
    - intros H. injection H as <-. repeat split; constructor.
  Qed.

  Theorem events_spec_shape tf p evs :
    events_spec OP tf p = Done evs ->
    exists td ds,
      f_clamp_chk OP (p_td p) (c_zero OP) (sp_len OP p) = Done td /\
      evs = sp_events OP (p_start p) (p_dur p) (sp_len OP p) (p_n p) ds /\
      (0 < p_n p -> dists_ok (sp_len OP p) (sp_mdfe OP p) td ds) /\
      (p_n p <= 0 -> ds = []).
  Proof.
    unfold events_spec.
    destruct (f_clamp_chk OP (p_td p) (c_zero OP) (sp_len OP p)) as [td|w|]; cbn [obind]; try discriminate.
    destruct (0 <? p_n p) eqn:En.
    - destruct (span_dists OP tf (sp_len OP p) (sp_mdfe OP p) td) as [ds| |] eqn:Ed; cbn [obind]; try discriminate.
      intros H. injection H as <-. exists td, ds.
      split; [reflexivity|]. split; [reflexivity|]. split; [|lia].
      intros _. eapply span_dists_ok; eauto.
    - cbn [obind]. intros H. injection H as <-. exists td, [].
      split; [reflexivity|]. split; [reflexivity|]. split; [lia | reflexivity].
  Qed.

  (* a tick distance that is not > 0 (zero, negative zero, NaN) gives no ticks
     at all, for any fuel, and every repeat is still there *)
  Lemma flat_map_single {A B} (f : A -> list B) (g : A -> B) l :
    (forall x, In x l -> f x = [g x]) -> flat_map f l = map g l.
  Proof.
    induction l as [|a l IH]; intros H; [reflexivity|]. cbn [flat_map map].
    rewrite (H a (or_introl eq_refl)), IH; [reflexivity|]. intros x Hx. apply H. right; exact Hx.
  Qed.

  Lemma in_spans n x : In x (spans n) <-> 0 <= x < n.
  Proof.
    unfold spans. rewrite in_map_iff. split.
    - intros (k & <- & Hk). apply in_seq in Hk. lia.
    - intros H. exists (Z.to_nat x). split; [lia|]. apply in_seq. lia.
  Qed.

  Lemma spans_snoc n : 1 <= n -> spans n = spans (n - 1) ++ [n - 1].
  Proof.
    intros H. unfold spans. replace (Z.to_nat n) with (S (Z.to_nat (n - 1))) by lia.
    rewrite seq_S, map_app. cbn [map Nat.add]. do 2 f_equal. lia.
  Qed.

  Lemma sp_events_no_ticks start dur len n :
    sp_events OP start dur len n [] =
    sp_head OP start :: map (sp_repeat OP start dur) (spans (n - 1))
            ++ [sp_last_tick OP start dur n; sp_tail OP start dur n].
  Proof.
    unfold sp_events. do 2 f_equal.
    destruct (Z_lt_le_dec n 1) as [Hn|Hn].
    - unfold spans. replace (Z.to_nat n) with O by lia. replace (Z.to_nat (n - 1)) with O by lia. reflexivity.
    - rewrite (spans_snoc n Hn), flat_map_app. cbn [flat_map].
      unfold sp_span at 2. cbn [map]. rewrite Z.ltb_irrefl.
      destruct (Z.odd (n - 1)); cbn [rev app]; rewrite app_nil_r.
      all: apply flat_map_single; intros x Hx; apply in_spans in Hx; unfold sp_span; cbn [map rev];
        assert (E : (x <? n - 1) = true) by lia; rewrite E; destruct (Z.odd x); reflexivity.
  Qed.

  Theorem events_spec_no_ticks tf p td :
    f_clamp_chk OP (p_td p) (c_zero OP) (sp_len OP p) = Done td ->
    f_lt OP (c_zero OP) td = false ->
    events_spec OP tf p =
    Done (sp_head OP (p_start p) :: map (sp_repeat OP (p_start p) (p_dur p)) (spans (p_n p - 1))
            ++ [sp_last_tick OP (p_start p) (p_dur p) (p_n p); sp_tail OP (p_start p) (p_dur p) (p_n p)]).
  Proof.
    intros Ec Hlt. unfold events_spec. rewrite Ec. cbn [obind]. unfold span_dists. rewrite Hlt.
    destruct (0 <? p_n p); cbn [obind]; rewrite sp_events_no_ticks; reflexivity.
  Qed.

  (* the ticks of one span: kind, span index, span start, time and progress;
     the progress values are the same list d/len on every span, in travel
     order on even spans and reversed (chronological = mirrored) on odd spans *)
  Theorem sp_span_reading start dur len n ds s :
    exists tk,
      sp_span OP start dur len n ds s = tk ++ (if s <? n - 1 then [sp_repeat OP start dur s] else []) /\
      map ev_prog tk = (if Z.odd s then rev (map (fun d => f_div OP d len) ds)
                        else map (fun d => f_div OP d len) ds) /\
      Forall (fun e => ev_kind e = KTick /\ ev_span e = s /\ ev_sst e = sp_sst OP start dur s /\
                       ev_time e = f_add OP (sp_sst OP start dur s)
                                     (f_mul OP (if Z.odd s then f_sub OP (c_one OP) (ev_prog e)
                                                else ev_prog e) dur)) tk.
  Proof.
    unfold sp_span.
    assert (Hall : Forall (fun e => ev_kind e = KTick /\ ev_span e = s /\ ev_sst e = sp_sst OP start dur s /\
                       ev_time e = f_add OP (sp_sst OP start dur s)
                                     (f_mul OP (if Z.odd s then f_sub OP (c_one OP) (ev_prog e)
                                                else ev_prog e) dur)) (map (sp_tick OP start dur len s) ds)).
    { apply Forall_forall. intros e He. apply in_map_iff in He. destruct He as (d & <- & _).
      unfold sp_tick. cbn [ev_kind ev_span ev_sst ev_time ev_prog]. repeat split; reflexivity. }
    assert (Hp : map ev_prog (map (sp_tick OP start dur len s) ds) = map (fun d => f_div OP d len) ds).
    { rewrite map_map. apply map_ext. intros d. reflexivity. }
    destruct (Z.odd s).
    - eexists. split; [reflexivity|]. split.
      + rewrite map_rev, Hp. reflexivity.
      + apply Forall_rev. exact Hall.
    - eexists. split; [reflexivity|]. split; assumption.
  Qed.
End Facts.

(* ShiftControlPoints: control-point collections under a whole-millisecond
   shift of every time (C15/T15d).

   The binary search only looks at the results of the comparisons, so a
   collection whose comparisons against the probe time are unchanged is searched
   the same way.  With whole-number times every comparison is the integer
   comparison (Proofs/ShiftFloat.v), hence all four look-ups and
   ControlPoints::add commute with the shift. *)
From RM Require Import Model.ControlPoints Proofs.BSearch Proofs.ControlPointsFacts Proofs.ShiftFloat.
Require Import ZifyBool.
Open Scope Z_scope.

Definition out_map {A B} (f : A -> B) (x : outcome A) : outcome B :=
  match x with Done a => Done (f a) | Panic w => Panic w | OutOfFuel => OutOfFuel end.

Lemma out_map_obind {A B C} (f : B -> C) (x : outcome A) (k : A -> outcome B) :
  out_map f (obind x k) = obind x (fun a => out_map f (k a)).
Proof. destruct x; reflexivity. Qed.

(* ---------- the search depends on the comparison results only ---------- *)

Section SearchExt.
  Context {P Q : Type} (h : P -> Q) (f : P -> comparison) (g : Q -> comparison).

  (* the loop only asks "is the probe Greater?" *)
  Lemma bs_loop_ext (l : list P) :
    (forall p, In p l -> is_gt (f p) = is_gt (g (h p))) ->
    forall fuel base size, bs_loop fuel f l base size = bs_loop fuel g (map h l) base size.
  Proof.
    intros H. induction fuel as [|n IH]; intros base size; cbn [bs_loop]; [reflexivity|].
    destruct (Nat.leb size 1); [reflexivity|].
    rewrite nth_error_map.
    destruct (nth_error l (base + Nat.div size 2)) as [p|] eqn:E; cbn [option_map]; [|apply IH].
    specialize (H p (nth_error_In _ _ E)).
    destruct (f p), (g (h p)); cbn in H; try discriminate H; apply IH.
  Qed.

  (* which slot the result designates: Ok(i) and Err(i + 1) both mean "element i" *)
  Definition slot (r : nat + nat) : option nat :=
    match r with inl i => Some i | inr O => None | inr (S j) => Some j end.

  Lemma bsearch_slot_ext (l : list P) :
    (forall p, In p l -> is_gt (f p) = is_gt (g (h p))) ->
    slot (bsearch_by g (map h l)) = slot (bsearch_by f l).
  Proof.
    intros H. unfold bsearch_by. destruct l as [|x l]; [reflexivity|].
    cbn [map]. rewrite <- (map_cons h x l).
    rewrite <- (bs_loop_ext (x :: l) H), map_length, nth_error_map.
    destruct (nth_error (x :: l) _) as [p|] eqn:E; cbn [option_map]; [|reflexivity].
    specialize (H p (nth_error_In _ _ E)).
    destruct (f p), (g (h p)); cbn in H; try discriminate H; reflexivity.
  Qed.

  Lemma bsearch_ext (l : list P) :
    (forall p, In p l -> f p = g (h p)) ->
    bsearch_by g (map h l) = bsearch_by f l.
  Proof.
    intros H. unfold bsearch_by. destruct l as [|x l]; [reflexivity|].
    cbn [map]. rewrite <- (map_cons h x l).
    rewrite <- (bs_loop_ext (x :: l)) by (intros p Hp; rewrite (H p Hp); reflexivity).
    rewrite map_length, nth_error_map.
    destruct (nth_error (x :: l) _) as [p|] eqn:E; cbn [option_map]; [|reflexivity].
    rewrite <- (H p (nth_error_In _ _ E)). reflexivity.
  Qed.
End SearchExt.

Lemma insert_nth_map {A B} (f : A -> B) i x l :
  insert_nth i (f x) (map f l) = map f (insert_nth i x l).
Proof.
  revert l. induction i as [|i IH]; intros l; [reflexivity|].
  destruct l as [|a l]; cbn; [reflexivity|]. rewrite IH. reflexivity.
Qed.

Lemma replace_nth_map {A B} (f : A -> B) i x l :
  replace_nth i (f x) (map f l) = map f (replace_nth i x l).
Proof.
  revert i. induction l as [|a l IH]; intros i; [destruct i; reflexivity|].
  destruct i as [|i]; cbn; [reflexivity|]. rewrite IH. reflexivity.
Qed.

Lemma Forall_insert_nth {A} (R : A -> Prop) i x l : R x -> Forall R l -> Forall R (insert_nth i x l).
Proof.
  intros Hx. revert l. induction i as [|i IH]; intros l Hl; [constructor; assumption|].
  destruct l as [|a l]; cbn; [constructor; [assumption|constructor]|].
  inversion Hl; subst. constructor; [assumption|apply IH; assumption].
Qed.

Lemma Forall_replace_nth {A} (R : A -> Prop) i x l : R x -> Forall R l -> Forall R (replace_nth i x l).
Proof.
  intros Hx. revert i. induction l as [|a l IH]; intros i Hl; [destruct i; constructor|].
  inversion Hl; subst. destruct i as [|i]; cbn; constructor; auto.
Qed.

(* ---------- one collection mapped point by point ---------- *)

Section CollMap.
  Context {P Q : Type} (time : P -> F64) (time' : Q -> F64) (h : P -> Q).

  Lemma idx_map l i : idx (map h l) i = out_map h (idx l i).
  Proof. unfold idx. rewrite nth_error_map. destruct (nth_error l i); reflexivity. Qed.

  Lemma at_opt_map l t t' :
    (forall p, In p l -> is_gt (probe time t p) = is_gt (probe time' t' (h p))) ->
    at_opt time' (map h l) t' = out_map (omap h) (at_opt time l t).
  Proof.
    intros H. unfold at_opt, search.
    pose proof (bsearch_slot_ext h (probe time t) (probe time' t') l H) as E.
    destruct (bsearch_by (probe time t) l) as [i|[|i]];
      destruct (bsearch_by (probe time' t') (map h l)) as [j|[|j]]; cbn [slot] in E;
      try discriminate E; try reflexivity; injection E as ->;
      rewrite idx_map; destruct (idx l i); reflexivity.
  Qed.

  Lemma at_first_map l t t' :
    (forall p, In p l -> is_gt (probe time t p) = is_gt (probe time' t' (h p))) ->
    at_first time' (map h l) t' = omap h (at_first time l t).
  Proof.
    intros H. unfold at_first, search.
    pose proof (bsearch_slot_ext h (probe time t) (probe time' t') l H) as E.
    destruct (bsearch_by (probe time t) l) as [i|[|i]];
      destruct (bsearch_by (probe time' t') (map h l)) as [j|[|j]]; cbn [slot] in E;
      try discriminate E; try (injection E as ->); cbn [Nat.pred];
      rewrite nth_error_map; match goal with |- option_map _ ?x = _ => destruct x end; reflexivity.
  Qed.

  Lemma put_map l p0 :
    (forall p, In p l -> probe time (time p0) p = probe time' (time' (h p0)) (h p)) ->
    put time' (map h l) (h p0) = out_map (map h) (put time l p0).
  Proof.
    intros H. unfold put, search.
    rewrite (bsearch_ext h (probe time (time p0)) (probe time' (time' (h p0))) l H).
    rewrite map_length.
    destruct (bsearch_by (probe time (time p0)) l) as [i|i].
    - destruct (Nat.ltb i (length l)); [|reflexivity]. cbn [out_map]. rewrite replace_nth_map. reflexivity.
    - destruct (Nat.leb i (length l)); [|reflexivity]. cbn [out_map]. rewrite insert_nth_map. reflexivity.
  Qed.
End CollMap.

(* ---------- the shifted collection ---------- *)

Definition shift_tp (k : Z) (p : TimingPoint) : TimingPoint :=
  mkTP (tshift k (tp_time p)) (tp_beat_len p) (tp_omit p) (tp_sig p).
Definition shift_dp (k : Z) (p : DifficultyPoint) : DifficultyPoint :=
  mkDP (tshift k (dp_time p)) (dp_sv p) (dp_ticks p).
Definition shift_ep (k : Z) (p : EffectPoint) : EffectPoint :=
  mkEP (tshift k (ep_time p)) (ep_kiai p) (ep_scroll p).
Definition shift_sp (k : Z) (p : SamplePoint) : SamplePoint :=
  mkSP (tshift k (sp_time p)) (sp_bank p) (sp_vol p) (sp_custom p).

Definition shift_cps (k : Z) (c : ControlPoints) : ControlPoints :=
  mkCP (map (shift_tp k) (cp_timing c)) (map (shift_dp k) (cp_difficulty c))
       (map (shift_ep k) (cp_effect c)) (map (shift_sp k) (cp_sample c)).

(* every control-point time is a whole number, in range before and after the shift *)
Definition cps_whole (k : Z) (c : ControlPoints) : Prop :=
  Forall (fun p => whole_time k (tp_time p)) (cp_timing c) /\
  Forall (fun p => whole_time k (dp_time p)) (cp_difficulty c) /\
  Forall (fun p => whole_time k (ep_time p)) (cp_effect c) /\
  Forall (fun p => whole_time k (sp_time p)) (cp_sample c).

(* one comparison of the search: a whole point time against a whole probe time *)
Lemma cmp_shift_whole k (t : F64) b :
  whole_time k t -> Z.abs b < 2 ^ 53 -> Z.abs (b + k) < 2 ^ 53 ->
  D.total_cmp (tshift k t) (D.of_Z (b + k)) = D.total_cmp t (D.of_Z b).
Proof.
  intros (a & -> & Ha) Hb Hbk. rewrite tshift_ofZ by assumption. unfold in_range in Ha.
  rewrite !total_cmp_ofZ by lia.
  destruct (Z.compare_spec (a + k) (b + k)); destruct (Z.compare_spec a b); try reflexivity; lia.
Qed.

Section Lookups.
  Variables (k : Z) (c : ControlPoints) (b : Z).
  Hypothesis Hc : cps_whole k c.
  Hypothesis Hb : Z.abs b < 2 ^ 53.
  Hypothesis Hbk : Z.abs (b + k) < 2 ^ 53.

  Lemma probes_whole {P} (time : P -> F64) (h : P -> P) (l : list P) :
    (forall p, time (h p) = tshift k (time p)) ->
    Forall (fun p => whole_time k (time p)) l ->
    forall p, In p l -> probe time (D.of_Z b) p = probe time (D.of_Z (b + k)) (h p).
  Proof.
    intros Hh Hl p Hp. rewrite Forall_forall in Hl. unfold probe. rewrite Hh.
    symmetry. apply cmp_shift_whole; auto.
  Qed.

  Lemma timing_point_at_shift :
    timing_point_at (shift_cps k c) (D.of_Z (b + k)) = omap (shift_tp k) (timing_point_at c (D.of_Z b)).
  Proof.
    unfold timing_point_at, shift_cps. cbn [cp_timing]. apply at_first_map.
    intros p Hp. f_equal. apply (probes_whole tp_time (shift_tp k) (cp_timing c)); auto. apply Hc.
  Qed.

  Lemma sample_point_at_shift :
    sample_point_at (shift_cps k c) (D.of_Z (b + k)) = omap (shift_sp k) (sample_point_at c (D.of_Z b)).
  Proof.
    unfold sample_point_at, shift_cps. cbn [cp_sample]. apply at_first_map.
    intros p Hp. f_equal. apply (probes_whole sp_time (shift_sp k) (cp_sample c)); auto. apply Hc.
  Qed.

  Lemma difficulty_point_at_shift :
    difficulty_point_at (shift_cps k c) (D.of_Z (b + k)) =
    out_map (omap (shift_dp k)) (difficulty_point_at c (D.of_Z b)).
  Proof.
    unfold difficulty_point_at, shift_cps. cbn [cp_difficulty]. apply at_opt_map.
    intros p Hp. f_equal. apply (probes_whole dp_time (shift_dp k) (cp_difficulty c)); auto. apply Hc.
  Qed.

  Lemma effect_point_at_shift :
    effect_point_at (shift_cps k c) (D.of_Z (b + k)) =
    out_map (omap (shift_ep k)) (effect_point_at c (D.of_Z b)).
  Proof.
    unfold effect_point_at, shift_cps. cbn [cp_effect]. apply at_opt_map.
    intros p Hp. f_equal. apply (probes_whole ep_time (shift_ep k) (cp_effect c)); auto. apply Hc.
  Qed.

  Lemma sample_at_opt_shift :
    at_opt sp_time (map (shift_sp k) (cp_sample c)) (D.of_Z (b + k)) =
    out_map (omap (shift_sp k)) (at_opt sp_time (cp_sample c) (D.of_Z b)).
  Proof.
    apply at_opt_map.
    intros p Hp. f_equal. apply (probes_whole sp_time (shift_sp k) (cp_sample c)); auto. apply Hc.
  Qed.
End Lookups.

(* ---------- ControlPoints::add commutes with the shift ---------- *)

Definition shift_op (k : Z) (o : cp_op) : cp_op :=
  match o with
  | OpAddT p => OpAddT (shift_tp k p) | OpAddD p => OpAddD (shift_dp k p)
  | OpAddE p => OpAddE (shift_ep k p) | OpAddS p => OpAddS (shift_sp k p)
  end.

Definition op_time (o : cp_op) : F64 :=
  match o with OpAddT p => tp_time p | OpAddD p => dp_time p | OpAddE p => ep_time p | OpAddS p => sp_time p end.

Lemma put_shift {P} (time : P -> F64) (h : P -> P) k l p0 :
  (forall p, time (h p) = tshift k (time p)) ->
  Forall (fun p => whole_time k (time p)) l -> whole_time k (time p0) ->
  put time (map h l) (h p0) = out_map (map h) (put time l p0).
Proof.
  intros Hh Hl (b & Eb & Hb). apply put_map. intros p Hp.
  rewrite Hh, Eb, tshift_ofZ by assumption. unfold in_range in Hb.
  apply (probes_whole k b ltac:(lia) ltac:(lia) time h l Hh Hl p Hp).
Qed.

Lemma put_whole {P} (time : P -> F64) k l p0 l' :
  Forall (fun p => whole_time k (time p)) l -> whole_time k (time p0) ->
  put time l p0 = Done l' -> Forall (fun p => whole_time k (time p)) l'.
Proof.
  intros Hl Hp. unfold put. destruct (search time l (time p0)) as [i|i].
  - destruct (Nat.ltb i (length l)); [|discriminate]. intros E. inversion E. apply Forall_replace_nth; assumption.
  - destruct (Nat.leb i (length l)); [|discriminate]. intros E. inversion E. apply Forall_insert_nth; assumption.
Qed.

Lemma cp_step_shift k c o :
  cps_whole k c -> whole_time k (op_time o) ->
  cp_step (shift_cps k c) (shift_op k o) = out_map (shift_cps k) (cp_step c o) /\
  (forall c', cp_step c o = Done c' -> cps_whole k c').
Proof.
  intros Hc Ho. pose proof Hc as (Ht & Hd & He & Hs).
  pose proof Ho as (b & Eb & Hb). pose proof Hb as (Hb1 & Hb2).
  destruct o as [p|p|p|p]; cbn [cp_step shift_op op_time] in *.
  - (* timing *)
    unfold add_timing. cbn [shift_cps cp_timing cp_difficulty cp_effect cp_sample].
    rewrite (put_shift tp_time (shift_tp k) k _ p (fun _ => eq_refl) Ht Ho).
    split.
    + destruct (put tp_time (cp_timing c) p); reflexivity.
    + intros c' E. destruct (put tp_time (cp_timing c) p) as [l'| |] eqn:Ep; cbn in E; try discriminate.
      inversion E. repeat split; cbn; try assumption. eapply put_whole; eauto.
  - (* difficulty *)
    unfold add_difficulty. cbn [shift_dp dp_time]. rewrite Eb, tshift_ofZ by assumption.
    rewrite (difficulty_point_at_shift k c b Hc ltac:(lia) ltac:(lia)).
    destruct (difficulty_point_at c (D.of_Z b)) as [ex| |] eqn:Ex; cbn [out_map obind]; try (split; [reflexivity|discriminate]).
    assert (Hred : (match omap (shift_dp k) ex with Some e => dp_redundant (shift_dp k p) e | None => dp_redundant (shift_dp k p) dflt_dp end) =
                   (match ex with Some e => dp_redundant p e | None => dp_redundant p dflt_dp end)).
    { destruct ex; reflexivity. }
    fold (shift_dp k p). rewrite Hred.
    destruct (match ex with Some e => dp_redundant p e | None => dp_redundant p dflt_dp end).
    + split; [reflexivity|]. intros c' E. inversion E. subst c'. exact Hc.
    + cbn [shift_cps cp_timing cp_difficulty cp_effect cp_sample].
      rewrite (put_shift dp_time (shift_dp k) k _ p (fun _ => eq_refl) Hd Ho).
      split.
      * destruct (put dp_time (cp_difficulty c) p); reflexivity.
      * intros c' E. destruct (put dp_time (cp_difficulty c) p) as [l'| |] eqn:Ep; cbn in E; try discriminate.
        inversion E. repeat split; cbn; try assumption. eapply put_whole; eauto.
  - (* effect *)
    unfold add_effect. cbn [shift_ep ep_time]. rewrite Eb, tshift_ofZ by assumption.
    rewrite (effect_point_at_shift k c b Hc ltac:(lia) ltac:(lia)).
    destruct (effect_point_at c (D.of_Z b)) as [ex| |] eqn:Ex; cbn [out_map obind]; try (split; [reflexivity|discriminate]).
    assert (Hred : (match omap (shift_ep k) ex with Some e => ep_redundant (shift_ep k p) e | None => ep_redundant (shift_ep k p) dflt_ep end) =
                   (match ex with Some e => ep_redundant p e | None => ep_redundant p dflt_ep end)).
    { destruct ex; reflexivity. }
    fold (shift_ep k p). rewrite Hred.
    destruct (match ex with Some e => ep_redundant p e | None => ep_redundant p dflt_ep end).
    + split; [reflexivity|]. intros c' E. inversion E. subst c'. exact Hc.
    + cbn [shift_cps cp_timing cp_difficulty cp_effect cp_sample].
      rewrite (put_shift ep_time (shift_ep k) k _ p (fun _ => eq_refl) He Ho).
      split.
      * destruct (put ep_time (cp_effect c) p); reflexivity.
      * intros c' E. destruct (put ep_time (cp_effect c) p) as [l'| |] eqn:Ep; cbn in E; try discriminate.
        inversion E. repeat split; cbn; try assumption. eapply put_whole; eauto.
  - (* sample *)
    unfold add_sample. cbn [shift_sp sp_time shift_cps cp_sample]. rewrite Eb, tshift_ofZ by assumption.
    rewrite (sample_at_opt_shift k c b Hc ltac:(lia) ltac:(lia)).
    destruct (at_opt sp_time (cp_sample c) (D.of_Z b)) as [ex| |] eqn:Ex; cbn [out_map obind]; try (split; [reflexivity|discriminate]).
    assert (Hred : (match omap (shift_sp k) ex with Some e => sp_redundant (shift_sp k p) e | None => false end) =
                   (match ex with Some e => sp_redundant p e | None => false end)).
    { destruct ex; reflexivity. }
    fold (shift_sp k p). rewrite Hred.
    destruct (match ex with Some e => sp_redundant p e | None => false end).
    + split; [reflexivity|]. intros c' E. inversion E. subst c'. exact Hc.
    + cbn [cp_timing cp_difficulty cp_effect cp_sample].
      rewrite (put_shift sp_time (shift_sp k) k _ p (fun _ => eq_refl) Hs Ho).
      split.
      * destruct (put sp_time (cp_sample c) p); reflexivity.
      * intros c' E. destruct (put sp_time (cp_sample c) p) as [l'| |] eqn:Ep; cbn in E; try discriminate.
        inversion E. repeat split; cbn; try assumption. eapply put_whole; eauto.
Qed.

(* a whole add history: the shifted history builds the shifted collection *)
Lemma cp_run_shift k ops : forall c,
  cps_whole k c -> Forall (fun o => whole_time k (op_time o)) ops ->
  cp_run (shift_cps k c) (map (shift_op k) ops) = out_map (shift_cps k) (cp_run c ops).
Proof.
  induction ops as [|o ops IH]; intros c Hc Ho; cbn [cp_run map]; [reflexivity|].
  inversion Ho as [|? ? Ho1 Ho2]; subst.
  destruct (cp_step_shift k c o Hc Ho1) as (E & Hw). rewrite E.
  destruct (cp_step c o) as [c'| |]; cbn [out_map obind]; try reflexivity.
  apply IH; [apply Hw; reflexivity|assumption].
Qed.

Lemma cps_whole_empty k : cps_whole k cp_empty.
Proof. repeat split; constructor. Qed.

(* Enc2SvRT: every slider velocity of the decoder's image survives the encoder's  -100 / sv  and
   the decoder's  100 / -x  ([sv_round_trips], the side condition [svs_round_trip] of T02d).

   A velocity of the image is  clamp(speed_multiplier beat, 0.1, 10)  for the beat-length field
   [beat] of an accepted line: 1.0, one of the two clamp bounds, or RN(100 / x) for the binary64
   number x = -beat > 0 -- and for those RN(100 / RN(100 / S)) = S (Proofs/Enc2SvReal.v).
   Carried through the [TimingPoints] parser as an invariant of every decoded map. *)
From RM Require Import Model.Decoders Model.EncTimingSpec Proofs.TimingPointsValues Proofs.TPFloatFacts
     Proofs.SliderEventsMono Proofs.EncObjTimes Proofs.EncSimple Proofs.EncImage Proofs.EncTimingInv
     Proofs.DecodersFacts Proofs.DecodersTotal Proofs.EncCollect Proofs.EncFmt Proofs.EncTimingParse Proofs.Enc2Values Proofs.Enc2Float
     Proofs.Enc2SvReal Proofs.Enc2Timing.
From RM Require Import Gen.Generated.
From Flocq Require Import Core BinarySingleNaN.
From Coq Require Import Reals Lra Lia ZArith.
From RM Require Import Proofs.TickDistBound.
Open Scope R_scope.

Local Notation fin x := (is_finite x = true).
Local Notation fexp64 := (SpecFloat.fexp 53 1024).
Local Notation RN := (round radix2 fexp64 (round_mode mode_NE)).
Local Notation p2 := (bpow radix2).

Local Instance Hp64r : Prec_gt_0 53 := Hp64.
Local Instance He64r : Prec_lt_emax 53 1024 := He64.

(* the numerator of speed_multiplier is the encoder's 100 *)
Lemma speed_num_100 : dec64 tp_speed_num_dec = f64_100.
Proof. apply B2SF_inj. vm_compute. reflexivity. Qed.

Lemma holds_100 : holds f64_100 100.
Proof. apply of_Z_holds. cbn. lia. Qed.

(* 100 / y for a finite y between 2^i and 2^j: the rounded real quotient, finite, positive *)
Lemma div_100_pos (y : F64) (i j : Z) : (-1000 <= 6 - j)%Z -> (7 - i <= 1000)%Z -> between i j y ->
  fin (D.div f64_100 y) /\ B2R (D.div f64_100 y) = RN (100 / B2R y) /\ Bsign (D.div f64_100 y) = false /\
  between (6 - j) (7 - i) (D.div f64_100 y).
Proof.
  intros H1 H2 Hy. destruct holds_100 as (R100 & F100 & S100).
  assert (B100 : between 6 7 f64_100).
  { split; [exact F100|]. rewrite R100. change (p2 6) with 64. change (p2 7) with 128. change (IZR 100) with 100. lra. }
  pose proof (between_div 6 7 i j f64_100 y H1 H2 B100 Hy) as Hb.
  destruct Hb as (Fd & Bd). destruct Hy as (Fy & Y1 & Y2).
  pose proof (bpow_gt_0 radix2 i) as Pi.
  assert (Hy0 : B2R y <> 0) by lra.
  pose proof (Bdiv_correct 53 1024 Hp64 He64 mode_NE f64_100 y Hy0) as H.
  destruct (Rlt_bool (Rabs (RN (B2R f64_100 / B2R y))) (p2 1024)) eqn:Eo.
  - destruct H as (HR & HF & HS).
    assert (Hnan : is_nan (Bdiv mode_NE f64_100 y) = false).
    { unfold D.div, fdiv in Fd. destruct (Bdiv mode_NE f64_100 y); try discriminate Fd; reflexivity. }
    split; [exact Fd|]. split; [unfold D.div, fdiv; rewrite HR, R100; reflexivity|].
    split; [|split; [exact Fd|exact Bd]].
    unfold D.div, fdiv. rewrite (HS Hnan), S100.
    destruct y as [s|s| |s m e Hm]; try discriminate Fy; cbn [Bsign]; cbn [B2R] in Y1.
    + lra.
    + destruct s; [|reflexivity]. exfalso.
      assert (F2R (Float radix2 (Z.neg m) e) < 0) by (apply F2R_lt_0; reflexivity). cbn [SpecFloat.cond_Zopp Z.opp] in Y1. lra.
  - exfalso. unfold D.div, fdiv in Fd. rewrite (overflow_not_finite _ _ H) in Fd. discriminate Fd.
Qed.

(* the three divisions on binary64 numbers *)
Theorem sv_back_of_quotient (x : F64) :
  fin x -> 0 < B2R x -> in_range sv_lo sv_hi (D.div f64_100 x) -> sv_back (D.div f64_100 x) = D.div f64_100 x.
Proof.
  intros Fx Hx Hr. set (S := D.div f64_100 x) in *.
  pose proof (sv_between S Hr) as HS. destruct HS as (FS & S1 & S2).
  (* S = RN (100 / x) *)
  destruct holds_100 as (R100 & F100 & S100).
  assert (Hx0 : B2R x <> 0) by lra.
  pose proof (Bdiv_correct 53 1024 Hp64 He64 mode_NE f64_100 x Hx0) as H.
  destruct (Rlt_bool (Rabs (RN (B2R f64_100 / B2R x))) (p2 1024)) eqn:Eo;
    [|exfalso; unfold S, D.div, fdiv in FS; rewrite (overflow_not_finite _ _ H) in FS; discriminate FS].
  destruct H as (HR & _ & HSg).
  assert (ES : RN (100 / B2R x) = B2R S) by (unfold S, D.div, fdiv; rewrite HR, R100; reflexivity).
  assert (SgS : Bsign S = false).
  { assert (Hnan : is_nan (Bdiv mode_NE f64_100 x) = false).
    { unfold S, D.div, fdiv in FS. destruct (Bdiv mode_NE f64_100 x); try discriminate FS; reflexivity. }
    unfold S, D.div, fdiv. rewrite (HSg Hnan), S100.
    destruct x as [s|s| |s m e Hm]; try discriminate Fx; cbn [Bsign]; cbn [B2R] in Hx; [lra|].
    destruct s; [|reflexivity]. exfalso.
    assert (F2R (Float radix2 (Z.neg m) e) < 0) by (apply F2R_lt_0; reflexivity). cbn [SpecFloat.cond_Zopp Z.opp] in Hx. lra. }
  (* b = -100 / S, y = -b = RN (100 / S) *)
  destruct (m100_div_real S (conj FS (conj S1 S2))) as (Fb & B1 & B2).
  set (b := D.div f64_m100 S) in *.
  assert (Hm : holds f64_m100 (-100)) by (apply (neg_holds _ 100); [exact holds_100|discriminate]).
  destruct Hm as (Rm & Fm & _).
  pose proof (bpow_gt_0 radix2 (-4)) as P4.
  assert (HS0 : B2R S <> 0) by lra.
  pose proof (Bdiv_correct 53 1024 Hp64 He64 mode_NE f64_m100 S HS0) as Hb.
  destruct (Rlt_bool (Rabs (RN (B2R f64_m100 / B2R S))) (p2 1024)) eqn:Eb;
    [|exfalso; unfold b, D.div, fdiv in Fb; rewrite (overflow_not_finite _ _ Hb) in Fb; discriminate Fb].
  destruct Hb as (HRb & _ & _).
  assert (Eb' : B2R b = - RN (100 / B2R S)).
  { unfold b, D.div, fdiv. rewrite HRb, Rm. change (IZR (-100)) with (-100).
    replace (-100 / B2R S) with (- (100 / B2R S)) by (unfold Rdiv; ring).
    apply round_NE_opp. }
  assert (Hlt : D.lt b D.zero = true).
  { unfold D.lt, flt, D.zero, fzero. rewrite Bltb_correct by (exact Fb || reflexivity). cbn [B2R].
    apply Rlt_bool_true. pose proof (bpow_gt_0 radix2 2). lra. }
  set (y := D.neg b).
  assert (Fy : fin y) by (unfold y, D.neg, fneg; rewrite is_finite_Bopp; exact Fb).
  assert (Ry : B2R y = RN (100 / B2R S)) by (unfold y, D.neg, fneg; rewrite B2R_Bopp, Eb'; ring).
  assert (By : between 2 11 y).
  { split; [exact Fy|]. unfold y, D.neg, fneg. rewrite B2R_Bopp. lra. }
  (* the result *)
  assert (A1 : (-1000 <= 6 - 11)%Z) by (clear; lia). assert (A2 : (7 - 2 <= 1000)%Z) by (clear; lia).
  destruct (div_100_pos y 2 11 A1 A2 By) as (Fr & Rr & Sr & _).
  unfold sv_back, speed_multiplier. fold b. rewrite Hlt. fold y. rewrite speed_num_100.
  apply B2R_Bsign_inj; try assumption.
  - rewrite Rr, Ry.
    change (round radix2 fexp64 (round_mode mode_NE)) with (round radix2 fexp64 ZnearestE).
    apply (three_divisions (B2R x) (B2R S)).
    + apply generic_format_B2R.
    + exact Hx.
    + exact ES.
    + split; assumption.
  - rewrite Sr, SgS. reflexivity.
Qed.

(* ---------- the decoder's image ---------- *)

Lemma clamp_cases (x lo hi : F64) : D.clamp x lo hi = lo \/ D.clamp x lo hi = hi \/ D.clamp x lo hi = x.
Proof.
  unfold D.clamp, fclamp_t. destruct (flt 53 1024 x lo).
  - destruct (fgt 53 1024 lo hi); [right; left; reflexivity|left; reflexivity].
  - destruct (fgt 53 1024 x hi); [right; left; reflexivity|right; right; reflexivity].
Qed.

Lemma sv_round_trips_bounds : sv_round_trips sv_lo = true /\ sv_round_trips sv_hi = true.
Proof. split; vm_compute; reflexivity. Qed.

(* every velocity the decoder can store *)
Theorem image_sv_round_trips (beat : F64) :
  sv_round_trips (D.clamp (speed_multiplier beat) sv_lo sv_hi) = true.
Proof.
  destruct (D.lt beat D.zero) eqn:Elt.
  2:{ unfold speed_multiplier. rewrite Elt. rewrite clamp_one_sv. exact sv_round_trips_one. }
  set (S := speed_multiplier beat).
  destruct (clamp_cases S sv_lo sv_hi) as [E|[E|E]]; rewrite E.
  - exact (proj1 sv_round_trips_bounds).
  - exact (proj2 sv_round_trips_bounds).
  - (* the quotient itself, within the clamp *)
    pose proof (clamp_in_range S sv_lo sv_hi sv_bounds (speed_not_nan beat)) as Hr. rewrite E in Hr.
    unfold S, speed_multiplier in *. rewrite Elt in *. rewrite speed_num_100 in *.
    set (x := D.neg beat) in *.
    (* x is a positive number; it is finite because the quotient is not zero *)
    assert (Hx : fin x /\ 0 < B2R x).
    { unfold x, D.neg, fneg.
      destruct beat as [s|s| |s m e Hm]; try (cbn in Elt; discriminate Elt).
      - (* -inf: 100 / +inf = +0, outside the clamp *)
        exfalso. destruct s; [|cbn in Elt; discriminate Elt].
        destruct Hr as [Hlo _]. revert Hlo. unfold x. vm_compute. discriminate.
      - destruct s; [|cbn in Elt; discriminate Elt]. split; [reflexivity|].
        cbn [Bopp B2R negb]. apply F2R_gt_0. cbn. lia. }
    destruct Hx as (Fx & Px).
    unfold sv_round_trips. rewrite (sv_back_of_quotient x Fx Px Hr). apply f64_eqb_refl.
Qed.

(* ---------- every decoded map ---------- *)

Definition sv_img (p : DifficultyPoint) : Prop := sv_round_trips (dp_sv p) = true.

Lemma line_dp_sv_img g line r : parse_tp_line g line = Some r ->
  (l_tc r = true -> True) /\ sv_img (line_dp r) /\ True /\ forall mode : Z, True.
Proof.
  intros H. destruct (parse_tp_line_ok _ _ _ H) as (_ & Hsp & _).
  split; [intros _; exact I|]. split; [|split; [exact I|intros _; exact I]].
  unfold sv_img, line_dp, dp_new. cbn [dp_sv]. rewrite Hsp. fold sv_lo sv_hi. apply image_sv_round_trips.
Qed.

Section WithDist.
  Variable dist_of : Z -> list PCP -> option F64 -> outcome F64.

  Theorem decoded_svs_round_trip lines m :
    decode_beatmap dist_of lines = Done m -> svs_round_trip (hov_control_points (bmv_ho m)) = true.
  Proof.
    intros Hd.
    assert (G : cp_all (fun _ => True) sv_img (fun _ => True) (fun _ => True) (hov_control_points (bmv_ho m))).
    { revert m Hd. unfold decode_beatmap.
      apply (driver_invariant _ _ _ (bm_all (fun _ => True) sv_img (fun _ => True) (fun _ => True))
               (bm_all_create _ _ _ _)
               (bm_all_step _ _ _ _ line_dp_sv_img)
               (fun ov => forall m, ov = Done m ->
                  cp_all (fun _ => True) sv_img (fun _ => True) (fun _ => True) (hov_control_points (bmv_ho m)))).
      intros st Hst m. destruct st as [s|w|]; cbn [obind]; try discriminate.
      cbn [bm_all] in Hst. intros Hb.
      destruct (bmd_finish_inv dist_of s m Hb) as (_ & _ & _ & _ & Hh).
      destruct (hod_finish_inv dist_of _ _ Hh) as (_ & _ & _ & Htp & _).
      exact (flush_cp_all _ _ _ _ _ _ Htp Hst). }
    destruct G as (_ & Gd & _). unfold svs_round_trip. apply forallb_forall. intros v Hv.
    apply in_map_iff in Hv. destruct Hv as (p & <- & Hp). rewrite Forall_forall in Gd. exact (Gd p Hp).
  Qed.
End WithDist.

(* ---------- T02d for decoded maps: only the recorded classes are left ---------- *)

Section RoundTrip.
  Variable dist_of : Z -> list PCP -> option F64 -> outcome F64.
  Variable events_of : F64 -> F64 -> F64 -> F64 -> F64 -> Z -> outcome (list EncEvent).
  Variables (fmt_f64 : F64 -> str) (fmt_f32 : F32 -> str) (fmt_int : Z -> str).
  Hypothesis Hfmt : fmt_ok fmt_f64 fmt_f32 fmt_int.
  Hypothesis Hlead : no_leading_zero fmt_int.

  Lemma enc_svs_round_trip lines m c :
    decode_beatmap dist_of lines = Done m -> enc_control_points dist_of events_of m = Done c ->
    svs_round_trip c = true.
  Proof.
    intros Hd E. destruct (collect_samples_frame dist_of events_of _ _ _ _ _ _ _ E) as (_ & Fd & _).
    unfold svs_round_trip. rewrite Fd. exact (decoded_svs_round_trip dist_of lines m Hd).
  Qed.

  Theorem decoded_timing_round_trip_final lines m c g :
    Forall no_lf_line lines -> decode_beatmap dist_of lines = Done m ->
    enc_control_points dist_of events_of m = Done c ->
    rt_classes (tpg_mode g) c = true ->
    let c0 := hov_control_points (bmv_ho m) in
    exists ls c',
      enc_timing_points dist_of events_of m = Done (header_tok SecTimingPoints :: ls) /\
      tp_decode g (map (render fmt_f64 fmt_f32 fmt_int) ls) = Done (c', map (fun _ => Ok) ls) /\
      cp_timing c' = cp_timing c0 /\
      (forall t, sv_at c' t = sv_at c0 t) /\
      (forall t, kiai_at c' t = kiai_at c0 t) /\
      (forall t, scroll_at c' t = scroll_at c0 t).
  Proof.
    intros Hl Hd E Hcls.
    exact (decoded_timing_round_trip_classes dist_of events_of fmt_f64 fmt_f32 fmt_int Hfmt Hlead lines m c g
             Hl Hd E Hcls (enc_svs_round_trip lines m c Hd E)).
  Qed.
End RoundTrip.

Print Assumptions image_sv_round_trips.
Print Assumptions decoded_timing_round_trip_final.

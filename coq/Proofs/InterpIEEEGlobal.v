(* InterpIEEEGlobal: T19 in IEEE arithmetic ACROSS segments -- the global
   Lipschitz bound of the position along a curve whose cumulative lengths are
   the ones calculate_length computes for its path (zero seed, no requested
   length: [natural path D.zero]).

   1. chord <= arc for the IEEE lengths ([chord_le_length_increment_ieee]):
      under the magnitude hypotheses of AdjustIEEESum.natural_lengths_error
      (coordinates finite with |c| <= 2^20, every segment degenerate or at
      least 2^-10 long, at most 2^50 vertices, exact length <= 2^1000) two
      consecutive computed lengths l_k <= l_{k+1} satisfy
          |p_{k+1} - p_k|  <=  (1 + delta19) (l_{k+1} - l_k) + eta19 * l_{k+1}
      delta19 = 3.02 * 2^-24 (the binary32 segment length), eta19 =
      1.002 * 2^-53 (the one binary64 addition l_{k+1} = fl(l_k + seg); its
      rounding error is relative to l_{k+1}, NOT to the increment, hence the
      additive term -- a purely relative bound on the increment is false:
      a short segment far along a long curve has an increment that is a
      multiple of ulp(l_{k+1})).
   2. chaining over the vertices between two segments ([chain_vertices]).
   3. [global_lipschitz_ieee]: for a on segment i and b on segment j >= i the
      computed positions differ, per coordinate and in Euclidean distance, by
      at most
          (1 + delta19) |b - a| + (j - i + 1) * eta19 * l_{j+1} + E19_i + E19_j
      (E19 of InterpIEEE: the rounding of the two interpolations; the
      intermediate vertices cost nothing because the comparison goes through
      the EXACT interpolated points and the exact vertices). *)
From RM Require Import Model.ControlPoints Model.Curve Proofs.FloatFacts Proofs.LengthFacts Proofs.LengthBound
  Proofs.PositionFacts Proofs.InterpExact Proofs.AdjustExact Proofs.AdjustIEEEBase Proofs.AdjustIEEE
  Proofs.AdjustIEEESum Proofs.PositionEndIEEE Proofs.InterpIEEE Proofs.CatmullSurplusLoop.
From Flocq Require Import Core BinarySingleNaN.
From Coq Require Import Reals Lra Psatz Lia List.
Import ListNotations.
Open Scope R_scope.

Local Notation fin x := (is_finite x = true).
Local Notation pw k := (bpow radix2 k).

Definition delta19 : R := 3.02 * u32.
Definition eta19 : R := 1.002 * u64.

Lemma delta19_pos : 0 < delta19. Proof. unfold delta19, u32. lra. Qed.
Lemma eta19_pos : 0 < eta19. Proof. unfold eta19, u64. lra. Qed.

(* ---------- structure of the running sums ---------- *)

Lemma cum_lengths_nth_step : forall path acc k p0 p1 d0 d1,
  nth_error path k = Some p0 -> nth_error path (S k) = Some p1 ->
  nth_error (acc :: fst (cum_lengths acc path)) k = Some d0 ->
  nth_error (acc :: fst (cum_lengths acc path)) (S k) = Some d1 ->
  d1 = D.add d0 (f64_of_f32 (plen (psub p1 p0))).
Proof.
  induction path as [|a [|b t] IH]; intros acc k p0 p1 d0 d1 H0 H1 L0 L1.
  - destruct k; discriminate.
  - destruct k as [|k]; cbn in H1; [discriminate|destruct k; discriminate].
  - rewrite cum_lengths_cons2 in L0, L1. cbn [fst] in L0, L1. destruct k as [|k].
    + cbn in H0, H1, L0, L1. inversion H0; inversion H1; inversion L0; inversion L1; subst. reflexivity.
    + cbn [nth_error] in H0, H1, L0, L1. exact (IH _ k p0 p1 d0 d1 H0 H1 L0 L1).
Qed.

Lemma segs_ok_nth : forall path k p0 p1, segs_ok path ->
  nth_error path k = Some p0 -> nth_error path (S k) = Some p1 -> seg_ok p0 p1.
Proof.
  induction path as [|a [|b t] IH]; intros k p0 p1 Hs H0 H1.
  - destruct k; discriminate.
  - destruct k as [|k]; cbn in H1; [discriminate|destruct k; discriminate].
  - destruct Hs as (Hab & Hs'). destruct k as [|k].
    + cbn in H0, H1. inversion H0; inversion H1; subst. exact Hab.
    + cbn [nth_error] in H0, H1. exact (IH k p0 p1 Hs' H0 H1).
Qed.

(* every exact cumulative length lies between the seed and the total *)
Lemma cum_g_nth_bounds : forall (l : list P2) (acc : R) k c,
  nth_error (acc :: fst (cum_g Rplus edist acc l)) k = Some c ->
  acc <= c <= snd (cum_g Rplus edist acc l).
Proof.
  induction l as [|x [|y r] IH]; intros acc k c H.
  - cbn in H. destruct k as [|k]; cbn in H; [inversion H; subst; cbn; lra|destruct k; discriminate].
  - cbn in H. destruct k as [|k]; cbn in H; [inversion H; subst; cbn; lra|destruct k; discriminate].
  - rewrite cum_g_cons2 in *. cbn [fst snd] in *. pose proof (edist_ge0 x y) as He. destruct k as [|k].
    + cbn in H. inversion H; subst.
      pose proof (IH (c + edist x y) 0%nat (c + edist x y) eq_refl). lra.
    + cbn [nth_error] in H. pose proof (IH _ k c H). lra.
Qed.

(* ---------- one step of the running sum ---------- *)

Lemma add_increment (acc seg : F64) (E : R) :
  fin acc -> fin seg -> 0 <= B2R acc -> Rabs (B2R acc + B2R seg) <= pw 1002 ->
  rel (B2R seg) E (3.01 * u32) -> 0 <= E ->
  fin (D.add acc seg) /\ B2R acc <= B2R (D.add acc seg) /\
  E <= (1 + delta19) * (B2R (D.add acc seg) - B2R acc) + eta19 * B2R (D.add acc seg).
Proof.
  intros Fa Fs Ha M Rs HE.
  destruct (D_add_spec acc seg 1002 Fa Fs ltac:(zl) M) as (F1 & _ & (e & Ee & Be)).
  assert (Hs : 0 <= B2R seg) by (apply (rel_nonneg _ _ _ Rs); [unfold u32; lra|exact HE]).
  assert (Hmono : B2R acc <= B2R (D.add acc seg)).
  { pose proof (Bplus_correct 53 1024 Hp64 He64 mode_NE acc seg Fa Fs) as C.
    rewrite (no_overflow 53 1024 Hp64 _ 1002 ltac:(zl) M) in C. destruct C as (CR & _).
    unfold D.add, fadd. rewrite CR.
    rewrite <- (round_generic radix2 (SpecFloat.fexp 53 1024) (round_mode mode_NE) (B2R acc)) at 1
      by apply generic_format_B2R.
    apply round_le; [apply (fexp_correct 53 1024 Hp64)|apply valid_rnd_N|lra]. }
  split; [exact F1|]. split; [exact Hmono|].
  set (X := B2R (D.add acc seg)) in *. set (A := B2R acc) in *. set (s := B2R seg) in *.
  destruct Rs as (d & Ed & Bd).
  apply Rabs_le_inv in Be. apply Rabs_le_inv in Bd.
  assert (HX : 0 <= X) by lra.
  (* s <= X - A + 1.0001 u64 X *)
  assert (H1 : s <= X - A + 1.0001 * u64 * X).
  { assert (Q : A + s <= 1.0001 * X) by (unfold u64 in *; nra).
    assert (Q0 : 0 <= A + s) by lra.
    unfold u64 in *. nra. }
  (* E <= s (1 + delta) *)
  assert (H2 : E <= s * (1 + delta19)).
  { unfold delta19, u32 in *. nra. }
  unfold delta19, eta19, u32, u64 in *. nra.
Qed.

(* ---------- chord <= arc for the IEEE lengths ---------- *)

Theorem chord_le_length_increment_ieee (path : list Pos) k p0 p1 d0 d1 :
  Forall (fun p => coord_le p 20) path -> segs_ok path -> (length path <= 2 ^ 50)%nat ->
  poly_len (map R2 path) <= pw 1000 ->
  nth_error path k = Some p0 -> nth_error path (S k) = Some p1 ->
  nth_error (natural path D.zero) k = Some d0 -> nth_error (natural path D.zero) (S k) = Some d1 ->
  fin d0 /\ fin d1 /\ 0 <= B2R d0 <= B2R d1 /\
  edist (R2 p0) (R2 p1) <= (1 + delta19) * (B2R d1 - B2R d0) + eta19 * B2R d1.
Proof.
  intros Hc Hs Hn Ht H0 H1 L0 L1.
  pose proof (natural_lengths_error path Hc Hs Hn Ht) as Hok.
  assert (Hk : (k < length path)%nat) by (apply nth_error_Some; congruence).
  assert (Hlen : length (cumlen (map R2 path)) = length path).
  { rewrite cumlen_length, map_length; [reflexivity|]. destruct path; [cbn in Hk; lia|discriminate]. }
  destruct (nth_error (cumlen (map R2 path)) k) as [c0|] eqn:Ec;
    [|apply nth_error_None in Ec; exfalso; clear - Ec Hk Hlen; lia].
  destruct (lens_ok_nth _ _ _ _ _ _ Hok L0 Ec) as (F0 & R0).
  unfold cumlen in Ec. destruct (cum_g_nth_bounds _ _ _ _ Ec) as (Hc0 & Hc1). fold (poly_len (map R2 path)) in Hc1.
  destruct (alpha_small (length path) Hn) as (_ & Au).
  assert (Hd0 : 0 <= B2R d0) by (apply (rel_nonneg _ _ _ R0); [lra|exact Hc0]).
  pose proof (segs_ok_nth path k p0 p1 Hs H0 H1) as Hseg.
  rewrite Forall_forall in Hc.
  pose proof (Hc p0 (nth_error_In _ _ H0)) as B0. pose proof (Hc p1 (nth_error_In _ _ H1)) as B1.
  destruct (seg_rel p0 p1 B0 B1 Hseg) as (Fseg & Rseg).
  pose proof (edist_le_22 p0 p1 B0 B1) as E22. pose proof (edist_ge0 (R2 p0) (R2 p1)) as E0.
  assert (M : Rabs (B2R d0 + B2R (f64_of_f32 (plen (psub p1 p0)))) <= pw 1002).
  { pose proof (rel_abs_le _ _ _ R0) as A0. pose proof (rel_abs_le _ _ _ Rseg) as A1.
    rewrite (Rabs_pos_eq c0) in A0 by exact Hc0. rewrite (Rabs_pos_eq (edist _ _)) in A1 by exact E0.
    eapply Rle_trans; [apply Rabs_triang|].
    assert (P22 : pw 22 <= pw 1000) by (apply bpow_le; zl).
    change 1002%Z with (1000 + 2)%Z. rewrite bpow_plus. change (pw 2) with 4.
    pose proof (bpow_gt_0 radix2 1000). unfold u32 in *. nra. }
  unfold natural in L0, L1.
  rewrite (cum_lengths_nth_step path D.zero k p0 p1 d0 d1 H0 H1 L0 L1).
  destruct (add_increment d0 _ _ F0 Fseg Hd0 M Rseg E0) as (F1 & Hm & HE).
  split; [exact F0|]. split; [exact F1|]. split; [lra|exact HE].
Qed.

(* InterpIEEEGlobal: T19 in IEEE arithmetic ACROSS segments -- the global
   Lipschitz bound of the position along a curve whose cumulative lengths are
   the ones calculate_length computes for its path (zero seed, no requested
   length: [natural path D.zero]).

   1. chord <= arc for the IEEE lengths ([chord_le_length_increment_ieee]):
      under the magnitude hypotheses of AdjustIEEESum.natural_lengths_error
      (coordinates finite with |c| <= 2^20, every segment degenerate or at
      least 2^-10 long, at most 2^50 vertices, exact length <= 2^1000) two
      consecutive computed lengths l_k <= l_{k+1} satisfy
          |p_{k+1} - p_k|  <=  (1 + delta19) (l_{k+1} - l_k) + eta19 * l_{k+1}
      delta19 = 3.02 * 2^-24 (the binary32 segment length), eta19 =
      1.002 * 2^-53 (the one binary64 addition l_{k+1} = fl(l_k + seg); its
      rounding error is relative to l_{k+1}, NOT to the increment, hence the
      additive term -- a purely relative bound on the increment is false:
      a short segment far along a long curve has an increment that is a
      multiple of ulp(l_{k+1})).
   2. chaining over the vertices between two segments ([chain_vertices]).
   3. [global_lipschitz_ieee]: for a on segment i and b on segment j >= i the
      computed positions differ, per coordinate and in Euclidean distance, by
      at most
          (1 + delta19) |b - a| + (j - i + 1) * eta19 * l_{j+1} + E19_i + E19_j
      (E19 of InterpIEEE: the rounding of the two interpolations; the
      intermediate vertices cost nothing because the comparison goes through
      the EXACT interpolated points and the exact vertices). *)
From RM Require Import Model.ControlPoints Model.Curve Proofs.FloatFacts Proofs.LengthFacts Proofs.LengthBound
  Proofs.PositionFacts Proofs.InterpExact Proofs.AdjustExact Proofs.AdjustIEEEBase Proofs.AdjustIEEE
  Proofs.AdjustIEEESum Proofs.PositionEndIEEE Proofs.InterpIEEE Proofs.CatmullSurplusLoop.
From Flocq Require Import Core BinarySingleNaN.
From Coq Require Import Reals Lra Psatz Lia List.
Import ListNotations.
Open Scope R_scope.

Local Notation fin x := (is_finite x = true).
Local Notation pw k := (bpow radix2 k).

Definition delta19 : R := 3.02 * u32.
Definition eta19 : R := 1.002 * u64.

Lemma delta19_pos : 0 < delta19. Proof. unfold delta19, u32. lra. Qed.
Lemma eta19_pos : 0 < eta19. Proof. unfold eta19, u64. lra. Qed.

(* ---------- structure of the running sums ---------- *)

Lemma cum_lengths_nth_step : forall path acc k p0 p1 d0 d1,
  nth_error path k = Some p0 -> nth_error path (S k) = Some p1 ->
  nth_error (acc :: fst (cum_lengths acc path)) k = Some d0 ->
  nth_error (acc :: fst (cum_lengths acc path)) (S k) = Some d1 ->
  d1 = D.add d0 (f64_of_f32 (plen (psub p1 p0))).
Proof.
  induction path as [|a [|b t] IH]; intros acc k p0 p1 d0 d1 H0 H1 L0 L1.
  - destruct k; discriminate.
  - destruct k as [|k]; cbn in H1; [discriminate|destruct k; discriminate].
  - rewrite cum_lengths_cons2 in L0, L1. cbn [fst] in L0, L1. destruct k as [|k].
    + cbn in H0, H1, L0, L1. inversion H0; inversion H1; inversion L0; inversion L1; subst. reflexivity.
    + cbn [nth_error] in H0, H1, L0, L1. exact (IH _ k p0 p1 d0 d1 H0 H1 L0 L1).
Qed.

Lemma segs_ok_nth : forall path k p0 p1, segs_ok path ->
  nth_error path k = Some p0 -> nth_error path (S k) = Some p1 -> seg_ok p0 p1.
Proof.
  induction path as [|a [|b t] IH]; intros k p0 p1 Hs H0 H1.
  - destruct k; discriminate.
  - destruct k as [|k]; cbn in H1; [discriminate|destruct k; discriminate].
  - destruct Hs as (Hab & Hs'). destruct k as [|k].
    + cbn in H0, H1. inversion H0; inversion H1; subst. exact Hab.
    + cbn [nth_error] in H0, H1. exact (IH k p0 p1 Hs' H0 H1).
Qed.

(* every exact cumulative length lies between the seed and the total *)
Lemma cum_g_nth_bounds : forall (l : list P2) (acc : R) k c,
  nth_error (acc :: fst (cum_g Rplus edist acc l)) k = Some c ->
  acc <= c <= snd (cum_g Rplus edist acc l).
Proof.
  induction l as [|x [|y r] IH]; intros acc k c H.
  - cbn in H. destruct k as [|k]; cbn in H; [inversion H; subst; cbn; lra|destruct k; discriminate].
  - cbn in H. destruct k as [|k]; cbn in H; [inversion H; subst; cbn; lra|destruct k; discriminate].
  - rewrite cum_g_cons2 in *. cbn [fst snd] in *. pose proof (edist_ge0 x y) as He. destruct k as [|k].
    + cbn in H. inversion H; subst.
      pose proof (IH (c + edist x y) 0%nat (c + edist x y) eq_refl). lra.
    + cbn [nth_error] in H. pose proof (IH _ k c H). lra.
Qed.

(* ---------- one step of the running sum ---------- *)

Lemma add_increment (acc seg : F64) (E : R) :
  fin acc -> fin seg -> 0 <= B2R acc -> Rabs (B2R acc + B2R seg) <= pw 1002 ->
  rel (B2R seg) E (3.01 * u32) -> 0 <= E ->
  fin (D.add acc seg) /\ B2R acc <= B2R (D.add acc seg) /\
  E <= (1 + delta19) * (B2R (D.add acc seg) - B2R acc) + eta19 * B2R (D.add acc seg).
Proof.
  intros Fa Fs Ha M Rs HE.
  destruct (D_add_spec acc seg 1002 Fa Fs ltac:(zl) M) as (F1 & _ & (e & Ee & Be)).
  assert (Hs : 0 <= B2R seg) by (apply (rel_nonneg _ _ _ Rs); [unfold u32; lra|exact HE]).
  assert (Hmono : B2R acc <= B2R (D.add acc seg)).
  { pose proof (Bplus_correct 53 1024 Hp64 He64 mode_NE acc seg Fa Fs) as C.
    rewrite (no_overflow 53 1024 Hp64 _ 1002 ltac:(zl) M) in C. destruct C as (CR & _).
    unfold D.add, fadd. rewrite CR.
    rewrite <- (round_generic radix2 (SpecFloat.fexp 53 1024) (round_mode mode_NE) (B2R acc)) at 1
      by apply generic_format_B2R.
    apply round_le; [apply (fexp_correct 53 1024 Hp64)|apply valid_rnd_N|lra]. }
  split; [exact F1|]. split; [exact Hmono|].
  set (X := B2R (D.add acc seg)) in *. set (A := B2R acc) in *. set (s := B2R seg) in *.
  destruct Rs as (d & Ed & Bd).
  apply Rabs_le_inv in Be. apply Rabs_le_inv in Bd.
  assert (HX : 0 <= X) by lra.
  (* s <= X - A + 1.0001 u64 X *)
  assert (H1 : s <= X - A + 1.0001 * u64 * X).
  { assert (Q : A + s <= 1.0001 * X) by (unfold u64 in *; nra).
    assert (Q0 : 0 <= A + s) by lra.
    unfold u64 in *. nra. }
  (* E <= s (1 + delta) *)
  assert (H2 : E <= s * (1 + delta19)).
  { unfold delta19, u32 in *. nra. }
  unfold delta19, eta19, u32, u64 in *. nra.
Qed.

(* ---------- chord <= arc for the IEEE lengths ---------- *)

Theorem chord_le_length_increment_ieee (path : list Pos) k p0 p1 d0 d1 :
  Forall (fun p => coord_le p 20) path -> segs_ok path -> (length path <= 2 ^ 50)%nat ->
  poly_len (map R2 path) <= pw 1000 ->
  nth_error path k = Some p0 -> nth_error path (S k) = Some p1 ->
  nth_error (natural path D.zero) k = Some d0 -> nth_error (natural path D.zero) (S k) = Some d1 ->
  fin d0 /\ fin d1 /\ 0 <= B2R d0 <= B2R d1 /\
  edist (R2 p0) (R2 p1) <= (1 + delta19) * (B2R d1 - B2R d0) + eta19 * B2R d1.
Proof.
  intros Hc Hs Hn Ht H0 H1 L0 L1.
  pose proof (natural_lengths_error path Hc Hs Hn Ht) as Hok.
  assert (Hk : (k < length path)%nat) by (apply nth_error_Some; congruence).
  assert (Hlen : length (cumlen (map R2 path)) = length path).
  { rewrite cumlen_length, map_length; [reflexivity|]. destruct path; [cbn in Hk; lia|discriminate]. }
  destruct (nth_error (cumlen (map R2 path)) k) as [c0|] eqn:Ec;
    [|apply nth_error_None in Ec; exfalso; clear - Ec Hk Hlen; lia].
  destruct (lens_ok_nth _ _ _ _ _ _ Hok L0 Ec) as (F0 & R0).
  unfold cumlen in Ec. destruct (cum_g_nth_bounds _ _ _ _ Ec) as (Hc0 & Hc1). fold (poly_len (map R2 path)) in Hc1.
  destruct (alpha_small (length path) Hn) as (_ & Au).
  assert (Hd0 : 0 <= B2R d0) by (apply (rel_nonneg _ _ _ R0); [lra|exact Hc0]).
  pose proof (segs_ok_nth path k p0 p1 Hs H0 H1) as Hseg.
  rewrite Forall_forall in Hc.
  pose proof (Hc p0 (nth_error_In _ _ H0)) as B0. pose proof (Hc p1 (nth_error_In _ _ H1)) as B1.
  destruct (seg_rel p0 p1 B0 B1 Hseg) as (Fseg & Rseg).
  pose proof (edist_le_22 p0 p1 B0 B1) as E22. pose proof (edist_ge0 (R2 p0) (R2 p1)) as E0.
  assert (M : Rabs (B2R d0 + B2R (f64_of_f32 (plen (psub p1 p0)))) <= pw 1002).
  { pose proof (rel_abs_le _ _ _ R0) as A0. pose proof (rel_abs_le _ _ _ Rseg) as A1.
    rewrite (Rabs_pos_eq c0) in A0 by exact Hc0. rewrite (Rabs_pos_eq (edist _ _)) in A1 by exact E0.
    eapply Rle_trans; [apply Rabs_triang|].
    assert (P22 : pw 22 <= pw 1000) by (apply bpow_le; zl).
    change 1002%Z with (1000 + 2)%Z. rewrite bpow_plus. change (pw 2) with 4.
    pose proof (bpow_gt_0 radix2 1000). unfold u32 in *. nra. }
  unfold natural in L0, L1.
  rewrite (cum_lengths_nth_step path D.zero k p0 p1 d0 d1 H0 H1 L0 L1).
  destruct (add_increment d0 _ _ F0 Fseg Hd0 M Rseg E0) as (F1 & Hm & HE).
  split; [exact F0|]. split; [exact F1|]. split; [lra|exact HE].
Qed.

(* ---------- chaining over the vertices ---------- *)

Section Chain.
  Variable path : list Pos.
  Hypothesis Hc : Forall (fun p => coord_le p 20) path.
  Hypothesis Hs : segs_ok path.
  Hypothesis Hn : (length path <= 2 ^ 50)%nat.
  Hypothesis Ht : poly_len (map R2 path) <= pw 1000.

  (* from vertex i to vertex i + n: the straight distance is at most
     (1 + delta19) times the difference of the computed lengths, plus eta19
     times the farther length per segment in between *)
  Lemma chain_vertices : forall n i pi pj li lj,
    nth_error path i = Some pi -> nth_error path (i + n) = Some pj ->
    nth_error (natural path D.zero) i = Some li -> nth_error (natural path D.zero) (i + n) = Some lj ->
    B2R li <= B2R lj /\
    edist (R2 pi) (R2 pj) <= (1 + delta19) * (B2R lj - B2R li) + INR n * eta19 * B2R lj.
  Proof.
    induction n as [|n IH]; intros i pi pj li lj H0 H1 L0 L1.
    - rewrite Nat.add_0_r in H1, L1. rewrite H0 in H1. rewrite L0 in L1. inversion H1; inversion L1; subst.
      rewrite edist_refl. cbn [INR]. split; lra.
    - rewrite Nat.add_succ_r in H1, L1.
      destruct (nth_error path (i + n)) as [pm|] eqn:Epm;
        [|exfalso; apply nth_error_None in Epm;
          assert (X : nth_error path (S (i + n)) = None) by (apply nth_error_None; lia); congruence].
      destruct (nth_error (natural path D.zero) (i + n)) as [lm|] eqn:Elm;
        [|exfalso; apply nth_error_None in Elm;
          assert (X : nth_error (natural path D.zero) (S (i + n)) = None) by (apply nth_error_None; lia); congruence].
      destruct (IH i pi pm li lm H0 Epm L0 Elm) as (I1 & I2).
      destruct (chord_le_length_increment_ieee path (i + n) pm pj lm lj Hc Hs Hn Ht Epm H1 Elm L1) as (_ & _ & (C0 & C1) & C2).
      split; [lra|].
      eapply Rle_trans; [apply (edist_triangle _ (R2 pm))|].
      rewrite S_INR. pose proof (pos_INR n) as Pn. pose proof eta19_pos as Pe.
      assert (Q : INR n * eta19 * B2R lm <= INR n * eta19 * B2R lj).
      { apply Rmult_le_compat_l; [apply Rmult_le_pos; lra|exact C1]. }
      lra.
  Qed.
End Chain.

(* ---------- exact geometry of one segment ---------- *)

(* the exact interpolated point *)
Definition interp_P (p0 p1 : Pos) (d0 d1 d : F64) : P2 :=
  (interp_R (B2R (px p0)) (B2R (px p1)) (B2R d0) (B2R d1) (B2R d),
   interp_R (B2R (py p0)) (B2R (py p1)) (B2R d0) (B2R d1) (B2R d)).

Lemma interp2_edist x0 y0 x1 y1 d0 d1 a b : d0 < d1 ->
  edist (interp_R x0 x1 d0 d1 a, interp_R y0 y1 d0 d1 a) (interp_R x0 x1 d0 d1 b, interp_R y0 y1 d0 d1 b)
  = edist (x0, y0) (x1, y1) * (Rabs (a - b) / (d1 - d0)).
Proof.
  intros Hd. assert (HD : 0 < d1 - d0) by lra.
  assert (k0 : 0 <= Rabs (a - b) / (d1 - d0)).
  { apply Rmult_le_pos; [apply Rabs_pos|left; apply Rinv_0_lt_compat; exact HD]. }
  apply edist_eq; [apply Rmult_le_pos; [apply edist_ge0|exact k0]|]. cbn [fst snd].
  rewrite Rpow_mult_distr, edist_sq. cbn [fst snd].
  replace ((Rabs (a - b) / (d1 - d0)) ^ 2) with (((b - a) / (d1 - d0)) ^ 2).
  - rewrite !interp_R_affine by (apply Rgt_not_eq; lra). ring.
  - unfold Rdiv. rewrite !Rpow_mult_distr, pow2_abs. ring.
Qed.

Lemma slope_part ch D t G l : 0 < D -> 0 <= t <= D -> 0 <= l -> ch <= G * D + l -> 0 <= G ->
  ch * (t / D) <= G * t + l.
Proof.
  intros HD Ht Hl Hch HG.
  assert (Hw : 0 <= t / D <= 1).
  { split.
    - apply Rmult_le_pos; [lra|left; apply Rinv_0_lt_compat; exact HD].
    - apply (Rmult_le_reg_r D); [exact HD|]. unfold Rdiv. rewrite Rmult_assoc, Rinv_l by lra. lra. }
  assert (Et : t = t / D * D) by (field; lra).
  set (w := t / D) in *.
  assert (A1 : ch * w <= (G * D + l) * w) by (apply Rmult_le_compat_r; lra).
  assert (A2 : l * w <= l) by nra.
  replace (G * t) with (G * D * w) by (rewrite Et at 1; ring). lra.
Qed.

(* ---------- the global Lipschitz bound ---------- *)

Theorem global_lipschitz_ieee (path : list Pos) i j a b p0 p1 d0 d1 q0 q1 e0 e1 :
  Forall (fun p => coord_le p 20) path -> segs_ok path -> (length path <= 2 ^ 50)%nat ->
  poly_len (map R2 path) <= pw 1000 ->
  (i <= j)%nat ->
  nth_error path i = Some p0 -> nth_error path (S i) = Some p1 ->
  nth_error (natural path D.zero) i = Some d0 -> nth_error (natural path D.zero) (S i) = Some d1 ->
  nth_error path j = Some q0 -> nth_error path (S j) = Some q1 ->
  nth_error (natural path D.zero) j = Some e0 -> nth_error (natural path D.zero) (S j) = Some e1 ->
  interp_hyps p0 p1 d0 d1 a -> interp_hyps q0 q1 e0 e1 b ->
  let Eax := E19 (B2R (px p0)) (B2R (px p1)) in
  let Eay := E19 (B2R (py p0)) (B2R (py p1)) in
  let Ebx := E19 (B2R (px q0)) (B2R (px q1)) in
  let Eby := E19 (B2R (py q0)) (B2R (py q1)) in
  let G := (1 + delta19) * Rabs (B2R b - B2R a) + INR (j - i + 1) * eta19 * B2R e1 in
  exists qa qb,
    interpolate_vertices path (natural path D.zero) (S i) a = Done qa /\
    interpolate_vertices path (natural path D.zero) (S j) b = Done qb /\
    Rabs (B2R (px qa) - B2R (px qb)) <= G + Eax + Ebx /\
    Rabs (B2R (py qa) - B2R (py qb)) <= G + Eay + Eby /\
    edist (R2 qa) (R2 qb) <= G + (Eax + Eay) + (Ebx + Eby).
Proof.
  intros Hc Hs Hn Ht Hij H0 H1 L0 L1 K0 K1 M0 M1 Ha Hb Eax Eay Ebx Eby G.
  pose proof (interp_hyps_lt _ _ _ _ _ Ha) as Hlta. pose proof (interp_hyps_lt _ _ _ _ _ Hb) as Hltb.
  destruct (interpolation_ieee_bound path _ i a p0 p1 d0 d1 H0 H1 L0 L1 Ha) as (qa & Hqa & _ & _ & Bax & Bay).
  destruct (interpolation_ieee_bound path _ j b q0 q1 e0 e1 K0 K1 M0 M1 Hb) as (qb & Hqb & _ & _ & Bbx & Bby).
  exists qa, qb. split; [exact Hqa|]. split; [exact Hqb|].
  fold Eax in Bax. fold Eay in Bay. fold Ebx in Bbx. fold Eby in Bby.
  destruct (chord_le_length_increment_ieee path i p0 p1 d0 d1 Hc Hs Hn Ht H0 H1 L0 L1) as (_ & _ & (Cd0 & Cd1) & Cha).
  destruct (chord_le_length_increment_ieee path j q0 q1 e0 e1 Hc Hs Hn Ht K0 K1 M0 M1) as (_ & _ & (Ce0 & Ce1) & Chb).
  destruct Ha as (_ & _ & _ & _ & _ & _ & _ & _ & (Ha0 & Ha1) & _).
  destruct Hb as (_ & _ & _ & _ & _ & _ & _ & _ & (Hb0 & Hb1) & _).
  pose proof delta19_pos as Pd. pose proof eta19_pos as Pe.
  set (Pa := interp_P p0 p1 d0 d1 a). set (Pb := interp_P q0 q1 e0 e1 b).
  (* the exact points *)
  assert (Core : edist Pa Pb <= G).
  { destruct (Nat.eq_dec i j) as [Eij|Nij].
    - subst j. rewrite K0 in H0. rewrite K1 in H1. rewrite M0 in L0. rewrite M1 in L1.
      inversion H0; inversion H1; inversion L0; inversion L1; subst.
      unfold Pa, Pb, interp_P. rewrite (interp2_edist _ _ _ _ _ _ _ _ Hlta). fold (R2 p0) (R2 p1).
      unfold G. rewrite Nat.sub_diag. cbn [Nat.add INR]. rewrite (Rabs_minus_sym (B2R b)).
      assert (Tt : 0 <= Rabs (B2R a - B2R b) <= B2R d1 - B2R d0).
      { split; [apply Rabs_pos|]. apply Rabs_le. lra. }
      pose proof (slope_part _ (B2R d1 - B2R d0) _ (1 + delta19) (eta19 * B2R d1) ltac:(lra) Tt ltac:(nra) Cha ltac:(lra)).
      lra.
    - assert (Hlt : (S i <= j)%nat) by lia.
      destruct (chain_vertices path Hc Hs Hn Ht (j - S i) (S i) p1 q0 d1 e0 H1
                  ltac:(replace (S i + (j - S i))%nat with j by lia; exact K0) L1
                  ltac:(replace (S i + (j - S i))%nat with j by lia; exact M0)) as (Cm & Chm).
      set (n := (j - S i)%nat) in *.
      assert (EPa : edist Pa (R2 p1) = edist (R2 p0) (R2 p1) * (Rabs (B2R a - B2R d1) / (B2R d1 - B2R d0))).
      { unfold Pa, interp_P, R2 at 1.
        rewrite <- (interp_R_at_d1 (B2R (px p0)) (B2R (px p1)) (B2R d0) (B2R d1)) at 2 by (apply Rgt_not_eq; lra).
        rewrite <- (interp_R_at_d1 (B2R (py p0)) (B2R (py p1)) (B2R d0) (B2R d1)) at 2 by (apply Rgt_not_eq; lra).
        apply (interp2_edist _ _ _ _ _ _ _ _ Hlta). }
      assert (EPb : edist (R2 q0) Pb = edist (R2 q0) (R2 q1) * (Rabs (B2R e0 - B2R b) / (B2R e1 - B2R e0))).
      { unfold Pb, interp_P, R2 at 1.
        rewrite <- (interp_R_at_d0 (B2R (px q0)) (B2R (px q1)) (B2R e0) (B2R e1)) at 1 by (apply Rgt_not_eq; lra).
        rewrite <- (interp_R_at_d0 (B2R (py q0)) (B2R (py q1)) (B2R e0) (B2R e1)) at 1 by (apply Rgt_not_eq; lra).
        apply (interp2_edist _ _ _ _ _ _ _ _ Hltb). }
      rewrite (Rabs_left1 (B2R a - B2R d1)) in EPa by lra.
      rewrite (Rabs_left1 (B2R e0 - B2R b)) in EPb by lra.
      pose proof (slope_part _ (B2R d1 - B2R d0) (- (B2R a - B2R d1)) (1 + delta19) (eta19 * B2R d1)
                    ltac:(lra) ltac:(lra) ltac:(nra) Cha ltac:(lra)) as Sa.
      pose proof (slope_part _ (B2R e1 - B2R e0) (- (B2R e0 - B2R b)) (1 + delta19) (eta19 * B2R e1)
                    ltac:(lra) ltac:(lra) ltac:(nra) Chb ltac:(lra)) as Sb.
      rewrite <- EPa in Sa. rewrite <- EPb in Sb.
      pose proof (edist_triangle Pa (R2 p1) Pb) as T1. pose proof (edist_triangle (R2 p1) (R2 q0) Pb) as T2.
      unfold G. replace (j - i + 1)%nat with (S (S n)) by (unfold n; lia). rewrite !S_INR.
      rewrite (Rabs_pos_eq (B2R b - B2R a)) by lra.
      pose proof (pos_INR n) as Pn.
      assert (Q1 : INR n * eta19 * B2R e0 <= INR n * eta19 * B2R e1).
      { apply Rmult_le_compat_l; [apply Rmult_le_pos; lra|lra]. }
      assert (Q2 : eta19 * B2R d1 <= eta19 * B2R e1) by (apply Rmult_le_compat_l; lra).
      lra. }
  assert (Cx : Rabs (fst Pa - fst Pb) <= edist Pa Pb).
  { pose proof (edist_sq Pa Pb) as Q. pose proof (edist_ge0 Pa Pb) as Q0.
    apply Rsqr_incr_0_var; [|exact Q0]. rewrite <- Rsqr_abs. unfold Rsqr.
    pose proof (pow2_ge_0 (snd Pb - snd Pa)). nra. }
  assert (Cy : Rabs (snd Pa - snd Pb) <= edist Pa Pb).
  { pose proof (edist_sq Pa Pb) as Q. pose proof (edist_ge0 Pa Pb) as Q0.
    apply Rsqr_incr_0_var; [|exact Q0]. rewrite <- Rsqr_abs. unfold Rsqr.
    pose proof (pow2_ge_0 (fst Pb - fst Pa)). nra. }
  change (interp_R (B2R (px p0)) (B2R (px p1)) (B2R d0) (B2R d1) (B2R a)) with (fst Pa) in Bax.
  change (interp_R (B2R (py p0)) (B2R (py p1)) (B2R d0) (B2R d1) (B2R a)) with (snd Pa) in Bay.
  change (interp_R (B2R (px q0)) (B2R (px q1)) (B2R e0) (B2R e1) (B2R b)) with (fst Pb) in Bbx.
  change (interp_R (B2R (py q0)) (B2R (py q1)) (B2R e0) (B2R e1) (B2R b)) with (snd Pb) in Bby.
  split; [|split].
  - replace (B2R (px qa) - B2R (px qb)) with ((B2R (px qa) - fst Pa) + (fst Pa - fst Pb) + - (B2R (px qb) - fst Pb)) by ring.
    eapply Rle_trans; [apply Rabs_triang|]. eapply Rle_trans; [apply Rplus_le_compat_r, Rabs_triang|].
    rewrite Rabs_Ropp. lra.
  - replace (B2R (py qa) - B2R (py qb)) with ((B2R (py qa) - snd Pa) + (snd Pa - snd Pb) + - (B2R (py qb) - snd Pb)) by ring.
    eapply Rle_trans; [apply Rabs_triang|]. eapply Rle_trans; [apply Rplus_le_compat_r, Rabs_triang|].
    rewrite Rabs_Ropp. lra.
  - pose proof (edist_triangle (R2 qa) Pa (R2 qb)) as T1. pose proof (edist_triangle Pa Pb (R2 qb)) as T2.
    pose proof (edist_le_l1 (R2 qa) Pa) as La. cbn [R2 fst snd] in La.
    pose proof (edist_le_l1 Pb (R2 qb)) as Lb. cbn [R2 fst snd] in Lb.
    rewrite (Rabs_minus_sym (fst Pb)), (Rabs_minus_sym (snd Pb)) in Lb. lra.
Qed.

(* two points in adjacent segments: the special case j = i + 1 *)
Corollary global_lipschitz_ieee_adjacent (path : list Pos) i a b p0 p1 p2 d0 d1 d2 :
  Forall (fun p => coord_le p 20) path -> segs_ok path -> (length path <= 2 ^ 50)%nat ->
  poly_len (map R2 path) <= pw 1000 ->
  nth_error path i = Some p0 -> nth_error path (S i) = Some p1 -> nth_error path (S (S i)) = Some p2 ->
  nth_error (natural path D.zero) i = Some d0 -> nth_error (natural path D.zero) (S i) = Some d1 ->
  nth_error (natural path D.zero) (S (S i)) = Some d2 ->
  interp_hyps p0 p1 d0 d1 a -> interp_hyps p1 p2 d1 d2 b ->
  let G := (1 + delta19) * (B2R b - B2R a) + 2 * eta19 * B2R d2 in
  exists qa qb,
    interpolate_vertices path (natural path D.zero) (S i) a = Done qa /\
    interpolate_vertices path (natural path D.zero) (S (S i)) b = Done qb /\
    Rabs (B2R (px qa) - B2R (px qb)) <= G + E19 (B2R (px p0)) (B2R (px p1)) + E19 (B2R (px p1)) (B2R (px p2)) /\
    Rabs (B2R (py qa) - B2R (py qb)) <= G + E19 (B2R (py p0)) (B2R (py p1)) + E19 (B2R (py p1)) (B2R (py p2)) /\
    edist (R2 qa) (R2 qb) <= G + (E19 (B2R (px p0)) (B2R (px p1)) + E19 (B2R (py p0)) (B2R (py p1)))
                               + (E19 (B2R (px p1)) (B2R (px p2)) + E19 (B2R (py p1)) (B2R (py p2))).
Proof.
  intros Hc Hs Hn Ht H0 H1 H2 L0 L1 L2 Ha Hb G.
  destruct (global_lipschitz_ieee path i (S i) a b p0 p1 d0 d1 p1 p2 d1 d2 Hc Hs Hn Ht ltac:(lia)
              H0 H1 L0 L1 H1 H2 L1 L2 Ha Hb) as (qa & qb & Hqa & Hqb & Bx & By & Be).
  exists qa, qb. split; [exact Hqa|]. split; [exact Hqb|].
  assert (EG : (1 + delta19) * Rabs (B2R b - B2R a) + INR (S i - i + 1) * eta19 * B2R d2 = G).
  { unfold G. replace (S i - i + 1)%nat with 2%nat by lia. change (INR 2) with (1 + 1).
    destruct Ha as (_ & _ & _ & _ & _ & _ & _ & _ & (_ & Ha1) & _).
    destruct Hb as (_ & _ & _ & _ & _ & _ & _ & _ & (Hb0 & _) & _).
    rewrite Rabs_pos_eq by lra. ring. }
  rewrite EG in Bx, By, Be. split; [exact Bx|]. split; [exact By|exact Be].
Qed.

(* ---------- the example polyline (0,0) (3,4) (8,16) ---------- *)
From RM Require Import Proofs.EncFloat Proofs.PositionExact Proofs.AdjustIEEEEx.

(* distance 2 on the first segment and distance 9 on the second one, lengths
   as calculate_length computes them: the hypotheses hold and the two computed
   positions are at most |9 - 2| + 1e-5 apart *)
Example ex_global_lipschitz :
  exists qa qb,
    interpolate_vertices ex_path (natural ex_path D.zero) 1 (D.of_Z 2) = Done qa /\
    interpolate_vertices ex_path (natural ex_path D.zero) 2 (D.of_Z 9) = Done qb /\
    edist (R2 qa) (R2 qb) <= 7 + 1 / 100000.
Proof.
  destruct ex_path_hyps as (Hc & Hs & Hn & Ht).
  destruct ex_R2 as (E1 & E2). pose proof ex_R2_0 as E0.
  assert (Hcum : cumlen (map R2 ex_path) = [0; 5; 18]).
  { unfold ex_path. cbn [map]. rewrite E0, E1, E2. exact (proj1 cumlen_example). }
  assert (Hl : exists l0 l1 l2, natural ex_path D.zero = [l0; l1; l2]).
  { pose proof ex_lens_are_natural as N.
    destruct (natural ex_path D.zero) as [|x0 [|x1 [|x2 [|x3 r]]]]; try discriminate N.
    exists x0, x1, x2. reflexivity. }
  destruct Hl as (l0 & l1 & l2 & Hl).
  pose proof (natural_lengths_error ex_path Hc Hs Hn Ht) as Hok.
  change (length ex_path) with 3%nat in Hok.
  assert (A3 : alpha 3 <= 1.8 / 10000000).
  { unfold alpha, u32, u64. change (INR 3) with (1 + 1 + 1). lra. }
  destruct (lens_ok_nth _ _ _ 0%nat l0 0 Hok ltac:(rewrite Hl; reflexivity) ltac:(rewrite Hcum; reflexivity)) as (F0 & (x0 & X0 & _)).
  destruct (lens_ok_nth _ _ _ 1%nat l1 5 Hok ltac:(rewrite Hl; reflexivity) ltac:(rewrite Hcum; reflexivity)) as (F1 & (x1 & X1 & B1)).
  destruct (lens_ok_nth _ _ _ 2%nat l2 18 Hok ltac:(rewrite Hl; reflexivity) ltac:(rewrite Hcum; reflexivity)) as (F2 & (x2 & X2 & B2)).
  apply Rabs_le_inv in B1. apply Rabs_le_inv in B2.
  assert (R0 : B2R l0 = 0) by (rewrite X0; ring).
  assert (R1 : 5 - 1 / 1000000 <= B2R l1 <= 5 + 1 / 1000000) by (rewrite X1; nra).
  assert (R2' : 18 - 4 / 1000000 <= B2R l2 <= 18 + 4 / 1000000) by (rewrite X2; nra).
  destruct (D_ofZ 2 ltac:(lia)) as (Fa & Ra). destruct (D_ofZ 9 ltac:(lia)) as (Fb & Rb).
  assert (P51 : pw (-51) <= 1) by (apply Rle_trans with (pw 0); [apply bpow_le; lia|cbn; lra]).
  assert (Ha : interp_hyps ex_p0 ex_p1 l0 l1 (D.of_Z 2)).
  { unfold interp_hyps. cbn [ex_p0 ex_p1 px py]. repeat (split; [apply bnd32_ofZ; lia|]).
    split; [exact F0|]. split; [exact F1|]. split; [exact Fa|]. rewrite R0, Ra.
    split; [lra|]. split; [lra|]. apply guard_false_of_gap; [exact F0|exact F1|lra|lra]. }
  assert (Hb : interp_hyps ex_p1 ex_p2 l1 l2 (D.of_Z 9)).
  { unfold interp_hyps. cbn [ex_p1 ex_p2 px py]. repeat (split; [apply bnd32_ofZ; lia|]).
    split; [exact F1|]. split; [exact F2|]. split; [exact Fb|]. rewrite Rb.
    split; [lra|]. split; [lra|]. apply guard_false_of_gap; [exact F1|exact F2|lra|lra]. }
  destruct (global_lipschitz_ieee_adjacent ex_path 0 (D.of_Z 2) (D.of_Z 9) ex_p0 ex_p1 ex_p2 l0 l1 l2 Hc Hs Hn Ht
              eq_refl eq_refl eq_refl ltac:(rewrite Hl; reflexivity) ltac:(rewrite Hl; reflexivity)
              ltac:(rewrite Hl; reflexivity) Ha Hb) as (qa & qb & Hqa & Hqb & _ & _ & Be).
  exists qa, qb. split; [exact Hqa|]. split; [exact Hqb|].
  eapply Rle_trans; [exact Be|]. rewrite Ra, Rb.
  unfold ex_p0, ex_p1, ex_p2. cbn [px py].
  rewrite (proj2 (S_ofZ 0 ltac:(lia))), (proj2 (S_ofZ 3 ltac:(lia))), (proj2 (S_ofZ 4 ltac:(lia))),
          (proj2 (S_ofZ 8 ltac:(lia))), (proj2 (S_ofZ 16 ltac:(lia))).
  assert (P : pw (-125) <= / 100000000).
  { apply Rle_trans with (pw (-30)); [apply bpow_le; lia|cbn; lra]. }
  unfold E19. replace (3 - 0) with 3 by ring. replace (4 - 0) with 4 by ring.
  replace (8 - 3) with 5 by ring. replace (16 - 4) with 12 by ring.
  rewrite Rabs_R0, !(Rabs_pos_eq 3), !(Rabs_pos_eq 4), !(Rabs_pos_eq 8), !(Rabs_pos_eq 16),
          (Rabs_pos_eq 5), (Rabs_pos_eq 12) by lra.
  rewrite !Rmax_right by lra.
  unfold delta19, eta19, u32, u64. lra.
Qed.

(* ================================================================== *)
(* without per-segment hypotheses: every segment of a curve of exact   *)
(* length <= 2^40, the near-zero guard included                        *)
(* ================================================================== *)

From RM Require Import Proofs.InterpIEEEFrac.

Lemma Forall2_nth_l {A B} (Rl : A -> B -> Prop) xs cs : Forall2 Rl xs cs ->
  forall k x, nth_error xs k = Some x -> exists c, nth_error cs k = Some c /\ Rl x c.
Proof.
  induction 1 as [|x0 c0 xs cs H0 _ IH]; intros [|k] x Hx; try discriminate.
  - cbn in Hx. inversion Hx; subst. exists c0. split; [reflexivity|exact H0].
  - cbn in Hx. exact (IH k x Hx).
Qed.

(* the conclusions of the global theorems from the distance of the two exact points *)
Lemma near_points (qa qb : Pos) (Pa Pb : P2) Eax Eay Ebx Eby G :
  Rabs (B2R (px qa) - fst Pa) <= Eax -> Rabs (B2R (py qa) - snd Pa) <= Eay ->
  Rabs (B2R (px qb) - fst Pb) <= Ebx -> Rabs (B2R (py qb) - snd Pb) <= Eby ->
  edist Pa Pb <= G ->
  Rabs (B2R (px qa) - B2R (px qb)) <= G + Eax + Ebx /\
  Rabs (B2R (py qa) - B2R (py qb)) <= G + Eay + Eby /\
  edist (R2 qa) (R2 qb) <= G + (Eax + Eay) + (Ebx + Eby).
Proof.
  intros Bax Bay Bbx Bby Core.
  assert (Cx : Rabs (fst Pa - fst Pb) <= edist Pa Pb).
  { pose proof (edist_sq Pa Pb) as Q. pose proof (edist_ge0 Pa Pb) as Q0.
    apply Rsqr_incr_0_var; [|exact Q0]. rewrite <- Rsqr_abs. unfold Rsqr.
    pose proof (pow2_ge_0 (snd Pb - snd Pa)). nra. }
  assert (Cy : Rabs (snd Pa - snd Pb) <= edist Pa Pb).
  { pose proof (edist_sq Pa Pb) as Q. pose proof (edist_ge0 Pa Pb) as Q0.
    apply Rsqr_incr_0_var; [|exact Q0]. rewrite <- Rsqr_abs. unfold Rsqr.
    pose proof (pow2_ge_0 (fst Pb - fst Pa)). nra. }
  split; [|split].
  - replace (B2R (px qa) - B2R (px qb)) with ((B2R (px qa) - fst Pa) + (fst Pa - fst Pb) + - (B2R (px qb) - fst Pb)) by ring.
    eapply Rle_trans; [apply Rabs_triang|]. eapply Rle_trans; [apply Rplus_le_compat_r, Rabs_triang|].
    rewrite Rabs_Ropp. lra.
  - replace (B2R (py qa) - B2R (py qb)) with ((B2R (py qa) - snd Pa) + (snd Pa - snd Pb) + - (B2R (py qb) - snd Pb)) by ring.
    eapply Rle_trans; [apply Rabs_triang|]. eapply Rle_trans; [apply Rplus_le_compat_r, Rabs_triang|].
    rewrite Rabs_Ropp. lra.
  - pose proof (edist_triangle (R2 qa) Pa (R2 qb)) as T1. pose proof (edist_triangle Pa Pb (R2 qb)) as T2.
    pose proof (edist_le_l1 (R2 qa) Pa) as La. cbn [R2 fst snd] in La.
    pose proof (edist_le_l1 Pb (R2 qb)) as Lb. cbn [R2 fst snd] in Lb.
    rewrite (Rabs_minus_sym (fst Pb)), (Rabs_minus_sym (snd Pb)) in Lb. lra.
Qed.

Definition guard19 (l0 l1 : F64) : bool := D.le (D.abs (D.sub l0 l1)) D.eps.

(* the exact point a distance d on segment (p0, p1), lengths (l0, l1), stands
   for: the vertex p0 when the code's near-zero guard fires, the exact
   interpolated point otherwise *)
Definition exact_pt (p0 p1 : Pos) (l0 l1 d : F64) : P2 :=
  if guard19 l0 l1 then R2 p0 else interp_P p0 p1 l0 l1 d.

Section Located.
  Variable path : list Pos.
  Hypothesis Hc : Forall (fun p => coord_le p 20) path.
  Hypothesis Hs : segs_ok path.
  Hypothesis Hn : (length path <= 2 ^ 50)%nat.
  Hypothesis Ht40 : poly_len (map R2 path) <= pw 40.
  Local Notation lens := (natural path D.zero).

  Lemma Ht1000 : poly_len (map R2 path) <= pw 1000.
  Proof. eapply Rle_trans; [exact Ht40|apply bpow_le; zl]. Qed.

  Lemma natural_nth_bound k l : nth_error lens k = Some l -> fin l /\ 0 <= B2R l <= pw 41.
  Proof.
    intros Hl. pose proof (natural_lengths_error path Hc Hs Hn Ht1000) as Hok.
    destruct (Forall2_nth_l _ _ _ Hok k l Hl) as (c & Hcc & (Fl & Rl)).
    unfold cumlen in Hcc. destruct (cum_g_nth_bounds _ _ _ _ Hcc) as (Hc0 & Hc1).
    fold (poly_len (map R2 path)) in Hc1.
    destruct (alpha_small (length path) Hn) as (_ & Au).
    split; [exact Fl|]. split; [apply (rel_nonneg _ _ _ Rl); [lra|exact Hc0]|].
    pose proof (rel_abs_le _ _ _ Rl) as A. rewrite (Rabs_pos_eq c) in A by exact Hc0.
    eapply Rle_trans; [apply Rle_abs|]. eapply Rle_trans; [exact A|].
    change 41%Z with (40 + 1)%Z. rewrite bpow_plus. change (pw 1) with 2.
    pose proof (bpow_gt_0 radix2 40). nra.
  Qed.

  Lemma natural_sorted_fin : sorted_fin lens.
  Proof.
    split.
    - apply Forall_forall. intros x Hx. destruct (In_nth_error _ _ Hx) as (k & Hk).
      exact (proj1 (natural_nth_bound k x Hk)).
    - intros a b x y Hab Ha Hb. destruct (Nat.eq_dec a b) as [E|NE].
      + subst b. rewrite Ha in Hb. inversion Hb; subst. lra.
      + assert (Hb' : (b < length lens)%nat) by (apply nth_error_Some; congruence).
        rewrite natural_length in Hb'.
        assert (Hbp : (b < length path)%nat) by lia.
        destruct (nth_error path a) as [pa|] eqn:Epa; [|apply nth_error_None in Epa; lia].
        destruct (nth_error path b) as [pb|] eqn:Epb; [|apply nth_error_None in Epb; lia].
        replace b with (a + (b - a))%nat in Epb, Hb by lia.
        exact (proj1 (chain_vertices path Hc Hs Hn Ht1000 (b - a) a pa pb x y Epa Epb Ha Hb)).
  Qed.

  (* a segment on which the guard of the code fires is degenerate *)
  Lemma guard_true_degenerate k p0 p1 l0 l1 :
    nth_error path k = Some p0 -> nth_error path (S k) = Some p1 ->
    nth_error lens k = Some l0 -> nth_error lens (S k) = Some l1 ->
    guard19 l0 l1 = true -> R2 p0 = R2 p1.
  Proof.
    intros H0 H1 L0 L1 Hg.
    destruct (chord_le_length_increment_ieee path k p0 p1 l0 l1 Hc Hs Hn Ht1000 H0 H1 L0 L1) as (F0 & F1 & (C0 & C1) & Ch).
    destruct (natural_nth_bound _ _ L1) as (_ & _ & U1).
    destruct (Rlt_or_le (B2R l1 - B2R l0) (pw (-51))) as [Hlt|Hge].
    - destruct (segs_ok_nth path k p0 p1 Hs H0 H1) as [E|E]; [exact E|exfalso].
      assert (P51 : pw (-51) <= / 1000000000000000) by (cbn; lra).
      assert (P41 : pw 41 = 2199023255552) by (cbn; lra).
      assert (P10 : pw (-10) = / 1024) by (cbn; lra).
      rewrite P41 in U1. rewrite P10 in E. unfold delta19, eta19, u32, u64 in Ch. lra.
    - exfalso. unfold guard19 in Hg. rewrite (guard_false_of_gap l0 l1 F0 F1 C0 Hge) in Hg. discriminate.
  Qed.

  (* the position on segment i at a distance d between its two lengths: the
     computed point is within E19 of [exact_pt], and [exact_pt] is not farther
     from the two vertices than the lengths say *)
  Lemma segment_point i d p0 p1 l0 l1 :
    nth_error path i = Some p0 -> nth_error path (S i) = Some p1 ->
    nth_error lens i = Some l0 -> nth_error lens (S i) = Some l1 ->
    fin d -> B2R l0 <= B2R d <= B2R l1 ->
    let P := exact_pt p0 p1 l0 l1 d in
    exists q, interpolate_vertices path lens (S i) d = Done q /\
      Rabs (B2R (px q) - fst P) <= E19 (B2R (px p0)) (B2R (px p1)) /\
      Rabs (B2R (py q) - snd P) <= E19 (B2R (py p0)) (B2R (py p1)) /\
      edist (R2 p0) P <= (1 + delta19) * (B2R d - B2R l0) + eta19 * B2R l1 /\
      edist P (R2 p1) <= (1 + delta19) * (B2R l1 - B2R d) + eta19 * B2R l1.
  Proof.
    intros H0 H1 L0 L1 Fd Hd P.
    destruct (chord_le_length_increment_ieee path i p0 p1 l0 l1 Hc Hs Hn Ht1000 H0 H1 L0 L1) as (F0 & F1 & (C0 & C1) & Ch).
    pose proof delta19_pos as Pd. pose proof eta19_pos as Pe.
    assert (Z0 : 0 <= eta19 * B2R l1) by (apply Rmult_le_pos; lra).
    unfold P, exact_pt. destruct (guard19 l0 l1) eqn:Hg.
    - pose proof (guard_true_degenerate i p0 p1 l0 l1 H0 H1 L0 L1 Hg) as Edeg.
      exists p0. split.
      + rewrite (interpolate_between path lens i d p0 p1 l0 l1 H0 H1 L0 L1). unfold guard19 in Hg. rewrite Hg. reflexivity.
      + cbn [R2 fst snd]. rewrite !Rminus_diag_eq, Rabs_R0 by reflexivity.
        split; [apply E19_nonneg|]. split; [apply E19_nonneg|].
        rewrite <- Edeg, edist_refl. split; nra.
    - assert (Hh : interp_hyps p0 p1 l0 l1 d).
      { rewrite Forall_forall in Hc.
        destruct (Hc p0 (nth_error_In _ _ H0)) as (Bx0 & By0). destruct (Hc p1 (nth_error_In _ _ H1)) as (Bx1 & By1).
        unfold interp_hyps. repeat (split; [assumption|]). exact Hg. }
      pose proof (interp_hyps_lt _ _ _ _ _ Hh) as Hlt.
      destruct (interpolation_ieee_bound path lens i d p0 p1 l0 l1 H0 H1 L0 L1 Hh) as (q & Hq & _ & _ & Bx & By).
      exists q. split; [exact Hq|]. split; [exact Bx|]. split; [exact By|].
      assert (EP0 : edist (R2 p0) (interp_P p0 p1 l0 l1 d) = edist (R2 p0) (R2 p1) * (Rabs (B2R l0 - B2R d) / (B2R l1 - B2R l0))).
      { unfold interp_P, R2 at 1.
        rewrite <- (interp_R_at_d0 (B2R (px p0)) (B2R (px p1)) (B2R l0) (B2R l1)) at 1 by (apply Rgt_not_eq; lra).
        rewrite <- (interp_R_at_d0 (B2R (py p0)) (B2R (py p1)) (B2R l0) (B2R l1)) at 1 by (apply Rgt_not_eq; lra).
        apply (interp2_edist _ _ _ _ _ _ _ _ Hlt). }
      assert (EP1 : edist (interp_P p0 p1 l0 l1 d) (R2 p1) = edist (R2 p0) (R2 p1) * (Rabs (B2R d - B2R l1) / (B2R l1 - B2R l0))).
      { unfold interp_P, R2 at 1.
        rewrite <- (interp_R_at_d1 (B2R (px p0)) (B2R (px p1)) (B2R l0) (B2R l1)) at 2 by (apply Rgt_not_eq; lra).
        rewrite <- (interp_R_at_d1 (B2R (py p0)) (B2R (py p1)) (B2R l0) (B2R l1)) at 2 by (apply Rgt_not_eq; lra).
        apply (interp2_edist _ _ _ _ _ _ _ _ Hlt). }
      rewrite (Rabs_left1 (B2R l0 - B2R d)) in EP0 by lra.
      rewrite (Rabs_left1 (B2R d - B2R l1)) in EP1 by lra.
      pose proof (slope_part _ (B2R l1 - B2R l0) (- (B2R l0 - B2R d)) (1 + delta19) (eta19 * B2R l1)
                    ltac:(lra) ltac:(lra) Z0 Ch ltac:(lra)) as S0.
      pose proof (slope_part _ (B2R l1 - B2R l0) (- (B2R d - B2R l1)) (1 + delta19) (eta19 * B2R l1)
                    ltac:(lra) ltac:(lra) Z0 Ch ltac:(lra)) as S1.
      rewrite <- EP0 in S0. rewrite <- EP1 in S1. split; lra.
  Qed.

  (* two distances on the same segment *)
  Lemma same_segment_points i a b p0 p1 l0 l1 :
    nth_error path i = Some p0 -> nth_error path (S i) = Some p1 ->
    nth_error lens i = Some l0 -> nth_error lens (S i) = Some l1 ->
    B2R l0 <= B2R a <= B2R l1 -> B2R l0 <= B2R b <= B2R l1 ->
    edist (exact_pt p0 p1 l0 l1 a) (exact_pt p0 p1 l0 l1 b)
    <= (1 + delta19) * Rabs (B2R b - B2R a) + eta19 * B2R l1.
  Proof.
    intros H0 H1 L0 L1 Ha Hb.
    destruct (chord_le_length_increment_ieee path i p0 p1 l0 l1 Hc Hs Hn Ht1000 H0 H1 L0 L1) as (F0 & F1 & (C0 & C1) & Ch).
    pose proof delta19_pos as Pd. pose proof eta19_pos as Pe.
    assert (Z0 : 0 <= eta19 * B2R l1) by (apply Rmult_le_pos; lra).
    pose proof (Rabs_pos (B2R b - B2R a)) as Pab.
    unfold exact_pt. destruct (guard19 l0 l1) eqn:Hg.
    - rewrite edist_refl. nra.
    - assert (Hlt : B2R l0 < B2R l1) by (apply guard_false_lt; [exact F0|exact F1|lra|exact Hg]).
      unfold interp_P. rewrite (interp2_edist _ _ _ _ _ _ _ _ Hlt). fold (R2 p0) (R2 p1).
      rewrite (Rabs_minus_sym (B2R b)).
      assert (Tt : 0 <= Rabs (B2R a - B2R b) <= B2R l1 - B2R l0).
      { split; [apply Rabs_pos|]. apply Rabs_le. lra. }
      pose proof (slope_part _ (B2R l1 - B2R l0) _ (1 + delta19) (eta19 * B2R l1) ltac:(lra) Tt Z0 Ch ltac:(lra)).
      lra.
  Qed.

  (* the exact points of two distances on segments i <= j *)
  Lemma exact_pts_distance i j a b p0 p1 d0 d1 q0 q1 e0 e1 :
    (i <= j)%nat ->
    nth_error path i = Some p0 -> nth_error path (S i) = Some p1 ->
    nth_error lens i = Some d0 -> nth_error lens (S i) = Some d1 ->
    nth_error path j = Some q0 -> nth_error path (S j) = Some q1 ->
    nth_error lens j = Some e0 -> nth_error lens (S j) = Some e1 ->
    fin a -> fin b -> B2R d0 <= B2R a <= B2R d1 -> B2R e0 <= B2R b <= B2R e1 ->
    edist (exact_pt p0 p1 d0 d1 a) (exact_pt q0 q1 e0 e1 b)
    <= (1 + delta19) * Rabs (B2R b - B2R a) + INR (j - i + 1) * eta19 * B2R e1.
  Proof.
    intros Hij H0 H1 L0 L1 K0 K1 M0 M1 Fa Fb Ha Hb.
    pose proof delta19_pos as Pd. pose proof eta19_pos as Pe.
    destruct (Nat.eq_dec i j) as [Eij|Nij].
    - subst j. rewrite K0 in H0. rewrite K1 in H1. rewrite M0 in L0. rewrite M1 in L1.
      inversion H0; inversion H1; inversion L0; inversion L1; subst.
      rewrite Nat.sub_diag. cbn [Nat.add INR]. rewrite Rmult_1_l.
      exact (same_segment_points i a b p0 p1 d0 d1 K0 K1 M0 M1 Ha Hb).
    - destruct (segment_point i a p0 p1 d0 d1 H0 H1 L0 L1 Fa Ha) as (_ & _ & _ & _ & _ & Sa).
      destruct (segment_point j b q0 q1 e0 e1 K0 K1 M0 M1 Fb Hb) as (_ & _ & _ & _ & Sb & _).
      destruct (chain_vertices path Hc Hs Hn Ht1000 (j - S i) (S i) p1 q0 d1 e0 H1
                  ltac:(replace (S i + (j - S i))%nat with j by lia; exact K0) L1
                  ltac:(replace (S i + (j - S i))%nat with j by lia; exact M0)) as (Cm & Chm).
      set (n := (j - S i)%nat) in *.
      set (Pa := exact_pt p0 p1 d0 d1 a) in *. set (Pb := exact_pt q0 q1 e0 e1 b) in *.
      pose proof (edist_triangle Pa (R2 p1) Pb) as T1. pose proof (edist_triangle (R2 p1) (R2 q0) Pb) as T2.
      destruct (natural_nth_bound _ _ L1) as (_ & Zd1 & _).
      replace (j - i + 1)%nat with (S (S n)) by (unfold n; lia). rewrite !S_INR.
      rewrite (Rabs_pos_eq (B2R b - B2R a)) by lra.
      pose proof (pos_INR n) as Pn.
      assert (Q1 : INR n * eta19 * B2R e0 <= INR n * eta19 * B2R e1).
      { apply Rmult_le_compat_l; [apply Rmult_le_pos; lra|lra]. }
      assert (Q2 : eta19 * B2R d1 <= eta19 * B2R e1) by (apply Rmult_le_compat_l; lra).
      lra.
  Qed.

  (* the GLOBAL Lipschitz bound for two distances located on segments i <= j,
     nothing assumed about the guard *)
  Theorem global_lipschitz_segments_ieee i j a b p0 p1 d0 d1 q0 q1 e0 e1 :
    (i <= j)%nat ->
    nth_error path i = Some p0 -> nth_error path (S i) = Some p1 ->
    nth_error lens i = Some d0 -> nth_error lens (S i) = Some d1 ->
    nth_error path j = Some q0 -> nth_error path (S j) = Some q1 ->
    nth_error lens j = Some e0 -> nth_error lens (S j) = Some e1 ->
    fin a -> fin b -> B2R d0 <= B2R a <= B2R d1 -> B2R e0 <= B2R b <= B2R e1 ->
    let Eax := E19 (B2R (px p0)) (B2R (px p1)) in
    let Eay := E19 (B2R (py p0)) (B2R (py p1)) in
    let Ebx := E19 (B2R (px q0)) (B2R (px q1)) in
    let Eby := E19 (B2R (py q0)) (B2R (py q1)) in
    let G := (1 + delta19) * Rabs (B2R b - B2R a) + INR (j - i + 1) * eta19 * B2R e1 in
    exists qa qb,
      interpolate_vertices path lens (S i) a = Done qa /\
      interpolate_vertices path lens (S j) b = Done qb /\
      Rabs (B2R (px qa) - B2R (px qb)) <= G + Eax + Ebx /\
      Rabs (B2R (py qa) - B2R (py qb)) <= G + Eay + Eby /\
      edist (R2 qa) (R2 qb) <= G + (Eax + Eay) + (Ebx + Eby).
  Proof.
    intros Hij H0 H1 L0 L1 K0 K1 M0 M1 Fa Fb Ha Hb Eax Eay Ebx Eby G.
    destruct (segment_point i a p0 p1 d0 d1 H0 H1 L0 L1 Fa Ha) as (qa & Hqa & Bax & Bay & _).
    destruct (segment_point j b q0 q1 e0 e1 K0 K1 M0 M1 Fb Hb) as (qb & Hqb & Bbx & Bby & _).
    exists qa, qb. split; [exact Hqa|]. split; [exact Hqb|].
    exact (near_points qa qb _ _ _ _ _ _ G Bax Bay Bbx Bby
             (exact_pts_distance i j a b p0 p1 d0 d1 q0 q1 e0 e1 Hij H0 H1 L0 L1 K0 K1 M0 M1 Fa Fb Ha Hb)).
  Qed.
End Located.

(* ================================================================== *)
(* through the search: positions as position_at computes them          *)
(* ================================================================== *)

Lemma last_opt_nth {A} (l : list A) x : last_opt l = Some x -> nth_error l (Nat.pred (length l)) = Some x.
Proof.
  induction l as [|a [|b t] IH]; intros H; try discriminate.
  - cbn in H. inversion H; subst. reflexivity.
  - change (last_opt (a :: b :: t)) with (last_opt (b :: t)) in H. specialize (IH H).
    cbn [length Nat.pred] in *. exact IH.
Qed.

Lemma last_opt_some {A} (l : list A) : l <> [] -> exists x, last_opt l = Some x.
Proof.
  induction l as [|a [|b t] IH]; intros H; [congruence|exists a; reflexivity|].
  change (last_opt (a :: b :: t)) with (last_opt (b :: t)). apply IH. discriminate.
Qed.

(* the per-coordinate rounding bound of one interpolation for coordinates of magnitude <= M *)
Definition E19max (M : R) : R := u32 * 7.02 * M + pw (-125).

Lemma E19_le_max c0 c1 M : Rabs c0 <= M -> Rabs c1 <= M -> E19 c0 c1 <= E19max M.
Proof.
  intros H0 H1. unfold E19, E19max.
  assert (Hm : Rmax (Rabs c0) (Rabs c1) <= M) by (apply Rmax_lub; assumption).
  assert (Hd : Rabs (c1 - c0) <= 2 * M).
  { unfold Rminus. eapply Rle_trans; [apply Rabs_triang|]. rewrite Rabs_Ropp. lra. }
  unfold u32. lra.
Qed.

Lemma interpolate_zero path lengths d f : nth_error path 0 = Some f -> interpolate_vertices path lengths 0 d = Done f.
Proof. destruct path; cbn; intros H; [discriminate|inversion H; reflexivity]. Qed.

Definition coords_le (M : R) (path : list Pos) : Prop :=
  Forall (fun p => Rabs (B2R (px p)) <= M /\ Rabs (B2R (py p)) <= M) path.

Section Search.
  Variable path : list Pos.
  Hypothesis Hc : Forall (fun p => coord_le p 20) path.
  Hypothesis Hs : segs_ok path.
  Hypothesis Hn : (length path <= 2 ^ 50)%nat.
  Hypothesis Ht40 : poly_len (map R2 path) <= pw 40.
  Local Notation lens := (natural path D.zero).
  Local Notation L := (Curve.dist lens).

  Lemma dist_is_last : nth_error lens (Nat.pred (length lens)) = Some L.
  Proof.
    destruct (last_opt_some lens ltac:(unfold natural; discriminate)) as (x & Hx).
    unfold Curve.dist. rewrite Hx. apply last_opt_nth. exact Hx.
  Qed.

  Lemma natural_le_dist k l : nth_error lens k = Some l -> B2R l <= B2R L.
  Proof.
    intros Hl. destruct (natural_sorted_fin path Hc Hs Hn Ht40) as (_ & Le).
    apply (Le k (Nat.pred (length lens)) l L); [|exact Hl|exact dist_is_last].
    assert (k < length lens)%nat by (apply nth_error_Some; congruence). lia.
  Qed.

  Lemma dist_bounds : fin L /\ 0 <= B2R L <= pw 41.
  Proof. exact (natural_nth_bound path Hc Hs Hn Ht40 _ _ dist_is_last). Qed.

  Lemma natural_head : nth_error lens 0 = Some D.zero.
  Proof. reflexivity. Qed.

  (* where the search puts a distance 0 <= d <= dist: index 0 only for d = 0,
     otherwise an index S i whose segment contains d *)
  Lemma search_locates d : fin d -> 0 <= B2R d <= B2R L ->
    (idx_of_dist lens d = 0%nat /\ B2R d = 0) \/
    exists i p0 p1 l0 l1, idx_of_dist lens d = S i /\
      nth_error path i = Some p0 /\ nth_error path (S i) = Some p1 /\
      nth_error lens i = Some l0 /\ nth_error lens (S i) = Some l1 /\
      B2R l0 <= B2R d <= B2R l1.
  Proof.
    intros Fd [Hd0 HdL].
    pose proof (natural_sorted_fin path Hc Hs Hn Ht40) as Hsf.
    pose proof (idx_of_dist_contract_ieee lens d Hsf Fd) as C. cbv zeta in C.
    destruct Hsf as (_ & Le).
    assert (Z0 : B2R D.zero = 0) by reflexivity.
    set (k := idx_of_dist lens d) in *.
    assert (Hk : (k < length lens)%nat /\ (k = 0%nat -> B2R d = 0) /\
                 (forall i l0 l1, k = S i -> nth_error lens i = Some l0 -> nth_error lens k = Some l1 ->
                    B2R l0 <= B2R d <= B2R l1)).
    { destruct C as [(x & Hx & Ex)|(Hb & Ha)].
      - split; [apply nth_error_Some; congruence|]. split.
        + intros E. rewrite E in Hx. cbn in Hx. inversion Hx; subst. lra.
        + intros i l0 l1 E H0 H1. rewrite Hx in H1. inversion H1; subst l1.
          pose proof (Le i k l0 x ltac:(lia) H0 Hx). lra.
      - assert (K1 : (k <> 0)%nat).
        { intros E. pose proof (Ha 0%nat D.zero ltac:(lia) natural_head). lra. }
        assert (K2 : (k <= Nat.pred (length lens))%nat).
        { destruct (Nat.le_gt_cases k (Nat.pred (length lens))) as [H|H]; [exact H|].
          pose proof (Hb _ _ H dist_is_last). lra. }
        assert (Hlen : (0 < length lens)%nat) by (unfold natural; cbn [length]; lia).
        split; [lia|]. split; [intros E; congruence|].
        intros i l0 l1 E H0 H1. pose proof (Hb i l0 ltac:(lia) H0). pose proof (Ha k l1 ltac:(lia) H1). lra. }
    destruct Hk as (Hlt & Hz & Hseg).
    destruct k as [|i] eqn:Ek; [left; split; [reflexivity|apply Hz; reflexivity]|right].
    rewrite natural_length in Hlt.
    assert (Hp : (S i < length path)%nat) by lia.
    destruct (nth_error path i) as [p0|] eqn:E0; [|apply nth_error_None in E0; lia].
    destruct (nth_error path (S i)) as [p1|] eqn:E1; [|apply nth_error_None in E1; lia].
    destruct (nth_error lens i) as [l0|] eqn:F0; [|apply nth_error_None in F0; rewrite natural_length in F0; lia].
    destruct (nth_error lens (S i)) as [l1|] eqn:F1; [|apply nth_error_None in F1; rewrite natural_length in F1; lia].
    exists i, p0, p1, l0, l1. repeat (split; [first [reflexivity|assumption]|]). exact (Hseg i l0 l1 eq_refl F0 eq_refl).
  Qed.

  (* from the exact point of a located distance to any vertex *)
  Lemma exact_pt_to_vertex i d p0 p1 l0 l1 m pm lm :
    nth_error path i = Some p0 -> nth_error path (S i) = Some p1 ->
    nth_error lens i = Some l0 -> nth_error lens (S i) = Some l1 ->
    fin d -> B2R l0 <= B2R d <= B2R l1 ->
    nth_error path m = Some pm -> nth_error lens m = Some lm ->
    edist (exact_pt p0 p1 l0 l1 d) (R2 pm)
    <= (1 + delta19) * Rabs (B2R d - B2R lm) + INR (length path) * eta19 * B2R L.
  Proof.
    intros H0 H1 L0 L1 Fd Hd Hm Lm.
    pose proof delta19_pos as Pd. pose proof eta19_pos as Pe.
    destruct (segment_point path Hc Hs Hn Ht40 i d p0 p1 l0 l1 H0 H1 L0 L1 Fd Hd) as (_ & _ & _ & _ & S0 & S1).
    set (P := exact_pt p0 p1 l0 l1 d) in *.
    pose proof (natural_le_dist _ _ L0) as U0. pose proof (natural_le_dist _ _ L1) as U1.
    pose proof (natural_le_dist _ _ Lm) as Um.
    destruct (natural_nth_bound path Hc Hs Hn Ht40 _ _ L0) as (_ & Z0 & _).
    destruct (natural_nth_bound path Hc Hs Hn Ht40 _ _ Lm) as (_ & Zm & _).
    assert (Hi : (S i < length path)%nat) by (apply nth_error_Some; congruence).
    assert (Hmm : (m < length path)%nat) by (apply nth_error_Some; congruence).
    assert (ZL : 0 <= B2R L) by lra.
    destruct (Nat.le_gt_cases (S i) m) as [Hge|Hlt].
    - destruct (chain_vertices path Hc Hs Hn (Ht1000 path Ht40) (m - S i) (S i) p1 pm l1 lm H1
                  ltac:(replace (S i + (m - S i))%nat with m by lia; exact Hm) L1
                  ltac:(replace (S i + (m - S i))%nat with m by lia; exact Lm)) as (Cm & Chm).
      pose proof (edist_triangle P (R2 p1) (R2 pm)) as T.
      rewrite (Rabs_left1 (B2R d - B2R lm)) by lra.
      assert (N : INR (m - S i) + 1 <= INR (length path)).
      { rewrite <- S_INR. apply le_INR. lia. }
      pose proof (pos_INR (m - S i)) as Pn.
      assert (Q1 : INR (m - S i) * eta19 * B2R lm <= INR (m - S i) * eta19 * B2R L).
      { apply Rmult_le_compat_l; [apply Rmult_le_pos; lra|lra]. }
      assert (Q2 : eta19 * B2R l1 <= eta19 * B2R L) by (apply Rmult_le_compat_l; lra).
      assert (Q3 : (INR (m - S i) + 1) * (eta19 * B2R L) <= INR (length path) * (eta19 * B2R L)).
      { apply Rmult_le_compat_r; [apply Rmult_le_pos; lra|exact N]. }
      lra.
    - destruct (chain_vertices path Hc Hs Hn (Ht1000 path Ht40) (i - m) m pm p0 lm l0 Hm
                  ltac:(replace (m + (i - m))%nat with i by lia; exact H0) Lm
                  ltac:(replace (m + (i - m))%nat with i by lia; exact L0)) as (Cm & Chm).
      pose proof (edist_triangle (R2 pm) (R2 p0) P) as T. rewrite (edist_sym P).
      rewrite (Rabs_pos_eq (B2R d - B2R lm)) by lra.
      assert (N : INR (i - m) + 1 <= INR (length path)).
      { rewrite <- S_INR. apply le_INR. lia. }
      pose proof (pos_INR (i - m)) as Pn.
      assert (Q1 : INR (i - m) * eta19 * B2R l0 <= INR (i - m) * eta19 * B2R L).
      { apply Rmult_le_compat_l; [apply Rmult_le_pos; lra|lra]. }
      assert (Q2 : eta19 * B2R l1 <= eta19 * B2R L) by (apply Rmult_le_compat_l; lra).
      assert (Q3 : (INR (i - m) + 1) * (eta19 * B2R L) <= INR (length path) * (eta19 * B2R L)).
      { apply Rmult_le_compat_r; [apply Rmult_le_pos; lra|exact N]. }
      lra.
  Qed.

  Variable M : R.
  Hypothesis HM : coords_le M path.
  Hypothesis HM0 : 0 <= M.

  Lemma E19_path_max k p0 p1 : nth_error path k = Some p0 -> nth_error path (S k) = Some p1 ->
    E19 (B2R (px p0)) (B2R (px p1)) <= E19max M /\ E19 (B2R (py p0)) (B2R (py p1)) <= E19max M.
  Proof.
    intros H0 H1. unfold coords_le in HM. rewrite Forall_forall in HM.
    destruct (HM p0 (nth_error_In _ _ H0)) as (X0 & Y0). destruct (HM p1 (nth_error_In _ _ H1)) as (X1 & Y1).
    split; apply E19_le_max; assumption.
  Qed.

  (* the position the code computes for a distance 0 <= d <= dist (search,
     then interpolation) against ANY vertex m: at most the difference of d and
     the vertex's computed length (times 1 + delta19), plus the accumulated
     addition roundings, plus the rounding of the interpolation *)
  Theorem position_near_vertex_ieee d m pm lm :
    fin d -> 0 <= B2R d <= B2R L ->
    nth_error path m = Some pm -> nth_error lens m = Some lm ->
    let B := (1 + delta19) * Rabs (B2R d - B2R lm) + INR (length path) * eta19 * B2R L + E19max M in
    exists q, interpolate_vertices path lens (idx_of_dist lens d) d = Done q /\
      Rabs (B2R (px q) - B2R (px pm)) <= B /\ Rabs (B2R (py q) - B2R (py pm)) <= B.
  Proof.
    intros Fd Hd Hm Lm B.
    pose proof delta19_pos as Pd. pose proof eta19_pos as Pe.
    assert (EM : 0 <= E19max M).
    { unfold coords_le in HM. rewrite Forall_forall in HM. destruct (HM pm (nth_error_In _ _ Hm)) as (X & _).
      pose proof (Rabs_pos (B2R (px pm))). unfold E19max, u32. pose proof (bpow_gt_0 radix2 (-125)). lra. }
    destruct (search_locates d Fd Hd) as [(Ek & Ez)|(i & p0 & p1 & l0 & l1 & Ek & H0 & H1 & L0 & L1 & Hseg)]; rewrite Ek.
    - assert (Hmm0 : (m < length path)%nat) by (apply nth_error_Some; congruence).
      destruct (nth_error path 0) as [f|] eqn:Hf; [|apply nth_error_None in Hf; lia].
      exists f. split; [apply interpolate_zero; exact Hf|].
      destruct (chain_vertices path Hc Hs Hn (Ht1000 path Ht40) m 0 f pm D.zero lm Hf Hm natural_head Lm) as (Cm & Chm).
      assert (Z0 : B2R D.zero = 0) by reflexivity. rewrite Z0 in *.
      pose proof (natural_le_dist _ _ Lm) as Um.
      assert (Hmm : (m < length path)%nat) by (apply nth_error_Some; congruence).
      assert (N : INR m <= INR (length path)) by (apply le_INR; lia).
      pose proof (pos_INR m) as Pn.
      assert (Q1 : INR m * eta19 * B2R lm <= INR (length path) * eta19 * B2R L).
      { apply Rle_trans with (INR m * eta19 * B2R L).
        - apply Rmult_le_compat_l; [apply Rmult_le_pos; lra|lra].
        - rewrite !Rmult_assoc. apply Rmult_le_compat_r; [apply Rmult_le_pos; lra|exact N]. }
      assert (D0 : edist (R2 f) (R2 pm) <= B - E19max M).
      { unfold B. rewrite Ez, (Rabs_left1 (0 - B2R lm)) by lra. lra. }
      destruct (near_points f pm (R2 f) (R2 pm) 0 0 0 0 _ ltac:(cbn [R2 fst]; rewrite Rminus_diag_eq, Rabs_R0 by reflexivity; lra)
                  ltac:(cbn [R2 snd]; rewrite Rminus_diag_eq, Rabs_R0 by reflexivity; lra)
                  ltac:(cbn [R2 fst]; rewrite Rminus_diag_eq, Rabs_R0 by reflexivity; lra)
                  ltac:(cbn [R2 snd]; rewrite Rminus_diag_eq, Rabs_R0 by reflexivity; lra) D0) as (Bx & By & _).
      split; lra.
    - destruct (segment_point path Hc Hs Hn Ht40 i d p0 p1 l0 l1 H0 H1 L0 L1 Fd Hseg) as (q & Hq & Bx & By & _).
      exists q. split; [exact Hq|].
      pose proof (exact_pt_to_vertex i d p0 p1 l0 l1 m pm lm H0 H1 L0 L1 Fd Hseg Hm Lm) as D0.
      destruct (E19_path_max i p0 p1 H0 H1) as (Mx & My).
      destruct (near_points q pm _ (R2 pm) _ _ 0 0 _ Bx By
                  ltac:(cbn [R2 fst]; rewrite Rminus_diag_eq, Rabs_R0 by reflexivity; lra)
                  ltac:(cbn [R2 snd]; rewrite Rminus_diag_eq, Rabs_R0 by reflexivity; lra) D0) as (Cx & Cy & _).
      unfold B. split; lra.
  Qed.

  (* VERTEX HITS, clusters of nearly equal cumulative lengths included:
     position_at (lengths[j] / dist) is vertex j up to
     (1 + delta19) Dfrac + n eta19 dist + E19max *)
  Theorem vertex_fraction_position_ieee j pj lj :
    nth_error path j = Some pj -> nth_error lens j = Some lj -> 0 < B2R lj ->
    let B := (1 + delta19) * Dfrac (B2R lj) (B2R L) + INR (length path) * eta19 * B2R L + E19max M in
    exists q, position_at path lens (D.div lj L) = Done q /\
      Rabs (B2R (px q) - B2R (px pj)) <= B /\ Rabs (B2R (py q) - B2R (py pj)) <= B.
  Proof.
    intros Hj Lj Hpos B. pose proof delta19_pos as Pd.
    destruct dist_bounds as (FL & ZL & UL).
    destruct (natural_nth_bound path Hc Hs Hn Ht40 _ _ Lj) as (Flj & _).
    pose proof (natural_le_dist _ _ Lj) as Ulj.
    assert (UL' : B2R L <= pw 1023) by (eapply Rle_trans; [exact UL|apply bpow_le; zl]).
    destruct (vertex_fraction_distance lens lj Flj FL ltac:(lra) UL') as (Fd & Hd & Ed).
    unfold position_at. set (d := progress_to_dist lens (D.div lj L)) in *.
    destruct (position_near_vertex_ieee d j pj lj Fd Hd Hj Lj) as (q & Hq & Bx & By).
    exists q. split; [exact Hq|].
    assert (Q : (1 + delta19) * Rabs (B2R d - B2R lj) <= (1 + delta19) * Dfrac (B2R lj) (B2R L)).
    { apply Rmult_le_compat_l; [lra|exact Ed]. }
    unfold B. split; lra.
  Qed.

  (* the GLOBAL Lipschitz bound through the search: two distances in
     [0, dist], each located by the transcribed binary search and interpolated
     as position_at does *)
  Theorem global_lipschitz_search_ieee a b :
    fin a -> fin b -> 0 <= B2R a <= B2R L -> 0 <= B2R b <= B2R L ->
    let G := (1 + delta19) * Rabs (B2R b - B2R a) + INR (length path) * eta19 * B2R L in
    exists qa qb,
      interpolate_vertices path lens (idx_of_dist lens a) a = Done qa /\
      interpolate_vertices path lens (idx_of_dist lens b) b = Done qb /\
      Rabs (B2R (px qa) - B2R (px qb)) <= G + 2 * E19max M /\
      Rabs (B2R (py qa) - B2R (py qb)) <= G + 2 * E19max M /\
      edist (R2 qa) (R2 qb) <= G + 4 * E19max M.
  Proof.
    intros Fa Fb Ha Hb G.
    pose proof delta19_pos as Pd. pose proof eta19_pos as Pe.
    destruct dist_bounds as (FL & ZL & UL).
    (* b at index 0 or a at index 0: one of the two positions is the first vertex *)
    assert (Sym : forall (x y : F64) (qa qb : Pos), Rabs (B2R y - B2R x) = Rabs (B2R x - B2R y) /\
              (Rabs (B2R (px qa) - B2R (px qb)) = Rabs (B2R (px qb) - B2R (px qa))) /\
              (Rabs (B2R (py qa) - B2R (py qb)) = Rabs (B2R (py qb) - B2R (py qa))) /\
              edist (R2 qa) (R2 qb) = edist (R2 qb) (R2 qa)).
    { intros x y qa qb. split; [apply Rabs_minus_sym|]. split; [apply Rabs_minus_sym|]. split; [apply Rabs_minus_sym|apply edist_sym]. }
    assert (Main : forall a b : F64, fin a -> fin b -> 0 <= B2R a <= B2R L -> 0 <= B2R b <= B2R L ->
              (idx_of_dist lens a <= idx_of_dist lens b)%nat ->
              exists qa qb,
                interpolate_vertices path lens (idx_of_dist lens a) a = Done qa /\
                interpolate_vertices path lens (idx_of_dist lens b) b = Done qb /\
                Rabs (B2R (px qa) - B2R (px qb)) <= (1 + delta19) * Rabs (B2R b - B2R a) + INR (length path) * eta19 * B2R L + 2 * E19max M /\
                Rabs (B2R (py qa) - B2R (py qb)) <= (1 + delta19) * Rabs (B2R b - B2R a) + INR (length path) * eta19 * B2R L + 2 * E19max M /\
                edist (R2 qa) (R2 qb) <= (1 + delta19) * Rabs (B2R b - B2R a) + INR (length path) * eta19 * B2R L + 4 * E19max M).
    { clear a b Fa Fb Ha Hb G. intros a b Fa Fb Ha Hb Hab.
      destruct (search_locates a Fa Ha) as [(Eka & Eza)|(i & p0 & p1 & d0 & d1 & Eka & H0 & H1 & L0 & L1 & Hsa)].
      - (* a = 0 at index 0: the first vertex, whose length is 0 *)
        destruct (nth_error path 0) as [f|] eqn:Hf.
        2:{ assert (Ep : path = []) by (destruct path; [reflexivity|discriminate]).
            exists pos0, pos0. rewrite Ep, !interpolate_empty. split; [reflexivity|]. split; [reflexivity|].
            rewrite !Rminus_diag_eq, Rabs_R0, edist_refl by reflexivity.
            assert (EM : 0 <= E19max M) by (unfold E19max, u32; pose proof (bpow_gt_0 radix2 (-125)); lra).
            pose proof (Rabs_pos (B2R b - B2R a)).
            assert (0 <= INR (length path) * eta19 * B2R L) by (apply Rmult_le_pos; [apply Rmult_le_pos; [apply pos_INR|lra]|lra]).
            assert (0 <= (1 + delta19) * Rabs (B2R b - B2R a)) by (apply Rmult_le_pos; lra).
            rewrite Ep in *. repeat split; try (rewrite Rminus_diag_eq, Rabs_R0 by reflexivity); lra. }
        + 
          destruct (position_near_vertex_ieee b 0%nat f D.zero Fb Hb Hf natural_head) as (qb & Hqb & Bx & By).
          exists f, qb. split; [rewrite Eka; apply interpolate_zero; exact Hf|]. split; [exact Hqb|].
          assert (Z0 : B2R D.zero = 0) by reflexivity. rewrite Z0 in Bx, By. rewrite Eza.
          rewrite (Rabs_minus_sym (B2R (px f))), (Rabs_minus_sym (B2R (py f))).
          assert (EM : 0 <= E19max M).
          { unfold coords_le in HM. rewrite Forall_forall in HM. destruct (HM f (nth_error_In _ _ Hf)) as (X & _).
            pose proof (Rabs_pos (B2R (px f))). unfold E19max, u32. pose proof (bpow_gt_0 radix2 (-125)). lra. }
          split; [lra|]. split; [lra|].
          pose proof (edist_le_l1 (R2 f) (R2 qb)) as Le1. cbn [R2 fst snd] in Le1.
          rewrite (Rabs_minus_sym (B2R (px f))), (Rabs_minus_sym (B2R (py f))) in Le1.
          (* the Euclidean distance through the exact point: redo with near_points *)
          destruct (search_locates b Fb Hb) as [(Ekb & Ezb)|(j & q0 & q1 & e0 & e1 & Ekb & K0 & K1 & M0 & M1 & Hsb)].
          * rewrite Ekb, (interpolate_zero _ _ _ _ Hf) in Hqb. inversion Hqb; subst qb. rewrite edist_refl.
            pose proof (Rabs_pos (B2R b - 0)). pose proof (pos_INR (length path)).
            assert (0 <= INR (length path) * eta19 * B2R L) by (apply Rmult_le_pos; [apply Rmult_le_pos; lra|lra]).
            assert (0 <= (1 + delta19) * Rabs (B2R b - 0)) by (apply Rmult_le_pos; lra). lra.
          * destruct (segment_point path Hc Hs Hn Ht40 j b q0 q1 e0 e1 K0 K1 M0 M1 Fb Hsb) as (qb' & Hqb' & Cx & Cy & _).
            rewrite Ekb in Hqb. rewrite Hqb in Hqb'. inversion Hqb'; subst qb'.
            pose proof (exact_pt_to_vertex j b q0 q1 e0 e1 0%nat f D.zero K0 K1 M0 M1 Fb Hsb Hf natural_head) as D0.
            rewrite Z0 in D0. rewrite edist_sym in D0.
            destruct (E19_path_max j q0 q1 K0 K1) as (Mx & My).
            destruct (near_points f qb (R2 f) _ 0 0 _ _ _
                        ltac:(cbn [R2 fst]; rewrite Rminus_diag_eq, Rabs_R0 by reflexivity; lra)
                        ltac:(cbn [R2 snd]; rewrite Rminus_diag_eq, Rabs_R0 by reflexivity; lra) Cx Cy D0) as (_ & _ & Ce).
            lra.
      - destruct (search_locates b Fb Hb) as [(Ekb & Ezb)|(j & q0 & q1 & e0 & e1 & Ekb & K0 & K1 & M0 & M1 & Hsb)];
          [rewrite Eka, Ekb in Hab; lia|].
        rewrite Eka, Ekb in Hab |- *.
        destruct (global_lipschitz_segments_ieee path Hc Hs Hn Ht40 i j a b p0 p1 d0 d1 q0 q1 e0 e1 ltac:(lia)
                    H0 H1 L0 L1 K0 K1 M0 M1 Fa Fb Hsa Hsb) as (qa & qb & Hqa & Hqb & Bx & By & Be).
        exists qa, qb. split; [exact Hqa|]. split; [exact Hqb|].
        destruct (E19_path_max i p0 p1 H0 H1) as (Max & May). destruct (E19_path_max j q0 q1 K0 K1) as (Mbx & Mby).
        pose proof (natural_le_dist _ _ M1) as Ue.
        assert (Hj : (S j < length path)%nat) by (apply nth_error_Some; congruence).
        assert (N : INR (j - i + 1) <= INR (length path)) by (apply le_INR; lia).
        pose proof (pos_INR (j - i + 1)) as Pn.
        destruct (natural_nth_bound path Hc Hs Hn Ht40 _ _ M1) as (_ & Ze & _).
        assert (Q : INR (j - i + 1) * eta19 * B2R e1 <= INR (length path) * eta19 * B2R L).
        { apply Rle_trans with (INR (j - i + 1) * eta19 * B2R L).
          - apply Rmult_le_compat_l; [apply Rmult_le_pos; lra|lra].
          - rewrite !Rmult_assoc. apply Rmult_le_compat_r; [apply Rmult_le_pos; lra|exact N]. }
        split; [lra|]. split; lra. }
    destruct (Nat.le_ge_cases (idx_of_dist lens a) (idx_of_dist lens b)) as [Hab|Hba].
    - exact (Main a b Fa Fb Ha Hb Hab).
    - destruct (Main b a Fb Fa Hb Ha Hba) as (qb & qa & Hqb & Hqa & Bx & By & Be).
      exists qa, qb. split; [exact Hqa|]. split; [exact Hqb|].
      destruct (Sym a b qa qb) as (S1 & S2 & S3 & S4). unfold G. rewrite S1, S2, S3, S4.
      split; [exact Bx|]. split; [exact By|exact Be].
  Qed.
End Search.

(* ---------- on position_at itself ---------- *)

(* a finite progress in [0, 1]: the distance position_at works with is finite and in [0, dist] *)
Lemma progress_to_dist_range (lens : list F64) (p : F64) :
  let L := Curve.dist lens in
  fin p -> 0 <= B2R p <= 1 -> fin L -> 0 <= B2R L -> B2R L <= pw 1023 ->
  fin (progress_to_dist lens p) /\ 0 <= B2R (progress_to_dist lens p) <= B2R L.
Proof.
  intros L Fp Hp FL HL0 HL.
  destruct (in_unit_not_clamped _ Fp Hp) as (C0 & C1).
  rewrite (progress_to_dist_inside lens _ C0 C1). fold L.
  assert (MpL : Rabs (B2R p * B2R L) <= pw 1023).
  { rewrite Rabs_pos_eq by (apply Rmult_le_pos; lra). apply Rle_trans with (1 * B2R L); [|lra].
    apply Rmult_le_compat_r; lra. }
  destruct (D_mul_spec p L 1023 Fp FL ltac:(zl) MpL) as (Fd & _ & _).
  split; [exact Fd|].
  pose proof (Bmult_correct 53 1024 Hp64 He64 mode_NE p L) as C.
  rewrite (no_overflow 53 1024 Hp64 _ 1023 ltac:(zl) MpL) in C. destruct C as (CRm & _).
  change (Bmult mode_NE p L) with (D.mul p L) in CRm.
  rewrite CRm. split; [rewrite <- RN64_0; apply RN64_le; apply Rmult_le_pos; lra|].
  rewrite <- (RN64_B2R L) at 2. apply RN64_le. apply Rle_trans with (1 * B2R L); [|lra].
  apply Rmult_le_compat_r; lra.
Qed.

(* the GLOBAL Lipschitz bound of position_at on a curve with its natural
   lengths, in the progress: finite progresses pa, pb in [0, 1], distances
   a = fl(pa * dist), b = fl(pb * dist) *)
Theorem global_lipschitz_position_at_ieee (path : list Pos) (M : R) (pa pb : F64) :
  Forall (fun p => coord_le p 20) path -> segs_ok path -> (length path <= 2 ^ 50)%nat ->
  poly_len (map R2 path) <= pw 40 -> coords_le M path -> 0 <= M ->
  fin pa -> fin pb -> 0 <= B2R pa <= 1 -> 0 <= B2R pb <= 1 ->
  let lens := natural path D.zero in
  let L := Curve.dist lens in
  let a := progress_to_dist lens pa in
  let b := progress_to_dist lens pb in
  let G := (1 + delta19) * Rabs (B2R b - B2R a) + INR (length path) * eta19 * B2R L in
  exists qa qb,
    position_at path lens pa = Done qa /\ position_at path lens pb = Done qb /\
    Rabs (B2R (px qa) - B2R (px qb)) <= G + 2 * E19max M /\
    Rabs (B2R (py qa) - B2R (py qb)) <= G + 2 * E19max M /\
    edist (R2 qa) (R2 qb) <= G + 4 * E19max M.
Proof.
  intros Hc Hs Hn Ht40 HM HM0 Fpa Fpb Hpa Hpb lens L a b G.
  destruct (dist_bounds path Hc Hs Hn Ht40) as (FL & ZL & UL). fold lens L in FL, ZL, UL.
  assert (UL' : B2R L <= pw 1023) by (eapply Rle_trans; [exact UL|apply bpow_le; zl]).
  destruct (progress_to_dist_range lens pa Fpa Hpa FL ZL UL') as (Fa & Ha).
  destruct (progress_to_dist_range lens pb Fpb Hpb FL ZL UL') as (Fb & Hb).
  exact (global_lipschitz_search_ieee path Hc Hs Hn Ht40 M HM HM0 a b Fa Fb Ha Hb).
Qed.

(* ---------- the example polyline, through the search ---------- *)

Lemma ex_path_hyps40 : poly_len (map R2 ex_path) <= pw 40 /\ coords_le 16 ex_path.
Proof.
  destruct ex_R2 as (E1 & E2). pose proof ex_R2_0 as E0. split.
  - unfold ex_path. cbn [map]. rewrite E0, E1, E2.
    apply Rle_trans with 18; [right; exact (proj2 cumlen_example)|].
    apply Rle_trans with (pw 5); [cbn; lra|apply bpow_le; lia].
  - unfold coords_le, ex_path, ex_p0, ex_p1, ex_p2.
    repeat (apply Forall_cons; [cbn [px py]|]); [| | |apply Forall_nil].
    + rewrite (proj2 (S_ofZ 0 ltac:(lia))), Rabs_R0. split; lra.
    + rewrite (proj2 (S_ofZ 3 ltac:(lia))), (proj2 (S_ofZ 4 ltac:(lia))), (Rabs_pos_eq 3), (Rabs_pos_eq 4) by lra. split; lra.
    + rewrite (proj2 (S_ofZ 8 ltac:(lia))), (proj2 (S_ofZ 16 ltac:(lia))), (Rabs_pos_eq 8), (Rabs_pos_eq 16) by lra. split; lra.
Qed.

(* position_at (lengths[1] / dist) on the lengths calculate_length computes is
   the vertex (3, 4) up to 6.8e-6 per coordinate, and position_at 0 /
   position_at 1 are at most 18.0001 apart (the curve is 18 long) *)
Example ex_search_theorems :
  (forall lj, nth_error (natural ex_path D.zero) 1 = Some lj ->
     exists q, position_at ex_path (natural ex_path D.zero) (D.div lj (Curve.dist (natural ex_path D.zero))) = Done q /\
       Rabs (B2R (px q) - 3) <= 6.8 / 1000000 /\ Rabs (B2R (py q) - 4) <= 6.8 / 1000000) /\
  (exists qa qb, position_at ex_path (natural ex_path D.zero) (D.of_Z 0) = Done qa /\
     position_at ex_path (natural ex_path D.zero) (D.of_Z 1) = Done qb /\
     edist (R2 qa) (R2 qb) <= 18 + 1 / 10000).
Proof.
  destruct ex_path_hyps as (Hc & Hs & Hn & _). destruct ex_path_hyps40 as (Ht & HM).
  destruct ex_R2 as (E1 & E2). pose proof ex_R2_0 as E0.
  assert (Hcum : cumlen (map R2 ex_path) = [0; 5; 18]).
  { unfold ex_path. cbn [map]. rewrite E0, E1, E2. exact (proj1 cumlen_example). }
  assert (Hl : exists l0 l1 l2, natural ex_path D.zero = [l0; l1; l2]).
  { pose proof ex_lens_are_natural as N.
    destruct (natural ex_path D.zero) as [|x0 [|x1 [|x2 [|x3 r]]]]; try discriminate N.
    exists x0, x1, x2. reflexivity. }
  destruct Hl as (l0 & l1 & l2 & Hl).
  pose proof (natural_lengths_error ex_path Hc Hs Hn (Ht1000 _ Ht)) as Hok.
  change (length ex_path) with 3%nat in Hok.
  assert (A3 : alpha 3 <= 1.8 / 10000000).
  { unfold alpha, u32, u64. change (INR 3) with (1 + 1 + 1). lra. }
  destruct (lens_ok_nth _ _ _ 1%nat l1 5 Hok ltac:(rewrite Hl; reflexivity) ltac:(rewrite Hcum; reflexivity)) as (F1 & (x1 & X1 & B1)).
  destruct (lens_ok_nth _ _ _ 2%nat l2 18 Hok ltac:(rewrite Hl; reflexivity) ltac:(rewrite Hcum; reflexivity)) as (F2 & (x2 & X2 & B2)).
  apply Rabs_le_inv in B1. apply Rabs_le_inv in B2.
  assert (R1 : 5 - 1 / 1000000 <= B2R l1 <= 5 + 1 / 1000000) by (rewrite X1; nra).
  assert (R2' : 18 - 4 / 1000000 <= B2R l2 <= 18 + 4 / 1000000) by (rewrite X2; nra).
  assert (EL : Curve.dist (natural ex_path D.zero) = l2) by (rewrite Hl; reflexivity).
  assert (P125 : pw (-125) <= / 1000000000000).
  { apply Rle_trans with (pw (-40)); [apply bpow_le; lia|cbn; lra]. }
  assert (EM : E19max 16 <= 6.7 / 1000000) by (unfold E19max, u32; lra).
  split.
  - intros lj Hlj. rewrite Hl in Hlj. cbn in Hlj. inversion Hlj; subst lj.
    destruct (vertex_fraction_position_ieee ex_path Hc Hs Hn Ht 16 HM ltac:(lra) 1%nat ex_p1 l1 eq_refl
                ltac:(rewrite Hl; reflexivity) ltac:(lra)) as (q & Hq & Bx & By).
    exists q. split; [exact Hq|].
    unfold ex_p1 in Bx, By. cbn [px py] in Bx, By.
    rewrite (proj2 (S_ofZ 3 ltac:(lia))) in Bx. rewrite (proj2 (S_ofZ 4 ltac:(lia))) in By.
    rewrite EL in Bx, By. change (length ex_path) with 3%nat in Bx, By. change (INR 3) with (1 + 1 + 1) in Bx, By.
    assert (Pe : eta64 <= / 100000000000000).
    { unfold eta64. apply Rle_trans with (pw (-60)); [apply bpow_le; lia|cbn; lra]. }
    pose proof eta64_pos as Pe0.
    assert (DF : Dfrac (B2R l1) (B2R l2) <= / 1000000000000).
    { unfold Dfrac, u64. nra. }
    assert (DF0 : 0 <= Dfrac (B2R l1) (B2R l2)) by (unfold Dfrac, u64; nra).
    assert (T : (1 + delta19) * Dfrac (B2R l1) (B2R l2) + (1 + 1 + 1) * eta19 * B2R l2 + E19max 16 <= 6.8 / 1000000).
    { unfold delta19, eta19, u32, u64 in *. nra. }
    split; lra.
  - destruct (D_ofZ 0 ltac:(lia)) as (Fa & Ra). destruct (D_ofZ 1 ltac:(lia)) as (Fb & Rb).
    destruct (global_lipschitz_position_at_ieee ex_path 16 (D.of_Z 0) (D.of_Z 1) Hc Hs Hn Ht HM ltac:(lra)
                Fa Fb ltac:(rewrite Ra; lra) ltac:(rewrite Rb; lra)) as (qa & qb & Hqa & Hqb & _ & _ & Be).
    exists qa, qb. split; [exact Hqa|]. split; [exact Hqb|].
    eapply Rle_trans; [exact Be|]. rewrite EL. change (length ex_path) with 3%nat. change (INR 3) with (1 + 1 + 1).
    destruct (dist_bounds ex_path Hc Hs Hn Ht) as (FL & ZL & UL). rewrite EL in FL, ZL, UL.
    assert (UL' : B2R l2 <= pw 1023) by (eapply Rle_trans; [exact UL|apply bpow_le; lia]).
    destruct (progress_to_dist_range (natural ex_path D.zero) (D.of_Z 0) Fa ltac:(rewrite Ra; lra)
                ltac:(rewrite EL; exact FL) ltac:(rewrite EL; exact ZL) ltac:(rewrite EL; exact UL')) as (_ & Ha).
    destruct (progress_to_dist_range (natural ex_path D.zero) (D.of_Z 1) Fb ltac:(rewrite Rb; lra)
                ltac:(rewrite EL; exact FL) ltac:(rewrite EL; exact ZL) ltac:(rewrite EL; exact UL')) as (_ & Hb).
    rewrite EL in Ha, Hb.
    set (a := progress_to_dist (natural ex_path D.zero) (D.of_Z 0)) in *.
    set (b := progress_to_dist (natural ex_path D.zero) (D.of_Z 1)) in *.
    assert (Hab : Rabs (B2R b - B2R a) <= B2R l2) by (apply Rabs_le; lra).
    unfold delta19, eta19, u32, u64 in *. nra.
Qed.

(* ---------- in the progress ---------- *)

(* the distance of a finite progress in [0, 1]: fl(p * dist) = p * dist up to u64 * dist + eta64 *)
Lemma progress_to_dist_error (lens : list F64) (p : F64) :
  let L := Curve.dist lens in
  fin p -> 0 <= B2R p <= 1 -> fin L -> 0 <= B2R L -> B2R L <= pw 1023 ->
  Rabs (B2R (progress_to_dist lens p) - B2R p * B2R L) <= u64 * B2R L + eta64.
Proof.
  intros L Fp Hp FL HL0 HL.
  destruct (in_unit_not_clamped _ Fp Hp) as (C0 & C1).
  rewrite (progress_to_dist_inside lens _ C0 C1). fold L.
  assert (MpL : Rabs (B2R p * B2R L) <= pw 1023).
  { rewrite Rabs_pos_eq by (apply Rmult_le_pos; lra). apply Rle_trans with (1 * B2R L); [|lra].
    apply Rmult_le_compat_r; lra. }
  destruct (D_mul_spec p L 1023 Fp FL ltac:(zl) MpL) as (_ & _ & Rd).
  eapply Rle_trans; [exact (rela_abs_err _ _ _ _ Rd)|].
  rewrite Rabs_pos_eq by (apply Rmult_le_pos; lra).
  assert (B2R p * B2R L <= B2R L) by nra. pose proof u64_pos. nra.
Qed.

(* FAITHFUL ARC-LENGTH PARAMETRISATION, IEEE, natural lengths: for finite
   progresses pa, pb in [0, 1] the two positions are at most
     (1 + delta19) |pb - pa| dist + (n eta19 + 2.001 u64) dist + 2.001 eta64 + rounding of the interpolations
   apart *)
Theorem global_lipschitz_progress_ieee (path : list Pos) (M : R) (pa pb : F64) :
  Forall (fun p => coord_le p 20) path -> segs_ok path -> (length path <= 2 ^ 50)%nat ->
  poly_len (map R2 path) <= pw 40 -> coords_le M path -> 0 <= M ->
  fin pa -> fin pb -> 0 <= B2R pa <= 1 -> 0 <= B2R pb <= 1 ->
  let lens := natural path D.zero in
  let L := Curve.dist lens in
  let G := (1 + delta19) * Rabs (B2R pb - B2R pa) * B2R L
           + (INR (length path) * eta19 + 2.001 * u64) * B2R L + 2.001 * eta64 in
  exists qa qb,
    position_at path lens pa = Done qa /\ position_at path lens pb = Done qb /\
    Rabs (B2R (px qa) - B2R (px qb)) <= G + 2 * E19max M /\
    Rabs (B2R (py qa) - B2R (py qb)) <= G + 2 * E19max M /\
    edist (R2 qa) (R2 qb) <= G + 4 * E19max M.
Proof.
  intros Hc Hs Hn Ht40 HM HM0 Fpa Fpb Hpa Hpb lens L G.
  destruct (dist_bounds path Hc Hs Hn Ht40) as (FL & ZL & UL). fold lens L in FL, ZL, UL.
  assert (UL' : B2R L <= pw 1023) by (eapply Rle_trans; [exact UL|apply bpow_le; zl]).
  pose proof (progress_to_dist_error lens pa Fpa Hpa FL ZL UL') as Ea.
  pose proof (progress_to_dist_error lens pb Fpb Hpb FL ZL UL') as Eb.
  destruct (global_lipschitz_position_at_ieee path M pa pb Hc Hs Hn Ht40 HM HM0 Fpa Fpb Hpa Hpb)
    as (qa & qb & Hqa & Hqb & Bx & By & Be).
  fold lens L in Hqa, Hqb, Bx, By, Be, Ea, Eb.
  exists qa, qb. split; [exact Hqa|]. split; [exact Hqb|].
  set (a := progress_to_dist lens pa) in *. set (b := progress_to_dist lens pb) in *.
  assert (Hab : Rabs (B2R b - B2R a) <= Rabs (B2R pb - B2R pa) * B2R L + 2 * (u64 * B2R L + eta64)).
  { replace (B2R b - B2R a) with ((B2R b - B2R pb * B2R L) + (B2R pb - B2R pa) * B2R L + - (B2R a - B2R pa * B2R L)) by ring.
    eapply Rle_trans; [apply Rabs_triang|]. eapply Rle_trans; [apply Rplus_le_compat_r, Rabs_triang|].
    rewrite Rabs_Ropp, Rabs_mult, (Rabs_pos_eq (B2R L)) by exact ZL. lra. }
  pose proof delta19_pos as Pd. pose proof u64_pos as Pu. pose proof eta64_pos as Pe.
  assert (Q : (1 + delta19) * Rabs (B2R b - B2R a) + INR (length path) * eta19 * B2R L <= G).
  { unfold G.
    assert (Q1 : (1 + delta19) * Rabs (B2R b - B2R a)
                 <= (1 + delta19) * (Rabs (B2R pb - B2R pa) * B2R L + 2 * (u64 * B2R L + eta64)))
      by (apply Rmult_le_compat_l; lra).
    assert (Dd : delta19 <= / 2000) by (unfold delta19, u32; lra).
    assert (Q2 : (1 + delta19) * (2 * (u64 * B2R L + eta64)) <= 2.001 * u64 * B2R L + 2.001 * eta64).
    { assert (0 <= u64 * B2R L) by (apply Rmult_le_pos; lra). nra. }
    lra. }
  split; [lra|]. split; lra.
Qed.

(* ---------- vertex hits: every vertex, l_j = 0 included ---------- *)

Theorem vertex_fraction_position_full_ieee (path : list Pos) (M : R) j pj lj :
  Forall (fun p => coord_le p 20) path -> segs_ok path -> (length path <= 2 ^ 50)%nat ->
  poly_len (map R2 path) <= pw 40 -> coords_le M path -> 0 <= M ->
  let lens := natural path D.zero in
  let L := Curve.dist lens in
  nth_error path j = Some pj -> nth_error lens j = Some lj -> 0 < B2R L ->
  let B := (1 + delta19) * Dfrac (B2R lj) (B2R L) + INR (length path) * eta19 * B2R L + E19max M in
  exists q, position_at path lens (D.div lj L) = Done q /\
    Rabs (B2R (px q) - B2R (px pj)) <= B /\ Rabs (B2R (py q) - B2R (py pj)) <= B.
Proof.
  intros Hc Hs Hn Ht40 HM HM0 lens L Hj Lj HL0 B.
  destruct (natural_nth_bound path Hc Hs Hn Ht40 _ _ Lj) as (Flj & Zlj & _).
  destruct (Rle_lt_or_eq_dec _ _ Zlj) as [Hpos|Hzero].
  - exact (vertex_fraction_position_ieee path Hc Hs Hn Ht40 M HM HM0 j pj lj Hj Lj Hpos).
  - destruct (dist_bounds path Hc Hs Hn Ht40) as (FL & ZL & UL). fold lens L in FL, ZL, UL.
    assert (UL' : B2R L <= pw 1023) by (eapply Rle_trans; [exact UL|apply bpow_le; zl]).
    (* the progress is a zero *)
    assert (Mq : Rabs (B2R lj / B2R L) <= pw 0).
    { rewrite <- Hzero. unfold Rdiv. rewrite Rmult_0_l, Rabs_R0. apply bpow_ge_0. }
    destruct (D_div_spec lj L 0 Flj FL (Rgt_not_eq _ _ HL0) ltac:(zl) Mq) as (Fp & _ & _).
    pose proof (Bdiv_correct 53 1024 Hp64 He64 mode_NE lj L (Rgt_not_eq _ _ HL0)) as C.
    rewrite (no_overflow 53 1024 Hp64 _ 0 ltac:(zl) Mq) in C. destruct C as (CR & _).
    change (Bdiv mode_NE lj L) with (D.div lj L) in CR.
    assert (Rp : B2R (D.div lj L) = 0).
    { rewrite CR, <- Hzero. unfold Rdiv. rewrite Rmult_0_l. apply RN64_0. }
    destruct (progress_to_dist_range lens (D.div lj L) Fp ltac:(rewrite Rp; lra) FL ZL UL') as (Fd & Hd).
    pose proof (progress_to_dist_error lens (D.div lj L) Fp ltac:(rewrite Rp; lra) FL ZL UL') as Ed.
    (* and so is the distance: fl(0 * L) *)
    destruct (in_unit_not_clamped _ Fp ltac:(rewrite Rp; lra)) as (C0 & C1).
    assert (Rd : B2R (progress_to_dist lens (D.div lj L)) = 0).
    { rewrite (progress_to_dist_inside lens _ C0 C1). fold L.
      assert (MpL : Rabs (B2R (D.div lj L) * B2R L) <= pw 1023).
      { rewrite Rp, Rmult_0_l, Rabs_R0. apply bpow_ge_0. }
      pose proof (Bmult_correct 53 1024 Hp64 He64 mode_NE (D.div lj L) L) as Cm.
      rewrite (no_overflow 53 1024 Hp64 _ 1023 ltac:(zl) MpL) in Cm. destruct Cm as (CRm & _).
      change (Bmult mode_NE (D.div lj L) L) with (D.mul (D.div lj L) L) in CRm.
      rewrite CRm, Rp, Rmult_0_l. apply RN64_0. }
    unfold position_at. fold lens. set (d := progress_to_dist lens (D.div lj L)) in *.
    destruct (position_near_vertex_ieee path Hc Hs Hn Ht40 M HM HM0 d j pj lj Fd Hd Hj Lj) as (q & Hq & Bx & By).
    exists q. split; [exact Hq|]. fold lens L in Bx, By.
    rewrite Rd, <- Hzero in Bx, By. replace (0 - 0) with 0 in Bx, By by ring.
    rewrite Rabs_R0, Rmult_0_r, Rplus_0_l in Bx, By.
    assert (DF0 : 0 <= (1 + delta19) * Dfrac 0 (B2R L)).
    { pose proof delta19_pos. pose proof eta64_pos. unfold Dfrac. apply Rmult_le_pos; [lra|]. nra. }
    unfold B. rewrite <- Hzero. split; lra.
Qed.

(* ShiftExamples: non-vacuity of the conditional slider theorem of
   Proofs/ShiftMapLevel.v -- the slider of the D29 witness, with the sample
   point moved from 3405 to 3500, satisfies the side condition [obj_ok] (window
   2^-20 ms), so its processing commutes with the shift by 1000 ms. *)
From RM Require Import Model.MapLevel Proofs.MapLevelFacts Proofs.MapLevelConcrete.
From RM Require Import Proofs.ControlPointsFacts Proofs.ShiftFloat Proofs.ShiftControlPoints Proofs.ShiftMapLevel.
From Flocq Require Import Core BinarySingleNaN.
From Coq Require Import Reals Lra.
Require Import ZifyBool.
Open Scope Z_scope.

Lemma at_first_single {P} (time : P -> F64) p t : at_first time [p] t = Some p.
Proof. unfold at_first, search, bsearch_by. cbn. destruct (probe time t p); reflexivity. Qed.

Definition w_cps_clear : ControlPoints :=
  mkCP [mkTP (D.of_Z (-10000)) (D.of_Z 500) false 4] [] []
       [mkSP (D.of_Z (-10000)) 1 100 0; mkSP (D.of_Z 3500) 1 30 0].

Definition w_offset : F64 :=
  D.div (D.mul (D.of_Z 2) (D.of_Z 336)) (slider_velocity_of w_sm D.one (D.of_Z 500) 0).

Lemma w_lookups :
  slider_lookups w_dist w_cps_clear w_sm 0 (D.of_Z 1000)
                 (mkSlider (mkPos S.zero S.zero) false 0 0 [] None [] 1 D.zero) = [w_offset].
Proof.
  unfold slider_lookups, timing_point_at, w_cps_clear. cbn [cp_timing].
  rewrite at_first_single. reflexivity.
Qed.

Lemma le_R (a b : F64) : is_finite a = true -> is_finite b = true -> D.le a b = true -> (B2R a <= B2R b)%R.
Proof.
  intros Fa Fb H. unfold D.le, fle in H. rewrite Bleb_correct in H by assumption.
  destruct (Rle_bool_spec (B2R a) (B2R b)) as [L|L]; [exact L|discriminate].
Qed.

Lemma w_offset_facts : is_finite w_offset = true /\ (IZR 2399 <= B2R w_offset <= IZR 2400)%R.
Proof.
  assert (F : is_finite w_offset = true) by (vm_compute; reflexivity).
  split; [exact F|]. split.
  - rewrite <- (ofZ_R 2399) by lia. apply le_R; [apply ofZ_fin; lia|exact F|vm_compute; reflexivity].
  - rewrite <- (ofZ_R 2400) by lia. apply le_R; [exact F|apply ofZ_fin; lia|vm_compute; reflexivity].
Qed.

Lemma w_slider_ok : obj_ok w_dist 20 1000 w_cps_clear w_sm 0 w_slider.
Proof.
  exists 1000. split; [reflexivity|]. split; [unfold in_range; lia|].
  cbn [w_slider h_kind h_start]. rewrite w_lookups. constructor; [|constructor].
  destruct w_offset_facts as (F & B1 & B2).
  assert (Hb : (bpow radix2 (-20) <= 1)%R) by (change 1%R with (bpow radix2 0); apply bpow_le; lia).
  split.
  - split; [exact F|]. apply Rabs_le. 
    assert (IZR 2400 <= bpow radix2 1000)%R.
    { apply Rle_trans with (bpow radix2 12); [change (bpow radix2 12) with (IZR 4096); apply IZR_le; lia|apply bpow_le; lia]. }
    pose proof (bpow_ge_0 radix2 1000). set (Bb := bpow radix2 1000) in *. set (X := B2R w_offset) in *. split; lra.
  - unfold w_cps_clear. cbn [cp_sample]. repeat constructor.
    + exists (-10000). cbn [sp_time]. split; [reflexivity|]. split; [unfold in_range; lia|].
      split; [unfold fits; lia|]. split; [unfold fits; lia|]. left. lra.
    + exists 3500. cbn [sp_time]. split; [reflexivity|]. split; [unfold in_range; lia|].
      split; [unfold fits; lia|]. split; [unfold fits; lia|]. right. cbn [Z.opp]. lra.
Qed.

Lemma w_cps_clear_whole : cps_whole 1000 w_cps_clear.
Proof.
  unfold cps_whole, w_cps_clear. cbn [cp_timing cp_difficulty cp_effect cp_sample].
  repeat split; repeat constructor; eexists; (split; [reflexivity|unfold in_range; lia]).
Qed.

(* the instance of the theorem, and what it is about: a processed slider whose
   sample took volume 100 from the point active 5 ms after its end *)
Lemma w_clear_instance :
  finish_hit_objects w_dist (shift_cps 1000 w_cps_clear) (map (shift_break 1000) []) w_sm 0
                     (map (shift_obj 1000) [w_slider]) =
  out_map (map (shift_obj 1000)) (finish_hit_objects w_dist w_cps_clear [] w_sm 0 [w_slider]).
Proof.
  apply (finish_shift w_dist 20 ltac:(lia) 1000).
  - exact w_cps_clear_whole.
  - constructor.
  - constructor; [exact w_slider_ok|constructor].
Qed.

Lemma w_clear_volumes :
  volumes (finish_hit_objects w_dist w_cps_clear [] w_sm 0 [w_slider]) = [100].
Proof. vm_compute. reflexivity. Qed.

(* CurveDistNonneg: when is the distance of a computed curve "not negative"
   (NaN, a zero, positive or +inf: the class on which SliderEventsIter::new
   does not panic, finding D18)?

   calculate_length starts its running sum at the osu!-mode Catmull surplus
   [opt] and adds segment lengths sqrt(..) (never negative, possibly NaN).
     - natural_len_nn     : opt not negative  =>  every natural cumulative
                            length, and the natural length, is not negative
                            (binary64 addition of two non-negative values,
                            by Flocq's Bplus_correct);
     - calculate_length_dist_nn : for a requested length that is absent or
                            positive (all the decoder produces) the distance
                            is 0, the requested length, or the natural length;
     - cpath_opt_zero     : the surplus is +0.0 unless the mode is osu! AND a
                            control point carries the Catmull type;
     - curve_dist_nn      : hence the distance is not negative outside that
                            class, and inside it whenever the surplus is not
                            negative.
   What is NOT proved: that the surplus, a sum of differences
   [len_removed_since_start - dist_from_start] of ROUNDED binary32 distances,
   cannot drive the final sum below zero (it is non-negative over the reals:
   SimplifyExact / T16c).  See Properties/C01.v, layer 4. *)
From RM Require Import Model.ControlPoints Model.Curve Proofs.BezierRefine Proofs.LengthFacts
     Proofs.FloatNonneg.
Require Import ZifyBool.
Open Scope nat_scope.

(* ---------- segment lengths ---------- *)

Lemma plen_nn a : nn32 (plen a) = true.
Proof. unfold plen. apply nn_f32_of_f64. apply nn64_sqrt. Qed.

Lemma seg_len_nn a b : nn64 (f64_of_f32 (plen (psub b a))) = true.
Proof. apply nn_f64_of_f32. apply plen_nn. Qed.

(* ---------- the running sum ---------- *)

Lemma cum_lengths_nn path : forall acc, nn64 acc = true ->
  Forall (fun x => nn64 x = true) (fst (cum_lengths acc path)) /\ nn64 (snd (cum_lengths acc path)) = true.
Proof.
  induction path as [|a [|b t] IH]; intros acc H.
  - split; [constructor|exact H].
  - split; [constructor|exact H].
  - rewrite cum_lengths_cons2. cbn [fst snd].
    assert (H' : nn64 (D.add acc (f64_of_f32 (plen (psub b a)))) = true)
      by (apply nn64_add; [exact H|apply seg_len_nn]).
    destruct (IH _ H') as (I1 & I2). split; [constructor; assumption|exact I2].
Qed.

Lemma natural_nn path opt : nn64 opt = true -> Forall (fun x => nn64 x = true) (natural path opt).
Proof. intros H. unfold natural. constructor; [reflexivity|apply (cum_lengths_nn path opt H)]. Qed.

Lemma natural_len_nn path opt : nn64 opt = true -> nn64 (natural_len path opt) = true.
Proof. intros H. apply (cum_lengths_nn path opt H). Qed.

(* ---------- the distance after calculate_length ---------- *)

Lemma dist_Forall (P : F64 -> Prop) l : P D.zero -> Forall P l -> P (dist l).
Proof.
  intros H0 H. rewrite dist_last. induction H as [|x l Hx Hl IH]; [exact H0|].
  destruct l; [exact Hx|exact IH].
Qed.

Lemma Forall_app_single {A} (P : A -> Prop) l x : Forall P l -> P x -> Forall P (l ++ [x]).
Proof. intros H Hx. apply Forall_app. split; [exact H|constructor; [exact Hx|constructor]]. Qed.

Lemma Forall_firstn {A} (P : A -> Prop) n l : Forall P l -> Forall P (firstn n l).
Proof.
  intros H. revert n. induction H as [|x l Hx Hl IH]; intros [|n]; cbn [firstn]; constructor; auto.
Qed.

(* the requested length the decoder hands over: absent, or positive *)
Definition req_ok (e : option F64) : Prop :=
  match e with None => True | Some L => D.lt D.zero L = true end.

Theorem calculate_length_lens_nn path e opt path' lens :
  req_ok e -> nn64 opt = true ->
  calculate_length path e opt = Done (path', lens) ->
  Forall (fun x => nn64 x = true) lens.
Proof.
  intros He Ho H.
  pose proof (calculate_length_cases path e opt) as C. cbv zeta in C.
  pose proof (natural_nn path opt Ho) as Hn. pose proof (natural_len_nn path opt Ho) as Hl.
  destruct e as [L|].
  - cbn [req_ok] in He. pose proof (lt_zero_nn64 L He) as HL.
    destruct (keeps_natural (natural_len path opt) L).
    { rewrite C in H. apply Done_pair_inj in H; destruct H as [_ <-]. exact Hn. }
    destruct (last_two_equal path && D.gt L (natural_len path opt))%bool.
    { rewrite C in H. apply Done_pair_inj in H; destruct H as [_ <-]. apply Forall_app_single; assumption. }
    destruct (Nat.leb (length path) 1).
    { rewrite C in H. apply Done_pair_inj in H; destruct H as [_ <-]. constructor; [reflexivity|constructor]. }
    destruct (last_valid (removelast (natural path opt)) L) as [|k1].
    { rewrite C in H. apply Done_pair_inj in H; destruct H as [_ <-]. constructor; [reflexivity|constructor]. }
    destruct C as (p' & _ & _ & C). rewrite C in H. apply Done_pair_inj in H; destruct H as [_ <-].
    apply Forall_app_single; [apply Forall_firstn; exact Hn|exact HL].
  - rewrite C in H. apply Done_pair_inj in H; destruct H as [_ <-]. exact Hn.
Qed.

Corollary calculate_length_dist_nn path e opt path' lens :
  req_ok e -> nn64 opt = true ->
  calculate_length path e opt = Done (path', lens) -> nn64 (dist lens) = true.
Proof.
  intros He Ho H. apply (dist_Forall (fun x => nn64 x = true)); [reflexivity|].
  exact (calculate_length_lens_nn path e opt path' lens He Ho H).
Qed.

(* conversely: a negative distance needs a negative natural length *)
Corollary negative_dist_needs_negative_surplus path e opt path' lens :
  req_ok e -> calculate_length path e opt = Done (path', lens) ->
  D.lt (dist lens) D.zero = true -> D.lt opt D.zero = true.
Proof.
  intros He H Hd. rewrite nn64_lt_zero in *. destruct (nn64 opt) eqn:Eo; [|reflexivity].
  rewrite (calculate_length_dist_nn path e opt path' lens He Eo H) in Hd. discriminate.
Qed.

(* ---------- the surplus is +0.0 outside osu!-mode Catmull ---------- *)

Section Opt.
  Context {B : Type}.
  Variable bezier : list Pos -> list Pos -> B -> outcome (list Pos * B).
  Variable lm : Libm.

  Definition is_catmull (k : SplineType) : bool := match k with Catmull => true | _ => false end.
  Definition has_catmull (pts : list PathControlPoint) : bool :=
    existsb (fun p => match pc_type p with Some k => is_catmull k | None => false end) pts.

  Lemma calculate_subpath_opt osu path sub kind opt b path' opt' b' :
    calculate_subpath bezier lm osu path sub kind opt b = Done (path', opt', b') ->
    (osu && is_catmull kind)%bool = false -> opt' = opt.
  Proof.
    unfold calculate_subpath, bez3. intros H Hc.
    destruct kind; cbn [is_catmull] in Hc.
    - rewrite andb_true_r in Hc. subst osu. cbn [negb] in H.
      destruct (approximate_catmull sub); cbn [obind] in H; inversion H; reflexivity.
    - destruct (bezier path sub b) as [[p1 b1]| |]; cbn [obind] in H; inversion H; reflexivity.
    - inversion H; reflexivity.
    - destruct sub as [|a [|m [|c [|d r]]]];
        try (destruct (bezier path _ b) as [[p1 b1]| |]; cbn [obind] in H; inversion H; reflexivity).
      destruct (approximate_circular_arc lm a m c) as [[arc|]| |]; cbn [obind] in H;
        try discriminate; [inversion H; reflexivity|].
      destruct (bezier path [a; m; c] b) as [[p1 b1]| |]; cbn [obind] in H; inversion H; reflexivity.
  Qed.

  Lemma aget_In {A} (l : list A) i x : aget l i = Done x -> In x l.
  Proof.
    unfold aget. destruct (nth_error l i) eqn:E; [|discriminate].
    intros H; inversion H; subst. exact (nth_error_In _ _ E).
  Qed.

  Lemma cpath_loop_opt osu pts verts : (osu && has_catmull pts)%bool = false ->
    forall k i start n path opt b path' opt' b',
    cpath_loop bezier lm k i start n osu pts verts path opt b = Done (path', opt', b') -> opt' = opt.
  Proof.
    intros Hc. induction k as [|k IH]; intros i start n path opt b path' opt' b' H; cbn [cpath_loop] in H.
    - inversion H; reflexivity.
    - destruct (aget pts i) as [cp| |] eqn:Ecp; cbn [obind] in H; try discriminate.
      destruct ((match pc_type cp with None => true | Some _ => false end) && Nat.ltb i (n - 1))%bool.
      { exact (IH _ _ _ _ _ _ _ _ _ H). }
      destruct (Nat.ltb i start || Nat.leb (length verts) i)%bool; [discriminate|].
      destruct (firstn (S i - start) (skipn start verts)) as [|v [|v2 seg]] eqn:Es; [discriminate| |].
      { exact (IH _ _ _ _ _ _ _ _ _ H). }
      destruct (aget pts start) as [cps| |] eqn:Ecps; cbn [obind] in H; try discriminate.
      destruct (calculate_subpath bezier lm osu path (v :: v2 :: seg)
                  (match pc_type cps with None => Linear | Some t => t end) opt b)
        as [[[p1 o1] b1]| |] eqn:Esub; cbn [obind] in H; try discriminate.
      assert (Ho : o1 = opt).
      { apply (calculate_subpath_opt _ _ _ _ _ _ _ _ _ Esub).
        destruct osu; [|reflexivity]. cbn [andb] in *.
        destruct (pc_type cps) as [t|] eqn:Et; [|reflexivity].
        destruct (is_catmull t) eqn:Ect; [|reflexivity].
        exfalso. unfold has_catmull in Hc.
        assert (existsb (fun p => match pc_type p with Some k => is_catmull k | None => false end) pts = true).
        { apply existsb_exists. exists cps. split; [exact (aget_In _ _ _ Ecps)|]. rewrite Et. exact Ect. }
        congruence. }
      subst o1. exact (IH _ _ _ _ _ _ _ _ _ H).
  Qed.
End Opt.

Theorem calculate_path_L1_opt_zero lm fuel mode pts path opt :
  (is_osu mode && has_catmull pts)%bool = false ->
  calculate_path_L1 lm fuel mode pts = Done (path, opt) -> opt = D.zero.
Proof.
  intros Hc. unfold calculate_path_L1. destruct pts as [|p r]; [intros H; inversion H; reflexivity|].
  destruct (cpath_loop _ _ _ _ _ _ _ _ _ _ _ _) as [[[p1 o1] u]| |] eqn:E; cbn [obind]; try discriminate.
  intros H. inversion H; subst.
  exact (cpath_loop_opt _ _ _ _ _ Hc _ _ _ _ _ _ _ _ _ _ E).
Qed.

(* ---------- the curve ---------- *)

(* the osu!-mode Catmull surplus of a control-point list: what calculate_path
   hands to calculate_length *)
Definition surplus_nn (lm : Libm) (fuel : positive) (mode : Z) (pts : list PathControlPoint) : Prop :=
  forall path opt, calculate_path_L1 lm fuel mode pts = Done (path, opt) -> nn64 opt = true.

Lemma surplus_nn_outside lm fuel mode pts :
  (is_osu mode && has_catmull pts)%bool = false -> surplus_nn lm fuel mode pts.
Proof.
  intros Hc path opt H. rewrite (calculate_path_L1_opt_zero lm fuel mode pts path opt Hc H). reflexivity.
Qed.

Theorem curve_dist_nn lm fuel mode pts e c :
  req_ok e -> surplus_nn lm fuel mode pts ->
  curve_L1 lm fuel mode pts e = Done c -> nn64 (dist (c_lengths c)) = true.
Proof.
  intros He Hs H. destruct (curve_L1_unfold lm fuel mode pts e c H) as (path & opt & Hp & Hl).
  exact (calculate_length_dist_nn path e opt _ _ He (Hs path opt Hp) Hl).
Qed.

Theorem curve_lengths_nn lm fuel mode pts e c :
  req_ok e -> surplus_nn lm fuel mode pts ->
  curve_L1 lm fuel mode pts e = Done c -> Forall (fun x => nn64 x = true) (c_lengths c).
Proof.
  intros He Hs H. destruct (curve_L1_unfold lm fuel mode pts e c H) as (path & opt & Hp & Hl).
  exact (calculate_length_lens_nn path e opt _ _ He (Hs path opt Hp) Hl).
Qed.

(* ================================================================== *)
(* A negative surplus that is outweighed by ONE segment                *)
(* ================================================================== *)
(* The running sum is monotone: every step adds a value that is not negative.
   So if the surplus [opt] is negative but [opt + l] is not, for the length l
   of some single segment of the path, then from that segment on every
   cumulative length -- and the natural length -- is not negative.  This
   needs no error analysis: only that rounding to nearest is monotone.  What
   remains open is a path ALL of whose segments are shorter than -opt. *)
From Flocq Require Import Core BinarySingleNaN.
From Coq Require Import Reals Lra.

Section Outweigh.
  Local Open Scope R_scope.
  Local Notation fin x := (is_finite x = true).
  Local Notation fexp64 := (SpecFloat.fexp 53 1024).
  Local Notation RN := (round radix2 fexp64 (round_mode mode_NE)).

  Lemma RN_mono x y : x <= y -> RN x <= RN y.
  Proof. intros H. apply round_le; [apply (fexp_correct 53 1024); exact Hp64|apply valid_rnd_N|exact H]. Qed.

  Lemma RN_B2R (x : F64) : RN (B2R x) = B2R x.
  Proof. apply round_generic; [apply valid_rnd_N|apply generic_format_B2R]. Qed.

  (* a finite value <= 0 plus a finite value >= 0: no overflow *)
  Lemma add_mixed_finite (c l : F64) : fin c -> fin l -> B2R c <= 0 -> 0 <= B2R l ->
    fin (D.add c l) /\ B2R (D.add c l) = RN (B2R c + B2R l).
  Proof.
    intros Fc Fl Hc Hl. pose proof (Bplus_correct 53 1024 Hp64 He64 mode_NE c l Fc Fl) as C.
    rewrite Rlt_bool_true in C.
    - destruct C as (CR & CF & _). split; [exact CF|exact CR].
    - pose proof (RN_mono (B2R c) (B2R c + B2R l) ltac:(lra)) as H1.
      pose proof (RN_mono (B2R c + B2R l) (B2R l) ltac:(lra)) as H2.
      rewrite RN_B2R in H1, H2.
      pose proof (abs_B2R_lt_emax 53 1024 c) as Ac. pose proof (abs_B2R_lt_emax 53 1024 l) as Al.
      apply Rabs_def1.
      + apply Rle_lt_trans with (B2R l); [exact H2|]. apply Rle_lt_trans with (Rabs (B2R l)); [apply RRle_abs|exact Al].
      + apply Rlt_le_trans with (B2R c); [|exact H1].
        apply Rabs_def2 in Ac. lra.
  Qed.

  (* the state of the running sum relative to its seed [a0] *)
  Definition above (a0 c : F64) : Prop := nn64 c = true \/ (fin c /\ B2R c <= 0 /\ B2R a0 <= B2R c).

  Lemma nn_cases (l : F64) : nn64 l = true ->
    (fin l /\ 0 <= B2R l) \/ (is_finite l = false /\ forall c : F64, fin c -> nn64 (D.add c l) = true).
  Proof.
    intros Hl. destruct l as [s|s| |s m e H].
    - left. split; [reflexivity|cbn; lra].
    - destruct s; [discriminate|]. right. split; [reflexivity|].
      intros c Fc. destruct c as [sc|sc| |sc mc ec Hc]; try discriminate; reflexivity.
    - right. split; [reflexivity|]. intros c Fc. destruct c as [sc|sc| |sc mc ec Hc]; reflexivity.
    - left. split; [reflexivity|]. exact (@nnb_finite_R 53 1024 (B754_finite s m e H) (eq_refl true) Hl).
  Qed.

  Lemma above_step a0 c l : above a0 c -> nn64 l = true -> above a0 (D.add c l).
  Proof.
    intros [Hc|(Fc & Hc0 & Hc)] Hl; [left; exact (nn64_add c l Hc Hl)|].
    destruct (nn_cases l Hl) as [(Fl & Rl)|(_ & Hinf)]; [|left; exact (Hinf c Fc)].
    destruct (add_mixed_finite c l Fc Fl Hc0 Rl) as (Fs & Rs).
    destruct (Rle_dec (B2R (D.add c l)) 0) as [Hneg|Hpos].
    - right. split; [exact Fs|]. split; [exact Hneg|]. rewrite Rs.
      apply Rle_trans with (RN (B2R c)); [rewrite RN_B2R; exact Hc|apply RN_mono; lra].
    - left. apply (@finite_R_nnb 53 1024); [exact Fs|lra].
  Qed.

  (* the decisive step: the seed plus this one length is not negative *)
  Lemma above_hit a0 c l : fin a0 -> above a0 c -> nn64 l = true ->
    nn64 (D.add a0 l) = true -> nn64 (D.add c l) = true.
  Proof.
    intros Fa [Hc|(Fc & Hc0 & Hc)] Hl Hhit; [exact (nn64_add c l Hc Hl)|].
    destruct (nn_cases l Hl) as [(Fl & Rl)|(_ & Hinf)]; [|exact (Hinf c Fc)].
    assert (Ha0 : B2R a0 <= 0) by lra.
    destruct (add_mixed_finite a0 l Fa Fl Ha0 Rl) as (Fs0 & Rs0).
    destruct (add_mixed_finite c l Fc Fl Hc0 Rl) as (Fs & Rs).
    apply (@finite_R_nnb 53 1024); [exact Fs|]. rewrite Rs.
    apply Rle_trans with (RN (B2R a0 + B2R l)); [|apply RN_mono; lra].
    rewrite <- Rs0. exact (@nnb_finite_R 53 1024 _ Fs0 Hhit).
  Qed.
End Outweigh.

(* the segment lengths of a path, as calculate_length adds them *)
Fixpoint seg_lens (path : list Pos) : list F64 :=
  match path with
  | curr :: ((next :: _) as t) => f64_of_f32 (plen (psub next curr)) :: seg_lens t
  | _ => []
  end.

Lemma seg_lens_nn path : Forall (fun l => nn64 l = true) (seg_lens path).
Proof.
  induction path as [|a [|b t] IH]; try constructor; [apply seg_len_nn|exact IH].
Qed.

Lemma natural_len_fold path : forall acc,
  natural_len path acc = fold_left D.add (seg_lens path) acc.
Proof.
  unfold natural_len. induction path as [|a [|b t] IH]; intros acc; try reflexivity.
  rewrite cum_lengths_cons2. cbn [snd seg_lens fold_left]. apply IH.
Qed.

Lemma fold_above a0 ls : forall c, above a0 c -> Forall (fun l => nn64 l = true) ls ->
  above a0 (fold_left D.add ls c).
Proof.
  induction ls as [|l r IH]; intros c Hc Hl; [exact Hc|].
  inversion Hl as [|? ? H1 H2]; subst. cbn [fold_left]. apply IH; [apply above_step; assumption|exact H2].
Qed.

Lemma fold_nn ls : forall c, nn64 c = true -> Forall (fun l => nn64 l = true) ls ->
  nn64 (fold_left D.add ls c) = true.
Proof.
  induction ls as [|l r IH]; intros c Hc Hl; [exact Hc|].
  inversion Hl as [|? ? H1 H2]; subst. cbn [fold_left]. apply IH; [apply nn64_add; assumption|exact H2].
Qed.

Lemma fold_hit a0 ls : is_finite a0 = true -> Forall (fun l => nn64 l = true) ls ->
  Exists (fun l => nn64 (D.add a0 l) = true) ls ->
  forall c, above a0 c -> nn64 (fold_left D.add ls c) = true.
Proof.
  intros Fa. induction ls as [|l r IH]; intros Hall Hex c Hc; [inversion Hex|].
  inversion Hall as [|? ? Hl Hr]; subst. cbn [fold_left].
  inversion Hex as [? ? Hhit|? ? Hlater]; subst.
  - apply fold_nn; [exact (above_hit a0 c l Fa Hc Hl Hhit)|exact Hr].
  - apply IH; [exact Hr|exact Hlater|exact (above_step a0 c l Hc Hl)].
Qed.

(* a finite surplus outweighed by one segment: the natural length is not negative *)
Theorem natural_len_nn_outweighed path opt :
  is_finite opt = true ->
  Exists (fun l => nn64 (D.add opt l) = true) (seg_lens path) ->
  nn64 (natural_len path opt) = true.
Proof.
  intros Fo Hex. rewrite natural_len_fold.
  apply (fold_hit opt (seg_lens path) Fo (seg_lens_nn path) Hex).
  destruct (nn64 opt) eqn:E; [left; exact E|right].
  split; [exact Fo|]. split; [|apply Rle_refl].
  destruct opt as [s|s| |s m e H]; try discriminate. destruct s; [|discriminate].
  apply Rlt_le. apply F2R_lt_0. reflexivity.
Qed.

(* ---------- the distance, from the natural length alone ---------- *)

Lemma dist_natural_nn path opt : nn64 (natural_len path opt) = true -> nn64 (Curve.dist (natural path opt)) = true.
Proof.
  intros H. destruct (Nat.leb 2 (length path)) eqn:E.
  - apply Nat.leb_le in E. rewrite (proj2 (no_requested_length path opt) E). exact H.
  - apply Nat.leb_gt in E. destruct path as [|a [|b t]]; try reflexivity. cbn [length] in E. lia.
Qed.

Theorem calculate_length_dist_nn_natural path e opt path' lens :
  req_ok e -> nn64 (natural_len path opt) = true ->
  calculate_length path e opt = Done (path', lens) -> nn64 (Curve.dist lens) = true.
Proof.
  intros He Hl H.
  pose proof (calculate_length_cases path e opt) as C. cbv zeta in C.
  destruct e as [L|].
  - cbn [req_ok] in He. pose proof (lt_zero_nn64 L He) as HL.
    destruct (keeps_natural (natural_len path opt) L).
    { rewrite C in H. apply Done_pair_inj in H; destruct H as [_ <-]. exact (dist_natural_nn path opt Hl). }
    destruct (last_two_equal path && D.gt L (natural_len path opt))%bool.
    { rewrite C in H. apply Done_pair_inj in H; destruct H as [_ <-]. rewrite dist_adjusted. exact Hl. }
    destruct (Nat.leb (length path) 1).
    { rewrite C in H. apply Done_pair_inj in H; destruct H as [_ <-]. reflexivity. }
    destruct (last_valid (removelast (natural path opt)) L) as [|k1].
    { rewrite C in H. apply Done_pair_inj in H; destruct H as [_ <-]. reflexivity. }
    destruct C as (p' & _ & _ & C). rewrite C in H. apply Done_pair_inj in H; destruct H as [_ <-].
    rewrite dist_adjusted. exact HL.
  - rewrite C in H. apply Done_pair_inj in H; destruct H as [_ <-]. exact (dist_natural_nn path opt Hl).
Qed.

(* the surplus is not negative, or it is finite and outweighed by one segment of the path *)
Definition surplus_outweighed (lm : Libm) (fuel : positive) (mode : Z) (pts : list PathControlPoint) : Prop :=
  forall path opt, calculate_path_L1 lm fuel mode pts = Done (path, opt) ->
    nn64 opt = true \/
    (is_finite opt = true /\ Exists (fun l => nn64 (D.add opt l) = true) (seg_lens path)).

Lemma surplus_nn_outweighed lm fuel mode pts : surplus_nn lm fuel mode pts -> surplus_outweighed lm fuel mode pts.
Proof. intros H path opt E. left. exact (H path opt E). Qed.

Theorem curve_dist_nn_outweighed lm fuel mode pts e c :
  req_ok e -> surplus_outweighed lm fuel mode pts ->
  curve_L1 lm fuel mode pts e = Done c -> nn64 (Curve.dist (c_lengths c)) = true.
Proof.
  intros He Hs H. destruct (curve_L1_unfold lm fuel mode pts e c H) as (path & opt & Hp & Hl).
  apply (calculate_length_dist_nn_natural path e opt (c_path c) (c_lengths c) He); [|exact Hl].
  destruct (Hs path opt Hp) as [Hn|(Fo & Hex)]; [exact (natural_len_nn path opt Hn)|].
  exact (natural_len_nn_outweighed path opt Fo Hex).
Qed.

(* CurveDistNonneg: when is the distance of a computed curve "not negative"
   (NaN, a zero, positive or +inf: the class on which SliderEventsIter::new
   does not panic, finding D18)?

   calculate_length starts its running sum at the osu!-mode Catmull surplus
   [opt] and adds segment lengths sqrt(..) (never negative, possibly NaN).
     - natural_len_nn     : opt not negative  =>  every natural cumulative
                            length, and the natural length, is not negative
                            (binary64 addition of two non-negative values,
                            by Flocq's Bplus_correct);
     - calculate_length_dist_nn : for a requested length that is absent or
                            positive (all the decoder produces) the distance
                            is 0, the requested length, or the natural length;
     - cpath_opt_zero     : the surplus is +0.0 unless the mode is osu! AND a
                            control point carries the Catmull type;
     - curve_dist_nn      : hence the distance is not negative outside that
                            class, and inside it whenever the surplus is not
                            negative.
   What is NOT proved: that the surplus, a sum of differences
   [len_removed_since_start - dist_from_start] of ROUNDED binary32 distances,
   cannot drive the final sum below zero (it is non-negative over the reals:
   SimplifyExact / T16c).  See Properties/C01.v, layer 4. *)
From RM Require Import Model.ControlPoints Model.Curve Proofs.BezierRefine Proofs.LengthFacts
     Proofs.FloatNonneg.
Require Import ZifyBool.
Open Scope nat_scope.

(* ---------- segment lengths ---------- *)

Lemma plen_nn a : nn32 (plen a) = true.
Proof. unfold plen. apply nn_f32_of_f64. apply nn64_sqrt. Qed.

Lemma seg_len_nn a b : nn64 (f64_of_f32 (plen (psub b a))) = true.
Proof. apply nn_f64_of_f32. apply plen_nn. Qed.

(* ---------- the running sum ---------- *)

Lemma cum_lengths_nn path : forall acc, nn64 acc = true ->
  Forall (fun x => nn64 x = true) (fst (cum_lengths acc path)) /\ nn64 (snd (cum_lengths acc path)) = true.
Proof.
  induction path as [|a [|b t] IH]; intros acc H.
  - split; [constructor|exact H].
  - split; [constructor|exact H].
  - rewrite cum_lengths_cons2. cbn [fst snd].
    assert (H' : nn64 (D.add acc (f64_of_f32 (plen (psub b a)))) = true)
      by (apply nn64_add; [exact H|apply seg_len_nn]).
    destruct (IH _ H') as (I1 & I2). split; [constructor; assumption|exact I2].
Qed.

Lemma natural_nn path opt : nn64 opt = true -> Forall (fun x => nn64 x = true) (natural path opt).
Proof. intros H. unfold natural. constructor; [reflexivity|apply (cum_lengths_nn path opt H)]. Qed.

Lemma natural_len_nn path opt : nn64 opt = true -> nn64 (natural_len path opt) = true.
Proof. intros H. apply (cum_lengths_nn path opt H). Qed.

(* ---------- the distance after calculate_length ---------- *)

Lemma dist_Forall (P : F64 -> Prop) l : P D.zero -> Forall P l -> P (dist l).
Proof.
  intros H0 H. rewrite dist_last. induction H as [|x l Hx Hl IH]; [exact H0|].
  destruct l; [exact Hx|exact IH].
Qed.

Lemma Forall_app_single {A} (P : A -> Prop) l x : Forall P l -> P x -> Forall P (l ++ [x]).
Proof. intros H Hx. apply Forall_app. split; [exact H|constructor; [exact Hx|constructor]]. Qed.

Lemma Forall_firstn {A} (P : A -> Prop) n l : Forall P l -> Forall P (firstn n l).
Proof.
  intros H. revert n. induction H as [|x l Hx Hl IH]; intros [|n]; cbn [firstn]; constructor; auto.
Qed.

(* the requested length the decoder hands over: absent, or positive *)
Definition req_ok (e : option F64) : Prop :=
  match e with None => True | Some L => D.lt D.zero L = true end.

Theorem calculate_length_lens_nn path e opt path' lens :
  req_ok e -> nn64 opt = true ->
  calculate_length path e opt = Done (path', lens) ->
  Forall (fun x => nn64 x = true) lens.
Proof.
  intros He Ho H.
  pose proof (calculate_length_cases path e opt) as C. cbv zeta in C.
  pose proof (natural_nn path opt Ho) as Hn. pose proof (natural_len_nn path opt Ho) as Hl.
  destruct e as [L|].
  - cbn [req_ok] in He. pose proof (lt_zero_nn64 L He) as HL.
    destruct (near_natural (natural_len path opt) L).
    { rewrite C in H. apply Done_pair_inj in H; destruct H as [_ <-]. exact Hn. }
    destruct (last_two_equal path && D.gt L (natural_len path opt))%bool.
    { rewrite C in H. apply Done_pair_inj in H; destruct H as [_ <-]. apply Forall_app_single; assumption. }
    destruct (Nat.leb (length path) 1).
    { rewrite C in H. apply Done_pair_inj in H; destruct H as [_ <-]. constructor; [reflexivity|constructor]. }
    destruct (last_valid (removelast (natural path opt)) L) as [|k1].
    { rewrite C in H. apply Done_pair_inj in H; destruct H as [_ <-]. constructor; [reflexivity|constructor]. }
    destruct C as (p' & _ & _ & C). rewrite C in H. apply Done_pair_inj in H; destruct H as [_ <-].
    apply Forall_app_single; [apply Forall_firstn; exact Hn|exact HL].
  - rewrite C in H. apply Done_pair_inj in H; destruct H as [_ <-]. exact Hn.
Qed.

Corollary calculate_length_dist_nn path e opt path' lens :
  req_ok e -> nn64 opt = true ->
  calculate_length path e opt = Done (path', lens) -> nn64 (dist lens) = true.
Proof.
  intros He Ho H. apply (dist_Forall (fun x => nn64 x = true)); [reflexivity|].
  exact (calculate_length_lens_nn path e opt path' lens He Ho H).
Qed.

(* conversely: a negative distance needs a negative natural length *)
Corollary negative_dist_needs_negative_surplus path e opt path' lens :
  req_ok e -> calculate_length path e opt = Done (path', lens) ->
  D.lt (dist lens) D.zero = true -> D.lt opt D.zero = true.
Proof.
  intros He H Hd. rewrite nn64_lt_zero in *. destruct (nn64 opt) eqn:Eo; [|reflexivity].
  rewrite (calculate_length_dist_nn path e opt path' lens He Eo H) in Hd. discriminate.
Qed.

(* ---------- the surplus is +0.0 outside osu!-mode Catmull ---------- *)

Section Opt.
  Context {B : Type}.
  Variable bezier : list Pos -> list Pos -> B -> outcome (list Pos * B).
  Variable lm : Libm.

  Definition is_catmull (k : SplineType) : bool := match k with Catmull => true | _ => false end.
  Definition has_catmull (pts : list PathControlPoint) : bool :=
    existsb (fun p => match pc_type p with Some k => is_catmull k | None => false end) pts.

  Lemma calculate_subpath_opt osu path sub kind opt b path' opt' b' :
    calculate_subpath bezier lm osu path sub kind opt b = Done (path', opt', b') ->
    (osu && is_catmull kind)%bool = false -> opt' = opt.
  Proof.
    unfold calculate_subpath, bez3. intros H Hc.
    destruct kind; cbn [is_catmull] in Hc.
    - rewrite andb_true_r in Hc. subst osu. cbn [negb] in H.
      destruct (approximate_catmull sub); cbn [obind] in H; inversion H; reflexivity.
    - destruct (bezier path sub b) as [[p1 b1]| |]; cbn [obind] in H; inversion H; reflexivity.
    - inversion H; reflexivity.
    - destruct sub as [|a [|m [|c [|d r]]]];
        try (destruct (bezier path _ b) as [[p1 b1]| |]; cbn [obind] in H; inversion H; reflexivity).
      destruct (approximate_circular_arc lm a m c) as [[arc|]| |]; cbn [obind] in H;
        try discriminate; [inversion H; reflexivity|].
      destruct (bezier path [a; m; c] b) as [[p1 b1]| |]; cbn [obind] in H; inversion H; reflexivity.
  Qed.

  Lemma aget_In {A} (l : list A) i x : aget l i = Done x -> In x l.
  Proof.
    unfold aget. destruct (nth_error l i) eqn:E; [|discriminate].
    intros H; inversion H; subst. exact (nth_error_In _ _ E).
  Qed.

  Lemma cpath_loop_opt osu pts verts : (osu && has_catmull pts)%bool = false ->
    forall k i start n path opt b path' opt' b',
    cpath_loop bezier lm k i start n osu pts verts path opt b = Done (path', opt', b') -> opt' = opt.
  Proof.
    intros Hc. induction k as [|k IH]; intros i start n path opt b path' opt' b' H; cbn [cpath_loop] in H.
    - inversion H; reflexivity.
    - destruct (aget pts i) as [cp| |] eqn:Ecp; cbn [obind] in H; try discriminate.
      destruct ((match pc_type cp with None => true | Some _ => false end) && Nat.ltb i (n - 1))%bool.
      { exact (IH _ _ _ _ _ _ _ _ _ H). }
      destruct (Nat.ltb i start || Nat.leb (length verts) i)%bool; [discriminate|].
      destruct (firstn (S i - start) (skipn start verts)) as [|v [|v2 seg]] eqn:Es; [discriminate| |].
      { exact (IH _ _ _ _ _ _ _ _ _ H). }
      destruct (aget pts start) as [cps| |] eqn:Ecps; cbn [obind] in H; try discriminate.
      destruct (calculate_subpath bezier lm osu path (v :: v2 :: seg)
                  (match pc_type cps with None => Linear | Some t => t end) opt b)
        as [[[p1 o1] b1]| |] eqn:Esub; cbn [obind] in H; try discriminate.
      assert (Ho : o1 = opt).
      { apply (calculate_subpath_opt _ _ _ _ _ _ _ _ _ Esub).
        destruct osu; [|reflexivity]. cbn [andb] in *.
        destruct (pc_type cps) as [t|] eqn:Et; [|reflexivity].
        destruct (is_catmull t) eqn:Ect; [|reflexivity].
        exfalso. unfold has_catmull in Hc.
        assert (existsb (fun p => match pc_type p with Some k => is_catmull k | None => false end) pts = true).
        { apply existsb_exists. exists cps. split; [exact (aget_In _ _ _ Ecps)|]. rewrite Et. exact Ect. }
        congruence. }
      subst o1. exact (IH _ _ _ _ _ _ _ _ _ H).
  Qed.
End Opt.

Theorem calculate_path_L1_opt_zero lm fuel mode pts path opt :
  (is_osu mode && has_catmull pts)%bool = false ->
  calculate_path_L1 lm fuel mode pts = Done (path, opt) -> opt = D.zero.
Proof.
  intros Hc. unfold calculate_path_L1. destruct pts as [|p r]; [intros H; inversion H; reflexivity|].
  destruct (cpath_loop _ _ _ _ _ _ _ _ _ _ _ _) as [[[p1 o1] u]| |] eqn:E; cbn [obind]; try discriminate.
  intros H. inversion H; subst.
  exact (cpath_loop_opt _ _ _ _ _ Hc _ _ _ _ _ _ _ _ _ _ E).
Qed.

(* ---------- the curve ---------- *)

(* the osu!-mode Catmull surplus of a control-point list: what calculate_path
   hands to calculate_length *)
Definition surplus_nn (lm : Libm) (fuel : positive) (mode : Z) (pts : list PathControlPoint) : Prop :=
  forall path opt, calculate_path_L1 lm fuel mode pts = Done (path, opt) -> nn64 opt = true.

Lemma surplus_nn_outside lm fuel mode pts :
  (is_osu mode && has_catmull pts)%bool = false -> surplus_nn lm fuel mode pts.
Proof.
  intros Hc path opt H. rewrite (calculate_path_L1_opt_zero lm fuel mode pts path opt Hc H). reflexivity.
Qed.

Theorem curve_dist_nn lm fuel mode pts e c :
  req_ok e -> surplus_nn lm fuel mode pts ->
  curve_L1 lm fuel mode pts e = Done c -> nn64 (dist (c_lengths c)) = true.
Proof.
  intros He Hs H. destruct (curve_L1_unfold lm fuel mode pts e c H) as (path & opt & Hp & Hl).
  exact (calculate_length_dist_nn path e opt _ _ He (Hs path opt Hp) Hl).
Qed.

Theorem curve_lengths_nn lm fuel mode pts e c :
  req_ok e -> surplus_nn lm fuel mode pts ->
  curve_L1 lm fuel mode pts e = Done c -> Forall (fun x => nn64 x = true) (c_lengths c).
Proof.
  intros He Hs H. destruct (curve_L1_unfold lm fuel mode pts e c H) as (path & opt & Hp & Hl).
  exact (calculate_length_lens_nn path e opt _ _ He (Hs path opt Hp) Hl).
Qed.

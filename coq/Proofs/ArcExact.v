(* ArcExact: T17d -- the arc formulas of the model read over the reals: the
   computed centre is equidistant from a, b, c; every emitted point is at
   distance radius from the centre; the first point is a -- under the libm
   hypotheses cos^2 + sin^2 = 1 and r cos(atan2 y x) = x, r sin(atan2 y x) = y. *)
From RM Require Import Model.ControlPoints Model.Curve.
From Coq Require Import Reals Lra.
Open Scope R_scope.

Definition centre_R (ax ay bx by_ cx cy : R) : R * R :=
  arc_centre_g Rplus Rminus Rmult Rdiv 2 ax ay bx by_ cx cy.

Definition det2 (ax ay bx by_ cx cy : R) : R :=
  ax * (by_ - cy) + bx * (cy - ay) + cx * (ay - by_).

Definition sqd (px_ py_ qx qy : R) : R := (px_ - qx) ^ 2 + (py_ - qy) ^ 2.

(* the centre is equidistant from the three points (non-degenerate triangle) *)
Theorem centre_equidistant ax ay bx by_ cx cy :
  det2 ax ay bx by_ cx cy <> 0 ->
  let '(X, Y) := centre_R ax ay bx by_ cx cy in
  sqd ax ay X Y = sqd bx by_ X Y /\ sqd ax ay X Y = sqd cx cy X Y.
Proof.
  unfold det2, centre_R, arc_centre_g, sqd. intros H. split; field; lra.
Qed.

(* one arc point coordinate: centre + (trig as f32) * radius *)
Definition arc_coord_g {T64 T32} (conv : T64 -> T32) (add32 mul32 : T32 -> T32 -> T32)
    (c : T32) (trig : T64) (r : T32) : T32 := add32 c (mul32 (conv trig) r).

Lemma model_arc_point lm pr divisor directed i :
  arc_point lm pr divisor directed i =
  let theta := D.add (a_theta_start pr) (D.mul (D.div (D.of_Z (Z.of_nat i)) divisor) directed) in
  mkPos (arc_coord_g f32_of_f64 S.add S.mul (px (a_centre pr)) (l_cos lm theta) (a_radius pr))
        (arc_coord_g f32_of_f64 S.add S.mul (py (a_centre pr)) (l_sin lm theta) (a_radius pr)).
Proof. reflexivity. Qed.

Definition arc_coord_R := @arc_coord_g R R (fun x => x) Rplus Rmult.

(* every emitted point is at distance radius from the centre *)
Theorem arc_point_on_circle (X Y r co si : R) :
  co ^ 2 + si ^ 2 = 1 ->
  sqd (arc_coord_R X co r) (arc_coord_R Y si r) X Y = r ^ 2.
Proof.
  intros H. unfold sqd, arc_coord_R, arc_coord_g.
  replace ((X + co * r - X) ^ 2 + (Y + si * r - Y) ^ 2) with ((co ^ 2 + si ^ 2) * r ^ 2) by ring.
  rewrite H. ring.
Qed.

(* the first emitted point (fraction 0: theta = theta_start = atan2(a - centre))
   is a, the last (fraction 1, theta = theta_start + direction * range = the
   angle of c) is c, whenever the libm pair inverts atan2 on the circle *)
Theorem arc_point_is_vertex (X Y vx vy r co si : R) :
  r * co = vx - X -> r * si = vy - Y ->
  arc_coord_R X co r = vx /\ arc_coord_R Y si r = vy.
Proof. intros H1 H2. unfold arc_coord_R, arc_coord_g. split; lra. Qed.

(* fraction and angle arithmetic at the two ends, over the reals *)
Lemma theta_at_ends (ts range dir n : R) : n <> 0 ->
  ts + (0 / n) * (dir * range) = ts /\ ts + (n / n) * (dir * range) = ts + dir * range.
Proof. intros H. split; field; exact H. Qed.

(* DecodeTerminatesSegments: the decode-level "never hangs" theorem with the
   control points counted PER SEGMENT.

   The curve hands the Bezier routine one segment at a time: the control points
   from one typed point to the next, both included (DecodeTerminatesSegLoop).
   [max_seg_len cps] is the largest such slice a control-point list allows: the
   longest run of untyped points strictly inside the list plus its two end
   points (never more than the whole list).  A slider whose control points are
   inside +-2^E of its head with max_seg_len * 2^E <= 2^22 ([cps_seg_fit E]; 16
   points per segment are enough anywhere in the parser's range) has a curve
   that returns a value, whatever the number of segments.  This subsumes the
   whole-slider count of DecodeTerminates ([cps_fit_seg_fit]). *)
From RM Require Import Model.Decoders Model.CurveDist Model.EncPathSpec Model.Reader Model.Encoding.
From RM Require Import Proofs.FramingFacts Proofs.ControlPointsFacts Proofs.HitObjectLineFacts Proofs.MapLevelFacts
     Proofs.DecodersFacts Proofs.DecodersTotal Proofs.EncMapImage
     Proofs.DecodeTerminatesPoints Proofs.DecodeTerminates Proofs.ReaderFacts Proofs.TransparencyFacts
     Proofs.C01Bytes.
From RM Require Model.Curve Proofs.ThetaLoop Proofs.BezierIEEE Proofs.BezierIEEECurve Proofs.DecodeTerminatesSegLoop.
From Coq Require Import ZifyBool Lia.
Open Scope Z_scope.

(* ---------- the longest run of untyped control points ---------- *)

Fixpoint run_scan (cur best : nat) (l : list PCP) : nat :=
  match l with
  | [] => Nat.max cur best
  | p :: r =>
      match cp_type p with
      | None => run_scan (S cur) best r
      | Some _ => run_scan 0 (Nat.max cur best) r
      end
  end.
Definition max_untyped_run (l : list PCP) : nat := run_scan 0 0 l.

(* the largest number of points `vertices[start..=i]` the curve can hand to a
   sub-path routine: a run of untyped points strictly inside the list, plus its
   two end points *)
Definition max_seg_len (cps : list PCP) : nat :=
  Nat.min (length cps) (max_untyped_run (removelast cps) + 2).

Definition untyped_block (l : list PCP) (a b : nat) : Prop :=
  forall j, (a <= j < b)%nat -> exists p, nth_error l j = Some p /\ cp_type p = None.

Lemma run_scan_mono : forall l cur best, (cur <= run_scan cur best l /\ best <= run_scan cur best l)%nat.
Proof.
  induction l as [|p r IH]; intros cur best; cbn [run_scan]; [lia|].
  destruct (cp_type p).
  - destruct (IH 0%nat (Nat.max cur best)). lia.
  - destruct (IH (S cur) best). lia.
Qed.

Lemma run_scan_block : forall l cur best a b, (a <= b <= length l)%nat -> untyped_block l a b ->
  (b - a <= run_scan cur best l)%nat /\ (a = 0%nat -> (cur + b <= run_scan cur best l)%nat).
Proof.
  induction l as [|p r IH]; intros cur best a b Hab Hblk; cbn [run_scan length] in *.
  - split; lia.
  - destruct a as [|a'].
    + destruct b as [|b'].
      * pose proof (run_scan_mono (p :: r) cur best) as M. cbn [run_scan] in M. split; lia.
      * destruct (Hblk 0%nat ltac:(lia)) as (p0 & E0 & T0). cbn [nth_error] in E0. injection E0 as <-.
        rewrite T0.
        assert (Hb' : untyped_block r 0 b').
        { intros j Hj. destruct (Hblk (S j) ltac:(lia)) as (q & Eq & Tq). exists q. split; assumption. }
        destruct (IH (S cur) best 0%nat b' ltac:(lia) Hb') as [_ H2]. specialize (H2 eq_refl). split; lia.
    + assert (Hb' : untyped_block r a' (b - 1)).
      { intros j Hj. destruct (Hblk (S j) ltac:(lia)) as (q & Eq & Tq). exists q. split; assumption. }
      split; [|discriminate].
      destruct (cp_type p).
      * destruct (IH 0%nat (Nat.max cur best) a' (b - 1)%nat ltac:(lia) Hb') as [H1 _]. lia.
      * destruct (IH (S cur) best a' (b - 1)%nat ltac:(lia) Hb') as [H1 _]. lia.
Qed.

Lemma nth_error_removelast {A} : forall (l : list A) j, (S j < length l)%nat ->
  nth_error (removelast l) j = nth_error l j.
Proof.
  induction l as [|x r IH]; intros j H; [cbn in H; lia|].
  destruct r as [|y r']; [cbn in H; lia|].
  change (removelast (x :: y :: r')) with (x :: removelast (y :: r')).
  destruct j as [|j']; [reflexivity|]. cbn [nth_error]. apply IH. cbn [length] in *. lia.
Qed.

Lemma removelast_length {A} (l : list A) : length (removelast l) = (length l - 1)%nat.
Proof.
  induction l as [|x r IH]; [reflexivity|]. destruct r as [|y r']; [reflexivity|].
  change (removelast (x :: y :: r')) with (x :: removelast (y :: r')). cbn [length] in *. lia.
Qed.

Lemma pc_type_conv p : Curve.pc_type (conv_pcp p) = None <-> cp_type p = None.
Proof. unfold conv_pcp. cbn [Curve.pc_type]. destruct (cp_type p); split; intros H; congruence. Qed.

(* a slice between two indices without typed point strictly between is short *)
Lemma seg_slice_length cps start i : (start <= i < length cps)%nat ->
  DecodeTerminatesSegLoop.untyped_between (map conv_pcp cps) start i -> (S i - start <= max_seg_len cps)%nat.
Proof.
  intros Hi Hu. unfold max_seg_len, max_untyped_run.
  destruct (Nat.eq_dec start i) as [->|Hne]; [lia|].
  assert (Hblk : untyped_block (removelast cps) (S start) i).
  { intros j Hj. rewrite nth_error_removelast by lia.
    destruct (nth_error cps j) as [p|] eqn:Ep; [|apply nth_error_None in Ep; lia].
    exists p. split; [reflexivity|]. apply pc_type_conv.
    apply (Hu j (conv_pcp p)); [lia|]. rewrite nth_error_map, Ep. reflexivity. }
  destruct (run_scan_block (removelast cps) 0 0 (S start) i) as [H _]; [rewrite removelast_length; lia|exact Hblk|].
  lia.
Qed.

(* ---------- one slider ---------- *)

Definition cps_seg_fit (E : Z) (cps : list PCP) : bool :=
  (0 <=? E) && (E <=? 22) && (Z.of_nat (max_seg_len cps) * 2 ^ E <=? 2 ^ 22) && cps_within E cps.

(* the general form: every slice the curve can take has at most m points *)
Theorem curve_of_done_slices lm mode pos cps e E (m : nat) :
  ThetaLoop.atan2_in_range lm -> path_image pos cps = true ->
  0 <= E <= 22 -> cps_within E cps = true -> Z.of_nat m * 2 ^ E <= 2 ^ 22 ->
  (forall start i, (start <= i < length cps)%nat ->
     DecodeTerminatesSegLoop.untyped_between (map conv_pcp cps) start i -> (S i - start <= m)%nat) ->
  exists c, curve_of lm mode cps e = Done c.
Proof.
  intros Hlm Hi HE Hw Hn Hsl.
  unfold curve_of. apply DecodeTerminatesSegLoop.curve_L1_bounded_seg; [exact Hlm|].
  intros start i Hsi Hu. rewrite map_length in Hsi. exists E. split; [lia|].
  pose proof (path_image_points_ok_graded pos cps E ltac:(lia) Hi Hw) as Hok.
  split.
  - apply BezierIEEECurve.Forall_firstn, BezierIEEECurve.Forall_skipn.
    rewrite map_map. apply Forall_map. exact Hok.
  - pose proof (Hsl start i Hsi Hu) as Hl.
    assert (Hlen : (length (firstn (S i - start) (skipn start (map Curve.pc_pos (map conv_pcp cps)))) <= S i - start)%nat)
      by (rewrite firstn_length; lia).
    assert (0 < 2 ^ E) by (apply Z.pow_pos_nonneg; lia).
    nia.
Qed.

Theorem curve_of_done_seg lm mode pos cps e E :
  ThetaLoop.atan2_in_range lm -> path_image pos cps = true -> cps_seg_fit E cps = true ->
  exists c, curve_of lm mode cps e = Done c.
Proof.
  intros Hlm Hi Hf. unfold cps_seg_fit in Hf.
  apply andb_true_iff in Hf. destruct Hf as [Hf Hw]. apply andb_true_iff in Hf. destruct Hf as [Hf Hn].
  apply andb_true_iff in Hf. destruct Hf as [E0 E22].
  apply (curve_of_done_slices lm mode pos cps e E (max_seg_len cps) Hlm Hi); [lia|exact Hw|lia|].
  intros start i Hsi Hu. exact (seg_slice_length cps start i Hsi Hu).
Qed.

Corollary dist_of_curve_done_seg lm mode pos cps e E :
  ThetaLoop.atan2_in_range lm -> path_image pos cps = true -> cps_seg_fit E cps = true ->
  exists d, dist_of_curve lm mode cps e = Done d.
Proof.
  intros Hlm Hi Hf. unfold dist_of_curve. destruct (curve_of_done_seg lm mode pos cps e E Hlm Hi Hf) as (c & ->).
  cbn [obind]. eauto.
Qed.

Lemma max_seg_len_le cps : (max_seg_len cps <= length cps)%nat.
Proof. unfold max_seg_len. lia. Qed.

(* the whole-slider condition is a special case *)
Lemma cps_fit_seg_fit E cps : cps_fit E cps = true -> cps_seg_fit E cps = true.
Proof.
  unfold cps_fit, cps_seg_fit. intros H.
  apply andb_true_iff in H. destruct H as [H Hw]. apply andb_true_iff in H. destruct H as [H Hn].
  apply andb_true_iff in H. destruct H as [E0 E22]. rewrite Hw.
  pose proof (max_seg_len_le cps) as Hl.
  assert (0 < 2 ^ E) by (apply Z.pow_pos_nonneg; lia).
  assert (Z.of_nat (max_seg_len cps) * 2 ^ E <= 2 ^ 22) by nia. lia.
Qed.

(* ---------- one object ---------- *)

Definition obj_seg_fits (E : Z) (h : HitObject) : bool :=
  match h_kind h with KSlider s => cps_seg_fit E (sl_control_points s) | _ => true end.
Definition obj_seg_fits_some (h : HitObject) : bool :=
  existsb (fun n => obj_seg_fits (Z.of_nat n) h) (seq 0 23).
(* at most n control points in every segment *)
Definition obj_seg_le (n : nat) (h : HitObject) : bool :=
  match h_kind h with KSlider s => (max_seg_len (sl_control_points s) <=? n)%nat | _ => true end.

Lemma obj_seg_fits_some_of E h : 0 <= E <= 22 -> obj_seg_fits E h = true -> obj_seg_fits_some h = true.
Proof.
  intros HE H. unfold obj_seg_fits_some. apply existsb_exists. exists (Z.to_nat E). split.
  - apply in_seq. lia.
  - rewrite Z2Nat.id by lia. exact H.
Qed.

Lemma obj_fits_seg_fits E h : obj_fits E h = true -> obj_seg_fits E h = true.
Proof.
  unfold obj_fits, obj_seg_fits. destruct (h_kind h); try reflexivity. apply cps_fit_seg_fit.
Qed.

Lemma obj_fits_some_seg h : obj_fits_some h = true -> obj_seg_fits_some h = true.
Proof.
  unfold obj_fits_some, obj_seg_fits_some. intros H. apply existsb_exists in H. destruct H as (n & Hn & H).
  apply existsb_exists. exists n. split; [exact Hn|]. apply obj_fits_seg_fits. exact H.
Qed.

Lemma obj_seg_le_fits h : object_image h = true -> obj_seg_le 16 h = true -> obj_seg_fits 18 h = true.
Proof.
  intros Hi Hl. unfold obj_seg_fits, obj_seg_le in *. destruct (h_kind h) as [c|s|sp|hd] eqn:E; try reflexivity.
  apply Nat.leb_le in Hl. unfold cps_seg_fit. change (2 ^ 18) with 262144. change (2 ^ 22) with 4194304.
  assert (Hw : cps_within 18 (sl_control_points s) = true).
  { unfold cps_within. apply forallb_forall. intros p Hp.
    pose proof (path_image_within _ _ (object_image_slider h s Hi E)) as HA. rewrite Forall_forall in HA.
    exact (proj2 (HA p Hp)). }
  rewrite Hw. lia.
Qed.

Lemma obj_seg_fits_dist_ok lm h : ThetaLoop.atan2_in_range lm ->
  object_image h = true -> obj_seg_fits_some h = true -> slider_dist_ok (dist_of_curve lm) h.
Proof.
  intros Hlm Hi Hf. unfold obj_seg_fits_some in Hf. apply existsb_exists in Hf. destruct Hf as (n & _ & Hf).
  unfold slider_dist_ok, obj_seg_fits in *.
  destruct (h_kind h) as [c|s|sp|hd] eqn:Ek; try exact I.
  exact (dist_of_curve_done_seg lm (sl_mode s) (sl_pos s) (sl_control_points s) (sl_expected_dist s) _ Hlm
           (object_image_slider h s Hi Ek) Hf).
Qed.

Lemma objs_seg_fit_dist_ok lm objs : ThetaLoop.atan2_in_range lm ->
  Forall img objs -> Forall (fun h => obj_seg_fits_some h = true) objs ->
  Forall (slider_dist_ok (dist_of_curve lm)) objs.
Proof.
  intros Hlm Hi Hf. rewrite Forall_forall in *. intros h Hh.
  exact (obj_seg_fits_dist_ok lm h Hlm (Hi h Hh) (Hf h Hh)).
Qed.

Lemma objs_seg_le16_fit objs :
  Forall img objs -> Forall (fun h => obj_seg_le 16 h = true) objs ->
  Forall (fun h => obj_seg_fits_some h = true) objs.
Proof.
  intros Hi Hl. rewrite Forall_forall in *. intros h Hh.
  apply (obj_seg_fits_some_of 18); [lia|]. exact (obj_seg_le_fits h (Hi h Hh) (Hl h Hh)).
Qed.

(* ---------- the decode returns a value ---------- *)

Section Decode.
  Variable lm : Curve.Libm.
  Hypothesis Hlm : ThetaLoop.atan2_in_range lm.

  Lemma hod_finish_done_seg s :
    cp_sorted (tpd_cp (hod_tp s)) -> Forall img (hod_objects s) ->
    Forall (fun h => obj_seg_fits_some h = true) (hod_objects s) ->
    exists hv, hod_finish (dist_of_curve lm) s = Done hv.
  Proof.
    intros Hs Hi Hf. unfold hod_finish.
    destruct (tpd_finish_total (hod_tp s) Hs) as (tv & -> & Hc). cbn [obind].
    destruct (finish_hit_objects_total_on (dist_of_curve lm) (tpv_control_points tv) (ev_breaks (hod_events s))
                (d_slider_multiplier (hod_difficulty s)) (g_mode (tpv_general tv))
                (hod_objects s) Hc (objs_seg_fit_dist_ok lm _ Hlm Hi Hf)) as (objs & ->).
    cbn [obind]. eauto.
  Qed.

  Theorem decode_hit_objects_seg_fits lines :
    Forall (fun h => obj_seg_fits_some h = true) (ho_parsed lines) ->
    exists hv, decode_hit_objects (dist_of_curve lm) lines = Done hv.
  Proof.
    rewrite decode_hit_objects_state. destruct (ho_state lines) as (s & -> & Hs & Hi & ->). cbn [obind].
    exact (hod_finish_done_seg s Hs Hi).
  Qed.

  Theorem decode_beatmap_seg_fits lines :
    Forall (fun h => obj_seg_fits_some h = true) (bm_parsed lines) ->
    exists bv, decode_beatmap (dist_of_curve lm) lines = Done bv.
  Proof.
    rewrite decode_beatmap_state. destruct (bm_state lines) as (s & -> & Hs & Hi & ->). cbn [obind].
    intros Hf. unfold bmd_finish. destruct (hod_finish_done_seg (bmd_ho s) Hs Hi Hf) as (hv & ->).
    cbn [obind]. eauto.
  Qed.

  Theorem decode_terminates_segments_graded lines :
    (Forall (fun h => obj_seg_fits_some h = true) (ho_parsed lines) ->
     exists hv, decode_hit_objects (dist_of_curve lm) lines = Done hv) /\
    (Forall (fun h => obj_seg_fits_some h = true) (bm_parsed lines) ->
     exists bv, decode_beatmap (dist_of_curve lm) lines = Done bv).
  Proof. exact (conj (decode_hit_objects_seg_fits lines) (decode_beatmap_seg_fits lines)). Qed.

  (* at most 16 control points per SEGMENT, any number of segments *)
  Theorem decode_terminates_segments lines :
    (Forall (fun h => obj_seg_le 16 h = true) (ho_parsed lines) ->
     exists hv, decode_hit_objects (dist_of_curve lm) lines = Done hv) /\
    (Forall (fun h => obj_seg_le 16 h = true) (bm_parsed lines) ->
     exists bv, decode_beatmap (dist_of_curve lm) lines = Done bv).
  Proof.
    split; intros H.
    - apply decode_hit_objects_seg_fits. destruct (ho_state lines) as (s & _ & _ & Hi & E).
      rewrite E in *. exact (objs_seg_le16_fit _ Hi H).
    - apply decode_beatmap_seg_fits. destruct (bm_state lines) as (s & _ & _ & Hi & E).
      rewrite E in *. exact (objs_seg_le16_fit _ Hi H).
  Qed.

  (* from_bytes *)
  Theorem decode_bytes_segments (b : bytes) :
    exists lines, read_all_lines (mk_reader b []) = IoDone lines /\
    (Forall (fun h => obj_seg_fits_some h = true) (bm_parsed lines) ->
     exists v, decode_bytes_beatmap (dist_of_curve lm) b = IoDone v) /\
    (Forall (fun h => obj_seg_fits_some h = true) (ho_parsed lines) ->
     exists v, decode_bytes_hit_objects (dist_of_curve lm) b = IoDone v).
  Proof.
    destruct (clean_stream_never_fails b [] faultless_nil) as (lines & E). exists lines.
    split; [exact E|]. unfold decode_bytes_beatmap, decode_bytes_hit_objects. rewrite E. cbn [io_bind].
    split; intros Hf.
    - destruct (decode_beatmap_seg_fits lines Hf) as (bv & ->). eexists. reflexivity.
    - destruct (decode_hit_objects_seg_fits lines Hf) as (hv & ->). eexists. reflexivity.
  Qed.
End Decode.

(* ---------- the boolean conditions, read as propositions ---------- *)

Lemma obj_seg_le_spec n h :
  obj_seg_le n h = true <->
  match h_kind h with KSlider s => (max_seg_len (sl_control_points s) <= n)%nat | _ => True end.
Proof.
  unfold obj_seg_le. destruct (h_kind h) as [c|s|sp|hd]; try (split; [intros _; exact I|reflexivity]).
  apply Nat.leb_le.
Qed.

Lemma obj_seg_fits_spec E h :
  obj_seg_fits E h = true <->
  match h_kind h with
  | KSlider s =>
      0 <= E <= 22 /\ Z.of_nat (max_seg_len (sl_control_points s)) * 2 ^ E <= 2 ^ 22 /\
      Forall (fun p => Z.abs (f32_as_i32 (px (cp_pos p))) <= 2 ^ E /\
                       Z.abs (f32_as_i32 (py (cp_pos p))) <= 2 ^ E) (sl_control_points s)
  | _ => True
  end.
Proof.
  unfold obj_seg_fits. destruct (h_kind h) as [c|s|sp|hd]; try (split; [intros _; exact I|reflexivity]).
  unfold cps_seg_fit, cps_within. rewrite !andb_true_iff, forallb_forall, Forall_forall.
  unfold pos_within. split.
  - intros [[[A B] C] D]. split; [lia|]. split; [lia|]. intros p Hp. specialize (D p Hp).
    apply andb_true_iff in D. lia.
  - intros [A [B C]]. split; [split; [split; lia|lia]|]. intros p Hp. specialize (C p Hp).
    apply andb_true_iff. lia.
Qed.

Lemma obj_seg_fits_some_spec h : obj_seg_fits_some h = true <-> exists E, obj_seg_fits E h = true.
Proof.
  split.
  - unfold obj_seg_fits_some. intros H. apply existsb_exists in H. destruct H as (n & _ & H). eauto.
  - intros (E & H). destruct (h_kind h) as [c|s|sp|hd] eqn:Ek.
    1,3,4: (apply (obj_seg_fits_some_of 0); [lia|]; unfold obj_seg_fits; rewrite Ek; reflexivity).
    apply (obj_seg_fits_some_of E); [|exact H].
    apply obj_seg_fits_spec in H. rewrite Ek in H. tauto.
Qed.

(* InterpIEEEFrac: the "vertex hits through lengths[j] / dist" gap of C19, in
   IEEE arithmetic, for an interior vertex whose cumulative length is
   separated from its neighbours' by more than the rounding error.

   position_at (l_j / dist):  p = fl(l_j / dist) in [0, 1], so the clamp is the
   identity and the distance is  d = fl(p * dist);  then
       | d - l_j |  <=  Dfrac l_j dist = 2.001 * 2^-53 * l_j + 2^-1075 (2 dist + 1)
   (about one ulp of l_j).  On finite non-decreasing lengths the transcribed
   binary search at d returns an element numerically equal to d or the
   insertion point of d.  When  l_{j-1} + Dfrac < l_j < l_{j+1} - Dfrac  this
   is j (d <= l_j: the segment ending at vertex j) or j + 1 (d > l_j: the
   segment starting at vertex j), and the position interpolate_vertices
   computes is vertex j up to
       slope * Dfrac + E19
   per coordinate, slope = |c_j - c_{j-1}| / (l_j - l_{j-1}) resp. the next
   segment's (at most 1, up to rounding, when the lengths are the polyline's
   own). *)
From RM Require Import Model.ControlPoints Model.Curve Proofs.FloatFacts Proofs.PositionFacts
  Proofs.InterpExact Proofs.LengthBound Proofs.AdjustExact Proofs.PositionExact Proofs.AdjustIEEEBase Proofs.AdjustIEEE
  Proofs.PositionEndIEEE Proofs.InterpIEEE.
From Flocq Require Import Core BinarySingleNaN.
From Coq Require Import Reals Lra Psatz Lia.
Open Scope R_scope.

Local Notation fin x := (is_finite x = true).
Local Notation pw k := (bpow radix2 k).

(* ---------- comparisons with 0.0 and 1.0 ---------- *)

Lemma one64_fin_R : fin D.one /\ B2R D.one = 1.
Proof. destruct one64_is_one as (F & R & _). split; assumption. Qed.

Lemma in_unit_not_clamped (p : F64) : fin p -> 0 <= B2R p <= 1 ->
  D.lt p D.zero = false /\ D.gt p D.one = false.
Proof.
  intros Fp [H0 H1]. destruct one64_fin_R as (F1 & R1). unfold D.lt, flt, D.gt, fgt. split.
  - rewrite (Bltb_correct 53 1024 p D.zero Fp eq_refl). change (B2R D.zero) with 0. apply Rlt_bool_false. exact H0.
  - rewrite (Bltb_correct 53 1024 D.one p F1 Fp), R1. apply Rlt_bool_false. exact H1.
Qed.

(* ---------- the distance for the progress l_j / dist ---------- *)

Definition Dfrac (lj L : R) : R := 2.001 * u64 * lj + eta64 * (2 * L + 1).

Lemma RN64_le x y : x <= y -> RN64 x <= RN64 y.
Proof. apply round_le; [apply (fexp_correct 53 1024 Hp64)|apply valid_rnd_N]. Qed.
Lemma RN64_B2R (x : F64) : RN64 (B2R x) = B2R x.
Proof. apply round_generic; [apply valid_rnd_N|apply generic_format_B2R]. Qed.
Lemma RN64_0 : RN64 0 = 0.
Proof. apply round_0. apply valid_rnd_N. Qed.

Theorem vertex_fraction_distance (lens : list F64) (lj : F64) :
  let L := Curve.dist lens in
  fin lj -> fin L -> 0 < B2R lj <= B2R L -> B2R L <= pw 1023 ->
  let d := progress_to_dist lens (D.div lj L) in
  fin d /\ 0 <= B2R d <= B2R L /\ Rabs (B2R d - B2R lj) <= Dfrac (B2R lj) (B2R L).
Proof.
  intros L Flj FL [Hlj HljL] HL. cbv zeta.
  pose proof u64_pos as Vp. pose proof eta64_pos as E64.
  assert (HL0 : 0 < B2R L) by lra.
  (* p = fl(lj / L) in [0, 1] *)
  assert (Hq : 0 <= B2R lj / B2R L <= 1).
  { split; [apply Rmult_le_pos; [lra|left; apply Rinv_0_lt_compat; exact HL0]|].
    apply (Rmult_le_reg_r (B2R L)); [exact HL0|]. unfold Rdiv. rewrite Rmult_assoc, Rinv_l by lra. lra. }
  assert (Mq : Rabs (B2R lj / B2R L) <= pw 0) by (rewrite Rabs_pos_eq by lra; cbn; lra).
  destruct (D_div_spec lj L 0 Flj FL (Rgt_not_eq _ _ HL0) ltac:(zl) Mq) as (Fp & Mp & Rp).
  pose proof (Bdiv_correct 53 1024 Hp64 He64 mode_NE lj L (Rgt_not_eq _ _ HL0)) as C.
  rewrite (no_overflow 53 1024 Hp64 _ 0 ltac:(zl) Mq) in C. destruct C as (CR & _).
  change (Bdiv mode_NE lj L) with (D.div lj L) in CR.
  assert (Hp01 : 0 <= B2R (D.div lj L) <= 1).
  { rewrite CR. split; [rewrite <- RN64_0; apply RN64_le; lra|].
    destruct one64_fin_R as (_ & R1). rewrite <- R1, <- (RN64_B2R D.one), R1. apply RN64_le. lra. }
  destruct (in_unit_not_clamped _ Fp Hp01) as (C0 & C1).
  rewrite (progress_to_dist_inside lens _ C0 C1). fold L.
  (* d = fl(p * L) *)
  assert (MpL : Rabs (B2R (D.div lj L) * B2R L) <= pw 1023).
  { rewrite Rabs_pos_eq by (apply Rmult_le_pos; lra). apply Rle_trans with (1 * B2R L); [|lra].
    apply Rmult_le_compat_r; lra. }
  destruct (D_mul_spec (D.div lj L) L 1023 Fp FL ltac:(zl) MpL) as (Fd & Md & Rd).
  split; [exact Fd|].
  pose proof (Bmult_correct 53 1024 Hp64 He64 mode_NE (D.div lj L) L) as C.
  rewrite (no_overflow 53 1024 Hp64 _ 1023 ltac:(zl) MpL) in C. destruct C as (CRm & _).
  change (Bmult mode_NE (D.div lj L) L) with (D.mul (D.div lj L) L) in CRm.
  split.
  - rewrite CRm. split; [rewrite <- RN64_0; apply RN64_le; apply Rmult_le_pos; lra|].
    rewrite <- (RN64_B2R L) at 2. apply RN64_le. apply Rle_trans with (1 * B2R L); [|lra].
    apply Rmult_le_compat_r; lra.
  - assert (ML : Rabs (B2R L) <= B2R L) by (rewrite Rabs_pos_eq; lra).
    assert (M1 : Rabs (B2R lj / B2R L) <= 1) by (rewrite Rabs_pos_eq; lra).
    pose proof (rela_round _ _ _ _ _ _ _ (rela_mul _ _ _ _ _ _ _ _ 1 (B2R L) Rp (rel_rela _ _ _ (rel_refl (B2R L))) M1 ML) Rd) as A.
    replace (B2R lj / B2R L * B2R L) with (B2R lj) in A by (field; lra).
    pose proof (rela_abs_err _ _ _ _ A) as E. rewrite (Rabs_pos_eq (B2R lj)) in E by lra.
    unfold Dfrac. unfold u64 in *.
    assert (E1 : eta64 * B2R L <= eta64 * B2R L) by lra.
    assert (Q : 0 <= eta64 * B2R L) by (apply Rmult_le_pos; lra).
    nra.
Qed.

(* ---------- the search on finite non-decreasing lengths ---------- *)

Definition sorted_fin (lens : list F64) : Prop :=
  Forall (fun v => fin v) lens /\
  forall a b x y, (a <= b)%nat -> nth_error lens a = Some x -> nth_error lens b = Some y -> B2R x <= B2R y.

Lemma idx_of_dist_contract_ieee (lens : list F64) (d : F64) : sorted_fin lens -> fin d ->
  let i := idx_of_dist lens d in
  (exists x, nth_error lens i = Some x /\ B2R x = B2R d) \/
  ((forall k x, (k < i)%nat -> nth_error lens k = Some x -> B2R x < B2R d) /\
   (forall k x, (i <= k)%nat -> nth_error lens k = Some x -> B2R d < B2R x)).
Proof.
  intros (AF & Le) Fd. cbv zeta. rewrite Forall_forall in AF.
  assert (Fn : forall i x, nth_error lens i = Some x -> fin x) by (intros i x H; apply AF; eapply nth_error_In; eauto).
  pose proof (bsearch_by_contract (cmp_or_equal d) lens) as C.
  assert (M1 : forall i j x y, (i <= j)%nat -> nth_error lens i = Some x -> nth_error lens j = Some y ->
               cmp_or_equal d x = Gt -> cmp_or_equal d y = Gt).
  { intros i j x y Hij Hx Hy Hg. pose proof (Le i j x y Hij Hx Hy).
    apply (cmp_finite d x Fd (Fn _ _ Hx)) in Hg. apply (cmp_finite d y Fd (Fn _ _ Hy)). lra. }
  assert (M2 : forall i j x y, (i <= j)%nat -> nth_error lens i = Some x -> nth_error lens j = Some y ->
               cmp_or_equal d y = Lt -> cmp_or_equal d x = Lt).
  { intros i j x y Hij Hx Hy Hg. pose proof (Le i j x y Hij Hx Hy).
    apply (cmp_finite d y Fd (Fn _ _ Hy)) in Hg. apply (cmp_finite d x Fd (Fn _ _ Hx)). lra. }
  specialize (C M1 M2). unfold idx_of_dist.
  destruct (bsearch_by (cmp_or_equal d) lens) as [i|i].
  - left. destruct C as (x & Hx & He). exists x. split; [exact Hx|].
    apply (cmp_finite d x Fd (Fn _ _ Hx)). exact He.
  - right. destruct C as (_ & Hlo & Hhi). split.
    + intros k x Hk Hx. apply (cmp_finite d x Fd (Fn _ _ Hx)). exact (Hlo k x Hk Hx).
    + intros k x Hk Hx. apply (cmp_finite d x Fd (Fn _ _ Hx)). exact (Hhi k x Hk Hx).
Qed.

(* a distance strictly between l_{j-1} and l_{j+1}: the search returns j or j + 1 *)
Lemma idx_between (lens : list F64) (d l0 l1 l2 : F64) j :
  sorted_fin lens -> fin d ->
  nth_error lens j = Some l0 -> nth_error lens (S j) = Some l1 -> nth_error lens (S (S j)) = Some l2 ->
  B2R l0 < B2R d < B2R l2 ->
  (idx_of_dist lens d = S j /\ B2R d <= B2R l1) \/ (idx_of_dist lens d = S (S j) /\ B2R l1 < B2R d).
Proof.
  intros Hs Fd H0 H1 H2 [Hlo Hhi]. pose proof (idx_of_dist_contract_ieee lens d Hs Fd) as C. cbv zeta in C.
  destruct Hs as (_ & Le). set (i := idx_of_dist lens d) in *.
  destruct C as [(x & Hx & Ex)|(Hb & Ha)].
  - (* an element equal to d: it can only be l_j *)
    left. assert (Hi : i = S j).
    { destruct (Nat.lt_trichotomy i (S j)) as [Hlt|[He|Hgt]]; [|exact He|]; exfalso.
      - pose proof (Le i j x l0 ltac:(lia) Hx H0). lra.
      - pose proof (Le (S (S j)) i l2 x ltac:(lia) H2 Hx). lra. }
    split; [exact Hi|]. rewrite Hi, H1 in Hx. injection Hx as <-. lra.
  - assert (Hi1 : (j < i)%nat).
    { destruct (Nat.lt_ge_cases j i) as [H|H]; [exact H|]. pose proof (Ha j l0 H H0). lra. }
    assert (Hi2 : (i <= S (S j))%nat).
    { destruct (Nat.lt_ge_cases (S (S j)) i) as [H|H]; [|exact H]. pose proof (Hb (S (S j)) l2 H H2). lra. }
    destruct (Nat.eq_dec i (S j)) as [E|NE].
    + left. split; [exact E|]. pose proof (Ha (S j) l1 ltac:(lia) H1). lra.
    + right. assert (E : i = S (S j)) by lia. split; [exact E|]. apply (Hb (S j) l1); [lia|exact H1].
Qed.

(* ---------- the position at progress l_j / dist ---------- *)

(* per coordinate: slope * Dfrac + E19 on the segment before resp. after vertex j *)
Definition Efrac (c0 c1 c2 l0 l1 l2 L : R) : R :=
  Rmax (Rabs (c1 - c0) / (l1 - l0) * Dfrac l1 L + E19 c0 c1)
       (Rabs (c2 - c1) / (l2 - l1) * Dfrac l1 L + E19 c1 c2).

Definition frac_hyps (p0 p1 p2 : Pos) (l0 l1 l2 L : F64) : Prop :=
  bnd32 (px p0) 20 /\ bnd32 (py p0) 20 /\ bnd32 (px p1) 20 /\ bnd32 (py p1) 20 /\
  bnd32 (px p2) 20 /\ bnd32 (py p2) 20 /\
  fin L /\ B2R L <= pw 1023 /\ 0 <= B2R l0 /\ B2R l2 <= B2R L /\
  (* the two segments are outside the near-zero guard and wider than the rounding error of the distance *)
  pw (-51) <= B2R l1 - B2R l0 /\ pw (-51) <= B2R l2 - B2R l1 /\
  Dfrac (B2R l1) (B2R L) < B2R l1 - B2R l0 /\ Dfrac (B2R l1) (B2R L) < B2R l2 - B2R l1.

Lemma slope_bound c0 c1 d0 d1 a b : d0 < d1 ->
  Rabs (interp_R c0 c1 d0 d1 a - interp_R c0 c1 d0 d1 b) = Rabs (c1 - c0) / (d1 - d0) * Rabs (a - b).
Proof.
  intros H. rewrite (interp_R_affine c0 c1 d0 d1 a b) by (apply Rgt_not_eq; lra).
  unfold Rdiv. rewrite !Rabs_mult, (Rabs_pos_eq (/ (d1 - d0))) by (left; apply Rinv_0_lt_compat; lra). ring.
Qed.

Theorem vertex_fraction_position_partial (path : list Pos) (lens : list F64) j p0 p1 p2 l0 l1 l2 :
  let L := Curve.dist lens in
  nth_error path j = Some p0 -> nth_error path (S j) = Some p1 -> nth_error path (S (S j)) = Some p2 ->
  nth_error lens j = Some l0 -> nth_error lens (S j) = Some l1 -> nth_error lens (S (S j)) = Some l2 ->
  sorted_fin lens -> frac_hyps p0 p1 p2 l0 l1 l2 L ->
  exists q, position_at path lens (D.div l1 L) = Done q /\
    Rabs (B2R (px q) - B2R (px p1))
      <= Efrac (B2R (px p0)) (B2R (px p1)) (B2R (px p2)) (B2R l0) (B2R l1) (B2R l2) (B2R L) /\
    Rabs (B2R (py q) - B2R (py p1))
      <= Efrac (B2R (py p0)) (B2R (py p1)) (B2R (py p2)) (B2R l0) (B2R l1) (B2R l2) (B2R L).
Proof.
  intros L P0 P1 P2 L0 L1 L2 Hs (Bx0 & By0 & Bx1 & By1 & Bx2 & By2 & FL & HL & H0 & H2L & G1 & G2 & S1 & S2).
  pose proof Hs as (AF & Le). rewrite Forall_forall in AF.
  assert (F0 : fin l0) by (apply AF; eapply nth_error_In; eauto).
  assert (F1 : fin l1) by (apply AF; eapply nth_error_In; eauto).
  assert (F2 : fin l2) by (apply AF; eapply nth_error_In; eauto).
  pose proof (bpow_gt_0 radix2 (-51)) as P51.
  destruct (vertex_fraction_distance lens l1 F1 FL ltac:(fold L; lra) HL) as (Fd & (Hd0 & HdL) & Ed).
  fold L in Fd, Hd0, HdL, Ed. unfold position_at.
  set (d := progress_to_dist lens (D.div l1 L)) in *.
  apply Rabs_le_inv in Ed.
  set (df := Dfrac (B2R l1) (B2R L)) in *.
  assert (Hdf : 0 <= df) by lra.
  destruct (idx_between lens d l0 l1 l2 j Hs Fd L0 L1 L2 ltac:(lra)) as [(Ei & Hle)|(Ei & Hgt)]; rewrite Ei.
  - (* the segment [vertex j, vertex j+1] of the theorem's numbering: p0 -> p1 *)
    assert (HH : interp_hyps p0 p1 l0 l1 d).
    { repeat (split; [assumption|]). split; [lra|]. apply guard_false_of_gap; try assumption. }
    destruct (interpolation_ieee_bound path lens j d p0 p1 l0 l1 P0 P1 L0 L1 HH) as (q & Hq & _ & _ & Ex & Ey).
    exists q. split; [exact Hq|].
    assert (K : forall c0 c1 c2 (qc : R),
              Rabs (qc - interp_R c0 c1 (B2R l0) (B2R l1) (B2R d)) <= E19 c0 c1 ->
              Rabs (qc - c1) <= Efrac c0 c1 c2 (B2R l0) (B2R l1) (B2R l2) (B2R L)).
    { intros c0 c1 c2 qc E. unfold Efrac. eapply Rle_trans; [|apply Rmax_l].
      pose proof (slope_bound c0 c1 (B2R l0) (B2R l1) (B2R d) (B2R l1) ltac:(lra)) as SB.
      rewrite interp_R_at_d1 in SB by (apply Rgt_not_eq; lra).
      replace (qc - c1) with ((qc - interp_R c0 c1 (B2R l0) (B2R l1) (B2R d)) + (interp_R c0 c1 (B2R l0) (B2R l1) (B2R d) - c1)) by ring.
      eapply Rle_trans; [apply Rabs_triang|]. rewrite SB.
      assert (Hs0 : 0 <= Rabs (c1 - c0) / (B2R l1 - B2R l0)).
      { apply Rmult_le_pos; [apply Rabs_pos|left; apply Rinv_0_lt_compat; lra]. }
      assert (Rabs (B2R d - B2R l1) <= df) by (apply Rabs_le; lra).
      assert (Rabs (c1 - c0) / (B2R l1 - B2R l0) * Rabs (B2R d - B2R l1) <= Rabs (c1 - c0) / (B2R l1 - B2R l0) * df)
        by (apply Rmult_le_compat_l; assumption).
      fold df. lra. }
    split; [exact (K _ _ _ _ Ex)|exact (K _ _ _ _ Ey)].
  - (* the next segment: p1 -> p2 *)
    assert (HH : interp_hyps p1 p2 l1 l2 d).
    { repeat (split; [assumption|]). split; [lra|]. split; [lra|]. apply guard_false_of_gap; try assumption; lra. }
    destruct (interpolation_ieee_bound path lens (S j) d p1 p2 l1 l2 P1 P2 L1 L2 HH) as (q & Hq & _ & _ & Ex & Ey).
    exists q. split; [exact Hq|].
    assert (K : forall c0 c1 c2 (qc : R),
              Rabs (qc - interp_R c1 c2 (B2R l1) (B2R l2) (B2R d)) <= E19 c1 c2 ->
              Rabs (qc - c1) <= Efrac c0 c1 c2 (B2R l0) (B2R l1) (B2R l2) (B2R L)).
    { intros c0 c1 c2 qc E. unfold Efrac. eapply Rle_trans; [|apply Rmax_r].
      pose proof (slope_bound c1 c2 (B2R l1) (B2R l2) (B2R d) (B2R l1) ltac:(lra)) as SB.
      rewrite interp_R_at_d0 in SB by (apply Rgt_not_eq; lra).
      replace (qc - c1) with ((qc - interp_R c1 c2 (B2R l1) (B2R l2) (B2R d)) + (interp_R c1 c2 (B2R l1) (B2R l2) (B2R d) - c1)) by ring.
      eapply Rle_trans; [apply Rabs_triang|]. rewrite SB.
      assert (Hs0 : 0 <= Rabs (c2 - c1) / (B2R l2 - B2R l1)).
      { apply Rmult_le_pos; [apply Rabs_pos|left; apply Rinv_0_lt_compat; lra]. }
      assert (Rabs (B2R d - B2R l1) <= df) by (apply Rabs_le; lra).
      assert (Rabs (c2 - c1) / (B2R l2 - B2R l1) * Rabs (B2R d - B2R l1) <= Rabs (c2 - c1) / (B2R l2 - B2R l1) * df)
        by (apply Rmult_le_compat_l; assumption).
      fold df. lra. }
    split; [exact (K _ _ _ _ Ex)|exact (K _ _ _ _ Ey)].
Qed.

(* EncodeCompletes: C01 layer 4, "re-encoding completes", closed for decoded
   maps.  The tick distance the encoder derives for a slider of a decoded map
   is +inf (ticks switched off by a NaN inherited line) or a finite binary64
   value >= 2^-25:
     - every timing point / difficulty point / difficulty setting of a decoded
       map is inside its clamp, and slider.velocity is the closed form over the
       same lookups the encoder repeats (Proofs/DecodedValues.v);
     - the closed form, pushed through binary64 multiplication and division
       between powers of two, stays >= 2^-25 (Proofs/TickDistBound.v; the true
       minimum is 0.5, reached by a decoded map).
   With Proofs/TickBound.v (at most 100000 * 2^k ticks per span) and
   Proofs/EncodeTotal.v: for every decoded map and any fuel above
   3 + 9000 * (100000 * 2^25 + 1) the encoder model never returns OutOfFuel;
   outside the negative-distance class it returns its token stream. *)
From RM Require Import Model.Encode Model.CurveDist.
From RM Require Model.DrvEnc Model.Curve Model.SliderEvents.
From RM Require Import Proofs.ControlPointsFacts Proofs.TimingPointsValues Proofs.DecodedValues
     Proofs.TickDistBound Proofs.DecodedObjects Proofs.EncodeTotal.
From RM Require Import Gen.Generated.
From Coq Require Import ZifyBool.
Open Scope Z_scope.

Lemma last_not_after_In {P} (time : P -> F64) l t p : last_not_after time l t = Some p -> In p l.
Proof.
  unfold last_not_after. intros H. apply last_opt_In in H. apply filter_In in H. exact (proj1 H).
Qed.

Lemma timing_point_at_In c t p : timing_point_at c t = Some p -> In p (cp_timing c).
Proof.
  unfold timing_point_at, at_first. destruct (search tp_time (cp_timing c) t) as [i|i]; apply nth_error_In.
Qed.

Section Decoded.
  Variable lm : Curve.Libm.

  (* the tick distance of every slider of a decoded map *)
  Theorem decoded_ticks_ok lines bv :
    decode_beatmap (dist_of_curve lm) lines = Done bv ->
    Forall (slider_ticks_ok lm K bv) (hov_hit_objects (bmv_ho bv)).
  Proof.
    intros H.
    destruct (decoded_values (dist_of_curve lm) lines bv H) as (Gt & Gd & Hsm & Htr & Hvel).
    cbv zeta in Gt, Gd, Hsm, Htr, Hvel.
    rewrite Forall_forall in Gt, Gd, Hvel. apply Forall_forall. intros h Hin.
    specialize (Hvel h Hin). unfold slider_ticks_ok.
    destruct (h_kind h) as [ci|s|sp|hd]; try exact I.
    intros d _.
    set (c := hov_control_points (bmv_ho bv)) in *.
    (* the two lookups, inside their clamps *)
    assert (Hbl : in_range bl_lo bl_hi
                    (match timing_point_at c (h_start h) with Some p => tp_beat_len p | None => default_beat_len end)).
    { destruct (timing_point_at c (h_start h)) as [p|] eqn:E; [|exact default_beat_len_in_range].
      exact (proj1 (Gt p (timing_point_at_In c _ p E))). }
    assert (Hsv : in_range sv_lo sv_hi
                    (match last_not_after dp_time (cp_difficulty c) (h_start h) with
                     | Some p => dp_sv p | None => D.one end)).
    { destruct (last_not_after dp_time (cp_difficulty c) (h_start h)) as [p|] eqn:E; [|exact one_in_sv_range].
      exact (proj1 (Gd p (last_not_after_In dp_time _ _ p E))). }
    split; intros Hm.
    - apply tick_dist_ge_of_lower. unfold osu_tick_dist. fold c.
      destruct (match last_not_after dp_time (cp_difficulty c) (h_start h) with
                | Some p => dp_ticks p | None => true end); [|left; reflexivity].
      right. rewrite Hvel.
      destruct (osu_tick_dist_lower _ _ _ _ (g_mode (hov_general (bmv_ho bv))) (bmv_version bv)
                  Hsm Hsv Hbl Htr) as (F & R & _).
      split; assumption.
    - apply tick_dist_ge_of_lower. unfold catch_tick_dist. fold c. right.
      destruct (catch_tick_dist_lower _ _ _ (bmv_version bv) Hsm Hsv Htr) as (F & R).
      split; assumption.
  Qed.

  Definition tick_fuel_bound : Z := 100000 * 2 ^ K + 1.
  Definition event_fuel_bound : Z := 3 + repeat_cap * (100000 * 2 ^ K + 1).

  (* NEVER OUT OF FUEL, for every decoded map and every fuel above the bound *)
  Theorem encode_never_out_of_fuel chk fuel tf lines bv :
    decode_beatmap (dist_of_curve lm) lines = Done bv ->
    tick_fuel_bound < Z.of_nat tf -> event_fuel_bound < Z.of_nat fuel ->
    encode_tokens (DrvEnc.dist_real lm) (events_with chk fuel tf) bv <> OutOfFuel.
  Proof.
    intros H Htf Hfuel.
    apply (encode_no_fuel lm chk fuel tf lines bv K H); [unfold K; lia|exact (decoded_ticks_ok lines bv H)| |];
      assumption.
  Qed.

  (* RE-ENCODING COMPLETES outside the negative-distance class *)
  Theorem encode_completes_decoded chk fuel tf lines bv :
    decode_beatmap (dist_of_curve lm) lines = Done bv -> neg_dist_class lm bv = false ->
    tick_fuel_bound < Z.of_nat tf -> event_fuel_bound < Z.of_nat fuel ->
    exists toks, encode_tokens (DrvEnc.dist_real lm) (events_with chk fuel tf) bv = Done toks.
  Proof.
    intros H Hn Htf Hfuel.
    apply (encode_completes lm chk fuel tf lines bv K H Hn); [unfold K; lia|exact (decoded_ticks_ok lines bv H)| |];
      assumption.
  Qed.

  (* every outcome of the encoder on a decoded map, with enough fuel: the token
     stream, or the D18 panic of a concrete slider with a negative distance *)
  Corollary encode_outcomes chk fuel tf lines bv :
    decode_beatmap (dist_of_curve lm) lines = Done bv ->
    tick_fuel_bound < Z.of_nat tf -> event_fuel_bound < Z.of_nat fuel ->
    (exists toks, encode_tokens (DrvEnc.dist_real lm) (events_with chk fuel tf) bv = Done toks) \/
    (neg_dist_class lm bv = true /\
     exists w, encode_tokens (DrvEnc.dist_real lm) (events_with chk fuel tf) bv = Panic w).
  Proof.
    intros H Htf Hfuel. destruct (neg_dist_class lm bv) eqn:C.
    - pose proof (encode_never_out_of_fuel chk fuel tf lines bv H Htf Hfuel) as Nf.
      destruct (encode_tokens (DrvEnc.dist_real lm) (events_with chk fuel tf) bv) as [toks|w|];
        [left; eauto|right; split; [reflexivity|eauto]|contradiction].
    - left. exact (encode_completes_decoded chk fuel tf lines bv H C Htf Hfuel).
  Qed.
End Decoded.

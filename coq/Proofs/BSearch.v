(* BSearch: the transcribed std binary search meets the documented contract
   on strictly sorted input. *)
From RM Require Import Model.ControlPoints.
From Coq Require Import Sorting.Sorted.
Require Import ZifyBool.
Open Scope Z_scope.

(* ---- transfer to key lists ---- *)

Lemma bs_loop_map {P Q} (h : P -> Q) (g : Q -> comparison) fuel :
  forall (l : list P) base size,
    bs_loop fuel (fun p => g (h p)) l base size = bs_loop fuel g (map h l) base size.
Proof.
  induction fuel as [|k IH]; intros l base size; cbn [bs_loop]; [reflexivity|].
  destruct (Nat.leb size 1); [reflexivity|].
  rewrite nth_error_map.
  destruct (nth_error l (base + Nat.div size 2)) as [p|]; cbn [option_map]; apply IH.
Qed.

Lemma bsearch_by_map {P Q} (h : P -> Q) (g : Q -> comparison) (l : list P) :
  bsearch_by (fun p => g (h p)) l = bsearch_by g (map h l).
Proof.
  unfold bsearch_by. destruct l as [|x l]; [reflexivity|].
  cbn [map]. rewrite <- (map_cons h x l).
  rewrite bs_loop_map, map_length, nth_error_map.
  destruct (nth_error (x :: l) _); reflexivity.
Qed.

(* ---- index-based reasoning on key lists ---- *)

Definition kth (ks : list Z) (i : nat) : Z := nth i ks 0.

Definition ksorted (ks : list Z) : Prop :=
  forall i j, (i < j)%nat -> (j < length ks)%nat -> kth ks i < kth ks j.

Lemma ksorted_le ks i j : ksorted ks -> (i <= j)%nat -> (j < length ks)%nat -> kth ks i <= kth ks j.
Proof.
  intros Hs Hij Hj. destruct (Nat.eq_dec i j) as [->|Hne]; [lia|].
  specialize (Hs i j). lia.
Qed.

Lemma nth_error_kth ks i : (i < length ks)%nat -> nth_error ks i = Some (kth ks i).
Proof. intros H. unfold kth. apply nth_error_nth'. exact H. Qed.

Lemma bsearch_by_nonempty {P} (f : P -> comparison) (l : list P) :
  l <> [] ->
  bsearch_by f l =
  let base := bs_loop (length l) f l O (length l) in
  match nth_error l base with
  | Some p => match f p with Eq => inl base | Lt => inr (S base) | Gt => inr base end
  | None => inr base
  end.
Proof. destruct l; [congruence|reflexivity]. Qed.

Section Loop.
  Variables (ks : list Z) (t : Z).
  Hypothesis Hs : ksorted ks.
  Let n := length ks.
  Let f := fun k : Z => Z.compare k t.

  Lemma bs_loop_inv fuel : forall base size,
    (1 <= size)%nat -> (base + size <= n)%nat -> (size <= S fuel)%nat ->
    (base = O \/ kth ks base <= t) ->
    (forall j, (base + size <= j)%nat -> (j < n)%nat -> t < kth ks j) ->
    let b := bs_loop fuel f ks base size in
    (b < n)%nat /\ (b = O \/ kth ks b <= t) /\
    (forall j, (S b <= j)%nat -> (j < n)%nat -> t < kth ks j).
  Proof.
    induction fuel as [|k IH]; intros base size H1 Hb Hf Hlo Hhi; cbn [bs_loop].
    - assert (size = 1%nat) by lia. subst size.
      split; [lia|]. split; [exact Hlo|]. intros j Hj1 Hj2. apply Hhi; lia.
    - destruct (Nat.leb size 1) eqn:E.
      + apply Nat.leb_le in E. assert (size = 1%nat) by lia. subst size.
        split; [lia|]. split; [exact Hlo|]. intros j Hj1 Hj2. apply Hhi; lia.
      + apply Nat.leb_gt in E.
        set (half := Nat.div size 2).
        assert (Hh : (1 <= half)%nat /\ (2 * half <= size)%nat /\ (size < 2 * half + 2)%nat).
        { unfold half. pose proof (Nat.div_mod size 2 ltac:(lia)).
          pose proof (Nat.mod_upper_bound size 2 ltac:(lia)).
          repeat split; try lia. }
        destruct Hh as (Hh1 & Hh2 & Hh3).
        assert (Hmid : (base + half < n)%nat) by lia.
        rewrite (nth_error_kth ks (base + half) Hmid).
        change (f (kth ks (base + half))) with (kth ks (base + half) ?= t).
        destruct (Z.compare_spec (kth ks (base + half)) t) as [Heq|Hlt|Hgt]; cbv beta iota.
        * apply IH; try lia. intros j Hj1 Hj2. apply Hhi; lia.
        * apply IH; try lia. intros j Hj1 Hj2. apply Hhi; lia.
        * apply IH; try lia.
          intros j Hj1 Hj2.
          pose proof (ksorted_le ks (base + half) j Hs ltac:(lia) Hj2). lia.
  Qed.

  (* the contract, index form *)
  Lemma bsearch_index_spec :
    match bsearch_by f ks with
    | inl i => (i < n)%nat /\ kth ks i = t
    | inr i => (i <= n)%nat /\
               (forall j, (j < i)%nat -> kth ks j < t) /\
               (forall j, (i <= j)%nat -> (j < n)%nat -> t < kth ks j)
    end.
  Proof.
    destruct (Nat.eq_dec n O) as [Hz|Hnz].
    - assert (Hnil : ks = []) by (apply length_zero_iff_nil; exact Hz).
      rewrite Hnil. cbn. split; [lia|]. split; intros; lia.
    - assert (Hne : ks <> []) by (intros E; apply Hnz; unfold n; rewrite E; reflexivity).
      rewrite (bsearch_by_nonempty f ks Hne). cbv zeta. fold n.
      assert (Hn : (1 <= n)%nat) by lia.
      pose proof (bs_loop_inv (length ks) O (length ks)) as H.
      cbn zeta in H. fold n in H.
      specialize (H Hn ltac:(lia) ltac:(unfold n; lia) (or_introl eq_refl)).
      specialize (H ltac:(intros; lia)).
      set (b := bs_loop n f ks O n) in *.
      destruct H as (Hb & Hlo & Hhi).
      rewrite (nth_error_kth ks b Hb). change (f (kth ks b)) with (kth ks b ?= t).
      destruct (Z.compare_spec (kth ks b) t) as [Heq|Hlt|Hgt].
      + split; assumption.
      + split; [lia|]. split.
        * intros j Hj. pose proof (ksorted_le ks j b Hs ltac:(lia) Hb). lia.
        * intros j Hj1 Hj2. apply Hhi; lia.
      + assert (b = O) by (destruct Hlo; lia). split; [lia|]. split.
        * intros j Hj. lia.
        * intros j Hj1 Hj2. destruct (Nat.eq_dec j b) as [->|Hne2]; [lia|]. apply Hhi; lia.
  Qed.
End Loop.

(* ---- from StronglySorted to the index form and to splits ---- *)

Lemma ksorted_cons k ks : ksorted (k :: ks) -> ksorted ks /\ Forall (fun x => k < x) ks.
Proof.
  intros H. split.
  - intros i j Hij Hj. specialize (H (S i) (S j)). cbn in H. apply H; lia.
  - apply Forall_forall. intros x Hx. apply (In_nth _ _ 0) in Hx. destruct Hx as (m & Hm & <-).
    specialize (H O (S m)). cbn in H. apply H; lia.
Qed.

Lemma ksorted_of_SS ks : StronglySorted Z.lt ks -> ksorted ks.
Proof.
  induction 1 as [|k ks HSS IH HF]; intros i j Hij Hj; [cbn in Hj; lia|].
  destruct j as [|j]; [lia|]. destruct i as [|i]; cbn.
  - rewrite Forall_forall in HF. apply HF. apply nth_In. cbn in Hj. lia.
  - apply IH; cbn in Hj; lia.
Qed.

Lemma SS_of_ksorted ks : ksorted ks -> StronglySorted Z.lt ks.
Proof.
  induction ks as [|k ks IH]; intros H; constructor.
  - apply IH. apply (ksorted_cons k ks H).
  - apply (ksorted_cons k ks H).
Qed.

Lemma Forall_firstn_kth (Q : Z -> Prop) ks i :
  (i <= length ks)%nat -> (forall j, (j < i)%nat -> Q (kth ks j)) -> Forall Q (firstn i ks).
Proof.
  revert i. induction ks as [|k ks IH]; intros i Hi H.
  - rewrite firstn_nil. constructor.
  - destruct i as [|i]; cbn; constructor.
    + apply (H O). lia.
    + apply IH; [cbn in Hi; lia|]. intros j Hj. apply (H (S j)). lia.
Qed.

Lemma Forall_skipn_kth (Q : Z -> Prop) ks i :
  (forall j, (i <= j)%nat -> (j < length ks)%nat -> Q (kth ks j)) -> Forall Q (skipn i ks).
Proof.
  revert i. induction ks as [|k ks IH]; intros i H.
  - rewrite skipn_nil. constructor.
  - destruct i as [|i]; cbn [skipn].
    + constructor.
      * apply (H O); cbn; lia.
      * apply (IH O). intros j Hj1 Hj2. apply (H (S j)); cbn; lia.
    + apply IH. intros j Hj1 Hj2. apply (H (S j)); cbn; lia.
Qed.

(* TPKeyOrder: the total_cmp key of Model/Floats.v against the numeric
   order.  For non-NaN values, key a < key b implies a < b numerically,
   except for the one pair (-0.0, +0.0) (known finding D8). *)
From RM Require Import Model.Floats.
From Flocq Require Import Core BinarySingleNaN.
From Coq Require Import Sorting.Sorted.
Require Import ZifyBool.
Open Scope Z_scope.

Definition P52 : Z := 4503599627370496.
Lemma P52_eq : 2 ^ 52 = P52. Proof. reflexivity. Qed.

(* what [bounded] says about a binary64 mantissa / exponent pair *)
Lemma bounded_facts m e :
  SpecFloat.bounded 53 1024 m e = true ->
  Zpos m < 2 * P52 /\ -1074 <= e <= 971 /\ (-1074 < e -> P52 <= Zpos m).
Proof.
  unfold SpecFloat.bounded, SpecFloat.canonical_mantissa, SpecFloat.fexp, SpecFloat.emin.
  intros H. apply andb_prop in H. destruct H as (H1 & H2).
  apply Zeq_bool_eq in H1. apply Zle_bool_imp_le in H2.
  rewrite Digits.Zpos_digits2_pos in H1.
  pose proof (Digits.Zdigits_correct radix2 (Zpos m)) as (Hlo & Hhi).
  set (d := Digits.Zdigits radix2 (Zpos m)) in *.
  rewrite Z.abs_eq in Hlo, Hhi by lia.
  change (Zpower radix2) with (Z.pow 2) in *.
  clearbody d.
  assert (Hd : d <= 53) by (clear - H1; lia).
  assert (Hd0 : 0 < d).
  { destruct (Z_lt_le_dec 0 d) as [|Hn]; [assumption|]. exfalso.
    destruct (Z.eq_dec d 0) as [->|Hne].
    - cbn in Hhi. lia.
    - rewrite Z.pow_neg_r in Hhi by lia. lia. }
  repeat split; try lia.
  - assert (2 ^ d <= 2 ^ 53) by (apply Z.pow_le_mono_r; lia).
    change (2 ^ 53) with (2 * P52) in H. lia.
  - intros He. assert (Hd53 : d = 53) by lia. rewrite Hd53 in Hlo. exact Hlo.
Qed.

(* the bit pattern without the sign *)
Definition mag (x : F64) : Z :=
  match x with
  | B754_zero _ => 0
  | B754_infinity _ => 2047 * P52
  | B754_nan => 2047 * P52 + P52 / 2
  | B754_finite _ m e _ => (e + 1074) * P52 + Zpos m
  end.

Lemma mag_range x : is_nan x = false -> 0 <= mag x < 2048 * P52.
Proof.
  destruct x as [s|s| |s m e H]; cbn [mag is_nan]; intros Hn; try discriminate; unfold P52; try lia.
  destruct (bounded_facts m e H) as (H1 & H2 & _). unfold P52 in *. lia.
Qed.

Lemma bits_mag x : D.bits x = (if Bsign x then 2048 * P52 else 0) + mag x.
Proof.
  unfold D.bits, bits_of, mant_bits, emin_.
  change (2 ^ (53 - 1 + (Z.log2 1024 + 1))) with (2048 * P52).
  change (2 ^ (53 - 1)) with P52. change (2 ^ (53 - 1 - 1)) with (P52 / 2).
  change (2 * 1024 - 1) with 2047. change (3 - 1024 - 53) with (-1074).
  destruct x as [s|s| |s m e H]; cbn [Bsign mag]; try (destruct s; reflexivity); try reflexivity.
  destruct (bounded_facts m e H) as (H1 & H2 & H3).
  destruct (Z.pos m <? P52) eqn:E.
  - assert (e = -1074) by lia. subst e. destruct s; unfold P52 in *; lia.
  - destruct s; unfold P52 in *; lia.
Qed.

Lemma key_mag x : is_nan x = false -> D.key x = if Bsign x then -1 - mag x else mag x.
Proof.
  intros Hn. unfold D.key. rewrite bits_mag. pose proof (mag_range x Hn) as Hr.
  change (2 ^ 63) with (2048 * P52). unfold P52 in *.
  destruct (Bsign x); cbv zeta.
  - destruct (_ <? _) eqn:E; lia.
  - destruct (_ <? _) eqn:E; lia.
Qed.

(* order of magnitudes = lexicographic order on (exponent, mantissa) *)
Lemma mag_lex m1 e1 m2 e2 :
  SpecFloat.bounded 53 1024 m1 e1 = true -> SpecFloat.bounded 53 1024 m2 e2 = true ->
  (e1 + 1074) * P52 + Zpos m1 < (e2 + 1074) * P52 + Zpos m2 ->
  (e1 ?= e2) = Lt \/ ((e1 ?= e2) = Eq /\ Pos.compare_cont Eq m1 m2 = Lt).
Proof.
  intros B1 B2 H.
  destruct (bounded_facts m1 e1 B1) as (H11 & H12 & H13).
  destruct (bounded_facts m2 e2 B2) as (H21 & H22 & H23).
  unfold P52 in *.
  destruct (Z.compare_spec e1 e2) as [->|Hlt|Hgt].
  - right. split; [reflexivity|]. change (Pos.compare_cont Eq m1 m2) with (Pos.compare m1 m2).
    apply Pos.compare_lt_iff. lia.
  - left. reflexivity.
  - exfalso. lia.
Qed.

(* key order implies numeric order, except for -0.0 before +0.0 *)
Lemma key_lt_num (a b : F64) :
  is_nan a = false -> is_nan b = false -> D.key a < D.key b ->
  D.lt a b = true \/ (a = B754_zero true /\ b = B754_zero false).
Proof.
  intros Ha Hb. rewrite (key_mag a Ha), (key_mag b Hb).
  pose proof (mag_range a Ha) as Ra. pose proof (mag_range b Hb) as Rb.
  unfold D.lt, flt, Bltb, SpecFloat.SFltb.
  destruct a as [sa|sa| |sa ma ea Ba]; try discriminate Ha;
  destruct b as [sb|sb| |sb mb eb Bb]; try discriminate Hb;
  cbn [Bsign mag B2SF SpecFloat.SFcompare] in *; unfold P52 in *;
  destruct sa, sb; intros H; try lia; auto;
  try (pose proof (bounded_facts ma ea Ba)); try (pose proof (bounded_facts mb eb Bb));
  unfold P52 in *; try lia; left.
  - (* both negative finite: larger magnitude is smaller *)
    destruct (mag_lex mb eb ma ea Bb Ba) as [E|(E1 & E2)]; [unfold P52; lia| |].
    + rewrite Z.compare_antisym, E. reflexivity.
    + rewrite Z.compare_antisym, E1. cbn [CompOpp].
      change (Pos.compare_cont Eq ma mb) with (Pos.compare ma mb).
      change (Pos.compare_cont Eq mb ma) with (Pos.compare mb ma) in E2.
      rewrite Pos.compare_antisym, E2. reflexivity.
  - (* both positive finite *)
    destruct (mag_lex ma ea mb eb Ba Bb) as [E|(E1 & E2)]; [unfold P52; lia| |].
    + rewrite E. reflexivity.
    + rewrite E1, E2. reflexivity.
Qed.

(* DecodedValues: the numeric values of every map decoded by the Beatmap
   decoder that the encoder later uses to derive slider tick distances:
     - every timing point's beat length is inside its clamp [6, 60000] and every
       difficulty point's slider velocity inside [0.1, 10];
     - SliderMultiplier is in [0.4, 3.6], SliderTickRate in [0.5, 8];
     - every slider's velocity is the closed form [slider_velocity_of] over the
       lookups (difficulty point, timing point) at its start time.
   Proofs/TimingPointsValues.v proves the first item for the stand-alone
   TimingPoints decoder through its whole-run specification; here it is a
   stepwise invariant of the [TPState] inside the Beatmap decoder state. *)
From RM Require Import Model.Decoders Proofs.FramingFacts Proofs.ControlPointsFacts
     Proofs.TimingPointsValues Proofs.MapLevelFacts Proofs.DecodersFacts Proofs.DecodersTotal.
From RM Require Import Gen.Generated.
From Coq Require Import ZifyBool Permutation.
Open Scope Z_scope.

(* ================================================================== *)
(* 1. timing points: a stepwise invariant of TPState                   *)
(* ================================================================== *)

Definition opt_good {A} (G : A -> Prop) (o : option A) : Prop :=
  match o with Some p => G p | None => True end.

Definition cpv_good (c : ControlPoints) : Prop :=
  Forall good_tp (cp_timing c) /\ Forall good_dp (cp_difficulty c).

Definition tpv_good (st : TPState) : Prop :=
  cpv_good (ts_cp st) /\ opt_good good_tp (ts_pt st) /\ opt_good good_dp (ts_pd st).

Lemma Forall_insert_nth {A} (G : A -> Prop) x : forall n l,
  Forall G l -> G x -> Forall G (insert_nth n x l).
Proof.
  induction n as [|n IH]; intros l Hl Hx; [cbn; constructor; assumption|].
  destruct l as [|y r]; cbn [insert_nth]; [constructor; [exact Hx|constructor]|].
  inversion Hl as [|? ? Hy Hr]; subst. constructor; [exact Hy|apply IH; assumption].
Qed.

Lemma Forall_replace_nth {A} (G : A -> Prop) x : forall n l,
  Forall G l -> G x -> Forall G (replace_nth n x l).
Proof.
  induction n as [|n IH]; intros [|y r] Hl Hx; cbn [replace_nth]; try constructor;
    inversion Hl as [|? ? Hy Hr]; subst; try assumption.
  apply IH; assumption.
Qed.

Lemma put_Forall {P} (time : P -> F64) (G : P -> Prop) l p l' :
  put time l p = Done l' -> Forall G l -> G p -> Forall G l'.
Proof.
  unfold put. destruct (search time l (time p)) as [i|i].
  - destruct (Nat.ltb i (length l)); [|discriminate].
    intros [= <-] Hl Hp. apply Forall_replace_nth; assumption.
  - destruct (Nat.leb i (length l)); [|discriminate].
    intros [= <-] Hl Hp. apply Forall_insert_nth; assumption.
Qed.

Lemma add_timing_good c p c' :
  add_timing c p = Done c' -> cpv_good c -> good_tp p -> cpv_good c'.
Proof.
  unfold add_timing. destruct (put tp_time (cp_timing c) p) as [l|w|] eqn:E; cbn [obind]; try discriminate.
  intros [= <-] (Ht & Hd) Hp. split; cbn [cp_timing cp_difficulty]; [|exact Hd].
  exact (put_Forall _ _ _ _ _ E Ht Hp).
Qed.

Lemma add_difficulty_good c p c' :
  add_difficulty c p = Done c' -> cpv_good c -> good_dp p -> cpv_good c'.
Proof.
  unfold add_difficulty.
  destruct (difficulty_point_at c (dp_time p)) as [ex|w|]; cbn [obind]; try discriminate.
  destruct (match ex with Some e => _ | None => _ end); [intros [= <-] H _; exact H|].
  destruct (put dp_time (cp_difficulty c) p) as [l|w|] eqn:E; cbn [obind]; try discriminate.
  intros [= <-] (Ht & Hd) Hp. split; cbn [cp_timing cp_difficulty]; [exact Ht|].
  exact (put_Forall _ _ _ _ _ E Hd Hp).
Qed.

Lemma add_effect_good c p c' : add_effect c p = Done c' -> cpv_good c -> cpv_good c'.
Proof.
  unfold add_effect.
  destruct (effect_point_at c (ep_time p)) as [ex|w|]; cbn [obind]; try discriminate.
  destruct (match ex with Some e => _ | None => _ end); [intros [= <-] H; exact H|].
  destruct (put ep_time _ _); cbn [obind]; try discriminate. intros [= <-] H. exact H.
Qed.

Lemma add_sample_good c p c' : add_sample c p = Done c' -> cpv_good c -> cpv_good c'.
Proof.
  unfold add_sample.
  destruct (at_opt sp_time (cp_sample c) (sp_time p)) as [ex|w|]; cbn [obind]; try discriminate.
  destruct (match ex with Some e => _ | None => _ end); [intros [= <-] H; exact H|].
  destruct (put sp_time _ _); cbn [obind]; try discriminate. intros [= <-] H. exact H.
Qed.

Lemma flush_cp_good st c : flush_cp st = Done c -> tpv_good st -> cpv_good c.
Proof.
  unfold flush_cp, add_opt. intros H (Hc & Hpt & Hpd).
  destruct (match ts_pt st with Some p => add_timing (ts_cp st) p | None => Done (ts_cp st) end)
    as [c1|w|] eqn:E1; cbn [obind] in H; try discriminate.
  destruct (match ts_pd st with Some p => add_difficulty c1 p | None => Done c1 end)
    as [c2|w|] eqn:E2; cbn [obind] in H; try discriminate.
  destruct (match ts_pe st with Some p => add_effect c2 p | None => Done c2 end)
    as [c3|w|] eqn:E3; cbn [obind] in H; try discriminate.
  assert (G1 : cpv_good c1).
  { destruct (ts_pt st) as [p|]; [exact (add_timing_good _ _ _ E1 Hc Hpt)|inversion E1; subst; exact Hc]. }
  assert (G2 : cpv_good c2).
  { destruct (ts_pd st) as [p|]; [exact (add_difficulty_good _ _ _ E2 G1 Hpd)|inversion E2; subst; exact G1]. }
  assert (G3 : cpv_good c3).
  { destruct (ts_pe st) as [p|]; [exact (add_effect_good _ _ _ E3 G2)|inversion E3; subst; exact G2]. }
  destruct (ts_ps st) as [p|]; [exact (add_sample_good _ _ _ H G3)|inversion H; subst; exact G3].
Qed.

Definition pend_good (p : pend) : Prop :=
  match p with PT q => good_tp q | PD q => good_dp q | _ => True end.

Lemma add_control_point_good st time p tc st' :
  add_control_point st time p tc = Done st' -> tpv_good st -> pend_good p -> tpv_good st'.
Proof.
  unfold add_control_point. intros H Hst Hp.
  assert (Hflush : forall st1,
            (if time_changed time (ts_time st) then flush_pending_points st else Done st) = Done st1 ->
            tpv_good st1).
  { intros st1 E. destruct (time_changed time (ts_time st)).
    - unfold flush_pending_points in E.
      destruct (flush_cp st) as [c|w|] eqn:Ef; cbn [obind] in E; try discriminate.
      inversion E; subst. unfold tpv_good. cbn [ts_cp ts_pt ts_pd opt_good].
      split; [exact (flush_cp_good _ _ Ef Hst)|split; exact I].
    - inversion E; subst. exact Hst. }
  destruct (if time_changed time (ts_time st) then flush_pending_points st else Done st)
    as [st1|w|] eqn:E; cbn [obind] in H; try discriminate.
  specialize (Hflush st1 eq_refl). inversion H; subst; clear H.
  destruct Hflush as (Fc & Ft & Fd).
  destruct st1 as [g t pt pd pe ps c]. cbn [ts_cp ts_pt ts_pd] in *.
  destruct tc; destruct p; cbn [push_front push_back set_time pend_good] in *; unfold tpv_good;
    cbn [ts_cp ts_pt ts_pd]; (split; [exact Fc|]); split; try assumption.
  - destruct pt as [q|]; cbn [keep_first opt_good] in *; assumption.
  - destruct pd as [q|]; cbn [keep_first opt_good] in *; assumption.
Qed.

Lemma set_time_good st t : tpv_good st -> tpv_good (set_time st t).
Proof. destruct st. exact (fun H => H). Qed.

Lemma parse_timing_points_good st l st' r :
  parse_timing_points st l = Done (st', r) -> tpv_good st -> tpv_good st'.
Proof.
  unfold parse_timing_points.
  destruct (parse_tp_line (ts_general st) l) as [ln|] eqn:E; [|intros [= <- <-] H; exact H].
  intros H Hst. destruct (apply_line st ln) as [st1|w|] eqn:Ea; cbn [obind] in H; try discriminate.
  inversion H; subst; clear H.
  pose proof (parse_tp_line_ok _ _ _ E) as Hok.
  unfold apply_line in Ea.
  destruct (if l_tc ln then add_control_point st (l_time ln) (PT (line_tp ln)) (l_tc ln) else Done st)
    as [s1|w|] eqn:E1; cbn [obind] in Ea; try discriminate.
  assert (I1 : tpv_good s1).
  { destruct (l_tc ln) eqn:Etc; [|inversion E1; subst; exact Hst].
    apply (add_control_point_good _ _ _ _ _ E1 Hst). cbn [pend_good].
    exact (good_line_tp ln Hok Etc). }
  destruct (add_control_point s1 (l_time ln) (PD (line_dp ln)) (l_tc ln)) as [s2|w|] eqn:E2;
    cbn [obind] in Ea; try discriminate.
  assert (I2 : tpv_good s2).
  { apply (add_control_point_good _ _ _ _ _ E2 I1). cbn [pend_good]. exact (good_line_dp ln Hok). }
  destruct (add_control_point s2 (l_time ln) (PS (line_sp ln)) (l_tc ln)) as [s3|w|] eqn:E3;
    cbn [obind] in Ea; try discriminate.
  assert (I3 : tpv_good s3) by (apply (add_control_point_good _ _ _ _ _ E3 I2); exact I).
  destruct (add_control_point s3 (l_time ln) (PE _) (l_tc ln)) as [s4|w|] eqn:E4;
    cbn [obind] in Ea; try discriminate.
  assert (I4 : tpv_good s4) by (apply (add_control_point_good _ _ _ _ _ E4 I3); exact I).
  inversion Ea; subst. apply set_time_good. exact I4.
Qed.

Lemma tp_finish_good st c : tp_finish st = Done c -> tpv_good st -> cpv_good c.
Proof. exact (flush_cp_good st c). Qed.

(* ================================================================== *)
(* 2. [Difficulty]: the two clamped fields                             *)
(* ================================================================== *)

Definition diff_good (d : DifficultyState) : Prop :=
  in_range slider_mult_lo slider_mult_hi (d_slider_multiplier d) /\
  in_range tick_rate_lo tick_rate_hi (d_slider_tick_rate d).

Lemma sm_bounds : D.le slider_mult_lo slider_mult_hi = true. Proof. vm_compute. reflexivity. Qed.
Lemma tr_bounds : D.le tick_rate_lo tick_rate_hi = true. Proof. vm_compute. reflexivity. Qed.

Lemma default_sm_in_range :
  in_range slider_mult_lo slider_mult_hi (lit64 default_slider_multiplier_dec).
Proof. split; vm_compute; reflexivity. Qed.
Lemma default_tr_in_range :
  in_range tick_rate_lo tick_rate_hi (lit64 default_slider_tick_rate_dec).
Proof. split; vm_compute; reflexivity. Qed.

Lemma difficulty_default_good : diff_good difficulty_default.
Proof. split; [exact default_sm_in_range|exact default_tr_in_range]. Qed.

Lemma pn_f64_not_nan s x : pn_f64 s = Some x -> D.is_nan x = false.
Proof.
  intros H. apply pn_f64_finite in H. destruct x; try discriminate H; reflexivity.
Qed.

Lemma parse_difficulty_good st l : diff_good st -> diff_good (fst (parse_difficulty st l)).
Proof.
  intros Hst. unfold parse_difficulty.
  destruct (kv_parse difficulty_key_from_str (trim_comment l)) as [[key v]|] eqn:E; [|exact Hst].
  destruct Hst as (Hs & Ht).
  destruct key;
    repeat match goal with
           | |- context [pn_f32 v] => let n := fresh "x" in let En := fresh "En" in
                                      destruct (pn_f32 v) as [n|] eqn:En
           | |- context [pn_f64 v] => let n := fresh "x" in let En := fresh "En" in
                                      destruct (pn_f64 v) as [n|] eqn:En
           end;
    cbv zeta; cbn [d_has_approach_rate set_d_overall_difficulty];
    try (destruct (d_has_approach_rate st); cbn [negb]);
    cbn [fst]; unfold diff_good;
    cbn [d_has_approach_rate d_hp_drain_rate d_circle_size d_overall_difficulty d_approach_rate
         d_slider_multiplier d_slider_tick_rate set_d_has_approach_rate set_d_hp_drain_rate
         set_d_circle_size set_d_overall_difficulty set_d_approach_rate set_d_slider_multiplier
         set_d_slider_tick_rate negb];
    (split; [try exact Hs|try exact Ht]).
  all: apply clamp_in_range; [first [exact sm_bounds|exact tr_bounds]|exact (pn_f64_not_nan _ _ En)].
Qed.

(* ================================================================== *)
(* 3. lifting to the Beatmap decoder                                   *)
(* ================================================================== *)

Definition tpd_good (s : TPD) : Prop :=
  cpv_good (tpd_cp s) /\ opt_good good_tp (tpd_pt s) /\ opt_good good_dp (tpd_pd s).

Definition bm_val (ob : outcome BMD) : Prop :=
  match ob with
  | Done s => tpd_good (hod_tp (bmd_ho s)) /\ diff_good (hod_difficulty (bmd_ho s))
  | _ => True
  end.

Lemma bm_val_step : forall sec os l,
  bm_val os -> bm_val (fst (parser_of bm_parsers sec os l)).
Proof.
  intros sec [s|w|] l H; [|destruct sec; exact I ..].
  cbn [bm_val] in H. destruct H as (Ht & Hd).
  change (tpv_good (tpd_core (hod_tp (bmd_ho s)))) in Ht.
  destruct sec; open_parsers; unwrap;
    try (match goal with
         | |- context [parse_timing_points ?a ?b] =>
             let E := fresh "E" in
             destruct (parse_timing_points a b) as [[c r]| |] eqn:E; cbn [obind fst snd];
             [apply parse_timing_points_good in E; [|exact Ht]|exact I|exact I]
         end);
    try (match goal with
         | |- context [parse_difficulty ?a ?b] =>
             let Hd' := fresh "Hd'" in
             pose proof (parse_difficulty_good a b Hd) as Hd';
             destruct (parse_difficulty a b) as [d r]; cbn [fst] in Hd'
         end);
    repeat case_inner; cbn [bm_val]; proj_simpl; try exact I;
    (split; [|assumption]); try exact Ht.
  exact E.
Qed.

Lemma bm_val_create v : bm_val (Done (bmd_create v)).
Proof.
  cbn [bm_val]. split; [|exact difficulty_default_good].
  split; [split; constructor|split; exact I].
Qed.

(* ================================================================== *)
(* 4. the slider loop stores the closed-form velocity                  *)
(* ================================================================== *)

Definition vel_ok (c : ControlPoints) (sm : F64) (mode : Z) (h : HitObject) : Prop :=
  match h_kind h with
  | KSlider s =>
      sl_velocity s =
      slider_velocity_of sm
        (match last_not_after dp_time (cp_difficulty c) (h_start h) with
         | Some p => dp_sv p | None => D.one end)
        (match timing_point_at c (h_start h) with
         | Some p => tp_beat_len p | None => default_beat_len end)
        mode
  | _ => True
  end.

Section WithDist.
  Variable dist_of : Z -> list PCP -> option F64 -> outcome F64.

  Lemma process_object_vel c sm mode h h' : cp_sorted c ->
    process_object dist_of c sm mode h = Done h' -> vel_ok c sm mode h'.
  Proof.
    intros (_ & Hd & _ & _). unfold process_object, vel_ok.
    destruct (h_kind h) as [ci|s|sp|hd]; cbn [obind].
    - intros [= <-]. cbn [h_kind]. exact I.
    - unfold difficulty_point_at. rewrite (at_opt_spec dp_time _ _ Hd). cbn [obind].
      destruct (slider_duration dist_of _) as [d| |]; cbn [obind]; try discriminate.
      intros [= <-]. cbn [h_kind h_start sl_velocity]. reflexivity.
    - intros [= <-]. cbn [h_kind]. exact I.
    - intros [= <-]. cbn [h_kind]. exact I.
  Qed.

  Lemma process_objects_vel c sm mode l : cp_sorted c -> forall l',
    process_objects dist_of c sm mode l = Done l' -> Forall (vel_ok c sm mode) l'.
  Proof.
    intros Hc. induction l as [|h r IH]; intros l'; cbn [process_objects].
    - intros [= <-]. constructor.
    - destruct (process_object dist_of c sm mode h) as [h'| |] eqn:Eh; cbn [obind]; try discriminate.
      destruct (process_objects dist_of c sm mode r) as [r'| |]; cbn [obind]; try discriminate.
      intros [= <-].
      constructor; [exact (process_object_vel _ _ _ _ _ Hc Eh)|apply IH; reflexivity].
  Qed.

  Lemma finish_hit_objects_vel c bs sm mode objs l : cp_sorted c ->
    finish_hit_objects dist_of c bs sm mode objs = Done l -> Forall (vel_ok c sm mode) l.
  Proof. unfold finish_hit_objects. intros Hc H. exact (process_objects_vel _ _ _ _ Hc _ H). Qed.

  (* ================================================================ *)
  (* 5. every decoded Beatmap                                          *)
  (* ================================================================ *)

  Definition bm_ok_val (ob : outcome BMD) : Prop := bm_ok ob /\ bm_val ob.

  Theorem decoded_values_dist lines bv :
    decode_beatmap dist_of lines = Done bv ->
    let ho := bmv_ho bv in
    let c := hov_control_points ho in
    Forall good_tp (cp_timing c) /\ Forall good_dp (cp_difficulty c) /\
    in_range slider_mult_lo slider_mult_hi (d_slider_multiplier (hov_difficulty ho)) /\
    in_range tick_rate_lo tick_rate_hi (d_slider_tick_rate (hov_difficulty ho)) /\
    Forall (fun h => match h_kind h with
                     | KSlider s =>
                         sl_velocity s =
                         slider_velocity_of (d_slider_multiplier (hov_difficulty ho))
                           (match last_not_after dp_time (cp_difficulty c) (h_start h) with
                            | Some p => dp_sv p | None => D.one end)
                           (match timing_point_at c (h_start h) with
                            | Some p => tp_beat_len p | None => default_beat_len end)
                           (g_mode (hov_general ho))
                     | _ => True end) (hov_hit_objects ho).
  Proof.
    revert bv. unfold decode_beatmap.
    apply (driver_invariant _ _ _ bm_ok_val
             (fun v => conj (bm_ok_create v) (bm_val_create v))
             (fun sec st l H => conj (bm_ok_step sec st l (proj1 H)) (bm_val_step sec st l (proj2 H)))
             (fun ov => forall bv, ov = Done bv ->
                let ho := bmv_ho bv in
                let c := hov_control_points ho in
                Forall good_tp (cp_timing c) /\ Forall good_dp (cp_difficulty c) /\
                in_range slider_mult_lo slider_mult_hi (d_slider_multiplier (hov_difficulty ho)) /\
                in_range tick_rate_lo tick_rate_hi (d_slider_tick_rate (hov_difficulty ho)) /\
                Forall (fun h => match h_kind h with
                                 | KSlider s =>
                                     sl_velocity s =
                                     slider_velocity_of (d_slider_multiplier (hov_difficulty ho))
                                       (match last_not_after dp_time (cp_difficulty c) (h_start h) with
                                        | Some p => dp_sv p | None => D.one end)
                                       (match timing_point_at c (h_start h) with
                                        | Some p => tp_beat_len p | None => default_beat_len end)
                                       (g_mode (hov_general ho))
                                 | _ => True end) (hov_hit_objects ho))).
    intros st ((s & -> & Hs) & Hv) bv. cbn [obind]. cbn [bm_val] in Hv. intros Hb.
    destruct Hv as (Ht & (Hsm & Htr)).
    change (tpv_good (tpd_core (hod_tp (bmd_ho s)))) in Ht.
    destruct (bmd_finish_inv dist_of s bv Hb) as (_ & _ & _ & _ & Hh).
    destruct (hod_finish_inv dist_of _ _ Hh) as (Hg & Hd & _ & Htp & Hf).
    cbv zeta.
    destruct (tp_finish_good _ _ Htp Ht) as (Gt & Gd).
    assert (Hc : cp_sorted (hov_control_points (bmv_ho bv))).
    { destruct (tp_finish_sorted (tpd_core (hod_tp (bmd_ho s))) Hs) as (c & Ec & Hc).
      rewrite Htp in Ec. inversion Ec; subst. exact Hc. }
    rewrite Hd, Hg.
    split; [exact Gt|]. split; [exact Gd|]. split; [exact Hsm|]. split; [exact Htr|].
    exact (finish_hit_objects_vel _ _ _ _ _ _ Hc Hf).
  Qed.
End WithDist.

(* the statement with [dist] as an ordinary argument *)
Theorem decoded_values dist lines bv :
  decode_beatmap dist lines = Done bv ->
  let ho := bmv_ho bv in
  let c := hov_control_points ho in
  (* every timing point's beat length is inside its clamp [6, 60000] and every
     difficulty point's slider velocity inside [0.1, 10] *)
  Forall good_tp (cp_timing c) /\ Forall good_dp (cp_difficulty c) /\
  (* SliderMultiplier in [0.4, 3.6], SliderTickRate in [0.5, 8] *)
  in_range slider_mult_lo slider_mult_hi (d_slider_multiplier (hov_difficulty ho)) /\
  in_range tick_rate_lo tick_rate_hi (d_slider_tick_rate (hov_difficulty ho)) /\
  (* every slider's velocity is the closed form over the lookups at its start time *)
  Forall (fun h => match h_kind h with
                   | KSlider s =>
                       sl_velocity s =
                       slider_velocity_of (d_slider_multiplier (hov_difficulty ho))
                         (match last_not_after dp_time (cp_difficulty c) (h_start h) with
                          | Some p => dp_sv p | None => D.one end)
                         (match timing_point_at c (h_start h) with
                          | Some p => tp_beat_len p | None => default_beat_len end)
                         (g_mode (hov_general ho))
                   | _ => True end) (hov_hit_objects ho).
Proof. exact (decoded_values_dist dist lines bv). Qed.

(* the bounds, as bit patterns of the doubles 6, 60000, 0.1, 10, 0.4, 3.6, 0.5, 8 *)
Example pin_bounds :
  map D.bits [bl_lo; bl_hi; sv_lo; sv_hi; slider_mult_lo; slider_mult_hi; tick_rate_lo; tick_rate_hi] =
  [0x4018000000000000; 0x40ED4C0000000000; 0x3FB999999999999A; 0x4024000000000000;
   0x3FD999999999999A; 0x400CCCCCCCCCCCCD; 0x3FE0000000000000; 0x4020000000000000].
Proof. vm_compute. reflexivity. Qed.

Print Assumptions decoded_values.

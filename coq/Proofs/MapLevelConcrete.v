(* MapLevelConcrete: C15 facts about [finish_hit_objects] on the concrete
   hit-object type, for ANY curve-distance function [dist_of]. *)
From RM Require Import Model.MapLevel Proofs.MapLevelFacts.
From Coq Require Import Sorting.Sorted Sorting.Permutation.
Require Import ZifyBool.
Open Scope Z_scope.

Lemma force_start h f : h_start (force_new_combo h f) = h_start h.
Proof. unfold force_new_combo. destruct (h_kind h); reflexivity. Qed.

Lemma force_samples h f : h_samples (force_new_combo h f) = h_samples h.
Proof. unfold force_new_combo. destruct (h_kind h); reflexivity. Qed.

Lemma force_false h : force_new_combo h false = h.
Proof.
  unfold force_new_combo. destruct h as [st k sm]. cbn.
  destruct k as [c|s|s|hd]; cbn; rewrite ?orb_false_r; try reflexivity.
  - destruct c; reflexivity.
  - destruct s; reflexivity.
  - destruct s; reflexivity.
Qed.

(* the new-combo flag of an object *)
Definition new_combo_of (h : HitObject) : bool :=
  match h_kind h with
  | KCircle c => ci_new_combo c
  | KSlider s => sl_new_combo s
  | KSpinner s => sp_new_combo s
  | KHold _ => false
  end.
Definition is_hold (h : HitObject) : bool := match h_kind h with KHold _ => true | _ => false end.

Lemma force_flag h f :
  new_combo_of (force_new_combo h f) = if is_hold h then false else new_combo_of h || f.
Proof. unfold force_new_combo, new_combo_of, is_hold. destruct (h_kind h) eqn:E; cbn; rewrite ?E; reflexivity. Qed.

Lemma kle_sorted_map {O} (key : O -> Z) l :
  StronglySorted (kle key) l -> StronglySorted Z.le (map key l).
Proof.
  induction 1 as [|a l HS IH HF]; cbn [map]; [constructor|].
  constructor; [exact IH|]. apply Forall_map. exact HF.
Qed.

Section WithDist.
  Variable dist_of : Z -> list PCP -> option F64 -> outcome F64.

  Lemma process_object_start c sm mode h h' :
    process_object dist_of c sm mode h = Done h' -> h_start h' = h_start h.
  Proof.
    unfold process_object. intros H.
    destruct (match h_kind h with KCircle _ => _ | KSlider _ => _ | KSpinner _ => _ | KHold _ => _ end)
      as [[k e]|w|]; cbn [obind] in H; try discriminate.
    inversion H. reflexivity.
  Qed.

  (* what the loop does to the objects that are not sliders: only the samples change *)
  Lemma process_object_non_slider c sm mode h :
    (forall s, h_kind h <> KSlider s) ->
    exists e, process_object dist_of c sm mode h =
      Done (mkHObj (h_start h) (h_kind h)
                   (map (sp_apply (sample_point_or_default c (D.add e f64_5))) (h_samples h))) /\
      e = match h_kind h with
          | KSpinner s => D.add (h_start h) (sp_duration s)
          | KHold hd => D.add (h_start h) (hd_duration hd)
          | _ => h_start h
          end.
  Proof.
    intros Hk. unfold process_object. destruct (h_kind h) as [ci|s|s|hd] eqn:E.
    - eexists; split; reflexivity.
    - exfalso. apply (Hk s). reflexivity.
    - eexists; split; reflexivity.
    - eexists; split; reflexivity.
  Qed.

  (* sliders: velocity is the closed form; duration = spans * dist / velocity;
     object samples from the sample point 5 ms after the end, node samples from
     the sample point 5 ms after each node *)
  Lemma process_object_slider c sm mode h s h' :
    h_kind h = KSlider s ->
    process_object dist_of c sm mode h = Done h' ->
    exists dp d,
      difficulty_point_at c (h_start h) = Done dp /\
      dist_of (sl_mode s) (sl_control_points s) (sl_expected_dist s) = Done d /\
      let beat_len := match timing_point_at c (h_start h) with Some p => tp_beat_len p | None => default_beat_len end in
      let sv := match dp with Some p => dp_sv p | None => D.one end in
      let vel := slider_velocity_of sm sv beat_len mode in
      let spans := D.of_Z (sl_repeat_count s + 1) in
      let duration := D.div (D.mul spans d) vel in
      h' = mkHObj (h_start h)
             (KSlider (mkSlider (sl_pos s) (sl_new_combo s) (sl_combo_offset s) (sl_mode s)
                                (sl_control_points s) (sl_expected_dist s)
                                (apply_nodes c (h_start h) duration spans 0 (sl_node_samples s))
                                (sl_repeat_count s) vel))
             (map (sp_apply (sample_point_or_default c (D.add (D.add (h_start h) duration) f64_5)))
                  (h_samples h)).
  Proof.
    intros Hk H. unfold process_object in H. rewrite Hk in H.
    destruct (difficulty_point_at c (h_start h)) as [dp|w|] eqn:Edp; cbn [obind] in H; try discriminate.
    unfold slider_duration in H. cbn [sl_mode sl_control_points sl_expected_dist sl_repeat_count sl_velocity] in H.
    destruct (dist_of (sl_mode s) (sl_control_points s) (sl_expected_dist s)) as [d|w|] eqn:Ed;
      cbn [obind] in H; try discriminate.
    exists dp, d. split; [reflexivity|]. split; [reflexivity|].
    cbv zeta. inversion H. reflexivity.
  Qed.

  Lemma process_objects_spec c sm mode l out :
    process_objects dist_of c sm mode l = Done out ->
    Forall2 (fun h h' => process_object dist_of c sm mode h = Done h') l out.
  Proof.
    revert out. induction l as [|h r IH]; intros out H; cbn [process_objects] in H.
    - inversion H. constructor.
    - destruct (process_object dist_of c sm mode h) as [h'|w|] eqn:E; cbn [obind] in H; try discriminate.
      destruct (process_objects dist_of c sm mode r) as [r'|w|] eqn:Er; cbn [obind] in H; try discriminate.
      inversion H. constructor; [exact E | apply IH; reflexivity].
  Qed.

  Lemma Forall2_map_start (l out : list HitObject) c sm mode :
    Forall2 (fun h h' => process_object dist_of c sm mode h = Done h') l out ->
    map h_start out = map h_start l.
  Proof.
    induction 1 as [|h h' l out Hh _ IH]; [reflexivity|]. cbn [map].
    rewrite (process_object_start _ _ _ _ _ Hh), IH. reflexivity.
  Qed.

  (* T15a: the output carries exactly the start times of the stable sort of
     the input, hence is in non-decreasing (total) order *)
  Theorem finish_times c breaks sm mode objs out :
    finish_hit_objects dist_of c breaks sm mode objs = Done out ->
    map h_start out = map h_start (ssort start_key objs).
  Proof.
    unfold finish_hit_objects. intros H. apply process_objects_spec in H.
    rewrite (Forall2_map_start _ _ _ _ _ H).
    apply post_process_start. apply force_start.
  Qed.

  Theorem finish_sorted c breaks sm mode objs out :
    finish_hit_objects dist_of c breaks sm mode objs = Done out ->
    StronglySorted Z.le (map start_key out).
  Proof.
    intros H. apply finish_times in H.
    assert (E : map start_key out = map start_key (ssort start_key objs)).
    { unfold start_key. rewrite <- !(map_map h_start D.key), H. reflexivity. }
    rewrite E. apply kle_sorted_map. apply ssort_sorted.
  Qed.

  Theorem finish_length c breaks sm mode objs out :
    finish_hit_objects dist_of c breaks sm mode objs = Done out -> length out = length objs.
  Proof.
    intros H. apply finish_times in H. apply (f_equal (@length _)) in H.
    rewrite !map_length in H. rewrite H. apply Permutation_length. apply ssort_perm.
  Qed.
End WithDist.

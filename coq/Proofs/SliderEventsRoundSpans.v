(* SliderEventsRoundSpans: "ticks are identically placed on every span".

   Read off the event list itself (not its generator): the tick events of
   span s in the stream -- kind Tick, span index s -- carry exactly the
   progress values of the tick events of span 0, bit for bit, in the same
   order on even spans and in reverse (i.e. mirrored in time) on odd spans.
   No arithmetic is involved: it holds for every instance of the float
   operations, in particular for binary64. *)
From RM Require Import Model.SliderEvents Proofs.SliderEventsFacts.
From Coq Require Import FinFun.
Require Import ZifyBool.
Open Scope Z_scope.

Definition is_tick_of {F : Type} (s : Z) (e : event F) : bool :=
  match ev_kind e with KTick => ev_span e =? s | _ => false end.

(* the tick events of span s, in stream order *)
Definition ticks_of {F : Type} (s : Z) (evs : list (event F)) : list (event F) :=
  filter (is_tick_of s) evs.

Lemma filter_flat_map {A B} (p : B -> bool) (f : A -> list B) l :
  filter p (flat_map f l) = flat_map (fun x => filter p (f x)) l.
Proof.
  induction l as [|a l IH]; [reflexivity|]. cbn [flat_map]. rewrite filter_app, IH. reflexivity.
Qed.

Lemma flat_map_pick_none {B} (T : list B) (s : Z) l :
  ~ In s l -> flat_map (fun x => if x =? s then T else []) l = [].
Proof.
  induction l as [|a l IH]; intros H; [reflexivity|]. cbn [flat_map].
  destruct (a =? s) eqn:E.
  - exfalso. apply H. left. lia.
  - apply IH. intros Hin. apply H. right. exact Hin.
Qed.

Lemma flat_map_pick_one {B} (T : list B) (s : Z) l :
  NoDup l -> In s l -> flat_map (fun x => if x =? s then T else []) l = T.
Proof.
  induction 1 as [|a l Hn Hd IH]; intros Hin; [destruct Hin|]. cbn [flat_map].
  destruct (a =? s) eqn:E.
  - assert (a = s) by lia. subst a. rewrite flat_map_pick_none by exact Hn. apply app_nil_r.
  - destruct Hin as [->|Hin]; [lia|]. apply IH. exact Hin.
Qed.

Lemma spans_NoDup n : NoDup (spans n).
Proof.
  unfold spans. apply Injective_map_NoDup; [|apply seq_NoDup].
  intros a b H. lia.
Qed.

Section Spans.
  Context {F : Type} (OP : fops F).
  Variables (start dur len : F) (n : Z) (ds : list F).

  (* the ticks of span s in chronological order *)
  Definition span_ticks (s : Z) : list (event F) :=
    if Z.odd s then rev (map (sp_tick OP start dur len s) ds) else map (sp_tick OP start dur len s) ds.

  Lemma filter_span_ticks s s' :
    filter (is_tick_of s) (span_ticks s') = if s' =? s then span_ticks s' else [].
  Proof.
    assert (H : forall l, filter (is_tick_of s) (map (sp_tick OP start dur len s') l) =
                          if s' =? s then map (sp_tick OP start dur len s') l else []).
    { induction l as [|d l IH]; [destruct (s' =? s); reflexivity|]. cbn [map filter].
      unfold is_tick_of at 1. cbn [sp_tick ev_kind ev_span]. rewrite IH.
      destruct (s' =? s); reflexivity. }
    unfold span_ticks. destruct (Z.odd s').
    - rewrite <- map_rev. apply H.
    - apply H.
  Qed.

  Lemma filter_sp_span s s' :
    filter (is_tick_of s) (sp_span OP start dur len n ds s') = if s' =? s then span_ticks s' else [].
  Proof.
    unfold sp_span. fold (span_ticks s'). rewrite filter_app, filter_span_ticks.
    destruct (s' <? n - 1); cbn [filter is_tick_of sp_repeat ev_kind]; apply app_nil_r.
  Qed.

  (* the tick events of span s, picked out of the whole stream *)
  Theorem ticks_of_sp_events s : 0 <= s < n ->
    ticks_of s (sp_events OP start dur len n ds) = span_ticks s.
  Proof.
    intros Hs. unfold ticks_of, sp_events. cbn [filter]. unfold is_tick_of at 1. cbn [sp_head ev_kind].
    rewrite filter_app, filter_flat_map.
    cbn [filter]. unfold is_tick_of at 2 3. cbn [sp_last_tick sp_tail ev_kind]. rewrite app_nil_r.
    rewrite (flat_map_ext _ (fun x => if x =? s then span_ticks s else [])).
    - apply flat_map_pick_one; [apply spans_NoDup | apply in_spans; exact Hs].
    - intros x. rewrite filter_sp_span. destruct (x =? s) eqn:E; [|reflexivity].
      assert (x = s) by lia. subst x. reflexivity.
  Qed.

  Lemma span_ticks_prog s :
    map ev_prog (span_ticks s) =
    if Z.odd s then rev (map (fun d => f_div OP d len) ds) else map (fun d => f_div OP d len) ds.
  Proof.
    assert (H : map ev_prog (map (sp_tick OP start dur len s) ds) = map (fun d => f_div OP d len) ds).
    { rewrite map_map. apply map_ext. intros d. reflexivity. }
    unfold span_ticks. destruct (Z.odd s); [rewrite map_rev|]; rewrite H; reflexivity.
  Qed.
End Spans.

(* "identically placed on every span": in any completed stream the ticks of
   span s have the progress values of the ticks of span 0, bit for bit --
   same order on even spans, reversed on odd spans -- and the same number *)
Theorem same_ticks_every_span {F : Type} (OP : fops F) (tf : nat) (p : params F) (evs : list (event F)) :
  events_spec OP tf p = Done evs ->
  forall s, 0 <= s < p_n p ->
  map ev_prog (ticks_of s evs) =
    (if Z.odd s then rev (map ev_prog (ticks_of 0 evs)) else map ev_prog (ticks_of 0 evs)) /\
  length (ticks_of s evs) = length (ticks_of 0 evs) /\
  Forall (fun e => ev_sst e = sp_sst OP (p_start p) (p_dur p) s /\
                   ev_time e = f_add OP (ev_sst e)
                                 (f_mul OP (if Z.odd s then f_sub OP (c_one OP) (ev_prog e) else ev_prog e)
                                        (p_dur p)))
         (ticks_of s evs).
Proof.
  intros He s Hs.
  destruct (events_spec_shape OP tf p evs He) as (td & ds & _ & -> & _ & _).
  rewrite (ticks_of_sp_events OP _ _ _ _ ds s Hs).
  rewrite (ticks_of_sp_events OP _ _ _ _ ds 0) by lia.
  rewrite !span_ticks_prog. change (Z.odd 0) with false. cbv iota.
  split; [reflexivity|]. split.
  - unfold span_ticks. change (Z.odd 0) with false. cbv iota.
    destruct (Z.odd s); rewrite ?rev_length, !map_length; reflexivity.
  - assert (H : Forall (fun e => ev_sst e = sp_sst OP (p_start p) (p_dur p) s /\
                   ev_time e = f_add OP (ev_sst e)
                                 (f_mul OP (if Z.odd s then f_sub OP (c_one OP) (ev_prog e) else ev_prog e)
                                        (p_dur p)))
                  (map (sp_tick OP (p_start p) (p_dur p) (sp_len OP p) s) ds)).
    { apply Forall_forall. intros e Hin. apply in_map_iff in Hin. destruct Hin as (d & <- & _).
      split; reflexivity. }
    unfold span_ticks. destruct (Z.odd s); [apply Forall_rev|]; exact H.
Qed.

(* Enc3Framing: the [TimingPoints] and [HitObjects] sections of an encoding, pushed through the
   framing theorem (C05 T05a: decode = route the lines to the section parsers) and the Beatmap
   decoder's delegation (C07: the hit-object part of a decoded Beatmap is the result of the
   HitObjects decoder).

     decode_beatmap dist2 (map render (encode_lines m)) = Done m2  ==>
       the HitObjects decoder's state after the last line is
         general     = the [General] body parsed from the default state   (= read_back, T02a)
         difficulty  = the [Difficulty] body parsed from the default state
         events      = the [Events] body parsed from the default state
         timing core = tp_run (tp_init (tpg_of general)) (the [TimingPoints] body)
         object core = ho_run (ho_create (mode of general)) (the [HitObjects] body)
       and bmv_ho m2 is hod_finish of that state.

   The [General] section is parsed BEFORE [TimingPoints] and [HitObjects] (canonical order of the
   encoding), which is what makes the map's mode available to both (cf. D22). *)
From RM Require Import Model.EncSpec Proofs.EncText Proofs.EncFmt Proofs.EncSimple Proofs.EncImage Proofs.EncEdit
     Proofs.EncRound Proofs.EncShape Proofs.FramingFacts Proofs.DecodersFacts Proofs.DecodersTotal Proofs.NumFacts
     Proofs.Enc2Framing Proofs.TimingPointsFacts.
From RM Require Proofs.C14Clauses.
From RM Require Import Gen.Generated.
From Coq Require Import ZifyBool.
Open Scope Z_scope.

(* ---------- the routing of an encoding, with the two computed sections named ---------- *)

Section Routed.
  Variables (fmt_f64 : F64 -> str) (fmt_f32 : F32 -> str) (fmt_int : Z -> str).
  Hypothesis Hfmt : fmt_ok fmt_f64 fmt_f32 fmt_int.
  Notation rline := (render fmt_f64 fmt_f32 fmt_int).

  Theorem route_encoding_parts dist events m ls :
    encode_lines dist events m = Done ls -> i32_ok (bmv_version m) = true -> colors_ok (bmv_colors m) = true ->
    exists tp ho,
      let h := bmv_ho m in
      enc_timing_points dist events m = Done (header_tok SecTimingPoints :: tp) /\
      object_lines dist (g_mode (hov_general h)) (hov_hit_objects h) = Done ho /\
      version_of (map rline ls) = bmv_version m /\
      route should_skip_line None (body_of (map rline ls)) =
        tag SecGeneral (map rline (body (enc_general (hov_general h) (hov_control_points h)))) ++
        tag SecEditor (map rline (body (enc_editor (bmv_editor m)))) ++
        tag SecMetadata (map rline (body (enc_metadata (bmv_metadata m)))) ++
        tag SecDifficulty (map rline (body (enc_difficulty (hov_difficulty h)))) ++
        tag SecEvents (map rline (body (enc_events (hov_events h)))) ++
        tag SecTimingPoints (map rline tp) ++
        tag SecColors (map rline (body (enc_colors (bmv_colors m)))) ++
        tag SecHitObjects (map rline ho).
  Proof.
    intros H Hv Hc.
    assert (Hparts : exists tl ol c,
              enc_timing_points dist events m = Done (header_tok SecTimingPoints :: tl) /\
              group_lines c props_default (groups_of c) = Done tl /\
              object_lines dist (g_mode (hov_general (bmv_ho m))) (hov_hit_objects (bmv_ho m)) = Done ol /\
              ls = [enc_version (bmv_version m)] ++
                   [] :: enc_general (hov_general (bmv_ho m)) (hov_control_points (bmv_ho m)) ++
                   [] :: enc_editor (bmv_editor m) ++
                   [] :: enc_metadata (bmv_metadata m) ++
                   [] :: enc_difficulty (hov_difficulty (bmv_ho m)) ++
                   [] :: enc_events (hov_events (bmv_ho m)) ++
                   [] :: (header_tok SecTimingPoints :: tl) ++
                   [] :: enc_colors (bmv_colors m) ++
                   [] :: (header_tok SecHitObjects :: ol)).
    { unfold encode_lines in H.
      destruct (enc_timing_points dist events m) as [tpl|w|] eqn:Et; cbn [obind] in H; try discriminate.
      destruct (enc_hit_objects dist _ _) as [objs|w|] eqn:Eo; cbn [obind] in H; try discriminate.
      assert (Et' := Et). unfold enc_timing_points in Et'.
      destruct (collect_samples _ _ _ _ _ _ _ _) as [c|w|]; cbn [obind] in Et'; try discriminate.
      destruct (group_lines c props_default (groups_of c)) as [tl|w|] eqn:Eg; cbn [obind] in Et'; try discriminate.
      unfold enc_hit_objects in Eo.
      destruct (object_lines dist _ _) as [ol|w|] eqn:El; cbn [obind] in Eo; try discriminate.
      injection Et' as Et'. subst tpl. injection Eo as Eo. subst objs. injection H as H.
      exists tl, ol, c. split; [reflexivity|]. split; [exact Eg|]. split; [reflexivity|]. symmetry. exact H. }
    destruct Hparts as (tl & ol & c & Et & Eg & El & ->).
    pose proof (group_lines_num _ _ _ _ Eg) as Htp. pose proof (object_lines_num _ _ _ _ El) as Hho.
    exists tl, ol. cbv zeta. split; [exact Et|]. split; [exact El|]. cbn [app].
    match goal with |- context [map rline (enc_version ?v :: ?rest)] =>
      destruct (version_of_enc fmt_f64 fmt_f32 fmt_int Hfmt v rest Hv) as (E1 & E2) end.
    split; [exact E1|]. rewrite E2. clear E1 E2.
    assert (Eg' : forall g c, enc_general g c = header_tok SecGeneral :: body (enc_general g c)) by reflexivity.
    assert (Ee : forall e, enc_editor e = header_tok SecEditor :: body (enc_editor e)) by reflexivity.
    assert (Em : forall x, enc_metadata x = header_tok SecMetadata :: body (enc_metadata x)) by reflexivity.
    assert (Ed : forall x, enc_difficulty x = header_tok SecDifficulty :: body (enc_difficulty x)) by reflexivity.
    assert (Ev : forall x, enc_events x = header_tok SecEvents :: body (enc_events x)) by reflexivity.
    assert (Ec : forall x, enc_colors x = header_tok SecColors :: body (enc_colors x)) by reflexivity.
    rewrite Eg', Ee, Em, Ed, Ev, Ec. rewrite <- (app_nil_r ol) at 1. cbn [app].
    rewrite (route_section _ _ _ None SecGeneral); [|cbn; tauto|apply general_body_lines]. f_equal.
    rewrite (route_section _ _ _ _ SecEditor); [|cbn; tauto|apply editor_body_lines]. f_equal.
    rewrite (route_section _ _ _ _ SecMetadata); [|cbn; tauto|apply metadata_body_lines]. f_equal.
    rewrite (route_section _ _ _ _ SecDifficulty); [|cbn; tauto|apply difficulty_body_lines]. f_equal.
    rewrite (route_section _ _ _ _ SecEvents); [|cbn; tauto|apply events_body_lines]. f_equal.
    rewrite (route_section _ _ _ _ SecTimingPoints); [|cbn; tauto|apply Forall_num_body; [exact Hfmt|exact Htp]]. f_equal.
    rewrite (route_section _ _ _ _ SecColors); [|cbn; tauto|apply colors_body_lines; [exact Hfmt|exact Hc]]. f_equal.
    rewrite (route_section _ _ _ _ SecHitObjects); [|cbn; tauto|apply Forall_num_body; [exact Hfmt|exact Hho]].
    cbn [map route]. rewrite app_nil_r. reflexivity.
    all: exact Hfmt.
  Qed.
End Routed.

(* ---------- a whole [HitObjects] section: the per-line results and the final state ---------- *)

Fixpoint ho_run (st : HOState) (lines : list str) : outcome (HOState * list res) :=
  match lines with
  | [] => Done (st, [])
  | l :: rest =>
      obind (parse_hit_objects st l) (fun '(st1, r) =>
      obind (ho_run st1 rest) (fun '(st2, rs) => Done (st2, r :: rs)))
  end.

(* ---------- the HitObjects decoder, section by section ---------- *)

Lemma feed_ho_noop sec ls os :
  In sec [SecEditor; SecMetadata; SecColors] -> feed ho_parsers os (tag sec ls) = os.
Proof.
  intros Hs. revert os. induction ls as [|l r IH]; intros os; [reflexivity|].
  cbn [tag map]. rewrite feed_cons. fold (tag sec r).
  destruct Hs as [<-|[<-|[<-|[]]]]; cbn [parser_of ho_parsers p_editor p_metadata p_colors noop fst]; apply IH.
Qed.

Lemma feed_ho_general ls : forall tp d e la cu ve ob,
  feed ho_parsers (Done (mkHOD tp d e la cu ve ob)) (tag SecGeneral ls) =
  Done (mkHOD (tpd_with_general tp (run_lines parse_general (tpd_general tp) ls)) d e la cu ve ob).
Proof.
  induction ls as [|l r IH]; intros tp d e la cu ve ob.
  - cbn [tag map feed fold_left]. rewrite run_nil. destruct tp; reflexivity.
  - cbn [tag map]. rewrite feed_cons. fold (tag SecGeneral r).
    cbn [parser_of ho_parsers p_general liftp liftt]. unfold hod_parse_general, tpd_parse_general.
    cbn [hod_tp]. destruct (parse_general (tpd_general tp) l) as [g res] eqn:E. cbn [fst]. unfold hod_with_tp. cbn [hod_difficulty hod_events hod_last hod_curve hod_vertices hod_objects].
    rewrite IH. rewrite run_cons, E. cbn [fst]. destruct tp; reflexivity.
Qed.

Lemma feed_ho_difficulty ls : forall tp d e la cu ve ob,
  feed ho_parsers (Done (mkHOD tp d e la cu ve ob)) (tag SecDifficulty ls) =
  Done (mkHOD tp (run_lines parse_difficulty d ls) e la cu ve ob).
Proof.
  induction ls as [|l r IH]; intros tp d e la cu ve ob; [reflexivity|].
  cbn [tag map]. rewrite feed_cons. fold (tag SecDifficulty r).
  cbn [parser_of ho_parsers p_difficulty liftp liftt]. unfold hod_parse_difficulty.
  cbn [hod_tp hod_difficulty hod_events hod_last hod_curve hod_vertices hod_objects].
  destruct (parse_difficulty d l) as [d' res] eqn:E. cbn [fst]. rewrite IH, run_cons, E. reflexivity.
Qed.

Lemma feed_ho_events ls : forall tp d e la cu ve ob,
  feed ho_parsers (Done (mkHOD tp d e la cu ve ob)) (tag SecEvents ls) =
  Done (mkHOD tp d (run_lines parse_events e ls) la cu ve ob).
Proof.
  induction ls as [|l r IH]; intros tp d e la cu ve ob; [reflexivity|].
  cbn [tag map]. rewrite feed_cons. fold (tag SecEvents r).
  cbn [parser_of ho_parsers p_events liftp liftt]. unfold hod_parse_events.
  cbn [hod_tp hod_difficulty hod_events hod_last hod_curve hod_vertices hod_objects].
  destruct (parse_events e l) as [e' res] eqn:E. cbn [fst]. rewrite IH, run_cons, E. reflexivity.
Qed.

Lemma parse_timing_points_general st l st' r :
  parse_timing_points st l = Done (st', r) -> ts_general st' = ts_general st.
Proof.
  unfold parse_timing_points. destruct (parse_tp_line (ts_general st) l) as [ln|].
  - destruct (apply_line st ln) as [s1| |] eqn:E; cbn [obind]; try discriminate.
    intros [= <- <-]. exact (apply_line_general _ _ _ E).
  - intros [= <- <-]. reflexivity.
Qed.

Lemma tp_run_general ls : forall st st' rs, tp_run st ls = Done (st', rs) -> ts_general st' = ts_general st.
Proof.
  induction ls as [|l r IH]; intros st st' rs H; cbn [tp_run] in H.
  - inversion H; reflexivity.
  - destruct (parse_timing_points st l) as [[s1 r1]| |] eqn:E; cbn [obind] in H; try discriminate.
    destruct (tp_run s1 r) as [[s2 rs2]| |] eqn:E2; cbn [obind] in H; try discriminate.
    inversion H; subst. rewrite (IH _ _ _ E2). exact (parse_timing_points_general _ _ _ _ E).
Qed.

(* the timing core of the state: every field but the General part *)
Lemma feed_ho_timing ls : forall g t pt pd pe ps cp d e la cu ve ob st' rs,
  tp_run (mkTS (tpg_of g) t pt pd pe ps cp) ls = Done (st', rs) ->
  feed ho_parsers (Done (mkHOD (mkTPD g t pt pd pe ps cp) d e la cu ve ob)) (tag SecTimingPoints ls) =
  Done (mkHOD (mkTPD g (ts_time st') (ts_pt st') (ts_pd st') (ts_pe st') (ts_ps st') (ts_cp st')) d e la cu ve ob).
Proof.
  induction ls as [|l r IH]; intros g t pt pd pe ps cp d e la cu ve ob st' rs H; cbn [tp_run] in H.
  - inversion H; subst. reflexivity.
  - destruct (parse_timing_points _ l) as [[s1 r1]| |] eqn:E; cbn [obind] in H; try discriminate.
    destruct (tp_run s1 r) as [[s2 rs2]| |] eqn:E2; cbn [obind] in H; try discriminate.
    inversion H; subst st' rs. clear H.
    cbn [tag map]. rewrite feed_cons. fold (tag SecTimingPoints r).
    cbn [parser_of ho_parsers p_timing_points liftp]. unfold hod_parse_timing_points, tpd_parse_timing_points.
    unfold tpd_core. cbn [hod_tp tpd_general tpd_time tpd_pt tpd_pd tpd_pe tpd_ps tpd_cp]. rewrite E. cbn [obind fst].
    pose proof (parse_timing_points_general _ _ _ _ E) as Hg. cbn [ts_general] in Hg.
    destruct s1 as [g1 t1 pt1 pd1 pe1 ps1 cp1]. cbn [ts_general] in Hg. subst g1.
    cbn [hod_with_tp tpd_with_core ts_time ts_pt ts_pd ts_pe ts_ps ts_cp tpd_general
         hod_difficulty hod_events hod_last hod_curve hod_vertices hod_objects].
    exact (IH g t1 pt1 pd1 pe1 ps1 cp1 d e la cu ve ob s2 rs2 E2).
Qed.

Lemma feed_ho_objects ls : forall tp d e la cu ve ob st' rs,
  ho_run (mkHO la cu ve ob (g_mode (tpd_general tp))) ls = Done (st', rs) ->
  feed ho_parsers (Done (mkHOD tp d e la cu ve ob)) (tag SecHitObjects ls) =
  Done (mkHOD tp d e (ho_last st') (ho_curve st') (ho_vertices st') (ho_objects st')) /\
  ho_mode st' = g_mode (tpd_general tp).
Proof.
  induction ls as [|l r IH]; intros tp d e la cu ve ob st' rs H; cbn [ho_run] in H.
  - inversion H; subst. split; reflexivity.
  - destruct (parse_hit_objects _ l) as [[s1 r1]| |] eqn:E; cbn [obind] in H; try discriminate.
    destruct (ho_run s1 r) as [[s2 rs2]| |] eqn:E2; cbn [obind] in H; try discriminate.
    inversion H; subst st' rs. clear H.
    cbn [tag map]. rewrite feed_cons. fold (tag SecHitObjects r).
    cbn [parser_of ho_parsers p_hit_objects liftp]. unfold hod_parse_hit_objects, hod_core.
    cbn [hod_tp hod_last hod_curve hod_vertices hod_objects]. rewrite E. cbn [obind fst].
    assert (Hm : ho_mode s1 = g_mode (tpd_general tp)).
    { destruct r1.
      - destruct (C14Clauses.accepted_line _ _ _ E) as (f & k & obj & _ & _ & _ & _ & Hm & _). exact Hm.
      - destruct (C14Clauses.rejected_state _ _ _ E) as (_ & _ & Hm). exact Hm. }
    destruct s1 as [la1 cu1 ve1 ob1 m1]. cbn [ho_mode] in Hm. subst m1.
    cbn [hod_with_core ho_last ho_curve ho_vertices ho_objects hod_tp hod_difficulty hod_events].
    exact (IH tp d e la1 cu1 ve1 ob1 s2 rs2 E2).
Qed.

(* a state that has panicked stays so *)
Definition not_done {S} (os : outcome S) : Prop := match os with Done _ => False | _ => True end.

Lemma ho_step_not_done sec os l : not_done os -> not_done (fst (parser_of ho_parsers sec os l)).
Proof. destruct os as [s|w|]; [contradiction|destruct sec; intros _; exact I ..]. Qed.

Lemma feed_ho_not_done routed : forall os, not_done os -> not_done (feed ho_parsers os routed).
Proof.
  induction routed as [|[sec l] r IH]; intros os H; [exact H|].
  rewrite feed_cons. apply IH. apply ho_step_not_done. exact H.
Qed.

(* ... so a completed [HitObjects] section means every line returned *)
Lemma feed_ho_objects_inv ls : forall tp d e la cu ve ob s',
  feed ho_parsers (Done (mkHOD tp d e la cu ve ob)) (tag SecHitObjects ls) = Done s' ->
  exists st' rs, ho_run (mkHO la cu ve ob (g_mode (tpd_general tp))) ls = Done (st', rs).
Proof.
  induction ls as [|l r IH]; intros tp d e la cu ve ob s' H.
  - eexists _, _. reflexivity.
  - cbn [tag map] in H. rewrite feed_cons in H. fold (tag SecHitObjects r) in H.
    cbn [parser_of ho_parsers p_hit_objects liftp] in H. unfold hod_parse_hit_objects, hod_core in H.
    cbn [hod_tp hod_last hod_curve hod_vertices hod_objects] in H. cbn [ho_run].
    destruct (parse_hit_objects _ l) as [[s1 r1]|w|] eqn:E; cbn [obind fst] in H |- *.
    + assert (Hm : ho_mode s1 = g_mode (tpd_general tp)).
      { destruct r1.
        - destruct (C14Clauses.accepted_line _ _ _ E) as (f & k & obj & _ & _ & _ & _ & Hm & _). exact Hm.
        - destruct (C14Clauses.rejected_state _ _ _ E) as (_ & _ & Hm). exact Hm. }
      destruct s1 as [la1 cu1 ve1 ob1 m1]. cbn [ho_mode] in Hm. subst m1.
      cbn [hod_with_core ho_last ho_curve ho_vertices ho_objects hod_tp hod_difficulty hod_events] in H.
      destruct (IH tp d e la1 cu1 ve1 ob1 s' H) as (st' & rs & ->). cbn [obind]. eexists _, _. reflexivity.
    + exfalso. pose proof (feed_ho_not_done (tag SecHitObjects r) (Panic w) I) as N. rewrite H in N. exact N.
    + exfalso. pose proof (feed_ho_not_done (tag SecHitObjects r) OutOfFuel I) as N. rewrite H in N. exact N.
Qed.

(* ---------- decoding the lines of an encoding: the computed sections ---------- *)

Section Composed.
  Variables (fmt_f64 : F64 -> str) (fmt_f32 : F32 -> str) (fmt_int : Z -> str).
  Hypothesis Hfmt : fmt_ok fmt_f64 fmt_f32 fmt_int.
  Notation rline := (render fmt_f64 fmt_f32 fmt_int).

  (* For a map of the encoder's domain ([simple_ok]; every decoded map outside D23): the second
     decode's control points are what [tp_run] / [tp_finish] make of the written [TimingPoints] body
     in the General state of [read_back m]; its hit objects are [finish_hit_objects] -- with these
     control points, the breaks, slider multiplier and mode of [read_back m] -- of the object list
     that [ho_run] makes of the written [HitObjects] body, provided the [TimingPoints] lines all
     return (they do: T02d). *)
  Theorem encoding_computed_sections_decoded dist events m ls dist2 m2 :
    simple_ok m = true -> encode_lines dist events m = Done ls ->
    decode_beatmap dist2 (map rline ls) = Done m2 ->
    exists tp ho,
      enc_timing_points dist events m = Done (header_tok SecTimingPoints :: tp) /\
      object_lines dist (g_mode (hov_general (bmv_ho m))) (hov_hit_objects (bmv_ho m)) = Done ho /\
      let r := bmv_ho (read_back m) in
      forall ts rs, tp_run (tp_init (tpg_of (hov_general r))) (map rline tp) = Done (ts, rs) ->
        tp_finish ts = Done (hov_control_points (bmv_ho m2)) /\
        exists hs hrs,
          ho_run (ho_create (g_mode (hov_general r))) (map rline ho) = Done (hs, hrs) /\
          finish_hit_objects dist2 (hov_control_points (bmv_ho m2)) (ev_breaks (hov_events r))
            (d_slider_multiplier (hov_difficulty r)) (g_mode (hov_general r)) (ho_objects hs) =
          Done (hov_hit_objects (bmv_ho m2)).
  Proof.
    intros Hok He Hd.
    destruct (simple_ok_parts m Hok) as (Qv & _ & _ & _ & _ & _ & Qc & _).
    destruct (route_encoding_parts fmt_f64 fmt_f32 fmt_int Hfmt dist events m ls He Qv Qc) as (tp & ho & Etp & Eho & _ & Er).
    cbv zeta in Er.
    destruct (simple_sections_read_back fmt_f64 fmt_f32 fmt_int Hfmt m Hok) as (Rg & _ & _ & Rd & Rv & _).
    exists tp, ho. split; [exact Etp|]. split; [exact Eho|]. cbv zeta. intros ts rs Hts.
    pose proof (beatmap_hit_objects_done dist2 _ m2 Hd) as Hh.
    unfold decode_hit_objects in Hh. rewrite driver_refines in Hh.
    change (skip ho_parsers) with should_skip_line in Hh. rewrite Er in Hh. clear Er.
    rewrite !feed_app in Hh. unfold hod_create in Hh.
    rewrite feed_ho_general in Hh.
    rewrite (feed_ho_noop SecEditor) in Hh by (cbn; tauto).
    rewrite (feed_ho_noop SecMetadata) in Hh by (cbn; tauto).
    rewrite feed_ho_difficulty, feed_ho_events in Hh.
    unfold tpd_create in Hh. cbn [tpd_general tpd_with_general tpd_time tpd_pt tpd_pd tpd_pe tpd_ps tpd_cp] in Hh.
    rewrite Rg, Rd, Rv in Hh.
    unfold tp_init in Hts.
    rewrite (feed_ho_timing _ _ _ _ _ _ _ _ _ _ _ _ _ _ ts rs Hts) in Hh.
    rewrite (feed_ho_noop SecColors) in Hh by (cbn; tauto).
    destruct (feed ho_parsers _ (tag SecHitObjects _)) as [sF|w|] eqn:EF; cbn [obind] in Hh; try discriminate.
    destruct (feed_ho_objects_inv _ _ _ _ _ _ _ _ _ EF) as (hs & hrs & Hrun).
    match type of EF with feed _ (Done (mkHOD ?tp0 ?d0 ?e0 _ _ _ _)) _ = _ =>
      destruct (feed_ho_objects _ tp0 d0 e0 _ _ _ _ _ _ Hrun) as (EF' & _) end.
    rewrite EF' in EF. injection EF as <-.
    cbn [tpd_general] in Hrun.
    destruct (hod_finish_inv dist2 _ _ Hh) as (_ & _ & _ & Hc & Hf).
    cbn [hod_tp tpd_core tpd_general tpd_time tpd_pt tpd_pd tpd_pe tpd_ps tpd_cp hod_events hod_difficulty hod_objects] in Hc, Hf.
    split.
    - rewrite <- Hc. f_equal. pose proof (tp_run_general _ _ _ _ Hts) as Hg. cbn [ts_general] in Hg.
      destruct ts as [g' t' a b c' d' e']. cbn [ts_general] in Hg. subst g'. reflexivity.
    - exists hs, hrs. split; [exact Hrun|exact Hf].
  Qed.
End Composed.

(* DecodeScalar: the decoder keeps "scalar-ness".  Rust `String`/`&str` values
   are sequences of Unicode scalar values; the model's [str := list Z] is
   untyped.  If every input line is a sequence of scalar values
   ([scalar_str], Proofs/EncodingFacts.v) then so is every string stored in
   the decoded map: every stored string is cut out of an input line by
   trimming / splitting / prefix stripping, followed by one of the maps
   `\` -> `/` ([to_standardized_path], 47 is a scalar value) and `\\` -> `\`
   (which only keeps characters of its argument).

   The [str]-typed fields reachable from [BeatmapV]:
     GeneralState.g_audio_file, the eight texts of MetadataState,
     EventsState.ev_background_file, CustomColor.cc_name (ColorsState),
     and SampleName.NFile (HitSampleInfo.hs_name) in the samples and the
     slider node samples of the hit objects.
   EditorState, DifficultyState, ControlPoints, Color, path control points hold
   no strings ([hs_suffix] is an [option Z] printed as a number). *)
From RM Require Import Model.Encoding Model.Decoders Proofs.EncodingFacts Proofs.TransparencyFacts
     Proofs.EncImage Proofs.MapLevelFacts Proofs.DecodersFacts.
From RM Require Import Gen.Generated.
From Coq Require Import Permutation ZifyBool.
Open Scope Z_scope.

(* ---------- the statement ---------- *)

(* samples: only file names are free text *)
Definition name_scalar (s : HitSampleInfo) : Prop :=
  match hs_name s with NFile f => scalar_str f | NDefault _ => True end.

Definition kind_scalar (k : HitObjectKind) : Prop :=
  match k with KSlider s => Forall (Forall name_scalar) (sl_node_samples s) | _ => True end.

Definition obj_scalar (h : HitObject) : Prop :=
  Forall name_scalar (h_samples h) /\
  match h_kind h with KSlider s => Forall (Forall name_scalar) (sl_node_samples s) | _ => True end.

Definition meta_scalar (m : MetadataState) : Prop :=
  scalar_str (m_title m) /\ scalar_str (m_title_unicode m) /\ scalar_str (m_artist m) /\
  scalar_str (m_artist_unicode m) /\ scalar_str (m_creator m) /\ scalar_str (m_version m) /\
  scalar_str (m_source m) /\ scalar_str (m_tags m).

Definition colors_scalar (c : ColorsState) : Prop :=
  Forall (fun c => scalar_str (cc_name c)) (co_custom_colors c).

Definition bmv_scalar (m : BeatmapV) : Prop :=
  scalar_str (g_audio_file (hov_general (bmv_ho m))) /\
  (scalar_str (m_title (bmv_metadata m)) /\ scalar_str (m_title_unicode (bmv_metadata m)) /\
   scalar_str (m_artist (bmv_metadata m)) /\ scalar_str (m_artist_unicode (bmv_metadata m)) /\
   scalar_str (m_creator (bmv_metadata m)) /\ scalar_str (m_version (bmv_metadata m)) /\
   scalar_str (m_source (bmv_metadata m)) /\ scalar_str (m_tags (bmv_metadata m))) /\
  scalar_str (ev_background_file (hov_events (bmv_ho m))) /\
  Forall (fun c => scalar_str (cc_name c)) (co_custom_colors (bmv_colors m)) /\
  Forall obj_scalar (hov_hit_objects (bmv_ho m)).

(* ---------- scalar-ness of the pieces of a line ---------- *)

Lemma scalar_nil : scalar_str [].
Proof. constructor. Qed.

Lemma scalar_incl a s : (forall x, In x a -> In x s) -> scalar_str s -> scalar_str a.
Proof. unfold scalar_str. rewrite !Forall_forall. intros Hin Hs x Hx. exact (Hs x (Hin x Hx)). Qed.

Lemma scalar_sub a s : sub a s -> scalar_str s -> scalar_str a.
Proof.
  intros (p & q & ->) H. apply scalar_app in H. destruct H as [_ H]. apply scalar_app in H. tauto.
Qed.

Lemma scalar_trim_comment s : scalar_str s -> scalar_str (trim_comment s).
Proof. apply scalar_sub. apply trim_comment_sub. Qed.

Lemma bs_map_scalar x : is_scalar x = true -> is_scalar (bs_map x) = true.
Proof. intros H. unfold bs_map. destruct (x =? backslash); [reflexivity|exact H]. Qed.

Lemma scalar_std_path s : scalar_str s -> scalar_str (to_standardized_path s).
Proof.
  intros H. rewrite to_standardized_path_map. unfold scalar_str. apply Forall_map.
  eapply Forall_impl; [|exact H]. exact bs_map_scalar.
Qed.

Lemma scalar_clean_filename s : scalar_str s -> scalar_str (clean_filename s).
Proof.
  intros H. unfold clean_filename. apply scalar_std_path.
  apply (scalar_incl _ (trim_matches 34 s)).
  - intros x Hx. unfold replace_sub in Hx. exact (collapse_in _ _ _ _ Hx).
  - exact (scalar_sub _ _ (trim_matches_sub 34 s) H).
Qed.

Lemma scalar_split d s : scalar_str s -> Forall scalar_str (split_on d s).
Proof.
  intros H. apply Forall_forall. intros p Hp.
  exact (scalar_sub _ _ (proj1 (split_on_piece d s p Hp)) H).
Qed.

Lemma scalar_kv_value {K} (from_str : str -> option K) s key v :
  kv_parse from_str s = Some (key, v) -> scalar_str s -> scalar_str v.
Proof. intros E. apply scalar_sub. exact (proj1 (kv_parse_facts _ _ _ _ E)). Qed.

(* ---------- [General] ---------- *)

Lemma parse_general_scalar st l : scalar_str l -> scalar_str (g_audio_file st) ->
  scalar_str (g_audio_file (fst (parse_general st l))).
Proof.
  intros Hl Hst. unfold parse_general.
  destruct (kv_parse general_key_from_str (trim_comment l)) as [[key v]|] eqn:E; [|exact Hst].
  pose proof (scalar_kv_value _ _ _ _ E (scalar_trim_comment l Hl)) as Hv.
  destruct key;
    repeat match goal with
           | |- context [pn_i32 v] => destruct (pn_i32 v)
           | |- context [pn_f32 v] => destruct (pn_f32 v)
           | |- context [assoc_str ?t v] => destruct (assoc_str t v)
           end;
    cbn [fst g_audio_file set_g_audio_file set_g_audio_lead_in set_g_preview_time set_g_default_sample_bank
         set_g_default_sample_volume set_g_stack_leniency set_g_mode set_g_letterbox_in_breaks
         set_g_special_style set_g_widescreen_storyboard set_g_epilepsy_warning
         set_g_samples_match_playback_rate set_g_countdown set_g_countdown_offset];
    try exact Hst.
  exact (scalar_std_path v Hv).
Qed.

(* ---------- [Metadata] ---------- *)

Lemma parse_metadata_scalar st l : scalar_str l -> meta_scalar st ->
  meta_scalar (fst (parse_metadata st l)).
Proof.
  intros Hl Hst. unfold parse_metadata.
  destruct (kv_parse metadata_key_from_str l) as [[key v]|] eqn:E; [|exact Hst].
  pose proof (scalar_kv_value _ _ _ _ E Hl) as Hv.
  destruct Hst as (H1 & H2 & H3 & H4 & H5 & H6 & H7 & H8).
  destruct key;
    repeat match goal with
           | |- context [pn_i32 v] => destruct (pn_i32 v)
           end;
    cbn [fst]; unfold meta_scalar;
    cbn [m_title m_title_unicode m_artist m_artist_unicode m_creator m_version m_source m_tags
         set_m_title set_m_title_unicode set_m_artist set_m_artist_unicode set_m_creator set_m_version
         set_m_source set_m_tags set_m_beatmap_id set_m_beatmap_set_id];
    repeat split; assumption.
Qed.

(* ---------- [Events] ---------- *)

Lemma parse_events_scalar st l : scalar_str l -> scalar_str (ev_background_file st) ->
  scalar_str (ev_background_file (fst (parse_events st l))).
Proof.
  intros Hl Hst. unfold parse_events.
  pose proof (scalar_split comma _ (scalar_trim_comment l Hl)) as Hp.
  set (split0 := split_on comma (trim_comment l)) in *. clearbody split0.
  destruct split0 as [|t0 s1]; cbn [next]; [exact Hst|].
  destruct s1 as [|t1 s2]; cbn [next]; [exact Hst|].
  destruct s2 as [|t2 s3]; cbn [next]; [exact Hst|].
  inversion Hp as [|? ? _ Hp1]; subst. inversion Hp1 as [|? ? _ Hp2]; subst.
  inversion Hp2 as [|? ? H2 Hp3]; subst.
  destruct (event_type_from_str t0) as [[| | | | | |]|]; try exact Hst.
  - (* Background *)
    cbn [fst ev_background_file set_ev_background_file]. exact (scalar_clean_filename t2 H2).
  - (* Video *)
    destruct (last3_lower (clean_filename t2)) as [ext|]; [|exact Hst].
    destruct (negb (is_video_ext ext)); [|exact Hst].
    cbn [fst ev_background_file set_ev_background_file]. exact (scalar_clean_filename t2 H2).
  - (* Break *)
    destruct (pn_f64 t1) as [s|]; [|exact Hst].
    destruct (pn_f64 t2) as [e|]; [|exact Hst].
    exact Hst.
  - (* Sprite *)
    destruct (ev_background_file st) eqn:Ebg; [|cbn [fst]; rewrite Ebg; exact Hst].
    destruct s3 as [|t3 s4]; cbn [next fst]; [rewrite Ebg; exact Hst|].
    inversion Hp3 as [|? ? H3 _]; subst.
    cbn [ev_background_file set_ev_background_file]. exact (scalar_clean_filename t3 H3).
Qed.

(* ---------- [Colours] ---------- *)

Lemma parse_colors_scalar st l : scalar_str l -> colors_scalar st ->
  colors_scalar (fst (parse_colors st l)).
Proof.
  intros Hl Hst. unfold parse_colors, kv_parse.
  destruct (kv_pieces (trim_comment l)) as [k v] eqn:E.
  destruct (kv_pieces_facts _ _ _ E) as (Hks & _).
  pose proof (scalar_sub _ _ Hks (scalar_trim_comment l Hl)) as Hk.
  unfold colors_key_from_str.
  destruct (starts_with (lit colors_combo_prefix) k);
    (destruct (color_from_str v) as [c|]; [|exact Hst]).
  - exact Hst.
  - unfold colors_scalar in *.
    destruct (set_custom_color (co_custom_colors st) k c) as [l'|] eqn:El;
      cbn [fst co_custom_colors set_co_custom_colors].
    + destruct (set_custom_color_some _ _ _ _ El) as [Hm _].
      apply (Forall_map cc_name scalar_str). rewrite Hm. apply (Forall_map cc_name scalar_str). exact Hst.
    + apply Forall_app. split; [exact Hst|]. constructor; [exact Hk|constructor].
Qed.

(* ---------- [HitObjects]: one line ---------- *)

(* the only free text of a SampleBankInfo is the optional file name *)
Definition fn_scalar (b : SampleBankInfo) : Prop :=
  match sbi_filename b with Some f => scalar_str f | None => True end.

Lemma fn_scalar_default : fn_scalar sbi_default.
Proof. exact I. Qed.

Lemma rcsb_scalar b split bo b' : read_custom_sample_banks b split bo = Some b' ->
  fn_scalar b -> Forall scalar_str split -> fn_scalar b'.
Proof.
  intros H Hb Hs. unfold read_custom_sample_banks in H.
  destruct split as [|first r1]; [inversion H; subst; exact Hb|].
  destruct first as [|c f]; [inversion H; subst; exact Hb|].
  destruct (pn_i32 (c :: f)) as [bank_n|]; [|discriminate].
  destruct r1 as [|s2 r2]; [discriminate|].
  destruct (pn_i32 s2) as [add_n|]; [|discriminate].
  cbv zeta in H. destruct bo.
  - inversion H; subst. exact Hb.
  - inversion Hs as [|? ? _ Hs1]; subst. inversion Hs1 as [|? ? _ Hs2]; subst.
    destruct r2 as [|s3 r3]; cbn [next] in H.
    + cbn [next fst] in H. inversion H; subst. exact I.
    + destruct (pn_i32 s3) as [custom|]; [|discriminate].
      inversion Hs2 as [|? ? _ Hs3]; subst.
      destruct r3 as [|s4 r4]; cbn [next] in H.
      * cbn [next fst] in H. inversion H; subst. exact I.
      * destruct (pn_i32 s4) as [vol|]; cbn [omap] in H; [|discriminate].
        inversion Hs3 as [|? ? _ Hs4]; subst.
        inversion H; subst. unfold fn_scalar. cbn [sbi_filename].
        destruct r4 as [|s5 r5]; cbn [next fst]; [exact I|].
        inversion Hs4; subst. assumption.
Qed.

Lemma hs_new_name n b c v : hs_name (hs_new n b c v) = n.
Proof. reflexivity. Qed.

Lemma convert_scalar b st : fn_scalar b -> Forall name_scalar (convert_sound_type b st).
Proof.
  intros Hb. unfold convert_sound_type. cbv beta zeta. constructor.
  - unfold fn_scalar in Hb. unfold name_scalar.
    destruct (sbi_filename b) as [[|c f]|]; cbn [hs_set_layered hs_name]; rewrite hs_new_name; auto.
  - repeat (apply Forall_app; split);
      match goal with |- Forall _ (if ?c then _ else _) => destruct c end;
      repeat constructor.
Qed.

Lemma read_extras_scalar o b b' : read_extras o b = Some b' ->
  fn_scalar b -> (forall s, o = Some s -> scalar_str s) -> fn_scalar b'.
Proof.
  unfold read_extras. intros H Hb Ho. destruct o as [s|]; [|inversion H; subst; exact Hb].
  exact (rcsb_scalar _ _ _ _ H Hb (scalar_split 58 s (Ho s eq_refl))).
Qed.

Lemma replicate_Forall {A} (P : A -> Prop) n x : P x -> Forall P (replicate n x).
Proof. intros H. induction n; cbn [replicate]; constructor; assumption. Qed.

Lemma zip_banks_scalar : forall infos sets infos', zip_banks infos sets = Some infos' ->
  Forall fn_scalar infos -> Forall scalar_str sets -> Forall fn_scalar infos'.
Proof.
  induction infos as [|b br IH]; intros sets infos' H Hi Hs.
  - destruct sets; inversion H; subst; exact Hi.
  - destruct sets as [|s sr]; [inversion H; subst; exact Hi|]. cbn [zip_banks] in H.
    inversion Hi as [|? ? Hb Hbr]; subst. inversion Hs as [|? ? Hs0 Hsr]; subst.
    destruct (read_custom_sample_banks b (split_on 58 s) false) as [b'|] eqn:E; [|discriminate].
    destruct (zip_banks br sr) as [r'|] eqn:Ez; cbn [omap] in H; [|discriminate].
    inversion H; subst. constructor.
    + exact (rcsb_scalar _ _ _ _ E Hb (scalar_split 58 s Hs0)).
    + exact (IH _ _ Ez Hbr Hsr).
Qed.

Lemma zip_convert_scalar : forall infos sounds, Forall fn_scalar infos ->
  Forall (Forall name_scalar) (zip_convert infos sounds).
Proof.
  induction infos as [|b br IH]; intros sounds Hi; [constructor|].
  destruct sounds as [|s sr]; cbn [zip_convert]; [constructor|].
  inversion Hi; subst. constructor; [apply convert_scalar; assumption|apply IH; assumption].
Qed.

Lemma nonempty_some o s : nonempty o = Some s -> o = Some s.
Proof. destruct o as [[|c r]|]; cbn; intros H; inversion H; reflexivity. Qed.

Lemma parse_slider_pre_scalar sound rest pre : Forall scalar_str rest ->
  parse_slider_pre sound rest = Done (Some pre) ->
  Forall (Forall name_scalar) (spre_nodes pre) /\ fn_scalar (spre_bank pre).
Proof.
  intros Hr H. unfold parse_slider_pre in H.
  destruct rest as [|point_str [|repeat_s r2]]; try discriminate.
  inversion Hr as [|? ? _ Hr1]; subst. inversion Hr1 as [|? ? _ Hr2]; subst.
  destruct (pn_i32 repeat_s) as [rc0|]; [|discriminate].
  destruct (repeat_cap <? rc0); [discriminate|].
  destruct (rc0 - 1 <? i32_min); [discriminate|]. cbv zeta in H.
  assert (G : forall (len : option F64) r3, Forall scalar_str r3 ->
    (let '(next_8, r4) := next r3 in
     let '(next_9, r5) := next r4 in
     let '(next_10, _) := next r5 in
     match (match next_10 with
            | Some s => read_custom_sample_banks sbi_default (split_on 58 s) true
            | None => Some sbi_default end) with
     | None => Done None
     | Some bank_info =>
         if Z.max 0 (rc0 - 1) <? 0 then Panic 150
         else
           match (match nonempty next_9 with
                  | Some s => zip_banks (replicate (Z.to_nat (Z.max 0 (rc0 - 1) + 2)) bank_info) (split_on 124 s)
                  | None => Some (replicate (Z.to_nat (Z.max 0 (rc0 - 1) + 2)) bank_info) end) with
           | None => Done None
           | Some node_bank_infos =>
               Done (Some (mkSliderPre point_str (Z.max 0 (rc0 - 1)) len
                             (zip_convert node_bank_infos
                                match nonempty next_8 with
                                | Some s => zip_sounds (replicate (Z.to_nat (Z.max 0 (rc0 - 1) + 2)) sound) (split_on 124 s)
                                | None => replicate (Z.to_nat (Z.max 0 (rc0 - 1) + 2)) sound
                                end) bank_info))
           end
     end) = Done (Some pre) ->
    Forall (Forall name_scalar) (spre_nodes pre) /\ fn_scalar (spre_bank pre)).
  { clear H. intros len r3 Hr3 H.
    assert (N10 : forall o10 : option str, (forall s, o10 = Some s -> scalar_str s) ->
              forall bi, (match o10 with
                          | Some s => read_custom_sample_banks sbi_default (split_on 58 s) true
                          | None => Some sbi_default end) = Some bi -> fn_scalar bi).
    { intros o10 Ho bi E. destruct o10 as [s|]; [|inversion E; subst; exact I].
      exact (rcsb_scalar _ _ _ _ E fn_scalar_default (scalar_split 58 s (Ho s eq_refl))). }
    assert (Fin : forall (o8 o9 o10 : option str), (forall s, o9 = Some s -> scalar_str s) ->
              (forall s, o10 = Some s -> scalar_str s) ->
              match (match o10 with
                     | Some s => read_custom_sample_banks sbi_default (split_on 58 s) true
                     | None => Some sbi_default end) with
              | None => Done None
              | Some bank_info =>
                  if Z.max 0 (rc0 - 1) <? 0 then Panic 150
                  else
                    match (match nonempty o9 with
                           | Some s => zip_banks (replicate (Z.to_nat (Z.max 0 (rc0 - 1) + 2)) bank_info) (split_on 124 s)
                           | None => Some (replicate (Z.to_nat (Z.max 0 (rc0 - 1) + 2)) bank_info) end) with
                    | None => Done None
                    | Some node_bank_infos =>
                        Done (Some (mkSliderPre point_str (Z.max 0 (rc0 - 1)) len
                                      (zip_convert node_bank_infos
                                         match nonempty o8 with
                                         | Some s => zip_sounds (replicate (Z.to_nat (Z.max 0 (rc0 - 1) + 2)) sound) (split_on 124 s)
                                         | None => replicate (Z.to_nat (Z.max 0 (rc0 - 1) + 2)) sound
                                         end) bank_info))
                    end
              end = Done (Some pre) ->
              Forall (Forall name_scalar) (spre_nodes pre) /\ fn_scalar (spre_bank pre)).
    { intros o8 o9 o10 H9 H10 E.
      destruct (match o10 with Some s => _ | None => _ end) as [bi|] eqn:Eb; [|discriminate].
      pose proof (N10 o10 H10 bi Eb) as Hbi.
      destruct (Z.max 0 (rc0 - 1) <? 0); [discriminate|].
      destruct (match nonempty o9 with Some s => _ | None => _ end) as [nbi|] eqn:En; [|discriminate].
      inversion E; subst pre. cbn [spre_nodes spre_bank]. split; [|exact Hbi].
      apply zip_convert_scalar.
      destruct (nonempty o9) as [s|] eqn:E9.
      - apply nonempty_some in E9.
        exact (zip_banks_scalar _ _ _ En (replicate_Forall _ _ _ Hbi) (scalar_split 124 s (H9 s E9))).
      - inversion En; subst. exact (replicate_Forall _ _ _ Hbi). }
    destruct r3 as [|n8 r4]; cbn [next] in H; [apply (Fin None None None); [discriminate|discriminate|exact H]|].
    inversion Hr3 as [|? ? _ Hr4]; subst.
    destruct r4 as [|n9 r5]; cbn [next] in H; [apply (Fin (Some n8) None None); [discriminate|discriminate|exact H]|].
    inversion Hr4 as [|? ? H9 Hr5]; subst.
    destruct r5 as [|n10 r6]; cbn [next] in H.
    - apply (Fin (Some n8) (Some n9) None); [intros s [= <-]; exact H9|discriminate|exact H].
    - inversion Hr5 as [|? ? H10 _]; subst.
      apply (Fin (Some n8) (Some n9) (Some n10)); [intros s [= <-]; exact H9|intros s [= <-]; exact H10|exact H]. }
  destruct r2 as [|len_s r3]; cbn [next] in H.
  - exact (G None [] (Forall_nil _) H).
  - inversion Hr2 as [|? ? _ Hr3]; subst.
    destruct (pn_f64_lim coord_lim64 len_s) as [v|]; [|discriminate].
    exact (G _ r3 Hr3 H).
Qed.

Lemma parse_header_rest line h : scalar_str line -> parse_header line = Some h ->
  Forall scalar_str (hd_rest h).
Proof.
  intros Hl H. unfold parse_header in H.
  pose proof (scalar_split 44 _ (scalar_trim_comment line Hl)) as Hp.
  destruct (split_on 44 (trim_comment line)) as [|x [|y [|st [|kind [|snd_ rest]]]]]; try discriminate.
  destruct (parse_coord x); [|discriminate]. destruct (parse_coord y); [|discriminate].
  destruct (pn_f64 st); [|discriminate]. destruct (parse_i32_raw kind); [|discriminate].
  cbv zeta in H. destruct (parse_sound_type snd_); [|discriminate].
  inversion H; subst. cbn [hd_rest].
  do 5 (let X := fresh "X" in inversion Hp as [|? ? _ X]; subst; clear Hp; rename X into Hp). exact Hp.
Qed.

Lemma next_fst_scalar (l : list str) s : Forall scalar_str l -> fst (next l) = Some s -> scalar_str s.
Proof. intros H E. destruct l as [|x r]; cbn in E; [discriminate|]. inversion E; subst. inversion H; assumption. Qed.

Lemma parse_kind_scalar st h st' r : Forall scalar_str (hd_rest h) ->
  parse_kind st h = Done (st', r) ->
  ho_objects st' = ho_objects st /\
  match r with Some (kind, bank) => kind_scalar kind /\ fn_scalar bank | None => True end.
Proof.
  intros Hr H. unfold parse_kind in H. cbv zeta in H.
  destruct (has_flag (hd_type h) hot_circle).
  { destruct (read_extras (fst (next (hd_rest h))) sbi_default) as [bank|] eqn:E; inversion H; subst;
      (split; [reflexivity|]); [|exact I].
    split; [exact I|].
    exact (read_extras_scalar _ _ _ E fn_scalar_default (fun s => next_fst_scalar _ s Hr)). }
  destruct (has_flag (hd_type h) hot_slider).
  { destruct (parse_slider_pre (hd_sound h) (hd_rest h)) as [[pre|]|w|] eqn:Ep; try discriminate.
    - destruct (parse_slider_pre_scalar _ _ _ Hr Ep) as [Hn Hb].
      destruct (convert_path_str _ _ _) as [[pb [|]]|w|]; try discriminate; inversion H; subst;
        (split; [reflexivity|]); [|exact I].
      split; [exact Hn|exact Hb].
    - inversion H; subst. split; [reflexivity|exact I]. }
  destruct (has_flag (hd_type h) hot_spinner).
  { destruct (hd_rest h) as [|dur_s r1]; [inversion H; subst; split; [reflexivity|exact I]|].
    destruct (pn_f64 dur_s); [|inversion H; subst; split; [reflexivity|exact I]].
    inversion Hr as [|? ? _ Hr1]; subst.
    destruct (read_extras (fst (next r1)) sbi_default) as [bank|] eqn:E; inversion H; subst;
      (split; [reflexivity|]); [|exact I].
    split; [exact I|].
    exact (read_extras_scalar _ _ _ E fn_scalar_default (fun s => next_fst_scalar _ s Hr1)). }
  destruct (has_flag (hd_type h) hot_hold).
  { destruct (nonempty (fst (next (hd_rest h)))) as [s|] eqn:En.
    - apply nonempty_some in En. pose proof (next_fst_scalar _ _ Hr En) as Hs.
      pose proof (scalar_split 58 s Hs) as Hp.
      destruct (split_on 58 s) as [|e_s ss]; [inversion H; subst; split; [reflexivity|exact I]|].
      destruct (pn_f64 e_s); [|inversion H; subst; split; [reflexivity|exact I]].
      inversion Hp as [|? ? _ Hss]; subst.
      destruct (read_custom_sample_banks sbi_default ss false) as [bank|] eqn:E; inversion H; subst;
        (split; [reflexivity|]); [|exact I].
      split; [exact I|]. exact (rcsb_scalar _ _ _ _ E fn_scalar_default Hss).
    - inversion H; subst. split; [reflexivity|]. split; exact I. }
  inversion H; subst. split; [reflexivity|exact I].
Qed.

Lemma parse_hit_objects_scalar st line st' r : scalar_str line ->
  parse_hit_objects st line = Done (st', r) ->
  Forall obj_scalar (ho_objects st) -> Forall obj_scalar (ho_objects st').
Proof.
  intros Hl H Hst. unfold parse_hit_objects in H.
  destruct (parse_header line) as [h|] eqn:Eh; [|inversion H; subst; exact Hst].
  pose proof (parse_header_rest _ _ Hl Eh) as Hr.
  destruct (parse_kind st h) as [[st1 [[kind bank]|]]|w|] eqn:Ek; try discriminate;
    destruct (parse_kind_scalar _ _ _ _ Hr Ek) as [Eo Hk].
  - inversion H; subst. cbn [ho_objects]. rewrite Eo. apply Forall_app. split; [exact Hst|].
    constructor; [|constructor]. destruct Hk as [Hk Hb]. split.
    + cbn [h_samples]. exact (convert_scalar _ _ Hb).
    + cbn [h_kind]. exact Hk.
  - inversion H; subst. rewrite Eo. exact Hst.
Qed.

(* ---------- the finishing pass (From<HitObjectsState> for HitObjects) ---------- *)

Lemma sp_apply_name p s : hs_name (sp_apply p s) = hs_name s.
Proof. unfold sp_apply. destruct (hs_name s) eqn:E; cbn [hs_name]; reflexivity. Qed.

Lemma sp_apply_scalar p l : Forall name_scalar l -> Forall name_scalar (map (sp_apply p) l).
Proof.
  intros H. apply Forall_map. eapply Forall_impl; [|exact H].
  intros s Hs. unfold name_scalar in *. rewrite sp_apply_name. exact Hs.
Qed.

Lemma force_new_combo_scalar h f : obj_scalar h -> obj_scalar (force_new_combo h f).
Proof.
  intros [Hs Hk]. unfold force_new_combo, obj_scalar in *.
  destruct (h_kind h) as [c|s|s|hd] eqn:E; cbn [h_samples h_kind sl_node_samples]; try rewrite E; split; assumption.
Qed.

Lemma post_process_breaks_scalar : forall objs bs, Forall obj_scalar objs ->
  Forall obj_scalar (post_process_breaks h_start force_new_combo bs objs).
Proof.
  induction objs as [|h r IH]; intros bs H; [constructor|]. inversion H; subst.
  cbn [post_process_breaks]. destruct (skip_breaks bs (h_start h) false) as [bs' f].
  constructor; [apply force_new_combo_scalar; assumption|apply IH; assumption].
Qed.

Section Finish.
  Variable dist_of : Z -> list PCP -> option F64 -> outcome F64.

  Lemma apply_nodes_scalar c start dur sc : forall nodes i, Forall (Forall name_scalar) nodes ->
    Forall (Forall name_scalar) (apply_nodes c start dur sc i nodes).
  Proof.
    induction nodes as [|n r IH]; intros i H; [constructor|]. inversion H; subst.
    cbn [apply_nodes]. constructor; [apply sp_apply_scalar; assumption|apply IH; assumption].
  Qed.

  Lemma process_object_scalar c sm mode h h' : obj_scalar h ->
    process_object dist_of c sm mode h = Done h' -> obj_scalar h'.
  Proof.
    intros [Hs Hk] H. unfold process_object in H. cbv zeta in H.
    destruct (h_kind h) as [ci|s|s|hd] eqn:E.
    - cbn [obind] in H. inversion H; subst. split; [apply sp_apply_scalar; exact Hs|exact I].
    - destruct (difficulty_point_at c (h_start h)) as [dp|w|]; cbn [obind] in H; try discriminate.
      destruct (slider_duration dist_of _) as [d|w|]; cbn [obind] in H; try discriminate.
      inversion H; subst. split; [apply sp_apply_scalar; exact Hs|].
      cbn [h_kind sl_node_samples]. apply apply_nodes_scalar. exact Hk.
    - cbn [obind] in H. inversion H; subst. split; [apply sp_apply_scalar; exact Hs|exact I].
    - cbn [obind] in H. inversion H; subst. split; [apply sp_apply_scalar; exact Hs|exact I].
  Qed.

  Lemma process_objects_scalar c sm mode : forall l l', Forall obj_scalar l ->
    process_objects dist_of c sm mode l = Done l' -> Forall obj_scalar l'.
  Proof.
    induction l as [|h r IH]; intros l' Hl H; cbn [process_objects] in H; [inversion H; constructor|].
    inversion Hl as [|? ? Hh Hr]; subst.
    destruct (process_object dist_of c sm mode h) as [h1|w|] eqn:Eh; cbn [obind] in H; try discriminate.
    destruct (process_objects dist_of c sm mode r) as [r1|w|] eqn:Er; cbn [obind] in H; try discriminate.
    inversion H; subst. constructor; [exact (process_object_scalar _ _ _ _ _ Hh Eh)|exact (IH _ Hr eq_refl)].
  Qed.

  Lemma finish_hit_objects_scalar c breaks sm mode objs objs' : Forall obj_scalar objs ->
    finish_hit_objects dist_of c breaks sm mode objs = Done objs' -> Forall obj_scalar objs'.
  Proof.
    intros Ho H. unfold finish_hit_objects in H. cbv zeta in H.
    apply (process_objects_scalar _ _ _ _ _ (post_process_breaks_scalar _ breaks
             (Permutation_Forall (Permutation_sym (ssort_perm start_key objs)) Ho)) H).
  Qed.
End Finish.

(* ---------- the parser state of the Beatmap decoder ---------- *)

Definition bmd_scalar (b : BMD) : Prop :=
  scalar_str (g_audio_file (tpd_general (hod_tp (bmd_ho b)))) /\
  meta_scalar (bmd_metadata b) /\
  scalar_str (ev_background_file (hod_events (bmd_ho b))) /\
  colors_scalar (bmd_colors b) /\
  Forall obj_scalar (hod_objects (bmd_ho b)).

Definition bmd_scalar_inv (os : outcome BMD) : Prop :=
  match os with Done b => bmd_scalar b | _ => True end.

Lemma defaults_scalar v : bmd_scalar (bmd_create v).
Proof.
  unfold bmd_scalar, bmd_create, meta_scalar, colors_scalar. cbn.
  repeat split; constructor.
Qed.

Lemma bm_step_scalar sec os l : scalar_str l -> bmd_scalar_inv os ->
  bmd_scalar_inv (fst (parser_of bm_parsers sec os l)).
Proof.
  intros Hl Hos. destruct os as [b|w|]; [|destruct sec; exact I|destruct sec; exact I].
  cbn [bmd_scalar_inv] in Hos. destruct Hos as (Qg & Qm & Qe & Qc & Qo).
  destruct b as [ver ed md co ho]. destruct ho as [tp df ev last curve verts objs].
  destruct tp as [gen ptime ppt ppd ppe pps pcp].
  cbn [bmd_version bmd_editor bmd_metadata bmd_colors bmd_ho hod_tp hod_difficulty hod_events hod_objects
       tpd_general] in *.
  assert (Fin : forall ver' ed' md' co' tp' df' ev' last' curve' verts' objs',
            scalar_str (g_audio_file (tpd_general tp')) -> meta_scalar md' ->
            scalar_str (ev_background_file ev') -> colors_scalar co' -> Forall obj_scalar objs' ->
            bmd_scalar (mkBMD ver' ed' md' co' (mkHOD tp' df' ev' last' curve' verts' objs'))).
  { intros. unfold bmd_scalar.
    cbn [bmd_version bmd_editor bmd_metadata bmd_colors bmd_ho hod_tp hod_difficulty hod_events hod_objects].
    refine (conj _ (conj _ (conj _ (conj _ _)))); assumption. }
  destruct sec; cbn [parser_of bm_parsers p_general p_editor p_metadata p_difficulty p_events p_timing_points
                     p_colors p_hit_objects p_variables p_catch_the_beat p_mania];
    unfold liftp, liftt, on_ho, noop; cbn [obind bmd_ho bmd_version bmd_editor bmd_metadata bmd_colors fst].
  - (* General *)
    unfold hod_parse_general, tpd_parse_general, hod_with_tp, tpd_with_general.
    cbn [hod_tp tpd_general hod_difficulty hod_events hod_last hod_curve hod_vertices hod_objects
         tpd_time tpd_pt tpd_pd tpd_pe tpd_ps tpd_cp].
    pose proof (parse_general_scalar gen l Hl Qg) as Hg. destruct (parse_general gen l) as [g r]. cbn [fst] in Hg.
    cbn [obind fst bmd_scalar_inv]. apply Fin; cbn [tpd_general]; assumption.
  - (* Editor *)
    unfold bmd_parse_editor. cbn [bmd_editor bmd_version bmd_metadata bmd_colors bmd_ho].
    destruct (parse_editor ed l) as [e r].
    cbn [fst bmd_scalar_inv]. apply Fin; cbn [tpd_general]; assumption.
  - (* Metadata *)
    unfold bmd_parse_metadata. cbn [bmd_editor bmd_version bmd_metadata bmd_colors bmd_ho].
    pose proof (parse_metadata_scalar md l Hl Qm) as Hm. destruct (parse_metadata md l) as [m r]. cbn [fst] in Hm.
    cbn [fst bmd_scalar_inv]. apply Fin; cbn [tpd_general]; assumption.
  - (* Difficulty *)
    unfold hod_parse_difficulty.
    cbn [hod_tp tpd_general hod_difficulty hod_events hod_last hod_curve hod_vertices hod_objects].
    destruct (parse_difficulty df l) as [d r].
    cbn [obind fst bmd_scalar_inv]. apply Fin; cbn [tpd_general]; assumption.
  - (* Events *)
    unfold hod_parse_events.
    cbn [hod_tp tpd_general hod_difficulty hod_events hod_last hod_curve hod_vertices hod_objects].
    pose proof (parse_events_scalar ev l Hl Qe) as He. destruct (parse_events ev l) as [e r]. cbn [fst] in He.
    cbn [obind fst bmd_scalar_inv]. apply Fin; cbn [tpd_general]; assumption.
  - (* TimingPoints *)
    unfold hod_parse_timing_points, tpd_parse_timing_points, hod_with_tp, tpd_with_core.
    cbn [hod_tp tpd_general hod_difficulty hod_events hod_last hod_curve hod_vertices hod_objects].
    destruct (parse_timing_points _ l) as [[c r]|w|]; cbn [obind fst bmd_scalar_inv]; try exact I.
    apply Fin; cbn [tpd_general]; assumption.
  - (* Colours *)
    unfold bmd_parse_colors. cbn [bmd_editor bmd_version bmd_metadata bmd_colors bmd_ho].
    pose proof (parse_colors_scalar co l Hl Qc) as Hc. destruct (parse_colors co l) as [c r]. cbn [fst] in Hc.
    cbn [fst bmd_scalar_inv]. apply Fin; cbn [tpd_general]; assumption.
  - (* HitObjects *)
    unfold hod_parse_hit_objects, hod_with_core.
    cbn [hod_tp tpd_general hod_difficulty hod_events hod_last hod_curve hod_vertices hod_objects].
    destruct (parse_hit_objects _ l) as [[c r]|w|] eqn:Eh; cbn [obind fst bmd_scalar_inv]; try exact I.
    apply Fin; cbn [tpd_general]; try assumption.
    apply (parse_hit_objects_scalar _ _ _ _ Hl Eh). unfold hod_core. cbn [ho_objects hod_objects]. exact Qo.
  - cbn [bmd_scalar_inv]. apply Fin; cbn [tpd_general]; assumption.
  - cbn [bmd_scalar_inv]. apply Fin; cbn [tpd_general]; assumption.
  - cbn [bmd_scalar_inv]. apply Fin; cbn [tpd_general]; assumption.
Qed.

(* ---------- the theorem ---------- *)

Theorem decode_beatmap_scalar dist lines m :
  Forall scalar_str lines -> decode_beatmap dist lines = Done m -> bmv_scalar m.
Proof.
  intros Hl H. unfold decode_beatmap, driver in H.
  set (vr := parse_version lines) in *.
  assert (Hfin : forall os, bmd_scalar_inv os -> obind os (bmd_finish dist) = Done m -> bmv_scalar m).
  { intros os Hos Hf. destruct os as [b|w|]; cbn [obind] in Hf; try discriminate.
    cbn [bmd_scalar_inv] in Hos. destruct Hos as (Qg & Qm & Qe & Qc & Qo).
    destruct (bmd_finish_inv dist b m Hf) as (_ & _ & Em & Ec & Eh).
    destruct (hod_finish_inv dist _ _ Eh) as (Eg & _ & Ee & _ & Ef).
    unfold bmv_scalar. rewrite Eg, Em, Ec, Ee.
    split; [exact Qg|]. split; [exact Qm|]. split; [exact Qe|]. split; [exact Qc|].
    exact (finish_hit_objects_scalar dist _ _ _ _ _ _ Qo Ef). }
  destruct (parse_first_section (vr_use_curr_line vr) (vr_curr_line vr) (vr_rest vr)) as [[sec rest]|] eqn:Ef.
  - assert (Hrest : Forall scalar_str rest); [|
      exact (Hfin _ (section_loop_inv bm_parsers bmd_scalar_inv scalar_str bm_step_scalar rest sec
                       (Done (bmd_create (odflt latest_format_version (vr_version vr))))
                       Hrest (defaults_scalar _)) H)].
    unfold parse_first_section in Ef.
    destruct (if vr_use_curr_line vr then section_of_line (vr_curr_line vr) else None).
    + inversion Ef; subst. apply parse_version_rest. exact Hl.
    + apply (scan_first_rest _ _ _ _ (parse_version_rest _ _ Hl) Ef).
  - exact (Hfin (Done (bmd_create (odflt latest_format_version (vr_version vr)))) (defaults_scalar _) H).
Qed.

Print Assumptions decode_beatmap_scalar.

(* EncMapImage: [object_image] (the line-level part of [object_ok] / [slider_ok]) carried
   through the whole decoder -- every line parser, the stable sort, the break
   post-processing and the per-object loop of the finishing conversion -- so that it holds
   of every hit object of every decoded map; and what is then still needed for a decoded
   object to be [encodable] ([residual]: the sample data, and the recorded classes). *)
From RM Require Import Model.EncPathSpec Model.HitObjectSpec Proofs.EncText Proofs.EncFmt Proofs.EncFloat
     Proofs.EncSimple Proofs.EncObjects Proofs.FramingFacts Proofs.NumFacts Proofs.PathStringFacts
     Proofs.EncPathRT Proofs.EncPathImage Proofs.EncSlider Proofs.EncLineImage
     Proofs.HitObjectLineFacts Proofs.DecodersTotal Proofs.MapLevelFacts.
From RM Require Import Gen.Generated.
From Coq Require Import ZifyBool Permutation.
Open Scope Z_scope.

Notation img := (fun h : HitObject => object_image h = true).

(* ---------- the line parser ---------- *)

Lemma parse_rejected_objects st line st' :
  parse_hit_objects st line = Done (st', Rejected) -> ho_objects st' = ho_objects st.
Proof.
  intros H. destruct (parse_hit_objects_spec st line) as [scratch Hs]. rewrite Hs in H. clear Hs.
  injection H as H. unfold line_spec_with in H.
  destruct (common_spec line) as [f|]; [|injection H as <- ; reflexivity].
  destruct (kind_of_type (f_type f)) as [k|]; [|injection H as <-; reflexivity].
  unfold accept in H.
  repeat match type of H with
         | (match ?x with _ => _ end) = _ => destruct x; try discriminate
         | (if ?x then _ else _) = _ => destruct x; try discriminate
         | (let '(_, _) := ?x in _) = _ => destruct x; try discriminate
         end;
    try (injection H as <-; reflexivity).
Qed.

Lemma parse_objects_image st line st' r :
  Forall img (ho_objects st) -> parse_hit_objects st line = Done (st', r) -> Forall img (ho_objects st').
Proof.
  intros Hst H. destruct r.
  - destruct (parse_object_image st line st' H) as (o & -> & Ho). apply Forall_app. split; [exact Hst|constructor; [exact Ho|constructor]].
  - rewrite (parse_rejected_objects st line st' H). exact Hst.
Qed.

(* ---------- the finishing conversion ---------- *)

Lemma force_new_combo_image h f : object_image h = true -> object_image (force_new_combo h f) = true.
Proof.
  unfold force_new_combo, object_image. destruct (h_kind h) as [c|s|s|hd] eqn:E; cbn [h_start h_kind];
    try rewrite E; cbn [ci_pos ci_combo_offset sl_pos sl_combo_offset sl_control_points sl_repeat_count
                        sl_expected_dist sl_node_samples sp_pos]; intros H; exact H.
Qed.

Lemma post_process_image bs : forall objs, Forall img objs ->
  Forall img (post_process_breaks h_start force_new_combo bs objs).
Proof.
  intros objs. revert bs. induction objs as [|h r IH]; intros bs H; cbn [post_process_breaks]; [constructor|].
  inversion H as [|? ? Hh Hr]; subst. destruct (skip_breaks bs (h_start h) false) as [bs' f].
  constructor; [apply force_new_combo_image; exact Hh|apply IH; exact Hr].
Qed.

Lemma apply_nodes_length c start d sc : forall nodes i, length (apply_nodes c start d sc i nodes) = length nodes.
Proof. induction nodes as [|n r IH]; intros i; cbn [apply_nodes length]; [reflexivity|rewrite IH; reflexivity]. Qed.

Section WithDist.
  Variable dist_of : Z -> list PCP -> option F64 -> outcome F64.

  Lemma process_object_image c sm mode h h' :
    object_image h = true -> process_object dist_of c sm mode h = Done h' -> object_image h' = true.
  Proof.
    intros Hh H. unfold process_object in H. unfold object_image in Hh.
    destruct (h_kind h) as [ci|s|sp|hd] eqn:E; cbn [obind] in H.
    - injection H as <-. unfold object_image. cbn [h_start h_kind]. exact Hh.
    - destruct (difficulty_point_at c (h_start h)) as [dp|w|]; cbn [obind] in H; try discriminate.
      destruct (slider_duration dist_of _) as [d|w|]; cbn [obind] in H; try discriminate.
      injection H as <-. unfold object_image.
      cbn [h_start h_kind sl_pos sl_combo_offset sl_control_points sl_repeat_count sl_expected_dist sl_node_samples].
      rewrite apply_nodes_length. exact Hh.
    - injection H as <-. unfold object_image. cbn [h_start h_kind]. exact Hh.
    - injection H as <-. unfold object_image. cbn [h_start h_kind]. exact Hh.
  Qed.

  Lemma process_objects_image c sm mode : forall l l',
    Forall img l -> process_objects dist_of c sm mode l = Done l' -> Forall img l'.
  Proof.
    induction l as [|h r IH]; intros l' Hl H; cbn [process_objects] in H.
    - injection H as <-. constructor.
    - inversion Hl as [|? ? Hh Hr]; subst.
      destruct (process_object dist_of c sm mode h) as [h'|w|] eqn:Eh; cbn [obind] in H; try discriminate.
      destruct (process_objects dist_of c sm mode r) as [r'|w|] eqn:Er; cbn [obind] in H; try discriminate.
      injection H as <-. constructor; [exact (process_object_image c sm mode h h' Hh Eh)|exact (IH r' Hr eq_refl)].
  Qed.

  Lemma finish_image c breaks sm mode objs objs' :
    Forall img objs -> finish_hit_objects dist_of c breaks sm mode objs = Done objs' -> Forall img objs'.
  Proof.
    intros H E. unfold finish_hit_objects in E.
    eapply process_objects_image; [|exact E].
    apply post_process_image.
    eapply Permutation_Forall; [|exact H]. symmetry. apply ssort_perm.
  Qed.

  (* ---------- the framing driver ---------- *)

  Definition objs_inv (os : outcome BMD) : Prop :=
    match os with Done b => Forall img (hod_objects (bmd_ho b)) | _ => True end.

  Lemma objs_step sec os l : objs_inv os -> objs_inv (fst (parser_of bm_parsers sec os l)).
  Proof.
    intros Hos. destruct os as [b|w|]; [|destruct sec; exact I|destruct sec; exact I].
    cbn [objs_inv] in Hos. destruct b as [ver ed md co ho]. destruct ho as [tp df ev last curve verts objs].
    cbn [bmd_ho hod_objects] in Hos.
    destruct sec; cbn [parser_of bm_parsers p_general p_editor p_metadata p_difficulty p_events p_timing_points
                       p_colors p_hit_objects p_variables p_catch_the_beat p_mania];
      unfold liftp, liftt, on_ho, noop; cbn [obind bmd_ho bmd_version bmd_editor bmd_metadata bmd_colors fst].
    - unfold hod_parse_general. destruct (tpd_parse_general _ l) as [g r]. cbn [obind fst objs_inv bmd_ho hod_with_tp hod_objects]. exact Hos.
    - unfold bmd_parse_editor. destruct (parse_editor _ l) as [e r]. cbn [fst objs_inv bmd_ho hod_objects]. exact Hos.
    - unfold bmd_parse_metadata. destruct (parse_metadata _ l) as [m r]. cbn [fst objs_inv bmd_ho hod_objects]. exact Hos.
    - unfold hod_parse_difficulty. destruct (parse_difficulty _ l) as [d r]. cbn [obind fst objs_inv bmd_ho hod_objects]. exact Hos.
    - unfold hod_parse_events. destruct (parse_events _ l) as [e r]. cbn [obind fst objs_inv bmd_ho hod_objects]. exact Hos.
    - unfold hod_parse_timing_points. destruct (tpd_parse_timing_points _ l) as [[t r]|w|]; cbn [obind fst objs_inv]; try exact I.
      cbn [bmd_ho hod_with_tp hod_objects]. exact Hos.
    - unfold bmd_parse_colors. destruct (parse_colors _ l) as [c r]. cbn [fst objs_inv bmd_ho hod_objects]. exact Hos.
    - unfold hod_parse_hit_objects. destruct (parse_hit_objects _ l) as [[c r]|w|] eqn:E; cbn [obind fst objs_inv]; try exact I.
      cbn [bmd_ho hod_with_core hod_objects]. eapply parse_objects_image; [|exact E]. exact Hos.
    - exact Hos.
    - exact Hos.
    - exact Hos.
  Qed.

  (* every hit object of every decoded map *)
  Theorem decoded_objects_image lines m :
    decode_beatmap dist_of lines = Done m -> Forall img (hov_hit_objects (bmv_ho m)).
  Proof.
    revert m. unfold decode_beatmap.
    assert (Hc : forall v, objs_inv (Done (bmd_create v))) by (intros v; cbn; constructor).
    apply (driver_invariant _ _ _ objs_inv Hc objs_step
             (fun ov => forall m, ov = Done m -> Forall img (hov_hit_objects (bmv_ho m)))).
    intros st Hst m. destruct st as [s|w|]; cbn [obind]; try discriminate.
    cbn [objs_inv] in Hst. unfold bmd_finish, hod_finish.
    destruct (tpd_finish (hod_tp (bmd_ho s))) as [tv|w|]; cbn [obind]; try discriminate.
    destruct (finish_hit_objects _ _ _ _ _ _) as [objs|w|] eqn:E; cbn [obind]; try discriminate.
    intros H; inversion H; subst. cbn [bmv_ho hov_hit_objects].
    exact (finish_image _ _ _ _ _ objs Hst E).
  Qed.

  (* ---------- from the image to [encodable] ---------- *)

  (* what is NOT an invariant of decoded maps (recorded classes), or not mechanised ([sample_ok]) *)
  Definition residual (h : HitObject) : Prop :=
    forallb sample_ok (h_samples h) = true /\
    match h_kind h with
    | KCircle _ => True
    | KSlider s =>
        forallb (forallb sample_ok) (sl_node_samples s) = true /\
        d13_class (sl_control_points s) = false /\ d17_class (sl_control_points s) = false /\
        consec_catmull (sl_control_points s) = false /\
        exists d, written_len dist_of s = Done d /\ d21_class d = false
    | KSpinner s => in_lim64 (D.add (h_start h) (sp_duration s)) = true           (* outside D26 *)
    | KHold hd => in_lim64 (D.add (h_start h) (hd_duration hd)) = true             (* outside D26 *)
    end.

  Lemma image_encodable h : object_image h = true -> residual h -> encodable dist_of h.
  Proof.
    unfold object_image, residual, encodable. intros Hi [Hs Hr].
    apply andb_true_iff in Hi. destruct Hi as [Ht Hi].
    destruct (h_kind h) as [c|s|sp|hd] eqn:E.
    - unfold object_ok. rewrite E, Ht, Hs, Hi. reflexivity.
    - destruct Hr as (Hn & H13 & H17 & Hcc & d & Hd & H21). exists d. split; [exact Hd|].
      unfold d21_class in H21. apply negb_false_iff in H21.
      apply andb_true_iff in Hi. destruct Hi as [Hi _].
      apply andb_true_iff in Hi. destruct Hi as [Hi _].
      apply andb_true_iff in Hi. destruct Hi as [Hi R2].
      apply andb_true_iff in Hi. destruct Hi as [Hi R1].
      apply andb_true_iff in Hi. destruct Hi as [Hi Him].
      apply andb_true_iff in Hi. destruct Hi as [Hi O2].
      apply andb_true_iff in Hi. destruct Hi as [Hi O1].
      apply andb_true_iff in Hi. destruct Hi as [Cx Cy].
      unfold slider_ok. rewrite Ht, Hs, Cx, Cy, O1, O2, R1, R2, Hn, Him, H13, H17, Hcc, H21. reflexivity.
    - unfold object_ok. rewrite E, Ht, Hs, Hi, Hr. reflexivity.
    - unfold object_ok. rewrite E, Ht, Hs, Hi, Hr. reflexivity.
  Qed.
End WithDist.

(* every non-blank line of the [HitObjects] section of a decoded map whose objects are outside
   the recorded classes (and carry representable sample data) is accepted *)
Section Lines.
  Variables (fmt_f64 : F64 -> str) (fmt_f32 : F32 -> str) (fmt_int : Z -> str).
  Hypothesis Hfmt : fmt_ok fmt_f64 fmt_f32 fmt_int.
  Hypothesis H32 : fmt_f32_int fmt_f32 fmt_int.

  Theorem decoded_hit_object_lines_accepted dist lines m mode ls :
    decode_beatmap dist lines = Done m ->
    Forall (residual dist) (hov_hit_objects (bmv_ho m)) ->
    object_lines dist mode (hov_hit_objects (bmv_ho m)) = Done ls ->
    Forall2 (fun h l => ho_accepted fmt_f64 fmt_f32 fmt_int (h_start h) l) (hov_hit_objects (bmv_ho m)) ls.
  Proof.
    intros Hd Hr Hl.
    apply (hit_object_lines_accepted fmt_f64 fmt_f32 fmt_int Hfmt H32 dist mode); [|exact Hl].
    pose proof (decoded_objects_image dist lines m Hd) as Hi.
    rewrite Forall_forall in *. intros h Hin. exact (image_encodable dist h (Hi h Hin) (Hr h Hin)).
  Qed.
End Lines.

(* NumFacts: what ParseNumber (Model/Num.v) accepts.
     integers: accepts <=> integer literal /\ |n| <= limit          (full)
     floats:   accepts <=> the raw float parser accepts /\ not NaN /\ -limit <= x <= limit
               and every accepted text is a DECIMAL literal with a finite value  *)
From RM Require Import Model.Num Proofs.FloatCmp.
From RM Require Import Gen.Generated.
From Flocq Require Import BinarySingleNaN.
From Coq Require Import ZifyBool.
Open Scope Z_scope.

(* ---------- integers ---------- *)

Definition digits_value (ds : str) (acc : Z) : Z :=
  fold_left (fun a c => 10 * a + (c - 48)) ds acc.

Lemma digits_val_spec ds : forall acc v,
  digits_val acc ds = Some v <-> forallb is_digit ds = true /\ v = digits_value ds acc.
Proof.
  induction ds as [|c r IH]; intros acc v; cbn [digits_val forallb digits_value fold_left].
  - split; [intros H; inversion H; auto | intros [_ ->]; reflexivity].
  - destruct (is_digit c); cbn [andb].
    + apply IH.
    + split; [discriminate | intros [H _]; discriminate].
Qed.

(* [sign] digit+ ; '-' only for signed types *)
Inductive int_literal (signed : bool) : str -> Z -> Prop :=
| IL_plain ds : ds <> [] -> forallb is_digit ds = true -> int_literal signed ds (digits_value ds 0)
| IL_plus ds : ds <> [] -> forallb is_digit ds = true -> int_literal signed (43 :: ds) (digits_value ds 0)
| IL_minus ds : signed = true -> ds <> [] -> forallb is_digit ds = true ->
                int_literal signed (45 :: ds) (- digits_value ds 0).

Lemma digit_not_sign c : is_digit c = true -> (c =? 43) = false /\ (c =? 45) = false.
Proof. unfold is_digit. lia. Qed.

Theorem parse_int_raw_spec signed lo hi s n :
  parse_int_raw signed lo hi s = Some n <-> int_literal signed s n /\ lo <= n <= hi.
Proof.
  unfold parse_int_raw. split.
  - destruct s as [|c r]; [discriminate|].
    destruct (c =? 43) eqn:E43.
    + assert (c = 43) by lia; subst c.
      destruct r as [|d r']; [discriminate|].
      destruct (digits_val 0 (d :: r')) as [v|] eqn:Ev; [|discriminate].
      apply digits_val_spec in Ev. destruct Ev as [Hd Hv].
      destruct ((lo <=? _) && (_ <=? hi)) eqn:Er; [|discriminate].
      intros [= <-]. split; [|lia]. rewrite Hv. apply IL_plus; [discriminate|exact Hd].
    + destruct ((c =? 45) && signed) eqn:E45.
      * assert (c = 45) by lia; subst c. assert (signed = true) by (destruct signed; [reflexivity|cbn in E45; discriminate]).
        destruct r as [|d r']; [discriminate|].
        destruct (digits_val 0 (d :: r')) as [v|] eqn:Ev; [|discriminate].
        apply digits_val_spec in Ev. destruct Ev as [Hd Hv].
        destruct ((lo <=? _) && (_ <=? hi)) eqn:Er; [|discriminate].
        intros [= <-]. split; [|lia]. rewrite Hv. apply IL_minus; [assumption|discriminate|exact Hd].
      * destruct (digits_val 0 (c :: r)) as [v|] eqn:Ev; [|discriminate].
        apply digits_val_spec in Ev. destruct Ev as [Hd Hv].
        destruct ((lo <=? _) && (_ <=? hi)) eqn:Er; [|discriminate].
        intros [= <-]. split; [|lia]. rewrite Hv. apply IL_plain; [discriminate|exact Hd].
  - intros [Hl Hr]. revert Hr. destruct Hl as [ds Hne Hd|ds Hne Hd|ds Hs Hne Hd]; intros Hr; subst.
    + destruct ds as [|c r]; [congruence|].
      assert (Hc : is_digit c = true) by (cbn in Hd; lia).
      destruct (digit_not_sign c Hc) as [-> E45]. rewrite E45. cbn [andb].
      assert (Ev : digits_val 0 (c :: r) = Some (digits_value (c :: r) 0)) by (apply digits_val_spec; auto).
      rewrite Ev. replace ((lo <=? _) && (_ <=? hi)) with true by lia. reflexivity.
    + cbn [Z.eqb Pos.eqb]. destruct ds as [|c r]; [congruence|].
      assert (Ev : digits_val 0 (c :: r) = Some (digits_value (c :: r) 0)) by (apply digits_val_spec; auto).
      rewrite Ev. replace ((lo <=? _) && (_ <=? hi)) with true by lia. reflexivity.
    + cbn [Z.eqb Pos.eqb andb]. destruct ds as [|c r]; [congruence|].
      assert (Ev : digits_val 0 (c :: r) = Some (digits_value (c :: r) 0)) by (apply digits_val_spec; auto).
      rewrite Ev. replace ((lo <=? _) && (_ <=? hi)) with true by lia. reflexivity.
Qed.

(* ParseNumber for i32: integer literal (after trimming) within +-limit.
   For limit <= i32::MAX the i32 range itself adds nothing. *)
Theorem pn_i32_lim_spec limit s n :
  0 <= limit <= i32_max ->
  pn_i32_lim limit s = Some n <-> int_literal true (trim s) n /\ - limit <= n <= limit.
Proof.
  intros Hl. unfold pn_i32_lim, parse_i32_raw. split.
  - destruct (parse_int_raw true i32_min i32_max (trim s)) as [m|] eqn:E; [|discriminate].
    apply parse_int_raw_spec in E. destruct E as [Hlit Hr].
    destruct (m <? - limit) eqn:E1; [discriminate|]. destruct (limit <? m) eqn:E2; [discriminate|].
    intros H; inversion H; subst m. split; [exact Hlit|lia].
  - intros [Hlit Hr].
    assert (E : parse_int_raw true i32_min i32_max (trim s) = Some n).
    { apply parse_int_raw_spec. split; [exact Hlit|]. unfold i32_min, i32_max in *. lia. }
    rewrite E. replace (n <? - limit) with false by lia. replace (limit <? n) with false by lia. reflexivity.
Qed.

Theorem pn_i32_spec s n :
  pn_i32 s = Some n <-> int_literal true (trim s) n /\ - max_parse_value <= n <= max_parse_value.
Proof. apply pn_i32_lim_spec. unfold max_parse_value, i32_max. lia. Qed.

(* ---------- floats ---------- *)

Section FloatLimit.
  Variables prec emax : Z.
  Notation fl := (binary_float prec emax).
  Variable raw : str -> option fl.
  Definition pn_lim (limit : fl) (s : str) : option fl :=
    match raw (trim s) with
    | Some n => if flt prec emax n (fneg prec emax limit) then None
                else if fgt prec emax n limit then None
                else if fis_nan prec emax n then None else Some n
    | None => None
    end.

  Lemma pn_lim_spec limit s x :
    is_nan limit = false ->
    pn_lim limit s = Some x <->
    raw (trim s) = Some x /\ is_nan x = false /\
    fle prec emax (fneg prec emax limit) x = true /\ fle prec emax x limit = true.
  Proof.
    intros Hl. assert (Hnl : is_nan (fneg prec emax limit) = false) by (unfold fneg; now rewrite is_nan_Bopp).
    unfold pn_lim. split.
    - destruct (raw (trim s)) as [n|]; [|discriminate].
      destruct (flt prec emax n (fneg prec emax limit)) eqn:E1; [discriminate|].
      destruct (fgt prec emax n limit) eqn:E2; [discriminate|].
      destruct (fis_nan prec emax n) eqn:E3; [discriminate|].
      intros H; inversion H; subst n. unfold fis_nan in E3.
      repeat split; auto.
      + now apply fnlt_fle.
      + unfold fgt in E2. now apply fnlt_fle.
    - intros (-> & Hn & H1 & H2).
      rewrite (fle_nlt _ _ _ _ H1). unfold fgt. fold (flt prec emax limit x).
      rewrite (fle_nlt _ _ _ _ H2). unfold fis_nan. now rewrite Hn.
  Qed.

  Lemma pn_lim_finite limit s x :
    is_finite limit = true -> pn_lim limit s = Some x -> is_finite x = true.
  Proof.
    intros Hf H. assert (Hl : is_nan limit = false) by (destruct limit; auto; discriminate).
    apply pn_lim_spec in H; [|exact Hl]. destruct H as (_ & _ & H1 & H2).
    apply (fle_finite_between prec emax (fneg prec emax limit) x limit); auto.
    unfold fneg. now rewrite is_finite_Bopp.
  Qed.
End FloatLimit.

Lemma pn_f64_lim_eq limit s : pn_f64_lim limit s = pn_lim 53 1024 parse_f64_raw limit s.
Proof. reflexivity. Qed.
Lemma pn_f32_lim_eq limit s : pn_f32_lim limit s = pn_lim 24 128 parse_f32_raw limit s.
Proof. reflexivity. Qed.

Definition f64_limit : F64 := D.of_Z max_parse_value.
Definition f32_limit : F32 := S.of_Z max_parse_value.

Lemma f64_limit_finite : is_finite f64_limit = true. Proof. vm_compute. reflexivity. Qed.
Lemma f32_limit_finite : is_finite f32_limit = true. Proof. vm_compute. reflexivity. Qed.
Lemma f64_limit_not_nan : is_nan f64_limit = false. Proof. vm_compute. reflexivity. Qed.
Lemma f32_limit_not_nan : is_nan f32_limit = false. Proof. vm_compute. reflexivity. Qed.

(* T11c for f64 / f32: accepts <=> raw parse accepts, not NaN, within the limit *)
Theorem pn_f64_spec s x :
  pn_f64 s = Some x <->
  parse_f64_raw (trim s) = Some x /\ D.is_nan x = false /\
  D.le (D.neg f64_limit) x = true /\ D.le x f64_limit = true.
Proof. unfold pn_f64. rewrite pn_f64_lim_eq. apply pn_lim_spec. exact f64_limit_not_nan. Qed.

Theorem pn_f32_spec s x :
  pn_f32 s = Some x <->
  parse_f32_raw (trim s) = Some x /\ S.is_nan x = false /\
  S.le (S.neg f32_limit) x = true /\ S.le x f32_limit = true.
Proof. unfold pn_f32. rewrite pn_f32_lim_eq. apply pn_lim_spec. exact f32_limit_not_nan. Qed.

Lemma pn_f64_finite s x : pn_f64 s = Some x -> is_finite x = true.
Proof. unfold pn_f64. rewrite pn_f64_lim_eq. apply pn_lim_finite. exact f64_limit_finite. Qed.
Lemma pn_f32_finite s x : pn_f32 s = Some x -> is_finite x = true.
Proof. unfold pn_f32. rewrite pn_f32_lim_eq. apply pn_lim_finite. exact f32_limit_finite. Qed.

Lemma pn_f64_not_nan s x : pn_f64 s = Some x -> D.is_nan x = false.
Proof. intros H. apply pn_f64_spec in H. tauto. Qed.
Lemma pn_f32_not_nan s x : pn_f32 s = Some x -> S.is_nan x = false.
Proof. intros H. apply pn_f32_spec in H. tauto. Qed.

(* inf / infinity / nan are float literals for Rust, but ParseNumber never
   accepts them: every accepted text is a decimal literal *)
Lemma pn_f64_decimal s x :
  pn_f64 s = Some x -> exists neg m e, parse_fnum (trim s) = Some (neg, FDec m e).
Proof.
  intros H. pose proof (pn_f64_finite _ _ H) as Hf. apply pn_f64_spec in H. destruct H as (Hr & _).
  unfold parse_f64_raw in Hr. destruct (parse_fnum (trim s)) as [[neg fn]|]; [|discriminate].
  destruct fn as [| |m e]; cbn in Hr; inversion Hr; subst x; try discriminate.
  now exists neg, m, e.
Qed.
Lemma pn_f32_decimal s x :
  pn_f32 s = Some x -> exists neg m e, parse_fnum (trim s) = Some (neg, FDec m e).
Proof.
  intros H. pose proof (pn_f32_finite _ _ H) as Hf. apply pn_f32_spec in H. destruct H as (Hr & _).
  unfold parse_f32_raw in Hr. destruct (parse_fnum (trim s)) as [[neg fn]|]; [|discriminate].
  destruct fn as [| |m e]; cbn in Hr; inversion Hr; subst x; try discriminate.
  now exists neg, m, e.
Qed.

(* the f32 limit: MAX_PARSE_VALUE as f32 is 2^31, not 2^31-1 *)
Lemma f32_limit_bits : S.bits f32_limit = 1325400064.   (* 0x4f000000 = 2^31 *)
Proof. vm_compute. reflexivity. Qed.
Lemma f64_limit_bits : D.bits f64_limit = 4746794007244308480.   (* 0x41dfffffffc00000 = 2147483647.0 *)
Proof. vm_compute. reflexivity. Qed.

Lemma pn_f32_above_limit_witness :
  exists s x, pn_f32 s = Some x /\ D.lt (D.of_Z max_parse_value) (f64_of_f32 x) = true.
Proof.
  exists (lit "2147483648").
  assert (H : omap (fun x => D.lt (D.of_Z max_parse_value) (f64_of_f32 x)) (pn_f32 (lit "2147483648")) = Some true)
    by (vm_compute; reflexivity).
  destruct (pn_f32 (lit "2147483648")) as [x|]; [|discriminate].
  exists x. split; [reflexivity|]. cbn in H. now inversion H.
Qed.

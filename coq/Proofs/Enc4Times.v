(* Enc4Times: the class D33 as a decidable predicate on decoded objects, and the link between a
   decoded spinner's / hold's stored duration and the decoder's [spinner_dur] / [hold_dur] form.

   1. [d33_object h]: h is a spinner / hold whose stored start s and duration d satisfy
      clip (fl(fl(s + d) - s)) <> d  (clipped as the decoder clips it: max(0, .) for a spinner,
      fl(max(s, fl(s + d)) - s) for a hold).  [spinner_time_ok] / [hold_time_ok] are functions of the
      stored (start, duration) only, and EQUIVALENT to [d33_object h = false] ([d33_object_spec]).
   2. An invariant of EVERY decoded map (any input, any curve function; through the line parser,
      the stable sort, the break post-processing and the per-object loop -- Proofs/Enc4Inv.v):
      the start of every object is within the parse limits, and the stored duration of a spinner /
      hold is [spinner_dur start e] / [hold_dur start e] for a parsed end e within the parse limits
      ([decoded_durations_form]).  Hence the theorems of Proofs/Enc3Times.v, stated on the decoder's
      form, apply to the objects of decoded maps: a decoded object in class D33 has an end whose
      difference to the start is NOT a binary64 number and is not reproduced by fl(start + d)
      ([decoded_d33_inexact]); whole-millisecond stored times are never in the class
      ([whole_ms_not_d33]). *)
From RM Require Import Model.EncSpec Model.EncObjCarry Model.EncPathSpec Model.HitObjectSpec
     Proofs.EncFmt Proofs.EncSimple Proofs.EncImage Proofs.EncObjTimes Proofs.EncLineImage Proofs.HitObjectLineFacts
     Proofs.MapLevelFacts Proofs.Enc3Times Proofs.Enc4Inv.
From RM Require Import Gen.Generated.
From Flocq Require Import Core BinarySingleNaN.
From Coq Require Import Reals Lia ZArith.
Open Scope Z_scope.

(* ---------- 1. the class ---------- *)

Definition d33_object (h : HitObject) : bool :=
  match h_kind h with
  | KSpinner s =>
      negb (f64_eqb (f64_max_lit (D.sub (D.add (h_start h) (sp_duration s)) (h_start h)) D.zero) (sp_duration s))
  | KHold hd =>
      negb (f64_eqb (D.sub (D.max (h_start h) (D.add (h_start h) (hd_duration hd))) (h_start h)) (hd_duration hd))
  | _ => false
  end.

(* the time condition of one object (what [obj_classes] / [finish_hyps] ask) *)
Definition time_ok (h : HitObject) : Prop :=
  match h_kind h with
  | KSpinner s => spinner_time_ok (h_start h) (sp_duration s)
  | KHold hd => hold_time_ok (h_start h) (hd_duration hd)
  | _ => True
  end.

Lemma f64_eqb_iff (x y : F64) : f64_eqb x y = true <-> x = y.
Proof. split; [apply f64_eqb_eq|intros ->; apply f64_eqb_refl]. Qed.

Theorem d33_object_spec h : d33_object h = false <-> time_ok h.
Proof.
  unfold d33_object, time_ok, spinner_time_ok, hold_time_ok.
  destruct (h_kind h) as [c|s|s|hd]; try (split; [intros _; exact I|reflexivity]);
    rewrite Bool.negb_false_iff; apply f64_eqb_iff.
Qed.

Corollary d33_object_true h : d33_object h = true <-> ~ time_ok h.
Proof.
  split.
  - intros H T. apply d33_object_spec in T. rewrite T in H. discriminate H.
  - intros H. destruct (d33_object h) eqn:E; [reflexivity|]. contradiction H. apply d33_object_spec. exact E.
Qed.

(* the refuting pair of Enc3Times, as objects: a spinner and a hold with the stored start / duration
   of the D33 input are in the class *)
Theorem d33_object_witness :
  exists s e,
    D.bits s = 4413527634823086080 /\ D.bits e = 4652218415073722369 /\
    in_lim64 s = true /\ in_lim64 e = true /\
    (forall smp nc, d33_object (mkHObj s (KSpinner (mkSpinner spinner_pos (spinner_dur s e) nc)) smp) = true) /\
    (forall smp x, d33_object (mkHObj s (KHold (mkHold x (hold_dur s e))) smp) = true).
Proof.
  destruct times_ok_refuted as (s & e & Ls & Le & Bs & Be & _ & _ & _ & _ & Ns & Nh).
  exists s, e. repeat split; try assumption.
  - intros smp nc. apply d33_object_true. exact Ns.
  - intros smp x. apply d33_object_true. exact Nh.
Qed.

(* ---------- 2. the decoder's form, as an invariant ---------- *)

Definition dur_form (h : HitObject) : Prop :=
  in_lim64 (h_start h) = true /\
  match h_kind h with
  | KSpinner s => exists e, in_lim64 e = true /\ sp_duration s = spinner_dur (h_start h) e
  | KHold hd => exists e, in_lim64 e = true /\ hd_duration hd = hold_dur (h_start h) e
  | _ => True
  end.

Lemma obnd_pn_lim (o : option str) e : obnd o pn_f64 = Some e -> in_lim64 e = true.
Proof. destruct o as [t|]; cbn [obnd]; [apply in_lim64_pn|discriminate]. Qed.

(* every accepted line adds one object, and that object has the form *)
Theorem parse_object_dur_form st line st' :
  parse_hit_objects st line = Done (st', Ok) ->
  exists o, ho_objects st' = ho_objects st ++ [o] /\ dur_form o.
Proof.
  intros H. destruct (parse_hit_objects_spec st line) as [scratch Hs]. rewrite Hs in H. clear Hs.
  injection H as H. unfold line_spec_with in H.
  destruct (common_spec line) as [f|] eqn:Ec; [|discriminate].
  destruct (common_spec_image line f Ec) as (_ & _ & Ct).
  unfold kind_of_type in H.
  destruct (flag_bit hot_circle (f_type f)).
  { destruct (extras_spec _) as [bank|]; [|discriminate]. unfold accept in H. injection H as <-.
    eexists. split; [reflexivity|]. split; [exact Ct|exact I]. }
  destruct (flag_bit hot_slider (f_type f)).
  { destruct (slider_fields_spec (f_sound f) (f_rest f)) as [pre|]; [|discriminate].
    destruct (path_spec (spre_point_str pre) (f_pos f)) as [cps ok].
    destruct ok; [|discriminate]. unfold accept in H. injection H as <-.
    eexists. split; [reflexivity|]. split; [exact Ct|exact I]. }
  destruct (flag_bit hot_spinner (f_type f)).
  { destruct (obnd _ pn_f64) as [e|] eqn:Ee; [|discriminate]. destruct (extras_spec _) as [bank|]; [|discriminate].
    unfold accept in H. injection H as <-.
    eexists. split; [reflexivity|]. split; [exact Ct|]. cbn [h_start h_kind sp_duration].
    exists e. split; [exact (obnd_pn_lim _ _ Ee)|reflexivity]. }
  destruct (flag_bit hot_hold (f_type f)); [|discriminate].
  destruct (nth_error (f_rest f) 0) as [[|c s]|].
  - unfold accept in H. injection H as <-. eexists. split; [reflexivity|]. split; [exact Ct|].
    cbn [h_start h_kind hd_duration]. exists (f_start f). split; [exact Ct|reflexivity].
  - destruct (obnd _ pn_f64) as [e|] eqn:Ee; [|discriminate]. destruct (banks_spec _ _ _) as [bank|]; [|discriminate].
    unfold accept in H. injection H as <-. eexists. split; [reflexivity|]. split; [exact Ct|].
    cbn [h_start h_kind hd_duration]. exists e. split; [exact (obnd_pn_lim _ _ Ee)|reflexivity].
  - unfold accept in H. injection H as <-. eexists. split; [reflexivity|]. split; [exact Ct|].
    cbn [h_start h_kind hd_duration]. exists (f_start f). split; [exact Ct|reflexivity].
Qed.

Lemma force_new_combo_dur_form h f : dur_form h -> dur_form (force_new_combo h f).
Proof.
  unfold force_new_combo, dur_form. destruct (h_kind h) as [c|s|s|hd] eqn:E; cbn [h_start h_kind sp_duration];
    try rewrite E; intros H; exact H.
Qed.

Lemma process_object_dur_form dist_of c sm mode h h' :
  dur_form h -> process_object dist_of c sm mode h = Done h' -> dur_form h'.
Proof.
  intros Hh H. unfold process_object in H. unfold dur_form in Hh.
  destruct (h_kind h) as [ci|s|sp|hd] eqn:E; cbn [obind] in H.
  - injection H as <-. unfold dur_form. cbn [h_start h_kind]. exact Hh.
  - destruct (difficulty_point_at c (h_start h)) as [dp|w|]; cbn [obind] in H; try discriminate.
    destruct (slider_duration dist_of _) as [d|w|]; cbn [obind] in H; try discriminate.
    injection H as <-. unfold dur_form. cbn [h_start h_kind]. exact Hh.
  - injection H as <-. unfold dur_form. cbn [h_start h_kind]. exact Hh.
  - injection H as <-. unfold dur_form. cbn [h_start h_kind]. exact Hh.
Qed.

(* every hit object of every decoded map *)
Theorem decoded_durations_form dist_of lines m :
  decode_beatmap dist_of lines = Done m -> Forall dur_form (hov_hit_objects (bmv_ho m)).
Proof.
  apply (decoded_objects_forall dist_of dur_form dur_form).
  - exact parse_object_dur_form.
  - exact force_new_combo_dur_form.
  - exact (process_object_dur_form dist_of).
Qed.

(* ---------- 3. the theorems of Enc3Times on the objects of decoded maps ---------- *)

Local Notation fmt64 := (generic_format radix2 (SpecFloat.fexp 53 1024)).

(* a decoded object in class D33: its line had an end e (within the parse limits, like the start)
   whose difference to the start is not a binary64 number, and the end the encoder writes is not e *)
Theorem decoded_d33_inexact dist_of lines m h :
  decode_beatmap dist_of lines = Done m -> In h (hov_hit_objects (bmv_ho m)) -> d33_object h = true ->
  in_lim64 (h_start h) = true /\
  exists e, in_lim64 e = true /\
    match h_kind h with
    | KSpinner s => sp_duration s = spinner_dur (h_start h) e /\ D.add (h_start h) (sp_duration s) <> e
    | KHold hd => hd_duration hd = hold_dur (h_start h) e /\ (D.lt (h_start h) e = true -> D.add (h_start h) (hd_duration hd) <> e)
    | _ => False
    end /\
    ~ fmt64 (B2R e - B2R (h_start h))%R.
Proof.
  intros Hd Hin H33. pose proof (decoded_durations_form dist_of lines m Hd) as Hf.
  rewrite Forall_forall in Hf. destruct (Hf h Hin) as (Hs & Hk). split; [exact Hs|].
  apply d33_object_true in H33. unfold d33_object, time_ok in *.
  destruct (h_kind h) as [c|s|s|hd]; try (contradiction H33; exact I).
  - destruct Hk as (e & He & Hdur). exists e. split; [exact He|]. rewrite Hdur in *. split.
    + split; [reflexivity|]. intros Hadd. apply H33. exact (proj1 (times_ok_of_end (h_start h) e) Hadd).
    + intros Hex. apply H33. exact (proj1 (times_ok_exact (h_start h) e Hs He Hex)).
  - destruct Hk as (e & He & Hdur). exists e. split; [exact He|]. rewrite Hdur in *. split.
    + split; [reflexivity|]. intros Hlt Hadd. apply H33. exact (proj2 (times_ok_of_end (h_start h) e) Hadd Hlt).
    + intros Hex. apply H33. exact (proj2 (times_ok_exact (h_start h) e Hs He Hex)).
Qed.

(* stored start and duration in whole milliseconds (below 2^53): never in the class -- a statement
   on the stored data alone *)
Theorem whole_ms_not_d33 h a b :
  h_start h = D.of_Z a ->
  match h_kind h with
  | KSpinner s => sp_duration s = D.of_Z b
  | KHold hd => hd_duration hd = D.of_Z b
  | _ => True
  end ->
  Z.abs a < 2 ^ 53 -> 0 <= b < 2 ^ 53 -> Z.abs (a + b) < 2 ^ 53 ->
  d33_object h = false.
Proof.
  intros Hs Hk Ha Hb Hab. apply d33_object_spec. unfold time_ok.
  destruct (int_times_ok a b Ha Hb Hab) as [T1 T2].
  destruct (h_kind h) as [c|s|s|hd]; try exact I; rewrite Hs, Hk; assumption.
Qed.

Print Assumptions d33_object_spec.
Print Assumptions decoded_durations_form.
Print Assumptions decoded_d33_inexact.

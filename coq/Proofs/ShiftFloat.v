(* ShiftFloat: binary64 facts behind C15/T15d (shift invariance).

   Whole-millisecond times are the values [D.of_Z n]; for |n| < 2^53 they are
   exact, adding two of them is exact, and every comparison the decoder makes
   between two of them ([D.lt], [D.le], [D.eq], [f64::total_cmp] through
   [D.key]) is the comparison of the integers.  Hence all of them are invariant
   under a common integer shift.  The last part treats the one place where a
   NON-integer is added to a time: a slider's end [fl(start + duration)] and its
   look-up time [fl(end + 5)], compared against integer sample-point times. *)
From RM Require Import Model.Floats Model.Num Model.MapLevel Proofs.EncFloat Proofs.TPKeyOrder.
From RM Require Import Proofs.NumFacts Proofs.FloatGrammar Proofs.DecimalRounding.
From RM Require Import Gen.Generated.
From Flocq Require Import Core BinarySingleNaN.
From Coq Require Import Reals Lra.
Require Import ZifyBool.
Open Scope Z_scope.

Notation fexp64 := (SpecFloat.fexp 53 1024).
Notation rnd64 := (round radix2 fexp64 (round_mode mode_NE)).

(* ---------- generic tools ---------- *)

(* m * 2^e with |m| < 2^53 and e >= -1074 is a binary64 number *)
Lemma fmt_dyadic m e : Z.abs m < 2 ^ 53 -> -1074 <= e ->
  generic_format radix2 fexp64 (IZR m * bpow radix2 e).
Proof.
  intros Hm He.
  apply (generic_format_FLT radix2 (SpecFloat.emin 53 1024) 53).
  apply (FLT_spec radix2 _ _ _ (Float radix2 m e)); cbn [Fnum Fexp].
  - reflexivity.
  - change (Zpower radix2 53) with (2 ^ 53). exact Hm.
  - unfold SpecFloat.emin. lia.
Qed.

Lemma fmt_int n : Z.abs n < 2 ^ 53 -> generic_format radix2 fexp64 (IZR n).
Proof.
  intros Hn. replace (IZR n) with (IZR n * bpow radix2 0)%R by (cbn; lra).
  apply fmt_dyadic; lia.
Qed.

Lemma rnd64_id x : generic_format radix2 fexp64 x -> rnd64 x = x.
Proof. intros H. apply round_generic; [apply valid_rnd_round_mode|exact H]. Qed.

Lemma rnd64_le x y : (x <= y)%R -> (rnd64 x <= rnd64 y)%R.
Proof.
  apply round_le; [apply (fexp_correct 53 1024 Hp64) | apply valid_rnd_round_mode].
Qed.

Lemma int_lt_emax n : Z.abs n < 2 ^ 53 -> (Rabs (IZR n) < bpow radix2 1024)%R.
Proof.
  intros Hn. rewrite <- abs_IZR. apply Rlt_le_trans with (IZR (2 ^ 53)).
  - apply IZR_lt. exact Hn.
  - change 2 with (radix_val radix2). rewrite IZR_Zpower by lia. apply bpow_le. lia.
Qed.

(* the sum of two finite numbers, when the exact sum is representable *)
Lemma add_exact (x y : F64) (r : R) :
  is_finite x = true -> is_finite y = true ->
  (B2R x + B2R y = r)%R -> generic_format radix2 fexp64 r -> (Rabs r < bpow radix2 1024)%R ->
  B2R (D.add x y) = r /\ is_finite (D.add x y) = true /\
  Bsign (D.add x y) = match Rcompare r 0 with Eq => Bsign x && Bsign y | Lt => true | Gt => false end.
Proof.
  intros Fx Fy Hr Hg Hb. unfold D.add, fadd.
  pose proof (Bplus_correct 53 1024 Hp64 He64 mode_NE x y Fx Fy) as H.
  rewrite Hr, (rnd64_id r Hg), (Rlt_bool_true _ _ Hb) in H. exact H.
Qed.

(* ---------- whole numbers ---------- *)

Lemma ofZ_full n : Z.abs n < 2 ^ 53 ->
  B2R (D.of_Z n) = IZR n /\ is_finite (D.of_Z n) = true /\ Bsign (D.of_Z n) = (n <? 0).
Proof.
  intros Hn. destruct (of_Z_exact 53 1024 Hp64 He64 n Hn) as [HR HF].
  split; [exact HR|]. split; [exact HF|].
  pose proof (binary_normalize_correct 53 1024 Hp64 He64 mode_NE n 0 false) as H.
  cbv zeta in H.
  assert (Hx : F2R (Float radix2 n 0) = IZR n).
  { unfold F2R. cbn [Fnum Fexp bpow]. lra. }
  rewrite Hx, (rnd64_id _ (fmt_int n Hn)), (Rlt_bool_true _ _ (int_lt_emax n Hn)) in H.
  destruct H as (_ & _ & HS). unfold D.of_Z, of_Z. rewrite HS.
  change 0%R with (IZR 0). rewrite Rcompare_IZR.
  destruct (Z.compare_spec n 0); lia.
Qed.

Lemma ofZ_R n : Z.abs n < 2 ^ 53 -> B2R (D.of_Z n) = IZR n.
Proof. intros H. apply (ofZ_full n H). Qed.
Lemma ofZ_fin n : Z.abs n < 2 ^ 53 -> is_finite (D.of_Z n) = true.
Proof. intros H. apply (ofZ_full n H). Qed.
Lemma ofZ_sign n : Z.abs n < 2 ^ 53 -> Bsign (D.of_Z n) = (n <? 0).
Proof. intros H. apply (ofZ_full n H). Qed.

(* a whole number is never the negative zero *)
Lemma ofZ_not_negzero n : Z.abs n < 2 ^ 53 -> D.of_Z n <> B754_zero true.
Proof.
  intros Hn E. destruct (ofZ_full n Hn) as (HR & _ & HS). rewrite E in HR, HS. cbn in HR, HS.
  assert (n = 0) by (apply eq_IZR; lra). subst n. discriminate.
Qed.

Lemma sign_B2R_64 (x : F64) : is_finite x = true ->
  (Bsign x = true -> (B2R x <= 0)%R) /\ (Bsign x = false -> (0 <= B2R x)%R).
Proof.
  intros Hf. destruct x as [s|s| |s m e H]; try discriminate; cbn [B2R Bsign].
  - split; intros _; lra.
  - split; intros ->; cbn [cond_Zopp].
    + apply F2R_le_0. cbn. apply Pos2Z.neg_is_nonpos.
    + apply F2R_ge_0. cbn. apply Pos2Z.pos_is_nonneg.
Qed.

(* the only finite binary64 value with real value n, other than -0.0 for n = 0 *)
Lemma ofZ_char (x : F64) n : Z.abs n < 2 ^ 53 ->
  is_finite x = true -> B2R x = IZR n -> (n = 0 -> Bsign x = false) -> x = D.of_Z n.
Proof.
  intros Hn Fx Rx Sx. destruct (ofZ_full n Hn) as (HR & HF & HS).
  apply B2R_Bsign_inj; try assumption; [congruence|]. rewrite HS.
  destruct (Z.eq_dec n 0) as [->|Hne]; [exact (Sx eq_refl)|].
  destruct (sign_B2R_64 x Fx) as [S1 S2].
  destruct (Bsign x) eqn:E.
  - specialize (S1 eq_refl). rewrite Rx in S1. apply le_IZR in S1. lia.
  - specialize (S2 eq_refl). rewrite Rx in S2. apply le_IZR in S2. lia.
Qed.

(* ---------- exact arithmetic on whole numbers ---------- *)

Lemma add_ofZ a b : Z.abs a < 2 ^ 53 -> Z.abs b < 2 ^ 53 -> Z.abs (a + b) < 2 ^ 53 ->
  D.add (D.of_Z a) (D.of_Z b) = D.of_Z (a + b).
Proof.
  intros Ha Hb Hab.
  destruct (ofZ_full a Ha) as (Ra & Fa & Sa). destruct (ofZ_full b Hb) as (Rb & Fb & Sb).
  destruct (add_exact (D.of_Z a) (D.of_Z b) (IZR (a + b)) Fa Fb) as (R & F & S).
  - rewrite Ra, Rb, plus_IZR. reflexivity.
  - apply fmt_int; exact Hab.
  - apply int_lt_emax; exact Hab.
  - apply ofZ_char; try assumption. intros E. rewrite S, E.
    rewrite Rcompare_Eq by reflexivity. rewrite Sa, Sb. lia.
Qed.

Lemma sub_ofZ a b : Z.abs a < 2 ^ 53 -> Z.abs b < 2 ^ 53 -> Z.abs (a - b) < 2 ^ 53 ->
  D.sub (D.of_Z a) (D.of_Z b) = D.of_Z (a - b).
Proof.
  intros Ha Hb Hab.
  destruct (ofZ_full a Ha) as (Ra & Fa & Sa). destruct (ofZ_full b Hb) as (Rb & Fb & Sb).
  unfold D.sub, fsub.
  pose proof (Bminus_correct 53 1024 Hp64 He64 mode_NE _ _ Fa Fb) as H.
  rewrite Ra, Rb, <- minus_IZR, (rnd64_id _ (fmt_int _ Hab)), (Rlt_bool_true _ _ (int_lt_emax _ Hab)) in H.
  destruct H as (R & F & S).
  apply ofZ_char; try assumption. intros E. rewrite S, E.
  rewrite Rcompare_Eq by reflexivity. rewrite Sa, Sb. cbn [negb]. lia.
Qed.

(* the 5 ms leniency constant is the whole number 5 *)
Lemma f64_5_ofZ : f64_5 = D.of_Z 5.
Proof.
  unfold f64_5, dec64'. change control_point_leniency_dec with (false, 50, (-1)).
  destruct (of_decimal_f64_correct false 50 (-1) ltac:(lia)) as [A _].
  assert (Hv : dec_value false 50 (-1) = IZR 5).
  { unfold dec_value. cbn [cond_Ropp]. change (bpow radix10 (-1)) with (/ IZR 10)%R. lra. }
  rewrite Hv in A. unfold round64 in A.
  change (round radix2 (FLT_exp (-1074) 53) ZnearestE (IZR 5)) with (rnd64 (IZR 5)) in A.
  rewrite (rnd64_id _ (fmt_int 5 ltac:(lia))) in A.
  destruct (A (int_lt_emax 5 ltac:(lia))) as (R & F & S).
  apply ofZ_char; try assumption; [lia|]. intros _. exact S.
Qed.

(* ---------- f64::total_cmp keys against the numeric order ---------- *)

(* the converse of [TPKeyOrder.key_lt_num]: numerically smaller => smaller key *)
Lemma num_lt_key (a b : F64) :
  is_nan a = false -> is_nan b = false -> D.lt a b = true -> D.key a < D.key b.
Proof.
  intros Ha Hb. rewrite (key_mag a Ha), (key_mag b Hb).
  pose proof (mag_range a Ha) as Ra. pose proof (mag_range b Hb) as Rb.
  unfold D.lt, flt, Bltb, SpecFloat.SFltb.
  destruct a as [sa|sa| |sa ma ea Ba]; try discriminate Ha;
  destruct b as [sb|sb| |sb mb eb Bb]; try discriminate Hb;
  cbn [Bsign TPKeyOrder.mag B2SF SpecFloat.SFcompare] in *; unfold P52 in *;
  destruct sa, sb; intros H; try discriminate H; try lia;
  try (pose proof (bounded_facts ma ea Ba)); try (pose proof (bounded_facts mb eb Bb)); unfold P52 in *; try lia.
  all: destruct (Z.compare_spec ea eb) as [E|E|E]; try discriminate H; try lia.
  all: subst eb; change (Pos.compare_cont Eq ma mb) with (Pos.compare ma mb) in H.
  all: destruct (Pos.compare_spec ma mb) as [E|E|E]; try discriminate H; try lia.
Qed.

Lemma finite_not_nan64 (x : F64) : is_finite x = true -> is_nan x = false.
Proof. destruct x; try discriminate; reflexivity. Qed.

Lemma lt_R (a b : F64) : is_finite a = true -> is_finite b = true ->
  D.lt a b = true -> (B2R a < B2R b)%R.
Proof.
  intros Fa Fb H. unfold D.lt, flt in H. rewrite Bltb_correct in H by assumption.
  destruct (Rlt_bool_spec (B2R a) (B2R b)) as [L|L]; [exact L|discriminate].
Qed.

Lemma R_lt (a b : F64) : is_finite a = true -> is_finite b = true ->
  (B2R a < B2R b)%R -> D.lt a b = true.
Proof.
  intros Fa Fb H. unfold D.lt, flt. rewrite Bltb_correct by assumption. apply Rlt_bool_true. exact H.
Qed.

(* for finite values other than -0.0, total_cmp IS the numeric comparison *)
Lemma key_compare_R (x y : F64) :
  is_finite x = true -> is_finite y = true ->
  x <> B754_zero true -> y <> B754_zero true ->
  Z.compare (D.key x) (D.key y) = Rcompare (B2R x) (B2R y).
Proof.
  intros Fx Fy Nx Ny.
  pose proof (finite_not_nan64 x Fx) as Hnx. pose proof (finite_not_nan64 y Fy) as Hny.
  destruct (Rcompare_spec (B2R x) (B2R y)) as [H|H|H].
  - apply Z.compare_lt_iff. apply num_lt_key; try assumption. apply R_lt; assumption.
  - apply Z.compare_eq_iff.
    destruct (Z.lt_trichotomy (D.key x) (D.key y)) as [L|[E|G]]; [|exact E|]; exfalso.
    + destruct (key_lt_num x y Hnx Hny L) as [Hl|[Ex _]]; [|contradiction].
      apply lt_R in Hl; try assumption. lra.
    + destruct (key_lt_num y x Hny Hnx G) as [Hl|[Ey _]]; [|contradiction].
      apply lt_R in Hl; try assumption. lra.
  - apply Z.compare_gt_iff. apply num_lt_key; try assumption. apply R_lt; assumption.
Qed.

(* ---------- comparisons between whole numbers ---------- *)

Lemma total_cmp_ofZ a b : Z.abs a < 2 ^ 53 -> Z.abs b < 2 ^ 53 ->
  D.total_cmp (D.of_Z a) (D.of_Z b) = (a ?= b).
Proof.
  intros Ha Hb. unfold D.total_cmp.
  rewrite key_compare_R by (try apply ofZ_fin; try apply ofZ_not_negzero; assumption).
  rewrite !ofZ_R by assumption. apply Rcompare_IZR.
Qed.

Lemma key_le_ofZ a b : Z.abs a < 2 ^ 53 -> Z.abs b < 2 ^ 53 ->
  (D.key (D.of_Z a) <=? D.key (D.of_Z b)) = (a <=? b).
Proof.
  intros Ha Hb. pose proof (total_cmp_ofZ a b Ha Hb) as H. unfold D.total_cmp in H.
  destruct (Z.compare_spec (D.key (D.of_Z a)) (D.key (D.of_Z b)));
    destruct (Z.compare_spec a b); try discriminate; lia.
Qed.

Lemma lt_ofZ a b : Z.abs a < 2 ^ 53 -> Z.abs b < 2 ^ 53 -> D.lt (D.of_Z a) (D.of_Z b) = (a <? b).
Proof. intros Ha Hb. exact (flt_of_Z 53 1024 Hp64 He64 a b Ha Hb). Qed.

Lemma le_ofZ a b : Z.abs a < 2 ^ 53 -> Z.abs b < 2 ^ 53 -> D.le (D.of_Z a) (D.of_Z b) = (a <=? b).
Proof.
  intros Ha Hb. unfold D.le, fle. rewrite Bleb_correct by (apply ofZ_fin; assumption).
  rewrite !ofZ_R by assumption.
  destruct (Rle_bool_spec (IZR a) (IZR b)) as [H|H].
  - apply le_IZR in H. lia.
  - apply lt_IZR in H. lia.
Qed.

Lemma eq_ofZ a b : Z.abs a < 2 ^ 53 -> Z.abs b < 2 ^ 53 -> D.eq (D.of_Z a) (D.of_Z b) = (a =? b).
Proof.
  intros Ha Hb. unfold D.eq, feq. rewrite Beqb_correct by (apply ofZ_fin; assumption).
  rewrite !ofZ_R by assumption.
  destruct (Req_bool_spec (IZR a) (IZR b)) as [H|H].
  - apply eq_IZR in H. lia.
  - assert (a <> b) by (intros ->; apply H; reflexivity). lia.
Qed.

(* ---------- the shift, and its invariants (T15d, float level) ---------- *)

(* "shift a time by k ms": what decoding the shifted text yields for a whole
   time (see [pn_f64_whole] below), written as the float addition *)
Definition tshift (k : Z) (t : F64) : F64 := D.add t (D.of_Z k).

(* a whole time that stays within +-2^52 under the shift *)
Definition in_range (k n : Z) : Prop := Z.abs n < 2 ^ 52 /\ Z.abs (n + k) < 2 ^ 52.
Definition whole_time (k : Z) (t : F64) : Prop := exists n, t = D.of_Z n /\ in_range k n.

Lemma in_range_k k n : in_range k n -> Z.abs k < 2 ^ 53.
Proof. unfold in_range. lia. Qed.

Lemma tshift_ofZ k n : in_range k n -> tshift k (D.of_Z n) = D.of_Z (n + k).
Proof. intros H. pose proof (in_range_k k n H). unfold in_range in H. unfold tshift. apply add_ofZ; lia. Qed.

(* every comparison between two shifted whole times is the comparison of the
   unshifted ones *)
Lemma shift_total_cmp k a b : in_range k a -> in_range k b ->
  D.total_cmp (tshift k (D.of_Z a)) (tshift k (D.of_Z b)) = D.total_cmp (D.of_Z a) (D.of_Z b).
Proof.
  intros Ha Hb. rewrite !tshift_ofZ by assumption. unfold in_range in *.
  rewrite !total_cmp_ofZ by lia.
  destruct (Z.compare_spec (a + k) (b + k)); destruct (Z.compare_spec a b); try reflexivity; lia.
Qed.

Lemma shift_lt k a b : in_range k a -> in_range k b ->
  D.lt (tshift k (D.of_Z a)) (tshift k (D.of_Z b)) = D.lt (D.of_Z a) (D.of_Z b).
Proof.
  intros Ha Hb. rewrite !tshift_ofZ by assumption. unfold in_range in *. rewrite !lt_ofZ by lia. lia.
Qed.

Lemma shift_le k a b : in_range k a -> in_range k b ->
  D.le (tshift k (D.of_Z a)) (tshift k (D.of_Z b)) = D.le (D.of_Z a) (D.of_Z b).
Proof.
  intros Ha Hb. rewrite !tshift_ofZ by assumption. unfold in_range in *. rewrite !le_ofZ by lia. lia.
Qed.

Lemma shift_eq k a b : in_range k a -> in_range k b ->
  D.eq (tshift k (D.of_Z a)) (tshift k (D.of_Z b)) = D.eq (D.of_Z a) (D.of_Z b).
Proof.
  intros Ha Hb. rewrite !tshift_ofZ by assumption. unfold in_range in *. rewrite !eq_ofZ by lia. lia.
Qed.

(* the difference of two times (spinner / hold duration) does not see the shift *)
Lemma shift_sub k a b : in_range k a -> in_range k b ->
  D.sub (tshift k (D.of_Z a)) (tshift k (D.of_Z b)) = D.sub (D.of_Z a) (D.of_Z b).
Proof.
  intros Ha Hb. rewrite !tshift_ofZ by assumption. unfold in_range in *.
  rewrite !sub_ofZ by lia. f_equal. lia.
Qed.

(* the +5 ms of the sample-point look-up commutes with the shift *)
Lemma shift_add5 k n : in_range k n ->
  D.add (tshift k (D.of_Z n)) f64_5 = tshift k (D.add (D.of_Z n) f64_5).
Proof.
  intros H. pose proof (in_range_k k n H) as Hk. rewrite tshift_ofZ by assumption.
  unfold in_range in H. rewrite f64_5_ofZ. rewrite !add_ofZ by lia.
  unfold tshift. rewrite add_ofZ by lia. f_equal. lia.
Qed.

Lemma add5_ofZ n : Z.abs n < 2 ^ 52 -> D.add (D.of_Z n) f64_5 = D.of_Z (n + 5).
Proof. intros H. rewrite f64_5_ofZ. apply add_ofZ; lia. Qed.

(* ---------- a non-integer offset added to a whole time (sliders) ---------- *)

(* The sample point of a slider (and of each of its nodes) is looked up at
   [fl(fl(start + o) + 5)], [o] the duration (resp. the node offset), which is
   in general not a whole number.  Against a whole sample-point time T the
   look-up only asks "is T after the look-up time?" ([is_gt]); below, that
   question is answered by the EXACT real number start + o + 5 -- unless that
   number lies in the window (T - 2^-g, T), where the answer depends on how the
   two additions round, i.e. on the magnitude of start (finding D29). *)

Definition is_gt (c : comparison) : bool := match c with Gt => true | _ => false end.

Definition look (s : Z) (o : F64) : F64 := D.add (D.add (D.of_Z s) o) f64_5.

(* a usable offset: finite and not astronomically large (no overflow) *)
Definition off_ok (o : F64) : Prop := is_finite o = true /\ (Rabs (B2R o) <= bpow radix2 1000)%R.

Lemma fmt_bpow e : -1074 <= e -> generic_format radix2 fexp64 (bpow radix2 e).
Proof.
  intros He. replace (bpow radix2 e) with (IZR 1 * bpow radix2 e)%R by lra.
  apply fmt_dyadic; lia.
Qed.

Lemma rnd64_abs_le x y : generic_format radix2 fexp64 y -> (Rabs x <= y)%R -> (Rabs (rnd64 x) <= y)%R.
Proof.
  apply (@abs_round_le_generic radix2 fexp64 (fexp_correct 53 1024 Hp64)
                               (round_mode mode_NE) (valid_rnd_round_mode mode_NE)).
Qed.

Lemma bpow_S e : bpow radix2 (e + 1) = (2 * bpow radix2 e)%R.
Proof. rewrite bpow_plus_1. reflexivity. Qed.

Lemma look_spec s o : Z.abs s < 2 ^ 53 -> off_ok o ->
  is_finite (look s o) = true /\
  B2R (look s o) = rnd64 (rnd64 (IZR s + B2R o) + 5) /\
  (Bsign (look s o) = true -> (rnd64 (IZR s + B2R o) + 5 < 0)%R).
Proof.
  intros Hs (Fo & Bo). destruct (ofZ_full s Hs) as (Rs & Fs & _).
  assert (H53 : (Rabs (IZR s) <= bpow radix2 53)%R).
  { rewrite <- abs_IZR. change (bpow radix2 53) with (IZR (2 ^ 53)). apply IZR_le. lia. }
  assert (P1 : (bpow radix2 53 + bpow radix2 1000 <= bpow radix2 1001)%R).
  { assert (bpow radix2 53 <= bpow radix2 1000)%R by (apply bpow_le; lia).
    change 1001 with (1000 + 1). rewrite (bpow_S 1000). lra. }
  assert (P2 : (bpow radix2 1001 + 5 <= bpow radix2 1002)%R).
  { assert (bpow radix2 3 <= bpow radix2 1001)%R by (apply bpow_le; lia).
    assert (5 <= bpow radix2 3)%R by (cbn; lra).
    change 1002 with (1001 + 1). rewrite (bpow_S 1001). lra. }
  assert (E1 : (Rabs (rnd64 (IZR s + B2R o)) <= bpow radix2 1001)%R).
  { apply rnd64_abs_le; [apply fmt_bpow; lia|].
    eapply Rle_trans; [apply Rabs_triang|]. lra. }
  set (e := rnd64 (IZR s + B2R o)) in *.
  assert (E2 : (Rabs (rnd64 (e + 5)) <= bpow radix2 1002)%R).
  { apply rnd64_abs_le; [apply fmt_bpow; lia|].
    eapply Rle_trans; [apply Rabs_triang|]. rewrite (Rabs_pos_eq 5) by lra. lra. }
  assert (L1 : (Rabs e < bpow radix2 1024)%R).
  { eapply Rle_lt_trans; [exact E1|]. apply bpow_lt. lia. }
  assert (L2 : (Rabs (rnd64 (e + 5)) < bpow radix2 1024)%R).
  { eapply Rle_lt_trans; [exact E2|]. apply bpow_lt. lia. }
  unfold look.
  pose proof (Bplus_correct 53 1024 Hp64 He64 mode_NE (D.of_Z s) o Fs Fo) as A.
  rewrite Rs in A. fold e in A. rewrite (Rlt_bool_true _ _ L1) in A. destruct A as (RA & FA & _).
  change (Bplus mode_NE (D.of_Z s) o) with (D.add (D.of_Z s) o) in RA, FA.
  rewrite f64_5_ofZ. destruct (ofZ_full 5 ltac:(lia)) as (R5 & F5 & S5).
  pose proof (Bplus_correct 53 1024 Hp64 He64 mode_NE (D.add (D.of_Z s) o) (D.of_Z 5) FA F5) as B.
  rewrite RA, R5 in B. rewrite (Rlt_bool_true _ _ L2) in B. destruct B as (RB & FB & SB).
  change (Bplus mode_NE (D.add (D.of_Z s) o) (D.of_Z 5)) with (D.add (D.add (D.of_Z s) o) (D.of_Z 5)) in RB, FB, SB.
  split; [exact FB|]. split; [exact RB|].
  intros Hsg. rewrite Hsg in SB.
  destruct (Rcompare_spec (e + 5) 0) as [H|H|H]; [exact H| |discriminate SB].
  rewrite S5, andb_false_r in SB. discriminate SB.
Qed.

Section Offsets.
  Variable g : Z.
  Hypothesis Hg : 0 <= g <= 1074.

  (* the whole time T, T - 5 and the two window ends T - 2^-g, T - 5 - 2^-g are binary64 numbers *)
  Definition fits (T : Z) : Prop := (Z.abs T + 6) * 2 ^ g < 2 ^ 53.

  (* start + o + 5, exactly, is not in the window (T - 2^-g, T) *)
  Definition clear_of (s : Z) (o : F64) (T : Z) : Prop :=
    (IZR T <= IZR s + B2R o + 5)%R \/ (IZR s + B2R o + 5 <= IZR T - bpow radix2 (- g))%R.

  Lemma pow_g_pos : 1 <= 2 ^ g.
  Proof. pose proof (Z.pow_pos_nonneg 2 g). lia. Qed.

  Lemma fits_abs T : fits T -> Z.abs T + 6 < 2 ^ 53.
  Proof. unfold fits. pose proof pow_g_pos. nia. Qed.

  Lemma window_end_fmt T c : 0 <= c <= 5 -> fits T ->
    generic_format radix2 fexp64 (IZR T - IZR c - bpow radix2 (- g)).
  Proof.
    intros Hc HT.
    assert (HG : (IZR (2 ^ g) * bpow radix2 (- g) = 1)%R).
    { change 2 with (radix_val radix2). rewrite IZR_Zpower by lia. rewrite <- bpow_plus.
      replace (g + - g) with 0 by lia. reflexivity. }
    replace (IZR T - IZR c - bpow radix2 (- g))%R with (IZR ((T - c) * 2 ^ g - 1) * bpow radix2 (- g))%R.
    - apply fmt_dyadic; [|lia]. unfold fits in HT. pose proof pow_g_pos. nia.
    - rewrite minus_IZR, mult_IZR, minus_IZR.
      transitivity ((IZR T - IZR c) * (IZR (2 ^ g) * bpow radix2 (- g)) - 1 * bpow radix2 (- g))%R; [ring|].
      rewrite HG. ring.
  Qed.

  (* the look-up against a whole time, decided by the exact real number *)
  Lemma look_cmp s o T :
    Z.abs s < 2 ^ 53 -> off_ok o -> fits T -> clear_of s o T ->
    is_gt (D.total_cmp (D.of_Z T) (look s o)) = negb (Rle_bool (IZR T) (IZR s + B2R o + 5)).
  Proof.
    intros Hs Ho HT Hc. pose proof (fits_abs T HT) as HTa.
    destruct (look_spec s o Hs Ho) as (Fl & Rl & Sl).
    assert (HT53 : Z.abs T < 2 ^ 53) by lia.
    destruct (ofZ_full T HT53) as (RT & FT & ST).
    pose proof (bpow_gt_0 radix2 (- g)) as Hw.
    unfold clear_of in Hc. set (x := (IZR s + B2R o)%R) in *. set (e := rnd64 x) in *.
    destruct Hc as [Hc|Hc].
    - (* T <= x + 5: the point is not after the look-up time *)
      rewrite (Rle_bool_true _ _ Hc). cbn [negb].
      assert (He : (IZR (T - 5) <= e)%R).
      { rewrite <- (rnd64_id (IZR (T - 5))) by (apply fmt_int; lia).
        apply rnd64_le. rewrite minus_IZR. lra. }
      assert (Hl : (IZR T <= B2R (look s o))%R).
      { rewrite Rl. rewrite <- (rnd64_id (IZR T)) at 1 by (apply fmt_int; lia).
        apply rnd64_le. rewrite minus_IZR in He. lra. }
      unfold D.total_cmp.
      destruct (Z.compare_spec (D.key (D.of_Z T)) (D.key (look s o))) as [E|E|E]; try reflexivity.
      exfalso.
      destruct (key_lt_num (look s o) (D.of_Z T) (finite_not_nan64 _ Fl) (finite_not_nan64 _ FT) E)
        as [Hlt|[Ez ET]].
      + apply lt_R in Hlt; try assumption. rewrite RT in Hlt. lra.
      + assert (Hs' : Bsign (look s o) = true) by (rewrite Ez; reflexivity).
        specialize (Sl Hs'). rewrite ET in RT. cbn in RT.
        rewrite minus_IZR in He. rewrite <- RT in He. lra.
    - (* x + 5 <= T - 2^-g: the point is after the look-up time *)
      assert (Hn : ~ (IZR T <= x + 5)%R) by lra.
      rewrite (Rle_bool_false (IZR T) (x + 5)) by lra. cbn [negb].
      assert (He : (e <= IZR T - IZR 5 - bpow radix2 (- g))%R).
      { rewrite <- (rnd64_id (IZR T - IZR 5 - bpow radix2 (- g))) by (apply window_end_fmt; [lia|assumption]).
        apply rnd64_le. lra. }
      assert (Hl : (B2R (look s o) <= IZR T - IZR 0 - bpow radix2 (- g))%R).
      { rewrite Rl. rewrite <- (rnd64_id (IZR T - IZR 0 - bpow radix2 (- g))) by (apply window_end_fmt; [lia|assumption]).
        apply rnd64_le. lra. }
      unfold D.total_cmp.
      assert (Hk : D.key (look s o) < D.key (D.of_Z T)).
      { apply num_lt_key; try (apply finite_not_nan64; assumption).
        apply R_lt; try assumption. rewrite RT. lra. }
      apply Z.compare_gt_iff in Hk. rewrite Hk. reflexivity.
  Qed.

  (* hence: the answer is the same for the shifted start and the shifted point *)
  Lemma look_cmp_shift k s o T :
    Z.abs s < 2 ^ 53 -> Z.abs (s + k) < 2 ^ 53 -> off_ok o ->
    fits T -> fits (T + k) -> clear_of s o T ->
    is_gt (D.total_cmp (D.of_Z (T + k)) (look (s + k) o)) = is_gt (D.total_cmp (D.of_Z T) (look s o)).
  Proof.
    intros Hs Hsk Ho HT HTk Hc.
    rewrite (look_cmp s o T Hs Ho HT Hc).
    assert (Hc' : clear_of (s + k) o (T + k)).
    { unfold clear_of in *. rewrite !plus_IZR. destruct Hc; [left|right]; lra. }
    rewrite (look_cmp (s + k) o (T + k) Hsk Ho HTk Hc').
    f_equal. rewrite !plus_IZR.
    destruct (Rle_bool_spec (IZR T + IZR k) (IZR s + IZR k + B2R o + 5));
      destruct (Rle_bool_spec (IZR T) (IZR s + B2R o + 5)); try reflexivity; lra.
  Qed.
End Offsets.

(* ---------- the parse side: whole-number literals ---------- *)

(* the text s is a decimal literal (Rust float grammar, after trimming) whose
   value is the whole number n, and it is not a "-0" *)
Definition denotes_whole (s : str) (n : Z) : Prop :=
  exists neg m e, decimal_literal (trim s) neg m e /\ dec_value neg m e = IZR n /\ (n = 0 -> neg = false).

(* ParseNumber reads such a text as exactly [D.of_Z n] *)
Lemma pn_f64_whole s x n :
  Z.abs n < 2 ^ 53 -> pn_f64 s = Some x -> denotes_whole s n -> x = D.of_Z n.
Proof.
  intros Hn Hp (neg & m & e & Hl & Hv & Hz).
  destruct (pn_f64_correctly_rounded s x Hp) as (neg' & m' & e' & Hl' & HR & HF & HS).
  apply parse_fnum_decimal_iff in Hl. apply parse_fnum_decimal_iff in Hl'.
  assert (E : neg' = neg /\ m' = m /\ e' = e) by (rewrite Hl in Hl'; inversion Hl'; auto).
  destruct E as (E1 & E2 & E3). rewrite E1 in HS. rewrite E1, E2, E3 in HR. clear Hl'.
  rewrite Hv in HR. unfold round64 in HR.
  change (round radix2 (FLT_exp (-1074) 53) ZnearestE (IZR n)) with (rnd64 (IZR n)) in HR.
  rewrite (rnd64_id _ (fmt_int n Hn)) in HR.
  apply ofZ_char; try assumption. intros E0. rewrite HS. exact (Hz E0).
Qed.

(* parse(t + k) = parse(t) + k for whole-number literals *)
Lemma pn_f64_shift k n s s' x x' :
  in_range k n ->
  pn_f64 s = Some x -> denotes_whole s n ->
  pn_f64 s' = Some x' -> denotes_whole s' (n + k) ->
  x = D.of_Z n /\ x' = tshift k x.
Proof.
  intros Hr Hp Hd Hp' Hd'. pose proof Hr as (H1 & H2).
  assert (Ex : x = D.of_Z n) by (apply (pn_f64_whole s); try assumption; lia).
  split; [exact Ex|]. rewrite Ex, tshift_ofZ by assumption.
  apply (pn_f64_whole s'); try assumption. lia.
Qed.
